#!/bin/sh
# Run every registered quick (or $1 = thorough) check, one after another, at VERIF_SEED (default 0).
cd "$(dirname "$0")/.."
TIER=${1:-quick}
python3 - "$TIER" <<'PY'
import json, subprocess, sys, time
tier = sys.argv[1]
man = json.load(open('MANIFEST.json'))
bad = 0
for c in man['checks']:
    cmd = c['quick_cmd'] if tier == 'quick' else c.get('thorough_cmd', c['quick_cmd'])
    t = time.time()
    p = subprocess.run(cmd, shell=True, stdout=subprocess.PIPE, stderr=subprocess.STDOUT, text=True)
    last = [l for l in p.stdout.strip().split('\n') if l.startswith(('PASS', 'FAIL', 'VIOLATION', 'KNOWN'))]
    print('%-4s rc=%d %.0fs  %s' % (c['property_id'], p.returncode, time.time() - t, ' | '.join(last)[:300]))
    bad += (p.returncode != 0)
sys.exit(1 if bad else 0)
PY
