import BFL.Model.Skip
import BFL.Proofs.Skip
/-
C13 — Skip commands are safe, reversible and turn the skipped step into the identity.

Model: BFL/Model/Skip.lean (`filterSkip`, `predictionSkip`, `stateModelSkip`, `correctionSkip`,
`predPath`, `linearPropagate`), transcribed from the dispatch chains of GaussianFilter /
ParticleFilter, GaussianPrediction / PFPrediction, StateModel, ExogenousModel and from the skip
tests in predict / correct / predictStep / LinearStateModel::propagate.

All theorems quantify over *every* command list (no bound on the length), both configurations
(with / without exogenous model), and all five prediction classes of `PredKind`.
-/
namespace BFL
open BFL.Skip

/-- **Totality.**  From *any* flag state (reachable or not), in both configurations: the named
    commands return `true` and do not throw ('exogenous' provided such a model exists); an
    unknown name returns `false` and changes nothing. -/
theorem skip_total (st : SkipState) (n : StepName) (on : Bool) :
    (n ≠ .unknown → (n = .exogenous → st.hasExo = true) → (filterSkip st n on).out = .ret true) ∧
    (n = .unknown → filterSkip st n on = ⟨st, .ret false⟩) := by
  obtain ⟨p, s, e, c⟩ := st
  cases n <;> cases on <;> cases p <;> cases s <;> cases c <;> rcases e with _ | (_ | _) <;> decide

/-- What the code does where the property promises nothing: 'exogenous' without an exogenous
    model throws out of `StateModel::exogenous_model()` — before any flag is written. -/
theorem skip_exogenous_absent_throws (st : SkipState) (on : Bool) (h : st.hasExo = false) :
    filterSkip st .exogenous on = ⟨st, .thrown⟩ := by
  obtain ⟨p, s, e, c⟩ := st
  cases on <;> cases p <;> cases s <;> cases c <;> rcases e with _ | (_ | _) <;>
    first | decide | (revert h; decide)

/-- The configuration built with `DrawParticles(state_model, exogenous_model)` (fixed by
    18ea290: the constructor attaches the model) is covered by `skip_total`: the exogenous model
    is attached, 'exogenous' returns `true`, and the never-skipped prediction applies the input. -/
theorem skip_total_draw_two_arg (on : Bool) :
    (drawTwoArgConfig true).hasExo = true ∧
    (filterSkip (drawTwoArgConfig true) .exogenous on).out = .ret true ∧
    predPath .draw (drawTwoArgConfig true) = .ran .fxExo := by
  cases on <;> decide

/-- No command ever throws after having written a flag: a thrown command leaves the state as it was. -/
theorem skip_thrown_changes_nothing (st : SkipState) (c : Cmd) (h : (skipCmd st c).out = .thrown) :
    (skipCmd st c).st = st := by
  obtain ⟨p, s, e, cr⟩ := st
  obtain ⟨l, n, on⟩ := c
  cases l <;> cases n <;> cases on <;> cases p <;> cases s <;> cases cr <;> rcases e with _ | (_ | _) <;>
    first | decide | (revert h; decide)

/-- **Invariant.**  After every sequence of commands given to the filter or to its steps,
    `prediction.skipping = state.skipping ∧ (no exogenous model ∨ exogenous.skipping)`. -/
theorem skip_inv (hasExo : Bool) (cs : List Cmd) (h : ∀ c ∈ cs, c.viaSteps) :
    Inv (run (SkipState.init hasExo) cs) :=
  run_inv cs _ h (init_inv hasExo)

/-- The configuration is not changed by commands. -/
theorem skip_keeps_configuration (hasExo : Bool) (cs : List Cmd) :
    (run (SkipState.init hasExo) cs).hasExo = hasExo := by
  rw [run_hasExo]; cases hasExo <;> rfl

/-- **The skipping state reported matches the commands given**: after any list of filter-level
    commands the four flags are those of the specification fold `Spec.run`, and the next command
    answers as the specification says. -/
theorem skip_reports_commands (hasExo : Bool) (cs : List (StepName × Bool)) :
    run (SkipState.init hasExo) (filterCmds cs) = ((Spec.init hasExo).run cs).flags ∧
    ∀ (n : StepName) (on : Bool),
      (filterSkip (run (SkipState.init hasExo) (filterCmds cs)) n on).out = ((Spec.init hasExo).run cs).outcome n := by
  have h := run_spec cs (Spec.init hasExo)
  rw [init_flags] at h
  refine ⟨h, fun n on => ?_⟩
  rw [h, filterSkip_spec]

/-- **Identity.**  While the prediction is reported as skipping, `predict` returns its input,
    for every prediction class; while the correction is skipped, `correctStep` is not run
    (`correct` assigns the input to the output). -/
theorem skip_identity (k : PredKind) (st : SkipState) :
    (st.pred = true → predObs k st = .identity) ∧ (st.corr = true → corrRuns st = false) := by
  obtain ⟨p, s, e, c⟩ := st
  cases k <;> cases p <;> cases s <;> cases c <;> rcases e with _ | (_ | _) <;> decide

/-- Identity, in terms of the commands given: 'prediction' on (or 'all' on, or 'state' and
    'exogenous' on separately) makes `predict` the identity until one of them is switched off. -/
theorem skip_identity_of_commands (hasExo : Bool) (cs : List (StepName × Bool)) (k : PredKind) :
    (((Spec.init hasExo).run cs).predSkipped = true →
        predObs k (run (SkipState.init hasExo) (filterCmds cs)) = .identity) ∧
    (((Spec.init hasExo).run cs).corr = true →
        corrRuns (run (SkipState.init hasExo) (filterCmds cs)) = false) := by
  rw [(skip_reports_commands hasExo cs).1]
  constructor
  · intro h; exact (skip_identity k _).1 h
  · intro h; exact (skip_identity k _).2 h

/-- 'all' on: both steps are the identity, from any state. -/
theorem skip_all_on (k : PredKind) (st : SkipState) :
    predObs k (filterSkip st .all true).st = .identity ∧ corrRuns (filterSkip st .all true).st = false := by
  obtain ⟨p, s, e, c⟩ := st
  cases k <;> cases p <;> cases s <;> cases c <;> rcases e with _ | (_ | _) <;> decide

/-- 'all' off resets every flag, from any state. -/
theorem skip_all_off_resets (st : SkipState) :
    (filterSkip st .all false).st = SkipState.init st.hasExo := by
  obtain ⟨p, s, e, c⟩ := st
  cases p <;> cases s <;> cases c <;> rcases e with _ | (_ | _) <;> decide

/-- The never-skipped behaviour: the state model runs in full, with the exogenous contribution
    exactly when there is an exogenous model; the correction runs. -/
theorem never_skipped_behaviour (hasExo : Bool) (k : PredKind) :
    predPath k (SkipState.init hasExo) = .ran (if hasExo then .fxExo else .fx) ∧
    corrRuns (SkipState.init hasExo) = true := by
  cases hasExo <;> cases k <;> decide

/-- **Restore.**  For every command sequence after which nothing is switched on any more (state
    model off, exogenous model off or absent, correction off — however that was reached:
    'prediction'/'all' off, or the parts one by one), each step takes the same branch as in a
    filter that was never given a skip command. -/
theorem skip_restore (hasExo : Bool) (cs : List (StepName × Bool)) (k : PredKind)
    (hs : ((Spec.init hasExo).run cs).state = false)
    (he : hasExo = true → ((Spec.init hasExo).run cs).exo = false)
    (hc : ((Spec.init hasExo).run cs).corr = false) :
    predPath k (run (SkipState.init hasExo) (filterCmds cs)) = predPath k (SkipState.init hasExo) ∧
    corrRuns (run (SkipState.init hasExo) (filterCmds cs)) = corrRuns (SkipState.init hasExo) := by
  have hflags : ((Spec.init hasExo).run cs).flags = SkipState.init hasExo := by
    have hx := spec_run_hasExo cs (Spec.init hasExo)
    generalize (Spec.init hasExo).run cs = s at *
    obtain ⟨h, st, e, c⟩ := s
    simp only [Spec.init] at hx
    subst hx
    simp only at hs hc he
    subst hs hc
    cases h
    · cases e <;> decide
    · simp only [he rfl]; decide
  rw [(skip_reports_commands hasExo cs).1, hflags]
  exact ⟨rfl, rfl⟩

/-- In a state reachable through the filter or the steps, `LinearStateModel::propagate` never
    falls through all of its branches and never copies: whenever the state model is consulted
    the result is `F x (+ u)` or — `DrawParticles` only, state model skipped while the exogenous
    model is not — the exogenous part alone. -/
theorem reachable_propagate_defined (k : PredKind) (st : SkipState) (h : Inv st) :
    predObs k st ≠ .step .untouched ∧ predObs k st ≠ .step .copy ∧
    (predObs k st = .step .exoOnly → k = .draw ∧ st.state = true ∧ st.exo = some false) := by
  obtain ⟨p, s, e, c⟩ := st
  cases k <;> cases p <;> cases s <;> cases c <;> rcases e with _ | (_ | _) <;>
    first | decide | (revert h; decide)

/-- Recorded behaviour in a partial state (not constrained by the property): with 'state'
    skipped and an exogenous model that is *not* skipped, `prediction.skipping` is false, the
    Kalman and unscented `predictStep` nevertheless return their input (the exogenous part is
    not applied), while `DrawParticles` applies the exogenous part alone. -/
theorem partial_state_skip (st : SkipState) (h : Inv st) (hs : st.state = true) (he : st.exo = some false) :
    st.pred = false ∧
    predPath .kf st = .atPredictStep ∧ predPath .ukfAdd st = .atPredictStep ∧
    predPath .ukfGen st = .atPredictStep ∧ predPath .gpfKf st = .atPredictStep ∧
    predPath .draw st = .ran .exoOnly := by
  obtain ⟨p, s, e, c⟩ := st
  subst hs he
  cases p <;> cases c <;> first | decide | (revert h; decide)

/-- **Hand-over is transparent**: a filter rebuilt around move-constructed steps reports the same
    flags, answers the next command identically and takes the same branch in predict / correct as
    the configured original — after every command history, for every prediction class. -/
theorem skip_handover_transparent (st : SkipState) (k : PredKind) (c : Cmd) :
    handOver st = st ∧ skipCmd (handOver st) c = skipCmd st c ∧
    predPath k (handOver st) = predPath k st ∧ corrRuns (handOver st) = corrRuns st := by
  cases st
  exact ⟨rfl, rfl, rfl, rfl⟩

/-- Hand-overs may be interleaved with commands anywhere in a history without changing the
    resulting state. -/
theorem run_with_handovers (cs₁ cs₂ : List Cmd) (st : SkipState) :
    run (handOver (run st cs₁)) cs₂ = run st (cs₁ ++ cs₂) := by
  rw [(skip_handover_transparent _ .kf ⟨.filter, .unknown, false⟩).1]
  induction cs₁ generalizing st with
  | nil => rfl
  | cons c cs ih => simp only [run, List.cons_append]; exact ih _

/-- What fix 88cf1f5 repairs: before it, handing over a Gaussian correction whose skip was on
    gave a filter that corrects again. -/
theorem handover_before_fix_lost_correction_skip :
    let st := (filterSkip (SkipState.init false) .all true).st
    corrRuns st = false ∧ corrRuns (handOverBefore88cf1f5 st) = true ∧ corrRuns (handOver st) = false := by
  decide

/-! ### The whole command language against a table of switches, with the running belief

`runOps` is the concrete machine (four flags, dispatch chains, the two tests in `predict` /
`predictStep`, `LinearStateModel::propagate`, `correct`) carrying the running belief;
`Spec.runOps` is the specification (three switches, a table).  `Sem` — what the steps compute,
possibly time-varying — is arbitrary throughout, histories are of any length. -/

variable {β : Type}

/-- **Refinement.**  For every history of filter-level commands, predict / correct calls and
    hand-overs, from a freshly built filter: flags, running belief and clock of the real state
    machine are those of the table-driven specification. -/
theorem skip_history_refines_spec (hasExo : Bool) (sem : Sem β) (k : PredKind) (ops : List SOp) (b : β) (t : Nat) :
    runOps sem k ⟨SkipState.init hasExo, b, t⟩ (ops.map SOp.toOp)
      = (Spec.runOps sem k ⟨Spec.init hasExo, b, t⟩ ops).toFilter := by
  have h := runOps_spec sem k ops ⟨Spec.init hasExo, b, t⟩
  simpa only [SpecSt.toFilter, init_flags] using h

/-- The table entry is what an observer of `predict` sees, in every specification state. -/
theorem skip_table_observed (s : Spec) (k : PredKind) :
    predObs k s.flags = s.predBehaviour k ∧ corrRuns s.flags = !s.corr := by
  refine ⟨predObs_spec s k, ?_⟩
  obtain ⟨h, st, e, c⟩ := s
  cases c <;> rfl

/-- **Commands never touch the belief**: a history without predict / correct calls — commands at
    any of the five levels (throwing or not), hand-overs, attachments — leaves belief and clock as they were. -/
theorem skip_commands_keep_belief (sem : Sem β) (k : PredKind) (s : FilterSt β) (ops : List Op)
    (h : ∀ o ∈ ops, o.isStep = false) :
    (runOps sem k s ops).belief = s.belief ∧ (runOps sem k s ops).clock = s.clock :=
  runOps_no_step sem k ops s h

/-- **Identity lifted to histories.**  After any history `h` that leaves prediction and
    correction skipped, every continuation in which no command switches anything off — any number
    of predict / correct calls, hand-overs, further 'on' commands, unknown names — ends with the
    belief it started from, whatever the steps would have computed. -/
theorem skip_history_identity (hasExo : Bool) (sem : Sem β) (k : PredKind) (h ops : List SOp) (b : β) (t : Nat)
    (hp : (Spec.runOps sem k ⟨Spec.init hasExo, b, t⟩ h).spec.predSkipped = true)
    (hc : (Spec.runOps sem k ⟨Spec.init hasExo, b, t⟩ h).spec.corr = true)
    (hon : ∀ o ∈ ops, o.onOnly) :
    (runOps sem k ⟨SkipState.init hasExo, b, t⟩ ((h ++ ops).map SOp.toOp)).belief
      = (runOps sem k ⟨SkipState.init hasExo, b, t⟩ (h.map SOp.toOp)).belief := by
  rw [skip_history_refines_spec, skip_history_refines_spec, specRunOps_append]
  exact specRunOps_all_skipped sem k ops _ hp hc hon

/-- **Restore lifted to histories.**  After any history at whose end nothing is switched on,
    every continuation runs exactly as on a filter that was never given a skip command and is
    started from the belief and time reached. -/
theorem skip_history_restore (hasExo : Bool) (sem : Sem β) (k : PredKind) (h : List SOp) (ops : List Op) (b : β) (t : Nat)
    (hs : (Spec.runOps sem k ⟨Spec.init hasExo, b, t⟩ h).spec.state = false)
    (he : hasExo = true → (Spec.runOps sem k ⟨Spec.init hasExo, b, t⟩ h).spec.exo = false)
    (hc : (Spec.runOps sem k ⟨Spec.init hasExo, b, t⟩ h).spec.corr = false) :
    runOps sem k ⟨SkipState.init hasExo, b, t⟩ (h.map SOp.toOp ++ ops)
      = runOps sem k ⟨SkipState.init hasExo,
                      (Spec.runOps sem k ⟨Spec.init hasExo, b, t⟩ h).belief,
                      (Spec.runOps sem k ⟨Spec.init hasExo, b, t⟩ h).clock⟩ ops := by
  rw [runOps_append, skip_history_refines_spec]
  have hx : (Spec.runOps sem k ⟨Spec.init hasExo, b, t⟩ h).spec.hasExo = hasExo := by
    rw [specRunOps_hasExo]; cases hasExo <;> rfl
  generalize Spec.runOps sem k ⟨Spec.init hasExo, b, t⟩ h = r at *
  obtain ⟨⟨x, st, e, c⟩, bb, tt⟩ := r
  simp only at hs he hc hx
  subst hs hc hx
  have hfl : (Spec.flags ⟨x, false, e, false⟩) = SkipState.init x := by
    cases x
    · cases e <;> decide
    · simp only [he rfl]; decide
  simp only [SpecSt.toFilter, hfl]

/-- **Reversibility.**  A block of commands that nets to nothing in the table (`Spec.run`
    returns the state it started from) may be inserted anywhere in a history: flags, belief and
    clock at the end are the same as without it. -/
theorem skip_net_nothing (hasExo : Bool) (sem : Sem β) (k : PredKind) (h₁ h₂ : List SOp) (cs : List (StepName × Bool))
    (b : β) (t : Nat)
    (hnet : (Spec.runOps sem k ⟨Spec.init hasExo, b, t⟩ h₁).spec.run cs = (Spec.runOps sem k ⟨Spec.init hasExo, b, t⟩ h₁).spec) :
    runOps sem k ⟨SkipState.init hasExo, b, t⟩ ((h₁ ++ cmdBlock cs ++ h₂).map SOp.toOp)
      = runOps sem k ⟨SkipState.init hasExo, b, t⟩ ((h₁ ++ h₂).map SOp.toOp) := by
  rw [skip_history_refines_spec, skip_history_refines_spec, specRunOps_append, specRunOps_append,
    specRunOps_append, specRunOps_cmdBlock, hnet]

/-- The last command with a given name wins, in every table state; hence `on` followed by `off`
    is `off`, and `off` changes nothing where the switches it names are off. -/
theorem skip_last_command_wins (s : Spec) (n : StepName) (b b' : Bool) :
    ((s.apply n b').apply n b = s.apply n b) ∧
    (s.state = false → (s.hasExo = true → s.exo = false) → s.corr = false →
      ((s.apply n true).apply n false).flags = s.flags) := by
  obtain ⟨h, st, e, c⟩ := s
  constructor
  · cases n <;> cases h <;> rfl
  · intro hs he hc
    simp only at hs he hc
    subst hs hc
    cases h
    · cases n <;> cases e <;> decide
    · simp only [he rfl]; cases n <;> decide

/-- `on`/`off` pairs of any one name on a never-skipped filter net to nothing (instances of `skip_net_nothing`). -/
theorem skip_on_off_nets_nothing (hasExo : Bool) (n : StepName) :
    run (SkipState.init hasExo) (filterCmds [(n, true), (n, false)]) = SkipState.init hasExo := by
  cases hasExo <;> cases n <;> decide

/-! ### Configuration changed after construction; the exogenous model addressed directly -/

/-- Attaching an exogenous model to a filter on which no part of the prediction is skipped gives
    exactly the freshly built filter with such a model; in general it keeps every other flag. -/
theorem attach_unskipped (st : SkipState) (hs : st.state = false) (hi : Inv st) :
    Inv (attachExo st) ∧ (attachExo st).pred = false ∧
    (st.corr = false → attachExo st = SkipState.init true) := by
  obtain ⟨p, s, e, c⟩ := st
  simp only at hs
  subst hs
  cases p <;> cases c <;> rcases e with _ | (_ | _) <;> first | decide | (revert hi; decide)

/-- While the prediction is skipped an attachment leaves the aggregate flag stale (the reported
    state says "skipped" although the new exogenous model is not) — `predict` stays the identity,
    as the last command asked; -/
theorem attach_while_skipped_stale :
    let st := attachExo (filterSkip (SkipState.init false) .prediction true).st
    ¬ Inv st ∧ st.pred = true ∧ st.exo = some false ∧ ∀ k, predObs k st = .identity := by
  refine ⟨by decide, by decide, by decide, fun k => ?_⟩
  cases k <;> decide

/-- … and the next command naming 'prediction', 'state', 'exogenous' or 'all' (on or off, at
    filter or prediction level) recomputes it: nothing is latched at construction. -/
theorem attach_resync (st : SkipState) (n : StepName) (on : Bool)
    (hn : n = .prediction ∨ n = .state ∨ n = .exogenous ∨ n = .all) :
    Inv (filterSkip (attachExo st) n on).st ∧ (filterSkip (attachExo st) n on).out = .ret true ∧
    (n = .all → on = false → (filterSkip (attachExo st) n on).st = SkipState.init true) := by
  obtain ⟨p, s, e, c⟩ := st
  rcases hn with h | h | h | h <;> subst h <;>
    cases on <;> cases p <;> cases s <;> cases c <;> rcases e with _ | (_ | _) <;> decide

/-- `exogenous_model().skip(name, on)` called directly: throws (nothing written) without a model;
    with one, only the exact name 'exogenous' is understood — every other name, the filter's
    own names included, returns `false` and changes nothing. -/
theorem exo_model_level_skip (st : SkipState) (n : StepName) (on : Bool) :
    (st.hasExo = false → exoModelSkip st n on = ⟨st, .thrown⟩) ∧
    (st.hasExo = true → n ≠ .exogenous → exoModelSkip st n on = ⟨st, .ret false⟩) ∧
    (st.hasExo = true → n = .exogenous → exoModelSkip st n on = ⟨{ st with exo := some on }, .ret true⟩) := by
  obtain ⟨p, s, e, c⟩ := st
  cases n <;> cases on <;> cases p <;> cases s <;> cases c <;> rcases e with _ | (_ | _) <;> decide

/-! ### Non-vacuity -/

/-- a history ending with everything off after partial and full skips, with an exogenous model -/
example : let cs : List (StepName × Bool) :=
            [(.all, true), (.state, false), (.unknown, true), (.prediction, false), (.exogenous, true),
             (.correction, false), (.exogenous, false)]
          ((Spec.init true).run cs).state = false ∧ ((Spec.init true).run cs).exo = false ∧
          ((Spec.init true).run cs).corr = false := by decide

/-- the identity hypothesis is reachable without the word 'prediction' -/
example : ((Spec.init true).run [(.state, true), (.exogenous, true)]).predSkipped = true := by decide

/-- a state-model-level command breaks the invariant (hence the restriction in `skip_inv`) -/
example : ¬ Inv (run (SkipState.init true) [⟨.stateModel, .state, true⟩, ⟨.stateModel, .exogenous, true⟩]) := by
  decide

/-- and then `DrawParticles` reaches the copying branch of `propagate`, which is not the identity
    of `predict` (noise is still added) -/
example : predObs .draw (run (SkipState.init true) [⟨.stateModel, .state, true⟩, ⟨.stateModel, .exogenous, true⟩])
    = .step .copy := by decide

example : predObs .draw (run (SkipState.init false) [⟨.stateModel, .state, true⟩]) = .step .untouched := by decide

/-- the hypotheses of `skip_history_identity` are met by a history that mixes names and
    contains a step that really ran -/
example : let r := Spec.runOps traceSem .kf ⟨Spec.init true, [], 0⟩
                     [.cmd .state true, .cmd .exogenous false, .cmd .state false, .predict, .cmd .state true,
                      .cmd .exogenous true, .cmd .correction true]
          r.spec.predSkipped = true ∧ r.spec.corr = true ∧ r.belief = ["fxexo"] := by
  decide

/-- the identity theorem is not vacuous: three steps and a hand-over under 'all', belief unchanged,
    while the same steps on the never-skipped filter do change it -/
example : (runOps traceSem .kf ⟨SkipState.init true, [], 0⟩
            ([SOp.cmd .all true, .predict, .correct, .handOver, .predict].map SOp.toOp)).belief = [] ∧
          (runOps traceSem .kf ⟨SkipState.init true, [], 0⟩
            ([SOp.predict, .correct, .handOver, .predict].map SOp.toOp)).belief = ["fxexo", "full", "fxexo"] := by
  decide

/-- a block that nets to nothing without being an on/off pair of one name -/
example : (Spec.init true).run [(.all, true), (.state, false), (.correction, false), (.exogenous, false)] = Spec.init true := by
  decide

/-- the exogenous model addressed directly breaks the invariant (hence `Cmd.viaSteps` excludes it) -/
example : ¬ Inv (run (SkipState.init true) [⟨.filter, .state, true⟩, ⟨.exoModel, .exogenous, true⟩]) := by decide

end BFL
