import BFL.Proofs.Quat
import Mathlib.Data.Matrix.Mul
import Mathlib.LinearAlgebra.Matrix.DotProduct
import Mathlib.Algebra.BigOperators.Fin
import Mathlib.Algebra.Order.BigOperators.Ring.Finset
/-
Helper lemmas for the quaternion mean of C18: the weighted outer-product matrix `Σ w_i c_i c_iᵀ`,
the eigenvector contract, and a dominance criterion through the quadratic form.
The first part is generic in the dimension `d`.
-/
namespace BFL.Quat
open Matrix

variable {d n : Nat}

/-- `Σ_i w_i c_i c_iᵀ` -/
def outerSum (w : Fin n → ℝ) (c : Fin n → Fin d → ℝ) : Matrix (Fin d) (Fin d) ℝ :=
  fun a b => ∑ i, w i * c i a * c i b

/-- columns of a `4 × n` matrix as vectors -/
def colsOf (q : Mat ℝ 4 n) : Fin n → Fin 4 → ℝ := fun i a => q a i

theorem toM_outerMean (w : Vec ℝ n) (q : Mat ℝ 4 n) :
    toM (outerMean w q) = outerSum (toV w) (colsOf q) := by
  ext a b
  simp [outerMean, outerSum, colsOf, fsum_eq_sum]

theorem outerSum_mulVec (w : Fin n → ℝ) (c : Fin n → Fin d → ℝ) (u : Fin d → ℝ) (a : Fin d) :
    (outerSum w c *ᵥ u) a = ∑ i, w i * (c i ⬝ᵥ u) * c i a := by
  simp only [Matrix.mulVec, dotProduct, outerSum]
  simp_rw [Finset.sum_mul]
  rw [Finset.sum_comm]
  refine Finset.sum_congr rfl (fun i _ => ?_)
  rw [Finset.mul_sum, Finset.sum_mul]
  exact Finset.sum_congr rfl (fun b _ => by ring)

/-- the quadratic form of `Σ w_i c_i c_iᵀ` -/
theorem outerSum_quadform (w : Fin n → ℝ) (c : Fin n → Fin d → ℝ) (u : Fin d → ℝ) :
    u ⬝ᵥ (outerSum w c *ᵥ u) = ∑ i, w i * (c i ⬝ᵥ u) ^ 2 := by
  simp only [dotProduct, outerSum_mulVec]
  have : ∀ x, u x * ∑ i, (w i * ∑ b, c i b * u b) * c i x
      = ∑ i, (w i * ∑ b, c i b * u b) * (c i x * u x) := by
    intro x; rw [Finset.mul_sum]; exact Finset.sum_congr rfl (fun i _ => by ring)
  simp_rw [this]
  rw [Finset.sum_comm]
  refine Finset.sum_congr rfl (fun i _ => ?_)
  rw [← Finset.mul_sum]; ring

/-- The contract of the eigen-solver call in `mean_quaternion`: a unit eigenvector whose eigenvalue
    is maximal among all real eigenvalues of the matrix. -/
def IsDominantEigvec (M : Matrix (Fin d) (Fin d) ℝ) (v : Fin d → ℝ) : Prop :=
  v ⬝ᵥ v = 1 ∧ ∃ lam : ℝ, M *ᵥ v = lam • v ∧
    ∀ (mu : ℝ) (u : Fin d → ℝ), u ≠ 0 → M *ᵥ u = mu • u → mu ≤ lam

theorem dot_self_pos {u : Fin d → ℝ} (hu : u ≠ 0) : 0 < u ⬝ᵥ u := by
  have h0 : 0 ≤ u ⬝ᵥ u := by
    simp only [dotProduct]; exact Finset.sum_nonneg (fun i _ => mul_self_nonneg _)
  rcases h0.lt_or_eq with h | h
  · exact h
  · exact absurd (dotProduct_self_eq_zero.mp h.symm) hu

/-- Cauchy–Schwarz against a unit vector -/
theorem dot_sq_le (p u : Fin d → ℝ) (hp : p ⬝ᵥ p = 1) : (p ⬝ᵥ u) ^ 2 ≤ u ⬝ᵥ u := by
  have h : 0 ≤ (u - (p ⬝ᵥ u) • p) ⬝ᵥ (u - (p ⬝ᵥ u) • p) := by
    simp only [dotProduct]; exact Finset.sum_nonneg (fun i _ => mul_self_nonneg _)
  have e : (u - (p ⬝ᵥ u) • p) ⬝ᵥ (u - (p ⬝ᵥ u) • p) = u ⬝ᵥ u - (p ⬝ᵥ u) ^ 2 := by
    simp only [sub_dotProduct, dotProduct_sub, smul_dotProduct, dotProduct_smul, smul_eq_mul, hp,
      dotProduct_comm u p]
    ring
  linarith

/-- equality case: unit `v` with `(p·v)² = 1` is `±p` -/
theorem eq_or_neg_of_dot_sq (p v : Fin d → ℝ) (hp : p ⬝ᵥ p = 1) (hv : v ⬝ᵥ v = 1)
    (h : (p ⬝ᵥ v) ^ 2 = 1) : v = p ∨ v = -p := by
  have e : (v - (p ⬝ᵥ v) • p) ⬝ᵥ (v - (p ⬝ᵥ v) • p) = v ⬝ᵥ v - (p ⬝ᵥ v) ^ 2 := by
    simp only [sub_dotProduct, dotProduct_sub, smul_dotProduct, dotProduct_smul, smul_eq_mul, hp,
      dotProduct_comm v p]
    ring
  rw [hv, h, sub_self] at e
  have hz : v - (p ⬝ᵥ v) • p = 0 := dotProduct_self_eq_zero.mp e
  have hvp : v = (p ⬝ᵥ v) • p := sub_eq_zero.mp hz
  have : p ⬝ᵥ v = 1 ∨ p ⬝ᵥ v = -1 := sq_eq_one_iff.mp h
  rcases this with h1 | h1
  · left; rw [hvp, h1, one_smul]
  · right; rw [hvp, h1, neg_one_smul]

/-- Dominance criterion.  `p` is a unit eigenvector with eigenvalue `a` and the quadratic form is
    bounded by `a (p·u)² + t (|u|² − (p·u)²)` with `t < a`.  Then `p` satisfies the contract and every
    vector satisfying the contract is `±p`. -/
theorem dominant_of_quadform (w : Fin n → ℝ) (c : Fin n → Fin d → ℝ) (p : Fin d → ℝ) (a t : ℝ)
    (hp : p ⬝ᵥ p = 1) (hMp : outerSum w c *ᵥ p = a • p) (hta : t < a)
    (hQ : ∀ u : Fin d → ℝ, ∑ i, w i * (c i ⬝ᵥ u) ^ 2 ≤ a * (p ⬝ᵥ u) ^ 2 + t * (u ⬝ᵥ u - (p ⬝ᵥ u) ^ 2)) :
    IsDominantEigvec (outerSum w c) p ∧
    ∀ v, IsDominantEigvec (outerSum w c) v → v = p ∨ v = -p := by
  have hp0 : p ≠ 0 := by
    intro h; rw [h] at hp; simp at hp
  -- every eigenvalue is at most `a`
  have hmax : ∀ (mu : ℝ) (u : Fin d → ℝ), u ≠ 0 → outerSum w c *ᵥ u = mu • u → mu ≤ a := by
    intro mu u hu hMu
    have hq := outerSum_quadform w c u
    rw [hMu, dotProduct_smul, smul_eq_mul] at hq
    have hcs := dot_sq_le p u hp
    have hpos := dot_self_pos hu
    have hb := hQ u
    rw [← hq] at hb
    by_contra hlt
    rw [not_le] at hlt
    nlinarith [mul_nonneg (sub_pos.mpr hta).le (sub_nonneg.mpr hcs), mul_pos (sub_pos.mpr hlt) hpos]
  refine ⟨⟨hp, a, hMp, hmax⟩, ?_⟩
  rintro v ⟨hv, lam, hMv, hvmax⟩
  have h1 : a ≤ lam := hvmax a p hp0 hMp
  have hq := outerSum_quadform w c v
  rw [hMv, dotProduct_smul, smul_eq_mul, hv, mul_one] at hq
  have hb := hQ v
  rw [← hq, hv] at hb
  have hcs := dot_sq_le p v hp
  rw [hv] at hcs
  have : (p ⬝ᵥ v) ^ 2 = 1 := by
    by_contra hne
    have hlt : (p ⬝ᵥ v) ^ 2 < 1 := lt_of_le_of_ne hcs hne
    nlinarith [mul_pos (sub_pos.mpr hta) (sub_pos.mpr hlt)]
  exact eq_or_neg_of_dot_sq p v hp hv this

end BFL.Quat
