"""C05 — the serial UKF correction equals the standard additive UKF correction.

Property oracle, literally: the real SUKFCorrection against the real (additive) UKFCorrection on the
same belief, measurement function, measurement and noise covariance (given in full or as one shared
block) — corrected mean, covariance, likelihood — within a tolerance scaled by the condition numbers
of the matrices the two algorithms invert; a measurement whose size is not a multiple of the block
size must leave the belief bit-identical.
Tie: the Lean model (driver op `sukf`, exact rationals, only sqrt(wc) and the final log/exp in Float)
is run on what the real correction consumed (the sigma points it asked the measurement model about,
the propagated points it was told, the unscented weights) and compared with the real outputs.
Only mean, covariance, likelihood and "belief unchanged" are judged; everything else is recorded.
"""
import json
import math
from fractions import Fraction

import vlib
from vlib import hexd, frac, unhex

EPS = 2.0 ** -52
TINY = 2.3e-308
LOG2PI = math.log(2.0 * math.pi)


# ----------------------------------------------------------------------------- float helpers

def finv(A):
    """float inverse by Gauss-Jordan with partial pivoting (tolerance estimates only)"""
    n = len(A)
    M = [[float(x) for x in row] + [1.0 if i == j else 0.0 for j in range(n)] for i, row in enumerate(A)]
    for c in range(n):
        p = max(range(c, n), key=lambda r: abs(M[r][c]))
        if M[p][c] == 0.0:
            return None
        M[c], M[p] = M[p], M[c]
        pv = M[c][c]
        M[c] = [x / pv for x in M[c]]
        for r in range(n):
            if r != c and M[r][c] != 0.0:
                f = M[r][c]
                M[r] = [a - f * b for a, b in zip(M[r], M[c])]
    return [row[n:] for row in M]


def ninf(A):
    return max((sum(abs(float(x)) for x in row) for row in A), default=0.0)


def kappa(A):
    Ai = finv(A)
    if Ai is None:
        return float("inf"), None
    return max(1.0, ninf(A) * ninf(Ai)), Ai


def kappa_eq(A):
    """condition number and inverse in equilibrated coordinates d_a = sqrt(|A_aa|): (kappa_inf(D^-1 A D^-1), A^-1, d).
    A channel whose variance is many orders of magnitude above the others (a masked channel) then counts with the
    conditioning of the correlation structure, not with the ratio of the units — as the closed-form / LU inverses of a
    symmetric positive definite matrix behave (their errors are invariant under a symmetric diagonal scaling up to
    the pivot order)."""
    n = len(A)
    d = [math.sqrt(abs(float(A[a][a]))) or 1.0 for a in range(n)]
    Ae = [[float(A[a][b]) / (d[a] * d[b]) for b in range(n)] for a in range(n)]
    Aei = finv(Ae)
    if Aei is None:
        return float("inf"), None, d, None
    Ai = [[Aei[a][b] / (d[a] * d[b]) for b in range(n)] for a in range(n)]
    return max(1.0, ninf(Ae) * ninf(Aei)), Ai, d, Aei


def kappa_col(A):
    """kappa_inf of A with every column scaled to unit maximum.  Eigen's inverse() / determinant() of a matrix larger
    than 4 x 4 go through LU with partial (row) pivoting, whose pivot choice and rounding errors are invariant under
    column scalings but not under row scalings: a masked channel that is *coupled* to the ordinary ones
    (covariance ~ sqrt(1e15 * r) next to variances r) makes the standard correction lose digits (observed 1e-10 where
    the serial one, inverting 3 x 3 blocks in closed form, keeps 1e-17), an uncoupled one does not."""
    n = len(A)
    dc = [max(abs(float(A[a][b])) for a in range(n)) or 1.0 for b in range(n)]
    Ae = [[float(A[a][b]) / dc[b] for b in range(n)] for a in range(n)]
    Aei = finv(Ae)
    if Aei is None:
        return float("inf")
    return max(1.0, ninf(Ae) * ninf(Aei))


def fabs(A):
    return [[abs(float(x)) for x in row] for row in A]


def ut_weights(n, alpha, beta, kappa_):
    lam = alpha * alpha * (n + kappa_) - n
    c = n + lam
    if c <= 0:
        return None
    wm0 = lam / c
    wc0 = wm0 + (1 - alpha * alpha + beta)
    w = 1 / (2 * c)
    return wm0, wc0, w, c


# ----------------------------------------------------------------------------- generator

UT_EXACT = [  # (n, alpha, beta, kappa): every sqrt(wc_j) is exact (the model run is then exact throughout)
    (1, 1.0, 0.5, 1.0), (2, 1.0, 1.0, 0.0), (2, 1.0, 0.0, 0.0), (4, 1.0, 0.5, 4.0), (3, 1.0, 0.375, 5.0), (1, 1.0, 0.125, 7.0),
    (5, 1.0, 0.1875, 3.0), (6, 1.0, 0.0, 2.0), (7, 1.0, 0.125, 1.0),
]


def gen_ut(r, n, style):
    if style == "exactsqrt":
        c = [t for t in UT_EXACT if t[0] == n]
        if c:
            return r.choice(c)[1:]
    for _ in range(100):
        a, b, k = r.choice([(1.0, 2.0, 0.0), (1.0, 2.0, 1.0), (1.0, 0.0, 0.0), (1.0, 2.0, 3.0 - n), (1.0, 0.0, 1.0),
                            (r.uniform(0.7, 1.6), r.choice([0.0, 2.0, r.uniform(0, 3)]), r.choice([0.0, 1.0, 2.0, r.uniform(0, 3)])),
                            (0.9, 2.0, 0.5), (1.25, 0.0, 1.0)])
        w = ut_weights(n, a, b, k)
        if w is None:
            continue
        wm0, wc0, ww, c = w
        if wc0 >= 0 and c > 1e-3:      # the property's guard: non-negative covariance weights
            return a, b, k
    return 1.0, 2.0, 0.0


def masked_block(g, r, w, noise, chans, big, rho):
    """a w x w noise block whose channels `chans` are masked (disabled by a huge variance `big`, the same in every
    block) while the remaining channels carry an ordinary, distinct SPD block: such blocks agree with one another
    to ~noise/big of their norm and are nevertheless different where it matters"""
    rest = [a for a in range(w) if a not in chans]
    sub = g.spd(len(rest), cond=10 ** r.uniform(0.3, 1.5), scale=noise * 10 ** r.uniform(-0.5, 0.5)) if rest else []
    blk = vlib.mzeros(w, w)
    for ia, a in enumerate(rest):
        for ib, b in enumerate(rest):
            blk[a][b] = sub[ia][ib]
    for a in chans:
        blk[a][a] = big
        for b in rest:
            if rho:
                # a weak correlation between the masked and an ordinary channel (the block stays positive definite)
                blk[a][b] = blk[b][a] = rho * r.uniform(-1, 1) * math.sqrt(big * blk[b][b]) / w
    return blk


def special_blocks(g, r, spec):
    """full block-diagonal noise covariances whose consecutive diagonal blocks are equal / equal relative to their norm
    / different, in every position"""
    bs, mszmax, noise = spec["bs"], spec["mszmax"], spec["noise"]
    nbk = (mszmax + bs - 1) // bs
    R = vlib.mzeros(mszmax, mszmax)
    blocks = []
    if spec["rstyle"] == "masked":
        big = noise * 10 ** r.choice([12.0, 15.0, 16.0, r.uniform(11, 17)])
        nm = 1 if (bs <= 2 or r.random() < 0.7) else 2
        chans = r.sample(range(bs), nm)
        rho = r.choice([0.0, 0.0, 0.0, 0.1])
        for i in range(nbk):
            if i > 0 and r.random() < 0.15:
                blocks.append([row[:] for row in blocks[-1]])      # sometimes exactly the previous block
            else:
                blocks.append(masked_block(g, r, bs, noise, chans if r.random() < 0.85 else r.sample(range(bs), nm), big, rho))
    else:
        # two or three distinct blocks A, B, C and near copies (relative 1e-13 .. 1e-9) in a random arrangement:
        # A A B, A B B, A B A, A A' B ...; every position sees an equal and a different predecessor over the run
        pool = [g.spd(bs, cond=10 ** r.uniform(0.3, 2.5), scale=noise * 10 ** r.uniform(-0.5, 0.5)) for _ in range(r.choice([2, 2, 3]))]
        prev = None
        for i in range(nbk):
            u = r.random()
            if prev is not None and u < 0.4:
                blk = [row[:] for row in prev]
            elif prev is not None and u < 0.55:
                e = r.choice([1e-13, 1e-11, 1e-9])
                blk = [[v * (1 + e) for v in row] for row in prev]
            else:
                blk = [row[:] for row in r.choice(pool)]
            blocks.append(blk)
            prev = blk
    for i, blk in enumerate(blocks):
        w = min(bs, mszmax - bs * i)
        for a in range(w):
            for c in range(w):
                R[bs * i + a][bs * i + c] = blk[a][c]
    return R


def make_object(g, r, spec):
    """build one object (harness line + single-call lines) from a spec dict:
    n, nc, bs, red, mszmax, ut, mv, noise, xscale, yscale, calls = [dict(k, msz, kind, fail, rscale, toggle, dup)]"""
    n, nc, bs, red, mszmax = spec["n"], spec["nc"], spec["bs"], spec["red"], spec["mszmax"]
    alpha, beta, kap = spec["ut"]
    xs, ys = spec.get("xscale", 1.0), spec.get("yscale", 1.0)      # units of the state / of the measurement
    noise = spec["noise"]
    if red:
        R = g.spd(bs, cond=10 ** r.uniform(0.3, 2.5), scale=noise)
        if spec.get("rstyle") == "masked":
            R = masked_block(g, r, bs, noise, [r.randrange(bs)], noise * 1e15, 0.0)
    elif spec.get("blockdiag", True):
        R = vlib.mzeros(mszmax, mszmax)
        for i in range((mszmax + bs - 1) // bs):
            w = min(bs, mszmax - bs * i)
            blk = g.spd(w, cond=10 ** r.uniform(0.3, 2.5), scale=noise * 10 ** r.uniform(-0.5, 0.5))   # distinct, non-isotropic blocks
            if spec.get("samediag") and w >= 2:
                # blocks with the very same variances but different correlations (equal diagonals, different off-diagonal)
                sd = [math.sqrt(noise) * (1 + 0.25 * a) for a in range(w)]
                blk = [[sd[a] * sd[c] * (1.0 if a == c else (0.6 * math.cos(1.7 * i + a + c) / (1 + abs(a - c)))) for c in range(w)] for a in range(w)]
                blk = [[blk[min(a, c)][max(a, c)] for c in range(w)] for a in range(w)]
            for a in range(w):
                for c in range(w):
                    R[bs * i + a][bs * i + c] = blk[a][c]
    else:
        R = g.spd(mszmax, cond=10.0, scale=noise)
    if not red and spec.get("rstyle") in ("masked", "blockpattern"):
        R = special_blocks(g, r, spec)
    R = [[v * ys * ys for v in row] for row in R]
    H = [[r.uniform(-1.5, 1.5) * ys / xs for _ in range(n)] for _ in range(mszmax)]
    h0 = [r.uniform(-1, 1) * ys for _ in range(mszmax)]
    ut = [hexd(alpha), hexd(beta), hexd(kap)]
    htoks = ["sukfs", str(n), str(nc), str(mszmax), str(bs), str(red)] + ut + [str(spec.get("mv", 0))] \
        + vlib.fmt_mat_cm(H) + [hexd(v) for v in h0] + vlib.fmt_mat_cm(R) + [str(len(spec["calls"]))]
    singles = []
    last_ok_msz = None
    for cs in spec["calls"]:
        k, msz, kind, fail = cs["k"], cs["msz"], cs["kind"], cs["fail"]
        means = [[r.uniform(-2, 2) * xs for _ in range(n)] for _ in range(k)]
        if spec.get("farmean"):
            # means far from the origin relative to the spread (|m| / sqrt(P) = 1e3 .. 1e7)
            far = [r.choice([-1, 1]) * spec["farmean"] * r.uniform(0.5, 1) for _ in range(n)]
            means = [[v + f for v, f in zip(mm, far)] for mm in means]
        Ps = [[[v * xs * xs for v in row] for row in g.spd(n, cond=10 ** r.uniform(0, 3), scale=10 ** r.uniform(-1.5, 0.3))] for _ in range(k)]
        if cs.get("dup") and k >= 2:
            # near-duplicate components: equal, or equal up to a relative 1e-9 / one weak direction
            for c in range(1, k):
                eps = r.choice([0.0, 1e-9, 1e-6])
                means[c] = [v * (1 + eps * r.uniform(-1, 1)) for v in means[0]]
                Ps[c] = [[v * (1 + eps) for v in row] for row in Ps[0]]
        if nc:
            # angles anywhere in (-pi, pi], some next to the cut so that the sigma points wrap; spreads of the
            # circular rows kept small (|sqrt(c) sigma| well below pi: no aliasing, the sigma points reproduce P)
            for c in range(k):
                for i in range(n - nc, n):
                    means[c][i] = r.choice([r.uniform(-3.1, 3.1), 3.1, -3.12, 3.14])
                sc = [1.0] * (n - nc) + [0.05 / xs] * nc
                Ps[c] = [[Ps[c][a][b] * sc[a] * sc[b] for b in range(n)] for a in range(n)]
        y = [r.uniform(-3, 3) * ys for _ in range(msz)]
        outw = [r.uniform(0.01, 1.0) for _ in range(k)]
        bel = [hexd(means[c][i]) for c in range(k) for i in range(n)] \
            + [hexd(Ps[c][i][j]) for c in range(k) for j in range(n) for i in range(n)] + [hexd(w) for w in outw]
        yt = [hexd(v) for v in y]
        rscale = cs["rscale"]
        Rc = [[v * rscale for v in row] for row in R] if red else [[R[a][b] * rscale for b in range(msz)] for a in range(msz)]
        qlik = 1      # since fix 9d4c3da the serial correction forgets its innovations when a step starts: always safe to ask
        zmode, zcomp = cs.get("zmode", 0), cs.get("zcomp", 0) % k
        if cs.get("ynear") and kind == 0 and msz % bs == 0:
            # affine h: y within rounding of the predicted measurement H m + h0 of one component (innovation ~1e-16 .. 1e-13 relative)
            mm = means[zcomp]
            y = [sum(H[a][j] * mm[j] for j in range(n)) + h0[a] for a in range(msz)]
            y = [v * (1 + r.choice([0.0, 1e-15, 1e-13])) for v in y]
            yt = [hexd(v) for v in y]
        htoks += [str(k), str(msz), str(kind)] + [str(f) for f in fail] + [hexd(rscale), str(cs.get("toggle", 0)), str(qlik), str(zmode), str(zcomp)] + yt + bel
        singles.append(" ".join(["sukf", str(n), str(nc), str(msz), str(bs), str(red), str(k)] + ut + [str(kind)] + [str(f) for f in fail]
                                + vlib.fmt_mat_cm(H[:msz]) + [hexd(v) for v in h0[:msz]] + yt + vlib.fmt_mat_cm(Rc) + bel))
    return " ".join(htoks), singles


def gen_case(g, tier, idx):
    """one SUKFCorrection / UKFCorrection object pair driven through 1..3 successive calls.
    Returns (harness line `sukfs ...`, [equivalent single-call `sukf ...` lines], meta)."""
    r = g.r
    mmax = 12 if tier == "quick" else 18
    style = r.choice(["full", "full", "reduced", "reduced", "nondividing", "nondividing", "exactsqrt", "smallnoise", "affine", "fault", "wc0zero",
                      "scalar", "circular", "circular", "varsize", "varsize", "scaled", "scaled", "dupcomp", "manyblocks", "moved", "nullinnov", "nullinnov", "samediag",
                      "masked", "masked", "blockpattern", "farmean", "bigdim"])
    if idx in (20, 21):
        style = "masked"          # every run has them, whatever the seed
    if idx == 22:
        style = "blockpattern"
    if idx in (23, 24):
        style = "bigdim"
    if idx in (25, 26, 27):
        style = "scaled"          # one small measurement unit, one small state unit, one large pair on every run
    n = idx % 4 + 1 if idx < 8 else r.randint(1, 4)
    if style == "bigdim":
        # state dimension 5..7 (11..15 sigma points): the matrix products leave Eigen's small-size (coefficient-based)
        # path for the blocked kernels from rows + cols + depth >= 20 on; an in-place `noalias` product is wrong only there
        n = 5 + idx % 3 if idx < 30 else r.randint(5, 7)
    nc = r.randint(1, n) if style == "circular" else 0      # the last nc state rows are Euler angles
    bs = [1, 2, 3, 5, 6, 3, 2, 1][idx % 8] if idx < 16 else r.choice([1, 2, 2, 3, 3, 5, 6])
    nbmax = max(1, min(4, mmax // bs))
    if style == "manyblocks":
        bs = r.choice([1, 1, 2])
        nbmax = mmax // bs
    nb = min(nbmax, idx % 4 + 1) if idx < 8 else r.randint(1, nbmax)
    if idx >= 16 and nbmax >= 2 and r.random() < 0.6:
        nb = r.randint(2, nbmax)                 # mostly several blocks
    if style == "manyblocks":
        nb = r.randint(max(2, nbmax - 4), nbmax)
    msz = nb * bs
    red = 1 if style == "reduced" else (0 if style == "full" else r.randint(0, 1))
    kind = 0 if style == "affine" else r.choice([0, 1, 1, 2, 2, 3])
    if style == "scalar":
        bs, nb, msz = 1, 1, 1                    # scalar measurement, a single block
    blockdiag = True
    if style == "nondividing":
        bs = r.choice([2, 3, 5, 6])
        msz = r.choice([v for v in range(1, mmax + 1) if v % bs != 0])
        blockdiag = r.random() < 0.5
    if style == "wc0zero":
        ut = (1.0, 0.0, 0.0)          # lambda = 0: wc_0 = 0, the boundary of the guard
    elif style in ("masked", "blockpattern", "samediag", "bigdim", "manyblocks") and r.random() < 0.6:
        ut = gen_ut(r, n, "exactsqrt")      # exact model runs (theorem instances over Q) in the structured-noise styles too
    else:
        ut = gen_ut(r, n, style)
    noise = 10 ** r.uniform(-3, -1.5) if style == "smallnoise" else 10 ** r.uniform(-1.5, 0.7)
    xscale = yscale = 1.0
    if style == "scaled":
        # units: the property constrains shapes and conditioning, not magnitudes (affine h: the scaling is exact in R)
        kind = 0
        ylim = min(10.0, 120.0 / msz)      # det(S) ~ yscale^(2 msz) must stay inside the double range (the code takes log(det))
        xscale, yscale = 10 ** r.uniform(-10, 10), 10 ** r.uniform(-ylim, ylim)
        if idx == 25:
            yscale = 10 ** r.uniform(-ylim, -0.8 * ylim)      # absolute thresholds (`< 1e-14` on a squared quantity, `|det| < eps`) bite here
        if idx == 26:
            xscale = 10 ** r.uniform(-10, -8)
        if idx == 27:
            xscale, yscale = 10 ** r.uniform(8, 10), 10 ** r.uniform(0.8 * ylim, ylim)
    ncalls = r.choice([1, 2, 2, 3])
    if style == "bigdim":
        ncalls = r.choice([1, 2])
    if style in ("varsize", "moved"):
        ncalls = r.choice([2, 3, 3])
    calls = []
    for ci in range(ncalls):
        fail = (0, 0, 0)
        if style == "fault" and r.random() < 0.6:
            j = r.randrange(3)
            fail = tuple(1 if i == j else 0 for i in range(3))
        m_c = msz
        if style == "varsize" and ci > 0:
            # the measurement size changes between calls (non-monotone), sometimes to a non-multiple of the block size
            m_c = r.choice([bs * v for v in range(1, msz // bs + 1)] + ([r.randint(1, msz)] if bs > 1 else []))
        zmode = 0
        if style == "nullinnov":
            # the measurement coincides with the predicted measurement of one component: exactly (harness), in its first
            # sub-measurement only, or up to rounding (affine h)
            zmode = r.choice([1, 1, 2, 0])
        calls.append({"k": r.choice([1, 2, 2, 3]), "msz": m_c, "fail": fail, "zmode": zmode, "zcomp": r.randrange(3),
                      "ynear": style == "nullinnov" and zmode == 0,
                      "kind": kind if (ci == 0 or style in ("affine", "scaled") or r.random() < 0.5) else r.choice([0, 1, 2, 3]),
                      "rscale": 1.0 if ci == 0 else r.choice([1.0, 0.5, 2.0, 4.0, 0.25]),
                      "toggle": 1 if r.random() < 0.2 else 0, "dup": style == "dupcomp"})
    if style == "dupcomp":
        for cs in calls:
            cs["k"] = r.choice([2, 3])
    if style == "nullinnov" and r.random() < 0.5:
        kind = 0
        for cs in calls:
            cs["kind"] = 0
    if style == "farmean":
        kind = r.choice([0, 0, 1])
        for cs in calls:
            cs["kind"] = kind
    if style == "samediag":
        bs = r.choice([2, 3])
        nb = r.randint(2, max(2, min(4, mmax // bs)))
        msz, red = nb * bs, 0
        for cs in calls:
            cs["msz"] = msz
    rstyle = None
    if style in ("masked", "blockpattern"):
        # full noise covariance, >= 2 (pattern: >= 3) sub-measurements, consecutive blocks equal relative to their norm
        bs = r.choice([2, 3, 3, 5, 6]) if style == "masked" else r.choice([1, 2, 2, 3])
        lo = 2 if style == "masked" else 3
        nb = r.randint(lo, max(lo, min(6, mmax // bs)))
        msz, red, rstyle = nb * bs, (1 if (style == "masked" and r.random() < 0.15) else 0), style
        for cs in calls:
            cs["msz"] = msz
    spec = {"n": n, "nc": nc, "bs": bs, "red": red, "mszmax": msz, "ut": ut, "noise": noise, "xscale": xscale, "yscale": yscale, "rstyle": rstyle,
            "farmean": (10 ** r.uniform(3, 7)) if style == "farmean" else 0.0,
            "mv": r.choice([1, 2]) if style == "moved" else 0, "blockdiag": blockdiag, "samediag": style == "samediag", "calls": calls}
    hline, singles = make_object(g, r, spec)
    meta = {"style": style, "n": n, "nc": nc, "msz": msz, "bs": bs, "red": red, "ks": [c["k"] for c in calls], "kind": kind,
            "fails": [list(c["fail"]) for c in calls], "ut": list(ut), "calls": ncalls, "mv": spec["mv"]}
    return hline, singles, meta


def grid_cases(g, tier):
    """every (block size, measurement size) pair, bs 1..6 x msz 1..12: the size clause in both directions
    (multiples must be corrected like the standard correction, non-multiples left bit-identical), exhaustively"""
    r = g.r
    out = []
    for bs in range(1, 7):
        for msz in range(1, 13):
            n = 1 + (bs + msz) % 2
            spec = {"n": n, "nc": 0, "bs": bs, "red": (bs + msz) % 2 if msz % bs == 0 else r.randint(0, 1), "mszmax": msz,
                    "ut": (1.0, 2.0, 0.0), "noise": 0.3, "blockdiag": True,
                    "calls": [{"k": 1, "msz": msz, "kind": 1, "fail": (0, 0, 0), "rscale": 1.0, "toggle": 0}]}
            hline, singles = make_object(g, r, spec)
            out.append((hline, singles, {"style": "sizegrid", "n": n, "nc": 0, "msz": msz, "bs": bs, "red": spec["red"], "ks": [1],
                                         "kind": 1, "fails": [[0, 0, 0]], "calls": 1}))
    return out


def split_calls(hout, ncalls):
    """per-call outputs of a `sukfs` line, each in the single-call format"""
    if not hout.startswith("ok"):
        return [hout] * ncalls
    parts = hout[2:].split(" | ")
    outs = ["ok " + p.strip() for p in parts]
    return (outs + ["crash:short-output"] * ncalls)[:ncalls]


def parse_line(line):
    t = line.split()
    n, nc, msz, bs, red, k = (int(v) for v in t[1:7])
    alpha, beta, kap = (unhex(v) for v in t[7:10])
    kind = int(t[10]); fail = [int(v) for v in t[11:14]]
    p = 14
    p += msz * n + msz          # H, h0
    y = t[p:p + msz]; p += msz
    rsz = bs * bs if red else msz * msz
    Rt = t[p:p + rsz]; p += rsz
    means = t[p:p + n * k]; p += n * k
    covs = t[p:p + n * n * k]; p += n * n * k
    outw = t[p:p + k]
    return dict(n=n, nc=nc, msz=msz, bs=bs, red=red, k=k, ut=(alpha, beta, kap), kind=kind, fail=fail, y=y, Rt=Rt,
                means=means, covs=covs, outw=outw)


def parse_hout(h, c):
    """harness output -> dict (hex tokens kept where bit-identity matters)"""
    t = h.split()
    n, k, msz = c["n"], c["k"], c["msz"]
    p = 1
    assert t[p] == "S"; p += 1
    o = {}
    o["s_mean"] = t[p:p + n * k]; p += n * k
    o["s_cov"] = t[p:p + n * n * k]; p += n * n * k
    o["s_w"] = t[p:p + k]; p += k
    o["s_lik_valid"] = t[p] == "lik"; cnt = int(t[p + 1]); p += 2
    o["s_lik"] = [unhex(v) for v in t[p:p + cnt]]; p += cnt
    o["prelik"] = t[p] == "prelik"; p += 1
    if t[p] == "U":
        p += 1
        o["u_mean"] = t[p:p + n * k]; p += n * k
        o["u_cov"] = t[p:p + n * n * k]; p += n * n * k
        o["u_lik_valid"] = t[p] == "lik"; cnt = int(t[p + 1]); p += 2
        o["u_lik"] = [unhex(v) for v in t[p:p + cnt]]; p += cnt
    else:
        assert t[p] == "Unone"; p += 1
    assert t[p] == "W"; s = int(t[p + 1]); p += 2
    o["s"] = s
    o["wm"] = t[p:p + s]; p += s
    o["wc"] = t[p:p + s]; p += s
    o["c"] = t[p]; p += 1
    assert t[p] == "X"; xc = int(t[p + 1]); p += 2
    o["X"] = t[p:p + n * xc]; o["xcols"] = xc; p += n * xc
    assert t[p] == "Y"; yc = int(t[p + 1]); p += 2
    o["Y"] = t[p:p + msz * yc]; o["ycols"] = yc; p += msz * yc
    o["same"] = t[p] == "in-same"; p += 1
    o["likrep"] = (t[p] == "likrep-same") if p < len(t) else True
    p += 1
    if p < len(t) and t[p] == "YE":
        cnt = int(t[p + 1]); p += 2
        o["yeff"] = t[p:p + cnt]
    return o


# ----------------------------------------------------------------------------- driver line, comparison

def unwrapped_X(c, o):
    """input sigma points as hex tokens; circular rows (Euler angles) are replaced by m + directional_sub(X, m),
    i.e. the offset the two corrections form with directional_sub — evaluated here (wrap into (-pi, pi])."""
    n, nc, k, s = c["n"], c["nc"], c["k"], o["s"]
    X = list(o["X"])
    if nc == 0 or o["xcols"] != s * k:
        return X
    for i in range(k):
        for a in range(n - nc, n):
            m = unhex(c["means"][i * n + a])
            for j in range(s):
                idx = (i * s + j) * n + a
                d = unhex(X[idx]) - m
                d = math.atan2(math.sin(d), math.cos(d))
                X[idx] = hexd(m + d)
    return X


def eff_y(c, o):
    """the measurement the serial correction's innovation was formed with (differs from the line's y in the null-innovation modes)"""
    ye = o.get("yeff")
    return ye if (ye is not None and len(ye) == c["msz"]) else c["y"]


def driver_line(c, o):
    n, msz, bs, red, k, s = c["n"], c["msz"], c["bs"], c["red"], c["k"], o["s"]
    zero = hexd(0.0)
    X = o["X"] if o["xcols"] == s * k else [zero] * (n * s * k)       # as the implementation's sigma_point() returned them
    Y = o["Y"] if o["ycols"] == s * k else [zero] * (msz * s * k)
    toks = ["sukf", str(n), str(c["nc"]), str(msz), str(bs), str(red), str(k), str(s)] + [str(1 - f) for f in c["fail"]]
    toks += eff_y(c, o) + o["wm"] + o["wc"] + c["means"] + c["covs"] + c["outw"] + X + Y + c["Rt"]
    return " ".join(toks)


def parse_dout(d, c):
    t = d.split()
    n, k = c["n"], c["k"]
    p = 1
    o = {}
    o["mean"] = [frac(v) for v in t[p:p + n * k]]; p += n * k
    o["cov"] = [frac(v) for v in t[p:p + n * n * k]]; p += n * n * k
    p += k
    if t[p] == "lik":
        cnt = int(t[p + 1]); p += 2
        o["lik"] = [unhex(v) for v in t[p:p + cnt]]; p += cnt
        assert t[p] == "U"; p += 1
        o["u_mean"] = [frac(v) for v in t[p:p + n * k]]; p += n * k
        o["u_cov"] = [frac(v) for v in t[p:p + n * n * k]]; p += n * n * k
        o["u_lik"] = [unhex(v) for v in t[p:p + k]]
    else:
        o["lik"] = None
    return o


def exact_sqrt(q):
    q = Fraction(q)
    if q < 0:
        return False
    a, b = math.isqrt(q.numerator), math.isqrt(q.denominator)
    return a * a == q.numerator and b * b == q.denominator


def tolerances(c, o, i):
    """conditioning-scaled tolerances for component i, from what the corrections consumed (floats)"""
    from checks.c15 import logdet_tol
    n, msz, bs, red, k, s = c["n"], c["msz"], c["bs"], c["red"], c["k"], o["s"]
    nb = msz // bs
    wm = [unhex(v) for v in o["wm"]]; wc = [unhex(v) for v in o["wc"]]
    Xu = unwrapped_X(c, o)
    X = [[unhex(Xu[(i * s + j) * n + a]) for j in range(s)] for a in range(n)]
    Yp = [[unhex(o["Y"][(i * s + j) * msz + a]) for j in range(s)] for a in range(msz)]
    m = [unhex(c["means"][i * n + a]) for a in range(n)]
    P = [[unhex(c["covs"][i * n * n + b * n + a]) for b in range(n)] for a in range(n)]
    y = [unhex(v) for v in eff_y(c, o)]
    if red:
        blk = [[unhex(c["Rt"][b * bs + a]) for b in range(bs)] for a in range(bs)]
        blocks = [blk] * nb
    else:
        Rm = [[unhex(c["Rt"][b * msz + a]) for b in range(msz)] for a in range(msz)]
        blocks = [[[Rm[bs * j + a][bs * j + b] for b in range(bs)] for a in range(bs)] for j in range(nb)]
    Rf = vlib.mzeros(msz, msz)
    for j in range(nb):
        for a in range(bs):
            for b in range(bs):
                Rf[bs * j + a][bs * j + b] = blocks[j][a][b]
    pm = [sum(Yp[a][j] * wm[j] for j in range(s)) for a in range(msz)]
    nu = [y[a] - pm[a] for a in range(msz)]
    sq = [math.sqrt(max(w, 0.0)) for w in wc]
    Y = [[(Yp[a][j] - pm[a]) * sq[j] for j in range(s)] for a in range(msz)]
    Xw = [[(X[a][j] - m[a]) * sq[j] for j in range(s)] for a in range(n)]
    S = vlib.madd(vlib.mmul(Y, vlib.mT(Y)), Rf)
    # every bound is evaluated in equilibrated measurement coordinates d_a = sqrt(S_aa) (noise blocks: sqrt(R_aa)): the
    # results are invariant under a change of units of the single channels, and so (up to the pivot order) are the
    # rounding errors of the two algorithms; a tolerance relative to the largest entry of R or S would hide every
    # channel next to a masked one (variance 1e15)
    kS, Si, dS, Sei = kappa_eq(S)
    kS = max(kS, kappa_col(S))
    kR = 1.0
    for bk in blocks[:1] if red else blocks:
        kR = max(kR, kappa_eq(bk)[0], kappa_col(bk))
    Ri = kappa_eq(Rf)[1]
    Cinv = vlib.madd(vlib.meye(s), vlib.mmul(vlib.mmul(vlib.mT(Y), Ri), Y))
    kC, C = kappa(Cinv)
    Pxy = vlib.mmul(Xw, vlib.mT(Y))
    K = vlib.mmul(Pxy, Si)
    KD = [[K[a][b] * dS[b] for b in range(msz)] for a in range(n)]          # gain on the equilibrated innovation
    nue = [nu[a] / dS[a] for a in range(msz)]
    # contract of sigma_point(): the input sigma points reproduce P (hypothesis hX of the theorems)
    Pxx = vlib.mmul(Xw, vlib.mT(Xw))
    hx_err = max(abs(Pxx[a][b] - P[a][b]) for a in range(n) for b in range(n)) / max(ninf(P), 1e-300)
    nK = ninf(KD)
    nSe = ninf([[S[a][b] / (dS[a] * dS[b]) for b in range(msz)] for a in range(msz)])
    mmax = max(abs(v) for v in m)
    # cancellation when the offsets are formed: Yp - pred_mean (each correction computes its own predicted mean: s
    # roundings of size eps |Yp|) and X = m + sqrt(c P)_j as sigma_point() rounds it (eps |m|); relative to the spread
    # these are the condition numbers of the offsets (means / predicted measurements far from the origin)
    ey = max(4 * s * EPS * max(abs(v) for v in Yp[a]) / dS[a] for a in range(msz))
    rs = math.sqrt(s)
    far_cov = 4 * ey * (2 * nK * ninf(Xw) + 2 * rs * nK * nK)
    far_mean = 4 * ey * ((ninf(Xw) + 2 * rs * nK) * msz * ninf(Sei) * max(abs(v) for v in nue) + nK)
    tol_hx = 4 * EPS * mmax * ninf(Xw) * rs           # |Pxx - P|: the serial correction returns Pxx - ..., the standard one P - ...
    tol_cov_u = 64 * EPS * msz * kS * (nK * nK * nSe + ninf(P)) + far_cov
    tol_cov_s = 64 * EPS * s * (kC + kR) * ninf(Xw) * ninf(vlib.mT(Xw)) + far_cov
    d = vlib.mvec(vlib.mmul(vlib.mT(Y), Ri), nu)
    nnu = max(abs(v) for v in nue)
    tol_mean_u = 64 * EPS * msz * kS * (nK * nnu + mmax + 1e-300) + far_mean
    tol_mean_s = 64 * EPS * s * (kC + kR) * (ninf(Xw) * sum(abs(v) for v in d) * math.sqrt(s) + mmax + 1e-300) + far_mean
    av = [abs(v) for v in nu]
    aSi = fabs(Si)
    bq = sum(av[a] * aSi[a][b] * av[b] for a in range(msz) for b in range(msz))
    far_lik = ey * msz * ninf(Sei) * (2 * sum(abs(v) for v in nue) + 2 * rs)      # the same cancellation, in nu and in log det S
    tolL_u = 0.5 * (64 * EPS * msz * kS * bq + logdet_tol(msz, kS)) + far_lik
    T = vlib.mmul(vlib.mmul(vlib.mmul(fabs(Y), fabs(C)), fabs(vlib.mT(Y))), fabs(Ri))
    for a in range(msz):
        T[a][a] += 1.0
    G = vlib.mmul(fabs(Ri), T)
    bqU = sum(av[a] * G[a][b] * av[b] for a in range(msz) for b in range(msz))
    tolL_s = 0.5 * (64 * EPS * (msz + s) * (kR + kC) * bqU + nb * logdet_tol(bs, kR) + logdet_tol(s, kC)) + far_lik
    return dict(kS=kS, kC=kC, kR=kR, hx_err=hx_err, tol_hx=tol_hx, tol_cov_u=tol_cov_u, tol_cov_s=tol_cov_s, tol_mean_u=tol_mean_u,
                tol_mean_s=tol_mean_s, tolL_u=tolL_u, tolL_s=tolL_s)


def relrec(stats, key, err, tol):
    v = float(err) / tol if tol > 0 else 0.0
    stats[key] = max(stats.get(key, 0.0), v)


def lik_close(a, b, t):
    if a == b:
        return True
    big = max(abs(a), abs(b))
    return math.isfinite(a) and math.isfinite(b) and abs(a - b) <= big * math.expm1(min(t, 50.0)) + 8 * EPS * big + TINY


def check_case(line, meta, hout, dline, dout, stats, notes):
    probs = []
    c = parse_line(line)
    n, msz, bs, k = c["n"], c["msz"], c["bs"], c["k"]
    if not hout.startswith("ok"):
        return [("prop", "impl-crash", "correction failed on a valid input: %s" % hout[:80])]
    o = parse_hout(hout, c)
    if not o["same"]:
        notes["predicted_belief_modified"] = notes.get("predicted_belief_modified", 0) + 1
    if not o["likrep"]:
        probs.append(("prop", "likelihood-not-repeatable", "getLikelihood() asked three times after the same correction gave different answers"))
    if o["prelik"]:
        notes["likelihood_reported_before_any_correction"] = notes.get("likelihood_reported_before_any_correction", 0) + 1
    divides = msz % bs == 0
    faulty = any(c["fail"])
    if not divides:
        # the property's last sentence: belief unchanged (bit-identical), whatever else is configured
        if o["s_mean"] != c["means"] or o["s_cov"] != c["covs"]:
            probs.append(("prop", "size-mismatch-not-identity",
                          "measurement size %d is not a multiple of the block size %d but the belief changed" % (msz, bs)))
        if o["s_w"] == c["outw"]:
            notes["size_mismatch:weights_not_copied"] = notes.get("size_mismatch:weights_not_copied", 0) + 1
        if o["s_lik_valid"]:
            notes["size_mismatch:likelihood_reported"] = notes.get("size_mismatch:likelihood_reported", 0) + 1
    if faulty or not divides:
        keyn = "early_return:likelihood_reported_anyway" if o["s_lik_valid"] else "early_return:no_likelihood_reported"
        notes[keyn] = notes.get(keyn, 0) + 1
    if faulty:
        # outside C05 (C12): recorded only
        keyn = "fault:belief_identical" if (o["s_mean"] == c["means"] and o["s_cov"] == c["covs"]) else "fault:belief_changed"
        notes[keyn] = notes.get(keyn, 0) + 1
    if not dout.startswith("ok"):
        probs.append(("corr", "model-undefined", "model not defined on a valid input: %s" % dout[:40]))
        return probs
    mo = parse_dout(dout, c)
    sm = [unhex(v) for v in o["s_mean"]]; sc = [unhex(v) for v in o["s_cov"]]
    if not divides or faulty:
        # model: output = predicted belief, exactly
        if mo["mean"] != [Fraction(unhex(v)) for v in c["means"]] or mo["cov"] != [Fraction(unhex(v)) for v in c["covs"]]:
            probs.append(("corr", "model-identity", "model does not return the predicted belief on an early return"))
        # likelihood query after a step that used no measurement: the model (code after fix 9d4c3da) reports none,
        # as the standard correction does; a likelihood reported here is computed from members of an earlier step
        if o["s_lik_valid"] != (mo["lik"] is not None):
            probs.append(("corr", "likelihood-after-early-return", "after a step that corrected nothing getLikelihood() reports %s, the model %s"
                          % ("a likelihood" if o["s_lik_valid"] else "none", "a likelihood" if mo["lik"] is not None else "none")))
        if divides and faulty and (o["s_mean"] != c["means"] or o["s_cov"] != c["covs"]):
            notes["fault:model_vs_impl_differ"] = notes.get("fault:model_vs_impl_differ", 0) + 1
        return probs
    # ---- the size is a multiple of the block size and every model call succeeds: the serial correction must
    # equal the standard one.  Whether a correction was performed is read off the implementation's own output.
    s_pts = o["s"]
    performed = (o["xcols"] == s_pts * k and o["ycols"] == s_pts * k)     # it asked the measurement model about sigma points
    changed = (o["s_mean"] != c["means"] or o["s_cov"] != c["covs"])
    if "u_mean" in o:
        u_changed = (o["u_mean"] != c["means"] or o["u_cov"] != c["covs"])
        if (not performed or not changed) and u_changed:
            um_ = [unhex(v) for v in o["u_mean"]]; uc_ = [unhex(v) for v in o["u_cov"]]
            dm = max((abs(a - b) for a, b in zip(sm, um_) if math.isfinite(a) and math.isfinite(b)), default=float("nan"))
            dc = max((abs(a - b) for a, b in zip(sc, uc_) if math.isfinite(a) and math.isfinite(b)), default=float("nan"))
            return probs + [("prop", "size-multiple-not-corrected",
                             "measurement size %d is a multiple of the block size %d but the serial correction %s, while the standard correction "
                             "corrects it (mean differs by %.3g, covariance by %.3g)"
                             % (msz, bs, "returned the predicted belief unchanged" if not changed else "did not evaluate the measurement model", dm, dc))]
    if not performed:
        return probs + [("prop", "no-sigma-points", "a valid measurement of admissible size was not used by the serial correction: the measurement model was not evaluated on "
                         "the %d sigma points (asked about %d / told %d columns); belief %s" % (s_pts * k, o["xcols"], o["ycols"], "changed nevertheless" if changed else "returned unchanged"))]
    if not all(math.isfinite(v) for v in sm + sc):
        return probs + [("prop", "non-finite", "serial correction returned non-finite mean/covariance entries on a valid input")]
    if not ("u_mean" in o):
        return [("prop", "impl-crash", "no output of the standard correction")]
    um = [unhex(v) for v in o["u_mean"]]; uc = [unhex(v) for v in o["u_cov"]]
    if not all(math.isfinite(v) for v in um + uc):
        return probs + [("prop", "non-finite", "standard correction returned non-finite mean/covariance entries on a valid input")]
    if not (o["s_lik_valid"] and len(o["s_lik"]) == k):
        probs.append(("prop", "likelihood-missing", "serial correction reports no likelihood (%s, %d values) after a successful step" % (o["s_lik_valid"], len(o["s_lik"]))))
    if not (o["u_lik_valid"] and len(o["u_lik"]) == k):
        probs.append(("corr", "ukf-likelihood-missing", "standard correction reports no likelihood"))
    if mo["lik"] is None:
        probs.append(("corr", "model-no-likelihood", "model took an early return where the implementation did not"))
        return probs
    wc = [Fraction(unhex(v)) for v in o["wc"]]
    # exact only without circular rows: directional_sub goes through Float sin / cos / atan2 in the model run
    all_exact = all(exact_sqrt(w) for w in wc) and c["nc"] == 0
    if any(w < 0 for w in wc):
        notes["negative_weight_generated"] = notes.get("negative_weight_generated", 0) + 1
    for i in range(k):
        T = tolerances(c, o, i)
        for key in ("kS", "kC", "kR", "hx_err"):
            stats["max_" + key] = max(stats.get("max_" + key, 0.0), T[key])
        if T["hx_err"] > 1e-9:
            notes["sigma_point_contract_off"] = notes.get("sigma_point_contract_off", 0) + 1
        mi = slice(i * n, (i + 1) * n); ci = slice(i * n * n, (i + 1) * n * n)
        # property: serial == standard, on the implementation
        e_cov = max(abs(a - b) for a, b in zip(sc[ci], uc[ci]))
        e_mean = max(abs(a - b) for a, b in zip(sm[mi], um[mi]))
        tcov = T["tol_cov_s"] + T["tol_cov_u"] + T["tol_hx"]
        relrec(stats, "max_relerr_cov_S_vs_U", e_cov, tcov)
        relrec(stats, "max_relerr_mean_S_vs_U", e_mean, T["tol_mean_s"] + T["tol_mean_u"])
        if not (e_cov <= tcov):
            probs.append(("prop", "cov-differs", "component %d: serial covariance differs from the standard one by %.3g (tol %.3g)" % (i, e_cov, tcov)))
        if not (e_mean <= T["tol_mean_s"] + T["tol_mean_u"]):
            probs.append(("prop", "mean-differs", "component %d: serial mean differs from the standard one by %.3g (tol %.3g)" % (i, e_mean, T["tol_mean_s"] + T["tol_mean_u"])))
        tl = T["tolL_s"] + T["tolL_u"]
        lmag = abs(math.log(max(o["u_lik"][i], TINY))) if (o.get("u_lik_valid") and len(o["u_lik"]) == k) else 0.0
        lim = max(0.05, 1e-6 * lmag)
        if tl <= lim and o["s_lik_valid"] and o["u_lik_valid"] and len(o["s_lik"]) == k and len(o["u_lik"]) == k:
            ls, lu = o["s_lik"][i], o["u_lik"][i]
            if max(ls, lu) > TINY:
                relrec(stats, "max_relerr_lik_S_vs_U", abs(math.log(max(ls, TINY)) - math.log(max(lu, TINY))), tl)
            if not lik_close(ls, lu, tl):
                probs.append(("prop", "likelihood-differs", "component %d: serial likelihood %.17g, standard %.17g (tol %.3g in the log)" % (i, ls, lu, tl)))
        elif tl > lim:
            stats["likelihood_skipped_illconditioned"] = stats.get("likelihood_skipped_illconditioned", 0) + 1
        # correspondence: implementation vs model, both algorithms
        e = max(abs(Fraction(a) - b) for a, b in zip(sc[ci], mo["cov"][ci]))
        relrec(stats, "max_relerr_cov_S_vs_model", e, T["tol_cov_s"])
        if not (e <= T["tol_cov_s"]):
            probs.append(("corr", "sukf-cov-mismatch", "component %d: serial covariance vs model: %.3g (tol %.3g)" % (i, float(e), T["tol_cov_s"])))
        e = max(abs(Fraction(a) - b) for a, b in zip(sm[mi], mo["mean"][mi]))
        relrec(stats, "max_relerr_mean_S_vs_model", e, T["tol_mean_s"])
        if not (e <= T["tol_mean_s"]):
            probs.append(("corr", "sukf-mean-mismatch", "component %d: serial mean vs model: %.3g (tol %.3g)" % (i, float(e), T["tol_mean_s"])))
        e = max(abs(Fraction(a) - b) for a, b in zip(uc[ci], mo["u_cov"][ci]))
        relrec(stats, "max_relerr_cov_U_vs_model", e, T["tol_cov_u"])
        if not (e <= T["tol_cov_u"]):
            probs.append(("corr", "ukf-cov-mismatch", "component %d: standard covariance vs model: %.3g (tol %.3g)" % (i, float(e), T["tol_cov_u"])))
        e = max(abs(Fraction(a) - b) for a, b in zip(um[mi], mo["u_mean"][mi]))
        if not (e <= T["tol_mean_u"]):
            probs.append(("corr", "ukf-mean-mismatch", "component %d: standard mean vs model: %.3g (tol %.3g)" % (i, float(e), T["tol_mean_u"])))
        if T["tolL_s"] <= lim and o["s_lik_valid"] and len(o["s_lik"]) == k and not lik_close(o["s_lik"][i], mo["lik"][i], T["tolL_s"]):
            probs.append(("corr", "sukf-lik-mismatch", "component %d: serial likelihood %.17g model %.17g" % (i, o["s_lik"][i], mo["lik"][i])))
        # theorem instance on the model run: serial == standard, exactly when every sqrt(wc) is exact.  The
        # theorem's hypothesis hX (sigma points reproduce P) holds on the implementation's sigma points only
        # up to rounding, so the standard covariance is taken with Pxx = sum_j wc_j (X_j - m)(X_j - m)^T for P.
        s_ = o["s"]
        Xu_ = unwrapped_X(c, o)
        Xf = [[Fraction(unhex(Xu_[(i * s_ + j) * n + a])) - Fraction(unhex(c["means"][i * n + a])) for j in range(s_)] for a in range(n)]
        Pxx = [[sum(wc[j] * Xf[a][j] * Xf[b][j] for j in range(s_)) for b in range(n)] for a in range(n)]
        dP = [Pxx[a][b] - Fraction(unhex(c["covs"][i * n * n + b * n + a])) for b in range(n) for a in range(n)]
        em = max(abs(a - b - e_) for a, b, e_ in zip(mo["cov"][ci], mo["u_cov"][ci], dP))
        emm = max(abs(a - b) for a, b in zip(mo["mean"][mi], mo["u_mean"][mi]))
        if all_exact:
            stats["theorem_instances_exact"] = stats.get("theorem_instances_exact", 0) + 1
            if em != 0 or emm != 0:
                probs.append(("corr", "model-sukf-vs-ukf-exact", "component %d: exact model run (all sqrt exact): serial != standard (theorem instance fails on Q): %.3g %.3g" % (i, float(em), float(emm))))
        else:
            tt = 0.05 * (T["tol_cov_s"] + T["tol_cov_u"])     # only the rounding of sqrt(wc) separates the two runs
            if not (em <= tt):
                probs.append(("corr", "model-sukf-vs-ukf", "component %d: model run: serial vs standard covariance differ by %.3g" % (i, float(em))))
        if not lik_close(mo["lik"][i], mo["u_lik"][i], 1e-9 + 0.05 * tl):
            probs.append(("corr", "model-lik-sukf-vs-ukf", "component %d: model run: serial likelihood %.17g standard %.17g" % (i, mo["lik"][i], mo["u_lik"][i])))
    return probs



# ----------------------------------------------------------------------------- histories (round 4)

def gen_history(g, tier, idx):
    """one SUKFCorrection and one UKFCorrection object driven through a random history of correct() (any size, failing
    model calls), skip(b) that stays in force, move construction and getLikelihood() at any moment (before the first
    correction, after a move, after a skipped correction, with a changed noise covariance).
    Returns (harness line `sukfh ...`, ops description for the model line / the evaluation)."""
    r = g.r
    n = r.randint(1, 3)
    bs = r.choice([1, 2, 2, 3])
    nb = r.randint(1, 3)
    mszmax = nb * bs
    red = r.randint(0, 1)
    ut = gen_ut(r, n, "exactsqrt" if r.random() < 0.5 else "any")
    noise = 10 ** r.uniform(-1.5, 0.5)
    spec = {"n": n, "nc": 0, "bs": bs, "red": red, "mszmax": mszmax, "noise": noise,
            "rstyle": r.choice([None, None, "masked", "blockpattern"]) if (not red and nb >= 2 and bs >= 2) else None}
    if red:
        R = g.spd(bs, cond=10 ** r.uniform(0.3, 2.0), scale=noise)
    elif spec["rstyle"]:
        R = special_blocks(g, r, spec)
    else:
        R = vlib.mzeros(mszmax, mszmax)
        for i in range(nb):
            blk = g.spd(bs, cond=10 ** r.uniform(0.3, 2.0), scale=noise * 10 ** r.uniform(-0.5, 0.5))
            for a in range(bs):
                for c in range(bs):
                    R[bs * i + a][bs * i + c] = blk[a][c]
    H = [[r.uniform(-1.5, 1.5) for _ in range(n)] for _ in range(mszmax)]
    h0 = [r.uniform(-1, 1) for _ in range(mszmax)]
    nops = r.randint(3, 8)
    kinds = []
    for i in range(nops):
        kinds.append(r.choice(["C", "C", "C", "C", "Q", "Q", "Q", "S", "M"]))
    pat = idx % 6
    if pat == 0:
        kinds = ["Q"] + kinds                       # before any correction
    elif pat == 1:
        kinds = ["C", "M", "Q"] + kinds             # right after a move
    elif pat == 2:
        kinds = ["C", "S1", "C", "Q", "S0"] + kinds   # after a skipped correction: the earlier likelihood stays
    elif pat == 3:
        kinds = ["C", "Cfail", "Q", "Q"] + kinds    # after a failed correction: none; asked twice
    elif pat == 4:
        kinds = ["C", "Q", "Qr"] + kinds            # the noise covariance changes between correction and query
    ops = []
    skip = False
    last_ok = None          # (msz, rscale) of the last correction that was executed and succeeded
    rs_call = 1.0
    for kd in kinds:
        if kd in ("C", "Cfail"):
            k = r.choice([1, 2, 2, 3])
            msz = mszmax if r.random() < 0.6 else bs * r.randint(1, nb)
            if bs > 1 and r.random() < 0.1:
                msz = r.choice([v for v in range(1, mszmax + 1) if v % bs != 0])
            fail = (0, 0, 0)
            if kd == "Cfail" or r.random() < 0.15:
                j = r.randrange(3)
                fail = tuple(1 if i == j else 0 for i in range(3))
            rs_call = r.choice([1.0, 1.0, 0.5, 2.0])
            means = [[r.uniform(-2, 2) for _ in range(n)] for _ in range(k)]
            Ps = [g.spd(n, cond=10 ** r.uniform(0, 2.5), scale=10 ** r.uniform(-1.5, 0.3)) for _ in range(k)]
            y = [r.uniform(-3, 3) for _ in range(msz)]
            ops.append({"op": "C", "k": k, "msz": msz, "kind": r.choice([0, 1, 2, 3]), "fail": fail, "rscale": rs_call, "skipped": skip,
                        "y": [hexd(v) for v in y], "means": [hexd(means[c][i]) for c in range(k) for i in range(n)],
                        "covs": [hexd(Ps[c][i][j]) for c in range(k) for j in range(n) for i in range(n)],
                        "outw": [hexd(r.uniform(0.01, 1.0)) for _ in range(k)]})
            if not skip:
                last_ok = (msz, rs_call) if (msz % bs == 0 and not any(fail)) else None
        elif kd in ("S", "S0", "S1"):
            b = {"S0": 0, "S1": 1}.get(kd, r.randint(0, 1))
            skip = bool(b)
            ops.append({"op": "S", "b": b})
        elif kd == "M":
            last_ok = None
            ops.append({"op": "M"})
        else:
            mq, rs0 = last_ok if last_ok else (mszmax, 1.0)
            rs = rs0 if (kd == "Q" and r.random() < 0.8) else rs0 * r.choice([0.5, 2.0, 4.0])
            ops.append({"op": "Q", "rscale": rs, "mq": mq, "expect": last_ok is not None, "same_noise": rs == rs0,
                        "src": max((i for i, o in enumerate(ops) if o["op"] == "C" and not o["skipped"]), default=None)})
    toks = ["sukfh", str(n), "0", str(mszmax), str(bs), str(red)] + [hexd(v) for v in ut] + vlib.fmt_mat_cm(H) + [hexd(v) for v in h0] \
        + vlib.fmt_mat_cm(R) + [str(len(ops))]
    for o in ops:
        if o["op"] == "C":
            toks += ["C", str(o["k"]), str(o["msz"]), str(o["kind"])] + [str(f) for f in o["fail"]] + [hexd(o["rscale"])] + o["y"] + o["means"] + o["covs"] + o["outw"]
        elif o["op"] == "S":
            toks += ["S", str(o["b"])]
        elif o["op"] == "M":
            toks += ["M"]
        else:
            toks += ["Q", hexd(o["rscale"]), str(o["mq"])]
    return " ".join(toks), {"n": n, "bs": bs, "red": red, "mszmax": mszmax, "R": R, "ops": ops, "ut": ut, "style": "history"}


def noise_toks(hm, msz, rscale):
    R, bs = hm["R"], hm["bs"]
    if hm["red"]:
        return [hexd(R[a][b] * rscale) for b in range(bs) for a in range(bs)]
    return [hexd(R[a][b] * rscale) for b in range(msz) for a in range(msz)]


def parse_history_out(h, hm):
    """harness output of `sukfh` -> (s, wm, wc, [per-op records])"""
    t = h.split()
    n = hm["n"]
    assert t[0] == "ok" and t[1] == "W"
    s = int(t[2]); p = 3
    wm = t[p:p + s]; p += s
    wc = t[p:p + s]; p += s
    recs = []
    for o in hm["ops"]:
        if o["op"] == "C":
            k, msz = o["k"], o["msz"]
            assert t[p] == "C" and t[p + 1] == "S"; p += 2
            rec = {"s_mean": t[p:p + n * k]}; p += n * k
            rec["s_cov"] = t[p:p + n * n * k]; p += n * n * k
            if t[p] == "U":
                p += 1
                rec["u_mean"] = t[p:p + n * k]; p += n * k
                rec["u_cov"] = t[p:p + n * n * k]; p += n * n * k
            else:
                assert t[p] == "Unone"; p += 1
            assert t[p] == "X"; xc = int(t[p + 1]); p += 2
            rec["X"] = t[p:p + n * xc]; rec["xcols"] = xc; p += n * xc
            assert t[p] == "Y"; yc = int(t[p + 1]); p += 2
            rec["Y"] = t[p:p + msz * yc]; rec["ycols"] = yc; p += msz * yc
            recs.append(rec)
        elif o["op"] == "Q":
            assert t[p] == "Q"; p += 1
            rec = {}
            for tag in ("s", "u"):
                if tag == "u":
                    assert t[p] == "U"; p += 1
                rec[tag + "_valid"] = t[p] == "lik"; cnt = int(t[p + 1]); p += 2
                rec[tag + "_lik"] = [unhex(v) for v in t[p:p + cnt]]; p += cnt
            recs.append(rec)
        else:
            recs.append({})
    assert p == len(t)
    return s, wm, wc, recs


def history_driver_line(hm, s, wm, wc, recs):
    n, bs, red = hm["n"], hm["bs"], hm["red"]
    zero = hexd(0.0)
    toks = ["sukfh", str(n), "0", str(bs), str(red), str(s), str(len(hm["ops"]))]
    for o, rec in zip(hm["ops"], recs):
        if o["op"] == "C":
            k, msz = o["k"], o["msz"]
            X = rec["X"] if rec["xcols"] == s * k else [zero] * (n * s * k)
            Y = rec["Y"] if rec["ycols"] == s * k else [zero] * (msz * s * k)
            toks += ["C", str(msz), str(k)] + [str(1 - f) for f in o["fail"]] + o["y"] + wm + wc + o["means"] + o["covs"] + o["outw"] + X + Y \
                + noise_toks(hm, msz, o["rscale"])
        elif o["op"] == "S":
            toks += ["S", str(o["b"])]
        elif o["op"] == "M":
            toks += ["M"]
        else:
            toks += ["Q", str(o["mq"])] + noise_toks(hm, o["mq"], o["rscale"])
    return " ".join(toks)


def parse_history_model(d, hm):
    """model observations: two lists (serial object, standard object), one entry per C / Q operation"""
    t = d.split()
    assert t[0] == "ok"
    n = hm["n"]
    p = 1
    runs = []
    for _ in range(2):
        obs = []
        for o in hm["ops"]:
            if o["op"] == "C":
                k = o["k"]
                assert t[p] == "B"; p += 1
                mean = [frac(v) for v in t[p:p + n * k]]; p += n * k
                cov = [frac(v) for v in t[p:p + n * n * k]]; p += n * n * k
                obs.append({"mean": mean, "cov": cov})
            elif o["op"] == "Q":
                if t[p] == "N":
                    p += 1
                    obs.append({"lik": None})
                else:
                    assert t[p] == "L"; cnt = int(t[p + 1]); p += 2
                    obs.append({"lik": [unhex(v) for v in t[p:p + cnt]]}); p += cnt
            else:
                obs.append({})
        runs.append(obs)
        if len(runs) == 1:
            assert t[p] == "U"; p += 1
    return runs


def check_history(hm, hout, dout, stats, notes, bump):
    """property predicates on the implementation's own outputs (serial vs standard object over the history, belief
    unchanged for non-multiples) and the tie of the history model (sukfSysRun / ukfSysRun) to both objects"""
    probs = []
    if not hout.startswith("ok"):
        return [("prop", "history-impl-crash", "a history of valid operations failed: %s" % hout[:80])]
    s, wm, wc, recs = parse_history_out(hout, hm)
    if not dout.startswith("ok"):
        return [("corr", "history-model-undefined", "history model not defined: %s" % dout[:40])]
    ms_, mu_ = parse_history_model(dout, hm)
    n, bs, red = hm["n"], hm["bs"], hm["red"]
    all_div = all(o["msz"] % bs == 0 for o in hm["ops"] if o["op"] == "C")
    tol_of = {}
    for oi, (o, rec, m_s, m_u) in enumerate(zip(hm["ops"], recs, ms_, mu_)):
        if o["op"] == "C":
            k, msz = o["k"], o["msz"]
            executed = not o["skipped"]
            ok = executed and msz % bs == 0 and not any(o["fail"])
            bump("history: correct() " + ("skipped" if not executed else ("corrects" if ok else ("size not a multiple" if msz % bs else "early return"))))
            sm = [unhex(v) for v in rec["s_mean"]]; sc = [unhex(v) for v in rec["s_cov"]]
            if not ok:
                if executed and msz % bs != 0 and (rec["s_mean"] != o["means"] or rec["s_cov"] != o["covs"]):
                    probs.append(("prop", "history-size-mismatch-not-identity", "operation %d: measurement size %d is not a multiple of the block size %d but the belief changed" % (oi, msz, bs)))
                if rec["s_mean"] != o["means"] or rec["s_cov"] != o["covs"]:
                    probs.append(("corr", "history-identity", "operation %d: a %s correct() changed the belief" % (oi, "skipped" if not executed else "failing")))
                if m_s["mean"] != [Fraction(unhex(v)) for v in o["means"]] or m_s["cov"] != [Fraction(unhex(v)) for v in o["covs"]]:
                    probs.append(("corr", "history-model-identity", "operation %d: the model does not return the predicted belief" % oi))
                continue
            if rec["xcols"] != s * k or rec["ycols"] != s * k:
                probs.append(("prop", "history-no-sigma-points", "operation %d: a valid measurement of admissible size was not used by the serial correction" % oi))
                continue
            c = {"n": n, "nc": 0, "msz": msz, "bs": bs, "red": red, "k": k, "means": o["means"], "covs": o["covs"], "y": o["y"],
                 "Rt": noise_toks(hm, msz, o["rscale"])}
            oo = {"s": s, "wm": wm, "wc": wc, "X": rec["X"], "Y": rec["Y"], "xcols": rec["xcols"]}
            Ts = [tolerances(c, oo, i) for i in range(k)]
            tol_of[oi] = (c, oo, Ts)
            for i in range(k):
                T = Ts[i]
                mi = slice(i * n, (i + 1) * n); ci = slice(i * n * n, (i + 1) * n * n)
                e = max(abs(Fraction(a) - b) for a, b in zip(sc[ci], m_s["cov"][ci])) if all(math.isfinite(v) for v in sc[ci]) else float("inf")
                relrec(stats, "max_relerr_history_cov_S_vs_model", e, T["tol_cov_s"])
                if not (e <= T["tol_cov_s"]):
                    probs.append(("corr", "history-sukf-cov", "operation %d component %d: serial covariance vs history model: %.3g (tol %.3g)" % (oi, i, float(e), T["tol_cov_s"])))
                e = max(abs(Fraction(a) - b) for a, b in zip(sm[mi], m_s["mean"][mi])) if all(math.isfinite(v) for v in sm[mi]) else float("inf")
                if not (e <= T["tol_mean_s"]):
                    probs.append(("corr", "history-sukf-mean", "operation %d component %d: serial mean vs history model: %.3g (tol %.3g)" % (oi, i, float(e), T["tol_mean_s"])))
                if "u_mean" in rec:
                    um = [unhex(v) for v in rec["u_mean"]]; uc = [unhex(v) for v in rec["u_cov"]]
                    e_cov = max(abs(a - b) for a, b in zip(sc[ci], uc[ci])); e_mean = max(abs(a - b) for a, b in zip(sm[mi], um[mi]))
                    tcov = T["tol_cov_s"] + T["tol_cov_u"] + T["tol_hx"]
                    if not (e_cov <= tcov):
                        probs.append(("prop", "history-cov-differs", "operation %d component %d: serial covariance differs from the standard one by %.3g (tol %.3g)" % (oi, i, e_cov, tcov)))
                    if not (e_mean <= T["tol_mean_s"] + T["tol_mean_u"]):
                        probs.append(("prop", "history-mean-differs", "operation %d component %d: serial mean differs from the standard one by %.3g (tol %.3g)" % (oi, i, e_mean, T["tol_mean_s"] + T["tol_mean_u"])))
                    if all_div:
                        e = max(abs(Fraction(a) - b) for a, b in zip(uc[ci], m_u["cov"][ci]))
                        if not (e <= T["tol_cov_u"]):
                            probs.append(("corr", "history-ukf-cov", "operation %d component %d: standard covariance vs history model: %.3g (tol %.3g)" % (oi, i, float(e), T["tol_cov_u"])))
        elif o["op"] == "Q":
            bump("history: getLikelihood() " + ("with a likelihood" if o["expect"] else "without one") + ("" if o["same_noise"] else ", noise changed"))
            # the serial object against the history model: availability exactly, values within the factorised-density tolerance
            if rec["s_valid"] != (m_s["lik"] is not None):
                probs.append(("corr", "history-likelihood-availability", "operation %d: getLikelihood() reports %s, the history model %s"
                              % (oi, "a likelihood" if rec["s_valid"] else "none", "a likelihood" if m_s["lik"] is not None else "none")))
            if rec["s_valid"] != o["expect"]:
                notes["history:availability_vs_bookkeeping"] = notes.get("history:availability_vs_bookkeeping", 0) + 1
            if all_div and rec["u_valid"] != (m_u["lik"] is not None):
                probs.append(("corr", "history-ukf-likelihood-availability", "operation %d: the standard object reports %s, the history model %s"
                              % (oi, "a likelihood" if rec["u_valid"] else "none", "a likelihood" if m_u["lik"] is not None else "none")))
            # property, on the implementation: over a history of admissible measurements the two objects agree on whether a
            # likelihood is available
            if all_div and rec["s_valid"] != rec["u_valid"]:
                probs.append(("prop", "history-likelihood-availability-differs", "operation %d: after the same history the serial correction reports %s, the standard one %s"
                              % (oi, "a likelihood" if rec["s_valid"] else "none", "a likelihood" if rec["u_valid"] else "none")))
            src = o["src"]
            if rec["s_valid"] and m_s["lik"] is not None and src in tol_of:
                c0, oo, _ = tol_of[src]
                cq = dict(c0); cq["Rt"] = noise_toks(hm, c0["msz"], o["rscale"])
                for i in range(min(len(rec["s_lik"]), len(m_s["lik"]), c0["k"])):
                    Tq = tolerances(cq, oo, i)
                    lim = 0.05
                    if Tq["tolL_s"] <= lim and not lik_close(rec["s_lik"][i], m_s["lik"][i], Tq["tolL_s"]):
                        probs.append(("corr", "history-sukf-lik", "operation %d component %d: serial likelihood %.17g, history model %.17g" % (oi, i, rec["s_lik"][i], m_s["lik"][i])))
                    if o["same_noise"] and all_div and rec["u_valid"] and i < len(rec["u_lik"]):
                        tl = Tq["tolL_s"] + Tq["tolL_u"]
                        if tl <= lim and not lik_close(rec["s_lik"][i], rec["u_lik"][i], tl):
                            probs.append(("prop", "history-likelihood-differs", "operation %d component %d: serial likelihood %.17g, standard %.17g (tol %.3g in the log)"
                                          % (oi, i, rec["s_lik"][i], rec["u_lik"][i], tl)))
                if len(rec["s_lik"]) != c0["k"]:
                    probs.append(("prop", "history-likelihood-count", "operation %d: %d likelihood values for %d components" % (oi, len(rec["s_lik"]), c0["k"])))
    return probs

# ----------------------------------------------------------------------------- run

def meta_of_single(line, style):
    c = parse_line(line)
    return {"style": style, "n": c["n"], "nc": c["nc"], "msz": c["msz"], "bs": c["bs"], "red": c["red"], "ks": [c["k"]], "kind": c["kind"],
            "fails": [c["fail"]], "calls": 1}


def corpus_cases():
    out = []
    p = vlib.VERIF / "corpus" / "C05" / "cases.txt"
    if p.exists():
        for ln in p.read_text().split("\n"):
            ln = ln.strip()
            if ln and not ln.startswith("#") and ln.startswith("sukf "):
                out.append((ln, [ln], meta_of_single(ln, "corpus")))
    return out


def run(ctx):
    ctx.proof_stage()
    binary = vlib.build_harness("h_sukf")
    cases = corpus_cases()       # (harness line, [single-call lines], meta)
    g = ctx.gen("sukf")
    cases += grid_cases(ctx.gen("sukf-grid"), ctx.tier)      # exhaustive over (block size, measurement size)
    for i in range(ctx.n(140, 2500)):
        cases.append(gen_case(g, ctx.tier, i))
    hist_cases = [gen_history(ctx.gen("sukf-history"), ctx.tier, i) for i in range(ctx.n(36, 400))]
    if ctx.replay:
        rep = json.load(open(ctx.replay))["replay"]
        if "history" in rep:
            hist_cases = [(rep["input_line"], rep["history"])]
            rep = {"input_line": cases[0][0], "single_call_lines": cases[0][1]}
        else:
            hist_cases = []
        cases = [(rep["input_line"], rep.get("single_call_lines", [rep["input_line"]]), meta_of_single(rep.get("single_call_lines", [rep["input_line"]])[0], "replay"))]
        cases[0][2]["calls"] = len(cases[0][1])
    from checks.c15 import run_harness_confirmed
    hout, logs, retried = run_harness_confirmed(binary, [c[0] for c in cases])
    # per-call records: (object index, call index, single line, harness output of that call)
    calls = []
    for oi, ((hline, singles, meta), h) in enumerate(zip(cases, hout)):
        for ci, (sl, ho) in enumerate(zip(singles, split_calls(h, len(singles)))):
            calls.append((oi, ci, sl, ho))
    dlines, dmap = [], []
    for oi, ci, sl, ho in calls:
        if ho.startswith("ok"):
            try:
                c = parse_line(sl)
                dlines.append(driver_line(c, parse_hout(ho, c)))
                dmap.append(len(dlines) - 1)
                continue
            except Exception:
                pass
        dmap.append(None)
    from checks.c15 import run_driver_parallel
    dout = run_driver_parallel(dlines)
    stats, notes, hist, branch = {}, {}, {}, {}
    distinct, nontrivial = set(), set()
    corr_bad, prop_bad = [], []

    def bump(key):
        branch[key] = branch.get(key, 0) + 1
    for (oi, ci, sl, ho), di in zip(calls, dmap):
        hline, singles, meta = cases[oi]
        if ci == 0:
            hist[meta["style"]] = hist.get(meta["style"], 0) + 1
            bump("calls per object=%d" % len(singles))
        distinct.add(sl)
        c = parse_line(sl)
        if c["msz"] % c["bs"] != 0:
            bump("early return: meas_size % sub_size != 0")
            bump("non-dividing: sub_size=%d" % c["bs"])
        elif c["fail"][0]:
            bump("early return: no valid measurement")
        elif c["fail"][1]:
            bump("early return: predictedMeasure failed")
        elif c["fail"][2]:
            bump("early return: innovation failed")
        else:
            bump("corrected")
            nontrivial.add(sl)
            bump("noise: " + ("reduced (shared block)" if c["red"] else "full (diagonal blocks)"))
            bump("blocks=%d" % (c["msz"] // c["bs"]))
            bump("sub_size=%d" % c["bs"])
            bump("h kind %d" % c["kind"])
            bump("components=%d" % c["k"])
            if c["nc"]:
                bump("state with circular (Euler) rows")
            if ci > 0:
                bump("corrected on a reused object (call %d)" % (ci + 1))
        if di is None:
            probs = [("prop", "impl-crash", "correction failed on a valid input: %s" % ho[:80])] if not ho.startswith("ok") else \
                    [("prop", "unreadable-result", "output of the corrections has an unexpected shape: %s" % ho[:120])]
        else:
            try:
                probs = check_case(sl, meta, ho, dlines[di], dout[di], stats, notes)
            except Exception as e:      # a malformed / short / non-numeric output is a finding about this case, never a crash of the check
                probs = [("prop", "unreadable-result", "results of the corrections could not be evaluated (%s: %s); output: %s" % (type(e).__name__, str(e)[:80], ho[:120]))]
        for kind, key2, what in probs:
            (corr_bad if kind == "corr" else prop_bad).append((key2, "call %d of %d: %s" % (ci + 1, len(singles), what), hline, singles, hout[oi]))
    # ---- histories: one object of each kind through correct / skip / move / getLikelihood sequences
    hh, hlogs, hretried = run_harness_confirmed(binary, [c[0] for c in hist_cases]) if hist_cases else ([], [], 0)
    hd_lines, hd_map = [], []
    for (hline, hm), ho in zip(hist_cases, hh):
        try:
            s_, wm_, wc_, recs_ = parse_history_out(ho, hm)
            hd_lines.append(history_driver_line(hm, s_, wm_, wc_, recs_))
            hd_map.append(len(hd_lines) - 1)
        except Exception:
            hd_map.append(None)
    hd_out = run_driver_parallel(hd_lines) if hd_lines else []
    hist_prop, hist_corr = [], []
    for (hline, hm), ho, di in zip(hist_cases, hh, hd_map):
        hist["history"] = hist.get("history", 0) + 1
        try:
            if di is None:
                probs = [("prop", "history-impl-crash", "a history of valid operations failed: %s" % ho[:80])] if not ho.startswith("ok") else \
                        [("prop", "history-unreadable-result", "output of the history has an unexpected shape: %s" % ho[:120])]
            else:
                probs = check_history(hm, ho, hd_out[di], stats, notes, bump)
        except Exception as e:
            probs = [("prop", "history-unreadable-result", "results of the history could not be evaluated (%s: %s); output: %s" % (type(e).__name__, str(e)[:80], ho[:120]))]
        for kind, key2, what in probs:
            (hist_corr if kind == "corr" else hist_prop).append((key2, what, hline, hm, ho))
    seen_h = set()
    for key2, what, hline, hm, ho in hist_prop:
        if key2 in seen_h:
            continue
        seen_h.add(key2)
        ctx.violation(key2, "SUKFCorrection vs UKFCorrection objects over a history: " + what,
                      {"harness": "h_sukf", "input_line": hline, "history": hm, "observed": ho[:3000]})
    if hist_corr and not hist_prop and not prop_bad:
        key2, what, hline, hm, ho = hist_corr[0]
        ctx.violation("correspondence:" + key2, "history model and implementation disagree (%d findings): %s" % (len(hist_corr), what),
                      {"harness": "h_sukf", "correspondence": "BFL/Model/SUKF.lean (sukfSysRun / ukfSysRun) vs SUKFCorrection.cpp / UKFCorrection.cpp / GaussianCorrection.cpp",
                       "input_line": hline, "history": hm, "observed": ho[:3000]})
    seen = set()
    for key2, what, hline, singles, h in prop_bad:
        if key2 in seen:
            continue
        seen.add(key2)
        ctx.violation(key2, "SUKFCorrection vs UKFCorrection: " + what,
                      {"harness": "h_sukf", "input_line": hline, "single_call_lines": singles, "observed": h[:3000]})
    if corr_bad and not prop_bad:
        key2, what, hline, singles, h = corr_bad[0]
        ctx.violation("correspondence:" + key2, "model and implementation disagree (%d findings), no property predicate failed: %s" % (len(corr_bad), what),
                      {"harness": "h_sukf", "correspondence": "BFL/Model/SUKF.lean vs SUKFCorrection.cpp / UKFCorrection.cpp",
                       "input_line": hline, "single_call_lines": singles, "observed": h[:3000]}, no_input=True)
    ctx.coverage.update({
        "evaluations": len(calls) + sum(len(hm["ops"]) for _, hm in hist_cases), "distinct_nontrivial": len(nontrivial & distinct), "objects": len(cases) + len(hist_cases),
        "histories": len(hist_cases), "history_operations": sum(len(hm["ops"]) for _, hm in hist_cases),
        "history_model_vs_impl_disagreements": len(hist_corr), "history_property_failures_on_impl": len(hist_prop),
        "rule": "one SUKFCorrection and one additive UKFCorrection object per case, driven through 1..3 successive correct()+getLikelihood() calls (component count, "
                "belief, measurement and failing calls vary from call to call; every call is checked): state dim 1..4, measurement = blocks(1..4) x sub_size in "
                "{1,2,3,5,6}, 1..3 distinct components, h affine / sine / quadratic / coupled (harness-defined AdditiveMeasurementModel), block-diagonal R with distinct "
                "non-isotropic blocks supplied in full, or one shared block; UT parameters with wc_0 >= 0 (incl. wc_0 = 0 and triples with exact square roots); "
                "scalar measurements; sizes not divisible by the block size (sub_size 2,3,5,6); failing model calls; "
                "non-trivial = a call that actually corrects; distinct = distinct single-call inputs",
        "samples": [cases[0][0][:300], cases[-1][0][:300]],
        "style_histogram": hist, "branch_histogram": branch, "numeric": stats, "notes_outside_property": notes,
        "traces_validated_against_impl": len([d for d in dmap if d is not None]) + len([d for d in hd_map if d is not None]),
        "model_vs_impl_disagreements": len(corr_bad), "property_failures_on_impl": len(prop_bad),
        "sanitizer_crashes": len(logs) + len(hlogs), "crashed_cases_rerun_individually": retried + hretried,
    })
    ctx.assumptions += [
        "inverse routine: every matrix the model run inverts is inverted once and certified exactly over Q (A X = 1, X A = 1)",
        "sigma_point() contract (C03): the input sigma points reproduce the predicted covariance; measured on every case (numeric.max_hx_err)",
        "floating point: tolerances scaled by cond(S) for the standard correction and cond(I + Y^T R^-1 Y), cond(R blocks) for the serial one",
        "linear measurement space; state rows linear or Euler-circular with small angular spread (directional_sub of the circular rows is inside the "
        "model: sukfDirSub); quaternion layouts: C03, C14",
    ]
