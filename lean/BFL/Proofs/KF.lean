import Mathlib.LinearAlgebra.Matrix.PosDef
import Mathlib.LinearAlgebra.Matrix.NonsingularInverse
import Mathlib.Algebra.Order.Star.Real
/-
Matrix facts behind the Kalman correction, in Mathlib's vocabulary (helper lemmas; the
property theorems about the model are in `BFL/Props/C01.lean`).
-/
namespace BFL.KFProofs
open Matrix

variable {n m : Type*} [Fintype n] [Fintype m] [DecidableEq n] [DecidableEq m]

noncomputable def S (P : Matrix n n ℝ) (H : Matrix m n ℝ) (R : Matrix m m ℝ) := H * P * Hᵀ + R
noncomputable def K (P : Matrix n n ℝ) (H : Matrix m n ℝ) (R : Matrix m m ℝ) := P * Hᵀ * (S P H R)⁻¹
/-- covariance update exactly as `KFCorrection.cpp` writes it -/
noncomputable def Cov (P : Matrix n n ℝ) (H : Matrix m n ℝ) (R : Matrix m m ℝ) :=
  P - K P H R * S P H R * (K P H R)ᵀ

omit [DecidableEq n] [DecidableEq m] in
theorem S_posDef {P : Matrix n n ℝ} (H : Matrix m n ℝ) {R : Matrix m m ℝ}
    (hP : P.PosSemidef) (hR : R.PosDef) : (S P H R).PosDef := by
  unfold S
  have := hP.mul_mul_conjTranspose_same H
  simpa using Matrix.PosDef.posSemidef_add this hR

omit [DecidableEq n] in
theorem S_isUnit_det {P : Matrix n n ℝ} (H : Matrix m n ℝ) {R : Matrix m m ℝ}
    (hP : P.PosSemidef) (hR : R.PosDef) : IsUnit (S P H R).det :=
  (Matrix.isUnit_iff_isUnit_det _).1 (S_posDef H hP hR).isUnit

omit [DecidableEq n] in
theorem K_mul_S {P : Matrix n n ℝ} (H : Matrix m n ℝ) {R : Matrix m m ℝ}
    (hP : P.PosSemidef) (hR : R.PosDef) : K P H R * S P H R = P * Hᵀ := by
  unfold K
  rw [Matrix.mul_assoc, nonsing_inv_mul _ (S_isUnit_det H hP hR), Matrix.mul_one]

omit [DecidableEq n] [DecidableEq m] in
theorem S_transpose {P : Matrix n n ℝ} (H : Matrix m n ℝ) {R : Matrix m m ℝ}
    (hP : P.PosSemidef) (hR : R.PosDef) : (S P H R)ᵀ = S P H R := by
  simpa using (S_posDef H hP hR).1.eq

omit [DecidableEq n] in
theorem K_transpose {P : Matrix n n ℝ} (H : Matrix m n ℝ) {R : Matrix m m ℝ}
    (hP : P.PosSemidef) (hR : R.PosDef) : (K P H R)ᵀ = (S P H R)⁻¹ * H * P := by
  have hPt : Pᵀ = P := by simpa using hP.1.eq
  unfold K
  rw [transpose_mul, transpose_mul, transpose_transpose, hPt, transpose_nonsing_inv, S_transpose H hP hR]
  simp only [Matrix.mul_assoc]

omit [DecidableEq n] in
theorem Cov_eq {P : Matrix n n ℝ} (H : Matrix m n ℝ) {R : Matrix m m ℝ}
    (hP : P.PosSemidef) (hR : R.PosDef) :
    Cov P H R = P - P * Hᵀ * (S P H R)⁻¹ * H * P := by
  unfold Cov
  rw [K_mul_S H hP hR, K_transpose H hP hR]
  simp only [Matrix.mul_assoc]

omit [DecidableEq n] in
/-- `P⁺ = P − K H P` -/
theorem Cov_eq_sub_KHP {P : Matrix n n ℝ} (H : Matrix m n ℝ) {R : Matrix m m ℝ}
    (hP : P.PosSemidef) (hR : R.PosDef) :
    Cov P H R = P - K P H R * H * P := by
  rw [Cov_eq H hP hR]; unfold K; rfl

/-- Joseph form -/
theorem Cov_joseph {P : Matrix n n ℝ} (H : Matrix m n ℝ) {R : Matrix m m ℝ}
    (hP : P.PosSemidef) (hR : R.PosDef) :
    Cov P H R = (1 - K P H R * H) * P * (1 - K P H R * H)ᵀ + K P H R * R * (K P H R)ᵀ := by
  have hKS := K_mul_S H hP hR
  have hPt : Pᵀ = P := by simpa using hP.1.eq
  have hKt := K_transpose H hP hR
  set Kk := K P H R with hK
  have e1 : Kk * (H * P * Hᵀ) * Kkᵀ + Kk * R * Kkᵀ = P * Hᵀ * Kkᵀ := by
    rw [← Matrix.add_mul, ← Matrix.mul_add]; exact congrArg (· * Kkᵀ) hKS
  unfold Cov
  rw [← hK, hKS]
  simp only [transpose_sub, transpose_one, transpose_mul, Matrix.sub_mul, Matrix.mul_sub, Matrix.one_mul, Matrix.mul_one]
  have e2 : Kk * H * P * (Hᵀ * Kkᵀ) = Kk * (H * P * Hᵀ) * Kkᵀ := by simp only [Matrix.mul_assoc]
  rw [e2]
  have e3 : Kk * (H * P * Hᵀ) * Kkᵀ = P * Hᵀ * Kkᵀ - Kk * R * Kkᵀ := by rw [← e1]; abel
  have e5 : Kk * H * P = P * Hᵀ * Kkᵀ := by
    rw [hKt, hK]; unfold K
    simp only [Matrix.mul_assoc]
  rw [e3, e5]
  simp only [Matrix.mul_assoc]
  abel

theorem Cov_posSemidef {P : Matrix n n ℝ} (H : Matrix m n ℝ) {R : Matrix m m ℝ}
    (hP : P.PosSemidef) (hR : R.PosDef) : (Cov P H R).PosSemidef := by
  rw [Cov_joseph H hP hR]
  have h1 := hP.mul_mul_conjTranspose_same (1 - K P H R * H)
  have h2 := hR.posSemidef.mul_mul_conjTranspose_same (K P H R)
  simpa using h1.add h2

omit [DecidableEq n] in
/-- the prior dominates the posterior: `P − P⁺ = K S Kᵀ ⪰ 0` -/
theorem prior_sub_Cov_posSemidef {P : Matrix n n ℝ} (H : Matrix m n ℝ) {R : Matrix m m ℝ}
    (hP : P.PosSemidef) (hR : R.PosDef) : (P - Cov P H R).PosSemidef := by
  unfold Cov
  have h := (S_posDef H hP hR).posSemidef.mul_mul_conjTranspose_same (K P H R)
  simpa using h

/-- information form: posterior covariance = (P⁻¹ + Hᵀ R⁻¹ H)⁻¹ -/
theorem Cov_information {P : Matrix n n ℝ} (H : Matrix m n ℝ) {R : Matrix m m ℝ}
    (hP : P.PosDef) (hR : R.PosDef) :
    Cov P H R = (P⁻¹ + Hᵀ * R⁻¹ * H)⁻¹ ∧ IsUnit (P⁻¹ + Hᵀ * R⁻¹ * H) := by
  have hS := S_posDef H hP.posSemidef hR
  rw [Cov_eq H hP.posSemidef hR]
  have hPu : IsUnit P.det := (Matrix.isUnit_iff_isUnit_det _).1 hP.isUnit
  have hRu : IsUnit R.det := (Matrix.isUnit_iff_isUnit_det _).1 hR.isUnit
  have hPi : IsUnit P⁻¹ := (Matrix.isUnit_nonsing_inv_iff).2 hP.isUnit
  have hRi : IsUnit R⁻¹ := (Matrix.isUnit_nonsing_inv_iff).2 hR.isUnit
  have hmid : (R⁻¹)⁻¹ + H * (P⁻¹)⁻¹ * Hᵀ = S P H R := by
    rw [nonsing_inv_nonsing_inv _ hPu, nonsing_inv_nonsing_inv _ hRu]; unfold S; abel
  have hJ : IsUnit (P⁻¹ + Hᵀ * R⁻¹ * H) := by
    have hJpd : (P⁻¹ + Hᵀ * R⁻¹ * H).PosDef := by
      have h1 : (P⁻¹).PosDef := hP.inv
      have h2 : (Hᵀ * R⁻¹ * H).PosSemidef := by
        have := hR.inv.posSemidef.mul_mul_conjTranspose_same Hᵀ
        simpa using this
      exact Matrix.PosDef.add_posSemidef h1 h2
    exact hJpd.isUnit
  have := Matrix.add_mul_mul_inv_eq_sub (P⁻¹) Hᵀ (R⁻¹) H hPi hRi (by rw [hmid]; exact hS.isUnit)
  rw [this, hmid, nonsing_inv_nonsing_inv _ hPu]
  exact ⟨rfl, hJ⟩

/-- the posterior of a PD prior is PD (inverse of the PD information matrix) -/
theorem Cov_posDef {P : Matrix n n ℝ} (H : Matrix m n ℝ) {R : Matrix m m ℝ}
    (hP : P.PosDef) (hR : R.PosDef) : (Cov P H R).PosDef := by
  rw [(Cov_information H hP hR).1]
  have h1 : (P⁻¹).PosDef := hP.inv
  have h2 : (Hᵀ * R⁻¹ * H).PosSemidef := by
    have := hR.inv.posSemidef.mul_mul_conjTranspose_same Hᵀ
    simpa using this
  exact (Matrix.PosDef.add_posSemidef h1 h2).inv

omit [DecidableEq n] in
/-- time update of a PSD covariance with PD process noise is PD -/
theorem pred_posDef_of_Q {P Q : Matrix n n ℝ} (F : Matrix n n ℝ)
    (hP : P.PosSemidef) (hQ : Q.PosDef) : (F * P * Fᵀ + Q).PosDef := by
  have h := hP.mul_mul_conjTranspose_same F
  exact Matrix.PosDef.posSemidef_add (by simpa using h) hQ

/-- time update of a PD covariance through an invertible `F` with PSD process noise is PD -/
theorem pred_posDef_of_F {P Q : Matrix n n ℝ} (F : Matrix n n ℝ)
    (hP : P.PosDef) (hQ : Q.PosSemidef) (hF : IsUnit F) : (F * P * Fᵀ + Q).PosDef := by
  have h := hP.mul_mul_conjTranspose_same (B := F) (Matrix.vecMul_injective_iff_isUnit.2 hF)
  exact Matrix.PosDef.add_posSemidef (by simpa using h) hQ

theorem J_mul_K {P : Matrix n n ℝ} (H : Matrix m n ℝ) {R : Matrix m m ℝ}
    (hP : P.PosDef) (hR : R.PosDef) :
    (P⁻¹ + Hᵀ * R⁻¹ * H) * K P H R = Hᵀ * R⁻¹ := by
  have hPu : IsUnit P.det := (Matrix.isUnit_iff_isUnit_det _).1 hP.isUnit
  have hRu : IsUnit R.det := (Matrix.isUnit_iff_isUnit_det _).1 hR.isUnit
  have hSu := S_isUnit_det H hP.posSemidef hR
  have h1 : (P⁻¹ + Hᵀ * R⁻¹ * H) * (P * Hᵀ) = Hᵀ * R⁻¹ * S P H R := by
    have e : H * P * Hᵀ = S P H R - R := by unfold S; abel
    calc (P⁻¹ + Hᵀ * R⁻¹ * H) * (P * Hᵀ)
        = P⁻¹ * P * Hᵀ + Hᵀ * R⁻¹ * (H * P * Hᵀ) := by
          simp only [Matrix.add_mul, Matrix.mul_assoc]
      _ = Hᵀ + Hᵀ * R⁻¹ * (S P H R - R) := by rw [nonsing_inv_mul _ hPu, Matrix.one_mul, e]
      _ = Hᵀ * R⁻¹ * S P H R := by
          rw [Matrix.mul_sub, Matrix.mul_assoc Hᵀ R⁻¹ R, nonsing_inv_mul _ hRu, Matrix.mul_one]; abel
  unfold K
  rw [← Matrix.mul_assoc, h1, Matrix.mul_assoc, Matrix.mul_nonsing_inv _ hSu, Matrix.mul_one]

/-- gain identity `K = P⁺ Hᵀ R⁻¹` -/
theorem Cov_mul_HtRinv {P : Matrix n n ℝ} (H : Matrix m n ℝ) {R : Matrix m m ℝ}
    (hP : P.PosDef) (hR : R.PosDef) : Cov P H R * (Hᵀ * R⁻¹) = K P H R := by
  obtain ⟨hC, hJ⟩ := Cov_information H hP hR
  have hJu : IsUnit (P⁻¹ + Hᵀ * R⁻¹ * H).det := (Matrix.isUnit_iff_isUnit_det _).1 hJ
  have hJK := J_mul_K H hP hR
  calc Cov P H R * (Hᵀ * R⁻¹) = (P⁻¹ + Hᵀ * R⁻¹ * H)⁻¹ * ((P⁻¹ + Hᵀ * R⁻¹ * H) * K P H R) := by rw [hC, hJK]
    _ = K P H R := by rw [← Matrix.mul_assoc, nonsing_inv_mul _ hJu, Matrix.one_mul]

/-- information form of the corrected mean: `m + K (y − H m) = P⁺ (P⁻¹ m + Hᵀ R⁻¹ y)` -/
theorem mean_information {P : Matrix n n ℝ} (H : Matrix m n ℝ) {R : Matrix m m ℝ}
    (hP : P.PosDef) (hR : R.PosDef) (x : n → ℝ) (y : m → ℝ) :
    x + (K P H R) *ᵥ (y - H *ᵥ x) = (Cov P H R) *ᵥ (P⁻¹ *ᵥ x + (Hᵀ * R⁻¹) *ᵥ y) := by
  have hPu : IsUnit P.det := (Matrix.isUnit_iff_isUnit_det _).1 hP.isUnit
  have ha : Cov P H R * P⁻¹ = 1 - K P H R * H := by
    rw [Cov_eq_sub_KHP H hP.posSemidef hR, Matrix.sub_mul, Matrix.mul_nonsing_inv _ hPu,
      Matrix.mul_assoc, Matrix.mul_nonsing_inv _ hPu, Matrix.mul_one]
  rw [Matrix.mulVec_add, Matrix.mulVec_mulVec, Matrix.mulVec_mulVec, ha, Cov_mul_HtRinv H hP hR,
    Matrix.sub_mulVec, Matrix.one_mulVec, Matrix.mulVec_sub, ← Matrix.mulVec_mulVec]
  abel

end BFL.KFProofs
