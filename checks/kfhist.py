"""Kalman filter histories (C01 / C02): a real GaussianFilter (KFPrediction + KFCorrection) driven through
generated multi-step histories (harness ops kfh / kfht), compared step by step with the history model
`kfFilterStep` of lean/BFL/Model/KFHist.lean (driver op kfh) and, through it, with the single-step models
and the property predicates of C01 / C02.

Per step t the model is started from the state the implementation itself was in after step t-1
(re-synchronised: no accumulation of rounding), with the skip commands of steps 1..t replayed from the
flags of a freshly constructed filter:
  * dispatch / hand-over (exact): a skipped prediction / a step without measurement / a skipped correction
    hands the belief over bit for bit (means, covariances, weights); otherwise the weights of the
    member mixtures stay; `getLikelihood()` is unavailable before the first completed correction, keeps
    its value through steps that do not correct;
  * the history model's one-step output == the single-step models kfPredict / kfCorrect, exactly (Q);
  * the implementation's predicted / corrected belief vs those with the tolerances and all predicates of
    checks/c02.py resp. checks/c01.py (information form, symmetry, PSD, P - P+ PSD, likelihood).
Short low-dimensional histories are also run through the model as one fold from the initial state
(accumulated first-order tolerance)."""
from fractions import Fraction

import vlib
from vlib import hexd, frac, unhex

SKIPNAMES = ["prediction", "state", "exogenous", "correction", "all"]


def gen_history(g, idx, tier, want_meas=True):
    """-> dict(line=..., n, k, exo, steps=[...], init=...)"""
    from checks import c01, c02
    r = g.r
    if idx % 7 == 3:
        n = r.choice([7, 8, 9, 12]) if idx != 3 else 12   # product-kernel switch of Eigen (aliasing rewrites) from 7-8 on
        k = 1 if n > 9 else r.choice([1, 2])
        nsteps = r.choice([1, 2])
    else:
        n = idx % 5 + 1 if idx < 10 else r.randint(1, 5)
        k = r.choice([1, 1, 2, 3])
        nsteps = r.choice([2, 3, 3, 4, 5]) if tier == "quick" else r.choice([2, 3, 5, 8])
    fold = (idx % 5 == 0)
    if fold:
        n, k, nsteps = r.randint(1, 3), r.choice([1, 2]), r.randint(2, 4)
    exo = idx % 3 if idx < 9 else r.choice([0, 1, 2])
    threaded = (idx % 3 == 1)
    fstyle = r.choice(["full", "full", "dyadic", "diagF", "identityF", "nonnormal", "singular", "orthF", "tinyscale"])
    hstyle = r.choice(["full", "full", "dyadic", "rankdef", "identityH", "diagonal", "tall", "illcond"]) if fstyle not in ("dyadic", "tinyscale") else ("dyadic" if fstyle == "dyadic" else "tinyscale")
    if hstyle == "dyadic":
        fstyle = "dyadic"
    if fold or n >= 7:
        fstyle = hstyle = "dyadic"                    # short mantissas: the exact rational side stays cheap
    # initial corrected belief
    if fstyle == "dyadic":
        Ps = [g.spd_dyadic(n) for _ in range(k)]
        means = [[g.dyadic(-4, 4, 3) for _ in range(n)] for _ in range(k)]
    else:
        sc = 10 ** r.uniform(-10, -5) if fstyle == "tinyscale" else None
        Ps = [g.spd(n, cond=10 ** r.uniform(0, 3), scale=sc) for _ in range(k)]
        means = [g.vec(n) for _ in range(k)]
    pw = [r.uniform(0.01, 1.0) for _ in range(k)]
    cw = [r.uniform(0.01, 1.0) for _ in range(k)]
    steps = []
    F, Q = c02.gen_FQ(g, fstyle, n)
    G, gv = (g.mat(n, n), g.vec(n)) if exo else (None, None)
    m = None
    for t in range(nsteps):
        if t > 0 and r.random() < 0.6:               # time-varying state model
            F2, Q2 = c02.gen_FQ(g, fstyle, n)
            w = r.choice(["F", "Q", "both", "exo"] if exo else ["F", "Q", "both"])
            F = F2 if w in ("F", "both") else F
            Q = Q2 if w in ("Q", "both") else Q
            if w == "exo":
                G, gv = g.mat(n, n), g.vec(n)
        names = [0, 1, 3, 4] + ([2] if exo else [])
        cmds = []
        u_ = r.random()
        if u_ < 0.3:
            cmds = [(r.choice(names), r.choice([0, 1])) for _ in range(r.randint(1, 3))]
            if r.random() < 0.5:
                cmds.append((4, 0))                   # ... netting to nothing
        elif u_ < 0.55:
            # one flag alone: only the correction / only the prediction / only the state model skipped, or all
            # switched off again (a skipped correction after a prediction that ran must hand the predicted belief over)
            cmds = r.choice([[(3, 1)], [(3, 1)], [(4, 0), (3, 1)], [(0, 1)], [(1, 1)], [(4, 0)], [(4, 0)], [(4, 0), (3, 1)], [(4, 0), (1, 1)], [(3, 0)]])
        hasmeas = want_meas and r.random() < 0.75
        meas = None
        if hasmeas:
            if m is None or r.random() < 0.4:         # the measurement dimension may change between steps
                m = r.randint(1, 4) if n <= 6 else r.choice([2, 7, 8])
                if hstyle in ("identityH",):
                    m = n
            H, R = c01.gen_HR(g, hstyle if not (hstyle == "identityH" and m != n) else "full", n, m)
            y = [g.dyadic(-4, 4, 3) for _ in range(m)] if hstyle == "dyadic" else g.vec(m)
            meas = (m, H, R, y)
        steps.append({"cmds": cmds, "F": F, "Q": Q, "G": G, "g": gv, "meas": meas})
    init = {"pw": [hexd(v) for v in pw],
            "means": [hexd(means[c][i]) for c in range(k) for i in range(n)],
            "covs": [hexd(Ps[c][i][j]) for c in range(k) for j in range(n) for i in range(n)],
            "cw": [hexd(v) for v in cw]}
    h = {"n": n, "k": k, "exo": exo, "threaded": threaded, "steps": steps, "init": init, "style": "%s/%s" % (fstyle, hstyle), "fold": fold}
    h["line"] = history_line(h, "kfht" if threaded else "kfh")
    return h


def step_tokens(n, exo, st, cmds=None):
    cmds = st["cmds"] if cmds is None else cmds
    t = [str(len(cmds))] + [str(x) for c in cmds for x in c]
    t += vlib.fmt_mat_cm(st["F"]) + vlib.fmt_mat_cm(st["Q"])
    if exo:
        t += vlib.fmt_mat_cm(st["G"]) + [hexd(v) for v in st["g"]]
    if st["meas"] is None:
        t += ["0"]
    else:
        m, H, R, y = st["meas"]
        t += ["1", str(m)] + vlib.fmt_mat_cm(H) + vlib.fmt_mat_cm(R) + [hexd(v) for v in y]
    return t


def history_line(h, op):
    i = h["init"]
    t = [op, str(h["n"]), str(h["k"]), str(h["exo"]), "0", "0", "0", "0"] + i["pw"] + i["means"] + i["covs"] + i["cw"]
    t += [str(len(h["steps"]))]
    for st in h["steps"]:
        t += step_tokens(h["n"], h["exo"], st)
    return " ".join(t)


def parse_line(line):
    """inverse of history_line (for --replay)"""
    t = line.split()
    n, k, exo = int(t[1]), int(t[2]), int(t[3])
    p = 8
    init = {"pw": t[p:p + k]}; p += k
    init["means"] = t[p:p + n * k]; p += n * k
    init["covs"] = t[p:p + n * n * k]; p += n * n * k
    init["cw"] = t[p:p + k]; p += k
    ns = int(t[p]); p += 1
    steps = []
    for _ in range(ns):
        nc = int(t[p]); p += 1
        cmds = [(int(t[p + 2 * q]), int(t[p + 2 * q + 1])) for q in range(nc)]; p += 2 * nc
        F = vlib.mat_from_cm(t[p:p + n * n], n, n, unhex); p += n * n
        Q = vlib.mat_from_cm(t[p:p + n * n], n, n, unhex); p += n * n
        G = gv = None
        if exo:
            G = vlib.mat_from_cm(t[p:p + n * n], n, n, unhex); p += n * n
            gv = [unhex(x) for x in t[p:p + n]]; p += n
        hm = int(t[p]); p += 1
        meas = None
        if hm:
            m = int(t[p]); p += 1
            H = vlib.mat_from_cm(t[p:p + m * n], m, n, unhex); p += m * n
            R = vlib.mat_from_cm(t[p:p + m * m], m, m, unhex); p += m * m
            y = [unhex(x) for x in t[p:p + m]]; p += m
            meas = (m, H, R, y)
        steps.append({"cmds": cmds, "F": F, "Q": Q, "G": G, "g": gv, "meas": meas})
    h = {"n": n, "k": k, "exo": exo, "threaded": t[0] == "kfht", "steps": steps, "init": init, "style": "replay", "line": line}
    return h


def split_impl(hout, n, k, nsteps):
    """harness output -> list of dict(pred=(means,covs,w), corr=..., lik=None|[hex]) or None when malformed"""
    if not hout.startswith("ok"):
        return None
    t = hout.split()
    p = 1
    per = n * k + n * n * k + k
    out = []
    for _ in range(nsteps):
        if p >= len(t) or t[p] != "step":
            return None
        p += 1
        pr = (t[p:p + n * k], t[p + n * k:p + n * k + n * n * k], t[p + n * k + n * n * k:p + per]); p += per
        co = (t[p:p + n * k], t[p + n * k:p + n * k + n * n * k], t[p + n * k + n * n * k:p + per]); p += per
        if p >= len(t):
            return None
        lik = None
        if t[p] == "lik":
            cnt = int(t[p + 1])
            lik = t[p + 2:p + 2 + cnt]; p += 2 + cnt
        elif t[p] == "nolik":
            p += 1
        else:
            return None
        if len(co[2]) != k:
            return None
        for x in pr[0] + pr[1] + pr[2] + co[0] + co[1] + co[2] + (lik or []):
            if len(x) != 16:
                return None
        out.append({"pred": pr, "corr": co, "lik": lik})
    if p != len(t):
        return None
    return out


def split_model(dout, n, k, nsteps):
    if not dout.startswith("ok"):
        return None
    t = dout.split()
    p = 1
    per = n * k + n * n * k + k
    out = []
    for _ in range(nsteps):
        if t[p] != "step":
            return None
        flags = [x == "1" for x in t[p + 1:p + 6]]; p += 6
        pr = (t[p:p + n * k], t[p + n * k:p + n * k + n * n * k], t[p + n * k + n * n * k:p + per]); p += per
        co = (t[p:p + n * k], t[p + n * k:p + n * k + n * n * k], t[p + n * k + n * n * k:p + per]); p += per
        lik = None
        if t[p] == "lik":
            lik = t[p + 1:p + 1 + k]; p += 1 + k
        else:
            p += 1
        out.append({"flags": flags, "pred": pr, "corr": co, "lik": lik})
    return out


def finite(tokens):
    for x in tokens:
        v = unhex(x)
        if v != v or v in (float("inf"), float("-inf")):
            return False
    return True


def run_histories(ctx, binary, hists, which):
    """which: 'C01' (correction predicates + hand-over) or 'C02' (prediction predicates + dispatch).
    returns (prop_bad, corr_bad, stats); entries (key, what, harness line, observed)"""
    from checks import c01, c02
    stats = {"histories": len(hists), "steps": 0, "threaded": 0, "pred_skipped": 0, "pred_run": 0, "corr_run": 0, "corr_no_measurement": 0,
             "corr_skipped": 0, "late_exogenous": 0, "lik_stale_checked": 0, "lik_before_first": 0, "fold_steps": 0, "max_n": 0, "max_m": 0}
    prop_bad, corr_bad = [], []
    hout, logs = vlib.run_harness(binary, [h["line"] for h in hists])
    stats["sanitizer_crashes"] = len(logs)
    # pass 1: one-step model lines from the implementation's own states
    jobs = []          # (hist index, step index, driver line)
    impls = []
    for hi, (h, ho) in enumerate(zip(hists, hout)):
        n, k, exo = h["n"], h["k"], h["exo"]
        stats["threaded"] += 1 if h["threaded"] else 0
        stats["late_exogenous"] += 1 if exo == 2 else 0
        stats["max_n"] = max(stats["max_n"], n)
        im = split_impl(ho, n, k, len(h["steps"]))
        impls.append(im)
        if im is None:
            prop_bad.append(("history-unreadable", "filter history: output of the implementation cannot be evaluated: %s" % ho[:160], h["line"], ho))
            continue
        cmds = []
        prev_pw, prev = h["init"]["pw"], (h["init"]["means"], h["init"]["covs"], h["init"]["cw"])
        for t, st in enumerate(h["steps"]):
            cmds = cmds + list(st["cmds"])
            # A: the prediction half from the implementation's previous corrected belief (no measurement)
            stA = dict(st); stA["meas"] = None
            toksA = ["kfh", str(n), str(k), str(exo), "0", "0", "0", "0"] + prev_pw + prev[0] + prev[1] + prev[2] + ["1"] + step_tokens(n, exo, stA, cmds)
            # B: the correction half from the implementation's own predicted belief (identity dynamics: the
            # model's predicted belief is then exactly the belief put in)
            eye = [[1.0 if i == j else 0.0 for j in range(n)] for i in range(n)]
            zer = [[0.0] * n for _ in range(n)]
            stB = dict(st); stB.update({"F": eye, "Q": zer, "G": zer, "g": [0.0] * n})
            toksB = ["kfh", str(n), str(k), str(exo), "0", "0", "0", "0"] + im[t]["pred"][2] + im[t]["pred"][0] + im[t]["pred"][1] + prev[2] + ["1"] + step_tokens(n, exo, stB, cmds)
            jobs.append((hi, t, " ".join(toksA), " ".join(toksB)))
            prev_pw, prev = im[t]["pred"][2], im[t]["corr"]
    doutsA = vlib.run_driver([j[2] for j in jobs])
    doutsB = vlib.run_driver([j[3] for j in jobs])
    # pass 2: single-step lines
    plines, clines, meta = [], [], []
    for (hi, t, lineA, lineB), doA, doB in zip(jobs, doutsA, doutsB):
        h = hists[hi]; n, k, exo = h["n"], h["k"], h["exo"]
        st = h["steps"][t]; im = impls[hi]
        moA, moB = split_model(doA, n, k, 1), split_model(doB, n, k, 1)
        if moA is None or moB is None:
            corr_bad.append(("history-model-undefined", "history model not defined: %s / %s" % (doA[:60], doB[:60]), h["line"], hout[hi]))
            meta.append(None)
            continue
        mo = dict(moB[0]); mo["pred"] = moA[0]["pred"]; mo["predB"] = moB[0]["pred"]
        if moA[0]["flags"][:4] != moB[0]["flags"][:4]:
            corr_bad.append(("history-model-flags", "history model: flags differ between the two halves of a step", h["line"], hout[hi]))
        sp, ss, se, sc, cert = mo["flags"]
        prev = (h["init"]["means"], h["init"]["covs"], h["init"]["cw"]) if t == 0 else im[t - 1]["corr"]
        pl = cl = None
        head = vlib.fmt_mat_cm(st["F"]) + vlib.fmt_mat_cm(st["Q"])
        eff_exo = bool(exo) and not se
        if eff_exo:
            head += vlib.fmt_mat_cm(st["G"]) + [hexd(v) for v in st["g"]]
        if not (sp or ss):
            pl = " ".join(["kfp", str(n), str(k), "1" if eff_exo else "0"] + head + prev[0] + prev[1] + im[t]["pred"][2])
        if st["meas"] is not None and not sc:
            m, H, R, y = st["meas"]
            stats["max_m"] = max(stats["max_m"], m)
            cl = " ".join(["kfc", str(n), str(m), str(k)] + vlib.fmt_mat_cm(H) + vlib.fmt_mat_cm(R) + [hexd(v) for v in y] + im[t]["pred"][0] + im[t]["pred"][1] + im[t]["corr"][2])
        meta.append((hi, t, mo, pl, cl))
        if pl:
            plines.append(pl)
        if cl:
            clines.append(cl)
    pd = vlib.run_driver(plines) if plines else []
    cd = vlib.run_driver(clines) if clines else []
    ci = vlib.run_driver([("kfinfo " + " ".join(l.split()[1:-int(l.split()[3])])) for l in clines]) if clines and which == "C01" else []
    cl_ = vlib.run_driver([("kflik " + " ".join(l.split()[1:-int(l.split()[3])])) for l in clines]) if clines and which == "C01" else []
    pi = ci_ = 0
    numeric = {}
    for mt in meta:
        if mt is None:
            continue
        hi, t, mo, pl, cl = mt
        h = hists[hi]; n, k = h["n"], h["k"]
        st = h["steps"][t]; im = impls[hi]; obs = hout[hi]
        stats["steps"] += 1
        sp, ss, se, sc, cert = mo["flags"]
        prev = (h["init"]["means"], h["init"]["covs"], h["init"]["cw"]) if t == 0 else im[t - 1]["corr"]
        prev_pw = h["init"]["pw"] if t == 0 else im[t - 1]["pred"][2]
        prev_lik = None if t == 0 else im[t - 1]["lik"]
        cur = im[t]
        where = "step %d of %d" % (t + 1, len(h["steps"]))

        def bad(kind, key, what):
            (corr_bad if kind == "corr" else prop_bad).append((key, "filter history, %s: %s" % (where, what), h["line"], obs))

        if not cert:
            bad("corr", "history-inverse-not-certified", "the exact inverse of an innovation covariance could not be certified")
        if not (finite(cur["pred"][0] + cur["pred"][1]) and finite(cur["corr"][0] + cur["corr"][1]) and finite(cur["lik"] or [])):
            bad("prop", "history-not-finite", "non-finite belief / likelihood for a finite input")
            if pl:
                pi += 1
            if cl:
                ci_ += 1
            continue
        # --- prediction side
        if sp or ss:
            stats["pred_skipped"] += 1
            if [list(x) for x in cur["pred"][:2]] != [list(x) for x in prev[:2]]:
                if which == "C02":
                    bad("prop", "skipped-prediction-not-identity", "prediction (or state model) skipped, but the predicted belief is not the previous corrected belief")
            if [[frac(y) for y in x] for x in mo["pred"]] != [[Fraction(unhex(y)) for y in x] for x in prev]:
                bad("corr", "history-model-skip", "history model: skipped prediction does not hand the belief over")
        else:
            stats["pred_run"] += 1
            if list(cur["pred"][2]) != list(prev_pw):
                stats["note_pred_weights_written"] = stats.get("note_pred_weights_written", 0) + 1
            d = pd[pi]; pi += 1
            # history model one step == single-step model, exactly
            if d.startswith("ok"):
                dt = d.split()[1:1 + n * k + n * n * k]
                if [frac(x) for x in dt] != [frac(x) for x in list(mo["pred"][0]) + list(mo["pred"][1])]:
                    bad("corr", "history-model-vs-kfPredict", "history model step differs from kfPredict")
            ho = "ok " + " ".join(list(cur["pred"][0]) + list(cur["pred"][1]) + list(cur["pred"][2])) + " in-same"
            try:
                res = c02.check_case(pl, ho, d, numeric)
            except Exception as ex:
                res = [("prop", "unreadable-result", "prediction of the history cannot be evaluated (%s)" % ex)]
            for kind, key, what in res:
                if which == "C02" or kind == "corr":      # the predicates of the prediction are C02's
                    bad(kind, key, what)
        # --- correction side
        corrects = st["meas"] is not None and not sc
        if not corrects:
            stats["corr_skipped" if sc else "corr_no_measurement"] += 1
            if sc and not (sp or ss):
                stats["corr_skipped_after_prediction_ran"] = stats.get("corr_skipped_after_prediction_ran", 0) + 1
            if [list(x) for x in cur["corr"][:2]] != [list(x) for x in cur["pred"][:2]] and which == "C01":
                bad("prop", "uncorrected-step-not-predicted-belief", "no measurement / correction skipped, but the corrected belief is not the predicted belief")
            if [list(x) for x in mo["corr"]] != [list(x) for x in mo["predB"]]:
                bad("corr", "history-model-nomeas", "history model: a step without measurement does not leave the predicted belief")
            # likelihood memory: unavailable before the first completed correction, unchanged by this step
            stats["lik_stale_checked"] += 1
            if prev_lik is None:
                stats["lik_before_first"] += 1
            # (an implementation that forgets the old value instead - reports none - still meets C01: recorded only)
            if cur["lik"] is None and prev_lik is not None:
                stats["note_likelihood_forgotten_without_correction"] = stats.get("note_likelihood_forgotten_without_correction", 0) + 1
            elif cur["lik"] is not None and (prev_lik is None or list(cur["lik"]) != list(prev_lik)):
                if which == "C01":
                    bad("prop", "likelihood-memory", "getLikelihood() after a step that did not correct reports a value that is not the one of the last completed correction (%s before the step)" % (
                        "none" if prev_lik is None else "available"))
        else:
            stats["corr_run"] += 1
            d = cd[ci_]
            m = st["meas"][0]
            if d.startswith("ok"):
                dt = d.split()[1:1 + n * k + n * n * k]
                if [frac(x) for x in dt] != [frac(x) for x in list(mo["corr"][0]) + list(mo["corr"][1])]:
                    bad("corr", "history-model-vs-kfCorrect", "history model step differs from kfCorrect")
            if which == "C01":
                io, lo = ci[ci_], cl_[ci_]
                lik = cur["lik"]
                ho = "ok " + " ".join(list(cur["corr"][0]) + list(cur["corr"][1]) + list(cur["corr"][2])) + " in-same " + (
                    "nolik" if lik is None else "lik %d %s" % (len(lik), " ".join(lik)))
                try:
                    res = c01.check_case(ctx, cl, {}, ho, d, io, numeric, lo, exact_info=False)
                except Exception as ex:
                    res = [("prop", "unreadable-result", "correction of the history cannot be evaluated (%s)" % ex)]
                for kind, key, what in res:
                    bad(kind, key, what)
                if mo["lik"] is None:
                    bad("corr", "history-model-likelihood", "history model reports no likelihood after a completed correction")
            ci_ += 1
        # weights of the member mixtures: the properties do not speak about them - recorded, never an alarm
        if [frac(x) for x in mo["pred"][2]] != [Fraction(unhex(x)) for x in cur["pred"][2]] or \
           [frac(x) for x in mo["corr"][2]] != [Fraction(unhex(x)) for x in cur["corr"][2]]:
            stats["note_weights_differ_from_model"] = stats.get("note_weights_differ_from_model", 0) + 1
    # the history model as ONE fold from the initial state (exactly representable low-dimensional histories:
    # conditioning bounded by construction, first-order rounding far below 1e-6 relative)
    folds = [(hi, h) for hi, h in enumerate(hists) if h.get("fold") and impls[hi] is not None]
    fouts = vlib.run_driver([history_line(h, "kfh") for _, h in folds]) if folds else []
    for (hi, h), fo in zip(folds, fouts):
        n, k = h["n"], h["k"]
        mo = split_model(fo, n, k, len(h["steps"]))
        if mo is None:
            corr_bad.append(("history-fold-undefined", "history model (fold) not defined: %s" % fo[:60], h["line"], hout[hi]))
            continue
        for t, (ms, cur) in enumerate(zip(mo, impls[hi])):
            stats["fold_steps"] += 1
            worst = 0.0
            for part in ("pred", "corr"):
                mv = [float(frac(x)) for x in list(ms[part][0]) + list(ms[part][1])]
                iv = [unhex(x) for x in list(cur[part][0]) + list(cur[part][1])]
                sc = 1.0 + max(abs(v) for v in mv)
                worst = max(worst, max(abs(a - b) for a, b in zip(mv, iv)) / sc)
            stats["fold_max_rel_dev"] = max(stats.get("fold_max_rel_dev", 0.0), worst)
            if worst > 1e-6:
                key = "history-fold-differs"
                (prop_bad if True else corr_bad).append((key, "filter history, step %d of %d: the belief differs from the exact history recursion started at the initial belief by %.3g (relative)" % (t + 1, len(mo), worst), h["line"], hout[hi]))
                break
            if ms["lik"] is None and cur["lik"] is not None and which == "C01":
                prop_bad.append(("likelihood-availability", "filter history, step %d: getLikelihood() available = %s, history model: %s" % (t + 1, cur["lik"] is not None, ms["lik"] is not None), h["line"], hout[hi]))
                break
            if ms["lik"] is not None and cur["lik"] is not None and which == "C01":
                for a, b in zip(ms["lik"], cur["lik"]):
                    fa, fb = float(frac(a)), unhex(b)
                    if abs(fa - fb) > 1e-5 * max(abs(fa), 1e-300):
                        prop_bad.append(("history-fold-likelihood", "filter history, step %d: likelihood %.17g, exact history recursion %.17g" % (t + 1, fb, fa), h["line"], hout[hi]))
                        break
    stats["numeric"] = numeric
    return prop_bad, corr_bad, stats
