import BFL.Core.Mat
import BFL.Core.Transc
/-
Model of the directional statistics utilities
  src/BayesFilters/src/directional_statistics.cpp

  directional_add(a, b)   = arg(exp(j (a.colwise() + b)))                 entry-wise
  directional_sub(a, b)   = directional_add(a, -b)
  directional_mean(a, w)  = a.col(0)                    if a.cols() == 1   (shortcut, as coded:
                                                                            unwrapped, weight ignored)
                          = arg(exp(j a) * w)           otherwise          row-wise

`exp(j θ)` is the pair `(cos θ, sin θ)` and `arg (x + j y)` is `atan2 y x`; the complex numbers of
the C++ text are spelled out in their two real components so that the model stays polymorphic in
the scalar (`Float` for execution, `ℝ` for the theorems, where `atan2 y x = Complex.arg ⟨x, y⟩`).
-/
namespace BFL.Dir

section
variable {α : Type} [Add α] [Mul α] [Neg α] [Zero α] [Transc α]

/-- `arg(exp(j θ))`: the representative of `θ` in `(-π, π]`. -/
def wrap (θ : α) : α := Transc.atan2 (Transc.sin θ) (Transc.cos θ)

/-- `directional_add`: `b` (one offset per row) is added to every column, then wrapped. -/
def dirAdd {r c : Nat} (a : Mat α r c) (b : Vec α r) : Mat α r c :=
  Mat.of (fun i j => wrap (a i j + b i))

/-- `directional_sub(a, b) = directional_add(a, -b)`. -/
def dirSub {r c : Nat} (a : Mat α r c) (b : Vec α r) : Mat α r c :=
  dirAdd a (Vec.neg b)

/-- real part of the weighted resultant of row `i`: `Σ_k cos(a i k) w k` -/
def resRe {r c : Nat} (a : Mat α r c) (w : Vec α c) (i : Fin r) : α :=
  fsum c (fun k => Transc.cos (a i k) * w k)

/-- imaginary part of the weighted resultant of row `i`: `Σ_k sin(a i k) w k` -/
def resIm {r c : Nat} (a : Mat α r c) (w : Vec α c) (i : Fin r) : α :=
  fsum c (fun k => Transc.sin (a i k) * w k)

/-- `directional_mean`, both branches as coded. -/
def dirMean {r c : Nat} (a : Mat α r c) (w : Vec α c) : Vec α r :=
  if h : c = 1 then
    -- "If one column only is provided, it is returned as is."
    Vec.of (fun i => a i ⟨0, by omega⟩)
  else
    Vec.of (fun i => Transc.atan2 (resIm a w i) (resRe a w i))

/-- which branch of `directional_mean` a shape takes (reported by the driver for the coverage histogram) -/
def dirMeanBranch (c : Nat) : String := if c = 1 then "one-column" else "resultant"

end
end BFL.Dir
