import BFL.Proofs.Quat
import Mathlib.Data.Matrix.Mul
import Mathlib.LinearAlgebra.Matrix.DotProduct
import Mathlib.Algebra.BigOperators.Fin
import Mathlib.Algebra.Order.BigOperators.Ring.Finset
/-
Helper lemmas for the quaternion mean of C18: the weighted outer-product matrix `Σ w_i c_i c_iᵀ`,
the eigenvector contract, and a dominance criterion through the quadratic form.
The first part is generic in the dimension `d`.
-/
namespace BFL.Quat
open Matrix

variable {d n : Nat}

/-- `Σ_i w_i c_i c_iᵀ` -/
def outerSum (w : Fin n → ℝ) (c : Fin n → Fin d → ℝ) : Matrix (Fin d) (Fin d) ℝ :=
  fun a b => ∑ i, w i * c i a * c i b

/-- columns of a `4 × n` matrix as vectors -/
def colsOf (q : Mat ℝ 4 n) : Fin n → Fin 4 → ℝ := fun i a => q a i

theorem toM_outerMean (w : Vec ℝ n) (q : Mat ℝ 4 n) :
    toM (outerMean w q) = outerSum (toV w) (colsOf q) := by
  ext a b
  simp [outerMean, outerSum, colsOf, fsum_eq_sum]

theorem outerSum_mulVec (w : Fin n → ℝ) (c : Fin n → Fin d → ℝ) (u : Fin d → ℝ) (a : Fin d) :
    (outerSum w c *ᵥ u) a = ∑ i, w i * (c i ⬝ᵥ u) * c i a := by
  simp only [Matrix.mulVec, dotProduct, outerSum]
  simp_rw [Finset.sum_mul]
  rw [Finset.sum_comm]
  refine Finset.sum_congr rfl (fun i _ => ?_)
  rw [Finset.mul_sum, Finset.sum_mul]
  exact Finset.sum_congr rfl (fun b _ => by ring)

/-- the quadratic form of `Σ w_i c_i c_iᵀ` -/
theorem outerSum_quadform (w : Fin n → ℝ) (c : Fin n → Fin d → ℝ) (u : Fin d → ℝ) :
    u ⬝ᵥ (outerSum w c *ᵥ u) = ∑ i, w i * (c i ⬝ᵥ u) ^ 2 := by
  simp only [dotProduct, outerSum_mulVec]
  have : ∀ x, u x * ∑ i, (w i * ∑ b, c i b * u b) * c i x
      = ∑ i, (w i * ∑ b, c i b * u b) * (c i x * u x) := by
    intro x; rw [Finset.mul_sum]; exact Finset.sum_congr rfl (fun i _ => by ring)
  simp_rw [this]
  rw [Finset.sum_comm]
  refine Finset.sum_congr rfl (fun i _ => ?_)
  rw [← Finset.mul_sum]; ring

/-- The contract of the eigen-solver call in `mean_quaternion`: a unit eigenvector whose eigenvalue
    is maximal among all real eigenvalues of the matrix. -/
def IsDominantEigvec (M : Matrix (Fin d) (Fin d) ℝ) (v : Fin d → ℝ) : Prop :=
  v ⬝ᵥ v = 1 ∧ ∃ lam : ℝ, M *ᵥ v = lam • v ∧
    ∀ (mu : ℝ) (u : Fin d → ℝ), u ≠ 0 → M *ᵥ u = mu • u → mu ≤ lam

theorem dot_self_pos {u : Fin d → ℝ} (hu : u ≠ 0) : 0 < u ⬝ᵥ u := by
  have h0 : 0 ≤ u ⬝ᵥ u := by
    simp only [dotProduct]; exact Finset.sum_nonneg (fun i _ => mul_self_nonneg _)
  rcases h0.lt_or_eq with h | h
  · exact h
  · exact absurd (dotProduct_self_eq_zero.mp h.symm) hu

/-- Cauchy–Schwarz against a unit vector -/
theorem dot_sq_le (p u : Fin d → ℝ) (hp : p ⬝ᵥ p = 1) : (p ⬝ᵥ u) ^ 2 ≤ u ⬝ᵥ u := by
  have h : 0 ≤ (u - (p ⬝ᵥ u) • p) ⬝ᵥ (u - (p ⬝ᵥ u) • p) := by
    simp only [dotProduct]; exact Finset.sum_nonneg (fun i _ => mul_self_nonneg _)
  have e : (u - (p ⬝ᵥ u) • p) ⬝ᵥ (u - (p ⬝ᵥ u) • p) = u ⬝ᵥ u - (p ⬝ᵥ u) ^ 2 := by
    simp only [sub_dotProduct, dotProduct_sub, smul_dotProduct, dotProduct_smul, smul_eq_mul, hp,
      dotProduct_comm u p]
    ring
  linarith

/-- equality case: unit `v` with `(p·v)² = 1` is `±p` -/
theorem eq_or_neg_of_dot_sq (p v : Fin d → ℝ) (hp : p ⬝ᵥ p = 1) (hv : v ⬝ᵥ v = 1)
    (h : (p ⬝ᵥ v) ^ 2 = 1) : v = p ∨ v = -p := by
  have e : (v - (p ⬝ᵥ v) • p) ⬝ᵥ (v - (p ⬝ᵥ v) • p) = v ⬝ᵥ v - (p ⬝ᵥ v) ^ 2 := by
    simp only [sub_dotProduct, dotProduct_sub, smul_dotProduct, dotProduct_smul, smul_eq_mul, hp,
      dotProduct_comm v p]
    ring
  rw [hv, h, sub_self] at e
  have hz : v - (p ⬝ᵥ v) • p = 0 := dotProduct_self_eq_zero.mp e
  have hvp : v = (p ⬝ᵥ v) • p := sub_eq_zero.mp hz
  have : p ⬝ᵥ v = 1 ∨ p ⬝ᵥ v = -1 := sq_eq_one_iff.mp h
  rcases this with h1 | h1
  · left; rw [hvp, h1, one_smul]
  · right; rw [hvp, h1, neg_one_smul]

/-- Dominance criterion.  `p` is a unit eigenvector with eigenvalue `a` and the quadratic form is
    bounded by `a (p·u)² + t (|u|² − (p·u)²)` with `t < a`.  Then `p` satisfies the contract and every
    vector satisfying the contract is `±p`. -/
theorem dominant_of_quadform (w : Fin n → ℝ) (c : Fin n → Fin d → ℝ) (p : Fin d → ℝ) (a t : ℝ)
    (hp : p ⬝ᵥ p = 1) (hMp : outerSum w c *ᵥ p = a • p) (hta : t < a)
    (hQ : ∀ u : Fin d → ℝ, ∑ i, w i * (c i ⬝ᵥ u) ^ 2 ≤ a * (p ⬝ᵥ u) ^ 2 + t * (u ⬝ᵥ u - (p ⬝ᵥ u) ^ 2)) :
    IsDominantEigvec (outerSum w c) p ∧
    ∀ v, IsDominantEigvec (outerSum w c) v → v = p ∨ v = -p := by
  have hp0 : p ≠ 0 := by
    intro h; rw [h] at hp; simp at hp
  -- every eigenvalue is at most `a`
  have hmax : ∀ (mu : ℝ) (u : Fin d → ℝ), u ≠ 0 → outerSum w c *ᵥ u = mu • u → mu ≤ a := by
    intro mu u hu hMu
    have hq := outerSum_quadform w c u
    rw [hMu, dotProduct_smul, smul_eq_mul] at hq
    have hcs := dot_sq_le p u hp
    have hpos := dot_self_pos hu
    have hb := hQ u
    rw [← hq] at hb
    by_contra hlt
    rw [not_le] at hlt
    nlinarith [mul_nonneg (sub_pos.mpr hta).le (sub_nonneg.mpr hcs), mul_pos (sub_pos.mpr hlt) hpos]
  refine ⟨⟨hp, a, hMp, hmax⟩, ?_⟩
  rintro v ⟨hv, lam, hMv, hvmax⟩
  have h1 : a ≤ lam := hvmax a p hp0 hMp
  have hq := outerSum_quadform w c v
  rw [hMv, dotProduct_smul, smul_eq_mul, hv, mul_one] at hq
  have hb := hQ v
  rw [← hq, hv] at hb
  have hcs := dot_sq_le p v hp
  rw [hv] at hcs
  have : (p ⬝ᵥ v) ^ 2 = 1 := by
    by_contra hne
    have hlt : (p ⬝ᵥ v) ^ 2 < 1 := lt_of_le_of_ne hcs hne
    nlinarith [mul_pos (sub_pos.mpr hta) (sub_pos.mpr hlt)]
  exact eq_or_neg_of_dot_sq p v hp hv this

/-! ### quaternion specifics -/

def Q.dot (a b : Q ℝ) : ℝ := a.w * b.w + a.x * b.x + a.y * b.y + a.z * b.z
def Q.ofFn (u : Fin 4 → ℝ) : Q ℝ := ⟨u 0, u 1, u 2, u 3⟩

theorem get_dot (a : Q ℝ) (u : Fin 4 → ℝ) : a.get ⬝ᵥ u = a.dot (Q.ofFn u) := by
  simp [dotProduct, Fin.sum_univ_four, Q.get, Q.dot, Q.ofFn]

theorem get_dot_get (a b : Q ℝ) : a.get ⬝ᵥ b.get = a.dot b := by
  simp [dotProduct, Fin.sum_univ_four, Q.get, Q.dot]

theorem dot_self_fn (u : Fin 4 → ℝ) : u ⬝ᵥ u = (Q.ofFn u).normSq := by
  simp [dotProduct, Fin.sum_univ_four, Q.normSq, Q.ofFn]; ring

theorem get_dot_self (a : Q ℝ) : a.get ⬝ᵥ a.get = a.normSq := by
  rw [get_dot_get]; simp [Q.dot, Q.normSq]; ring

theorem ofFn_get (a : Q ℝ) : Q.ofFn a.get = a := by
  ext <;> simp [Q.ofFn, Q.get]

theorem get_ofFn (u : Fin 4 → ℝ) : (Q.ofFn u).get = u := by
  funext i; fin_cases i <;> simp [Q.ofFn, Q.get]

theorem get_neg (a : Q ℝ) : a.neg.get = -a.get := by
  funext i; fin_cases i <;> simp [Q.neg, Q.get]

/-- right multiplication is adjoint to right multiplication by the conjugate -/
theorem dot_mul_right (a b c : Q ℝ) : (a.mul c).dot b = a.dot (b.mul c.conj) := by
  simp only [Q.dot, Q.mul, Q.conj]; ring

theorem mul_conj_w (b c : Q ℝ) : (b.mul c.conj).w = c.dot b := by
  simp only [Q.dot, Q.mul, Q.conj]; ring

/-- pairing a sum with an involution of the index set -/
theorem sum_pair {n : Nat} (σ : Fin n → Fin n) (hσ : Function.Involutive σ) (f : Fin n → ℝ) :
    ∑ i, f i = (1 / 2) * ∑ i, (f i + f (σ i)) := by
  have h : ∑ i, f (σ i) = ∑ i, f i := Equiv.sum_comp hσ.toPerm f
  rw [Finset.sum_add_distrib, h]; ring

/-- `(e ⊗ c) + (e* ⊗ c) = 2 e_w c`, component-wise -/
theorem mul_add_conj_mul (e c : Q ℝ) (a : Fin 4) :
    (e.mul c).get a + (e.conj.mul c).get a = 2 * e.w * c.get a := by
  fin_cases a <;> simp [Q.mul, Q.conj, Q.get] <;> ring

/-- Lagrange / Cauchy–Schwarz in ℝ³ -/
theorem cs3 (a b c x y z : ℝ) : (a * x + b * y + c * z) ^ 2 ≤ (a ^ 2 + b ^ 2 + c ^ 2) * (x ^ 2 + y ^ 2 + z ^ 2) := by
  nlinarith [sq_nonneg (a * y - b * x), sq_nonneg (a * z - c * x), sq_nonneg (b * z - c * y)]

/-- Inputs `q_i = e_i ⊗ c` placed symmetrically around a unit centre `c`: the offsets `e_i` are unit
    quaternions closed under conjugation (`e (σ i) = (e i)*` for an involution `σ`, equal weights on a
    pair).  Weights are non-negative except possibly on inputs that coincide with the centre
    (`e_w² = 1`, e.g. the central sigma point of an unscented set), and the gap
    `Σ w_i (2 e_{i,w}² − 1) = Σ w_i cos(angle_i)` is positive.  Then `c` satisfies the eigenvector
    contract for `Σ w_i q_i q_iᵀ` and every vector satisfying it is `±c`. -/
theorem symmetric_centre_dominant_gen {n : Nat} (w : Fin n → ℝ) (e : Fin n → Q ℝ) (c : Q ℝ)
    (σ : Fin n → Fin n) (hσ : Function.Involutive σ)
    (hc : c.normSq = 1) (he : ∀ i, (e i).normSq = 1)
    (hconj : ∀ i, e (σ i) = (e i).conj) (hwσ : ∀ i, w (σ i) = w i)
    (hw : ∀ i, 0 ≤ w i ∨ (e i).w ^ 2 = 1) (hgap : 0 < ∑ i, w i * (2 * (e i).w ^ 2 - 1)) :
    IsDominantEigvec (outerSum w (fun i => ((e i).mul c).get)) c.get ∧
    ∀ v, IsDominantEigvec (outerSum w (fun i => ((e i).mul c).get)) v → v = c.get ∨ v = -c.get := by
  set a : ℝ := ∑ i, w i * (e i).w ^ 2 with ha
  set t : ℝ := ∑ i, w i * (1 - (e i).w ^ 2) with ht
  have hdotc : ∀ i, ((e i).mul c).get ⬝ᵥ c.get = (e i).w := by
    intro i
    rw [get_dot_get, dot_mul_right, mul_conj_self, hc]
    simp [Q.dot]
  apply dominant_of_quadform w _ c.get a t
  · rw [get_dot_self, hc]
  · -- `M c = a c`
    funext k
    rw [outerSum_mulVec]
    simp only [hdotc, Pi.smul_apply, smul_eq_mul]
    rw [sum_pair σ hσ]
    have : ∀ i, w i * (e i).w * ((e i).mul c).get k + w (σ i) * (e (σ i)).w * ((e (σ i)).mul c).get k
        = 2 * (w i * (e i).w ^ 2) * c.get k := by
      intro i
      rw [hwσ, hconj]
      have hw' : (e i).conj.w = (e i).w := rfl
      rw [hw']
      have := mul_add_conj_mul (e i) c k
      calc w i * (e i).w * ((e i).mul c).get k + w i * (e i).w * ((e i).conj.mul c).get k
          = w i * (e i).w * (((e i).mul c).get k + ((e i).conj.mul c).get k) := by ring
        _ = 2 * (w i * (e i).w ^ 2) * c.get k := by rw [this]; ring
    simp_rw [this]
    rw [← Finset.sum_mul, ← Finset.mul_sum]
    ring
  · -- `t < a`
    have hpos := hgap
    have : a - t = ∑ i, w i * (2 * (e i).w ^ 2 - 1) := by
      rw [ha, ht, ← Finset.sum_sub_distrib]
      exact Finset.sum_congr rfl (fun i _ => by ring)
    linarith
  · -- the quadratic form
    intro u
    set y : Q ℝ := (Q.ofFn u).mul c.conj with hy
    have hyw : y.w = c.get ⬝ᵥ u := by rw [hy, mul_conj_w, get_dot]
    have hyn : y.normSq = u ⬝ᵥ u := by rw [hy, normSq_mul, normSq_conj, hc, mul_one, dot_self_fn]
    have hdot : ∀ i, ((e i).mul c).get ⬝ᵥ u = (e i).dot y := by
      intro i; rw [get_dot, dot_mul_right]
    simp_rw [hdot]
    rw [sum_pair σ hσ]
    have hterm : ∀ i, w i * (e i).dot y ^ 2 + w (σ i) * (e (σ i)).dot y ^ 2
        ≤ 2 * (w i * (e i).w ^ 2 * y.w ^ 2 + w i * (1 - (e i).w ^ 2) * (y.normSq - y.w ^ 2)) := by
      intro i
      rw [hwσ, hconj]
      have hcs := cs3 (e i).x (e i).y (e i).z y.x y.y y.z
      have hunit : (e i).x ^ 2 + (e i).y ^ 2 + (e i).z ^ 2 = 1 - (e i).w ^ 2 := by
        have := he i; unfold Q.normSq at this; linarith
      have hyv : y.x ^ 2 + y.y ^ 2 + y.z ^ 2 = y.normSq - y.w ^ 2 := by unfold Q.normSq; ring
      rw [hunit, hyv] at hcs
      have e1 : (e i).dot y ^ 2 + (e i).conj.dot y ^ 2
          = 2 * ((e i).w ^ 2 * y.w ^ 2) + 2 * ((e i).x * y.x + (e i).y * y.y + (e i).z * y.z) ^ 2 := by
        simp only [Q.dot, Q.conj]; ring
      have : w i * (e i).dot y ^ 2 + w i * (e i).conj.dot y ^ 2
          = w i * ((e i).dot y ^ 2 + (e i).conj.dot y ^ 2) := by ring
      rw [this, e1]
      rcases hw i with hwi | hone
      · nlinarith [mul_le_mul_of_nonneg_left hcs hwi]
      · have hz : (e i).x ^ 2 + (e i).y ^ 2 + (e i).z ^ 2 = 0 := by rw [hunit, hone]; ring
        have hx0 : (e i).x = 0 := by nlinarith [sq_nonneg (e i).x, sq_nonneg (e i).y, sq_nonneg (e i).z]
        have hy0 : (e i).y = 0 := by nlinarith [sq_nonneg (e i).x, sq_nonneg (e i).y, sq_nonneg (e i).z]
        have hz0 : (e i).z = 0 := by nlinarith [sq_nonneg (e i).x, sq_nonneg (e i).y, sq_nonneg (e i).z]
        rw [hx0, hy0, hz0, hone]; ring_nf; exact le_refl _
    calc (1 / 2) * ∑ i, (w i * (e i).dot y ^ 2 + w (σ i) * (e (σ i)).dot y ^ 2)
        ≤ (1 / 2) * ∑ i, 2 * (w i * (e i).w ^ 2 * y.w ^ 2 + w i * (1 - (e i).w ^ 2) * (y.normSq - y.w ^ 2)) := by
          apply mul_le_mul_of_nonneg_left (Finset.sum_le_sum (fun i _ => hterm i)) (by norm_num)
      _ = a * (c.get ⬝ᵥ u) ^ 2 + t * (u ⬝ᵥ u - (c.get ⬝ᵥ u) ^ 2) := by
          rw [ha, ht, ← hyw, ← hyn, ← Finset.mul_sum, Finset.sum_add_distrib, Finset.sum_mul, Finset.sum_mul]
          ring

/-- non-negative weights with positive sum, every offset less than a quarter turn from the identity
    (`e_w² > 1/2`, half-angle < π/4) -/
theorem symmetric_centre_dominant {n : Nat} (w : Fin n → ℝ) (e : Fin n → Q ℝ) (c : Q ℝ)
    (σ : Fin n → Fin n) (hσ : Function.Involutive σ)
    (hc : c.normSq = 1) (he : ∀ i, (e i).normSq = 1)
    (hconj : ∀ i, e (σ i) = (e i).conj) (hwσ : ∀ i, w (σ i) = w i)
    (hw : ∀ i, 0 ≤ w i) (hsum : 0 < ∑ i, w i) (hquarter : ∀ i, 1 / 2 < (e i).w ^ 2) :
    IsDominantEigvec (outerSum w (fun i => ((e i).mul c).get)) c.get ∧
    ∀ v, IsDominantEigvec (outerSum w (fun i => ((e i).mul c).get)) v → v = c.get ∨ v = -c.get := by
  refine symmetric_centre_dominant_gen w e c σ hσ hc he hconj hwσ (fun i => Or.inl (hw i)) ?_
  have hex : ∃ i ∈ Finset.univ, 0 < w i := by
    by_contra hno
    push Not at hno
    have : ∑ i, w i ≤ 0 := Finset.sum_nonpos (fun i hi => hno i hi)
    linarith
  obtain ⟨i0, _, hi0⟩ := hex
  refine Finset.sum_pos' (fun i _ => mul_nonneg (hw i) (by linarith [hquarter i])) ⟨i0, Finset.mem_univ _, ?_⟩
  exact mul_pos hi0 (by linarith [hquarter i0])

/-! ### the exponential of opposite rotation vectors; quarter-turn bound -/

theorem V3.neg_norm (r : V3 ℝ) : r.neg.norm = r.norm := by
  rw [V3.norm_def, V3.norm_def]; simp [V3.neg]

theorem quatExp_neg (r : V3 ℝ) : quatExp r.neg = (quatExp r).conj := by
  by_cases h : cutoff < r.norm
  · rw [quatExp_regular r h, quatExp_regular r.neg (by rw [V3.neg_norm]; exact h), V3.neg_norm]
    ext <;> simp only [Q.conj, V3.neg] <;> ring
  · rw [quatExp_cut r (not_lt.mp h), quatExp_cut r.neg (by rw [V3.neg_norm]; exact not_lt.mp h)]
    ext <;> simp [Q.conj]

/-- rotation angle below a quarter turn (half-angle below π/4): `w² > 1/2` -/
theorem quatExp_w_sq (r : V3 ℝ) (h : r.norm < Real.pi / 2) : 1 / 2 < (quatExp r).w ^ 2 := by
  by_cases hc : cutoff < r.norm
  · rw [quatExp_regular r hc]
    simp only
    rw [Real.cos_sq (r.norm / 2)]
    have h0 := V3.norm_nonneg r
    have : 0 < Real.cos (2 * (r.norm / 2)) :=
      Real.cos_pos_of_mem_Ioo ⟨by linarith [Real.pi_pos], by linarith⟩
    linarith
  · rw [quatExp_cut r (not_lt.mp hc)]; norm_num

/-! ### invariance of the outer-product matrix -/

theorem outerSum_sign (w : Fin n → ℝ) (c : Fin n → Fin d → ℝ) (s : Fin n → ℝ)
    (hs : ∀ i, s i = 1 ∨ s i = -1) : outerSum w (fun i => s i • c i) = outerSum w c := by
  funext a b
  simp only [outerSum, Pi.smul_apply, smul_eq_mul]
  refine Finset.sum_congr rfl (fun i _ => ?_)
  rcases hs i with h | h <;> rw [h] <;> ring

theorem outerSum_perm (w : Fin n → ℝ) (c : Fin n → Fin d → ℝ) (σ : Equiv.Perm (Fin n)) :
    outerSum (fun i => w (σ i)) (fun i => c (σ i)) = outerSum w c := by
  funext a b
  simp only [outerSum]
  exact Equiv.sum_comp σ (fun i => w i * c i a * c i b)

/-- all inputs `± q0`: `q0` satisfies the contract and every vector satisfying it is `± q0` -/
theorem all_equal_dominant (w : Fin n → ℝ) (s : Fin n → ℝ) (hs : ∀ i, s i = 1 ∨ s i = -1)
    (p : Fin d → ℝ) (hp : p ⬝ᵥ p = 1) (hsum : 0 < ∑ i, w i) :
    IsDominantEigvec (outerSum w (fun i => s i • p)) p ∧
    ∀ v, IsDominantEigvec (outerSum w (fun i => s i • p)) v → v = p ∨ v = -p := by
  rw [outerSum_sign w (fun _ => p) s hs]
  apply dominant_of_quadform w _ p (∑ i, w i) 0 hp
  · funext k
    rw [outerSum_mulVec]
    simp only [hp, mul_one, Pi.smul_apply, smul_eq_mul]
    rw [Finset.sum_mul]
  · exact hsum
  · intro u
    rw [zero_mul, add_zero, Finset.sum_mul]

theorem colsOf_eq (q : Mat ℝ 4 n) (i : Fin n) : colsOf q i = (Q.ofCol q i).get := by
  funext a; fin_cases a <;> rfl

/-! ### a sigma-point set with negative central weight whose mean is not the centre -/

theorem ofCol_qCols {n : Nat} (f : Fin n → Q ℝ) (i : Fin n) : Q.ofCol (qCols f) i = f i := by
  ext <;> simp [Q.ofCol, qCols, Q.get]

theorem norm_x_axis (a : ℝ) (ha : 0 ≤ a) : (⟨a, 0, 0⟩ : V3 ℝ).norm = a := by
  rw [V3.norm_def]
  simp only
  rw [show a ^ 2 + (0 : ℝ) ^ 2 + 0 ^ 2 = a ^ 2 by ring]
  exact Real.sqrt_sq ha

/-- the witness: centre `1`, rotation vectors `0, (3/2,0,0), (-3/2,0,0)`, weights `-1, 1, 1` -/
noncomputable def rWide : Fin 3 → V3 ℝ := ![⟨0, 0, 0⟩, ⟨3 / 2, 0, 0⟩, (⟨3 / 2, 0, 0⟩ : V3 ℝ).neg]
def wWide : Fin 3 → ℝ := ![-1, 1, 1]

theorem exp_wide : quatExp (⟨3 / 2, 0, 0⟩ : V3 ℝ) = ⟨Real.cos (3 / 4), Real.sin (3 / 4), 0, 0⟩ := by
  have hn := norm_x_axis (3 / 2) (by norm_num)
  rw [quatExp_regular _ (by rw [hn, cutoff_val]; norm_num), hn]
  ext <;> simp only <;> ring_nf

theorem cos_three_halves_le : Real.cos (3 / 2) ≤ 1 / 2 := by
  rw [← Real.cos_pi_div_three]
  apply Real.cos_le_cos_of_nonneg_of_le_pi
  · linarith [Real.pi_pos]
  · linarith [Real.pi_gt_three]
  · linarith [Real.pi_lt_four]

theorem sum_wide0 : quatSum ⟨1, 0, 0, 0⟩ (rWide 0) = ⟨1, 0, 0, 0⟩ := by
  have h0 : rWide 0 = ⟨0, 0, 0⟩ := rfl
  have : quatExp (⟨0, 0, 0⟩ : V3 ℝ) = ⟨1, 0, 0, 0⟩ :=
    quatExp_cut _ (by rw [V3.norm_zero]; exact cutoff_pos.le)
  rw [h0, quatSum, this, mul_one']

theorem sum_wide1 : quatSum ⟨1, 0, 0, 0⟩ (rWide 1) = ⟨Real.cos (3 / 4), Real.sin (3 / 4), 0, 0⟩ := by
  have h1 : rWide 1 = ⟨3 / 2, 0, 0⟩ := rfl
  rw [h1, quatSum, exp_wide, mul_one']

theorem sum_wide2 : quatSum ⟨1, 0, 0, 0⟩ (rWide 2) = ⟨Real.cos (3 / 4), -Real.sin (3 / 4), 0, 0⟩ := by
  have h2 : rWide 2 = (⟨3 / 2, 0, 0⟩ : V3 ℝ).neg := rfl
  rw [h2, quatSum, quatExp_neg, exp_wide, mul_one']
  ext <;> simp [Q.conj]

/-- the quadratic form of the witness matrix -/
theorem quadform_wide (u : Fin 4 → ℝ) :
    ∑ i, wWide i * ((quatSum ⟨1, 0, 0, 0⟩ (rWide i)).get ⬝ᵥ u) ^ 2
      = Real.cos (3 / 2) * u 0 ^ 2 + (1 - Real.cos (3 / 2)) * u 1 ^ 2 := by
  have hc : Real.cos (3 / 2) = 2 * Real.cos (3 / 4) ^ 2 - 1 := by
    rw [← Real.cos_two_mul]; norm_num
  have hs : Real.sin (3 / 4) ^ 2 = 1 - Real.cos (3 / 4) ^ 2 := by
    linarith [Real.sin_sq_add_cos_sq (3 / 4)]
  rw [Fin.sum_univ_three, sum_wide0, sum_wide1, sum_wide2, hc]
  simp only [wWide, dotProduct, Fin.sum_univ_four, Q.get, Matrix.cons_val_zero, Matrix.cons_val_one,
    Matrix.cons_val]
  linear_combination (2 * u 1 ^ 2) * hs

/-- `(0,1,0,0)` — a half turn about x away from the centre — satisfies the eigenvector contract for the
    witness set -/
theorem wide_contract :
    IsDominantEigvec (outerSum wWide (fun i => (quatSum ⟨1, 0, 0, 0⟩ (rWide i)).get))
      (⟨0, 1, 0, 0⟩ : Q ℝ).get := by
  have hs2 : 2 * Real.sin (3 / 4) ^ 2 = 1 - Real.cos (3 / 2) := by
    have : Real.cos (3 / 2) = 2 * Real.cos (3 / 4) ^ 2 - 1 := by rw [← Real.cos_two_mul]; norm_num
    linarith [Real.sin_sq_add_cos_sq (3 / 4)]
  refine ⟨by rw [get_dot_self]; simp [Q.normSq], 1 - Real.cos (3 / 2), ?_, ?_⟩
  · funext a
    rw [outerSum_mulVec, Fin.sum_univ_three, sum_wide0, sum_wide1, sum_wide2]
    fin_cases a <;>
      simp [wWide, dotProduct, Fin.sum_univ_four, Q.get] <;>
      linarith [hs2]
  · intro mu u hu hMu
    have hq := outerSum_quadform wWide (fun i => (quatSum ⟨1, 0, 0, 0⟩ (rWide i)).get) u
    rw [hMu, dotProduct_smul, smul_eq_mul, quadform_wide] at hq
    have hpos := dot_self_pos hu
    have huu : u ⬝ᵥ u = u 0 ^ 2 + u 1 ^ 2 + u 2 ^ 2 + u 3 ^ 2 := by
      simp [dotProduct, Fin.sum_univ_four]; ring
    have hc := cos_three_halves_le
    by_contra hlt
    rw [not_le] at hlt
    have : (1 - Real.cos (3 / 2)) * (u ⬝ᵥ u) < mu * (u ⬝ᵥ u) := mul_lt_mul_of_pos_right hlt hpos
    rw [hq, huu] at this
    nlinarith [sq_nonneg (u 0), sq_nonneg (u 1), sq_nonneg (u 2), sq_nonneg (u 3)]

/-! ### uniqueness up to sign under a simple largest eigenvalue -/

/-- If the eigenspace of `v`'s eigenvalue is the line through `v` (the largest eigenvalue is simple), every
    other vector meeting the contract is `±v`.  No symmetry of `M` is needed. -/
theorem contract_unique_of_simple (M : Matrix (Fin d) (Fin d) ℝ) (v v' : Fin d → ℝ)
    (hv : IsDominantEigvec M v) (hv' : IsDominantEigvec M v')
    (hsimple : ∀ (lam : ℝ) (u : Fin d → ℝ), M *ᵥ v = lam • v → M *ᵥ u = lam • u → ∃ c : ℝ, u = c • v) :
    v' = v ∨ v' = -v := by
  obtain ⟨hu, lam, hM, hmax⟩ := hv
  obtain ⟨hu', lam', hM', hmax'⟩ := hv'
  have hv0 : v ≠ 0 := by intro h; rw [h] at hu; simp at hu
  have hv0' : v' ≠ 0 := by intro h; rw [h] at hu'; simp at hu'
  have hle : lam' ≤ lam := hmax lam' v' hv0' hM'
  have hge : lam ≤ lam' := hmax' lam v hv0 hM
  have heq : lam' = lam := le_antisymm hle hge
  rw [heq] at hM'
  obtain ⟨c, hc⟩ := hsimple lam v' hM hM'
  have : c ^ 2 = 1 := by
    rw [hc, smul_dotProduct, dotProduct_smul, hu] at hu'
    simp only [smul_eq_mul, mul_one] at hu'
    nlinarith
  rcases sq_eq_one_iff.mp this with h1 | h1
  · left; rw [hc, h1, one_smul]
  · right; rw [hc, h1, neg_one_smul]

/-- A spectral gap in quadratic-form terms (`λ₂ ≤ t < a = λ₁` for the symmetric matrix `Σ w_i c_i c_iᵀ`)
    makes the largest eigenvalue simple. -/
theorem simple_of_quadform (w : Fin n → ℝ) (c : Fin n → Fin d → ℝ) (p : Fin d → ℝ) (a t : ℝ)
    (hp : p ⬝ᵥ p = 1) (hta : t < a)
    (hQ : ∀ u : Fin d → ℝ, ∑ i, w i * (c i ⬝ᵥ u) ^ 2 ≤ a * (p ⬝ᵥ u) ^ 2 + t * (u ⬝ᵥ u - (p ⬝ᵥ u) ^ 2))
    (u : Fin d → ℝ) (hu : outerSum w c *ᵥ u = a • u) : ∃ k : ℝ, u = k • p := by
  refine ⟨p ⬝ᵥ u, ?_⟩
  have hq := outerSum_quadform w c u
  rw [hu, dotProduct_smul, smul_eq_mul] at hq
  have hb := hQ u
  rw [← hq] at hb
  have hcs := dot_sq_le p u hp
  have hzero : u ⬝ᵥ u - (p ⬝ᵥ u) ^ 2 = 0 := by
    by_contra hne
    have hpos : 0 < u ⬝ᵥ u - (p ⬝ᵥ u) ^ 2 := lt_of_le_of_ne (sub_nonneg.mpr hcs) (Ne.symm hne)
    nlinarith [mul_pos (sub_pos.mpr hta) hpos]
  have e : (u - (p ⬝ᵥ u) • p) ⬝ᵥ (u - (p ⬝ᵥ u) • p) = u ⬝ᵥ u - (p ⬝ᵥ u) ^ 2 := by
    simp only [sub_dotProduct, dotProduct_sub, smul_dotProduct, dotProduct_smul, smul_eq_mul, hp,
      dotProduct_comm u p]
    ring
  rw [hzero] at e
  exact sub_eq_zero.mp (dotProduct_self_eq_zero.mp e)

/-- two orthogonal inputs with equal weights (a half turn apart as rotations): both meet the contract -/
theorem half_turn_both_dominant (p q : Fin d → ℝ) (hp : p ⬝ᵥ p = 1) (hq : q ⬝ᵥ q = 1) (hpq : p ⬝ᵥ q = 0) :
    IsDominantEigvec (outerSum (fun _ : Fin 2 => (1 / 2 : ℝ)) ![p, q]) p ∧
    IsDominantEigvec (outerSum (fun _ : Fin 2 => (1 / 2 : ℝ)) ![p, q]) q := by
  have hqp : q ⬝ᵥ p = 0 := by rw [dotProduct_comm]; exact hpq
  have hmax : ∀ (mu : ℝ) (u : Fin d → ℝ), u ≠ 0 →
      outerSum (fun _ : Fin 2 => (1 / 2 : ℝ)) ![p, q] *ᵥ u = mu • u → mu ≤ 1 / 2 := by
    intro mu u hu hMu
    have hq2 := outerSum_quadform (fun _ : Fin 2 => (1 / 2 : ℝ)) ![p, q] u
    rw [hMu, dotProduct_smul, smul_eq_mul, Fin.sum_univ_two] at hq2
    simp only [Matrix.cons_val_zero, Matrix.cons_val_one] at hq2
    have hpos := dot_self_pos hu
    -- Bessel: (p·u)² + (q·u)² ≤ u·u
    have hb : 0 ≤ (u - (p ⬝ᵥ u) • p - (q ⬝ᵥ u) • q) ⬝ᵥ (u - (p ⬝ᵥ u) • p - (q ⬝ᵥ u) • q) := by
      simp only [dotProduct]; exact Finset.sum_nonneg (fun i _ => mul_self_nonneg _)
    have e : (u - (p ⬝ᵥ u) • p - (q ⬝ᵥ u) • q) ⬝ᵥ (u - (p ⬝ᵥ u) • p - (q ⬝ᵥ u) • q)
        = u ⬝ᵥ u - (p ⬝ᵥ u) ^ 2 - (q ⬝ᵥ u) ^ 2 := by
      simp only [sub_dotProduct, dotProduct_sub, smul_dotProduct, dotProduct_smul, smul_eq_mul, hp, hq,
        hpq, hqp, dotProduct_comm u p, dotProduct_comm u q]
      ring
    rw [e] at hb
    by_contra hlt
    rw [not_le] at hlt
    nlinarith [mul_pos (sub_pos.mpr hlt) hpos]
  refine ⟨⟨hp, 1 / 2, ?_, hmax⟩, ⟨hq, 1 / 2, ?_, hmax⟩⟩
  · funext k
    rw [outerSum_mulVec, Fin.sum_univ_two]
    simp [hp, hqp]
  · funext k
    rw [outerSum_mulVec, Fin.sum_univ_two]
    simp [hq, hpq]

/-! ## histories -/

/-- product of the exponentials of a history, the latest increment on the left -/
noncomputable def expProd : List (V3 ℝ) → Q ℝ
  | [] => ⟨1, 0, 0, 0⟩
  | r :: rs => (expProd rs).mul (quatExp r)

theorem expProd_normSq (rs : List (V3 ℝ)) : (expProd rs).normSq = 1 := by
  induction rs with
  | nil => simp [expProd, Q.normSq]
  | cons r rs ih => simp only [expProd]; rw [normSq_mul, ih, quatExp_normSq, mul_one]

theorem sumChain_eq_prod (q : Q ℝ) (rs : List (V3 ℝ)) : sumChain q rs = (expProd rs).mul q := by
  induction rs generalizing q with
  | nil => simp [sumChain, expProd, one_mul']
  | cons r rs ih => simp only [sumChain, expProd]; rw [ih, quatSum, mul_assoc']

theorem sumChain_append (q : Q ℝ) (rs ss : List (V3 ℝ)) :
    sumChain q (rs ++ ss) = sumChain (sumChain q rs) ss := by
  induction rs generalizing q with
  | nil => rfl
  | cons r rs ih => simp only [List.cons_append, sumChain]; exact ih _

theorem quatSum_neg_cancel (q : Q ℝ) (r : V3 ℝ) : quatSum (quatSum q r) r.neg = q := by
  unfold quatSum
  rw [quatExp_neg, ← mul_assoc', conj_mul_self, quatExp_normSq, one_mul']

theorem sumChain_unwind (q : Q ℝ) (rs : List (V3 ℝ)) :
    sumChain (sumChain q rs) (rs.reverse.map V3.neg) = q := by
  induction rs generalizing q with
  | nil => rfl
  | cons r rs ih =>
    simp only [sumChain, List.reverse_cons, List.map_append, List.map_cons, List.map_nil]
    rw [sumChain_append, ih]
    simp only [sumChain]
    exact quatSum_neg_cancel q r

theorem sumTrace_unit (q : Q ℝ) (hq : q.normSq = 1) (rs : List (V3 ℝ)) :
    ∀ p ∈ sumTrace q rs, p.normSq = 1 := by
  induction rs generalizing q with
  | nil => intro p hp; simp [sumTrace] at hp
  | cons r rs ih =>
    intro p hp
    simp only [sumTrace, List.mem_cons] at hp
    have hu : (quatSum q r).normSq = 1 := by
      unfold quatSum; rw [normSq_mul, quatExp_normSq, hq, mul_one]
    rcases hp with rfl | hp
    · exact hu
    · exact ih _ hu p hp

theorem sumTrace_last (q : Q ℝ) (rs : List (V3 ℝ)) :
    (q :: sumTrace q rs).getLast (List.cons_ne_nil _ _) = sumChain q rs := by
  induction rs generalizing q with
  | nil => rfl
  | cons r rs ih =>
    simp only [sumTrace, sumChain]
    rw [List.getLast_cons (List.cons_ne_nil _ _)]
    exact ih _

theorem sumTrace_length (q : Q ℝ) (rs : List (V3 ℝ)) : (sumTrace q rs).length = rs.length := by
  induction rs generalizing q with
  | nil => rfl
  | cons r rs ih => simp only [sumTrace, List.length_cons]; rw [ih]

/-! ## group operations -/

theorem conj_conj (q : Q ℝ) : q.conj.conj = q := by
  ext <;> simp [Q.conj]

theorem conj_vec_norm (q : Q ℝ) : q.conj.vec.norm = q.vec.norm := by
  rw [V3.norm_def, V3.norm_def]; simp [Q.conj, Q.vec]

theorem quatLog_conj (q : Q ℝ) : quatLog q.conj = (quatLog q).neg := by
  by_cases h : cutoffLog < q.vec.norm
  · have h' : cutoffLog < q.conj.vec.norm := by rw [conj_vec_norm]; exact h
    by_cases hw : 0 ≤ q.w
    · rw [quatLog_pos _ h' (by simpa [Q.conj] using hw), quatLog_pos _ h hw, conj_vec_norm]
      ext <;> simp only [Q.conj, V3.neg] <;> ring
    · rw [not_le] at hw
      rw [quatLog_neg _ h' (by simpa [Q.conj] using hw), quatLog_neg _ h hw, conj_vec_norm]
      ext <;> simp only [Q.conj, V3.neg] <;> ring
  · rw [quatLog_cut q (not_lt.mp h), quatLog_cut q.conj (by rw [conj_vec_norm]; exact not_lt.mp h)]
    ext <;> simp [V3.neg]


/-! ### the one-axis sigma-point family (sharpness of the symmetric-centre gap) -/

theorem ofCol_vCols {n : Nat} (f : Fin n → V3 ℝ) (i : Fin n) : V3.ofCol (vCols f) i = f i := by
  cases h : f i; simp [V3.ofCol, vCols, V3.get, h]

/-- the one-axis sigma-point family: centre `1`, rotation vectors `0, (θ,0,0), (-θ,0,0)`, weights `w0, w1, w1` -/
noncomputable def rAxis (θ : ℝ) : Fin 3 → V3 ℝ := ![⟨0, 0, 0⟩, ⟨θ, 0, 0⟩, (⟨θ, 0, 0⟩ : V3 ℝ).neg]
def wAxis (w0 w1 : ℝ) : Fin 3 → ℝ := ![w0, w1, w1]

theorem exp_axis (θ : ℝ) (h : cutoff < θ) : quatExp (⟨θ, 0, 0⟩ : V3 ℝ) = ⟨Real.cos (θ / 2), Real.sin (θ / 2), 0, 0⟩ := by
  have h0 : 0 < θ := lt_trans cutoff_pos h
  have hn := norm_x_axis θ h0.le
  rw [quatExp_regular _ (by rw [hn]; exact h), hn]
  ext <;> simp only <;> (try field_simp) <;> (try ring)

theorem sum_axis0 (θ : ℝ) : quatSum ⟨1, 0, 0, 0⟩ (rAxis θ 0) = ⟨1, 0, 0, 0⟩ := by
  have h0 : rAxis θ 0 = ⟨0, 0, 0⟩ := rfl
  rw [h0, quatSum, quatExp_cut _ (by rw [V3.norm_zero]; exact cutoff_pos.le), mul_one']

theorem sum_axis1 (θ : ℝ) (h : cutoff < θ) :
    quatSum ⟨1, 0, 0, 0⟩ (rAxis θ 1) = ⟨Real.cos (θ / 2), Real.sin (θ / 2), 0, 0⟩ := by
  have h1 : rAxis θ 1 = ⟨θ, 0, 0⟩ := rfl
  rw [h1, quatSum, exp_axis θ h, mul_one']

theorem sum_axis2 (θ : ℝ) (h : cutoff < θ) :
    quatSum ⟨1, 0, 0, 0⟩ (rAxis θ 2) = ⟨Real.cos (θ / 2), -Real.sin (θ / 2), 0, 0⟩ := by
  have h2 : rAxis θ 2 = (⟨θ, 0, 0⟩ : V3 ℝ).neg := rfl
  rw [h2, quatSum, quatExp_neg, exp_axis θ h, mul_one']
  ext <;> simp [Q.conj]

/-- the matrix of the family applied to a vector: `diag(w0 + 2 w1 cos²(θ/2), 2 w1 sin²(θ/2), 0, 0)` -/
theorem axis_mulVec (θ w0 w1 : ℝ) (h : cutoff < θ) (u : Fin 4 → ℝ) :
    outerSum (wAxis w0 w1) (fun i => (quatSum ⟨1, 0, 0, 0⟩ (rAxis θ i)).get) *ᵥ u
      = ![(w0 + 2 * w1 * Real.cos (θ / 2) ^ 2) * u 0, 2 * w1 * Real.sin (θ / 2) ^ 2 * u 1, 0, 0] := by
  funext a
  rw [outerSum_mulVec, Fin.sum_univ_three, sum_axis0, sum_axis1 θ h, sum_axis2 θ h]
  fin_cases a <;>
    simp [wAxis, dotProduct, Fin.sum_univ_four, Q.get] <;> ring

/-- the gap of `mean_symmetric_centre_partial` on the family: `Σ w_i (2 exp(r_i)_w² − 1) = w0 + 2 w1 cos θ` -/
theorem axis_gap (θ w0 w1 : ℝ) (h : cutoff < θ) :
    ∑ i, wAxis w0 w1 i * (2 * (quatExp (rAxis θ i)).w ^ 2 - 1) = w0 + 2 * w1 * Real.cos θ := by
  have e0 : quatExp (rAxis θ 0) = ⟨1, 0, 0, 0⟩ := quatExp_cut _ (by show (⟨0, 0, 0⟩ : V3 ℝ).norm ≤ cutoff; rw [V3.norm_zero]; exact cutoff_pos.le)
  have e1 : quatExp (rAxis θ 1) = ⟨Real.cos (θ / 2), Real.sin (θ / 2), 0, 0⟩ := exp_axis θ h
  have e2 : (quatExp (rAxis θ 2)).w = Real.cos (θ / 2) := by
    show (quatExp (⟨θ, 0, 0⟩ : V3 ℝ).neg).w = _
    rw [quatExp_neg, exp_axis θ h]; rfl
  have hc : Real.cos θ = 2 * Real.cos (θ / 2) ^ 2 - 1 := by
    rw [← Real.cos_two_mul]; ring_nf
  rw [Fin.sum_univ_three, e0, e1, e2, hc]
  simp [wAxis]; ring

/-- when `w0 + 2 w1 cos θ < 0` the centre is an eigenvector of a smaller eigenvalue than `(0,1,0,0)`: it does not meet the
    contract, and `(0,1,0,0)` (the centre turned by half a turn about the axis) is what meets it when `w1 > 0` -/
theorem axis_not_dominant (θ w0 w1 : ℝ) (h : cutoff < θ) (hgap : w0 + 2 * w1 * Real.cos θ < 0) :
    ¬ IsDominantEigvec (outerSum (wAxis w0 w1) (fun i => (quatSum ⟨1, 0, 0, 0⟩ (rAxis θ i)).get)) (⟨1, 0, 0, 0⟩ : Q ℝ).get := by
  rintro ⟨_, lam, hlam, hmax⟩
  have hc : Real.cos θ = 2 * Real.cos (θ / 2) ^ 2 - 1 := by
    rw [← Real.cos_two_mul]; ring_nf
  have hs : Real.sin (θ / 2) ^ 2 = 1 - Real.cos (θ / 2) ^ 2 := by linarith [Real.sin_sq_add_cos_sq (θ / 2)]
  rw [axis_mulVec θ w0 w1 h] at hlam
  have h0 := congrFun hlam 0
  simp [Q.get] at h0
  -- `lam = w0 + 2 w1 cos²(θ/2)`; the eigenvector `(0,1,0,0)` has the larger eigenvalue `2 w1 sin²(θ/2)`
  have hu : (⟨0, 1, 0, 0⟩ : Q ℝ).get ≠ 0 := by
    intro h; have := congrFun h 1; simp [Q.get] at this
  have := hmax (2 * w1 * Real.sin (θ / 2) ^ 2) (⟨0, 1, 0, 0⟩ : Q ℝ).get hu (by
    rw [axis_mulVec θ w0 w1 h]
    funext a; fin_cases a <;> simp [Q.get])
  rw [← h0, hs] at this
  rw [hc] at hgap
  nlinarith


theorem isDominant_of_neg {d : Nat} (M : Matrix (Fin d) (Fin d) ℝ) (v : Fin d → ℝ) (h : IsDominantEigvec M (-v)) :
    IsDominantEigvec M v := by
  obtain ⟨h1, lam, h2, h3⟩ := h
  refine ⟨by simpa using h1, lam, ?_, h3⟩
  have := congrArg Neg.neg h2
  simpa [Matrix.mulVec_neg] using this

end BFL.Quat
