import BFL.Proofs.ExtractWindow
import BFL.Proofs.ExtractStats
import BFL.Proofs.ExtractWeights
import BFL.Proofs.HistorySpec
/-
Plumbing: the history buffer inside `EstimatesExtraction` is driven by its calls exactly as a free-standing
`HistoryBuffer` is driven by the translated operations (`bufOps`); hence it refines the specification `HistSpec`.
Convex-hull and idempotence facts about `mean(H, a)` for convex weights.
-/
namespace BFL
namespace Extract
open Complex

theorem windowed_hist (s : EE ℝ) (f : Fam) (b : List ℝ) : (windowed s f b).1.hist = s.hist.add b := by
  simp [windowed]

theorem step_hist (eps : ℝ) (s : EE ℝ) (c : Call ℝ) :
    (step eps s c).1.hist = (bufOp eps s c).toList.foldl HistBuf.step s.hist := by
  cases c with
  | setMethod m => simp [step, bufOp]
  | setWindow n =>
    simp only [step, setMobileWindow, bufOp]
    split <;> simp [HistBuf.step]
  | clear => simp [step, bufOp, HistBuf.step]
  | move => simp [step, bufOp]
  | extract2 a =>
    simp only [step, bufOp]
    rcases extract2_cases eps s a with ⟨_, he, hp⟩ | ⟨_, _, hp, he⟩ | ⟨f, b, _, _, hp, _, he⟩
    · rw [he, hp]; simp
    · rw [he, hp]; simp
    · rw [he, hp]; simp [windowed_hist, HistBuf.step]
  | extract5 a =>
    simp only [step, bufOp]
    rcases extract5_cases eps s a with ⟨_, hp, he⟩ | ⟨f, b, _, hp, _, he⟩
    · rw [he, hp]; simp
    · rw [he, hp]; simp [windowed_hist, HistBuf.step]

theorem runFrom_hist (eps : ℝ) (s : EE ℝ) (cs : List (Call ℝ)) :
    (runFrom eps s cs).hist = (bufOps eps s cs).foldl HistBuf.step s.hist := by
  induction cs generalizing s with
  | nil => rfl
  | cons c cs ih =>
    simp only [runFrom, List.foldl_cons, bufOps, List.foldl_append] at ih ⊢
    rw [ih, step_hist]

/-! ### two objects with hand-over -/

theorem hists_set (p : Pool ℝ) (i : Bool) (s : EE ℝ) : (p.set i s).hists = p.hists.set i s.hist := by
  cases i <;> rfl

theorem hists_get (p : Pool ℝ) (i : Bool) : p.hists.get i = (p.get i).hist := by
  cases i <;> rfl

theorem pair_set_get {β : Type} (P : HistBuf.Pair β) (i : Bool) : P.set i (P.get i) = P := by
  cases i <;> rfl

theorem poolStep_hists (eps : ℝ) (p : Pool ℝ) (c : PoolCall ℝ) :
    (poolStep eps p c).1.hists = (poolBufOp eps p c).foldl HistBuf.step2 p.hists := by
  cases c with
  | call c =>
    simp only [poolStep, poolBufOp, hists_set, step_hist]
    cases bufOp eps (p.get p.cur) c with
    | none => simp [← hists_get, pair_set_get]
    | some o => simp [HistBuf.step2, hists_get]
  | moveCtor =>
    simp only [poolStep, poolBufOp, hists_set, List.foldl_cons, List.foldl_nil, HistBuf.step2, HistBuf.moveOut,
      hists_get]
    rfl
  | moveAssign =>
    have hne : ¬ (p.cur = !p.cur) := by cases p.cur <;> simp
    simp only [poolStep, poolBufOp, hists_set, List.foldl_cons, List.foldl_nil, HistBuf.step2, HistBuf.moveOut,
      hists_get, if_neg hne]
    rfl
  | toggle => rfl

theorem poolRun_hists (eps : ℝ) (p : Pool ℝ) (cs : List (PoolCall ℝ)) :
    (cs.foldl (fun p c => (poolStep eps p c).1) p).hists = (poolBufOps eps p cs).foldl HistBuf.step2 p.hists := by
  induction cs generalizing p with
  | nil => rfl
  | cons c cs ih =>
    simp only [List.foldl_cons, poolBufOps, List.foldl_append]
    rw [ih, poolStep_hists]

/-! ### convex combinations stay in the hull -/

theorem zipWith_sum_ge {γ : Type} (g : γ → ℝ) (lo : ℝ) : ∀ (H : List γ) (a : List ℝ), H.length = a.length →
    (∀ h ∈ H, lo ≤ g h) → (∀ x ∈ a, 0 ≤ x) →
    lo * a.sum ≤ (List.zipWith (fun h x => g h * x) H a).sum := by
  intro H
  induction H with
  | nil => intro a hl _ _; cases a <;> simp_all
  | cons h H ih =>
    intro a hl hlo hpos
    cases a with
    | nil => simp at hl
    | cons x a =>
      simp only [List.zipWith_cons_cons, List.sum_cons]
      have h1 := ih a (by simpa using hl) (fun h' hh => hlo h' (by simp [hh])) (fun y hy => hpos y (by simp [hy]))
      have h2 : lo * x ≤ g h * x := mul_le_mul_of_nonneg_right (hlo h (by simp)) (hpos x (by simp))
      linarith

theorem zipWith_sum_le {γ : Type} (g : γ → ℝ) (hi : ℝ) : ∀ (H : List γ) (a : List ℝ), H.length = a.length →
    (∀ h ∈ H, g h ≤ hi) → (∀ x ∈ a, 0 ≤ x) →
    (List.zipWith (fun h x => g h * x) H a).sum ≤ hi * a.sum := by
  intro H
  induction H with
  | nil => intro a hl _ _; cases a <;> simp_all
  | cons h H ih =>
    intro a hl hhi hpos
    cases a with
    | nil => simp at hl
    | cons x a =>
      simp only [List.zipWith_cons_cons, List.sum_cons]
      have h1 := ih a (by simpa using hl) (fun h' hh => hhi h' (by simp [hh])) (fun y hy => hpos y (by simp [hy]))
      have h2 : g h * x ≤ hi * x := mul_le_mul_of_nonneg_right (hhi h (by simp)) (hpos x (by simp))
      linarith

/-- a linear row of `mean(H, lw)` for convex weights `exp lw` lies between any bounds of that row of `H` -/
theorem meanEst_lin_in_hull (lin circ : Nat) (H : List (List ℝ)) (lw : List ℝ) (hlen : H.length = lw.length)
    (hc : ConvexAging (lw.map Real.exp)) (r : Nat) (hr : r < lin) (lo hi : ℝ)
    (hb : ∀ h ∈ H, lo ≤ h.getD r 0 ∧ h.getD r 0 ≤ hi) :
    ∃ v, (meanEst lin circ H lw)[r]? = some v ∧ lo ≤ v ∧ v ≤ hi := by
  refine ⟨_, by rw [meanEst_lin lin circ H lw r hr, linMean_eq], ?_, ?_⟩
  · have h := zipWith_sum_ge (fun h : List ℝ => h.getD r 0) lo H (lw.map Real.exp) (by simpa using hlen)
      (fun h hh => (hb h hh).1) (fun x hx => (hc.pos x hx).le)
    rw [hc.sum_one, mul_one, List.zipWith_map_right] at h
    exact h
  · have h := zipWith_sum_le (fun h : List ℝ => h.getD r 0) hi H (lw.map Real.exp) (by simpa using hlen)
      (fun h hh => (hb h hh).2) (fun x hx => (hc.pos x hx).le)
    rw [hc.sum_one, mul_one, List.zipWith_map_right] at h
    exact h

/-- the weighted resultant of a constant row: `(Σ a)·e^{iθ}` -/
theorem resultant_const (θ : ℝ) : ∀ (xs a : List ℝ), xs.length = a.length → (∀ x ∈ xs, x = θ) →
    resultant xs a = ((a.sum : ℝ) : ℂ) * Complex.exp (θ * I) := by
  intro xs
  induction xs with
  | nil => intro a hl _; cases a <;> simp_all [resultant]
  | cons x xs ih =>
    intro a hl hx
    cases a with
    | nil => simp at hl
    | cons e a =>
      have h1 := ih a (by simpa using hl) (fun y hy => hx y (by simp [hy]))
      have hxθ : x = θ := hx x (by simp)
      unfold resultant at h1 ⊢
      simp only [List.zipWith_cons_cons, List.sum_cons, h1, hxθ]
      push_cast
      ring

/-- a circular row of `mean(H, lw)` over a window whose estimates all carry the same angle `θ` in that row is
    `θ` wrapped to `(−π, π]` -/
theorem meanEst_circ_const (lin circ : Nat) (H : List (List ℝ)) (lw : List ℝ) (hlen : H.length = lw.length)
    (hc : ConvexAging (lw.map Real.exp)) (r : Nat) (hr : r < circ) (θ : ℝ)
    (hb : ∀ h ∈ H, h.getD (lin + r) 0 = θ) :
    (meanEst lin circ H lw)[lin + r]? = some (Complex.arg (Complex.exp (θ * I))) := by
  rw [meanEst_circ lin circ H lw r hr, dirMean_eq_arg_of_pos]
  · rw [resultant_const θ (rowOf H (lin + r)) (lw.map Real.exp) (by simpa [rowOf] using hlen)]
    · rw [hc.sum_one]; simp
    · intro x hx
      simp only [rowOf, List.mem_map] at hx
      obtain ⟨h, hh, rfl⟩ := hx
      exact hb h hh
  · simpa [rowOf] using hlen
  · exact hc.pos

end Extract
end BFL
