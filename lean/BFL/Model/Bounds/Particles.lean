import BFL.Model.Bounds.Sigma
/-
C14 — transcriptions of ParticleSet (operator+=, resize, accessors), Resampling::resample,
ResamplingWithPrior::resample, EstimatesExtraction (mean / mode / map / windowed averages),
GPFCorrection::sampleFromProposal, and a small lifetime model for the closures stored in
std::function members of movable classes.
-/
namespace BFL.Bounds
open W

/-! ### ParticleSet -/

/-- a particle set: mixture storage + the `state_` matrix -/
structure PSStore where
  g : GMStore
  state : Shape
deriving DecidableEq, Repr

def psCtor (K dl dc : Nat) (quat : Bool) : PSStore :=
  let g := gmCtor K dl dc quat
  ⟨g, ⟨g.dim, K⟩⟩

def PSStore.wf (p : PSStore) : Prop := p.g.wf ∧ p.g.L.dn = 0 ∧ p.state = ⟨p.g.L.dim, p.g.K⟩

/-- `ParticleSet::operator+=(rhs)` (after fix 2c84227) -/
def psAdd (a b : PSStore) : W PSStore := do
  let newK := a.g.K + b.g.K
  let state : Shape := ⟨a.state.r, newK⟩                         -- state_.conservativeResize(NoChange, new_components)
  let r ← rightCols "ParticleSet::operator+=: state_.rightCols(rhs.components)" state b.g.K
  assignFixed "ParticleSet::operator+=: state_.rightCols(...) = rhs.state_" r b.state
  let mean : Shape := ⟨a.g.mean.r, newK⟩
  let r ← rightCols "ParticleSet::operator+=: mean_.rightCols(rhs.components)" mean b.g.K
  assignFixed "ParticleSet::operator+=: mean_.rightCols(...) = rhs.mean_" r b.g.mean
  let cov : Shape := ⟨a.g.cov.r, a.g.dcov * newK⟩
  let r ← rightCols "ParticleSet::operator+=: covariance_.rightCols(dim_covariance*rhs.components)" cov (a.g.dcov * b.g.K)
  assignFixed "ParticleSet::operator+=: covariance_.rightCols(...) = rhs.covariance_" r b.g.cov
  let w := newK
  let t ← tail "ParticleSet::operator+=: weight_.tail(rhs.components)" (vecS w) b.g.K
  assignFixed "ParticleSet::operator+=: weight_.tail(...) = rhs.weight_" t (vecS b.g.w)
  pure ⟨{ a.g with K := newK, mean := mean, cov := cov, w := w }, state⟩

/-- `ParticleSet::resize` (after fix 668e0de): resizing operations only -/
def psResize (p : PSStore) (K dl dc : Nat) : PSStore :=
  let L' : Layout := { p.g.L with dl := dl, dc := dc, dn := 0 }
  let newDim := dl + dc * L'.cc
  let state :=
    if p.g.L.dl = dl ∧ p.g.L.dc = dc ∧ p.g.K = K then p.state
    else if p.g.dim - p.g.L.dn = newDim ∧ p.g.K ≠ K then ⟨p.state.r, K⟩
    else ⟨newDim, K⟩
  ⟨gmResize p.g K dl dc, state⟩

def PSStore.tokens (p : PSStore) : List String := p.g.tokens ++ [p.state.str]

def psAccess (L : Layout) (K : Nat) (which : String) (i j : Nat) : W (Option (List String)) :=
  let state : Shape := ⟨L.dim, K⟩
  match which with
  | "state1" => do let s ← col "ParticleSet::state(i): state_.col(i)" state i; pure (some [s.str, s.str])
  | "state2" => do coeff2 "ParticleSet::state(i, j): state_(j, i)" state j i; pure (some ["1"])
  | _ => pure none

/-! ### Resampling::resample -/

/-- The scan of the cumulative weights for comb point `u_j`:
    `while (u_j > csw(idx_csw) && idx_csw < (num_particles - 1)) idx_csw += 1;`
    `gt idx` stands for the comparison `u_j > csw(idx)`: it depends on the weight VALUES (normalised or not,
    underflowing, -inf, NaN …) and on the random offset, so it is an arbitrary function here.  `clamped = false`
    is the scan without the end clamp (e.g. an unclamped `std::lower_bound`).  `csw(idx)` is read before the clamp
    is tested (left operand of `&&`). -/
def cswScan (clamped : Bool) (N : Nat) (gt : Nat → Bool) : Nat → Nat → W Nat
  | 0, idx => pure idx
  | fuel + 1, idx => do
    coeff "Resampling::resample: csw(idx_csw)" N idx
    if gt idx && (!clamped || decide (idx < N - 1)) then cswScan clamped N gt fuel (idx + 1)
    else pure idx

/-- the loop over the resampled particles `j = N - rem .. N - 1`; `idx_csw` only grows -/
def resampleLoop (clamped : Bool) (I : Layout) (N : Nat) (R : Layout) (rN plen : Nat) (gt : Nat → Nat → Bool) :
    Nat → Nat → Nat → W Unit
  | 0, _, _ => pure ()
  | rem + 1, j, idx0 => do
    let idx ← cswScan clamped N (gt j) (N + 1) idx0
    let d ← col "Resampling::resample: res_particles.state(j)" ⟨R.dim, rN⟩ j
    let s ← col "Resampling::resample: cor_particles.state(idx_csw)" ⟨I.dim, N⟩ idx
    assignFixed "Resampling::resample: res_particles.state(j) = cor_particles.state(idx_csw)" d s
    let d ← gmMean R rN j
    let s ← gmMean I N idx
    assignFixed "Resampling::resample: res_particles.mean(j) = cor_particles.mean(idx_csw)" d s
    let d ← gmCov R rN j
    let s ← gmCov I N idx
    assignFixed "Resampling::resample: res_particles.covariance(j) = cor_particles.covariance(idx_csw)" d s
    coeff "Resampling::resample: res_particles.weight(j)" rN j
    coeff "Resampling::resample: res_parents(j)" plen j
    resampleLoop clamped I N R rN plen gt rem (j + 1) idx

/-- `Resampling::resample(cor, res, parents)`: `cor` has `N` particles of layout `I`, `res` has `rN` particles of
    layout `R`, `parents` has `plen` entries; `gt j idx` = "`u_j > csw(idx)`" is arbitrary (ANY weight vector of the
    right shape). -/
def resampleGen (clamped : Bool) (I : Layout) (N : Nat) (R : Layout) (rN plen : Nat) (gt : Nat → Nat → Bool) : W Unit := do
  coeff "Resampling::resample: csw(0)" N 0
  coeff "Resampling::resample: cor_particles.weight(0)" N 0
  forRange (N - 1) fun i' => do                -- for (i = 1; i < N; ++i) csw(i) = csw(i-1) + exp(weight(i))
    coeff "Resampling::resample: csw(i)" N (i' + 1)
    coeff "Resampling::resample: csw(i - 1)" N i'
    coeff "Resampling::resample: cor_particles.weight(i)" N (i' + 1)
  resampleLoop clamped I N R rN plen gt N 0 0

/-- the shipped code: the scan is clamped to the last particle -/
def resample (I : Layout) (N : Nat) (R : Layout) (rN plen : Nat) (gt : Nat → Nat → Bool) : W Unit :=
  resampleGen true I N R rN plen gt

/-- comparison outcomes of some weight profiles (the harness uses the same numbering):
    0, 1 normalised (uniform: `u_j > csw(idx)` iff `idx < j`); 6 exponentials summing to more than one (never advance);
    everything else (sum < 1, sum ≪ 1, all -inf, all underflowing): worst case, always advance -/
def weightOracle (profile : Nat) : Nat → Nat → Bool :=
  match profile with
  | 0 => fun j idx => decide (idx < j)
  | 1 => fun j idx => decide (idx < j)
  | 6 => fun _ _ => false
  | 8 => fun _ _ => false          -- NaN: every comparison is false
  | _ => fun _ _ => true

/-! ### ResamplingWithPrior::resample -/

/-- result: the layout and count of `res_particles`, and how many entries of `parents` were written -/
structure RWPRes where
  L : Layout
  K : Nat
  written : Nat
  prior : Nat

/-- `ResamplingWithPrior::resample` with `prior_ratio = rnum / rden`, initialiser `InitSurveillanceAreaGrid(nx, ny)`
    (after fixes afe0735, 2c84227, 8ea2579).  `I` has `dn = 0` (particle sets carry no noise block). -/
def resampleWithPrior (I : Layout) (N rnum rden nx ny plen : Nat) (gt : Nat → Nat → Bool) : W RWPRes := do
  let p := N * rnum / rden                        -- static_cast<int>(std::floor(N * prior_ratio_))
  -- int num_resample_particles = N - num_prior_particles: a negative count is converted to size_t by ParticleSet(...)
  req "ResamplingWithPrior: num_resample_particles >= 0 (ParticleSet(std::size_t(negative), ...))" (.le p N)
  let r := N - p
  let parentsRight ← tail "ResamplingWithPrior: res_parents.tail(num_resample_particles)" (vecS plen) r
  -- copy the particles to be resampled into tmp_particles (all of them are visited: j = 0 .. N-1)
  forRange N fun j => do
    if j ≥ p then do
      let t := j - p
      let d ← col "ResamplingWithPrior: tmp_particles.state(j - num_prior)" ⟨I.dim, r⟩ t
      let s ← col "ResamplingWithPrior: cor_particles.state(i)" ⟨I.dim, N⟩ j
      assignFixed "ResamplingWithPrior: tmp_particles.state(...) = cor_particles.state(i)" d s
      let d ← gmMean I r t
      let s ← gmMean I N j
      assignFixed "ResamplingWithPrior: tmp_particles.mean(...) = cor_particles.mean(i)" d s
      let d ← gmCov I r t
      let s ← gmCov I N j
      assignFixed "ResamplingWithPrior: tmp_particles.covariance(...) = cor_particles.covariance(i)" d s
      coeff "ResamplingWithPrior: tmp_particles.weight(j - num_prior)" r t
  nonEmpty "ResamplingWithPrior: log_sum_exp(tmp_particles.weight()) -> maxCoeff" (vecS r)
  resample I r I r parentsRight.r gt
  -- init_model_->initialize(res_particles_left); the result is ignored
  let _ ← gridInit nx ny p I.dim
  let left := psCtor p I.dl I.dc I.quat
  let right := psCtor r I.dl I.dc I.quat
  let res ← psAdd left right
  let _ ← head "ResamplingWithPrior: res_parents.head(num_prior_particles)" (vecS plen) p
  pure ⟨I, res.g.K, min plen (p + r), p⟩

/-! ### EstimatesExtraction -/

/-- `EstimatesExtraction::mean(particles, weights)` -/
def eeMean (ls cs : Nat) (P : Shape) (w : Nat) : W Nat := do
  let out : Shape := vecS (ls + cs)
  if ls > 0 then do
    let h ← head "EstimatesExtraction::mean: out_particle.head(linear_size)" out ls
    let t ← topRows "EstimatesExtraction::mean: particles.topRows(linear_size)" P ls
    let p ← prod "EstimatesExtraction::mean: particles.topRows(linear_size) * exp(weights)" t (vecS w)
    assignFixed "EstimatesExtraction::mean: out_particle.head(linear_size) = ..." h p
  if cs > 0 then do
    let tl ← tail "EstimatesExtraction::mean: out_particle.tail(circular_size)" out cs
    let b ← bottomRows "EstimatesExtraction::mean: particles.bottomRows(circular_size)" P cs
    let r ← directionalMean b (vecS w)
    assignFixed "EstimatesExtraction::mean: out_particle.tail(circular_size) = directional_mean" tl r
  pure (ls + cs)

/-- `EstimatesExtraction::mode`: the index of the largest weight is data dependent (`< weights.size()`);
    the transcription uses the extreme value `weights.size() - 1`. -/
def eeMode (P : Shape) (w : Nat) : W Nat := do
  nonEmpty "EstimatesExtraction::mode: weights.maxCoeff(&row, &col)" (vecS w)
  let c ← col "EstimatesExtraction::mode: particles.col(maxRow)" P (w - 1)
  pure c.r

/-- `EstimatesExtraction::map` -/
def eeMap (P : Shape) (pw llen : Nat) (tp : Shape) : W Nat := do
  forRange P.c fun i => do
    coeff "EstimatesExtraction::map: likelihoods(i)" llen i
    let r ← row "EstimatesExtraction::map: transition_probabilities.row(i)" tp i
    let s ← cwise "EstimatesExtraction::map: log(row(i)^T + eps) + previous_weights" r.t (vecS pw)
    nonEmpty "EstimatesExtraction::map: log_sum_exp(...) -> maxCoeff" s
  nonEmpty "EstimatesExtraction::map: values.maxCoeff(&index)" (vecS P.c)
  let c ← col "EstimatesExtraction::map: particles.col(map_index)" P (P.c - 1)
  pure c.r

/-- extraction methods in the order of the C++ enum -/
inductive EMethod where
  | mean | smean | wmean | emean | mode | smode | wmode | emode | map | smap | wmap | emap
deriving DecidableEq, Repr

def EMethod.ofNat? : Nat → Option EMethod
  | 0 => some .mean | 1 => some .smean | 2 => some .wmean | 3 => some .emean
  | 4 => some .mode | 5 => some .smode | 6 => some .wmode | 7 => some .emode
  | 8 => some .map | 9 => some .smap | 10 => some .wmap | 11 => some .emap
  | _ => none

inductive EStat where | mean | mode | map
deriving DecidableEq

structure EEArgs where
  P : Shape
  w : Nat
  pw : Nat
  llen : Nat
  tp : Shape

structure EEState where
  ls : Nat
  cs : Nat
  hist : Hist
  smW : Nat      -- sizes of the cached weight vectors
  wmW : Nat
  emW : Nat

def EEState.new (ls cs : Nat) : EEState := ⟨ls, cs, Hist.new (ls + cs), 0, 0, 0⟩

def eeStat (s : EEState) (st : EStat) (a : EEArgs) : W Nat :=
  match st with
  | .mean => eeMean s.ls s.cs a.P a.w
  | .mode => eeMode a.P a.w
  | .map => eeMap a.P a.pw a.llen a.tp

/-- remember the new window and the size of the weight vector that was (re)built -/
def eeCache (s : EEState) (h : Hist) (which n : Nat) : EEState :=
  match which with
  | 0 => { s with hist := h, smW := n }
  | 1 => { s with hist := h, wmW := n }
  | _ => { s with hist := h, emW := n }

/-- `simpleAverage` / `weightedAverage` / `exponentialAverage`: statistic, push into the window, average the window.
    `which` = 0, 1, 2 selects the cached weight vector. -/
def eeWindowed (s : EEState) (which : Nat) (st : EStat) (a : EEArgs) : W (EEState × Nat) := do
  let cur ← eeStat s st a
  let h ← histAdd s.hist cur
  let history ← histGet h
  -- the weight vector is rebuilt when its size differs from history.cols(); afterwards size = history.cols();
  -- weighted / exponential windows normalise with log_sum_exp (history.cols() ≥ 1 after addElement)
  let _ ← (if which ≠ 0 then nonEmpty "EstimatesExtraction: log_sum_exp(window weights) -> maxCoeff" (vecS history.c) else pure ())
  let r ← eeMean s.ls s.cs history history.c
  pure (eeCache s h which history.c, r)

/-- `extract(particles, weights)` (`full = false`) and the five-argument overload (`full = true`);
    returns the availability flag and the size of the returned vector. -/
def eeExtract (s : EEState) (m : EMethod) (full : Bool) (a : EEArgs) : W (EEState × Bool × Nat) :=
  let S := s.ls + s.cs
  let stat (st : EStat) : W (EEState × Bool × Nat) := do let n ← eeStat s st a; pure (s, true, n)
  let win (which : Nat) (st : EStat) : W (EEState × Bool × Nat) := do let (s', n) ← eeWindowed s which st a; pure (s', true, n)
  match m, full with
  | .mean, _ => stat .mean
  | .smean, _ => win 0 .mean
  | .wmean, _ => win 1 .mean
  | .emean, _ => win 2 .mean
  | .mode, _ => stat .mode
  | .smode, _ => win 0 .mode
  | .wmode, _ => win 1 .mode
  | .emode, _ => win 2 .mode
  | .map, true => stat .map
  | .smap, true => win 0 .map
  | .wmap, true => win 1 .map
  | .emap, true => win 2 .map
  | _, false => pure (s, false, S)           -- map-based methods need the five-argument overload

def eeRun : EEState → EMethod → Bool → EEArgs → Nat → W (List String)
  | _, _, _, _, 0 => pure []
  | s, m, full, a, n + 1 => do
    let (s', av, sz) ← eeExtract s m full a
    let rest ← eeRun s' m full a n
    pure (s!"{if av then 1 else 0}:{sz}" :: rest)

/-! ### GPFCorrection::sampleFromProposal -/

/-- `sampleFromProposal(mean, covariance)` with `mean.size() = msize`, `covariance : csize × csize` -/
def gpfSample (msize csize : Nat) : W Nat := do
  let s ← ldltSqrt "GPFCorrection::sampleFromProposal: sqrt_P" ⟨csize, csize⟩ msize msize
  let r ← prod "GPFCorrection::sampleFromProposal: sqrt_P * rand_vectors" s (vecS msize)
  let o ← cwise "GPFCorrection::sampleFromProposal: mean + sqrt_P * rand_vectors" (vecS msize) r
  pure o.r

/-! ### Lifetime of closures stored in movable objects

`std::function<double()>` members initialised with `[&] { return distribution_(generator_); }` capture
the address of the object that owned `distribution_` / `generator_` when the lambda was created.
Objects are numbered; an `Obj` records which object its closure refers to. -/

structure Obj where
  id : Nat
  closureOwner : Nat       -- the object whose members the stored closure dereferences

structure Heap where
  alive : List Nat

inductive MoveKind where
  | gpfCorrectionOld      -- before fix 1b09d3a: the std::function is moved along (keeps the old owner)
  | gpfCorrection         -- after fix 1b09d3a: the move constructor re-creates the lambda over the new object
  | wnaPimpl              -- WhiteNoiseAcceleration: closure owned by the heap-allocated ImplData, which moves with pimpl_

/-- calling the stored closure dereferences its owner -/
def callClosure (h : Heap) (o : Obj) : W Unit :=
  req "std::function call: captured object is alive" (.tt (h.alive.contains o.closureOwner))

/-- construct object 0, move it into object 1, destroy object 0, call the closure of object 1 -/
def moveThenUse (k : MoveKind) (destroySource : Bool) : W Unit :=
  let src : Obj := ⟨0, 0⟩
  let dst : Obj := match k with
    | .gpfCorrectionOld => ⟨1, src.closureOwner⟩
    | .gpfCorrection => ⟨1, 1⟩
    | .wnaPimpl => ⟨1, 1⟩         -- the ImplData (and the closure over it) now belongs to object 1
  let heap : Heap := ⟨if destroySource then [1] else [0, 1]⟩
  callClosure heap dst

end BFL.Bounds
