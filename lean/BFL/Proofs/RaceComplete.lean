import BFL.Proofs.Race
/-
C10 — completeness of the lockset discipline for the abstract semantics: a member that violates
the discipline *does* race in some well-formed interleaving conforming to the table.  (The
semantics is flow-insensitive — any sequence of table rows executed with their syntactic locksets
held is an execution — so the discipline is exact for it.)  This is what turns a failed `decide`
into a counterexample theorem.
-/
namespace BFL.Race

/-- remove duplicates (keeps the last occurrence) -/
def dedup : List Nat → List Nat
  | [] => []
  | x :: xs => if x ∈ dedup xs then dedup xs else x :: dedup xs

theorem mem_dedup (l : List Nat) : ∀ x, x ∈ dedup l ↔ x ∈ l := by
  induction l with
  | nil => intro x; simp [dedup]
  | cons y ys ih =>
    intro x
    unfold dedup
    by_cases h : y ∈ dedup ys
    · rw [if_pos h, ih, List.mem_cons]
      constructor
      · exact Or.inr
      · rintro (rfl | h')
        · exact (ih _).1 h
        · exact h'
    · rw [if_neg h, List.mem_cons, List.mem_cons, ih]

theorem nodup_dedup (l : List Nat) : (dedup l).Nodup := by
  induction l with
  | nil => simp [dedup]
  | cons y ys ih =>
    unfold dedup
    by_cases h : y ∈ dedup ys
    · rw [if_pos h]; exact ih
    · rw [if_neg h]; exact List.nodup_cons.2 ⟨h, ih⟩

/-- thread `t` acquires the mutex members `l` of object 0, one after the other -/
def locksEv (t : Tid) (l : List Nat) : List Ev := l.map fun m => Ev.lock t ((0, m) : Mx)

theorem conforms_nil (T : Table) : Conforms T [] := by
  intro pre e post h; simp at h

theorem conforms_snoc {T : Table} {tr : List Ev} {e : Ev} (hc : Conforms T tr) (hj : Justified T tr e) :
    Conforms T (tr ++ [e]) := by
  intro pre e' post h
  rcases List.eq_nil_or_concat post with hp | ⟨post', z, hp⟩
  · subst hp
    have h2 := List.append_inj' h rfl
    have h3 : e = e' := by simpa using h2.2
    rw [← h2.1, ← h3]; exact hj
  · subst hp
    have : tr ++ [e] = (pre ++ e' :: post') ++ [z] := by
      simpa [List.concat_eq_append, List.append_assoc] using h
    have h2 := List.append_inj' this rfl
    exact hc pre e' post' h2.1

/-- well-formed and conforming -/
def Good (T : Table) (tr : List Ev) : Prop := WF tr ∧ Conforms T tr

theorem good_snoc {T : Table} {tr : List Ev} {e : Ev} (h : Good T tr) (hok : okEv (holders tr) e)
    (hj : Justified T tr e) : Good T (tr ++ [e]) :=
  ⟨WF.snoc h.1 hok, conforms_snoc h.2 hj⟩

theorem holders_lock (tr : List Ev) (t : Tid) (m m' : Mx) :
    holders (tr ++ [Ev.lock t m]) m' = if m' = m then some t else holders tr m' := by
  rw [holders_snoc]; rfl

theorem held_lock (tr : List Ev) (t t' : Tid) (m m' : Mx) :
    held (tr ++ [Ev.lock t' m']) t m = if t' = t ∧ m' = m then true else held tr t m := by
  rw [held_snoc]; rfl

theorem held_acc (tr : List Ev) (t t' : Tid) (m : Mx) (l w s) :
    held (tr ++ [Ev.acc t' l w s]) t m = held tr t m := by
  rw [held_snoc]; rfl

theorem good_append_locks (T : Table) (t : Tid) (l : List Nat) :
    ∀ tr, Good T tr → l.Nodup → (∀ m ∈ l, holders tr ((0, m) : Mx) = none) → Good T (tr ++ locksEv t l) := by
  induction l with
  | nil => intro tr h _ _; simpa [locksEv] using h
  | cons m ms ih =>
    intro tr h hnd hfree
    have hnd' := List.nodup_cons.1 hnd
    have h1 : Good T (tr ++ [Ev.lock t ((0, m) : Mx)]) :=
      good_snoc h (hfree m (List.mem_cons_self ..)) trivial
    have h2 := ih (tr ++ [Ev.lock t ((0, m) : Mx)]) h1 hnd'.2 (by
      intro m' hm'
      rw [holders_lock]
      have hne : m' ≠ m := fun h => hnd'.1 (h ▸ hm')
      have : ((0, m') : Mx) ≠ (0, m) := fun h => hne (Prod.mk.inj h).2
      simp only [this, if_false]
      exact hfree m' (List.mem_cons_of_mem _ hm'))
    simpa [locksEv, List.append_assoc] using h2

theorem holders_append_locks (t : Tid) (l : List Nat) :
    ∀ tr (m : Nat), m ∉ l → holders (tr ++ locksEv t l) ((0, m) : Mx) = holders tr ((0, m) : Mx) := by
  induction l with
  | nil => intro tr m _; simp [locksEv]
  | cons x xs ih =>
    intro tr m hm
    have hx : m ≠ x := fun h => hm (h ▸ List.mem_cons_self ..)
    have hxs : m ∉ xs := fun h => hm (List.mem_cons_of_mem _ h)
    have := ih (tr ++ [Ev.lock t ((0, x) : Mx)]) m hxs
    have e : tr ++ locksEv t (x :: xs) = (tr ++ [Ev.lock t ((0, x) : Mx)]) ++ locksEv t xs := by
      simp [locksEv, List.append_assoc]
    rw [e, this, holders_lock]
    have : ((0, m) : Mx) ≠ (0, x) := fun h => hx (Prod.mk.inj h).2
    simp [this]

theorem held_append_locks_self (t : Tid) (l : List Nat) :
    ∀ tr (m : Nat), (m ∈ l ∨ held tr t ((0, m) : Mx) = true) → held (tr ++ locksEv t l) t ((0, m) : Mx) = true := by
  induction l with
  | nil => intro tr m h; rcases h with h | h; · simp at h
           · simpa [locksEv] using h
  | cons x xs ih =>
    intro tr m h
    have e : tr ++ locksEv t (x :: xs) = (tr ++ [Ev.lock t ((0, x) : Mx)]) ++ locksEv t xs := by
      simp [locksEv, List.append_assoc]
    rw [e]
    apply ih
    by_cases hx : m = x
    · right; subst hx; rw [held_lock]; simp
    · rcases h with h | h
      · left; rcases List.mem_cons.1 h with h | h
        · exact absurd h hx
        · exact h
      · right; rw [held_lock]
        have hmx : ((0, x) : Mx) ≠ (0, m) := fun h => hx (Prod.mk.inj h).2.symm
        simp [hmx, h]

theorem held_append_locks_other (t t' : Tid) (hne : t' ≠ t) (l : List Nat) :
    ∀ tr (m : Mx), held (tr ++ locksEv t' l) t m = held tr t m := by
  induction l with
  | nil => intro tr m; simp [locksEv]
  | cons x xs ih =>
    intro tr m
    have e : tr ++ locksEv t' (x :: xs) = (tr ++ [Ev.lock t' ((0, x) : Mx)]) ++ locksEv t' xs := by
      simp [locksEv, List.append_assoc]
    rw [e, ih, held_lock]
    have : ¬ (t' = t ∧ ((0, x) : Mx) = m) := fun h => hne h.1
    simp [this]

/-- the locks a row needs on object 0 (none when the object expression is not `this`) -/
def needLocks (a : Access) : List Nat := if a.self then dedup a.locks else []

theorem mem_needLocks (a : Access) (m : Nat) : m ∈ needLocks a ↔ a.self = true ∧ m ∈ a.locks := by
  unfold needLocks
  by_cases h : a.self = true
  · simp [h, mem_dedup]
  · simp [h]

theorem nodup_needLocks (a : Access) : (needLocks a).Nodup := by
  unfold needLocks
  by_cases h : a.self = true
  · simpa [h] using nodup_dedup a.locks
  · simp [h]

/-- the racy interleaving built from an unsafe pair of rows: both threads take their syntactic
    locksets on object 0, then perform the two accesses back to back -/
def raceTrace (T : Table) (a b : Access) : List Ev :=
  locksEv .controller (needLocks a) ++ locksEv .filter (needLocks b) ++
    [Ev.acc .controller (0, a.field) a.kind.isWrite (T.fieldSync a.field),
     Ev.acc .filter (0, a.field) b.kind.isWrite (T.fieldSync a.field)]

theorem holders_nil (m : Mx) : holders [] m = none := rfl

theorem raceTrace_spec (T : Table) (a b : Access) (ha : a ∈ T.accesses) (hb : b ∈ T.accesses)
    (ra : Reach T (T.rootIds .controller) a.meth) (rb : Reach T (T.rootIds .filter) b.meth)
    (hf : b.field = a.field) (hbad : ¬ PairSafe T a b) :
    WF (raceTrace T a b) ∧ Conforms T (raceTrace T a b) ∧ RaceOnField a.field (raceTrace T a b) := by
  -- what "not safe" means
  have hw : ¬ (a.kind.isWrite = false ∧ b.kind.isWrite = false) := fun h => hbad (Or.inl h)
  have hs : T.fieldSync a.field = false := by
    cases h : T.fieldSync a.field with
    | false => rfl
    | true => exact absurd (Or.inr (Or.inl h)) hbad
  have hdisj : ∀ m, m ∈ needLocks a → m ∉ needLocks b := by
    intro m h1 h2
    rw [mem_needLocks] at h1 h2
    exact hbad (Or.inr (Or.inr ⟨h1.1, h2.1, m, h1.2, h2.2⟩))
  -- the lock prefix
  have g0 : Good T [] := ⟨WF.nil, conforms_nil T⟩
  have g1 : Good T ([] ++ locksEv .controller (needLocks a)) :=
    good_append_locks T .controller (needLocks a) [] g0 (nodup_needLocks a) (fun m _ => holders_nil _)
  have g2 : Good T (([] ++ locksEv .controller (needLocks a)) ++ locksEv .filter (needLocks b)) := by
    apply good_append_locks T .filter (needLocks b) _ g1 (nodup_needLocks b)
    intro m hm
    rw [holders_append_locks .controller (needLocks a) [] m (fun h => hdisj m h hm)]
    rfl
  generalize hL : ([] ++ locksEv .controller (needLocks a)) ++ locksEv .filter (needLocks b) = L at g2
  have heldC : ∀ m, a.self = true → m ∈ a.locks → held L .controller ((0, m) : Mx) = true := by
    intro m h1 h2
    rw [← hL, held_append_locks_other .controller .filter (by decide)]
    exact held_append_locks_self .controller (needLocks a) [] m (Or.inl ((mem_needLocks a m).2 ⟨h1, h2⟩))
  have heldF : ∀ m, b.self = true → m ∈ b.locks → held L .filter ((0, m) : Mx) = true := by
    intro m h1 h2
    rw [← hL]
    exact held_append_locks_self .filter (needLocks b) _ m (Or.inl ((mem_needLocks b m).2 ⟨h1, h2⟩))
  -- the two accesses
  have j1 : Justified T L (Ev.acc .controller (0, a.field) a.kind.isWrite (T.fieldSync a.field)) :=
    ⟨a, ha, ra, rfl, rfl, rfl, fun h m hm => heldC m h hm⟩
  have g3 := good_snoc g2 (e := Ev.acc .controller (0, a.field) a.kind.isWrite (T.fieldSync a.field)) trivial j1
  have j2 : Justified T (L ++ [Ev.acc .controller (0, a.field) a.kind.isWrite (T.fieldSync a.field)])
      (Ev.acc .filter (0, a.field) b.kind.isWrite (T.fieldSync a.field)) :=
    ⟨b, hb, rb, hf, rfl, rfl, fun h m hm => by rw [held_acc]; exact heldF m h hm⟩
  have g4 := good_snoc g3 (e := Ev.acc .filter (0, a.field) b.kind.isWrite (T.fieldSync a.field)) trivial j2
  have etr : raceTrace T a b = (L ++ [Ev.acc .controller (0, a.field) a.kind.isWrite (T.fieldSync a.field)]) ++
      [Ev.acc .filter (0, a.field) b.kind.isWrite (T.fieldSync a.field)] := by
    rw [← hL]; simp [raceTrace, List.append_assoc]
  refine ⟨etr ▸ g4.1, etr ▸ g4.2, 0, L, Ev.acc .controller (0, a.field) a.kind.isWrite (T.fieldSync a.field),
    Ev.acc .filter (0, a.field) b.kind.isWrite (T.fieldSync a.field), [], ?_, ?_, rfl⟩
  · rw [etr]; simp [List.append_assoc]
  · refine ⟨by decide, rfl, ?_, ?_⟩
    · cases h1 : a.kind.isWrite with
      | true => exact Or.inl rfl
      | false =>
        cases h2 : b.kind.isWrite with
        | true => exact Or.inr rfl
        | false => exact absurd ⟨h1, h2⟩ hw
    · rw [hs]; simp

/-- **Lockset completeness** (for the abstract semantics).  A member that violates the discipline
    races in some well-formed interleaving conforming to the table. -/
theorem lockset_complete (T : Table) (f : Nat) (h : ¬ FieldOK T f) :
    ∃ tr, WF tr ∧ Conforms T tr ∧ RaceOnField f tr := by
  unfold FieldOK at h
  simp only [Classical.not_forall] at h
  obtain ⟨a, ha, b, hb, ra, rb, fa, fb, hbad⟩ := h
  have := raceTrace_spec T a b ha hb ra rb (by rw [fa, fb]) hbad
  rw [fa] at this
  exact ⟨_, this⟩

/-- discipline of a member ⇔ no race on it in any conforming well-formed interleaving -/
theorem fieldOK_iff_raceFreeOn (T : Table) (f : Nat) :
    FieldOK T f ↔ ∀ tr, WF tr → Conforms T tr → ¬ RaceOnField f tr := by
  constructor
  · intro h tr hwf hc; exact lockset_sound T f h hwf hc
  · intro h
    apply Classical.byContradiction
    intro hn
    obtain ⟨tr, h1, h2, h3⟩ := lockset_complete T f hn
    exact h tr h1 h2 h3

/-- the table is race free ⇔ every member obeys the discipline -/
theorem raceFree_iff (T : Table) : RaceFree T ↔ ∀ f, FieldOK T f := by
  constructor
  · intro h f
    rw [fieldOK_iff_raceFreeOn]
    intro tr hwf hc hr
    exact h tr hwf hc (race_of_race_field hr)
  · exact raceFree_of_fieldOK T

end BFL.Race
