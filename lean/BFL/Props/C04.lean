import BFL.Model.UT
import BFL.Model.KF
import BFL.Bridge.Mat
import BFL.Proofs.UT
import BFL.Proofs.UTKF
import BFL.Props.C03
/-
C04 — The unscented Kalman steps coincide with the Kalman filter on linear-Gaussian models.

Theorems relating the model of `UKFPrediction::predictStep` / `UKFCorrection::correctStep`
(`ukfPredictAdditive`, `ukfPredictAugmented`, `ukfCorrectAdditive`, `ukfCorrectAugmented` in
`BFL/Model/UT.lean`) to the model of the Kalman steps (`kfPredict`, `kfCorrect`,
`BFL/Model/KF.lean`), as equalities of model values, over every field of characteristic zero,
for all dimensions, component counts, `(α, β, κ)` with `n + λ ≠ 0`, every square-root routine
meeting the contract `FacOn` on the covariances it is applied to, and *every* inverse routine
(both filters apply it to the same matrix).

  additive variants :  x' = F x (+ u) + w,  w ~ N(0, Q);   y = H x + v,  v ~ N(0, R)
  augmented variants:  x' = F x + G w (+ u), w ~ N(0, Q);   y = H x + D v, v ~ N(0, R)
                       — the Kalman filter sees the effective noise G Q Gᵀ, resp. D R Dᵀ.

The weights of the predicted mixture differ by design (the unscented prediction assigns the
whole freshly built mixture, weights `1/k` included; the Kalman prediction writes means and
covariances only); the property speaks of mean, covariance and likelihood.
-/
namespace BFL
open Matrix

set_option linter.unusedSectionVars false

variable {α : Type} [Field α] [CharZero α] [Inhabited α] {n nz m k : ℕ}

/-! ### Prediction -/

/-- Additive unscented prediction = Kalman prediction (`F m + u`, `F P Fᵀ + Q`), with a constant
    exogenous input `u` … -/
theorem ukf_predict_eq_kf (fac : α → Mat α n n → Mat α n n) (alpha beta kappa : α)
    (hc : (n : α) + utLambda n alpha kappa ≠ 0)
    (F Q : Mat α n n) (u : Vec α n) (prev out : GM α n k)
    (hfac : ∀ i, FacOn fac (utWeights n alpha beta kappa).c (prev.cov i)) (i : Fin k) :
    (ukfPredictAdditive fac alpha beta kappa false (affineMap F u) Q prev).mean i
      = (kfPredict F Q (some (fun _ => u)) prev out).mean i ∧
    (ukfPredictAdditive fac alpha beta kappa false (affineMap F u) Q prev).cov i
      = (kfPredict F Q (some (fun _ => u)) prev out).cov i := by
  obtain ⟨h1, h2, -⟩ := ut_additive_state_affine fac alpha beta kappa hc prev hfac F u Q i
  constructor
  · apply Vec.ext; intro r
    have : toV ((ukfPredictAdditive fac alpha beta kappa false (affineMap F u) Q prev).mean i)
        = toV ((kfPredict F Q (some (fun _ => u)) prev out).mean i) := by
      simp only [ukfPredictAdditive, UTOut.toGM, Bool.false_eq_true, if_false, kfPredict, propagateMean,
        toV_add, toV_mulVec]
      exact h1
    exact congrFun this r
  · apply toM_injective
    simp only [ukfPredictAdditive, UTOut.toGM, Bool.false_eq_true, if_false, kfPredict, kfPredictCov,
      toM_add, toM_mul, toM_transpose]
    exact h2

/-- … and without exogenous input. -/
theorem ukf_predict_eq_kf_plain (fac : α → Mat α n n → Mat α n n) (alpha beta kappa : α)
    (hc : (n : α) + utLambda n alpha kappa ≠ 0)
    (F Q : Mat α n n) (prev out : GM α n k)
    (hfac : ∀ i, FacOn fac (utWeights n alpha beta kappa).c (prev.cov i)) (i : Fin k) :
    (ukfPredictAdditive fac alpha beta kappa false (affineMap F Vec.zero) Q prev).mean i
      = (kfPredict F Q none prev out).mean i ∧
    (ukfPredictAdditive fac alpha beta kappa false (affineMap F Vec.zero) Q prev).cov i
      = (kfPredict F Q none prev out).cov i := by
  obtain ⟨h1, h2, -⟩ := ut_additive_state_affine fac alpha beta kappa hc prev hfac F Vec.zero Q i
  constructor
  · apply Vec.ext; intro r
    have : toV ((ukfPredictAdditive fac alpha beta kappa false (affineMap F Vec.zero) Q prev).mean i)
        = toV ((kfPredict F Q none prev out).mean i) := by
      simp only [ukfPredictAdditive, UTOut.toGM, Bool.false_eq_true, if_false, kfPredict, propagateMean,
        toV_mulVec]
      rw [h1]; ext r; simp [Vec.zero]
    exact congrFun this r
  · apply toM_injective
    simp only [ukfPredictAdditive, UTOut.toGM, Bool.false_eq_true, if_false, kfPredict, kfPredictCov,
      toM_add, toM_mul, toM_transpose]
    exact h2

/-- Augmented unscented prediction through `x, w ↦ F x + G w + u` = Kalman prediction with the
    effective process noise `G Q Gᵀ`. -/
theorem ukf_predict_augmented_eq_kf (fac : α → Mat α (n + nz) (n + nz) → Mat α (n + nz) (n + nz))
    (alpha beta kappa : α) (hc : ((n + nz : ℕ) : α) + utLambda (n + nz) alpha kappa ≠ 0)
    (F : Mat α n n) (G : Mat α n nz) (Q : Mat α nz nz) (u : Vec α n) (prev out : GM α n k)
    (hfac : ∀ i, FacOn fac (utWeights (n + nz) alpha beta kappa).c ((augmentWithNoise prev Q).cov i))
    (i : Fin k) :
    (ukfPredictAugmented fac alpha beta kappa false (affineMap (hcat F G) u) Q prev).mean i
      = (kfPredict F ((G.mul Q).mul G.transpose) (some (fun _ => u)) prev out).mean i ∧
    (ukfPredictAugmented fac alpha beta kappa false (affineMap (hcat F G) u) Q prev).cov i
      = (kfPredict F ((G.mul Q).mul G.transpose) (some (fun _ => u)) prev out).cov i := by
  obtain ⟨h1, h2, -⟩ := ut_state_model_affine fac alpha beta kappa hc prev Q hfac F G u i
  constructor
  · apply Vec.ext; intro r
    have : toV ((ukfPredictAugmented fac alpha beta kappa false (affineMap (hcat F G) u) Q prev).mean i)
        = toV ((kfPredict F ((G.mul Q).mul G.transpose) (some (fun _ => u)) prev out).mean i) := by
      simp only [ukfPredictAugmented, UTOut.toGM, Bool.false_eq_true, if_false, kfPredict, propagateMean,
        toV_add, toV_mulVec]
      exact h1
    exact congrFun this r
  · apply toM_injective
    simp only [ukfPredictAugmented, UTOut.toGM, Bool.false_eq_true, if_false, kfPredict, kfPredictCov,
      toM_add, toM_mul, toM_transpose]
    exact h2

/-- A skipping state model: the previous belief is returned unchanged (both variants). -/
theorem ukf_predict_skip (fac : α → Mat α n n → Mat α n n) (fac' : α → Mat α (n + nz) (n + nz) → Mat α (n + nz) (n + nz))
    (alpha beta kappa : α)
    (prop : (Fin k → Mat α n (2 * n + 1)) → (Fin k → Mat α n (2 * n + 1)))
    (motion : (Fin k → Mat α (n + nz) (2 * (n + nz) + 1)) → (Fin k → Mat α n (2 * (n + nz) + 1)))
    (Q : Mat α n n) (Q' : Mat α nz nz) (prev : GM α n k) :
    ukfPredictAdditive fac alpha beta kappa true prop Q prev = prev ∧
    ukfPredictAugmented fac' alpha beta kappa true motion Q' prev = prev := by
  simp [ukfPredictAdditive, ukfPredictAugmented]

/-! ### Correction -/

/-- unfolding of the additive correction once the transform has succeeded -/
theorem ukfCorrectAdditive_of_some {fac : α → Mat α n n → Mat α n n} {inv : Mat α m m → Mat α m m}
    {alpha beta kappa : α} {y : Vec α m} {predicted : FunEval α n m k} {R : Mat α m m}
    {innovation : (Fin k → Vec α m) → Vec α m → Option (Fin k → Vec α m)} {pred out : GM α n k}
    {o : UTOut α n m k}
    (h : utAdditiveMeasurementModel (nx := n) (nz := 0) fac (utWeights n alpha beta kappa) pred predicted R = some o) :
    ukfCorrectAdditive fac inv alpha beta kappa (some y) predicted R innovation pred out
      = ukfUpdate inv innovation y o o.cross pred out := by
  simp only [ukfCorrectAdditive, h]

/-- unfolding of the augmented correction once the transform has succeeded -/
theorem ukfCorrectAugmented_of_some {fac : α → Mat α (n + nz) (n + nz) → Mat α (n + nz) (n + nz)}
    {inv : Mat α m m → Mat α m m}
    {alpha beta kappa : α} {y : Vec α m} {predicted : FunEval α (n + nz) m k} {R : Mat α nz nz}
    {innovation : (Fin k → Vec α m) → Vec α m → Option (Fin k → Vec α m)} {pred out : GM α n k}
    {o : UTOut α n m k}
    (h : utMeasurementModel (nx := n) (nz := nz) fac (utWeights (n + nz) alpha beta kappa)
          (augmentWithNoise pred R) predicted = some o) :
    ukfCorrectAugmented fac inv alpha beta kappa (some y) predicted R innovation pred out
      = ukfUpdate inv innovation y o o.cross pred out := by
  simp only [ukfCorrectAugmented, h]

/-- Additive unscented correction = Kalman correction: mean, covariance, untouched weights, and
    the arguments `(ν_i, S_i)` of the likelihood `N(ν_i; 0, S_i)`. -/
theorem ukf_correct_eq_kf (fac : α → Mat α n n → Mat α n n) (inv : Mat α m m → Mat α m m)
    (alpha beta kappa : α) (hc : (n : α) + utLambda n alpha kappa ≠ 0)
    (H : Mat α m n) (R : Mat α m m) (y : Vec α m) (pred out : GM α n k)
    (hfac : ∀ i, FacOn fac (utWeights n alpha beta kappa).c (pred.cov i)) :
    let r := ukfCorrectAdditive fac inv alpha beta kappa (some y)
              (fun X => some (affineMap H Vec.zero X)) R linearInnovation pred out
    (∀ i, r.belief.mean i = (kfCorrect inv H R y pred out).mean i) ∧
    (∀ i, r.belief.cov i = (kfCorrect inv H R y pred out).cov i) ∧
    r.belief.weight = (kfCorrect inv H R y pred out).weight ∧
    r.lik = some (fun i => kfInnovation H y (pred.mean i), fun i => kfS H (pred.cov i) R) := by
  obtain ⟨o, ho, h⟩ := ut_additive_meas_affine fac alpha beta kappa hc pred hfac H Vec.zero R
  have hz : toV (Vec.zero : Vec α m) = 0 := by ext r; simp [Vec.zero]
  have := ukfUpdate_eq_kf inv H R y o o.cross pred out
    (fun i => by rw [(h i).1, hz, add_zero]) (fun i => (h i).2.1) (fun i => (h i).2.2)
  intro r
  have key : r = ukfUpdate inv linearInnovation y o o.cross pred out := ukfCorrectAdditive_of_some ho
  rw [key]
  exact this

/-- Augmented unscented correction through `x, v ↦ H x + D v` = Kalman correction with the
    effective measurement noise `D R Dᵀ`. -/
theorem ukf_correct_augmented_eq_kf (fac : α → Mat α (n + nz) (n + nz) → Mat α (n + nz) (n + nz))
    (inv : Mat α m m → Mat α m m)
    (alpha beta kappa : α) (hc : ((n + nz : ℕ) : α) + utLambda (n + nz) alpha kappa ≠ 0)
    (H : Mat α m n) (D : Mat α m nz) (R : Mat α nz nz) (y : Vec α m) (pred out : GM α n k)
    (hfac : ∀ i, FacOn fac (utWeights (n + nz) alpha beta kappa).c ((augmentWithNoise pred R).cov i)) :
    let Reff := (D.mul R).mul D.transpose
    let r := ukfCorrectAugmented fac inv alpha beta kappa (some y)
              (fun X => some (affineMap (hcat H D) Vec.zero X)) R linearInnovation pred out
    (∀ i, r.belief.mean i = (kfCorrect inv H Reff y pred out).mean i) ∧
    (∀ i, r.belief.cov i = (kfCorrect inv H Reff y pred out).cov i) ∧
    r.belief.weight = (kfCorrect inv H Reff y pred out).weight ∧
    r.lik = some (fun i => kfInnovation H y (pred.mean i), fun i => kfS H (pred.cov i) Reff) := by
  obtain ⟨o, ho, h⟩ := ut_meas_model_affine fac alpha beta kappa hc pred R hfac H D Vec.zero
  have hz : toV (Vec.zero : Vec α m) = 0 := by ext r; simp [Vec.zero]
  have := ukfUpdate_eq_kf inv H ((D.mul R).mul D.transpose) y o o.cross pred out
    (fun i => by rw [(h i).1, hz, add_zero])
    (fun i => by rw [(h i).2.1]; simp) (fun i => (h i).2.2)
  intro Reff r
  have key : r = ukfUpdate inv linearInnovation y o o.cross pred out := ukfCorrectAugmented_of_some ho
  rw [key]
  exact this

/-- Same innovation and same innovation covariance, hence the same likelihood
    `N(ν_i; 0, S_i)` for whatever density routine both classes call (additive variant). -/
theorem ukf_likelihood_eq_kf (fac : α → Mat α n n → Mat α n n) (inv : Mat α m m → Mat α m m)
    (alpha beta kappa : α) (hc : (n : α) + utLambda n alpha kappa ≠ 0)
    (H : Mat α m n) (R : Mat α m m) (y : Vec α m) (pred out : GM α n k)
    (hfac : ∀ i, FacOn fac (utWeights n alpha beta kappa).c (pred.cov i))
    {β : Type} (density : Vec α m → Mat α m m → β) :
    ((ukfCorrectAdditive fac inv alpha beta kappa (some y)
        (fun X => some (affineMap H Vec.zero X)) R linearInnovation pred out).lik.map
      (fun p => fun i => density (p.1 i) (p.2 i)))
      = some (fun i => density (kfInnovation H y (pred.mean i)) (kfS H (pred.cov i) R)) := by
  have := (ukf_correct_eq_kf fac inv alpha beta kappa hc H R y pred out hfac).2.2.2
  rw [this]; rfl

/-- Every failing model call (no measurement, failed prediction, failed innovation) leaves the
    corrected belief equal to the predicted one and reports no likelihood (fresh object). -/
theorem ukf_correct_invalid_keeps_belief (fac : α → Mat α n n → Mat α n n) (inv : Mat α m m → Mat α m m)
    (alpha beta kappa : α) (R : Mat α m m) (y : Vec α m) (pred out : GM α n k)
    (predicted : FunEval α n m k)
    (innovation : (Fin k → Vec α m) → Vec α m → Option (Fin k → Vec α m)) :
    (ukfCorrectAdditive fac inv alpha beta kappa none predicted R innovation pred out).belief = pred ∧
    (ukfCorrectAdditive fac inv alpha beta kappa (some y) (fun _ => none) R innovation pred out).belief = pred ∧
    (ukfCorrectAdditive fac inv alpha beta kappa (some y) predicted R (fun _ _ => none) pred out).belief = pred := by
  refine ⟨rfl, rfl, ?_⟩
  simp only [ukfCorrectAdditive]
  cases utAdditiveMeasurementModel (nx := n) (nz := 0) fac (utWeights n alpha beta kappa) pred predicted R with
  | none => rfl
  | some o => simp [ukfUpdate]

/-- Skipped steps (`GaussianCorrection::correct` / `GaussianPrediction::predict` with the skip flag set —
    a flag that an object handed over by move construction keeps): both filters return the belief they
    were given, hence coincide; an unskipped step is the step itself. -/
theorem ukf_skipped_steps_coincide (pred : GM α n k) (ustep kstep : UKFCorrOut α n m k) (up kp : GM α n k) :
    gaussianCorrect true pred ustep = gaussianCorrect true pred kstep ∧
    gaussianCorrect false pred ustep = ustep.belief ∧
    gaussianPredict true pred up = gaussianPredict true pred kp ∧
    gaussianPredict false pred up = up := by
  simp [gaussianCorrect, gaussianPredict]

/-- Non-vacuity: a concrete instance over ℚ of all hypotheses of the correction theorem
    (`n = m = 1`, `α = 1`, `β = 2`, `κ = 0`, `P = 4`, factor `2`). -/
example : ∃ (fac : ℚ → Mat ℚ 1 1 → Mat ℚ 1 1) (pred : GM ℚ 1 1),
    ((1 : ℕ) : ℚ) + utLambda 1 (1 : ℚ) 0 ≠ 0 ∧
    ∀ i, FacOn fac (utWeights 1 (1 : ℚ) 2 0).c (pred.cov i) := by
  refine ⟨fun _ _ => Mat.of (fun _ _ => 2),
    { mean := fun _ => Vec.of (fun _ => 1), cov := fun _ => Mat.of (fun _ _ => 4), weight := Vec.of (fun _ => 1) },
    by norm_num [utLambda], fun i => ?_⟩
  unfold FacOn
  ext a b
  simp [utWeights, utLambda, Matrix.mul_apply, toM]
  norm_num

end BFL
