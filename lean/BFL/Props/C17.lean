import BFL.Proofs.History
import BFL.Proofs.ExtractStats
import BFL.Proofs.ExtractWeights
import BFL.Proofs.ExtractWindow
/-
C17 — Estimate extraction and its sliding window return the advertised statistic.

Theorems about the models `BFL.HistBuf` (BFL/Model/History.lean: `HistoryBuffer`) and
`BFL.Extract` (BFL/Model/Extract.lean: `EstimatesExtraction`, `log_sum_exp`, the rows of
`directional_mean` it uses), for every sequence of calls, every window size, every particle set,
log-weights, likelihoods and transition matrix.  Numbers are read over ℝ.

One clause of the property does **not** hold for the code as it is (and hence not for the model):
with exactly one column (`mean` of a single particle; a windowed estimate when the history holds a
single estimate) `directional_mean` returns the circular components unwrapped, so the result is the
weighted circular mean only modulo 2π.  The full-strength statement is kept (`MeanCircularSpec`),
refuted on a witness (`mean_circular_counterexample`), and proved on the remaining inputs
(`mean_circular_partial`, `mean_circular_mod_two_pi`).
-/
namespace BFL
namespace C17
open Extract

/-! ## The history buffer: window clamped to [2, 30], shrinking keeps the most recent, clear empties -/
section buffer
variable {β : Type}

/-- After any sequence of buffer operations (the initial window 5 included) the window is in [2, 30]. -/
theorem window_clamped (ops : List (HistBuf.Op β)) :
    2 ≤ (HistBuf.run ops).window ∧ (HistBuf.run ops).window ≤ 30 :=
  ⟨(HistBuf.inv_run ops).lo, (HistBuf.inv_run ops).hi⟩

/-- … and the buffer never holds more elements than the window. -/
theorem hist_len_le_window (ops : List (HistBuf.Op β)) :
    (HistBuf.run ops).items.length ≤ (HistBuf.run ops).window :=
  (HistBuf.inv_run ops).len

/-- Adding an element puts it in front and keeps the `window − 1` most recent older ones, in order. -/
theorem add_keeps_recent (ops : List (HistBuf.Op β)) (x : β) :
    ((HistBuf.run ops).add x).items = (x :: (HistBuf.run ops).items).take (HistBuf.run ops).window ∧
    ((HistBuf.run ops).add x).window = (HistBuf.run ops).window := by
  have h := HistBuf.inv_run ops
  exact ⟨HistBuf.add_items _ x (by have := h.lo; omega) h.len, HistBuf.add_window _ x⟩

/-- The new window is the request clamped to [2, 30] (unchanged request: nothing happens). -/
theorem set_window_clamps (ops : List (HistBuf.Op β)) (w : Nat) :
    ((HistBuf.run ops).setWindow w).1.window
      = (if w = (HistBuf.run ops).window then w else if w < 2 then 2 else if 30 ≤ w then 30 else w) ∧
    ((HistBuf.run ops).setWindow w).2 = true := by
  refine ⟨?_, HistBuf.setWindow_flag _ w⟩
  rw [HistBuf.setWindow_window]
  split
  · rename_i h; exact h.symm
  · rfl

/-- Changing the window keeps the `min(stored, new window)` most recent elements, in order
    (in particular nothing is lost when the window grows or the content already fits). -/
theorem shrink_keeps_recent (ops : List (HistBuf.Op β)) (w : Nat) :
    let h := HistBuf.run ops
    (h.setWindow w).1.items = h.items.take (min h.items.length (h.setWindow w).1.window) ∧
    (h.setWindow w).1.items.length = min h.items.length (h.setWindow w).1.window := by
  intro h
  have hi := HistBuf.inv_run ops
  have h1 := HistBuf.setWindow_items h w hi.len
  constructor
  · rw [h1]
    rcases Nat.le_total h.items.length (h.setWindow w).1.window with hle | hle
    · rw [Nat.min_eq_left hle, List.take_of_length_le hle, List.take_of_length_le (le_refl _)]
    · rw [Nat.min_eq_right hle]
  · rw [h1, List.length_take, Nat.min_comm]

/-- Clearing empties the buffer and keeps the window. -/
theorem clear_empties (h : HistBuf β) :
    h.clear.1.items = [] ∧ h.clear.1.window = h.window ∧ h.clear.2 = true := ⟨rfl, rfl, rfl⟩

/-- `window_ − 1` / `window_ + 1` never wrap around in a reachable buffer. -/
theorem decrease_increase_no_wrap (ops : List (HistBuf.Op β)) :
    (HistBuf.run ops).decrease = (HistBuf.run ops).setWindow ((HistBuf.run ops).window - 1) ∧
    (HistBuf.run ops).increase = (HistBuf.run ops).setWindow ((HistBuf.run ops).window + 1) := by
  have h := HistBuf.inv_run ops
  unfold HistBuf.decrease HistBuf.increase
  rw [HistBuf.uintSub1_eq (by have := h.lo; omega), HistBuf.uintAdd1_eq h.hi]
  exact ⟨rfl, rfl⟩

/-- non-vacuity: window 10, four elements, shrink to 3 (the sequence that corrupted the heap before
    fix 382f8e9): the three most recent survive, in order. -/
example : (HistBuf.run [.set 10, .add 1, .add 2, .add 3, .add 4, .set 3] : HistBuf Nat).items = [4, 3, 2] ∧
    (HistBuf.run [.set 10, .add 1, .add 2, .add 3, .add 4, .set 3] : HistBuf Nat).window = 3 := by
  simp [HistBuf.run, HistBuf.step, HistBuf.setWindow, HistBuf.add, HistBuf.init, HistBuf.clampWindow,
    HistBuf.maxWindow, HistBuf.popBackWhile_eq_take]

end buffer

/-! ## The extraction object: window, clear, availability flags -/

/-- After any call sequence on an `EstimatesExtraction` the window is in [2, 30] and bounds the history. -/
theorem ee_window_clamped (eps : ℝ) (lin circ : Nat) (cs : List (Call ℝ)) :
    2 ≤ (run eps lin circ cs).hist.window ∧ (run eps lin circ cs).hist.window ≤ 30 ∧
    (run eps lin circ cs).hist.items.length ≤ (run eps lin circ cs).hist.window :=
  let h := (inv_run eps lin circ cs).hist
  ⟨h.lo, h.hi, h.len⟩

/-- `setMobileAverageWindowSize(n)`: rejected for `n ≤ 0`; otherwise the window becomes the request
    clamped to [2, 30] and the `min(stored, new window)` most recent estimates survive. -/
theorem ee_set_window (eps : ℝ) (lin circ : Nat) (cs : List (Call ℝ)) (n : Int) :
    let s := run eps lin circ cs
    let r := step eps s (.setWindow n)
    (n ≤ 0 → r.2.flag = false ∧ r.1.hist = s.hist) ∧
    (0 < n → r.2.flag = true ∧
      r.1.hist.window = (if n.toNat = s.hist.window then n.toNat else HistBuf.clampWindow n.toNat) ∧
      r.1.hist.items = s.hist.items.take r.1.hist.window) := by
  intro s r
  have hi := (inv_run eps lin circ cs).hist
  constructor
  · intro hn
    simp [r, step, setMobileWindow, not_lt.mpr hn]
  · intro hn
    simp only [r, step, setMobileWindow, if_pos hn]
    refine ⟨HistBuf.setWindow_flag _ _, ?_, HistBuf.setWindow_items _ _ hi.len⟩
    rw [HistBuf.setWindow_window]
    split
    · rename_i h; exact h.symm
    · rfl

/-- `clear()` empties the history and keeps window and method. -/
theorem ee_clear_empties (eps : ℝ) (s : EE ℝ) :
    (step eps s .clear).1.hist.items = [] ∧ (step eps s .clear).1.hist.window = s.hist.window ∧
    (step eps s .clear).1.method = s.method ∧ (step eps s .clear).2.flag = true := ⟨rfl, rfl, rfl, rfl⟩

/-- The two-argument `extract` reports "no estimate" exactly for the four map methods (and then leaves
    the object untouched); the five-argument one always reports an estimate. -/
theorem map_without_args_unavailable (eps : ℝ) (s : EE ℝ) (a : Args ℝ) :
    ((step eps s (.extract2 a)).2.flag = false ↔ s.method ∈ [Method.map, .smap, .wmap, .emap]) ∧
    ((step eps s (.extract2 a)).2.flag = false → (step eps s (.extract2 a)).1 = s ∧ (step eps s (.extract2 a)).2.est = none) ∧
    (step eps s (.extract5 a)).2.flag = true ∧ (step eps s (.extract5 a)).2.est.isSome = true := by
  refine ⟨?_, ?_, ?_, ?_⟩
  · simp only [step, extract2]
    cases hm : s.method <;> simp [Method.stat, Method.fam]
  · simp only [step, extract2]
    cases hm : s.method <;> simp [Method.stat, Method.fam]
  · simp only [step, extract5, extract2]
    cases hm : s.method <;> simp [Method.stat, Method.fam]
  · simp only [step, extract5, extract2]
    cases hm : s.method <;> simp [Method.stat, Method.fam]

/-- The un-windowed methods return the base statistic and leave the history untouched. -/
theorem unwindowed_returns_base (eps : ℝ) (s : EE ℝ) (a : Args ℝ) (hf : s.method.fam = none) :
    (s.method.stat ≠ .map →
      step eps s (.extract2 a) = (s, ⟨true, some (baseEst eps s.lin s.circ s.method.stat a)⟩)) ∧
    step eps s (.extract5 a) = (s, ⟨true, some (baseEst eps s.lin s.circ s.method.stat a)⟩) := by
  constructor
  · intro hs
    rcases extract2_cases eps s a with ⟨h, _⟩ | ⟨_, _, _, he⟩ | ⟨f, _, _, hf', _⟩
    · exact absurd h hs
    · exact he
    · rw [hf] at hf'; cases hf'
  · rcases extract5_cases eps s a with ⟨_, _, he⟩ | ⟨f, _, hf', _⟩
    · exact he
    · rw [hf] at hf'; cases hf'

/-! ## The base statistics -/

/-- `mean`: the estimate has `lin + circ` rows; linear row `r` is `Σ_j x_{rj} e^{w_j}` — the weighted
    arithmetic mean `Σ_j x_{rj} e^{w_j} / Σ_j e^{w_j}` for normalised log-weights; with more than one
    particle circular row `r` is the argument of the weighted resultant `Σ_j e^{w_j} e^{i θ_{rj}}`. -/
theorem mean_is_weighted_mean (lin circ : Nat) (ps : List (List ℝ)) (ws : List ℝ) :
    (meanEst lin circ ps ws).length = lin + circ ∧
    (∀ r, r < lin → (meanEst lin circ ps ws)[r]?
        = some (List.zipWith (fun p w => p.getD r 0 * Real.exp w) ps ws).sum) ∧
    (∀ r, r < lin → (ws.map Real.exp).sum = 1 → (meanEst lin circ ps ws)[r]?
        = some ((List.zipWith (fun p w => p.getD r 0 * Real.exp w) ps ws).sum / (ws.map Real.exp).sum)) ∧
    (∀ r, r < circ → ps.length ≠ 1 → (meanEst lin circ ps ws)[lin + r]?
        = some (Complex.arg (resultant (rowOf ps (lin + r)) (ws.map Real.exp)))) := by
  refine ⟨meanEst_length lin circ ps ws, ?_, ?_, ?_⟩
  · intro r hr
    rw [meanEst_lin lin circ ps ws r hr, linMean_eq]
  · intro r hr hn
    rw [meanEst_lin lin circ ps ws r hr, linMean_eq, hn, div_one]
  · intro r hr hN
    rw [meanEst_circ lin circ ps ws r hr, dirMean_eq_arg]
    simpa [rowOf] using hN

/-- Full-strength circular clause of the property: for every non-empty particle set with normalised
    log-weights, every circular row of `mean` is the weighted circular mean (argument of the resultant). -/
def MeanCircularSpec : Prop :=
  ∀ (lin circ : Nat) (ps : List (List ℝ)) (ws : List ℝ) (r : Nat),
    r < circ → ps ≠ [] → ps.length = ws.length → (ws.map Real.exp).sum = 1 →
    (meanEst lin circ ps ws)[lin + r]? = some (Complex.arg (resultant (rowOf ps (lin + r)) (ws.map Real.exp)))

/-- It holds whenever there is more than one particle, or the single particle's angle already lies in
    `(−π, π]` (excluded: exactly one particle whose circular component is outside that interval). -/
theorem mean_circular_partial (lin circ : Nat) (ps : List (List ℝ)) (ws : List ℝ) (r : Nat)
    (hr : r < circ) (hlen : ps.length = ws.length)
    (hex : ps.length ≠ 1 ∨ ∀ p ∈ ps, p.getD (lin + r) 0 ∈ Set.Ioc (-Real.pi) Real.pi) :
    (meanEst lin circ ps ws)[lin + r]? = some (Complex.arg (resultant (rowOf ps (lin + r)) (ws.map Real.exp))) := by
  by_cases hN : ps.length = 1
  · rcases hex with h | h
    · exact absurd hN h
    · rw [meanEst_circ lin circ ps ws r hr]
      obtain ⟨p, rfl⟩ := List.length_eq_one_iff.mp hN
      obtain ⟨w, rfl⟩ := List.length_eq_one_iff.mp (hlen ▸ hN : ws.length = 1)
      simp only [rowOf, List.map_cons, List.map_nil]
      rw [dirMean_single_of_mem _ _ (Real.exp_pos w) (h p (by simp))]
  · exact (mean_is_weighted_mean lin circ ps ws).2.2.2 r hr hN

/-- In every case the circular row is the weighted circular mean modulo `2π` (the same point of the circle). -/
theorem mean_circular_mod_two_pi (lin circ : Nat) (ps : List (List ℝ)) (ws : List ℝ) (r : Nat)
    (hr : r < circ) (hlen : ps.length = ws.length) :
    ∃ (v : ℝ) (k : ℤ), (meanEst lin circ ps ws)[lin + r]? = some v ∧
      v = Complex.arg (resultant (rowOf ps (lin + r)) (ws.map Real.exp)) + k * (2 * Real.pi) := by
  by_cases hN : ps.length = 1
  · obtain ⟨p, rfl⟩ := List.length_eq_one_iff.mp hN
    obtain ⟨w, rfl⟩ := List.length_eq_one_iff.mp (hlen ▸ hN : ws.length = 1)
    obtain ⟨k, hk⟩ := dirMean_single_mod (p.getD (lin + r) 0) (Real.exp w) (Real.exp_pos w)
    refine ⟨_, k, meanEst_circ lin circ [p] [w] r hr, ?_⟩
    simpa [rowOf] using hk
  · exact ⟨_, 0, (mean_is_weighted_mean lin circ ps ws).2.2.2 r hr hN, by simp⟩

/-- The full-strength clause fails: one particle at angle 7 with weight 1 (log-weight 0) gives 7, whereas
    the circular mean is `7 − 2π ≈ 0.7168`. -/
theorem mean_circular_counterexample : ¬ MeanCircularSpec := by
  intro h
  have h1 := h 0 1 [[7]] [0] 0 (by norm_num) (by simp) rfl (by simp)
  rw [meanEst_circ 0 1 [[7]] [0] 0 (by norm_num)] at h1
  simp only [rowOf, List.map_cons, List.map_nil, Real.exp_zero, Option.some.injEq] at h1
  have h2 : (([7] : List ℝ).getD (0 + 0) 0) = 7 := by simp
  rw [h2] at h1
  exact dirMean_single_counterexample.2 h1

/-- `mode` returns the particle at the first index of maximal log-weight (as Eigen's `maxCoeff`). -/
theorem mode_is_argmax (ps : List (List ℝ)) (ws : List ℝ) (hlen : ps.length = ws.length) (hne : ws ≠ []) :
    ∃ i, ps[i]? = some (modeEst ps ws) ∧
      (∃ m, ws[i]? = some m ∧ (∀ (j : Nat) x, ws[j]? = some x → x ≤ m) ∧
        (∀ (j : Nat) x, j < i → ws[j]? = some x → x < m)) := by
  obtain ⟨i, hi, he⟩ := modeEst_spec ps ws hne
  refine ⟨i, ?_, hi⟩
  have hil : i < ps.length := hlen ▸ hi.lt_length
  rw [he, List.getD_eq_getElem?_getD, List.getElem?_eq_getElem hil]
  rfl

/-- `map`: every logarithm the code takes is of a positive number, the log-domain score of particle `i`
    is the logarithm of `(lᵢ + ε)·Σ_j (t_{ij} + ε)·e^{w_j}` (likelihood times the weight-averaged
    transition density, each guarded by `ε = 2.2·10⁻³⁰⁸`), and the particle returned is the one at the
    first index maximising that product. -/
theorem map_is_argmax_lik_times_trans (eps : ℝ) (heps : 0 < eps) (ps : List (List ℝ)) (pw lik : List ℝ)
    (tp : List (List ℝ)) (hN : ps.length = lik.length) (hT : tp.length = lik.length)
    (hpw : pw ≠ []) (hlik : lik ≠ [])
    (hl : ∀ l ∈ lik, 0 ≤ l) (ht : ∀ row ∈ tp, row ≠ [] ∧ ∀ t ∈ row, 0 ≤ t) :
    mapValues eps pw lik tp = (mapProducts eps pw lik tp).map Real.log ∧
    (∀ g ∈ mapProducts eps pw lik tp, 0 < g) ∧
    ∃ i, ps[i]? = some (mapEst eps ps pw lik tp) ∧
      (∃ m, (mapProducts eps pw lik tp)[i]? = some m ∧
        (∀ (j : Nat) x, (mapProducts eps pw lik tp)[j]? = some x → x ≤ m) ∧
        (∀ (j : Nat) x, j < i → (mapProducts eps pw lik tp)[j]? = some x → x < m)) := by
  have htp : tp ≠ [] := by
    intro h; rw [h] at hT; exact hlik (List.length_eq_zero_iff.mp hT.symm)
  obtain ⟨hv, hpos⟩ := mapValues_eq_log eps heps pw hpw lik tp hl ht
  obtain ⟨i, hi, he⟩ := mapEst_spec eps heps ps pw lik tp hpw hlik htp hl ht
  refine ⟨hv, hpos, i, ?_, hi⟩
  have hil : i < ps.length := by
    have := hi.lt_length
    simp only [mapProducts, List.length_zipWith] at this
    omega
  rw [he, List.getD_eq_getElem?_getD, List.getElem?_eq_getElem hil]
  rfl

/-- The guard changes each product by exactly `ε·(Σ_j t_j e^{w_j} + (l + ε) Σ_j e^{w_j})`: with
    `ε = 2.2·10⁻³⁰⁸` the selected particle maximises `l·Σ_j t_j e^{w_j}` up to that amount. -/
theorem map_guard_effect (eps l : ℝ) (row pw : List ℝ) (hlen : row.length = pw.length) :
    (l + eps) * (List.zipWith (fun t w => (t + eps) * Real.exp w) row pw).sum
      - l * (List.zipWith (fun t w => t * Real.exp w) row pw).sum
      = eps * ((List.zipWith (fun t w => t * Real.exp w) row pw).sum + (l + eps) * (pw.map Real.exp).sum) :=
  map_guard_bound eps l row pw hlen

/-- non-vacuity of the `map` hypotheses, with an exactly zero likelihood and a zero transition entry -/
example : ∃ i : Nat, ([[1], [2]] : List (List ℝ))[i]?
    = some (mapEst (1/10 : ℝ) [[1], [2]] [0, 0] [0, 1] [[0, 1], [1, 1]]) := by
  obtain ⟨_, _, i, hi, _⟩ := map_is_argmax_lik_times_trans (1/10) (by norm_num) [[1], [2]] [0, 0] [0, 1]
    [[0, 1], [1, 1]] rfl rfl (by simp) (by simp) (by simp) (by simp)
  exact ⟨i, hi⟩

/-! ## The window weights -/

/-- simple variant: for a history of `k ≥ 1` estimates every weight is `1/k` (positive, summing to one, equal) -/
theorem sm_weights_convex (k : Nat) (hk : 1 ≤ k) :
    ConvexAging ((smWeights k : List ℝ).map Real.exp) ∧
    (smWeights k : List ℝ).map Real.exp = List.replicate k (1 / (k : ℝ)) :=
  ⟨smWeights_convex k hk, smWeights_exp k hk⟩

/-- weighted variant: positive, summing to one, not increasing with age; weight of age `i` is `(k − i)/Σ_j (k − j)` -/
theorem wm_weights_convex (k : Nat) (hk : 1 ≤ k) :
    ConvexAging ((wmWeights k : List ℝ).map Real.exp) ∧
    (wmWeights k : List ℝ).map Real.exp
      = (List.range k).map fun i => ((k - i : Nat) : ℝ) / ((List.range k).map fun j => (((k - j : Nat) : ℝ))).sum :=
  ⟨wmWeights_convex k hk, wmWeights_exp k hk⟩

/-- exponential variant: positive, summing to one, not increasing with age; weight of age `i` is `e^{−i/k}/Σ_j e^{−j/k}` -/
theorem em_weights_convex (k : Nat) (hk : 1 ≤ k) :
    ConvexAging ((emWeights k : List ℝ).map Real.exp) ∧
    (emWeights k : List ℝ).map Real.exp
      = (List.range k).map fun (i : Nat) => Real.exp (-((i : ℝ) / k)) /
          ((List.range k).map fun (j : Nat) => Real.exp (-((j : ℝ) / k))).sum :=
  ⟨emWeights_convex k hk, emWeights_exp k hk⟩

/-- non-vacuity: for `k = 2` the weighted variant has weights `2/3, 1/3` -/
example : (wmWeights 2 : List ℝ).map Real.exp = [2 / 3, 1 / 3] := by
  rw [(wm_weights_convex 2 (by norm_num)).2]
  simp [List.range_succ]
  norm_num

/-- The cached weight vectors are recomputed only when their length differs from the history length;
    after every call sequence (window changes, clears, method switches included) each cached vector is
    exactly what a fresh computation gives for its length — a stale vector of the right length cannot occur. -/
theorem cached_weights_fresh (eps : ℝ) (lin circ : Nat) (cs : List (Call ℝ)) :
    let s := run eps lin circ cs
    s.smW = smWeights s.smW.length ∧ s.wmW = wmWeights s.wmW.length ∧ s.emW = emWeights s.emW.length ∧
    ∀ (f : Fam) (k : Nat), (if (s.cached f).length ≠ k then famWeights f k else s.cached f) = famWeights f k := by
  intro s
  have h := (inv_run eps lin circ cs).cache
  exact ⟨h.sm, h.wm, h.em, fun f k => windowed_weight_fresh h f k⟩

/-! ## The windowed variants -/

/-- state and ghost log (base estimates pushed since the last `clear`, newest first) after a call sequence -/
noncomputable def runLog (eps : ℝ) (lin circ : Nat) (cs : List (Call ℝ)) : EE ℝ × List (List ℝ) :=
  runLogFrom eps (EE.init lin circ) [] cs

theorem runLog_fst (eps : ℝ) (lin circ : Nat) (cs : List (Call ℝ)) :
    (runLog eps lin circ cs).1 = run eps lin circ cs :=
  runLogFrom_fst eps _ _ cs

/-- The history always consists of the most recent pushed base estimates, newest first. -/
theorem hist_is_recent_log (eps : ℝ) (lin circ : Nat) (cs : List (Call ℝ)) :
    (run eps lin circ cs).hist.items
      = (runLog eps lin circ cs).2.take (run eps lin circ cs).hist.items.length := by
  have h := logInv_runLogFrom eps (inv_init lin circ) (List.nil_prefix : LogInv (EE.init lin circ) []) cs
  have h' := List.prefix_iff_eq_take.mp h
  simp only [runLog, runLogFrom_fst] at h' ⊢
  exact h'

/-- After a `clear` (or from construction) and with no window change since, the history holds
    `min(calls, window)` estimates, `calls` counting the windowed `extract` calls that produced one. -/
theorem hist_len_min_calls_window (eps : ℝ) (lin circ : Nat) (pre cs : List (Call ℝ))
    (hcs : ∀ c ∈ cs, Call.keepsWindow c) :
    let s0 := (step eps (run eps lin circ pre) .clear).1
    (runFrom eps s0 cs).hist.items.length = min (pushCount eps s0 cs) s0.hist.window ∧
    (runFrom eps (EE.init lin circ) cs).hist.items.length = min (pushCount eps (EE.init lin circ) cs) 5 := by
  intro s0
  have h0 : EEInv lin circ s0 := inv_step eps (inv_run eps lin circ pre) .clear
  obtain ⟨_, h2⟩ := hist_len_runFrom eps h0 cs hcs
  obtain ⟨_, h4⟩ := hist_len_runFrom eps (inv_init lin circ) cs hcs
  constructor
  · rw [h2]
    have : s0.hist.items.length = 0 := rfl
    rw [this, Nat.zero_add]
  · rw [h4]
    simp [EE.init, HistBuf.init]

/-- **Windowed estimates.**  After any call sequence `pre`, a windowed `extract` call `c` whose base
    estimate is `b` returns `true` and `mean(H, a)`, where `H` is the list of the `k` most recent base
    estimates (`b` first), `k = min(stored + 1, window) ∈ [1, 30]`, and `a` the family's weight vector for
    `k`, which after `exp` is positive, sums to one, does not increase with age and is constant `1/k` for
    the simple variant.  `mean(H, a)` is the very function of `mean_is_weighted_mean`: linear rows
    `Σ_i a_i H_i[r]`, circular rows averaged on the circle (see `windowed_rows`). -/
theorem windowed_is_convex_combination (eps : ℝ) (lin circ : Nat) (pre : List (Call ℝ)) (c : Call ℝ)
    (b : List ℝ) (hp : pushed eps (runLog eps lin circ pre).1 c = some b) :
    let s := (runLog eps lin circ pre).1
    let log := (runLog eps lin circ pre).2
    ∃ f, s.method.fam = some f ∧
      let k := min (s.hist.items.length + 1) s.hist.window
      let H := (b :: log).take k
      let a := (famWeights f k : List ℝ).map Real.exp
      1 ≤ k ∧ k ≤ 30 ∧ H.length = k ∧ a.length = k ∧
      ConvexAging a ∧ (f = .simple → a = List.replicate k (1 / (k : ℝ))) ∧
      (step eps s c).2 = ⟨true, some (meanEst lin circ H (famWeights f k))⟩ ∧
      (step eps s c).1.hist.items = H := by
  intro s log
  have hinv : EEInv lin circ s := by
    simp only [s, runLog, runLogFrom_fst]; exact inv_runFrom eps (inv_init lin circ) pre
  have hlog : LogInv s log :=
    logInv_runLogFrom eps (inv_init lin circ) (List.nil_prefix : LogInv (EE.init lin circ) []) pre
  obtain ⟨f, hf, hk1, hk30, hH, hitems, hout⟩ := windowed_step_spec eps hinv hlog c b hp
  refine ⟨f, hf, hk1, hk30, hH, by simp, famWeights_convex f _ hk1, ?_, hout, hitems⟩
  intro hfs
  subst hfs
  exact smWeights_exp _ hk1

/-- Row-wise reading of `mean(H, a)` for a window of `k = H.length` estimates with log-weights `lw`:
    linear rows are the combination `Σ_i H_i[r]·e^{lw_i}`; circular rows are the argument of
    `Σ_i e^{lw_i} e^{i H_i[r]}` when `k ≠ 1`, and — the one-column shortcut — the single stored value
    itself when `k = 1` (equal to that argument modulo 2π, `mean_circular_mod_two_pi`). -/
theorem windowed_rows (lin circ : Nat) (H : List (List ℝ)) (lw : List ℝ) :
    (∀ r, r < lin → (meanEst lin circ H lw)[r]?
        = some (List.zipWith (fun h w => h.getD r 0 * Real.exp w) H lw).sum) ∧
    (∀ r, r < circ → H.length ≠ 1 → (meanEst lin circ H lw)[lin + r]?
        = some (Complex.arg (resultant (rowOf H (lin + r)) (lw.map Real.exp)))) ∧
    (∀ r b, r < circ → H = [b] → (meanEst lin circ H lw)[lin + r]? = some (b.getD (lin + r) 0)) := by
  obtain ⟨_, h1, _, h3⟩ := mean_is_weighted_mean lin circ H lw
  refine ⟨h1, h3, ?_⟩
  intro r b hr hH
  subst hH
  rw [meanEst_circ lin circ [b] lw r hr]
  rfl

/-- non-vacuity of `windowed_is_convex_combination`: default method `emode`, two calls. -/
example : pushed (1 : ℝ) (runLog 1 1 0 [.extract2 { ps := [[3]], ws := [0] }]).1
    (.extract2 { ps := [[5], [4]], ws := [0, 1] }) = some [4] := by
  simp [runLog, runLogFrom, pushed, step, extract2, EE.init, Method.stat, Method.fam, windowed,
    baseEst, modeEst, argmaxFirst, argmaxAux, EE.setCached]

/-- The same deviation in windowed form: the first windowed call after construction (or `clear`) holds a
    single estimate, which is returned with its circular component unwrapped — here `smode` on one
    particle at angle 7 returns 7, whereas "averaged on the circle" it is `arg e^{7i} = 7 − 2π`. -/
theorem windowed_circular_counterexample :
    (step (1 : ℝ) (run 1 0 1 [.setMethod .smode]) (.extract2 { ps := [[7]], ws := [0] })).2.est = some [7] ∧
    (7 : ℝ) ≠ Complex.arg (resultant [7] [1]) := by
  constructor
  · simp [run, runFrom, step, extract2, EE.init, Method.stat, Method.fam, windowed, baseEst, modeEst,
      argmaxFirst, argmaxAux, EE.setCached, HistBuf.add, HistBuf.init, EE.cached, famWeights, smWeights,
      meanEst, dirMean, rowOf]
  · have h := dirMean_single_counterexample.2
    rwa [dirMean_single] at h

end C17
end BFL
