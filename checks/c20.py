"""C20 — the type-erased data container (bfl::any::any, Data) is type-safe, value-semantic and leak-free.

Tie: operation sequences over a pool of 3 containers are executed by harness/h_any.cpp on the real
`any` (ASan + UBSan + LeakSanitizer, every `new`/`delete` counted) and by the Lean model
(BFL/Model/AnyBox.lean, an explicit heap of holder cells with pointers); outputs are compared
token by token.  Independently of the Lean model, a value-semantic specification written here
(a container is dead, empty, or holds (type, value); copies copy, moves empty the source, casts
succeed exactly for the stored type) predicts everything a client can observe; the implementation
is checked against it — that is the property's own predicate, evaluated on the implementation.
"""
import os
import re
import subprocess
import time
from concurrent.futures import ThreadPoolExecutor

import vlib

TAGS = ["i", "d", "s", "m", "p", "t"]
TAG_NAME = {"i": "int", "d": "double", "s": "std::string", "m": "Eigen::MatrixXd", "p": "probe", "t": "throwing probe", "v": "void"}
CATS = ["l", "c", "r", "x"]          # T&, const T&, T&&, const T&&
FORMS = ["l", "c", "r", "m"]         # any_cast<T>(any&), (const any&), (any&&), any_cast<T&&>(any&&)
POOL = 3
MOVES_EMPTY = {"s", "m", "p", "t"}        # held types whose move constructor visibly changes the source

DEAD, EMPTY = None, ()


def moved_from(tag, code):
    return -1 if tag in MOVES_EMPTY else code


# --------------------------------------------------------------------------- specification

class Spec:
    """Value-semantic specification of a pool of containers (no heap, no pointers)."""

    __slots__ = ("slots", "rmove")

    def __init__(self, slots=None, rmove=False):
        self.slots = list(slots) if slots is not None else [DEAD] * POOL
        # the property does not say whether `T x = any_cast<T>(std::move(a))` copies (this port, boost) or
        # moves (std::any) the held object out: both are accepted; rmove selects the second reading
        self.rmove = rmove

    def copy(self):
        return Spec(self.slots, self.rmove)

    def live(self, k):
        return 0 <= k < POOL and self.slots[k] is not DEAD

    def free(self, k):
        return 0 <= k < POOL and self.slots[k] is DEAD

    def copies_thrower(self, tok):
        """does the operation copy-construct a held object of the throwing probe type (as any.h is written)?"""
        f = tok.split(":")
        op, s = f[0], self.slots
        holds_t = lambda k: self.live(k) and s[k] != EMPTY and s[k][0] == "t"
        if op == "ca":
            return self.free(int(f[1])) and f[3] != "r" and holds_t(int(f[2]))
        if op == "cv":
            return self.free(int(f[1])) and f[2] != "r" and f[3] == "t"
        if op == "aa":
            return self.live(int(f[1])) and f[3] != "r" and holds_t(int(f[2]))
        if op == "av":
            return self.live(int(f[1])) and f[2] != "r" and f[3] == "t"
        if op == "vc":
            return f[2] == "t" and f[3] != "m" and holds_t(int(f[1]))
        return False

    def news(self, tok):
        """the calls of `operator new` any.h makes inside the operation, in order (as any.h is written): h = storage of a
        holder, v = character buffer of the copy of a held std::string (Eigen takes matrix storage from malloc, the probes
        own nothing; a moved-from string is empty and copies without allocating)"""
        f = tok.split(":")
        op, s = f[0], self.slots
        clone = lambda k: ["h", "v"] if s[k][0] == "s" and s[k][1] != -1 else ["h"]
        if op == "ca":
            if self.free(int(f[1])) and self.live(int(f[2])) and f[3] != "r" and s[int(f[2])] != EMPTY:
                return clone(int(f[2]))
        elif op == "cv":
            if self.free(int(f[1])):
                return ["h", "v"] if f[2] != "r" and f[3] == "s" else ["h"]
        elif op == "aa":
            if self.live(int(f[1])) and self.live(int(f[2])) and f[3] != "r" and s[int(f[2])] != EMPTY:
                return clone(int(f[2]))
        elif op == "av":
            if self.live(int(f[1])):
                return ["h", "v"] if f[2] != "r" and f[3] == "s" else ["h"]
        elif op == "vc":
            a = int(f[1])
            if self.live(a) and s[a] != EMPTY and s[a][0] == f[2] == "s" and f[3] != "m" and s[a][1] != -1:
                return ["v"]
        return []

    def apply(self, tok, hist=None, threw=None):
        """returns the result token; mutates the state; records the model branch taken in hist.
        A leading `!` arms the throwing probe: if the operation throws, nothing changes (the strong guarantee
        of copy-and-swap; a container under construction does not come to life).  threw=None: the operation
        throws iff any.h as written copy-constructs a throwing probe in it; True/False: follow the observed outcome."""
        if tok[0] == "!":
            tok = tok[1:]
            will = self.copies_thrower(tok) if threw is None else threw
            if hist is not None:
                b = "armed:" + tok[:2] + (":throws" if will else ":no-copy-of-thrower")
                hist[b] = hist.get(b, 0) + 1
            if will:
                return "threw"
        elif tok[0] == "~":
            # the (j+1)-th call of operator new inside the operation fails: the operation throws and changes nothing
            j = 1 if tok[1] == "~" else 0
            tok = tok[j + 1:]
            nw = self.news(tok)
            will = (len(nw) > j) if threw is None else threw
            if hist is not None:
                b = "nomem:%s:new#%d:%s" % (tok[:2], j + 1, ("fails-" + {"h": "holder-storage", "v": "value-buffer"}[nw[j]]) if len(nw) > j else "not-reached")
                hist[b] = hist.get(b, 0) + 1
            if will:
                return "threw"
        f = tok.split(":")
        op = f[0]
        s = self.slots

        def hit(b):
            if hist is not None:
                hist[b] = hist.get(b, 0) + 1

        if op == "df":
            k = int(f[1])
            if not self.free(k):
                hit("invalid"); return "inv"
            s[k] = EMPTY; hit("ctorDefault"); return "ok"
        if op == "ca":
            k, src, c = int(f[1]), int(f[2]), f[3]
            if not self.free(k) or not self.live(src):
                hit("invalid"); return "inv"
            s[k] = s[src]
            if c == "r":
                s[src] = EMPTY
                hit("ctorMove:" + ("empty" if s[k] == EMPTY else "holding"))
            else:
                hit("ctorCopy[%s]:%s" % (c, "empty" if s[k] == EMPTY else "clone"))
            return "ok"
        if op == "cv":
            k, c, t, code = int(f[1]), f[2], f[3], int(f[4])
            if not self.free(k):
                hit("invalid"); return "inv"
            s[k] = (t, code)
            hit("ctorVal[%s]:%s" % (c, "move" if c == "r" else "copy")); hit("held:" + t)
            return "src"
        if op == "aa":
            a, b, c = int(f[1]), int(f[2]), f[3]
            if not self.live(a) or not self.live(b):
                hit("invalid"); return "inv"
            if c == "r":
                if a == b:
                    hit("assignMove:self")
                else:
                    s[a] = s[b]; s[b] = EMPTY
                    hit("assignMove:other")
            else:
                hit("assign%s:%s:%s-over-%s" % ({"c": "Copy", "l": "Template[any&]", "x": "Template[const any&&]"}[c],
                                                "self" if a == b else "other",
                                                "empty" if s[b] == EMPTY else "clone", "empty" if s[a] == EMPTY else "holding"))
                s[a] = s[b]
            return "ok"
        if op == "av":
            a, c, t, code = int(f[1]), f[2], f[3], int(f[4])
            if not self.live(a):
                hit("invalid"); return "inv"
            hit("assignVal[%s]:%s-over-%s" % (c, "move" if c == "r" else "copy", "empty" if s[a] == EMPTY else "holding")); hit("held:" + t)
            s[a] = (t, code)
            return "src"
        if op == "rs":
            a = int(f[1])
            if not self.live(a):
                hit("invalid"); return "inv"
            hit("reset:" + ("empty" if s[a] == EMPTY else "holding"))
            s[a] = EMPTY; return "ok"
        if op == "sw":
            a, b = int(f[1]), int(f[2])
            if not self.live(a) or not self.live(b):
                hit("invalid"); return "inv"
            hit("swap[%s]:%s" % ("free" if f[3] == "1" else "member", "self" if a == b else "other"))
            s[a], s[b] = s[b], s[a]; return "ok"
        if op == "ds":
            a = int(f[1])
            if not self.live(a):
                hit("invalid"); return "inv"
            hit("dtor:" + ("null" if s[a] == EMPTY else "delete"))
            s[a] = DEAD; return "ok"
        if op == "pk":
            a, t, code = int(f[1]), f[2], int(f[3])
            if not self.live(a):
                hit("invalid"); return "inv"
            if s[a] != EMPTY and s[a][0] == t:
                s[a] = (t, code); hit("poke:hit")
            else:
                hit("poke:miss-" + ("empty" if s[a] == EMPTY else "othertype"))
            return "ok"
        if op == "pr":
            a, t, code = int(f[1]), f[2], int(f[3])
            if not self.live(a):
                hit("invalid"); return "inv"
            if s[a] != EMPTY and s[a][0] == t:
                s[a] = (t, code); hit("pokeRef:hit"); return "ok"
            hit("pokeRef:throw-" + ("empty" if s[a] == EMPTY else "othertype"))
            return "r=x"
        if op == "vc":
            a, t, form = int(f[1]), f[2], f[3]
            if not self.live(a):
                hit("invalid"); return "inv"
            if s[a] != EMPTY and s[a][0] == t:
                code = s[a][1]
                if form == "m" or (form == "r" and self.rmove):
                    s[a] = (t, moved_from(t, code))
                hit("castValue[%s]:ok" % form)
                return "r=%d" % code
            hit("castValue[%s]:throw-%s" % (form, "empty" if s[a] == EMPTY else "othertype"))
            return "r=x"
        if op == "pc":
            t = f[2]
            if f[1] == "n":
                hit("castPtr[%s]:null-operand" % ("const" if f[3] == "1" else "mut")); return "r=x"
            a = int(f[1])
            if not self.live(a):
                hit("invalid"); return "inv"
            if s[a] != EMPTY and s[a][0] == t:
                hit("castPtr[%s]:ok" % ("const" if f[3] == "1" else "mut")); return "r=%d" % s[a][1]
            hit("castPtr[%s]:null-%s" % ("const" if f[3] == "1" else "mut", "empty" if s[a] == EMPTY else "othertype")); return "r=x"
        raise ValueError("bad op token " + tok)

    def probes(self):
        return sum(1 for x in self.slots if x not in (DEAD, EMPTY) and x[0] in ("p", "t"))

    def view(self):
        out = []
        for x in self.slots:
            if x is DEAD:
                out.append("D")
            elif x == EMPTY:
                out.append(_EMPTY_VIEW)
            else:
                row = ",".join(str(x[1]) if t == x[0] else "x" for t in TAGS)
                out.append("1%s:%s:%s:%s" % (x[0], row, row, row))
        return out


_EMPTY_VIEW = "0v:" + ":".join([",".join("x" for _ in TAGS)] * 3)


def spec_follow(line, hout):
    """specification output when the armed operations throw exactly where the implementation's output says
    they did (the property does not fix how many copies an operation makes, hence not which armed operation
    throws; it does fix that a throwing operation changes nothing and leaks nothing)"""
    t = line.split()
    full = t[2][0] == "F"
    ops = t[3:]
    ht = hout.split()
    sp = Spec()
    out = []
    pos = 0
    for i, tok in enumerate(ops):
        obs = ht[pos] if pos < len(ht) else None
        out.append(sp.apply(tok, threw=(obs == "threw") if tok[0] in "!~" else None))
        out.append("c=%d" % sp.probes())
        pos += 2
        if full or i == len(ops) - 1:
            out += sp.view()
            pos += POOL
    out += ["END", "c=0", "leak=0"]
    return " ".join(out)


def spec_line(line, rmove=False):
    """expected output tokens (probe counters reduced to the live count) of a case line"""
    t = line.split()
    full = t[2][0] == "F"
    ops = t[3:]
    sp = Spec(rmove=rmove)
    out = []
    for i, tok in enumerate(ops):
        out.append(sp.apply(tok))
        out.append("c=%d" % sp.probes())
        if full or i == len(ops) - 1:
            out += sp.view()
    out += ["END", "c=0", "leak=0"]
    return " ".join(out)


_RVAL = re.compile(r" [!~]*vc:\d+:[idsmpt]:r( |$)")
_FAULT = re.compile(r"[!~]")
_MASK = re.compile(r"c=(-?\d+)/-?\d+/-?\d+|src=\S+")


def mask(out):
    """keep what the property speaks about: operation results, cast outcomes, views, the live probe
    count, the leak count.  The numbers of copy / move constructions of held objects and the state of
    the caller's own value object after the call are mechanism, not promised: masked (differences
    between model and implementation there are recorded as notes, never as alarms)."""
    return _MASK.sub(lambda m: "c=" + m.group(1) if m.group(1) is not None else "src", out)


# --------------------------------------------------------------------------- generators

def code_for(depth, kind, ti):
    return 100 * (depth + 1) + 10 * kind + ti


def alphabet(sp, depth, tags, full=False, armed=False):
    ops = _alphabet(sp, depth, tags, full)
    if armed == "nomem":
        # every operation in which any.h may call operator new, also with its first / second call failing
        cp = [o for o in ops if o[:2] in ("ca", "cv", "aa", "av", "vc")]
        ops = ops + ["~" + o for o in cp] + ["~~" + o for o in cp]
    elif armed:
        # every operation in which any.h may copy-construct a held object, also with the throwing probe armed
        ops = ops + ["!" + o for o in ops if o[:2] in ("ca", "cv", "aa", "av", "vc")]
    return ops


def _alphabet(sp, depth, tags, full=False):
    """valid operations in specification state `sp`.
    reduced alphabet (full=False): constructions only into the lowest destroyed slot (destroyed slots
    carry no state: renaming symmetry); argument categories const T& and T&& only; member swap with
    a <= b; casts any_cast<T>(any&) and any_cast<T&&>(any&&); values of the types `tags`.
    full alphabet: every slot, all four argument categories, both swaps, all cast forms incl. the
    pointer forms with const / null operand, all five held types."""
    live = [k for k in range(POOL) if sp.slots[k] is not DEAD]
    dead = [k for k in range(POOL) if sp.slots[k] is DEAD]
    cats = CATS if full else ["c", "r"]
    vcats = CATS if full else ["l", "r"]
    ops = []
    for k in (dead if full else dead[:1]):
        ops.append("df:%d" % k)
        for s in live:
            for c in cats:
                ops.append("ca:%d:%d:%s" % (k, s, c))
        for t in tags:
            for c in vcats:
                ops.append("cv:%d:%s:%s:%d" % (k, c, t, code_for(depth, 0, TAGS.index(t))))
    for a in live:
        for b in live:
            for c in cats:
                ops.append("aa:%d:%d:%s" % (a, b, c))
        for t in tags:
            for c in vcats:
                ops.append("av:%d:%s:%s:%d" % (a, c, t, code_for(depth, 1, TAGS.index(t))))
        ops.append("rs:%d" % a)
        ops.append("ds:%d" % a)
        for b in live:
            if full:
                ops.append("sw:%d:%d:0" % (a, b)); ops.append("sw:%d:%d:1" % (a, b))
            elif a <= b:
                ops.append("sw:%d:%d:0" % (a, b))
        for t in tags:
            ops.append("pk:%d:%s:%d" % (a, t, code_for(depth, 2, TAGS.index(t))))
            for fm in (FORMS if full else ["l", "m"]):
                ops.append("vc:%d:%s:%s" % (a, t, fm))
            if full:
                ops.append("pr:%d:%s:%d" % (a, t, code_for(depth, 3, TAGS.index(t))))
                ops.append("pc:%d:%s:0" % (a, t)); ops.append("pc:%d:%s:1" % (a, t))
    if full:
        for t in tags:
            ops.append("pc:n:%s:0" % t); ops.append("pc:n:%s:1" % t)
    return ops


def enumerate_seqs(maxlen, tags, full, hist, minlen=1, armed=False):
    """all sequences of valid operations of length minlen..maxlen from the all-destroyed pool.
    yields (line, expected masked output); every sequence is its own case (view after the last op)."""
    out = []
    tail = " END c=0 leak=0"

    def rec(sp, depth, toks, pref):
        for tok in alphabet(sp, depth, tags, full, armed):
            sp2 = sp.copy()
            r = sp2.apply(tok, hist if depth + 1 >= minlen else None)
            toks2 = toks + " " + tok
            pref2 = "%s%s c=%d " % (pref, r, sp2.probes())
            if depth + 1 >= minlen:
                out.append(("anyseq %d L%s" % (POOL, toks2), pref2 + " ".join(sp2.view()) + tail))
            if depth + 1 < maxlen:
                rec(sp2, depth + 1, toks2, pref2)

    rec(Spec(), 0, "", "")
    return out


# members of the sized probe family of harness/h_any.cpp (SIZED_FAMILY): <bytes><n|x> = move constructor noexcept / not;
# a.. = alignment 16, w.. = alignment 8
SIZED = ["1n", "1x", "4n", "8n", "8x", "9n", "16n", "16x", "17n", "17x", "24n", "24x", "25n", "25x", "32n", "32x", "33n", "33x",
         "40n", "48n", "48x", "56n", "56x", "57n", "64n", "64x", "a16n", "a32x", "w24n", "w24x"]


def with_member(line, member):
    """the same case with the probe types behind the tags p / t replaced by the sized member"""
    t = line.split(" ", 3)
    t[2] = t[2][0] + ":" + member
    return " ".join(t)


def pair_seqs(tags, hist):
    """two containers in every combination of start states (each: empty / holding tags[0] / holding tags[1] / holding a
    tags[0] object whose value was moved out), the third slot destroyed; then every pair of operations of the full
    alphabet over the held types `tags`; all slots are viewed after every operation, so both containers are observed
    after each of the two operations whichever of them it named"""
    out = []
    kinds = ["E", "P", "X", "M"]
    tail = ["END", "c=0", "leak=0"]
    for i0, k0 in enumerate(kinds):
        for k1 in kinds[i0:]:
            sp, toks, pref, code = Spec(), [], [], 40
            for slot, kd in ((0, k0), (1, k1)):
                code += 1
                ops = {"E": ["df:%d" % slot], "P": ["cv:%d:r:%s:%d" % (slot, tags[0], code)],
                       "X": ["cv:%d:l:%s:%d" % (slot, tags[1], code)],
                       "M": ["cv:%d:r:%s:%d" % (slot, tags[0], code), "vc:%d:%s:m" % (slot, tags[0])]}[kd]
                for tok in ops:
                    r = sp.apply(tok)
                    toks.append(tok)
                    pref += [r, "c=%d" % sp.probes()] + sp.view()
            head = "anyseq %d F %s" % (POOL, " ".join(toks))
            for t1 in _alphabet(sp, 1, tags, True):
                sp1 = sp.copy()
                r1 = sp1.apply(t1, hist)
                p1 = pref + [r1, "c=%d" % sp1.probes()] + sp1.view()
                for t2 in _alphabet(sp1, 2, tags, True):
                    sp2 = sp1.copy()
                    r2 = sp2.apply(t2, hist)
                    out.append(("%s %s %s" % (head, t1, t2), " ".join(p1 + [r2, "c=%d" % sp2.probes()] + sp2.view() + tail)))
    return out


def random_seq(g, idx, maxlen, hist, TAGS=TAGS, churn=False, member=None):
    """TAGS: held types used (a size class for the address-reuse runs); churn: mostly replace / destroy /
    re-create contents and cast, on few containers, so that freed holder blocks are reused at once"""
    r = g.r
    n = r.randint(1, maxlen)
    sp = Spec()
    toks = []
    code = [0]

    def nc():
        code[0] += 1
        return code[0]

    for d in range(n):
        live = [k for k in range(POOL) if sp.slots[k] is not DEAD]
        dead = [k for k in range(POOL) if sp.slots[k] is DEAD]
        holding = [k for k in live if sp.slots[k] != EMPTY]
        x = r.random()
        if x < 0.03:                       # operation on a slot in the wrong liveness state / out of the pool
            k = r.choice(dead + [POOL]) if (dead and r.random() < 0.8) else (r.choice(live) if live else POOL)
            if k in live:
                tok = r.choice(["df:%d" % k, "cv:%d:r:p:%d" % (k, nc()), "ca:%d:%d:c" % (k, k)])
            else:
                tok = r.choice(["rs:%d" % k, "ds:%d" % k, "aa:%d:%d:c" % (k, k), "vc:%d:p:l" % k, "pk:%d:i:%d" % (k, nc()),
                                "sw:%d:%d:0" % (k, live[0] if live else k), "pc:%d:s:0" % k, "av:%d:l:d:%d" % (k, nc()),
                                "ca:%d:%d:r" % (dead[0] if dead else 0, k)])
        elif dead and (not live or x < 0.03 + 0.25 * len(dead)):
            k = r.choice(dead)
            y = r.random()
            if y < 0.1 or not live and y < 0.15:
                tok = "df:%d" % k
            elif live and y < 0.5:
                tok = "ca:%d:%d:%s" % (k, r.choice(holding or live), r.choice(CATS))
            else:
                tok = "cv:%d:%s:%s:%d" % (k, r.choice(CATS), r.choice(TAGS), nc())
        else:
            a = r.choice(live)
            heldtag = sp.slots[a][0] if sp.slots[a] != EMPTY else None
            tag = heldtag if (heldtag and r.random() < 0.6) else r.choice(TAGS)
            kind = r.choice(["aa", "av", "av", "av", "rs", "rs", "sw", "ds", "ds", "pk", "vc", "vc", "pc"] if churn else
                            ["aa", "aa", "aa", "av", "av", "rs", "sw", "ds", "pk", "pk", "pr", "vc", "vc", "pc"])
            if kind == "aa":
                b = a if r.random() < 0.2 else r.choice(live)
                tok = "aa:%d:%d:%s" % (a, b, r.choice(CATS))
            elif kind == "av":
                tok = "av:%d:%s:%s:%d" % (a, r.choice(CATS), r.choice(TAGS), nc())
            elif kind == "rs":
                tok = "rs:%d" % a
            elif kind == "sw":
                b = a if r.random() < 0.15 else r.choice(live)
                tok = "sw:%d:%d:%d" % (a, b, r.randint(0, 1))
            elif kind == "ds":
                tok = "ds:%d" % a
            elif kind == "pk":
                tok = "pk:%d:%s:%d" % (a, tag, nc())
            elif kind == "pr":
                tok = "pr:%d:%s:%d" % (a, tag, nc())
            elif kind == "vc":
                tok = "vc:%d:%s:%s" % (a, tag, r.choice(FORMS))
            else:
                tok = "pc:%s:%s:%d" % ("n" if r.random() < 0.1 else str(a), tag, r.randint(0, 1))
        if tok[:2] in ("ca", "cv", "aa", "av", "vc") and r.random() < (0.4 if "t" in TAGS and churn is None else 0.12):
            tok = r.choice(["!", "!", "~", "~~"]) + tok
        sp.apply(tok, hist)
        toks.append(tok)
    return "anyseq %d F%s %s" % (POOL, ":" + member if member else "", " ".join(toks))


# --------------------------------------------------------------------------- running

def run_harness_limited(binary, lines, max_crashes, timeout=None):
    """vlib.run_harness with an upper bound on the number of restarts after a crash; cases not run
    are reported as None.  Returns (outputs, logs, lsan_at_exit)."""
    outs, logs = [], {}
    env = dict(os.environ)
    env.setdefault("ASAN_OPTIONS", "detect_leaks=1:abort_on_error=0:halt_on_error=1")
    # the recoverable UBSan checks (null, nonnull-attribute and — gcc routes them through the same handler — alignment)
    # halt too: a report on stderr of a process that exits 0 would otherwise go unnoticed (round 4, M32: a small-object
    # buffer that ignores the alignment of the held type).  Reports raised inside Eigen's own headers on empty operands
    # are re-examined as in vlib.run_harness (vlib.benign_ubsan).
    env.setdefault("UBSAN_OPTIONS", "print_stacktrace=1:halt_on_error=1")
    i, crashes, lsan = 0, 0, False
    if timeout is None:
        timeout = 20 + len(lines) // 300      # a clean run needs about 1 s per 3000 sequences
    while i < len(lines):
        if crashes >= max_crashes:
            outs.extend([None] * (len(lines) - i))
            break
        chunk = lines[i:]
        try:
            rc, o, e = vlib.sh([str(binary)], inp="\n".join(chunk) + "\n", timeout=timeout, env=env)
        except subprocess.TimeoutExpired as ex:
            # a hang: keep the outputs that arrived, then run the following cases one by one to find the one that hangs
            part = ex.stdout or ""
            if isinstance(part, bytes):
                part = part.decode("utf-8", "replace")
            done = part.split("\n")[:-1]
            done = done[:max(0, min(len(done), len(chunk) - 1))]
            outs.extend(done)
            j = len(done)
            found = False
            while j < len(chunk) and j < len(done) + 400:
                try:
                    rc1, o1, e1 = vlib.sh([str(binary)], inp=chunk[j] + "\n", timeout=20, env=env)
                    outs.append(o1.split("\n")[0] if rc1 == 0 and o1.strip() else vlib.classify_crash(e1, rc1))
                except subprocess.TimeoutExpired:
                    outs.append("crash:timeout"); logs[len(outs) - 1] = "no output within 20 s for this single sequence"
                    found = True
                    j += 1
                    break
                j += 1
            if not found and j < len(chunk):
                outs.append("crash:timeout"); logs[len(outs) - 1] = "the process hung; no single sequence hangs on its own"
            crashes = max_crashes          # one located hang is enough: every further one costs a full timeout
            i = len(outs)
            continue
        got = o.split("\n")
        if got and got[-1] == "":
            got.pop()
        if len(got) == len(chunk) and (rc == 0 or "LeakSanitizer" in e):
            outs.extend(got)
            if rc != 0:
                lsan = True
                logs[len(outs) - 1] = e[-3000:]
            break
        if rc == 0:
            raise vlib.BuildError("harness produced %d lines for %d cases" % (len(got), len(chunk)))
        ncomplete = min(len(got), len(chunk) - 1)
        outs.extend(got[:ncomplete])
        kind = vlib.classify_crash(e, rc)
        again = None
        if kind == "crash:ubsan" and vlib.benign_ubsan(e):
            again = vlib._rerun_tolerating_eigen_null(binary, chunk[ncomplete], timeout, env)
        if again is not None:
            outs.append(again)
            vlib.BENIGN_UBSAN_CASES.append(chunk[ncomplete][:200])
        else:
            outs.append(kind)
            logs[len(outs) - 1] = e[-3000:]
            crashes += 1
        i = len(outs)
    return outs, logs, lsan


def build_plain():
    """The same harness without any sanitizer (any.h is header-only: no library needed), under
    $BFL_BUILD_DIR/plain/.  AddressSanitizer keeps freed blocks in quarantine, so a holder is never
    allocated at the address of a destroyed one there; with glibc malloc a freed block of the same size
    class is handed out again at once.  Address-reuse (ABA) defects — anything keyed on a raw holder or
    container address that outlives the object — only show on this build."""
    src = vlib.VERIF / "harness" / "h_any.cpp"
    outdir = vlib.BUILD / ("plain-" + __import__("hashlib").sha256(str(vlib.VERIF).encode()).hexdigest()[:8])
    outdir.mkdir(parents=True, exist_ok=True)
    binary, dep = outdir / "h_any", outdir / "h_any.d"
    with vlib.locked("h-plain-h_any"):
        if vlib._deps_stale(binary, dep, [src]):
            cmd = ["g++", "-std=c++11", "-O1", "-g1", "-UNDEBUG", "-DBFL_VERIF", "-DEIGEN_INITIALIZE_MATRICES_BY_ZERO",
                   "-I", str(vlib.REPO / "src/BayesFilters/include"), "-I", vlib.EIGEN_INC, "-I", str(vlib.VERIF / "harness"),
                   "-MMD", "-MF", str(dep), str(src), "-o", str(binary)]
            rc, o, e = vlib.sh(cmd)
            if rc != 0:
                raise vlib.BuildError("plain harness h_any failed to compile:\n%s" % e[-6000:])
    return binary


def run_both(binaries, lines, workers, max_crashes=12):
    """every harness build in `binaries` ({kind: path}) and the driver over `lines`, split over worker
    processes.  Returns ({kind: (outputs, logs, lsan)}, driver outputs)."""
    if not lines:
        return {k: ([], {}, False) for k in binaries}, []
    per = max(200, (len(lines) + workers - 1) // workers)
    chunks = [(i, lines[i:i + per]) for i in range(0, len(lines), per)]
    with ThreadPoolExecutor(max_workers=workers) as ex:
        hf = {k: [ex.submit(run_harness_limited, b, c, max(2, max_crashes // len(chunks))) for _, c in chunks] for k, b in binaries.items()}
        df = [ex.submit(vlib.run_driver, c) for _, c in chunks]
        hres = {k: [f.result() for f in fs] for k, fs in hf.items()}
        dres = [f.result() for f in df]
    res = {}
    for k, rs in hres.items():
        hout, logs, lsan = [], {}, False
        for (off, _), (o, lg, ls) in zip(chunks, rs):
            for kk, v in lg.items():
                logs[off + kk] = v
            hout.extend(o)
            lsan = lsan or ls
        res[k] = (hout, logs, lsan)
    dout = []
    for d in dres:
        dout.extend(d)
    return res, dout


def follow(line, h, want):
    """the specification output to hold the implementation against: for histories with armed operations the one
    that throws where the implementation threw"""
    if _FAULT.search(line) and h and "crash:" not in h and not h.startswith(("throw:", "bad-")):
        try:
            return spec_follow(line, h)
        except Exception:
            return want
    return want


def classify(line, h, d, want):
    """returns list of (kind, key, what) for one case; `want` = specification output (masked)"""
    probs = []
    if h is None:
        return probs
    if mask(d) != want:
        probs.append(("corr", "model-vs-spec", "Lean model output differs from the value-semantic specification"))
    if h.startswith("crash:") or " crash:" in h:
        kind = h[h.index("crash:"):].split()[0]
        probs.append(("prop", kind, "the implementation aborted (%s): double free / use after free / leak / invalid access" % kind))
        return probs
    hm = mask(h)
    if hm != want:
        ht, wt = hm.split(), want.split()
        what, key = "output differs from the specification", "spec-mismatch"
        if len(ht) != len(wt):
            what = "implementation printed %d tokens, specification %d" % (len(ht), len(wt))
        else:
            j = next(i for i in range(len(ht)) if ht[i] != wt[i])
            a, b = ht[j], wt[j]
            if b.startswith("leak="):
                key, what = "leak", "after destroying every container %s allocation(s) of the sequence are still live" % a[5:]
            elif b.startswith("c="):
                key, what = "probe-live-count", "live probe instances: implementation %s, specification %s (held object leaked or destroyed twice)" % (a[2:], b[2:])
            elif b.startswith("r="):
                key, what = "cast-result", "cast returned %s, specification %s (x = nullptr / bad_any_cast)" % (a[2:], b[2:])
            elif b in ("ok", "inv", "threw", "src") or a == "threw":
                key, what = "op-result", "operation result %s, specification %s" % (a, b)
            else:
                key, what = "view", "slot view %s, specification %s (format <has_value><type>:ptr casts:const ptr casts:ref casts per type i,d,s,m,p)" % (a, b)
                if a[:2] != b[:2]:
                    key = "view-state"      # has_value / type() wrong
                elif a != "D" and b != "D":
                    key = "view-casts"
            what = "token %d: %s" % (j, what)
        probs.append(("prop", key, what))
    if mask(h) != mask(d) and not probs:
        ht, dt = mask(h).split(), mask(d).split()
        j = next((i for i in range(min(len(ht), len(dt))) if ht[i] != dt[i]), min(len(ht), len(dt)))
        probs.append(("corr", "output", "token %d: implementation %s, model %s" % (j, ht[j] if j < len(ht) else "-", dt[j] if j < len(dt) else "-")))
    return probs


def shrink(binary, line, key):
    """greedy removal of operations while the same kind of failure persists"""
    t = line.split()
    head, ops = t[:3], t[3:]
    head[2] = "F" + head[2][1:]

    def fails(ops_):
        ln = " ".join(head + ops_)
        h, _, lsan = run_harness_limited(binary, [ln], 1)
        if lsan:
            return True
        for rm in ((False, True) if _RVAL.search(ln) else (False,)):
            w = follow(ln, h[0], spec_line(ln, rm)) if not rm else spec_line(ln, rm)
            ps = [p for p in classify(ln, h[0], w, w) if p[0] == "prop"]
            if not any(p[1] == key or key.startswith("crash") and p[1].startswith("crash") for p in ps):
                return False
        return True

    if not fails(ops):
        return line, None
    changed = True
    budget = 8 if key == "crash:timeout" else 60
    while changed and budget > 0:
        changed = False
        for i in range(len(ops) - 1, -1, -1):
            cand = ops[:i] + ops[i + 1:]
            budget -= 1
            if cand and fails(cand):
                ops = cand
                changed = True
            if budget <= 0:
                break
    ln = " ".join(head + ops)
    h, _, _ = run_harness_limited(binary, [ln], 1)
    return ln, h[0]


def find_context(binary, before, line, key):
    """smallest suffix of the sequences that preceded `line` in its process after which it fails the same way"""
    want = spec_line(line)
    k = 1
    while before and k <= 2 * len(before):
        pre = before[-k:]
        outs, _, _ = run_harness_limited(binary, pre + [line], 1)
        h = outs[-1] if len(outs) == len(pre) + 1 else None
        if h is not None and any(p[0] == "prop" and (p[1] == key or key.startswith("crash") and p[1].startswith("crash"))
                                 for p in classify(line, h, want, want)):
            return pre
        if k >= len(before):
            break
        k *= 2
    return []


def run(ctx):
    ctx.proof_stage()
    BIN = {"asan": vlib.build_harness("h_any"), "plain": build_plain()}
    workers = max(1, min(8, vlib.NPROC // 2))
    hist = {}
    acc = {"prop_bad": [], "corr_bad": [], "mech": [], "ran": 0, "notrun": 0, "ops": 0, "style": {}, "distinct": set(),
           "nontrivial": set(), "samples": [], "tgen": 0.0, "trun": 0.0, "skipped_blocks": [], "runs": {}}

    def process(block_name, cases, builds=("asan", "plain")):
        """cases: list of (line, expected masked output, style); run on every build in `builds`, compare, account, forget"""
        if not cases:
            return
        if acc["prop_bad"] or acc["corr_bad"]:
            acc["skipped_blocks"].append("%s (%d cases)" % (block_name, len(cases)))
            return
        t1 = time.time()
        lines = [c[0] for c in cases]
        res, dout = run_both({k: BIN[k] for k in builds}, lines, workers)
        # the value-semantic specification written in Lean (specStepX on the abstract pool, driver entry `anyspec`) on the
        # same lines (every line of a small block, every 5th of a large one): what it prints must be what the heap model prints
        step_ = 1 if len(lines) <= 20000 else 5
        sub = list(range(0, len(lines), step_))
        t2 = time.time()
        sout = vlib.run_driver(["anyspec" + lines[i][6:] for i in sub])
        acc["tspec"] = acc.get("tspec", 0.0) + time.time() - t2
        for i, so in zip(sub, sout):
            acc["leanspec"] = acc.get("leanspec", 0) + 1
            if mask(so) != mask(dout[i]):
                st_, dt_ = mask(so).split(), mask(dout[i]).split()
                j = next((x for x in range(min(len(st_), len(dt_))) if st_[x] != dt_[x]), min(len(st_), len(dt_)))
                acc["corr_bad"].append(("lean-spec-vs-model", "token %d: Lean specification %s, Lean heap model %s" % (
                    j, st_[j] if j < len(st_) else "-", dt_[j] if j < len(dt_) else "-"), lines[i], so, dout[i], cases[i][1], "", "asan", []))
        acc["trun"] += time.time() - t1
        acc["samples"].append(lines[len(lines) // 2])
        for b in builds:
            compare(b, b == builds[0], cases, lines, dout, *res[b])

    def compare(build, first, cases, lines, dout, hout, logs, lsan):
        flagged = False
        for idx, ((line, want, style), h, d) in enumerate(zip(cases, hout, dout)):
            if h is None:
                acc["notrun"] += 1
                continue
            acc["runs"][build] = acc["runs"].get(build, 0) + 1
            if not first:
                if h == d and mask(h) == want:
                    continue
                if mask(h) == mask(d) == want:
                    continue
                if _RVAL.search(line) and not h.startswith("crash") and mask(h) == spec_line(line, rmove=True):
                    continue
                if _FAULT.search(line) and not h.startswith("crash") and mask(h) == spec_follow(line, h):
                    continue
                for kind, key, what in classify(line, h, d, follow(line, h, want)):
                    key = key + "@" + build
                    what = "[%s build] %s" % (build, what)
                    (acc["prop_bad"] if kind == "prop" else acc["corr_bad"]).append(
                        (key, what, line, h, d, want, logs.get(idx, ""), build, lines[max(0, idx - 64):idx]))
                continue
            acc["ran"] += 1
            acc["style"][style] = acc["style"].get(style, 0) + 1
            hl = hash(line)
            acc["distinct"].add(hl)
            ops = line.split()[3:]
            acc["ops"] += len(ops)
            # non-trivial: at least two operations, one of which (after the first) is not a construction
            if len(ops) >= 2 and any(o.lstrip("!~")[:2] in ("ca", "aa", "av", "sw", "rs", "pk", "pr", "vc", "ds", "pc") for o in ops[1:]):
                acc["nontrivial"].add(hl)
            if h == d and mask(h) == want:
                continue
            if mask(h) == mask(d) == want:
                acc["mech"].append((line, h, d))
                continue
            if _RVAL.search(line) and not h.startswith("crash") and mask(h) == spec_line(line, rmove=True):
                acc["mech"].append((line, h, d))      # the rvalue value cast moves the held object out: allowed
                continue
            if _FAULT.search(line) and not h.startswith("crash") and mask(h) == spec_follow(line, h):
                acc["mech"].append((line, h, d))      # another armed operation threw than in the model: not promised
                continue
            for kind, key, what in classify(line, h, d, follow(line, h, want)):
                if build != "asan":
                    key, what = key + "@" + build, "[%s build] %s" % (build, what)
                (acc["prop_bad"] if kind == "prop" else acc["corr_bad"]).append(
                    (key, what, line, h, d, want, logs.get(idx, ""), build, lines[max(0, idx - 64):idx]))
                flagged = flagged or kind == "prop"
        if lsan and not flagged:
            k = max(logs) if logs else 0
            acc["prop_bad"].append(("crash:lsan", "LeakSanitizer reported a leak at process exit although every sequence balanced its allocations",
                                    lines[min(k, len(lines) - 1)], "crash:lsan", "", "", logs.get(k, ""), build, []))

    def enum_block(name, maxlen, tags, full, minlen=1, builds=("asan", "plain"), armed=False):
        t1 = time.time()
        seqs = enumerate_seqs(maxlen, tags, full, hist, minlen, armed)
        acc["tgen"] += time.time() - t1
        n = len(seqs)
        process(name, [(l, w, name) for l, w in seqs], builds)
        return n

    def random_block(g, first, count, tags=TAGS, churn=False, name="random"):
        t1 = time.time()
        cases = []
        for i in range(count):
            ln = random_seq(g, first + i, 40, hist, tags, churn)
            cases.append((ln, spec_line(ln), name))
        acc["tgen"] += time.time() - t1
        process(name, cases)

    corpus, rules, n_full2, nrand_a, nrand_b = [], [], 0, 0, 0
    if ctx.replay:
        # re-run the operation sequence recorded in a replay file
        import json
        rp = json.load(open(ctx.replay)).get("replay", {})
        rlines = rp.get("input_lines") or ([rp["input_line"]] if rp.get("input_line") else [])
        for line in rlines:
            sp = Spec()
            for tok in line.split()[3:]:
                sp.apply(tok, hist)
        process("replay", [(line, spec_line(line), "replay") for line in rlines])
        rules.append("replay of %s" % ctx.replay)
    else:
        # ---- first: corpus, full alphabet to length 2, reduced alphabet to length 3, some random sequences
        corpus = []
        cp = vlib.VERIF / "corpus" / "C20" / "cases.txt"
        if cp.exists():
            corpus = [ln.strip() for ln in cp.read_text().split("\n") if ln.strip() and not ln.startswith("#")]
        for ln in corpus:
            sp = Spec()
            for tok in ln.split()[3:]:
                sp.apply(tok, hist)
        process("corpus", [(ln, spec_line(ln), "corpus") for ln in corpus])
        others = ["s", "m", "i", "d"]
        rot = others[ctx.seed % 4:] + others[:ctx.seed % 4]
        n_full2 = enum_block("full-alphabet<=2", 2, TAGS, True)
        n_red3 = enum_block("reduced<=3[p,%s]" % rot[0], 3, ["p", rot[0]], False)
        g = ctx.gen("any")
        nrand_a = 60
        random_block(g, 0, nrand_a)

        # ---- then the large enumerations (skipped once a failure is known: the replay is already concrete)
        rules = []
        companions = rot
        n4 = 0
        for o in companions:
            # the probe shares its malloc size class with int and double only: the unsanitized run adds nothing for string / matrix here
            bl = ("asan", "plain") if o in ("i", "d") else ("asan",)
            if o != rot[0]:
                enum_block("reduced<=3[p,%s]" % o, 3, ["p", o], False, builds=bl)
            if ctx.quick() and o not in rot[:2]:
                continue        # quick: length 4 for two companion types (rotating with the seed), thorough: all four
            n4 += enum_block("reduced=4[p,%s]" % o, 4, ["p", o], False, minlen=4, builds=bl)
        rules.append("reduced alphabet, for each companion type T in {%s}, held types {probe,T}: all %d sequences of length 1..3; of length 4 for T in {%s}: "
                     "%d in total" % (", ".join(TAG_NAME[o] for o in companions), n_red3,
                                      ", ".join(TAG_NAME[o] for o in (rot[:2] if ctx.quick() else rot)), n4))
        # exceptions: the throwing probe (alone and with the counting probe), every copying operation also armed
        n_thr = enum_block("throwing<=3[t,p]", 3, ["t", "p"], False, builds=("asan",), armed=True)
        n_thr += enum_block("throwing=4[t]", 4, ["t"], False, minlen=4, builds=("asan",), armed=True) if not ctx.quick() else 0
        rules.append("exceptions: reduced alphabet over held types {throwing probe, probe} in which every operation that may copy a held object "
                     "(construction / assignment from a container or a value, value casts) also occurs armed (`!op`: the next copy construction of "
                     "the throwing probe throws): all %d sequences of length 1..3%s; a throwing operation must change nothing (strong guarantee of "
                     "copy-and-swap, no half-constructed container) and leak nothing" % (n_thr, "" if ctx.quick() else " and of length 4 over {throwing probe}"))
        random_block(ctx.gen("any-throw"), 0, 150 if ctx.quick() else 2000, ["t", "p", "s"], None, "random-throwing[t,p,s]")
        # allocation failure: std::string (whose copy allocates a buffer after the holder storage was obtained) and the probe
        n_mem = enum_block("nomem<=3[s,p]", 3, ["s", "p"], False, builds=("asan", "plain"), armed="nomem")
        rules.append("allocation failure: reduced alphabet over held types {string, probe} in which every operation that may call operator new "
                     "also occurs with its first (`~op`: the storage of the holder; for value casts the buffer of the returned copy) and its second "
                     "(`~~op`: the buffer of the held string copy, after the holder storage was obtained) call throwing std::bad_alloc: all %d "
                     "sequences of length 1..3; a failing operation must throw, change nothing and leak nothing" % n_mem)
        # ---- held types of every size class, with and without a noexcept move constructor, with a throwing copy constructor:
        # the same reduced enumeration for every member of the sized probe family (the model does not depend on the member)
        t1 = time.time()
        base = enumerate_seqs(3, ["p", "t"], False, hist)
        acc["tgen"] += time.time() - t1
        n_sized = 0
        members = SIZED if not ctx.quick() else SIZED      # every member in every run
        cases = []
        for mb in members:
            cases += [(with_member(l, mb), w, "sized<=3[p,t]") for l, w in base]
        n_sized = len(cases)
        process("sized<=3[p,t]", cases, ("asan", "plain"))
        gs = ctx.gen("any-sized")
        cases = []
        per = 6 if ctx.quick() else 60
        for mi, mb in enumerate(members):
            for i in range(per):
                ln = random_seq(gs, mi * per + i, 40, hist, ["t", "p", "s", "i"], None, member=mb)
                cases.append((ln, spec_line(ln), "random-sized"))
        process("random-sized", cases)
        rules.append("held types of every size class: for each of the %d members of a family of instance-counted probes of exactly 1, 4, 8, 9, 16, 17, "
                     "24, 25, 32, 33, 40, 48, 56, 57, 64 bytes (alignment 1; 16 and 32 bytes with alignment 16; 24 bytes with alignment 8), each with a "
                     "noexcept and with a potentially throwing move constructor, each with a variant whose copy constructor throws on demand: all %d "
                     "reduced-alphabet sequences of length 1..3 over the two variants (%d cases) and %d random sequences of length <= 40 with armed "
                     "operations" % (len(members), len(base), n_sized, per * len(members)))
        # ---- every pair of operations on two containers, both observed after each
        comp = (["t"] + others)[ctx.seed % 5] if ctx.quick() else None
        n_pairs = 0
        for o in ([comp] if comp else ["t"] + others):
            t1 = time.time()
            ps = pair_seqs(["p", o], hist)
            acc["tgen"] += time.time() - t1
            n_pairs += len(ps)
            process("pairs[p,%s]" % o, [(l, w, "pairs") for l, w in ps], ("asan", "plain") if o in ("i", "d", "t") else ("asan",))
        rules.append("pairs: two containers in each of the 10 unordered combinations of start states {empty, holding a probe, holding a %s, holding a "
                     "probe whose value was moved out} (third slot destroyed), then every pair of operations of the full alphabet over these two held "
                     "types, all slots viewed after every operation: %d sequences" % ("T (T = throwing probe, string, matrix, int, double in turn)" if not comp else TAG_NAME[comp], n_pairs))
        # address reuse: held types of one allocation size class (holder<int|double|probe>: 16 bytes,
        # holder<string|MatrixXd>: 40 / 32 bytes, one malloc bin each), so that a new holder of another type
        # lands on the block of a destroyed one.  Only meaningful without ASan's quarantine.
        n_reuse = 0
        for cls in (["i", "d"], ["s", "m"]):
            n_reuse += enum_block("reuse<=4[%s]" % ",".join(cls), 4, cls, False, builds=("plain",))
        rules.append("address reuse, on the build without sanitizers only: reduced alphabet over held types {int,double} and over "
                     "{string,matrix} (same malloc size class; the pairs with the probe are in the blocks above): all %d sequences of length 1..4" % n_reuse)
        nchurn = 150 if ctx.quick() else 2000
        gc = ctx.gen("any-churn")
        random_block(gc, 0, nchurn, ["i", "d", "p"], True, "random-churn[i,d,p]")
        random_block(gc, nchurn, nchurn, ["s", "m"], True, "random-churn[s,m]")
        rules.append("%d seeded random sequences per size class that mostly replace / reset / destroy / re-create contents and cast" % nchurn)
        if ctx.quick():
            nrand_b = 340
        else:
            n5 = enum_block("reduced=5[p]", 5, ["p"], False, minlen=5)
            rules.append("reduced alphabet, held type {probe}: all %d sequences of length 5" % n5)
            n3f = enum_block("full-alphabet=3", 3, TAGS, True, minlen=3)
            rules.append("full alphabet: all %d sequences of length 3" % n3f)
            nrand_b = 6000
        random_block(g, nrand_a, nrand_b)

    prop_bad, corr_bad, mech = acc["prop_bad"], acc["corr_bad"], acc["mech"]
    if acc["skipped_blocks"]:
        ctx.notes.append("a failure was found in an earlier block; not run: " + "; ".join(acc["skipped_blocks"]))

    # ---- decision: property failures carry a concrete (shrunk) operation sequence
    seen = set()
    for key, what, line, h, d, want, log, build, before in prop_bad:
        if key in seen or len(seen) >= 6:
            continue
        seen.add(key)
        basekey = key.split("@")[0]
        sline, sh = shrink(BIN[build], line, basekey)
        data = {"harness": "h_any", "build": build}
        if sh is None:
            # does not fail when run alone in a fresh process: the failure depends on process state left by the
            # sequences run before it (heap layout, caches inside the library): record those too
            sline, sh = line, h
            pre = find_context(BIN[build], before, line, basekey)
            if pre:
                data["input_lines"] = pre + [line]
                what += " (only after the %d preceding sequences of the same process, recorded in the replay)" % len(pre)
        else:
            again = [p for p in classify(sline, sh, follow(sline, sh, spec_line(sline)), follow(sline, sh, spec_line(sline))) if p[0] == "prop"]
            if again:
                what = ("[%s build] " % build if build != "asan" else "") + again[0][2]
        data.update({"input_line": sline, "observed": sh[:3000], "expected": spec_line(sline)[:3000],
                     "found_as": line[:600], "sanitizer_log": log[-1500:]})
        ctx.violation(key, "any: %s — sequence: %s" % (what, " ".join(sline.split()[3:])[:300]), data)
    if corr_bad and not prop_bad:
        key, what, line, h, d, want, log, build, before = corr_bad[0]
        ctx.violation("correspondence:" + key,
                      "model and implementation disagree (%d cases) while every specification predicate holds: %s" % (len(corr_bad), what),
                      {"harness": "h_any", "correspondence": "BFL.AnyBox.step vs bfl::any::any", "input_line": line,
                       "observed": h[:3000], "model": d[:3000]}, no_input=True)

    complete = not acc["notrun"] and not acc["skipped_blocks"] and not ctx.replay
    ctx.coverage.update({
        "evaluations": acc["ran"], "distinct_nontrivial": len(acc["nontrivial"]), "distinct": len(acc["distinct"]),
        "operations_executed": acc["ops"],
        "exhaustive": bool(complete),
        "rule": "operation sequences on a pool of %d containers, every sequence started from the all-destroyed pool and ended by destroying "
                "all containers (live probe count 0, net allocations 0). Every case runs on two builds of the same harness: ASan+UBSan+LSan, and "
                "no sanitizer at all (glibc malloc reuses freed blocks at once, which ASan's quarantine prevents: address-reuse defects); the same "
                "predicates are evaluated on both, a crash on either is a violation. Exhaustive parts: (1) full alphabet (every slot, "
                "argument categories T&/const T&/T&&/const T&&, member and free swap, the four value-cast forms, pointer casts with mutable/const/"
                "null operand, mutation through the pointer form and through the reference form any_cast<T&>, all five held types): all %d sequences of valid operations of length 1..2; "
                "(2) %s. Reduced alphabet = constructions only into the lowest destroyed slot (destroyed slots carry no state), categories const T&/T&& "
                "for containers and T&/T&& for values, member swap with a<=b, casts any_cast<T>(any&) and any_cast<T&&>(any&&), poke, reset, destroy; "
                "only operations valid in the current liveness state are enumerated; each enumerated sequence is its own case (results and probe "
                "count after every operation, full view of all slots after the last one; its prefixes are cases of their own). Sampled part: %d "
                "seeded random sequences of length 1..40 over the full alphabet incl. 3%% operations on destroyed / out-of-pool slots, view of all "
                "slots after every operation; plus %d corpus histories. non-trivial = at least two operations with a non-construction operation "
                "after the first; distinct = distinct case lines (hashed)"
                % (POOL, n_full2, "; ".join(rules), nrand_a + nrand_b, len(corpus)),
        "samples": acc["samples"][:8],
        "style_histogram": acc["style"], "branch_histogram": dict(sorted(hist.items())),
        "traces_validated_against_impl": acc["ran"],
        "runs_per_build": acc["runs"],
        "cases_not_run_after_crash_limit": acc["notrun"],
        "model_vs_impl_disagreements": len(corr_bad), "property_failures_on_impl": len(prop_bad),
        "sanitizer_crashes": sum(1 for p in prop_bad if p[0].startswith("crash")),
        "generation_s": round(acc["tgen"], 2), "harness_and_driver_s": round(acc["trun"], 2),
        "mechanism_only_differences": len(mech),
        "lean_spec_lines_compared_with_model": acc.get("leanspec", 0), "lean_spec_driver_s": round(acc.get("tspec", 0.0), 2),
    })
    if mech:
        line, h, d = mech[0]
        ht, dt = h.split(), d.split()
        j = next((i for i in range(min(len(ht), len(dt))) if ht[i] != dt[i]), 0)
        ctx.notes.append("not an alarm: on %d cases implementation and model differ only in the number of copy/move constructions of held objects "
                         "or in the state of the caller's own value object after the call (mechanism the property does not promise); first: %s — "
                         "token %d implementation %s model %s" % (len(mech), line[:300], j, ht[j], dt[j]))
    ctx.assumptions += [
        "moved-from state of std::string (empty), Eigen::MatrixXd (0x0) and of the probe (id -1) as produced by libstdc++ / Eigen 3.4 / the harness",
        "operations on destroyed containers are undefined behaviour and are not executed on the implementation (both sides print inv)",
        "a copy of a std::string of the pool (70 characters) calls operator new exactly once, a copy of an empty (moved-from) string, of an "
        "Eigen matrix (malloc) and of the probes never: libstdc++ / Eigen as installed; the harness replaces the global operator new",
    ]
