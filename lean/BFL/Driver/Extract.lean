import BFL.Driver.Proto
import BFL.Model.History
import BFL.Model.HistorySpec
import BFL.Model.Extract
/-
Driver entries for C17 (estimate extraction and its history buffer).

  hb <dim> <nops> {op}        buffer-only state machine on `HistBuf (List String)` (elements are opaque tokens)
       op :=  A tok×dim | S <unsigned> | D | I | C | G | K | Q | QS (self move-assignment) | T   (two slots as for `ee`)
     -> per op, separated by `|`:  `<tag> <flag> <window>`   and for G: `G <cols> tok…` (newest first)

  ee <lin> <circ> <ncalls> {call}    the `EstimatesExtraction` state machine over `Float`
       call := M <0..11> | W <int> | C | V | K (move-construct the other object from the current one)
             | Q (move-assign the current object to the other one) | T (switch to the other object)
             | X <N> particles(cm, (lin+circ)×N) weights(N)
             | Y <N> <K> particles weights(N) prev_weights(K) likelihoods(N) transition(cm, N×K)
     -> per call, separated by `|`:  `<tag> <flag> <window> <method> [est…] [t:… branch tags] [v:… map values] s:ok|s:BAD`
        (window and method of the current object after the call)

  hbs <dim> <nops> {op}       the same operation sequences on the SPECIFICATION `HistSpec` (append-only log + counter;
                              `BFL.C17.buffer_refines_spec`): same output format, flags always 1

  eew <k>                     the three weight vectors for history length k (Float), for the weight oracle
-/
namespace BFL.DriverExtract
open BFL BFL.Proto BFL.Extract

instance instNatCastFloat : NatCast Float := ⟨Float.ofNat⟩

/-- `std::numeric_limits<double>::min()` -/
def dblMin : Float := Float.ofBits 0x0010000000000000

def int : R Int := do
  let t ← tok
  match t.toInt? with
  | some n => pure n
  | none => failure

/-! ### buffer only -/

def hbOps (dim : Nat) : Nat → R (List (String × Option (HistBuf.Op (List String))))
  | 0 => pure []
  | n + 1 => do
    let t ← tok
    let op ← match t with
      | "A" => do let x ← listOf dim tok; pure (some (HistBuf.Op.add x))
      | "S" => do let w ← nat; pure (some (HistBuf.Op.set w))
      | "D" => pure (some HistBuf.Op.dec)
      | "I" => pure (some HistBuf.Op.inc)
      | "C" => pure (some HistBuf.Op.clear)
      | "G" | "T" | "K" | "Q" | "QS" => pure none
      | _ => failure
    let rest ← hbOps dim n
    pure ((t, op) :: rest)

def hbFlag (h : HistBuf (List String)) : HistBuf.Op (List String) → Bool
  | .add _ => true
  | .set w => (h.setWindow w).2
  | .dec => h.decrease.2
  | .inc => h.increase.2
  | .clear => h.clear.2

def hb : R String := do
  let dim ← nat; let n ← nat
  let ops ← hbOps dim n
  done
  let mut p : HistBuf.Pair (List String) := ⟨HistBuf.init, HistBuf.init⟩
  let mut cur : Bool := false
  let mut outs : Array String := #[]
  for (t, op) in ops do
    match op with
    | none =>
      if t == "G" then
        let h := p.get cur
        outs := outs.push (join (["G", toString h.items.length] ++ h.items.flatten))
      else
        if t == "T" then cur := !cur
        else if t == "K" then p := HistBuf.step2 p (.moveCtor cur)
        else if t == "Q" then p := HistBuf.step2 p (.moveAssign cur (!cur))
        else p := HistBuf.step2 p (.moveAssign cur cur)
        outs := outs.push (join [t, "1", toString (p.get cur).window])
    | some o =>
      let f := hbFlag (p.get cur) o
      p := HistBuf.step2 p (.on cur o)
      outs := outs.push (join [t, if f then "1" else "0", toString (p.get cur).window])
  pure (" | ".intercalate outs.toList)

/-- the specification machine `HistSpec` on the same operation sequences -/
def hbs : R String := do
  let dim ← nat; let n ← nat
  let ops ← hbOps dim n
  done
  let mut p : HistSpec.Pair (List String) := ⟨HistSpec.init, HistSpec.init⟩
  let mut cur : Bool := false
  let mut outs : Array String := #[]
  for (t, op) in ops do
    match op with
    | none =>
      if t == "G" then
        let v := (p.get cur).view
        outs := outs.push (join (["G", toString v.length] ++ v.flatten))
      else
        if t == "T" then cur := !cur
        else if t == "K" then p := HistSpec.step2 p (.moveCtor cur)
        else if t == "Q" then p := HistSpec.step2 p (.moveAssign cur (!cur))
        else p := HistSpec.step2 p (.moveAssign cur cur)
        outs := outs.push (join [t, "1", toString (p.get cur).window])
    | some o =>
      p := HistSpec.step2 p (.on cur o)
      outs := outs.push (join [t, "1", toString (p.get cur).window])
  pure (" | ".intercalate outs.toList)

/-! ### EstimatesExtraction -/

def methodOfNat : Nat → Option Method
  | 0 => some .mean | 1 => some .smean | 2 => some .wmean | 3 => some .emean
  | 4 => some .mode | 5 => some .smode | 6 => some .wmode | 7 => some .emode
  | 8 => some .map | 9 => some .smap | 10 => some .wmap | 11 => some .emap
  | _ => none

def natOfMethod : Method → Nat
  | .mean => 0 | .smean => 1 | .wmean => 2 | .emean => 3
  | .mode => 4 | .smode => 5 | .wmode => 6 | .emode => 7
  | .map => 8 | .smap => 9 | .wmap => 10 | .emap => 11

/-- columns of a column-major token block -/
def colsCM (r c : Nat) : R (List (List Float)) := listOf c (listOf r flt)

def readCall1 (lin circ : Nat) (t : String) : R (Call Float) := do
  match t with
  | "M" => do
    let k ← nat
    match methodOfNat k with
    | some m => pure (.setMethod m)
    | none => failure
  | "W" => do let n ← int; pure (.setWindow n)
  | "C" => pure .clear
  | "V" => pure .move
  | "X" => do
    let n ← nat
    let ps ← colsCM (lin + circ) n
    let ws ← listOf n flt
    pure (.extract2 { ps := ps, ws := ws })
  | "Y" => do
    let n ← nat; let k ← nat
    let ps ← colsCM (lin + circ) n
    let ws ← listOf n flt
    let pw ← listOf k flt
    let lik ← listOf n flt
    let tpCols ← colsCM n k
    -- rows of the transition matrix
    let tp := (List.range n).map fun i => tpCols.map fun col => col.getD i 0
    pure (.extract5 { ps := ps, ws := ws, pw := pw, lik := lik, tp := tp })
  | _ => failure

def readCall (lin circ : Nat) : R (String × PoolCall Float) := do
  let t ← tok
  match t with
  | "K" => pure (t, .moveCtor)
  | "Q" => pure (t, .moveAssign)
  | "T" => pure (t, .toggle)
  | _ => do
    let c ← readCall1 lin circ t
    pure (t, .call c)

def readCalls (lin circ : Nat) : Nat → R (List (String × PoolCall Float))
  | 0 => pure []
  | n + 1 => do
    let c ← readCall lin circ
    let rest ← readCalls lin circ n
    pure (c :: rest)
/-- branch tags of a call in a state (for the coverage histogram of the check) -/
def tags (s : EE Float) (c : Call Float) : List String :=
  let ex (a : Args Float) (five : Bool) : List String :=
    let st := s.method.stat
    let fam := s.method.fam
    let stS := match st with | .mean => "mean" | .mode => "mode" | .map => "map"
    let famS := match fam with | none => "plain" | some .simple => "simple" | some .weighted => "weighted" | some .exponential => "exponential"
    let unavailable := (!five) && st == .map
    let pushes := !unavailable && fam.isSome
    let hl := s.hist.items.length
    let full := pushes && hl + 1 > s.hist.window
    let k := if full then hl else hl + 1
    let recomputed := match fam with
      | some f => pushes && (s.cached f).length != k
      | none => false
    let oneCol := (pushes && k == 1 && s.circ > 0) || (st == .mean && !unavailable && a.ps.length == 1 && s.circ > 0)
    ["t:" ++ (if five then "x5" else "x2") ++ ":" ++ stS ++ ":" ++ famS] ++
    (if unavailable then ["t:unavailable"] else []) ++
    (if pushes then [if full then "t:push-full" else "t:push-room"] else []) ++
    (if pushes then [if recomputed then "t:weights-recomputed" else "t:weights-cached"] else []) ++
    (if oneCol then ["t:one-column-shortcut"] else []) ++
    (if s.lin == 0 then ["t:lin0"] else []) ++ (if s.circ == 0 then ["t:circ0"] else [])
  match c with
  | .extract2 a => ex a false
  | .extract5 a => ex a true
  | .setWindow n =>
    if n ≤ 0 then ["t:win-rejected"]
    else if n.toNat = s.hist.window then ["t:win-same"]
    else
      let tmp := HistBuf.clampWindow n.toNat
      [if n.toNat < 2 then "t:win-clamp-low" else if n.toNat ≥ 30 then "t:win-clamp-high" else "t:win-plain"] ++
      [if tmp < s.hist.window ∧ tmp < s.hist.items.length then "t:win-shrinks-content" else "t:win-keeps-content"]
  | _ => []

def mapVals (c : Call Float) (s : EE Float) : List String :=
  match c with
  | .extract5 a =>
    if s.method.stat == .map then (mapValues dblMin a.pw a.lik a.tp).map fun v => "v:" ++ floatStr v else []
  | _ => []

/-- does the history buffer of an object show what its specification state shows? (bit patterns compared) -/
def sameHist (h : HistBuf (List Float)) (s : HistSpec (List Float)) : Bool :=
  h.window == s.window && (h.items.map fun c => c.map floatStr) == (s.view.map fun c => c.map floatStr)

def ee : R String := do
  let lin ← nat; let circ ← nat; let n ← nat
  let calls ← readCalls lin circ n
  done
  let mut p : Pool Float := Pool.init lin circ
  -- the specification pair (append-only logs + counters), driven by the translated operations `poolBufOp`
  -- (theorem `ee_pool_history_refines_spec`): token `s:ok` when both objects show what it shows
  let mut sp : HistSpec.Pair (List Float) := ⟨HistSpec.init, HistSpec.init⟩
  let mut outs : Array String := #[]
  for (t, pc) in calls do
    let s := p.get p.cur
    sp := (poolBufOp dblMin p pc).foldl HistSpec.step2 sp
    let (tg, mv) := match pc with
      | .call c => (tags s c, mapVals c s)
      | _ => (["t:hand-over:" ++ t], [])
    let r := poolStep dblMin p pc
    p := r.1
    let s' := p.get p.cur
    let est := match r.2.est with
      | some e => e.map floatStr
      | none => []
    let specOk := sameHist (p.get false).hist (sp.get false) && sameHist (p.get true).hist (sp.get true)
    outs := outs.push (join ([t, if r.2.flag then "1" else "0", toString s'.hist.window, toString (natOfMethod s'.method)] ++ est ++ tg ++ mv
      ++ [if specOk then "s:ok" else "s:BAD"]))
  pure (" | ".intercalate outs.toList)

def eew : R String := do
  let k ← nat
  done
  let sm : List Float := smWeights k
  let wm : List Float := wmWeights k
  let em : List Float := emWeights k
  pure (join (["ok"] ++ sm.map floatStr ++ wm.map floatStr ++ em.map floatStr))

def handle (op : String) (args : List String) : Option String :=
  match op with
  | "hb" => some ((run hb args).getD "bad-args")
  | "hbs" => some ((run hbs args).getD "bad-args")
  | "ee" => some ((run ee args).getD "bad-args")
  | "eew" => some ((run eew args).getD "bad-args")
  | _ => none

end BFL.DriverExtract
