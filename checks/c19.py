"""C19 — Directional statistics respect the circle.

Stages: proof (lean/BFL/Props/C19.lean), tie (Float execution of the model `dirAdd/dirSub/dirMean`
against bfl::directional_statistics::* of the library rebuilt from the current tree), oracles on the
implementation's outputs that do not use the model:
  * add/sub: value in (-pi, pi]; (value - (a +- b)) / (2 pi) is an integer (exact rational
    arithmetic on the inputs, pi to 60 digits); shift invariance by running the real function on a
    sibling case whose arguments are shifted by multiples of 2 pi;
  * mean: value in (-pi, pi]; value = atan2 of the weighted resultant computed here with fsum;
    shift invariance / common rotation by running the real function on sibling cases; constant
    samples; samples clustered in an arc shorter than a half turn.
Tolerances scale with eps*|theta| (a double angle theta carries an absolute uncertainty eps*|theta|,
which any correct implementation may turn into an error of that size) and, for the mean, with
sum|w| / (resultant length) (conditioning of the argument of a sum).
"""
import json
import math
from fractions import Fraction

import vlib
from vlib import hexd, unhex

EPS = 2.0 ** -52
PI = Fraction("3.14159265358979323846264338327950288419716939937510582097494459")
TWO_PI = 2 * PI
PI_D = math.pi                       # fl(pi) < pi: the largest value atan2 returns
SHORTCUT_KEY = "directional_mean:one-column-shortcut-unwrapped"

ROWS = [1, 2, 3, 4]
COLS = [1, 2, 3, 4, 5, 6]
# wide matrices (SIMD / unrolling boundaries), each crossed with a few styles per run
WIDE_SHAPES = [(1, 16), (2, 17), (3, 15), (4, 32), (5, 33), (6, 31), (7, 40), (8, 8), (8, 40), (5, 7), (8, 1), (6, 2), (7, 3), (1, 40), (2, 24)]
# long sample sets (chunked / blocked accumulation boundaries: every power of two up to 1024, multiples of 256, and
# their neighbours): all of them in every run, two styles each
LONG_SHAPES = [(1, 63), (2, 64), (1, 65), (1, 96), (1, 127), (2, 128), (1, 129), (1, 192), (1, 255), (2, 256), (1, 256), (1, 257),
               (1, 384), (1, 511), (1, 512), (1, 513), (1, 768), (1, 1023), (1, 1024), (1, 1025)]
# class v (static / thread-local scratch keyed on the element count, grow-only workspaces): call sequences IN ONE PROCESS whose shapes
# are non-monotone — more rows with no more elements (2x100 then 5x11), fewer rows and more columns with fewer elements, the same
# element count in different layouts, a return to an earlier shape; every function, plain and block ("B") variants
SEQUENCES = [[(2, 100), (5, 11)], [(1, 300), (8, 9)], [(6, 20), (2, 50)], [(2, 64), (4, 32), (8, 16), (16, 8), (2, 64)],
             [(8, 33), (3, 5), (8, 33)], [(3, 40), (7, 3), (1, 2), (9, 13)], [(12, 2), (2, 12), (24, 1), (1, 24), (5, 4)]]
# empty operands (class x): a correct implementation returns an empty result; UBSan noise from Eigen's own headers is not a failure
EMPTY_SHAPES = [(0, 3), (3, 0), (0, 0), (0, 1)]
ROWS_ALL = [1, 2, 3, 4, 5, 6, 7, 8]
COLS_ALL = [1, 2, 3, 4, 5, 6, 7, 8, 12, 15, 16, 17, 24, 31, 32, 33, 40]


def extra_shape(r):
    return (r.choice(ROWS), r.choice(COLS)) if r.random() < 0.7 else (r.choice(ROWS_ALL), r.choice(COLS_ALL))


def dist_mod(x):
    """distance of x (Fraction/float) to the nearest multiple of 2 pi, as float"""
    x = Fraction(x)
    k = round(x / TWO_PI)
    return abs(float(x - k * TWO_PI))


# ------------------------------------------------------------------ generators

def gen_angle(r, style):
    if style == "small":
        return r.uniform(-3.0, 3.0)
    if style == "huge":
        mag = 10 ** r.uniform(0.5, 6.5)           # up to ~ 1e6 * pi
        return r.choice([-1, 1]) * r.uniform(0.1, 1.0) * mag
    if style == "pi-multiple":
        k = r.choice([0, 1, -1, 1, -1, 2, -2, 3, -3, 7, -8, 1000, -1001, 10 ** 6, -10 ** 6 + 1])
        return k * math.pi                         # rounded multiple: sin is +-1e-16-ish, never exactly 0
    if style == "branch":
        base = r.choice([math.pi, -math.pi])
        return base + r.choice([0.0, 1e-15, -1e-15, 4.5e-16, -4.5e-16, 1e-9, -1e-9, 1e-3, -1e-3])
    if style == "dyadic":
        return r.randint(-64, 64) / 8.0
    if style == "tiny":
        return r.choice([0.0, -0.0, 5e-324, -5e-324, 1e-300, -1e-17, 1e-9])
    raise ValueError(style)


ANGLE_STYLES = ["small", "huge", "pi-multiple", "branch", "dyadic", "tiny"]
STYLES = ANGLE_STYLES + ["near-dup", "masked-dup", "mixed"]


def gen_matrix(r, rows, cols, style):
    if style == "near-dup":
        # class d: consecutive columns equal or differing by ~3e-3 (isApprox-equal): exposes "reuse the previous column" shortcuts
        base = r.choice(["small", "huge", "branch"])
        M = []
        for _ in range(rows):
            row = [gen_angle(r, base)]
            for _ in range(cols - 1):
                row.append(row[-1] if r.random() < 0.2 else row[-1] + 3e-3 * r.uniform(-1, 1) * max(1.0, abs(row[-1]) * 1e-3))
            M.append(row)
        return M

    if style == "masked-dup":
        # class o: consecutive COLUMNS equal relative to their norm (isApprox, 1e-12 of the norm) although they differ in a small row:
        # row 0 carries a huge angle repeated bit-identically, the other rows differ from column to column by 1e-10 .. 1e-7 —
        # far above the tolerance of those rows (a few eps), far below 1e-12 * |column|
        if rows == 1:
            return gen_matrix(r, rows, cols, "near-dup")
        big = r.choice([-1, 1]) * 10 ** r.uniform(5.0, 6.4)
        M = [[big] * cols]
        for _ in range(rows - 1):
            row = [r.uniform(-3.0, 3.0)]
            for _ in range(cols - 1):
                row.append(row[-1] + r.choice([-1, 1]) * 10 ** r.uniform(-10.0, -7.0))
            M.append(row)
        if r.random() < 0.5:
            k = r.randrange(rows)
            M[0], M[k] = M[k], M[0]
        return M

    def one():
        s = style if style != "mixed" else r.choice(ANGLE_STYLES)
        return gen_angle(r, s)
    return [[one() for _ in range(cols)] for _ in range(rows)]


VARIANT = {"B": False}


def line_add(op, a, b, cols=None):
    if VARIANT["B"]:
        op = op + "B"
    rows, cols = len(a), (len(a[0]) if a else cols)
    return " ".join([op, str(rows), str(cols)] + vlib.fmt_mat_cm(a) + [hexd(x) for x in b])


def line_mean(a, w):
    rows, cols = len(a), (len(a[0]) if a else len(w))
    return " ".join(["dmeanB" if VARIANT["B"] else "dmean", str(rows), str(cols)] + vlib.fmt_mat_cm(a) + [hexd(x) for x in w])


def shift_value(r, x):
    """x + 2 pi k, rounded to double (the rounding is accounted for exactly by the oracle)"""
    k = r.choice([1, -1, 2, -3, 17, -250, 1000, 12345, -99999])
    return x + 2.0 * math.pi * k


def gen_addsub(g, shapes, n_extra):
    """base cases over all shapes x styles, each followed by a sibling with 2 pi-shifted arguments"""
    r = g.r
    cases = []
    todo = [(rows, cols, st, None, None) for (rows, cols) in shapes for st in STYLES]
    for sh in WIDE_SHAPES:
        for st in r.sample(STYLES, 3):
            todo.append((sh[0], sh[1], st, None, None))
    for sh in LONG_SHAPES:
        todo.append((sh[0], sh[1], r.choice(STYLES), None, None))
    for _ in range(n_extra):
        todo.append(extra_shape(r) + (r.choice(STYLES), None, None))
    for seq in SEQUENCES:
        for fop in ("dadd", "dsub"):
            for fb in (False, True):
                st = r.choice(["small", "huge", "mixed"])
                for sh in seq:
                    todo.append((sh[0], sh[1], st, fop, fb))
    for sh in EMPTY_SHAPES:
        for fop in ("dadd", "dsub"):
            todo.append((sh[0], sh[1], "small", fop, False))
    for rows, cols, st, fop, fb in todo:
        VARIANT["B"] = (r.random() < 0.3) if fb is None else fb
        op = r.choice(["dadd", "dsub"]) if fop is None else fop
        a = gen_matrix(r, rows, cols, st)
        bstyle = r.choice(ANGLE_STYLES + ["mixed"])
        b = [gen_angle(r, bstyle if bstyle != "mixed" else r.choice(ANGLE_STYLES)) for _ in range(rows)]
        if st == "branch" and r.random() < 0.5:
            b = [0.0] * rows                          # the sum is exactly the value at the branch cut
        if st == "pi-multiple" and r.random() < 0.3:
            # sums that are exactly +-fl(pi): a = fl(pi)/2 + fl(pi)/2 etc.
            a = [[r.choice([math.pi / 2, -math.pi / 2]) for _ in range(cols)] for _ in range(rows)]
            b = [r.choice([1, -1]) * math.pi / 2 for _ in range(rows)]
        base = line_add(op, a, b, cols)
        a2 = [[(shift_value(r, x) if r.random() < 0.7 else x) for x in row] for row in a]
        b2 = [(shift_value(r, x) if r.random() < 0.7 else x) for x in b]
        sib = line_add(op, a2, b2, cols)
        meta = {"kind": op, "style": st if fb is None else "sequence:" + st, "shape": "%dx%d" % (rows, cols)}
        cases.append((base, dict(meta, role="base")))
        cases.append((sib, dict(meta, role="shift", of=len(cases) - 1)))
    return cases


def weights(r, cols, wstyle):
    if cols == 1:
        # a positive weight vector with one entry; the property's sets sum to one, other positive values exercise
        # "the weight of a single column is not read"
        return [r.choice([1.0, 1.0, 1.0, 0.5, 2.0])], "single"
    if wstyle == "uniform":
        return [1.0 / cols] * cols, wstyle
    if wstyle == "positive":
        w = [r.uniform(0.02, 1.0) for _ in range(cols)]
        s = math.fsum(w)
        return [x / s for x in w], wstyle
    if wstyle == "scaled":
        # positive, not normalised: 1e-3 .. 1e10 times a normalised vector (the property fixes no normalisation, only the resultant length)
        sc = 10 ** r.uniform(-3, 10)
        w = [r.uniform(0.02, 1.0) for _ in range(cols)]
        s_ = math.fsum(w)
        return [sc * x / s_ for x in w], wstyle
    if wstyle == "ties":
        # class q: admissible but unusual — positive weights with exact coincidences between arbitrary pairs of entries
        # (w(1) == w(N-1), w(0) == w(N-1), w(0) == w(1), a random pair, all equal but one in the middle, equal halves) while the
        # other entries differ: "looks like a sigma-point / uniform weight vector" detections that compare two entries only
        w = [r.uniform(0.02, 1.0) for _ in range(cols)]
        for _ in range(r.choice([1, 1, 2])):
            pat = r.choice(["1,N-1", "0,N-1", "0,1", "pair", "all-but-one", "halves", "1,2"])
            if pat == "1,N-1" and cols >= 3:
                w[cols - 1] = w[1]
            elif pat == "0,N-1":
                w[cols - 1] = w[0]
            elif pat == "0,1":
                w[1] = w[0]
            elif pat == "1,2" and cols >= 3:
                w[2] = w[1]
            elif pat == "all-but-one" and cols >= 3:
                k = r.randrange(1, cols - 1) if cols >= 4 and r.random() < 0.7 else r.randrange(cols)
                w = [w[0] if i != k else w[0] * r.choice([0.25, 3.0]) for i in range(cols)]
            elif pat == "halves":
                h = cols // 2
                w = [w[0]] * h + [w[-1]] * (cols - h)
            else:
                i, j = r.randrange(cols), r.randrange(cols)
                w[j] = w[i]
        if r.random() < 0.7:
            s = 2.0 ** math.floor(math.log2(math.fsum(w)))      # power of two: the coincidences survive the normalisation bit for bit
            w = [x / s for x in w]
        return w, wstyle
    if wstyle == "skewed":
        w = [10 ** r.uniform(-6, 0) for _ in range(cols)]
        s = math.fsum(w)
        return [x / s for x in w], wstyle
    if wstyle in ("unscented", "unscented-scaled") and cols % 2 == 1 and cols >= 3:
        n = (cols - 1) // 2
        if wstyle == "unscented":
            s = r.uniform(0.25, 0.95) * n            # n + lambda in (0, n): central weight negative
        else:
            alpha = r.choice([1e-3, 1e-2, 1e-1])
            s = alpha * alpha * n                     # kappa = 0
        w0 = 1.0 - n / s
        wi = 1.0 / (2.0 * s)
        return [w0] + [wi] * (2 * n), wstyle
    return weights(r, cols, "positive")


def resultant(arow, w):
    C = math.fsum(wk * math.cos(x) for x, wk in zip(arow, w))
    S = math.fsum(wk * math.sin(x) for x, wk in zip(arow, w))
    return C, S


def gen_mean_matrix(r, rows, cols, st, w, wstyle):
    """returns (a, extra_meta); styles const / arc / sigma build structured rows"""
    extra = {}
    if st == "const":
        th = [gen_angle(r, r.choice(ANGLE_STYLES)) for _ in range(rows)]
        a = [[th[i]] * cols for i in range(rows)]
        extra["theta"] = th
    elif st == "arc":
        ms, ds, a = [], [], []
        for i in range(rows):
            m = gen_angle(r, r.choice(["small", "huge", "branch", "pi-multiple"]))
            d = r.choice([1e-6, 0.01, 0.5, 1.0, 1.5, 1.57])
            row = []
            for k in range(cols):
                off = r.choice([-d, d, r.uniform(-d, d), r.uniform(-d, d)])
                x = m + off
                if r.random() < 0.4:
                    x = shift_value(r, x)
                row.append(x)
            ms.append(m); ds.append(d); a.append(row)
        extra["centre"] = ms
        extra["halfwidth"] = ds
    elif st == "sigma":
        # sigma-point layout: centre, centre + s_j, centre - s_j
        n = (cols - 1) // 2
        a = []
        for i in range(rows):
            m = gen_angle(r, r.choice(["small", "huge", "branch"]))
            spread = 1e-3 if wstyle == "unscented-scaled" else 1.0
            s = [spread * r.uniform(0.05, 1.2) for _ in range(n)]
            row = [m] + [m + x for x in s] + [m - x for x in s]
            row += [m] * (cols - len(row))
            a.append(row)
    else:
        a = gen_matrix(r, rows, cols, st)
    return a, extra


def gen_short(r, rows, cols):
    """samples and weights whose weighted resultant has a prescribed small length L, log-uniform over [1.2e-6, 1e-2], and a
    direction phi away from 0 (the argument of a short resultant is ill-conditioned: tolerances scale with sum|w|/L).
    Returns (a, w, wstyle, extra) or None when the shape does not allow it."""
    if cols < 2:
        return None

    def length():
        return math.exp(r.uniform(math.log(1.2e-6), math.log(1e-2)))

    def direction():
        return r.choice([-1, 1]) * r.uniform(0.2, 3.0)

    def maybe_shift(x):
        return x + 2.0 * math.pi * r.choice([0, 0, 0, 1, -1, 2, -3])

    kinds = []
    if cols == 2:
        kinds = ["antipodal-unequal-weights", "nearly-antipodal-equal-weights"]
    else:
        kinds = ["almost-uniform-circle"]
        if cols % 2 == 1:
            kinds += ["cancelling-unscented", "cancelling-unscented"]
    kind = r.choice(kinds)
    a, Ls = [], []
    if kind == "antipodal-unequal-weights":
        L = length()
        w = [(1.0 + L) / 2.0, (1.0 - L) / 2.0]
        if r.random() < 0.5:
            w.reverse()
        for _ in range(rows):
            phi = direction()
            row = [phi, phi + math.pi] if w[0] > w[1] else [phi + math.pi, phi]
            a.append([maybe_shift(x) for x in row]); Ls.append(L)
    elif kind == "nearly-antipodal-equal-weights":
        w = [0.5, 0.5]
        for _ in range(rows):
            L, phi = length(), direction()
            h = math.pi / 2 - math.asin(L)
            a.append([maybe_shift(phi + h), maybe_shift(phi - h)]); Ls.append(L)
    elif kind == "cancelling-unscented":
        n = (cols - 1) // 2
        s = r.uniform(0.25, 0.95) * n                 # n + lambda in (0, n): negative central weight
        w = [1.0 - n / s] + [1.0 / (2.0 * s)] * (2 * n)
        for _ in range(rows):
            L, phi = length(), direction()
            dl = math.acos(1.0 - s * (1.0 - L) / n)    # w0 + (n/s) cos(dl) = L
            a.append([maybe_shift(x) for x in [phi] + [phi + dl] * n + [phi - dl] * n]); Ls.append(L)
    else:
        L, psi = length(), r.uniform(-3.0, 3.0)
        th = [2.0 * math.pi * k / cols for k in range(cols)]
        w = [1.0 / cols + (2.0 * L / cols) * math.cos(t - psi) for t in th]
        for _ in range(rows):
            rho = r.uniform(-3.0, 3.0)
            while abs(math.remainder(psi + rho, 2 * math.pi)) < 0.2:
                rho = r.uniform(-3.0, 3.0)
            a.append([maybe_shift(t + rho) for t in th]); Ls.append(L)
    return a, w, "short:" + kind, {"target_length": Ls}


MEAN_STYLES = STYLES + ["const", "arc", "sigma", "short", "short"]
W_STYLES = ["uniform", "positive", "skewed", "scaled", "ties", "ties", "unscented", "unscented-scaled"]


def gen_mean(g, shapes, n_extra, stats):
    r = g.r
    cases = []
    todo = [(rows, cols, st, None) for (rows, cols) in shapes for st in MEAN_STYLES]
    for sh in WIDE_SHAPES:
        for st in r.sample(MEAN_STYLES[:-1], 4):
            todo.append((sh[0], sh[1], st, None))
    for sh in LONG_SHAPES:
        for st in r.sample(MEAN_STYLES[:-1], 2):
            todo.append((sh[0], sh[1], st, None))
    for _ in range(n_extra):
        todo.append(extra_shape(r) + (r.choice(MEAN_STYLES), None))
    for seq in SEQUENCES:
        for fb in (False, True):
            st = r.choice(["small", "arc", "mixed", "const"])
            for sh in seq:
                if sh[1] >= 2:
                    todo.append((sh[0], sh[1], st, fb))
    todo.append((0, 3, "small", False))                                    # no rows: an empty result
    for rows, cols, st, fb in todo:
        VARIANT["B"] = (r.random() < 0.3) if fb is None else fb
        for attempt in range(50):
            wstyle = r.choice(W_STYLES)
            if st == "arc":
                wstyle = r.choice(["uniform", "positive", "skewed", "ties"])       # positive weights
            if st == "sigma" and cols >= 3 and cols % 2 == 1:
                wstyle = r.choice(["unscented", "unscented-scaled"])
            short = gen_short(r, rows, cols) if st == "short" else None
            if short is not None:
                a, w, wstyle, extra = short
            else:
                w, wstyle = weights(r, cols, wstyle)
                a, extra = gen_mean_matrix(r, rows, cols, "mixed" if st == "short" else st, w, wstyle)
            L = [math.hypot(*resultant(a[i], w)) for i in range(rows)]
            if not L or min(L) >= 1e-6:
                break
            stats["regenerated_small_resultant"] = stats.get("regenerated_small_resultant", 0) + 1
        else:
            continue
        meta = dict({"kind": "dmean", "style": st if fb is None else "sequence:" + st, "wstyle": wstyle, "shape": "%dx%d" % (rows, cols)}, **extra)
        base_idx = len(cases)
        cases.append((line_mean(a, w), dict(meta, role="base")))
        if rows == 0:
            continue
        # sibling 1: 2 pi shifts of some samples
        sh = (lambda x: x + 2.0 * math.pi * r.choice([1, -1, 2, -3, 5])) if st == "short" else (lambda x: shift_value(r, x))
        a2 = [[(sh(x) if r.random() < 0.6 else x) for x in row] for row in a]
        if a2 == a:
            a2[0][0] = shift_value(r, a[0][0])
        cases.append((line_mean(a2, w), dict(meta, role="shift", of=base_idx)))
        if r.random() < 0.35:
            # sibling 1b (`mean_shift_single_sample`): one sample of one row shifted, nothing else
            a2 = [list(row) for row in a]
            i_, k_ = r.randrange(rows), r.randrange(cols)
            a2[i_][k_] = sh(a2[i_][k_])
            cases.append((line_mean(a2, w), dict(meta, role="shift", of=base_idx)))
        if cols >= 2 and r.random() < 0.5:
            # sibling 3 (`mean_perm_invariant`): the (sample, weight) pairs listed in another order
            perm = list(range(cols))
            while perm == list(range(cols)):
                r.shuffle(perm)
            cases.append((line_mean([[row[k] for k in perm] for row in a], [w[k] for k in perm]), dict(meta, role="perm", of=base_idx)))
        if cols >= 2 and r.random() < 0.35:
            # sibling 4 (`mean_scale_invariant`): all weights times a positive factor (a power of two: exact, or arbitrary)
            sc = r.choice([2.0 ** r.randint(-30, 30), 10 ** r.uniform(-6, 6)])
            cases.append((line_mean(a, [sc * x for x in w]), dict(meta, role="scale", of=base_idx)))
        # sibling 2: a common rotation d_i of all samples of row i
        d = [gen_angle(r, r.choice(["small", "dyadic"] if st == "short" else ["small", "huge", "branch", "dyadic"])) for _ in range(rows)]
        a3 = [[x + d[i] for x in a[i]] for i in range(rows)]
        L3 = [math.hypot(*resultant(a3[i], w)) for i in range(rows)]
        if min(L3) >= 1e-6:
            cases.append((line_mean(a3, w), dict(meta, role="rotate", of=base_idx, rot=d)))
    return cases


# ------------------------------------------------------------------ parsing

def parse(line):
    t = line.split()
    op, rows, cols = t[0].rstrip("B"), int(t[1]), int(t[2])       # "B": block / aliasing variant of the same call
    a = vlib.mat_from_cm(t[3:3 + rows * cols], rows, cols, unhex)
    rest = [unhex(x) for x in t[3 + rows * cols:]]
    return op, rows, cols, a, rest


def parse_out(out, n):
    t = out.split()
    if not t or t[0] != "ok":
        return None
    vals = [x for x in t[1:] if len(x) == 16 and all(ch in "0123456789abcdef" for ch in x)]
    if len(vals) != n:
        return None
    return [unhex(x) for x in vals]


def in_range(x):
    return (not math.isnan(x)) and -PI_D <= x <= PI_D


# ------------------------------------------------------------------ oracles

def tol_angle(*mags):
    """absolute tolerance for a wrapped angle computed from doubles of the given magnitudes"""
    return 8 * EPS * sum(abs(m) for m in mags) + 16 * EPS


def check_addsub(idx, cases, hres, dres, stats, problems):
    line, meta = cases[idx][0], cases[idx][1]
    op, rows, cols, a, b = parse(line)
    sgn = 1 if op == "dadd" else -1
    h = hres[idx]
    if h is None:
        problems.append(("prop", op + ":no-result", "%s failed on a valid input: %s" % (op, cases[idx][2][:80]), idx))
        return
    d = dres[idx]
    for j in range(cols):
        for i in range(rows):
            v = h[j * rows + i]
            s = Fraction(a[i][j]) + sgn * Fraction(b[i])
            tol = tol_angle(a[i][j], b[i])
            if math.isnan(v) or math.isinf(v):
                problems.append(("prop", op + ":not-finite", "%s(%r, %r) = %r for finite inputs" % (op, a[i][j], b[i], v), idx))
                continue
            if not in_range(v):
                problems.append(("prop", op + ":out-of-range", "%s(%r, %r) = %r is not in (-pi, pi]" % (op, a[i][j], b[i], v), idx))
                continue
            e = dist_mod(Fraction(v) - s)
            stats["max_err_over_tol_addsub"] = max(stats.get("max_err_over_tol_addsub", 0.0), e / tol)
            if e > tol:
                problems.append(("prop", op + ":not-congruent",
                                 "%s(%r, %r) = %r is not congruent to the ordinary %s modulo 2 pi (off by %.3g, tol %.3g)"
                                 % (op, a[i][j], b[i], v, "sum" if sgn > 0 else "difference", e, tol), idx))
            if d is not None:
                em = dist_mod(Fraction(v) - Fraction(d[j * rows + i]))
                stats["max_model_impl_over_tol_addsub"] = max(stats.get("max_model_impl_over_tol_addsub", 0.0), em / tol)
                if em > tol:
                    problems.append(("corr", op + ":model-vs-impl", "model %r, implementation %r" % (d[j * rows + i], v), idx))
    if d is None:
        problems.append(("corr", op + ":model-undefined", "driver: %s" % cases[idx][3][:60], idx))
    # shift invariance: the real function on the shifted sibling against the real function on the base
    if meta.get("role") == "shift":
        bidx = meta["of"]
        hb = hres[bidx]
        _, _, _, a0, b0 = parse(cases[bidx][0])
        if hb is not None:
            for j in range(cols):
                for i in range(rows):
                    # the shift added to the arguments, exactly (2 pi k plus the rounding of the shifted double)
                    delta = (Fraction(a[i][j]) - Fraction(a0[i][j])) + sgn * (Fraction(b[i]) - Fraction(b0[i]))
                    tol = tol_angle(a[i][j], b[i], a0[i][j], b0[i])
                    e = dist_mod(Fraction(h[j * rows + i]) - Fraction(hb[j * rows + i]) - delta)
                    stats["max_err_over_tol_shift"] = max(stats.get("max_err_over_tol_shift", 0.0), e / tol)
                    if e > tol:
                        problems.append(("prop", op + ":shift-variant",
                                         "%s changes by %.3g (mod 2 pi) when multiples of 2 pi are added to its arguments (%r,%r) -> (%r,%r)"
                                         % (op, e, a0[i][j], b0[i], a[i][j], b[i]), idx))


def mean_key(cols, v, a_i0):
    """stable key: the one-column shortcut returning the column as is, or anything else"""
    if cols == 1 and hexd(v) == hexd(a_i0):
        return SHORTCUT_KEY
    return None


def check_mean(idx, cases, hres, dres, stats, problems):
    line, meta = cases[idx][0], cases[idx][1]
    op, rows, cols, a, w = parse(line)
    h = hres[idx]
    if h is None:
        problems.append(("prop", "directional_mean:no-result", "directional_mean failed on a valid input: %s" % cases[idx][2][:80], idx))
        return
    d = dres[idx]
    sw = math.fsum(abs(x) for x in w)
    for i in range(rows):
        v = h[i]
        C, S = resultant(a[i], w)
        L = math.hypot(C, S)
        if L < 1e-6:
            stats["skipped_small_resultant"] = stats.get("skipped_small_resultant", 0) + 1
            continue                                   # outside the property's quantifier
        dec = "1e%d" % math.floor(math.log10(L)) if L < 1.0 else ">=1"
        stats.setdefault("resultant_length_decades", {})
        stats["resultant_length_decades"][dec] = stats["resultant_length_decades"].get(dec, 0) + 1
        cond = math.fsum(abs(wk) * (1.0 + abs(x)) for x, wk in zip(a[i], w)) / L
        tol = 16 * EPS * cond + 16 * EPS
        sk = mean_key(cols, v, a[i][0])
        if math.isnan(v) or math.isinf(v):
            problems.append(("prop", "directional_mean:not-finite", "directional_mean(%r, w=%r) = %r for finite inputs" % (a[i], w, v), idx))
            continue
        if not in_range(v):
            problems.append(("prop", sk or "directional_mean:out-of-range",
                             "directional_mean(%r, w=%r) = %r is not in (-pi, pi]" % (a[i], w, v), idx))
        expect = math.atan2(S, C)
        e = abs(v - expect)
        if e > tol and in_range(v):
            e = min(e, abs(e - 2 * PI_D))              # pi and -pi are the same point of the circle (rounding at the cut)
        stats["max_err_over_tol_mean"] = max(stats.get("max_err_over_tol_mean", 0.0), min(e, 1.0) / tol if not sk else 0.0)
        if e > tol:
            problems.append(("prop", sk or "directional_mean:not-arg-of-resultant",
                             "directional_mean(%r, w=%r) = %r but the argument of the weighted resultant is %r (resultant length %.3g)"
                             % (a[i], w, v, expect, L), idx))
        if d is not None:
            em = dist_mod(Fraction(v) - Fraction(d[i]))
            stats["max_model_impl_over_tol_mean"] = max(stats.get("max_model_impl_over_tol_mean", 0.0), em / tol)
            if em > tol:
                problems.append(("corr", "directional_mean:model-vs-impl", "row %d: model %r, implementation %r" % (i, d[i], v), idx))
        # all samples equal
        if "theta" in meta and meta.get("role") == "base" and math.fsum(w) > 0:
            e = dist_mod(Fraction(v) - Fraction(meta["theta"][i]))
            if e > tol:
                problems.append(("prop", "directional_mean:const", "all samples equal %r but the mean is %r" % (meta["theta"][i], v), idx))
        # samples within an arc shorter than a half turn, positive weights
        if "centre" in meta and meta.get("role") == "base" and all(x > 0 for x in w):
            m, dl = meta["centre"][i], meta["halfwidth"][i]
            e = dist_mod(Fraction(v) - Fraction(m))
            slack = 8 * EPS * max(abs(x) for x in a[i]) + 16 * EPS + tol
            stats["arc_cases"] = stats.get("arc_cases", 0) + 1
            if e > dl + slack:
                problems.append(("prop", "directional_mean:outside-arc",
                                 "samples within %.3g of %r (mod 2 pi), positive weights, but the mean %r is %.3g away" % (dl, m, v, e), idx))
        # siblings: the real function run twice
        if meta.get("role") in ("perm", "scale") and hres[meta["of"]] is not None:
            vb = hres[meta["of"]][i]
            tolp = 2 * tol + 16 * EPS
            ep = min(abs(v - vb), abs(abs(v - vb) - 2 * PI_D))
            stats["max_err_over_tol_perm_scale"] = max(stats.get("max_err_over_tol_perm_scale", 0.0), ep / tolp)
            if ep > tolp:
                problems.append(("prop", "directional_mean:" + ("order-dependent" if meta["role"] == "perm" else "weight-scale-dependent"),
                                 "directional_mean changes from %r to %r when %s (the argument of the weighted resultant does not change)"
                                 % (vb, v, "the (sample, weight) pairs are listed in another order" if meta["role"] == "perm" else "all weights are multiplied by a positive factor"), idx))
        if meta.get("role") in ("shift", "rotate"):
            bidx = meta["of"]
            hb = hres[bidx]
            _, _, _, a0, _ = parse(cases[bidx][0])
            if hb is not None:
                C0, S0 = resultant(a0[i], w)
                L0 = math.hypot(C0, S0)
                cond0 = math.fsum(abs(wk) * (1.0 + abs(x)) for x, wk in zip(a0[i], w)) / max(L0, 1e-300)
                tol2 = tol + 16 * EPS * cond0
                if meta["role"] == "shift":
                    # the shifts are 2 pi k up to the rounding of the shifted double: that rounding moves every
                    # sample by at most eps*|a'|/2, which the conditioning term of `tol` covers
                    e = dist_mod(Fraction(v) - Fraction(hb[i]))
                    sk2 = sk or mean_key(cols, hb[i], a0[i][0])
                    exact_same = abs(v - hb[i]) <= tol2 or abs(abs(v - hb[i]) - 2 * PI_D) <= tol2
                    if e > tol2 or not exact_same:
                        problems.append(("prop", sk2 or "directional_mean:shift-variant",
                                         "directional_mean changes from %r to %r when multiples of 2 pi are added to the samples %r -> %r"
                                         % (hb[i], v, a0[i], a[i]), idx))
                else:
                    rot = meta["rot"][i]
                    e = dist_mod(Fraction(v) - Fraction(hb[i]) - Fraction(rot))
                    tol3 = tol2 + 8 * EPS * abs(rot)
                    if e > tol3:
                        problems.append(("prop", "directional_mean:not-rotating",
                                         "rotating all samples by %r moves the mean from %r to %r (off by %.3g mod 2 pi)" % (rot, hb[i], v, e), idx))
    if d is None:
        problems.append(("corr", "directional_mean:model-undefined", "driver: %s" % cases[idx][3][:60], idx))


# ------------------------------------------------------------------ run

WITNESS = "dmean 1 1 %s %s" % (hexd(7.0), hexd(1.0))      # witness of the defect repaired in e5e0548 (regression case)


def nontrivial(line):
    op, rows, cols, a, rest = parse(line)
    if op == "dmean":
        return cols >= 2 or any(abs(x) > PI_D for row in a for x in row)
    return any(abs(a[i][j] + (rest[i] if op == "dadd" else -rest[i])) > PI_D for i in range(rows) for j in range(cols))


def build_plain():
    """the same harness and directional_statistics.cpp compiled without sanitizers at -O2 -DNDEBUG -march=native
    (vectorised / optimisation-dependent paths that the -O1 sanitizer build does not take)"""
    import os
    out = vlib.BUILD / "plain" / "h"
    out.mkdir(parents=True, exist_ok=True)
    binary, dep = out / "h_dir_plain", out / "h_dir_plain.d"
    src = [vlib.VERIF / "harness" / "h_dir.cpp", vlib.REPO / "src/BayesFilters/src/directional_statistics.cpp"]
    with vlib.locked("plain-h_dir"):
        stale = vlib._deps_stale(binary, dep, src)
        if not stale:
            # the dependency file only lists the headers of the last translation unit: compare the library source as well
            stale = any(os.stat(str(p_)).st_mtime > binary.stat().st_mtime for p_ in src)
        if stale:
            cmd = ["g++", "-std=c++11", "-O2", "-DNDEBUG", "-march=native", "-I", str(vlib.REPO / "src/BayesFilters/include"), "-I", vlib.EIGEN_INC,
                   "-I", str(vlib.VERIF / "harness"), "-MMD", "-MF", str(dep)] + [str(x) for x in src] + ["-o", str(binary)]
            rc, o, e = vlib.sh(cmd)
            if rc != 0:
                raise vlib.BuildError("plain harness h_dir failed to compile:\n%s" % e[-4000:])
    return binary


def run(ctx):
    ctx.proof_stage()
    if not ctx.quick() and not ctx.replay:
        bad = vlib.leanchecker(["BFL.Model.Dir", "BFL.Proofs.Dir", "BFL.Props.C19"])
        ctx.coverage["leanchecker"] = "failed: %s" % bad if bad else "ok (BFL.Model.Dir, BFL.Proofs.Dir, BFL.Props.C19)"
        if bad:
            ctx.violation("leanchecker", "independent re-check of the compiled proofs failed: %s" % bad, {"leanchecker": bad}, no_input=True)
    binary = vlib.build_harness("h_dir")
    stats = {}
    cases = []                                          # (line, meta)
    if ctx.replay:
        body = json.loads(open(ctx.replay).read())
        rp = body.get("replay", {})
        metas = rp.get("metas") or [None] * len(rp.get("input_lines", []))
        for ln, m in zip(rp.get("input_lines", []), metas):
            m = dict(m) if m else {"role": "base"}
            m.update({"kind": ln.split()[0].rstrip("B"), "style": "replay", "shape": "%sx%s" % tuple(ln.split()[1:3])})
            cases.append((ln, m))
    else:
        # regression witness and corpus run first
        cases.append((WITNESS, {"kind": "dmean", "style": "witness", "role": "base", "shape": "1x1", "wstyle": "single"}))
        corpus = vlib.VERIF / "corpus" / "C19" / "cases.txt"
        if corpus.exists():
            for ln in corpus.read_text().split("\n"):
                ln = ln.strip()
                if ln and not ln.startswith("#"):
                    cases.append((ln, {"kind": ln.split()[0].rstrip("B"), "style": "corpus", "role": "base", "shape": "%sx%s" % tuple(ln.split()[1:3])}))
        shapes = [(r_, c_) for r_ in ROWS for c_ in COLS]
        off = len(cases)
        part = gen_addsub(ctx.gen("addsub"), shapes, ctx.n(60, 3000))
        for ln, m in part:
            if "of" in m:
                m["of"] += off
        cases += part
        off = len(cases)
        part = gen_mean(ctx.gen("mean"), shapes, ctx.n(120, 6000), stats)
        for ln, m in part:
            if "of" in m:
                m["of"] += off
        cases += part
    lines = [c[0] for c in cases]
    hout, logs = vlib.run_harness(binary, lines)
    dout = vlib.run_driver(lines)
    cases = [(ln, m, h, d) for (ln, m), h, d in zip(cases, hout, dout)]
    hres, dres = [], []
    for ln, m, h, d in cases:
        op, rows, cols, _, _ = parse(ln)
        n = rows * cols if op != "dmean" else rows
        hres.append(parse_out(h, n))
        dres.append(parse_out(d, n))
    problems = []
    hist, shape_hist, branch_hist, wstyle_hist = {}, {}, {}, {}
    distinct = set()
    for idx, (ln, m, h, d) in enumerate(cases):
        key = "%s/%s/%s" % (m["kind"], m["style"], m.get("role"))
        hist[key] = hist.get(key, 0) + 1
        sk = "%s %s" % (m["kind"] if m["kind"] == "dmean" else "add/sub", m["shape"])
        shape_hist[sk] = shape_hist.get(sk, 0) + 1
        if m["kind"] == "dmean":
            br = d.split()[1] if d.startswith("ok") and len(d.split()) > 1 else "?"
            branch_hist[br] = branch_hist.get(br, 0) + 1
            wstyle_hist[m.get("wstyle", "?")] = wstyle_hist.get(m.get("wstyle", "?"), 0) + 1
            check_mean(idx, cases, hres, dres, stats, problems)
        else:
            check_addsub(idx, cases, hres, dres, stats, problems)
        if nontrivial(ln):
            distinct.add(ln)
    # round trips through the real functions (`sub_add_cancel_wrap`, `add_sub_cancel_wrap`): the result of every base add / sub case is fed
    # to the opposite function with the same offsets; the outcome must be the original matrix modulo 2 pi, in (-pi, pi]
    p2 = []
    for idx, (ln, m, h, d) in enumerate(cases):
        if m["kind"] in ("dadd", "dsub") and m.get("role") == "base" and hres[idx] is not None:
            op, rows, cols, a, b = parse(ln)
            if rows * cols == 0 or cols > 130:
                continue
            inv = ("dsub" if op == "dadd" else "dadd") + ("B" if ln.split()[0].endswith("B") else "")
            p2.append((idx, " ".join([inv, str(rows), str(cols)] + [hexd(x) for x in hres[idx]] + [hexd(x) for x in b])))
    h2out, logs2 = vlib.run_harness(binary, [x[1] for x in p2])
    for (idx, ln2), o2 in zip(p2, h2out):
        op, rows, cols, a, b = parse(cases[idx][0])
        v2 = parse_out(o2, rows * cols)
        if v2 is None:
            problems.append(("prop", "round-trip:no-result", "the opposite function failed on the result of %s: %s" % (op, o2[:80]), idx)); continue
        stats["round_trip_entries"] = stats.get("round_trip_entries", 0) + rows * cols
        for j in range(cols):
            for i in range(rows):
                y, v = hres[idx][j * rows + i], v2[j * rows + i]
                tol = tol_angle(a[i][j], b[i]) + tol_angle(y, b[i])
                if math.isnan(v) or not in_range(v):
                    problems.append(("prop", "round-trip:out-of-range", "%s then the opposite function on (%r, %r) gives %r, not in (-pi, pi]" % (op, a[i][j], b[i], v), idx)); continue
                e = dist_mod(Fraction(v) - Fraction(a[i][j]))
                stats["max_err_over_tol_round_trip"] = max(stats.get("max_err_over_tol_round_trip", 0.0), e / tol)
                if e > tol:
                    problems.append(("prop", "round-trip:add-sub", "%s(%r, %r) = %r and the opposite function with the same offset gives %r, not congruent to the original angle (off by %.3g)"
                                     % (op, a[i][j], b[i], y, v, e), idx))
    # second pass: the same cases through the plain -O2 build, same predicates
    plain = build_plain()
    pout, plogs = vlib.run_harness(plain, lines)
    pres = []
    for (ln, m, h, d), po in zip(cases, pout):
        op, rows, cols, _, _ = parse(ln)
        pres.append(parse_out(po, rows * cols if op != "dmean" else rows))
    pstats, pproblems = {}, []
    pcases = [(ln, m, po, d) for (ln, m, h, d), po in zip(cases, pout)]
    for idx, (ln, m, po, d) in enumerate(pcases):
        (check_mean if m["kind"] == "dmean" else check_addsub)(idx, pcases, pres, dres, pstats, pproblems)
    problems += [(k, key, "[plain -O2 -march=native build] " + what, idx) for (k, key, what, idx) in pproblems]
    stats["plain_build"] = {"cases": len(pcases), "crashes": len(plogs),
                            "max_err_over_tol_mean": pstats.get("max_err_over_tol_mean"), "max_err_over_tol_addsub": pstats.get("max_err_over_tol_addsub")}
    for i, log in list(plogs.items())[:3]:
        ctx.violation("crash:plain:" + pout[i], "plain build crashed on a valid input: %s" % pout[i],
                      {"harness": "h_dir (plain)", "input_lines": [c_[0] for c_ in cases[max(0, i - 12):i] if str(c_[1].get("style", "")).startswith("sequence:") and c_[1].get("role") == "base"] + [lines[i]], "log": log[-1500:]})
    def history(idx):
        """for a case of a call sequence (state surviving between calls would make the failure depend on the calls before it):
        the preceding calls of the same sequence, to be replayed first in the same process"""
        if not str(cases[idx][1].get("style", "")).startswith("sequence:"):
            return []
        out, k = [], idx - 1
        while k >= 0 and len(out) < 12 and str(cases[k][1].get("style", "")).startswith("sequence:"):
            if cases[k][1].get("role") == "base" and k != cases[idx][1].get("of"):
                out.append(cases[k][0])
            k -= 1
        return out[::-1]

    prop_bad = [p for p in problems if p[0] == "prop"]
    corr_bad = [p for p in problems if p[0] == "corr"]
    seen = {}
    for _, key, what, idx in prop_bad:
        seen.setdefault(key, []).append((what, idx))
    for key, lst in seen.items():
        # report the witness / the smallest failing case of each class
        what, idx = min(lst, key=lambda t: (len(cases[t[1]][0]), t[1]))
        m = cases[idx][1]
        keep = {k: v for k, v in m.items() if k in ("role", "rot", "theta", "centre", "halfwidth", "wstyle")}
        if "of" in m:
            inputs = [cases[m["of"]][0], cases[idx][0]]
            bm = {k: v for k, v in cases[m["of"]][1].items() if k in ("role", "theta", "centre", "halfwidth", "wstyle")}
            metas = [bm, dict(keep, of=0)]
        else:
            inputs, metas = [cases[idx][0]], [keep]
        hist_ = history(idx)
        if hist_:
            inputs = hist_ + inputs
            metas = [{"role": "base"}] * len(hist_) + [dict(m_, of=m_["of"] + len(hist_)) if "of" in m_ else m_ for m_ in metas]
        if key == SHORTCUT_KEY:
            what = ("regression of the defect repaired in e5e0548: directional_mean with exactly one column returns the column as is (not wrapped "
                    "into (-pi, pi]): directional_mean([7.0], w=[1.0]) = 7.0 whereas the argument of the weighted resultant is 0.7168...; "
                    "first failing predicate here: " + what)
        ctx.violation(key, "%s (%d failing rows/entries in this run)" % (what, len(lst)),
                      {"harness": "h_dir", "input_lines": inputs, "metas": metas, "observed": [cases[idx][2][:1500]],
                       "expected": "see `what`; model output: " + cases[idx][3][:400]})
    if corr_bad and not prop_bad:
        _, key, what, idx = corr_bad[0]
        ctx.violation("correspondence:" + key,
                      "model and implementation disagree (%d entries), no property predicate failed: %s" % (len(corr_bad), what),
                      {"harness": "h_dir", "correspondence": "BFL.Dir.{dirAdd,dirSub,dirMean} vs bfl::directional_statistics",
                       "input_lines": [cases[idx][0]], "observed": [cases[idx][2][:1500]], "model": cases[idx][3][:1500]}, no_input=True)
    for i, log in list(logs.items())[:3]:
        ctx.violation("crash:" + cases[i][2], "implementation crashed on a valid input: %s" % cases[i][2],
                      {"harness": "h_dir", "input_lines": history(i) + [cases[i][0]], "log": log[-1500:]})
    ctx.coverage.update({
        "evaluations": len(cases), "distinct_nontrivial": len(distinct),
        "rule": "every shape rows 1..4 x columns 1..6 crossed with every angle style, wide shapes up to 8 x 40 (columns 7, 8, 12, 15, 16, 17, 24, 31, 32, 33, 40) crossed with sampled styles (small, huge up to 1e6*pi, rounded multiples of pi, "
                "+-pi and neighbours, dyadic, tiny/zero/subnormal, mixed; for the mean also constant rows, arcs < half turn, sigma-point layouts, and prescribed short resultants of length log-uniform in "
                "[1.2e-6, 1e-2]: antipodal pairs with unequal weights, nearly antipodal pairs, near-cancelling unscented sets, almost uniform circles) "
                "plus random extra cases; each base case is followed by sibling cases (2 pi-shifted arguments; common rotation) run through the "
                "real function again; weights: single 1, uniform, positive normalised, skewed over 6 decades, unscented with negative central "
                "weight, scaled unscented (alpha 1e-3..1e-1); rows with resultant length < 1e-6 regenerated. non-trivial = some sum/sample "
                "outside [-fl(pi), fl(pi)] or a mean over >= 2 columns; distinct = distinct input lines",
        "samples": [cases[0][0], cases[min(len(cases) - 1, 5)][0][:400], cases[-1][0][:400]],
        "style_histogram": hist, "shape_histogram": shape_hist,
        "model_branches_hit": {"directional_mean": branch_hist},
        "weight_style_histogram": wstyle_hist,
        "numeric": stats,
        "traces_validated_against_impl": len(cases),
        "model_vs_impl_disagreements": len(corr_bad), "property_failures_on_impl": len(prop_bad),
        "sanitizer_crashes": len(logs),
        "exhaustive": False,
        "regression_witnesses_replayed": [WITNESS],
    })
    ctx.assumptions += [
        "floating point: a wrapped angle computed from doubles a, b is accepted within 8*eps*(|a|+|b|) + 16*eps (mod 2 pi); a mean within "
        "16*eps*sum|w_k|(1+|a_k|)/|resultant| + 16*eps; pi and -pi identified where rounding at the branch cut decides",
        "libm sin/cos/atan2 (shared by implementation, Float model and the Python oracle) are accurate to a few ulp",
    ]
