import BFL.Driver.Proto
import BFL.Core.GaussJordan
import BFL.Model.GPF
/-
Driver entries for the Gaussian particle filter (C08).

Field operations are executed exactly over `Rat`; `exp`/`log` go through `Float`
(`Transc Rat` below: round the exact argument to the nearest double, apply the `Float` function,
read the result back as the exact rational it is).  So positions `μ' + S z`, quadratic forms,
determinants and inverses are exact, and only the transcendental functions are approximate.

  gpfrun n k m eps  <initial set>  nsteps  <step>*      -> "ok" then, per step, the particle set
     <set>   = states(n×k) means(n×k) covs(n×nk) logweights(k)         (column-major)
     <step>  = P skip means covs
             | C skip means covs  hand  S(n×nk)  z(n×k)  valid <lik>  <trans>     (hand: 0 | 1 move-constructed | 2 move-assigned)
       means/covs = what the wrapped Gaussian step returned when run directly on the same beliefs
                    (the value of the parameter `gp`/`gc` on this input, observed in C++);
       S      = square-root factors (parameter `sq`), z = the normal draws (parameter `z`);
       <lik>  = 0 l(k)                      scripted vector
              | 1 c(k) a(n)                 l_i = c_i / (1 + |x_i − a|²)
              | 2 scale ok⁴ H(m×n) R(m×m) y(m)  GaussianLikelihood (ok⁴: measure / predictedMeasure / innovation / noise covariance succeed)
       <trans>= 0 A(n×n) b(n) c             t_i = c / (1 + |cur_i − A prev_i − b|²)  (harness-defined)
              | 1 T qtilde                  WhiteNoiseAcceleration from its constructor parameters (closed-form F, Q)
              | 2 F(n×n) Q(n×n)             N(cur_i − F prev_i; 0, Q)
-/
namespace BFL.DriverGPF
open BFL BFL.Proto

/-- nearest-double (to within one ulp) value of a rational, for arguments of any size -/
def ratToFloat (q : Rat) : Float :=
  if q.num == 0 then 0.0 else
  let a : Nat := q.num.natAbs
  let b : Nat := q.den
  let s : Int := (b.log2 : Int) + 64 - (a.log2 : Int)
  let m : Nat := if s ≥ 0 then (a <<< s.toNat) / b else a / (b <<< (-s).toNat)
  let f := Float.scaleB (Float.ofNat m) (-s)
  if q.num < 0 then -f else f

/-- a value no double can take: makes a non-finite `Float` result visible in the comparison -/
def nonFinite : Rat := (10 : Rat) ^ 400

def floatToRat (x : Float) : Rat :=
  match ratOfBits x.toBits.toNat with
  | some r => r
  | none => nonFinite

def viaFloat (f : Float → Float) (q : Rat) : Rat := floatToRat (f (ratToFloat q))

scoped instance ratTransc : Transc Rat where
  exp := viaFloat Float.exp
  log := viaFloat Float.log
  sqrt := viaFloat Float.sqrt
  sin := viaFloat Float.sin
  cos := viaFloat Float.cos
  acos := viaFloat Float.acos
  atan2 := fun y x => floatToRat (Float.atan2 (ratToFloat y) (ratToFloat x))
  pi := floatToRat 3.14159265358979323846

/-- certified exact inverse (`A X = 1 ∧ X A = 1` checked entry by entry) -/
def invCert {m : Nat} (S : Mat Rat m m) : Option (Mat Rat m m) :=
  match matInv? m S with
  | none => none
  | some X => let X := Mat.eval X; if certInv m S X then some X else none

/-- the `inv` handed to the model: certified inverse, or a matrix of `nonFinite` -/
def invOr {m : Nat} (S : Mat Rat m m) : Mat Rat m m :=
  match invCert S with
  | some X => X
  | none => Mat.of (fun _ _ => nonFinite)

def colOf {n k : Nat} (M : Mat Rat n k) (i : Fin k) : Vec Rat n := Vec.eval (Vec.of (fun r => M r i))

def blockOf {n k : Nat} (M : Mat Rat n (n * k)) (i : Fin k) : Mat Rat n n :=
  Mat.eval (Mat.of (fun r c => M r ⟨n * i.val + c.val, by
    have hi := i.isLt; have hc := c.isLt
    calc n * i.val + c.val < n * i.val + n := by omega
      _ = n * (i.val + 1) := by rw [Nat.mul_succ]
      _ ≤ n * k := Nat.mul_le_mul_left n hi⟩))

instance {n : Nat} : Inhabited (Vec Rat n) := ⟨Vec.zero⟩
instance {r c : Nat} : Inhabited (Mat Rat r c) := ⟨Mat.zero⟩

/-- Table of the values of `f`, computed once.  It returns a *structure*: a definition returning a
    function would be compiled with the index as an extra argument and rebuild the table per access.
    Use as `(tab f).get`. -/
def tab {β : Type} [Inhabited β] {k : Nat} (f : Fin k → β) : Vec β k := Vec.eval (Vec.of f)

def readBeliefs (n k : Nat) : R (GM Rat n k) := do
  let means ← matCM rat n k
  let covs ← matCM rat n (n * k)
  pure { mean := (tab (colOf means)).get, cov := (tab (blockOf covs)).get, weight := Vec.zero }

def readSet (n k : Nat) : R (PSet Rat n k) := do
  let states ← matCM rat n k
  let b ← readBeliefs n k
  let w ← vec rat k
  pure { state := (tab (colOf states)).get, gm := { b with weight := Vec.eval w } }

/-- compute every entry once (the model's results are closures) -/
def force {n k : Nat} (p : PSet Rat n k) : PSet Rat n k :=
  { state := (tab (fun i => Vec.eval (p.state i))).get
    gm := { mean := (tab (fun i => Vec.eval (p.gm.mean i))).get
            cov := (tab (fun i => Mat.eval (p.gm.cov i))).get
            weight := Vec.eval p.gm.weight } }

def outSet {n k : Nat} (p : PSet Rat n k) : List String :=
  ((List.finRange k).flatMap fun i => outVec ratStr (p.state i)) ++
  ((List.finRange k).flatMap fun i => outVec ratStr (p.gm.mean i)) ++
  ((List.finRange k).flatMap fun i => outMatCM ratStr (p.gm.cov i)) ++
  (outVec ratStr p.gm.weight)

def normSq {n : Nat} (v : Vec Rat n) : Rat := Vec.dot v v

/-- harness-defined likelihood `c_i / (1 + |x_i − a|²)` -/
def ratLik {n k : Nat} (valid : Bool) (c : Vec Rat k) (a : Vec Rat n) (x : Fin k → Vec Rat n) : Bool × Vec Rat k :=
  (valid, Vec.of fun i => c i / (1 + normSq ((x i).sub a)))

/-- harness-defined transition density `c / (1 + |cur_i − A prev_i − b|²)` -/
def ratTrans {n k : Nat} (A : Mat Rat n n) (b : Vec Rat n) (c : Rat) (prev cur : Fin k → Vec Rat n) : Vec Rat k :=
  Vec.of fun i => c / (1 + normSq (((cur i).sub (A.mulVec (prev i))).sub b))

def zeroSet {n k : Nat} : PSet Rat n k :=
  { state := fun _ => Vec.zero, gm := { mean := fun _ => Vec.zero, cov := fun _ => Mat.zero, weight := Vec.zero } }

def readLik (n k m : Nat) (valid : Bool) : R ((Fin k → Vec Rat n) → Bool × Vec Rat k) := do
  let kind ← nat
  match kind with
  | 0 => do
    let l ← vec rat k
    pure (fun _ => (valid, l))
  | 1 => do
    let c ← vec rat k
    let a ← vec rat n
    pure (ratLik valid c a)
  | 2 => do
    let scale ← rat
    let a ← bool; let b ← bool; let c ← bool; let d ← bool
    let H ← matCM rat m n
    let Rm ← matCM rat m m
    let y ← vec rat m
    pure (fun x => if valid then gpfGaussLikFull a b c d invOr scale H Rm y x else (false, Vec.zero))
  | _ => failure

def readTrans (n k : Nat) : R ((Fin k → Vec Rat n) → (Fin k → Vec Rat n) → Vec Rat k) := do
  let kind ← nat
  match kind with
  | 0 => do
    let A ← matCM rat n n
    let b ← vec rat n
    let c ← rat
    pure (ratTrans A b c)
  | 1 => do
    let T ← rat
    let q ← rat
    pure (gpfWnaTrans invOr T q)
  | 2 => do
    let F ← matCM rat n n
    let Q ← matCM rat n n
    pure (gpfGaussTrans invOr F Q)
  | _ => failure

def readEvent (n k m : Nat) : R (GpfEvent Rat n k) := do
  let t ← tok
  let skip ← bool
  let table ← readBeliefs n k
  let step : GStep Rat n k := gaussDispatch skip (fun _ _ => table)
  match t with
  | "P" => pure (.predict step zeroSet)
  | "C" => do
    let hand ← nat
    let S ← matCM rat n (n * k)
    let z ← matCM rat n k
    let valid ← bool
    let lik ← readLik n k m valid
    let trans ← readTrans n k
    -- the object performing the step: as configured, move-constructed, or move-assigned over a
    -- differently configured object (constant likelihood 7, identity correction, zero density)
    let src : GpfCorrObj Rat n k := { lik := lik, gc := step, trans := trans }
    let decoy : GpfCorrObj Rat n k :=
      { lik := fun _ => (true, Vec.of fun _ => 7), gc := fun b _ => b, trans := fun _ _ => Vec.zero }
    let o := match hand with
      | 1 => gpfMoveConstruct src
      | 2 => gpfMoveAssign decoy src
      | _ => src
    pure (.correct o.gc (tab (blockOf S)).get (tab (colOf z)).get o.lik o.trans zeroSet)
  | _ => failure

def gpfrun : R String := do
  let n ← nat; let k ← nat; let m ← nat
  let eps ← rat
  let p0 ← readSet n k
  let ns ← nat
  let es ← listOf ns (readEvent n k m)
  done
  -- the history, one forced particle set per step (each step is `gpfStep`, i.e. `gpfRun` unfolded)
  let sets := (es.foldl (fun (acc : PSet Rat n k × List (PSet Rat n k)) e =>
      let q := force (gpfStep eps invOr acc.1 e)
      (q, q :: acc.2)) (force p0, [])).2.reverse
  -- every inverse the proposal density needed must have been certified
  let certOk := (es.zip sets).all fun (e, q) =>
    match e with
    | .predict _ _ => true
    | .correct .. => (List.finRange k).all fun i => (invCert (q.gm.cov i)).isSome
  if !certOk then pure "inv-cert-fail" else
  pure (join ("ok" :: sets.flatMap outSet))

/-- `gpfdens n x μ P` : log-density and density of the model (used on its own by the oracle tests) -/
def gpfdens : R String := do
  let n ← nat
  let x ← vec rat n
  let mu ← vec rat n
  let P ← matCM rat n n
  done
  match invCert P with
  | none => pure "inv-cert-fail"
  | some _ =>
    pure (join ["ok", ratStr (gpfQuad invOr x mu P), ratStr (lapDet n P),
                ratStr (gpfLogDensity invOr x mu P), ratStr (gpfDensity invOr x mu P)])

def handle (op : String) (args : List String) : Option String :=
  match op with
  | "gpfrun" => some ((run gpfrun args).getD "bad-args")
  | "gpfdens" => some ((run gpfdens args).getD "bad-args")
  | _ => none

end BFL.DriverGPF
