import BFL.Driver.Proto
import BFL.Model.Race
/-
Driver entries of C10: the decision procedure of BFL/Model/Race.lean executed (compiled) on a table
that arrives *on the case line* (the shared driver must not depend on the regenerated file
BFL/Gen/RaceTable.lean: if the translator ever emits something that does not elaborate, only C10 breaks).

  c10 <what> nF nM nA nC nT  fields: (cls name kind)*  methods: (name ovl virtual body)*
                          accesses: (meth field kind self line nlocks lock*)*  calls: (caller callee kind)*
                          thread ops: (meth field op line)*   op 0 spawn 1 join 2 joinable 3 detach 4 move 5 query 6 other
      kind of a field 0 atomic 1 plain 2 mutex 3 condvar 4 other 5 thread; of an access 0 read 1 write 2 rmw;
      of a call 0 direct 1 virt 2 ref 3 spawn
    what = verdicts  -> "ok" then one token per member touched by both roles:
                        Class::member|kind|ok   or
                        Class::member|kind|bad|<ctl fn>|<line>|<r/w>|<filter fn>|<line>|<r/w>
    what = summary   -> "ok" roots-present wf  R <controller root ids> R <filter root ids>
                        C <reach controller bitset> F <reach filter bitset>  S <shared ids> U <undisciplined ids>
                        P <spawn pairs callerName/calleeName> J <join certified 0/1>
-/
namespace BFL.DriverRace
open BFL BFL.Proto BFL.Race

def kindStr : FieldKind → String
  | .atomic => "atomic" | .plain => "plain" | .mutex => "mutex" | .condvar => "condvar" | .other => "other"
  | .thread => "thread"

def accStr : AccKind → String
  | .read => "r" | .write => "w" | .rmw => "rw"

def fieldKind : R FieldKind := do
  match (← nat) with
  | 0 => pure .atomic | 1 => pure .plain | 2 => pure .mutex | 3 => pure .condvar | 4 => pure .other
  | 5 => pure .thread
  | _ => failure

def threadOpKind : R ThreadOpKind := do
  match (← nat) with
  | 0 => pure .spawn | 1 => pure .join | 2 => pure .joinable | 3 => pure .detach | 4 => pure .move
  | 5 => pure .query | 6 => pure .other
  | _ => failure

def accKind : R AccKind := do
  match (← nat) with
  | 0 => pure .read | 1 => pure .write | 2 => pure .rmw
  | _ => failure

def callKind : R CallKind := do
  match (← nat) with
  | 0 => pure .direct | 1 => pure .virt | 2 => pure .ref | 3 => pure .spawn
  | _ => failure

def readTable : R Table := do
  let nF ← nat; let nM ← nat; let nA ← nat; let nC ← nat; let nT ← nat
  let fields ← listOf nF (do let c ← nat; let n ← nat; let k ← fieldKind; pure (⟨c, n, k⟩ : Field))
  let methods ← listOf nM (do let n ← nat; let o ← nat; let v ← bool; let b ← bool; pure (⟨n, o, v, b⟩ : Method))
  let accesses ← listOf nA (do
    let m ← nat; let f ← nat; let k ← accKind; let s ← bool; let line ← nat
    let nl ← nat; let locks ← listOf nl nat
    pure (⟨m, f, k, s, locks, line⟩ : Access))
  let calls ← listOf nC (do let a ← nat; let b ← nat; let k ← callKind; pure (⟨a, b, k⟩ : Call))
  let tops ← listOf nT (do let m ← nat; let f ← nat; let k ← threadOpKind; let l ← nat; pure (⟨m, f, k, l⟩ : ThreadOp))
  done
  pure ⟨fields, methods, accesses, calls, tops⟩

def verdictTok (T : Table) (f : Nat) : String :=
  let k := match T.fields[f]? with | some fd => kindStr fd.kind | none => "?"
  match T.witness f with
  | none => s!"{T.fieldName f}|{k}|ok"
  | some (a, b) =>
    s!"{T.fieldName f}|{k}|bad|{T.methodName a.meth}|{a.line}|{accStr a.kind}|{T.methodName b.meth}|{b.line}|{accStr b.kind}"

def bstr (b : Bool) : String := if b then "1" else "0"

def summary (T : Table) : List String :=
  ["ok", bstr (T.rootsPresent .controller && T.rootsPresent .filter), bstr T.wfB, "R"] ++
  (T.rootIds .controller).map toString ++ ["R"] ++ (T.rootIds .filter).map toString ++
  ["C", toString (T.reach .controller), "F", toString (T.reach .filter), "S"] ++ T.shared.map toString ++
  ["U"] ++ T.undisciplined.map toString ++ ["P"] ++
  (T.spawns.map fun p => decodeName p.1 ++ "/" ++ decodeName p.2) ++ ["J", bstr T.joinCertifiedB] ++
  ["M", bstr T.modelConfinedB, "H", bstr T.hooksConfinedB]

def handle (op : String) (args : List String) : Option String :=
  match op, args with
  | "c10", what :: rest =>
    match run readTable rest with
    | none => some "bad-args"
    | some T =>
      match what with
      | "verdicts" => some (join ("ok" :: T.shared.map (verdictTok T)))
      | "summary" => some (join (summary T))
      | _ => some "bad-args"
  | _, _ => none

end BFL.DriverRace
