import BFL.Model.UT
import BFL.Bridge.Mat
import BFL.Proofs.UT
/-
The tail of the unscented correction (`ukfUpdate`) fed with the joint statistics of a linear
measurement model is the Kalman correction (helper lemma for `BFL/Props/C04.lean`).
-/
namespace BFL
open Matrix

set_option linter.unusedSectionVars false

variable {α : Type} [Field α] [Inhabited α] {n nx m k : ℕ}

/-- If the transform delivered `ŷ_i = H m_i`, `Pyy_i = H P_i Hᵀ + R` and `Pxy_i = P_i Hᵀ`, the
    unscented update is, component by component and as model values, the Kalman update — for any
    inverse routine `inv` whatsoever (both apply it to the same matrix). -/
theorem ukfUpdate_eq_kf (inv : Mat α m m → Mat α m m) (H : Mat α m n) (R : Mat α m m) (y : Vec α m)
    (ut : UTOut α nx m k) (pxy : Fin k → Mat α n m) (pred out : GM α n k)
    (hmean : ∀ i, toV (ut.mean i) = toM H *ᵥ toV (pred.mean i))
    (hcov : ∀ i, toM (ut.cov i) = toM H * toM (pred.cov i) * (toM H)ᵀ + toM R)
    (hx : ∀ i, toM (pxy i) = toM (pred.cov i) * (toM H)ᵀ) :
    (∀ i, (ukfUpdate inv linearInnovation y ut pxy pred out).belief.mean i
            = kfCorrectMean inv H R y (pred.mean i) (pred.cov i)) ∧
    (∀ i, (ukfUpdate inv linearInnovation y ut pxy pred out).belief.cov i
            = kfCorrectCov inv H R (pred.cov i)) ∧
    (ukfUpdate inv linearInnovation y ut pxy pred out).belief.weight = out.weight ∧
    (ukfUpdate inv linearInnovation y ut pxy pred out).lik
      = some (fun i => kfInnovation H y (pred.mean i), fun i => kfS H (pred.cov i) R) := by
  have hS : ∀ i, ut.cov i = kfS H (pred.cov i) R := by
    intro i; apply toM_injective; rw [hcov i]; simp [kfS]
  have hP : ∀ i, pxy i = (pred.cov i).mul H.transpose := by
    intro i; apply toM_injective; rw [hx i]; simp
  have hnu : ∀ i, Vec.neg ((ut.mean i).sub y) = kfInnovation H y (pred.mean i) := by
    intro i; apply Vec.ext; intro r
    have : toV (Vec.neg ((ut.mean i).sub y)) = toV (kfInnovation H y (pred.mean i)) := by
      rw [toV_neg, toV_sub, hmean i]; simp [kfInnovation]
    exact congrFun this r
  refine ⟨fun i => ?_, fun i => ?_, rfl, ?_⟩
  · simp only [ukfUpdate, linearInnovation, hS, hP, hnu, kfCorrectMean, kfGain]
  · simp only [ukfUpdate, linearInnovation, hS, hP, kfCorrectCov, kfGain]
  · simp only [ukfUpdate, linearInnovation, hnu]
    congr 2
    funext i; exact hS i

end BFL
