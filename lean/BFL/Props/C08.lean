import BFL.Model.GPF
import BFL.Bridge.Mat
import BFL.Bridge.Transc
import BFL.Proofs.GPF
import Mathlib.MeasureTheory.Measure.Map
import Mathlib.MeasureTheory.Integral.Bochner.Basic
import Mathlib.MeasureTheory.Constructions.BorelSpace.Real
import Mathlib.Analysis.Real.Pi.Bounds
/-
C08 — the Gaussian particle filter propagates beliefs and importance weights correctly.

Theorems about the model `gpfPredict` / `gpfCorrect` / `gpfRun` (BFL/Model/GPF.lean), over ℝ, for every
state dimension `n`, number of particles `k`, particle set, wrapped Gaussian step (`gp`, `gc`: arbitrary
functions of the input mixture and of the previous content of the output mixture — KF, UKF, SUKF or
anything else), likelihood model `lik`, transition density `trans`, draws `z`, and history.

Parameters and their contracts:
  * `sq i`  square-root factor used for particle `i` (Eigen LDLᵀ in the code): `S Sᵀ = P'ᵢ`.  Used only
            by the Mahalanobis / proposal-density theorems, which also need `P'ᵢ` positive definite
            (for a singular `P'ᵢ` the factor still exists and the position is still `μ' + S z`, but the
            proposal density does not exist: `det P' = 0`; the code then evaluates `log 0`).
  * `inv`   inverse routine: right inverse on the covariance it is applied to (`InvOnC`).
  * `z i`   standard-normal draws.  *Trusted, not proved*: `std::normal_distribution` over
            `std::mt19937_64` delivers i.i.d. N(0,1) values.  Given that, `gpf_mahalanobis` says the
            squared Mahalanobis distance of every new position under its corrected belief is `zᵀz`, a
            sum of `n` squared independent standard normals, i.e. χ² with `n` degrees of freedom.
  * `eps`   `DBL_MIN`; only `0 < eps` is used (definedness of the logarithms).
-/
namespace BFL
open Matrix

variable {n k : Nat}

/-! ### Prediction -/

/-- Beliefs after the prediction are exactly what the wrapped Gaussian prediction returns. -/
theorem gpf_predict_belief (gp : GStep ℝ n k) (prev out : PSet ℝ n k) :
    (gpfPredict gp prev out).gm.mean = (gp prev.gm out.gm).mean ∧
    (gpfPredict gp prev out).gm.cov = (gp prev.gm out.gm).cov := ⟨rfl, rfl⟩

/-- Positions and weights are untouched — whatever the wrapped step wrote into the weights. -/
theorem gpf_predict_keeps_state_weight (gp : GStep ℝ n k) (prev out : PSet ℝ n k) :
    (gpfPredict gp prev out).state = prev.state ∧
    (gpfPredict gp prev out).gm.weight = prev.gm.weight := ⟨rfl, rfl⟩

/-- Dispatch of the wrapped step: when it is told to skip, the beliefs are copied. -/
theorem gpf_predict_skip (step : GStep ℝ n k) (prev out : PSet ℝ n k) :
    (gpfPredict (gaussDispatch true step) prev out).gm.mean = prev.gm.mean ∧
    (gpfPredict (gaussDispatch true step) prev out).gm.cov = prev.gm.cov ∧
    (gpfPredict (gaussDispatch false step) prev out).gm.mean = (step prev.gm out.gm).mean ∧
    (gpfPredict (gaussDispatch false step) prev out).gm.cov = (step prev.gm out.gm).cov := by
  simp [gpfPredict, gaussDispatch]

/-! ### Correction -/

section correct
variable (eps : ℝ) (inv : Mat ℝ n n → Mat ℝ n n) (gc : GStep ℝ n k)
  (sq : Fin k → Mat ℝ n n) (z : Fin k → Vec ℝ n)
  (lik : (Fin k → Vec ℝ n) → Bool × Vec ℝ k)
  (trans : (Fin k → Vec ℝ n) → (Fin k → Vec ℝ n) → Vec ℝ k)
  (pred out : PSet ℝ n k)

/-- An invalid likelihood leaves the predicted set as it is (all four fields). -/
theorem gpf_invalid_likelihood_identity
    (hl : (lik (gpfDraw (gc pred.gm out.gm) sq z)).1 = false) :
    gpfCorrect eps inv gc sq z lik trans pred out = pred := by
  simp [gpfCorrect, hl]

/-- Beliefs after a (valid) correction are exactly what the wrapped Gaussian correction returns. -/
theorem gpf_correct_belief
    (hl : (lik (gpfDraw (gc pred.gm out.gm) sq z)).1 = true) :
    (gpfCorrect eps inv gc sq z lik trans pred out).gm.mean = (gc pred.gm out.gm).mean ∧
    (gpfCorrect eps inv gc sq z lik trans pred out).gm.cov = (gc pred.gm out.gm).cov := by
  simp [gpfCorrect, hl]

/-- Every new position is `μ'ᵢ + Sᵢ zᵢ`: the *corrected* mean of the same particle plus its own
    factor applied to its own draws. -/
theorem gpf_correct_state
    (hl : (lik (gpfDraw (gc pred.gm out.gm) sq z)).1 = true) (i : Fin k) :
    toV ((gpfCorrect eps inv gc sq z lik trans pred out).state i)
      = toV ((gc pred.gm out.gm).mean i) + toM (sq i) *ᵥ toV (z i) := by
  simp [gpfCorrect, hl, gpfDraw, gpfSample]

/-- The log-weight update, exactly as coded, for every particle: old log-weight + log(likelihood of
    the new positions + ε) + log(transition density from the previous to the new position + ε)
    − log(proposal density of the new position under the corrected belief + ε). -/
theorem gpf_weight_formula
    (hl : (lik (gpfDraw (gc pred.gm out.gm) sq z)).1 = true) (i : Fin k) :
    (gpfCorrect eps inv gc sq z lik trans pred out).gm.weight i
      = pred.gm.weight i
        + Real.log ((lik (gpfDraw (gc pred.gm out.gm) sq z)).2 i + eps)
        + Real.log (trans pred.state (gpfDraw (gc pred.gm out.gm) sq z) i + eps)
        - Real.log (gpfDensity inv (gpfDraw (gc pred.gm out.gm) sq z i)
                      ((gc pred.gm out.gm).mean i) ((gc pred.gm out.gm).cov i) + eps) := by
  simp [gpfCorrect, hl, gpfWeight]

end correct

/-- Definedness of the three logarithms: with `ε > 0`, non-negative likelihood and transition density,
    every argument is positive (the proposal density is an exponential, hence positive). -/
theorem gpf_weight_defined (eps l t : ℝ) (inv : Mat ℝ n n → Mat ℝ n n) (x μ : Vec ℝ n) (P : Mat ℝ n n)
    (heps : 0 < eps) (hl : 0 ≤ l) (ht : 0 ≤ t) :
    0 < l + eps ∧ 0 < t + eps ∧ 0 < gpfDensity inv x μ P + eps := by
  refine ⟨by linarith, by linarith, ?_⟩
  have : 0 < gpfDensity inv x μ P := by
    unfold gpfDensity
    exact Real.exp_pos _
  linarith

/-! ### The draw: Mahalanobis identity and proposal density -/

/-- contract of the inverse routine on one argument -/
def InvOnC (inv : Mat ℝ n n → Mat ℝ n n) (P : Mat ℝ n n) : Prop :=
  toM P * toM (inv P) = 1

theorem InvOnC.eq {inv : Mat ℝ n n → Mat ℝ n n} {P : Mat ℝ n n} (h : InvOnC inv P) :
    toM (inv P) = (toM P)⁻¹ := (Matrix.inv_eq_right_inv h).symm

/-- contract of the square-root factor -/
def SqrtOf (S P : Mat ℝ n n) : Prop := toM S * (toM S)ᵀ = toM P

/-- For `x = μ + S z` with `S Sᵀ = P`, `P` positive definite: `S` and `P` are invertible and
    `(x − μ)ᵀ P⁻¹ (x − μ) = zᵀ z`. -/
theorem gpf_mahalanobis (μ : Vec ℝ n) (S P : Mat ℝ n n) (z : Vec ℝ n)
    (hP : (toM P).PosDef) (hS : SqrtOf S P) :
    IsUnit (toM S) ∧ IsUnit (toM P) ∧
    (toV (gpfSample μ S z) - toV μ) ⬝ᵥ ((toM P)⁻¹ *ᵥ (toV (gpfSample μ S z) - toV μ)) = toV z ⬝ᵥ toV z := by
  refine ⟨(Matrix.isUnit_iff_isUnit_det _).2 (GPFProofs.sqrt_det hP hS).1, hP.isUnit, ?_⟩
  have hx : toV (gpfSample μ S z) - toV μ = toM S *ᵥ toV z := by
    simp [gpfSample]
  rw [hx]
  exact GPFProofs.mahalanobis hP hS (toV z)

/-- Second moment of the draw, for *any* factor (no definiteness needed — this is the statement that
    survives for a singular covariance): `(x − μ)(x − μ)ᵀ = S (z zᵀ) Sᵀ`.  With `E[z zᵀ] = 1` (the
    trusted contract of the normal generator) the draws have covariance `S Sᵀ = P`. -/
theorem gpf_sample_outer (μ : Vec ℝ n) (S : Mat ℝ n n) (z : Vec ℝ n) :
    vecMulVec (toV (gpfSample μ S z) - toV μ) (toV (gpfSample μ S z) - toV μ)
      = toM S * vecMulVec (toV z) (toV z) * (toM S)ᵀ := by
  have hx : toV (gpfSample μ S z) - toV μ = toM S *ᵥ toV z := by
    simp [gpfSample]
  rw [hx, Matrix.mul_vecMulVec, Matrix.vecMulVec_mul, Matrix.vecMul_transpose]

/-- The distributional clause, for *every* law `ν` of the draws: the law of the squared Mahalanobis
    distance of the new position under its corrected belief is the law of `zᵀz`.  With `ν` the
    `n`-dimensional standard normal law (the trusted contract of `std::normal_distribution`) this is,
    by definition, the chi-square law with `n` degrees of freedom. -/
theorem gpf_mahalanobis_law (ν : MeasureTheory.Measure (Fin n → ℝ)) (μ : Vec ℝ n) (S P : Mat ℝ n n)
    (hP : (toM P).PosDef) (hS : SqrtOf S P) :
    ν.map (fun z => (toV (gpfSample μ S (Vec.of z)) - toV μ) ⬝ᵥ
              ((toM P)⁻¹ *ᵥ (toV (gpfSample μ S (Vec.of z)) - toV μ)))
      = ν.map (fun z => z ⬝ᵥ z) := by
  have h : (fun z : Fin n → ℝ => (toV (gpfSample μ S (Vec.of z)) - toV μ) ⬝ᵥ
              ((toM P)⁻¹ *ᵥ (toV (gpfSample μ S (Vec.of z)) - toV μ))) = fun z => z ⬝ᵥ z := by
    funext z
    exact (gpf_mahalanobis μ S P (Vec.of z) hP hS).2.2
  rw [h]

/-- The factor the code builds from Eigen's LDLᵀ (`Pᵀ L √max(D,0)`, fix 5d4e99d) meets the contract
    `SqrtOf`, given the decomposition's own contract `A = Pᵀ L D Lᵀ P`, `D ≥ 0` (trusted of Eigen in exact
    arithmetic; checked numerically through the Mahalanobis identity on every observed draw).  Holds
    for singular `A` as well. -/
theorem gpf_ldlt_factor (A L Pm : Mat ℝ n n) (d : Fin n → ℝ) (hd : ∀ i, 0 ≤ d i)
    (h : toM A = (toM Pm)ᵀ * toM L * diagonal d * (toM L)ᵀ * toM Pm) :
    SqrtOf (Mat.of (fun i j => ((toM Pm)ᵀ * toM L * diagonal (fun i => Real.sqrt (max (d i) 0))) i j)) A := by
  unfold SqrtOf
  have : toM (Mat.of (fun i j => ((toM Pm)ᵀ * toM L * diagonal (fun i => Real.sqrt (max (d i) 0))) i j))
      = (toM Pm)ᵀ * toM L * diagonal (fun i => Real.sqrt (max (d i) 0)) := rfl
  rw [this]
  exact GPFProofs.ldlt_factor (toM A) (toM L) (toM Pm) d hd h

/-- When rounding leaves a pivot slightly negative (the singular case), the clamped factor is a square
    root of `A` plus the clamped-away part: `S Sᵀ = A + Pᵀ L max(−D,0) Lᵀ P`, for *any* pivots — the
    position is always defined (no square root of a negative number is taken). -/
theorem gpf_ldlt_factor_clamped (A L Pm : Mat ℝ n n) (d : Fin n → ℝ)
    (h : toM A = (toM Pm)ᵀ * toM L * diagonal d * (toM L)ᵀ * toM Pm) :
    ((toM Pm)ᵀ * toM L * diagonal (fun i => Real.sqrt (max (d i) 0))) *
      ((toM Pm)ᵀ * toM L * diagonal (fun i => Real.sqrt (max (d i) 0)))ᵀ
      = toM A + (toM Pm)ᵀ * toM L * diagonal (fun i => max (-(d i)) 0) * (toM L)ᵀ * toM Pm :=
  GPFProofs.ldlt_factor_clamped_excess (toM A) (toM L) (toM Pm) d h

/-- The same statement for the quadratic form the code computes with its own inverse routine. -/
theorem gpf_quad_eq (inv : Mat ℝ n n → Mat ℝ n n) (μ : Vec ℝ n) (S P : Mat ℝ n n) (z : Vec ℝ n)
    (hP : (toM P).PosDef) (hS : SqrtOf S P) (hinv : InvOnC inv P) :
    gpfQuad inv (gpfSample μ S z) μ P = toV z ⬝ᵥ toV z := by
  have h := (gpf_mahalanobis μ S P z hP hS).2.2
  simp only [gpfQuad, dot_eq, toV_mulVec, toV_sub, hinv.eq]
  exact h

/-- Log of the proposal density at the drawn position: `−½ (n log 2π + log det P + zᵀz)`, with
    `det P > 0` (so the logarithm the code takes is defined). -/
theorem gpf_proposal_log_density (inv : Mat ℝ n n → Mat ℝ n n) (μ : Vec ℝ n) (S P : Mat ℝ n n) (z : Vec ℝ n)
    (hP : (toM P).PosDef) (hS : SqrtOf S P) (hinv : InvOnC inv P) :
    0 < (toM P).det ∧
    gpfLogDensity inv (gpfSample μ S z) μ P
      = -(1 / 2) * ((n : ℝ) * Real.log (2 * Real.pi) + Real.log (toM P).det + toV z ⬝ᵥ toV z) := by
  refine ⟨(GPFProofs.sqrt_det hP hS).2, ?_⟩
  unfold gpfLogDensity
  rw [gpf_quad_eq inv μ S P z hP hS hinv, GPFProofs.lapDet_eq]
  simp only [transc_log, transc_pi]
  norm_num

/-- The proposal density at the drawn position:
    `q(x) = (2π)^(−n/2) · det(P)^(−1/2) · exp(−zᵀz / 2)`. -/
theorem gpf_proposal_density (inv : Mat ℝ n n → Mat ℝ n n) (μ : Vec ℝ n) (S P : Mat ℝ n n) (z : Vec ℝ n)
    (hP : (toM P).PosDef) (hS : SqrtOf S P) (hinv : InvOnC inv P) :
    0 < (toM P).det ∧
    gpfDensity inv (gpfSample μ S z) μ P
      = (2 * Real.pi) ^ (-(n : ℝ) / 2) * (toM P).det ^ (-(1 : ℝ) / 2)
          * Real.exp (-(toV z ⬝ᵥ toV z) / 2) := by
  have hd := (GPFProofs.sqrt_det hP hS).2
  refine ⟨hd, ?_⟩
  unfold gpfDensity gpfLogDensity
  rw [gpf_quad_eq inv μ S P z hP hS hinv, GPFProofs.lapDet_eq]
  simp only [transc_log, transc_pi, transc_exp]
  exact GPFProofs.gauss_exp_form n hd _

/-- The weight update in terms of the draws: with positive definite corrected covariances and factors
    meeting their contract, the proposal term is `(2π)^(−n/2) det(P'ᵢ)^(−1/2) exp(−zᵢᵀzᵢ/2)`. -/
theorem gpf_weight_in_draws (eps : ℝ) (inv : Mat ℝ n n → Mat ℝ n n) (gc : GStep ℝ n k)
    (sq : Fin k → Mat ℝ n n) (z : Fin k → Vec ℝ n)
    (lik : (Fin k → Vec ℝ n) → Bool × Vec ℝ k)
    (trans : (Fin k → Vec ℝ n) → (Fin k → Vec ℝ n) → Vec ℝ k)
    (pred out : PSet ℝ n k)
    (hl : (lik (gpfDraw (gc pred.gm out.gm) sq z)).1 = true) (i : Fin k)
    (hP : (toM ((gc pred.gm out.gm).cov i)).PosDef)
    (hS : SqrtOf (sq i) ((gc pred.gm out.gm).cov i))
    (hinv : InvOnC inv ((gc pred.gm out.gm).cov i)) :
    (gpfCorrect eps inv gc sq z lik trans pred out).gm.weight i
      = pred.gm.weight i
        + Real.log ((lik (gpfDraw (gc pred.gm out.gm) sq z)).2 i + eps)
        + Real.log (trans pred.state (gpfDraw (gc pred.gm out.gm) sq z) i + eps)
        - Real.log ((2 * Real.pi) ^ (-(n : ℝ) / 2) * (toM ((gc pred.gm out.gm).cov i)).det ^ (-(1 : ℝ) / 2)
                      * Real.exp (-(toV (z i) ⬝ᵥ toV (z i)) / 2) + eps) := by
  rw [gpf_weight_formula eps inv gc sq z lik trans pred out hl i]
  have : gpfDraw (gc pred.gm out.gm) sq z i = gpfSample ((gc pred.gm out.gm).mean i) (sq i) (z i) := rfl
  rw [this, (gpf_proposal_density inv _ (sq i) _ (z i) hP hS hinv).2]

/-! ### The shipped transition density and likelihood, as the code evaluates them -/

/-- `WhiteNoiseAcceleration::getTransitionProbability` is `N(cur; F prev, Q)` in product form. -/
theorem gpf_gauss_trans (inv : Mat ℝ n n → Mat ℝ n n) (F Q : Mat ℝ n n) (prev cur : Fin k → Vec ℝ n)
    (hQ : 0 < (toM Q).det) (hinv : InvOnC inv Q) (i : Fin k) :
    gpfGaussTrans inv F Q prev cur i
      = (2 * Real.pi) ^ (-(n : ℝ) / 2) * (toM Q).det ^ (-(1 : ℝ) / 2)
          * Real.exp (-((toV (cur i) - toM F *ᵥ toV (prev i)) ⬝ᵥ
                ((toM Q)⁻¹ *ᵥ (toV (cur i) - toM F *ᵥ toV (prev i)))) / 2) := by
  simp only [gpfGaussTrans, Vec.of_apply, gpfDensity, gpfLogDensity, gpfQuad, GPFProofs.lapDet_eq,
    transc_log, transc_pi, transc_exp, dot_eq, toV_mulVec, toV_sub, hinv.eq]
  have hz : toV (Vec.zero : Vec ℝ n) = 0 := by ext j; simp
  rw [hz, sub_zero]
  exact GPFProofs.gauss_exp_form n hQ _

/-- `GaussianLikelihood::likelihood` (all model calls valid, linear sensor) is
    `scale · N(y; H x, R)` in product form, and reports a valid likelihood. -/
theorem gpf_gauss_lik {m : Nat} (invR : Mat ℝ m m → Mat ℝ m m) (scale : ℝ) (H : Mat ℝ m n) (R : Mat ℝ m m)
    (y : Vec ℝ m) (x : Fin k → Vec ℝ n) (hR : 0 < (toM R).det) (hinv : toM R * toM (invR R) = 1) (i : Fin k) :
    (gpfGaussLik invR scale H R y x).1 = true ∧
    (gpfGaussLik invR scale H R y x).2 i
      = scale * ((2 * Real.pi) ^ (-(m : ℝ) / 2) * (toM R).det ^ (-(1 : ℝ) / 2)
          * Real.exp (-((toV y - toM H *ᵥ toV (x i)) ⬝ᵥ
                ((toM R)⁻¹ *ᵥ (toV y - toM H *ᵥ toV (x i)))) / 2)) := by
  refine ⟨rfl, ?_⟩
  have hi : toM (invR R) = (toM R)⁻¹ := (Matrix.inv_eq_right_inv hinv).symm
  simp only [gpfGaussLik, Vec.of_apply, gpfDensity, gpfLogDensity, gpfQuad, GPFProofs.lapDet_eq,
    transc_log, transc_pi, transc_exp, dot_eq, toV_mulVec, toV_sub, hi]
  have hz : toV (Vec.zero : Vec ℝ m) = 0 := by ext j; simp
  rw [hz, sub_zero]
  exact congrArg (scale * ·) (GPFProofs.gauss_exp_form m hR _)

/-! ### Singular covariance, moments, hand-over, shipped models in full -/

/-- Support of the draw, for *any* factor with `S Sᵀ = P` (singular `P` included): the displacement
    `x − μ` is orthogonal to the kernel of `P`, i.e. the position stays in `μ + range P`.  (There is no
    proposal *density* then: `det P = 0`, see `gpf_singular_no_density`.) -/
theorem gpf_sample_support (μ : Vec ℝ n) (S P : Mat ℝ n n) (z : Vec ℝ n) (hS : SqrtOf S P)
    (v : Fin n → ℝ) (hv : toM P *ᵥ v = 0) :
    v ⬝ᵥ (toV (gpfSample μ S z) - toV μ) = 0 := by
  have hx : toV (gpfSample μ S z) - toV μ = toM S *ᵥ toV z := by simp [gpfSample]
  have h1 : ((toM S)ᵀ *ᵥ v) ⬝ᵥ ((toM S)ᵀ *ᵥ v) = 0 := by
    have : v ⬝ᵥ (toM P *ᵥ v) = 0 := by rw [hv]; simp
    rw [← hS, ← Matrix.mulVec_mulVec, Matrix.dotProduct_mulVec, ← Matrix.mulVec_transpose] at this
    exact this
  have h2 : (toM S)ᵀ *ᵥ v = 0 := dotProduct_self_eq_zero.mp h1
  rw [hx, Matrix.dotProduct_mulVec, ← Matrix.mulVec_transpose, h2]
  simp

/-- For a singular covariance the determinant the code takes the logarithm of is exactly zero (and the
    matrix has no inverse): the proposal density is not defined there — the hypothesis "`P` positive
    definite" of `gpf_proposal_density` cannot be dropped. -/
theorem gpf_singular_no_density (P : Mat ℝ n n) (hP : ¬ IsUnit (toM P)) :
    lapDet n P = 0 := by
  rw [GPFProofs.lapDet_eq]
  by_contra h
  exact hP ((Matrix.isUnit_iff_isUnit_det _).2 (isUnit_iff_ne_zero.mpr h))

/-- First moment of the squared Mahalanobis distance: if every draw component has unit second moment
    under the law `ν` of the draws (true of the standard normal law), the expected squared Mahalanobis
    distance of the new position is the state dimension `n` — the mean of χ²ₙ. -/
theorem gpf_mahalanobis_mean (ν : MeasureTheory.Measure (Fin n → ℝ)) (μ : Vec ℝ n) (S P : Mat ℝ n n)
    (hP : (toM P).PosDef) (hS : SqrtOf S P)
    (hint : ∀ i, MeasureTheory.Integrable (fun z : Fin n → ℝ => z i * z i) ν)
    (hmom : ∀ i, ∫ z, z i * z i ∂ν = 1) :
    ∫ z, (toV (gpfSample μ S (Vec.of z)) - toV μ) ⬝ᵥ
            ((toM P)⁻¹ *ᵥ (toV (gpfSample μ S (Vec.of z)) - toV μ)) ∂ν = (n : ℝ) := by
  have h : (fun z : Fin n → ℝ => (toV (gpfSample μ S (Vec.of z)) - toV μ) ⬝ᵥ
              ((toM P)⁻¹ *ᵥ (toV (gpfSample μ S (Vec.of z)) - toV μ))) = fun z => ∑ i, z i * z i := by
    funext z
    exact (gpf_mahalanobis μ S P (Vec.of z) hP hS).2.2
  rw [h, MeasureTheory.integral_finsetSum _ (fun i _ => hint i)]
  simp [hmom]

/-- `GaussianLikelihood::likelihood`, all branches: valid exactly when all four model calls succeed,
    and then it is `gpfGaussLik`. -/
theorem gpf_gauss_lik_full {m : Nat} (a b c d : Bool) (invR : Mat ℝ m m → Mat ℝ m m) (scale : ℝ)
    (H : Mat ℝ m n) (R : Mat ℝ m m) (y : Vec ℝ m) (x : Fin k → Vec ℝ n) :
    ((gpfGaussLikFull a b c d invR scale H R y x).1 = (a && b && c && d)) ∧
    ((a && b && c && d) = true →
      gpfGaussLikFull a b c d invR scale H R y x = gpfGaussLik invR scale H R y x) := by
  cases a <;> cases b <;> cases c <;> cases d <;> simp [gpfGaussLikFull, gpfGaussLik]

/-- The shipped `WhiteNoiseAcceleration` transition density from its constructor parameters
    `(T, q̃)`: the Gaussian density `N(cur; F prev, Q)` with the closed-form `F`, `Q`. -/
theorem gpf_wna_trans (inv : Mat ℝ n n → Mat ℝ n n) (T q : ℝ) (prev cur : Fin k → Vec ℝ n)
    (hQ : 0 < (toM (gpfWnaQ (n := n) T q)).det) (hinv : InvOnC inv (gpfWnaQ T q)) (i : Fin k) :
    gpfWnaTrans inv T q prev cur i
      = (2 * Real.pi) ^ (-(n : ℝ) / 2) * (toM (gpfWnaQ (n := n) T q)).det ^ (-(1 : ℝ) / 2)
          * Real.exp (-((toV (cur i) - toM (gpfWnaF (n := n) T) *ᵥ toV (prev i)) ⬝ᵥ
                ((toM (gpfWnaQ (n := n) T q))⁻¹ *ᵥ (toV (cur i) - toM (gpfWnaF (n := n) T) *ᵥ toV (prev i)))) / 2) :=
  gpf_gauss_trans inv _ _ prev cur hQ hinv i

/-- Move construction hands over every collaborator: the new object corrects as the source did. -/
theorem gpf_move_construct_same (eps : ℝ) (inv : Mat ℝ n n → Mat ℝ n n) (src : GpfCorrObj ℝ n k)
    (sq : Fin k → Mat ℝ n n) (z : Fin k → Vec ℝ n) (pred out : PSet ℝ n k) :
    gpfObjCorrect eps inv (gpfMoveConstruct src) sq z pred out = gpfObjCorrect eps inv src sq z pred out := rfl

/-- Move assignment hands over every collaborator too (fix 2d4bf06): whatever the target was
    configured with, it corrects as the source did. -/
theorem gpf_move_assign_same (eps : ℝ) (inv : Mat ℝ n n → Mat ℝ n n) (dst src : GpfCorrObj ℝ n k)
    (sq : Fin k → Mat ℝ n n) (z : Fin k → Vec ℝ n) (pred out : PSet ℝ n k) :
    gpfObjCorrect eps inv (gpfMoveAssign dst src) sq z pred out = gpfObjCorrect eps inv src sq z pred out := rfl

/-- Why the assignment must move the likelihood model: an assignment that keeps the target's own
    (the code before 2d4bf06) does not hand over.  Witness (n = k = 1): the target's likelihood model
    reports "invalid", the source's "valid"; the assigned-to object returns the predicted set where the
    source moves the particle from 0 to 1. -/
theorem gpf_move_assign_needs_likelihood_model :
    ¬ ∀ (eps : ℝ) (inv : Mat ℝ 1 1 → Mat ℝ 1 1) (dst src : GpfCorrObj ℝ 1 1)
        (sq : Fin 1 → Mat ℝ 1 1) (z : Fin 1 → Vec ℝ 1) (pred out : PSet ℝ 1 1),
        gpfObjCorrect eps inv (gpfMoveAssignKeepLik dst src) sq z pred out
          = gpfObjCorrect eps inv src sq z pred out := by
  intro h
  let dst : GpfCorrObj ℝ 1 1 := { lik := fun _ => (false, Vec.zero), gc := fun b _ => b, trans := fun _ _ => Vec.zero }
  let src : GpfCorrObj ℝ 1 1 := { lik := fun _ => (true, Vec.zero), gc := fun b _ => b, trans := fun _ _ => Vec.zero }
  let p : PSet ℝ 1 1 := { state := fun _ => Vec.zero,
                          gm := { mean := fun _ => Vec.zero, cov := fun _ => Mat.one, weight := Vec.zero } }
  have := h 1 (fun A => A) dst src (fun _ => Mat.one) (fun _ => Vec.of (fun _ => 1)) p p
  have h2 := congrArg (fun q : PSet ℝ 1 1 => q.state 0 0) this
  simp [gpfObjCorrect, gpfMoveAssignKeepLik, gpfCorrect, gpfDraw, gpfSample, Mat.mulVec_apply, fsum, dst, src, p,
    Fin.foldl_succ, Fin.foldl_zero] at h2

/-! ### Particle sets with angular components (`ParticleSet(k, n − circ, circ)`)

The Gaussian particle filter steps do not look at the layout: the theorems above hold for every row of
the state, angular or not (`gpf_correct_state`: the position is `μ' + S z`, nothing is reduced to
(−π, π]).  The statements below say why it has to be so. -/

/-- A position moved by any vector `d` after the draw (`x = μ + S z + d`; a reduction of an angular row to
    (−π, π] moves the draw by a multiple of `2π` along that row): its squared Mahalanobis distance is
    `zᵀz + 2 dᵀP⁻¹(S z) + dᵀP⁻¹d`, which is `zᵀz` only on a hyperplane of draws. -/
theorem gpf_shifted_draw_quad (μ d : Vec ℝ n) (S P : Mat ℝ n n) (z : Vec ℝ n)
    (hP : (toM P).PosDef) (hS : SqrtOf S P) :
    (toV (gpfSample μ S z) + toV d - toV μ) ⬝ᵥ ((toM P)⁻¹ *ᵥ (toV (gpfSample μ S z) + toV d - toV μ))
      = toV z ⬝ᵥ toV z + 2 * (toV d ⬝ᵥ ((toM P)⁻¹ *ᵥ (toM S *ᵥ toV z))) + toV d ⬝ᵥ ((toM P)⁻¹ *ᵥ toV d) := by
  have hx : toV (gpfSample μ S z) + toV d - toV μ = toM S *ᵥ toV z + toV d := by
    simp [gpfSample]; abel
  rw [hx]
  exact GPFProofs.mahalanobis_shift hP hS (toV z) (toV d)

/-- linear rows are never touched by a reduction of the angular rows -/
theorem gpf_wrap_rows_linear (wrap : ℝ → ℝ) (circ : Nat) (x : Vec ℝ n) (j : Fin n) (hj : j.val < n - circ) :
    gpfWrapRows wrap circ x j = x j := by
  unfold gpfWrapRows
  rw [Vec.of_apply, if_neg (Nat.not_le.mpr hj)]

/-- a reduction that fixes every angular coordinate of a position leaves the position as it is: with all
    angles inside (−π, π] a filter that reduces and one that does not cannot be told apart -/
theorem gpf_wrap_rows_fixed (wrap : ℝ → ℝ) (circ : Nat) (x : Vec ℝ n)
    (h : ∀ j : Fin n, n - circ ≤ j.val → wrap (x j) = x j) :
    ∀ j, gpfWrapRows wrap circ x j = x j := by
  intro j
  unfold gpfWrapRows
  rw [Vec.of_apply]
  by_cases hj : n - circ ≤ j.val
  · rw [if_pos hj, h j hj]
  · rw [if_neg hj]

/-- Why the drawn position must not be reduced to (−π, π]: the Mahalanobis identity (hence the χ² law of
    the distances and the proposal density in the weight) fails.  Witness: one angular component,
    belief `N(3, 1)`, draw `z = 1`: the position `4` lies beyond `π`; reduced, it is `4 − 2π`, at squared
    distance `(1 − 2π)² ≠ 1 = z²` from the mean. -/
theorem gpf_wrapped_draw_breaks_mahalanobis :
    ¬ ∀ (wrap : ℝ → ℝ) (μ : Vec ℝ 1) (S P : Mat ℝ 1 1) (z : Vec ℝ 1),
        (toM P).PosDef → SqrtOf S P →
        gpfQuad (fun A => A) (gpfWrapRows wrap 1 (gpfSample μ S z)) μ P = toV z ⬝ᵥ toV z := by
  intro h
  have hP : (toM (Mat.one : Mat ℝ 1 1)).PosDef := by
    rw [toM_one]; exact Matrix.PosDef.one
  have hS : SqrtOf (Mat.one : Mat ℝ 1 1) Mat.one := by
    simp [SqrtOf]
  have := h (fun a => if Real.pi < a then a - 2 * Real.pi else a) (Vec.of fun _ => 3) Mat.one Mat.one
    (Vec.of fun _ => 1) hP hS
  have h4 : Real.pi < 3 + 1 := by linarith [Real.pi_lt_four]
  simp [gpfQuad, gpfWrapRows, gpfSample, Vec.dot, Vec.sub, Vec.add, Mat.mulVec_apply, Mat.one, fsum,
    Fin.foldl_succ, Fin.foldl_zero, dotProduct, h4] at this
  nlinarith [Real.pi_gt_three]

/-! ### Histories -/

section history
variable (eps : ℝ) (inv : Mat ℝ n n → Mat ℝ n n)

/-- One event adds exactly its increment to every log-weight (zero for a prediction and for a
    correction whose likelihood is invalid). -/
theorem gpf_step_weight (p : PSet ℝ n k) (e : GpfEvent ℝ n k) (i : Fin k) :
    (gpfStep eps inv p e).gm.weight i = p.gm.weight i + gpfIncrement eps inv p e i := by
  cases e with
  | predict gp out => simp [gpfStep, gpfIncrement, gpfPredict]
  | correct gc sq z lik trans out =>
    by_cases hl : (lik (gpfDraw (gc p.gm out.gm) sq z)).1 = true
    · simp only [gpfStep, gpfIncrement]
      rw [gpf_weight_formula eps inv gc sq z lik trans p out hl i]
      simp only [hl]
      simp only [Bool.true_eq_false, if_false, transc_log]
      ring
    · have hl' : (lik (gpfDraw (gc p.gm out.gm) sq z)).1 = false := by simpa using hl
      simp [gpfStep, gpfIncrement, gpf_invalid_likelihood_identity eps inv gc sq z lik trans p out hl', hl']

/-- After any history, every log-weight is the initial one plus the sum of the per-event increments. -/
theorem gpf_history_weight (es : List (GpfEvent ℝ n k)) (p : PSet ℝ n k) (i : Fin k) :
    (gpfRun eps inv p es).gm.weight i = p.gm.weight i + (gpfIncrements eps inv i p es).sum := by
  induction es generalizing p with
  | nil => simp [gpfRun, gpfIncrements]
  | cons e es ih =>
    have h := ih (gpfStep eps inv p e)
    simp only [gpfRun, List.foldl_cons] at h ⊢
    rw [h, gpf_step_weight eps inv p e i]
    simp [gpfIncrements, add_assoc]

/-- Positions change only at corrections with a valid likelihood. -/
theorem gpf_step_state (p : PSet ℝ n k) (e : GpfEvent ℝ n k) (h : gpfUpdates p e = false) :
    (gpfStep eps inv p e).state = p.state ∧ (gpfStep eps inv p e).gm.weight = p.gm.weight := by
  cases e with
  | predict gp out => exact ⟨rfl, rfl⟩
  | correct gc sq z lik trans out =>
    have hl : (lik (gpfDraw (gc p.gm out.gm) sq z)).1 = false := h
    simp [gpfStep, gpf_invalid_likelihood_identity eps inv gc sq z lik trans p out hl]

/-- a belief: per-particle means and covariances -/
abbrev Beliefs (n k : Nat) := (Fin k → Vec ℝ n) × (Fin k → Mat ℝ n n)

def PSet.beliefs (p : PSet ℝ n k) : Beliefs n k := (p.gm.mean, p.gm.cov)

/-- the wrapped Gaussian step of an event -/
def GpfEvent.wrapped : GpfEvent ℝ n k → GStep ℝ n k
  | .predict gp _ => gp
  | .correct gc _ _ _ _ _ => gc

/-- The wrapped step acts on beliefs: its means and covariances are the function `G` of the input
    means and covariances (true of KF, UKF and SUKF steps: they read neither the weights nor the
    previous content of the output). -/
def ActsOnBeliefs (step : GStep ℝ n k) (G : Beliefs n k → Beliefs n k) : Prop :=
  ∀ b out, ((step b out).mean, (step b out).cov) = G (b.mean, b.cov)

/-- what one event does to the beliefs, in terms of the belief map `G` of its wrapped step -/
def beliefStep (b : Beliefs n k) : GpfEvent ℝ n k × (Beliefs n k → Beliefs n k) → Beliefs n k
  | (.predict _ _, G) => G b
  | (.correct _ sq z lik _ _, G) =>
    if (lik (fun i => gpfSample ((G b).1 i) (sq i) (z i))).1 = false then b else G b

theorem gpf_step_beliefs (p : PSet ℝ n k) (e : GpfEvent ℝ n k) (G : Beliefs n k → Beliefs n k)
    (hG : ActsOnBeliefs e.wrapped G) :
    (gpfStep eps inv p e).beliefs = beliefStep p.beliefs (e, G) := by
  cases e with
  | predict gp out =>
    have := hG p.gm out.gm
    simpa [gpfStep, gpfPredict, PSet.beliefs, beliefStep, GpfEvent.wrapped] using this
  | correct gc sq z lik trans out =>
    have hg : ((gc p.gm out.gm).mean, (gc p.gm out.gm).cov) = G (p.gm.mean, p.gm.cov) := hG p.gm out.gm
    have hm : (gc p.gm out.gm).mean = (G (p.gm.mean, p.gm.cov)).1 := congrArg Prod.fst hg
    have hd : gpfDraw (gc p.gm out.gm) sq z = fun i => gpfSample ((G (p.gm.mean, p.gm.cov)).1 i) (sq i) (z i) := by
      funext i; simp [gpfDraw, hm]
    by_cases hl : (lik (gpfDraw (gc p.gm out.gm) sq z)).1 = true
    · have hl2 := hl; rw [hd] at hl2
      have hb := gpf_correct_belief eps inv gc sq z lik trans p out hl
      simp only [gpfStep, PSet.beliefs, beliefStep, hl2, Bool.true_eq_false, if_false, hb.1, hb.2]
      exact hg
    · have hl' : (lik (gpfDraw (gc p.gm out.gm) sq z)).1 = false := by simpa using hl
      have hl2 := hl'; rw [hd] at hl2
      simp [gpfStep, PSet.beliefs, beliefStep, hl2,
        gpf_invalid_likelihood_identity eps inv gc sq z lik trans p out hl']

/-- After any history the beliefs are the composition of the wrapped Gaussian steps (a correction
    whose likelihood is invalid contributes the identity); positions and weights never enter. -/
theorem gpf_history_beliefs (es : List (GpfEvent ℝ n k × (Beliefs n k → Beliefs n k)))
    (hG : ∀ eG ∈ es, ActsOnBeliefs eG.1.wrapped eG.2) (p : PSet ℝ n k) :
    (gpfRun eps inv p (es.map Prod.fst)).beliefs = es.foldl beliefStep p.beliefs := by
  induction es generalizing p with
  | nil => simp [gpfRun]
  | cons eG es ih =>
    have h1 := gpf_step_beliefs eps inv p eG.1 eG.2 (hG eG (by simp))
    have h2 := ih (fun e he => hG e (by simp [he])) (gpfStep eps inv p eG.1)
    simp only [gpfRun, List.map_cons, List.foldl_cons] at h2 ⊢
    rw [h2, h1]

end history

/-! ### Non-vacuity -/

/-- Every invertible `S` is the factor of a positive definite matrix (`P := S Sᵀ`): the contract
    `SqrtOf S P ∧ P.PosDef` is satisfiable in every dimension. -/
theorem sqrtOf_satisfiable (S : Mat ℝ n n) (hS : IsUnit (toM S)) :
    ∃ P : Mat ℝ n n, SqrtOf S P ∧ (toM P).PosDef := by
  refine ⟨Mat.of (fun i j => (toM S * (toM S)ᵀ) i j), rfl, ?_⟩
  have h : toM (Mat.of (fun i j => (toM S * (toM S)ᵀ) i j)) = toM S * (toM S)ᴴ := by
    ext i j; simp [conjTranspose_eq_transpose_of_trivial]
  rw [h]
  apply Matrix.PosDef.mul_conjTranspose_self
  exact Matrix.vecMul_injective_of_isUnit hS

/-- Mathlib's inverse meets `InvOnC` on every positive definite matrix. -/
theorem invOnC_mathlib_inv (P : Mat ℝ n n) (hP : (toM P).PosDef) :
    InvOnC (fun A => Mat.of (fun i j => ((toM A)⁻¹) i j)) P := by
  unfold InvOnC
  have : toM (Mat.of (fun i j => ((toM P)⁻¹) i j)) = (toM P)⁻¹ := rfl
  rw [this, Matrix.mul_nonsing_inv _ ((Matrix.isUnit_iff_isUnit_det _).1 hP.isUnit)]

/-- a concrete instance: `n = 1`, `S = 2`, `P = 4` -/
example : ∃ (S P : Mat ℝ 1 1), SqrtOf S P ∧ (toM P).PosDef := by
  refine ⟨Mat.of (fun _ _ => 2), Mat.of (fun _ _ => 4), ?_, ?_⟩
  · unfold SqrtOf; ext i j; simp [Matrix.mul_apply]; norm_num
  · have : toM (Mat.of (fun _ _ => 4) : Mat ℝ 1 1) = (4 : ℝ) • (1 : Matrix (Fin 1) (Fin 1) ℝ) := by
      ext i j; simp [toM, Subsingleton.elim i j]
    rw [this]; exact Matrix.PosDef.one.smul (by norm_num)

/-- The Kalman prediction and correction act on beliefs (`ActsOnBeliefs` is satisfiable by the steps
    the filter is used with). -/
example (F Q : Mat ℝ n n) (exo : Option (Vec ℝ n → Vec ℝ n)) :
    ActsOnBeliefs (k := k) (kfPredict F Q exo)
      (fun b => (fun i => propagateMean F exo (b.1 i), fun i => kfPredictCov F (b.2 i) Q)) :=
  fun _ _ => rfl

example {m : Nat} (inv : Mat ℝ m m → Mat ℝ m m) (H : Mat ℝ m n) (R : Mat ℝ m m) (y : Vec ℝ m) :
    ActsOnBeliefs (k := k) (kfCorrect inv H R y)
      (fun b => (fun i => kfCorrectMean inv H R y (b.1 i) (b.2 i), fun i => kfCorrectCov inv H R (b.2 i))) :=
  fun _ _ => rfl

/-- both branches of the correction are reachable -/
example : ∃ (lik : (Fin 1 → Vec ℝ 1) → Bool × Vec ℝ 1), ∀ x, (lik x).1 = true :=
  ⟨fun _ => (true, Vec.zero), fun _ => rfl⟩
example : ∃ (lik : (Fin 1 → Vec ℝ 1) → Bool × Vec ℝ 1), ∀ x, (lik x).1 = false :=
  ⟨fun _ => (false, Vec.zero), fun _ => rfl⟩

end BFL
