"""C18 — Quaternion utilities form a consistent exponential/logarithm pair on rotations.

Stages: proof (lean/BFL/Props/C18.lean); tie (Float execution of the model `quatExp/quatLog/quatSum/
quatDiff/outerMean` against the bfl::utils templates of the library rebuilt from the current tree);
oracles on the implementation's outputs that do not use the model:
  * exp / sum: unit norm; as a rotation within the cut-off bound of the mathematical exponential
    (cos(|r|/2), sin(|r|/2) r/|r|) (times q on the LEFT for the sum);
  * log / diff: norm <= pi; the mathematical exponential of the result is, as a rotation, within the
    bound of the input (of q_l * conj(q_r) for the difference); double cover by running the real
    function again on negated operands;
  * round trips through the real functions (second phase: diff(sum(q,r),q) vs r, log(exp r) vs r,
    exp(log q) vs q, sum(q, diff(p,q)) vs p): bound 2e-4, exact when the result is the zero vector;
  * mean: unit norm; eigenvector contract (residual, maximality by an exact rational LDL^T test of
    (lambda+tau) I - M); negated / permuted inputs through the real function again; all inputs +-q;
    inputs placed symmetrically around a centre.
Only observables named by the property raise an alarm (rotations are compared up to sign); the tight
model-vs-implementation agreement is reported in the evidence as a note.
"""
import json
import math
from fractions import Fraction

import vlib
from vlib import hexd, unhex

EPS = 2.0 ** -52
BOUND = 2e-4                    # the property's bound on the cut-off effect (rad)
SLACK = 1e-10                   # floating-point slack on angles (acos near w = 1 has conditioning 1/|vec| <= 1e4)
SLIVER_KEY = "round-trip:log-cutoff-sliver-above-2e-4"
SLIVER_HI = 2.00000001e-4
WIDE_KEY = "mean:symmetric-centre-negative-central-weight"


# ------------------------------------------------------------------ quaternion arithmetic (oracle side)

def qmul(a, b):
    return (a[0] * b[0] - a[1] * b[1] - a[2] * b[2] - a[3] * b[3],
            a[0] * b[1] + a[1] * b[0] + a[2] * b[3] - a[3] * b[2],
            a[0] * b[2] + a[2] * b[0] + a[3] * b[1] - a[1] * b[3],
            a[0] * b[3] + a[3] * b[0] + a[1] * b[2] - a[2] * b[1])


def qconj(a):
    return (a[0], -a[1], -a[2], -a[3])


def qneg(a):
    return tuple(-x for x in a)


def vnorm(v):
    return math.sqrt(math.fsum(x * x for x in v))


def true_exp(r):
    """mathematical exponential (no cut-off): (cos(n/2), sin(n/2) r/n)"""
    n = vnorm(r)
    if n < 1e-8:
        k = 0.5 - n * n / 48.0
    else:
        k = math.sin(n / 2) / n
    return (math.cos(n / 2), k * r[0], k * r[1], k * r[2])


def rotdist(p, q):
    """angle (rad) of the rotation taking q to p, unit quaternions compared up to sign"""
    s = math.fsum(a * b for a, b in zip(p, q))
    if s < 0:
        q = qneg(q)
    d = vnorm([a - b for a, b in zip(p, q)])
    return 4.0 * math.asin(min(1.0, d / 2.0))


def unit_defect(q):
    return abs(math.fsum(x * x for x in q) - 1.0)


# ------------------------------------------------------------------ generators

def rand_dir(r, k=3):
    while True:
        v = [r.gauss(0, 1) for _ in range(k)]
        n = vnorm(v)
        if n > 1e-3:
            return [x / n for x in v]


def axis_dir(r):
    v = [0.0, 0.0, 0.0]
    v[r.randrange(3)] = r.choice([1.0, -1.0])
    return v


CUT = 1e-4
UP = 1.0 + 2.0 ** -52
DN = 1.0 - 2.0 ** -53
NEAR_CUT_NORMS = [CUT, CUT * UP, CUT * DN, 5e-5, 9.9e-5, 1.0000000002e-4, 1.0000000004e-4, 1.0000000005e-4, 1.00000001e-4, 1.01e-4, 1.5e-4, 1.99e-4, 2e-4, 2e-4 * UP,
                  2.000000001e-4, 2.0000000033e-4, 2.0000000034e-4, 2.00000001e-4, 2.001e-4, 2.5e-4, 4e-4, 1e-3, 1e-2]


def gen_rotvec(r, style):
    if style == "general":
        n = r.uniform(0.0, math.pi)
        if n >= math.pi:
            n = 3.0
        return [n * x for x in rand_dir(r)]
    if style == "near-cut":
        n = r.choice(NEAR_CUT_NORMS)
        d = axis_dir(r) if r.random() < 0.6 else rand_dir(r)
        return [n * x for x in d]
    if style == "near-pi":
        n = math.pi - r.choice([1e-3, 1e-5, 2e-6, 1e-7, 1e-9, 1e-12, 4e-16])
        return [n * x for x in (axis_dir(r) if r.random() < 0.5 else rand_dir(r))]
    if style == "tiny":
        n = r.choice([1e-16, 2.3e-16, 1e-15, 1e-14, 1e-12, 1e-10, 1e-8, 1e-7, 1e-6, 10 ** r.uniform(-17.0, -5.0)])
        return [n * x for x in rand_dir(r)]
    if style == "zero":
        return r.choice([[0.0, 0.0, 0.0], [-0.0, 0.0, -0.0], [1e-300, 0.0, 0.0], [0.0, 5e-324, 0.0]])
    if style == "quarter":
        n = r.uniform(0.0, 1.55)
        return [n * x for x in rand_dir(r)]
    raise ValueError(style)


# every angle scale from 1e-8 rad to pi, one decade after the other (class: a branch that exists only in a band of angles —
# a small-angle series between 5e-5 and 1e-3, say — combined with one of the two representatives +-q)
SCALE_DECADES = [-8, -7, -6, -5, -4.3, -4, -3.7, -3.3, -3, -2.5, -2, -1, -0.5, 0, 0.3]


def scale_norm(r, k):
    d = SCALE_DECADES[k % len(SCALE_DECADES)]
    return min(10 ** (d + r.uniform(0.0, 0.5)), math.pi - 10 ** r.uniform(-9, -1))


def scale_rotvec(r, k):
    n = scale_norm(r, k)
    return [n * x for x in (axis_dir(r) if r.random() < 0.3 else rand_dir(r))]


RV_STYLES = ["general", "general", "near-cut", "near-cut", "near-pi", "zero", "tiny"]


def normalise(q):
    n = vnorm(q)
    return [x / n for x in q]


def gen_quat(r, style):
    if style == "uniform":
        return normalise(rand_dir(r, 4))
    if style == "negative-w":
        q = normalise(rand_dir(r, 4))
        return q if q[0] < 0 else [-x for x in q]
    if style == "near-identity":
        rv = gen_rotvec(r, "near-cut")
        q = list(true_exp(rv))
        return q if r.random() < 0.5 else [-x for x in q]
    if style == "at-cut":
        # vector part of norm exactly (or one ulp around) the logarithm's cut-off 5e-5 (and the former one, 1e-4)
        vn = r.choice([5e-5, 5e-5 * UP, 5e-5 * DN, 5e-5, 5e-5 * UP, CUT, CUT * UP, CUT * DN])
        d = axis_dir(r)
        w = math.sqrt(1.0 - vn * vn) * r.choice([1.0, -1.0])
        return [w] + [vn * x for x in d]
    if style == "half-turn":
        w = r.choice([0.0, -0.0, 1e-17, -1e-17, 1e-12, -1e-12, 1e-9, -1e-9, 1e-6, -1e-6, 1e-3, -1e-3])
        d = rand_dir(r) if r.random() < 0.5 else axis_dir(r)
        s = math.sqrt(1.0 - w * w)
        return [w] + [s * x for x in d]
    if style == "identity":
        if r.random() < 0.5:
            q = list(true_exp(gen_rotvec(r, "tiny")))
            return q if r.random() < 0.5 else [-x for x in q]
        return r.choice([[1.0, 0.0, 0.0, 0.0], [-1.0, 0.0, 0.0, 0.0], [1.0, 1e-9, 0.0, 0.0]])
    raise ValueError(style)


Q_STYLES = ["uniform", "uniform", "negative-w", "near-identity", "at-cut", "half-turn", "identity"]


def cm(cols):
    """list of columns -> column-major hex tokens"""
    return [hexd(x) for c in cols for x in c]


# ------------------------------------------------------------------ cases (phase 1)

def case(op, line, **meta):
    meta.update(op=op, line=line)
    return meta


def mk_qexp(rs, **meta):
    return case("qexp", " ".join(["qexp", str(len(rs))] + cm(rs)), r=rs, **meta)


def mk_qlog(qs, **meta):
    return case("qlog", " ".join(["qlog", str(len(qs))] + cm(qs)), q=qs, **meta)


def mk_qsum(qb, rs, **meta):
    return case("qsum", " ".join(["qsum", str(len(qb)), str(len(rs))] + cm(qb) + cm(rs)), q=qb, r=rs, **meta)


def mk_qdiff(ql, qr, **meta):
    return case("qdiff", " ".join(["qdiff", str(len(ql)), str(len(qr))] + cm(ql) + cm(qr)), ql=ql, qr=qr, **meta)


def mk_qmean(w, qs, **meta):
    return case("qmean", " ".join(["qmean", str(len(qs))] + [hexd(x) for x in w] + cm(qs)), w=w, q=qs, **meta)


def tie_weights(r, n):
    """class q: positive weights with exact coincidences between arbitrary pairs of entries (w(1) == w(N-1), w(0) == w(N-1), w(0) == w(1),
    neighbours, a random pair, all equal but one, equal halves) while other entries differ"""
    w = [r.uniform(0.05, 1.0) for _ in range(n)]
    for _ in range(r.choice([1, 1, 2])):
        pat = r.choice(["1,N-1", "1,N-1", "0,N-1", "0,1", "1,2", "pair", "all-but-one", "halves"])
        if pat == "1,N-1" and n >= 3:
            w[n - 1] = w[1]
        elif pat == "0,N-1":
            w[n - 1] = w[0]
        elif pat == "0,1":
            w[1] = w[0]
        elif pat == "1,2" and n >= 3:
            w[2] = w[1]
        elif pat == "all-but-one" and n >= 3:
            k = r.randrange(1, n - 1) if n >= 4 and r.random() < 0.7 else r.randrange(n)
            w = [w[0] if i != k else w[0] * r.choice([0.25, 3.0]) for i in range(n)]
        elif pat == "halves":
            h = n // 2
            w = [w[0]] * h + [w[-1]] * (n - h)
        else:
            i, j = r.randrange(n), r.randrange(n)
            w[j] = w[i]
    s = 2.0 ** math.floor(math.log2(math.fsum(w))) if r.random() < 0.7 else math.fsum(w)   # power of two: ties survive bit for bit
    return [x / s for x in w]


def mk_qchain(q, rs, **meta):
    return case("qsumchain", " ".join(["qsumchain", str(len(rs))] + cm([q]) + cm(rs)), q0=q, r=rs, **meta)


def gen_chain(g, n_each):
    """histories: an attitude state driven through n successive calls of sum_quaternion_rotation_vector (model: `sumTrace`);
    style `unwind` appends the negated increments in reverse order — the history nets to nothing (`chain_unwind`: exactly, cut-off included)"""
    r = g.r
    out = []
    lens = [1, 2, 3, 5, 8, 16, 17, 33, 64, 100]
    for k in range(n_each):
        n = lens[k % len(lens)]
        st = ["general", "near-cut", "every-scale", "tiny", "near-pi", "constant-rate"][(k // len(lens)) % 6]
        q = gen_quat(r, r.choice(Q_STYLES))
        rs = [scale_rotvec(r, j + k) if st == "every-scale" else gen_rotvec(r, st if r.random() < 0.8 else r.choice(RV_STYLES)) for j in range(n)] if st != "constant-rate" else None
        if st == "constant-rate":
            # the same increment applied n times (constant angular velocity): a result cached on the increment alone would be stale
            v = scale_rotvec(r, k)
            rs = [list(v) for _ in range(n)]
        if k % 2 == 0:
            out.append(mk_qchain(q, rs, style="chain:" + st))
        else:
            out.append(mk_qchain(q, rs + [[-x for x in v] for v in reversed(rs)], style="chain-unwind:" + st, unwind=True))
    return out


def check_chain(cases, H, D, P, stats):
    for idx, c in enumerate(cases):
        if c["op"] != "qsumchain":
            continue
        n = len(c["r"])
        cols, why = parse_cols(H[idx], 4, n)
        if cols is None:
            P.append(("prop", "chain:no-result", "a history of %d calls of sum_quaternion_rotation_vector failed: %s" % (n, why), idx)); continue
        dcols, br = parse_cols(D.get(idx, "missing"), 4, n)
        if dcols is None:
            P.append(("corr", "chain:model-undefined", "driver: %s" % br, idx)); br = []
        for b in br:
            stats["branches"]["chain/" + b] = stats["branches"].get("chain/" + b, 0) + 1
        stats["chain_steps"] = stats.get("chain_steps", 0) + n
        prev = c["q0"]
        for j, q in enumerate(cols):
            if not finite(q):
                P.append(("prop", "chain:not-finite", "step %d of a history of sums is %r" % (j, q), idx)); break
            ud = unit_defect(q)
            stats["max_chain_unit_defect"] = max(stats.get("max_chain_unit_defect", 0.0), ud)
            if ud > 1e-13 * (j + 2):
                P.append(("prop", "chain:not-unit", "step %d of a history of sums started at a unit quaternion has squared norm 1%+.3g" % (j, math.fsum(x * x for x in q) - 1.0), idx))
            d = rotdist(q, qmul(true_exp(c["r"][j]), prev))
            if d > BOUND + SLACK:
                P.append(("prop", "chain:wrong-step", "step %d of a history of sums is %.6g rad away (as a rotation) from exp(r/2)-quaternion * previous state; bound %.1e" % (j, d, BOUND), idx))
            if dcols is not None and rotdist(q, dcols[j]) > SLACK * (j + 1):
                P.append(("corr", "chain:model-vs-impl", "step %d: model %r implementation %r" % (j, dcols[j], q), idx))
            prev = q
        if c.get("unwind") and cols and finite(cols[-1]):
            e = rotdist(cols[-1], c["q0"])
            stats["max_chain_unwind_dev"] = max(stats.get("max_chain_unwind_dev", 0.0), e)
            if e > 1e-13 * (n + 8) * 8:
                P.append(("prop", "chain:unwind", "%d increments followed by their negatives in reverse order end %.3g rad away from the initial quaternion %r (exp(-r) is the conjugate of exp(r) in either branch: the history nets to nothing)" % (n // 2, e, c["q0"]), idx))


def mean_weights(r, n, style):
    if n == 1:
        return [1.0]
    if style == "ties":
        return tie_weights(r, n)
    if style == "uniform":
        return [1.0 / n] * n
    w = [r.uniform(0.05, 1.0) for _ in range(n)]
    s = math.fsum(w)
    return [x / s for x in w]


WIDTHS = [1, 2, 3, 4, 5, 6, 7, 8, 15, 16, 17, 31, 32, 33, 40, 12, 24]      # incl. SIMD / fast-path boundaries; non-monotone on purpose
# class p: long batches at chunk boundaries (multiples of 64 / 128 / 256 and their neighbours, up to 1025), every run, every function;
# the order is non-monotone (class v: a static scratch matrix that only grows keeps stale columns when a shorter batch follows)
LONG_WIDTHS = [256, 63, 1024, 64, 65, 512, 127, 128, 129, 255, 257, 1025, 511, 513, 768, 1023, 2, 1]
DIFF_STYLES = ["independent", "close", "coincident", "opposite-cover", "half-turn-apart", "close", "coincident"]


def coincident(r, q):
    """a unit quaternion equal or almost equal to q: bit-identical, renormalised copy, one ulp off, exp(r) * q with |r| from 0
    through 1e-16 .. 1e-6 (the product q' * conj(q) then has w within an ulp of 1, possibly above it), either sign"""
    kind = r.choice(["equal", "renormalised", "ulp", "tiny", "tiny", "tiny", "tiny"])
    if kind == "equal":
        p = list(q)
    elif kind == "renormalised":
        sc = r.choice([1.0 + 2.0 ** -52, 1.0 - 2.0 ** -53, 1.0 + 2.0 ** -51])
        p = normalise([x * sc for x in q]) if r.random() < 0.5 else [x * sc for x in q]
    elif kind == "ulp":
        p = list(q)
        i = r.randrange(4)
        p[i] = math.nextafter(p[i], r.choice([-2.0, 2.0]))
    else:
        n = r.choice([0.0, 1e-16, 2.3e-16, 5e-16, 1e-15, 3e-15, 1e-14, 1e-13, 1e-12, 1e-10, 1e-8, 1e-7, 1e-6, 10 ** r.uniform(-16.5, -6.0)])
        p = list(qmul(true_exp([n * x for x in rand_dir(r)]), q))
    return p if r.random() < 0.75 else [-x for x in p]


def neardup_rv(r, rs):
    """class d: consecutive columns equal or isApprox-equal (3e-3 relative) — exposes 'reuse the previous column' shortcuts"""
    out = [rs[0]]
    for _ in rs[1:]:
        p = out[-1]
        if r.random() < 0.2:
            out.append(list(p))
        else:
            d = rand_dir(r)
            sc = 3e-3 * max(vnorm(p), 0.05)
            out.append([x + sc * y for x, y in zip(p, d)])
    return out


def neardup_q(r, qs):
    out = [qs[0]]
    for _ in qs[1:]:
        p = out[-1]
        if r.random() < 0.2:
            out.append(list(p))
        else:
            out.append(list(qmul(true_exp([3e-3 * x for x in rand_dir(r)]), p)))
    return out


def gen_phase1(g, n_each):
    r = g.r
    cases = []
    widths = WIDTHS
    for k in range(n_each):
        n = widths[k % len(widths)]
        st = RV_STYLES[(k // len(widths)) % len(RV_STYLES)]
        rs = [gen_rotvec(r, st if r.random() < 0.8 else r.choice(RV_STYLES)) for _ in range(n)]
        if n >= 2 and st == "general" and r.random() < 0.5:
            rs, st = neardup_rv(r, rs), "near-duplicate-columns"
        cases.append(mk_qexp(rs, style=st))
    for k in range(n_each):
        n = widths[k % len(widths)]
        st = Q_STYLES[(k // len(widths)) % len(Q_STYLES)]
        qs = [gen_quat(r, st if r.random() < 0.8 else r.choice(Q_STYLES)) for _ in range(n)]
        if n >= 2 and st in ("uniform", "negative-w") and r.random() < 0.5:
            qs, st = neardup_q(r, qs), "near-duplicate-columns"
        cases.append(mk_qlog(qs, style=st))
    for k in range(n_each):
        n = widths[k % len(widths)]
        m = r.choice([1, 1, 2, 3])
        st = RV_STYLES[(k // len(widths)) % len(RV_STYLES)]
        qb = [gen_quat(r, r.choice(Q_STYLES)) for _ in range(m)]
        rs = [gen_rotvec(r, st if r.random() < 0.8 else r.choice(RV_STYLES)) for _ in range(n)]
        if n >= 2 and st == "general" and r.random() < 0.5:
            rs, st = neardup_rv(r, rs), "near-duplicate-columns"
        cases.append(mk_qsum(qb, rs, style=st))
    for k in range(n_each):
        n = widths[k % len(widths)]
        m = r.choice([1, 1, 2, 3])
        st = DIFF_STYLES[(k // len(widths)) % len(DIFF_STYLES)]
        qr = [gen_quat(r, r.choice(Q_STYLES)) for _ in range(m)]
        ql = []
        for _ in range(n):
            if st == "independent":
                ql.append(gen_quat(r, r.choice(Q_STYLES)))
            elif st == "close":
                ql.append(list(qmul(true_exp(gen_rotvec(r, r.choice(["near-cut", "general", "zero"]))), qr[0])))
            elif st == "coincident":
                ql.append(coincident(r, qr[0]))
            elif st == "opposite-cover":
                ql.append([-x for x in qmul(true_exp(gen_rotvec(r, r.choice(["near-cut", "general"]))), qr[0])])
            else:
                ql.append(list(qmul(true_exp(gen_rotvec(r, "near-pi")), qr[0])))
        if n >= 2 and st == "independent" and r.random() < 0.5:
            ql, st = neardup_q(r, ql), "near-duplicate-columns"
        base = len(cases)
        cases.append(mk_qdiff(ql, qr, style=st))
        # double cover: the real function again with negated operands
        cases.append(mk_qdiff([[-x for x in c] for c in ql], qr, style=st, sibling="neg-left", of=base))
        cases.append(mk_qdiff(ql, [[-x for x in c] for c in qr], style=st, sibling="neg-right", of=base))
    # ---- antipodal representatives at every angle scale 1e-8 .. pi, every function that takes a quaternion
    n_scale = max(2, n_each // 30)
    for rep in range(n_scale):
        n = len(SCALE_DECADES) * 2
        rs = [scale_rotvec(r, k // 2) for k in range(n)]
        sg = [1.0 if k % 2 == 0 else -1.0 for k in range(n)]
        if rep % 2 == 1:
            sg = [r.choice([1.0, -1.0]) for _ in range(n)]
        # logarithm: columns 2k, 2k+1 hold the same angle scale with the two signs; sibling: every column negated
        qs = [[s_ * x for x in true_exp(v)] for s_, v in zip(sg, rs)]
        base = len(cases)
        cases.append(mk_qlog(qs, style="antipodal-scale"))
        cases.append(mk_qlog([[-x for x in c] for c in qs], style="antipodal-scale", sibling="neg", of=base))
        # difference: q_l = +-(exp(r) q_r), q_r with either sign of w
        qr = [gen_quat(r, r.choice(["uniform", "negative-w", "half-turn", "identity"]))]
        ql = [[s_ * x for x in qmul(true_exp(v), qr[0])] for s_, v in zip(sg, rs)]
        base = len(cases)
        cases.append(mk_qdiff(ql, qr, style="antipodal-scale"))
        cases.append(mk_qdiff([[-x for x in c] for c in ql], qr, style="antipodal-scale", sibling="neg-left", of=base))
        cases.append(mk_qdiff(ql, [[-x for x in c] for c in qr], style="antipodal-scale", sibling="neg-right", of=base))
        # sum: the base quaternion with either sign (the result is the same rotation)
        qb = [gen_quat(r, r.choice(Q_STYLES))]
        base = len(cases)
        cases.append(mk_qsum(qb, rs, style="antipodal-scale"))
        cases.append(mk_qsum([[-x for x in qb[0]]], rs, style="antipodal-scale", sibling="neg-base", of=base))
        cases.append(mk_qexp(rs, style="every-scale"))
    # ---- long batches (chunk boundaries), non-monotone order
    for n in (LONG_WIDTHS if n_each < 1000 else LONG_WIDTHS * 3):
        st = r.choice(["general", "near-cut"])
        rs = [gen_rotvec(r, st if r.random() < 0.8 else r.choice(RV_STYLES)) for _ in range(n)]
        cases.append(mk_qexp(rs, style="long"))
        qs = [gen_quat(r, r.choice(Q_STYLES)) for _ in range(n)]
        cases.append(mk_qlog(qs, style="long"))
        qb = [gen_quat(r, r.choice(Q_STYLES))]
        cases.append(mk_qsum(qb, rs, style="long"))
        ql = [list(qmul(true_exp(v), qb[0])) if r.random() < 0.7 else gen_quat(r, "uniform") for v in rs]
        cases.append(mk_qdiff(ql, qb, style="long"))
    # ---- class a/v: consecutive calls of the SAME function with the same width and different content, and with the same
    # batch and a different single quaternion (a result cached on the first call and keyed on a size or on one argument only)
    for n in (1, 3, 16):
        for rep in range(2):
            rs = [gen_rotvec(r, "general") for _ in range(n)]
            cases.append(mk_qexp(rs, style="same-width"))
        for rep in range(2):
            cases.append(mk_qlog([gen_quat(r, "uniform") for _ in range(n)], style="same-width"))
        rs = [gen_rotvec(r, "general") for _ in range(n)]
        for rep in range(3):
            cases.append(mk_qsum([gen_quat(r, "uniform")], rs if rep == 1 else [gen_rotvec(r, "general") for _ in range(n)], style="same-width"))
            if rep == 0:
                rs = cases[-1]["r"]
        ql = [gen_quat(r, "uniform") for _ in range(n)]
        for rep in range(3):
            cases.append(mk_qdiff(ql if rep == 1 else [gen_quat(r, "uniform") for _ in range(n)], [gen_quat(r, "uniform")], style="same-width"))
            if rep == 0:
                ql = cases[-1]["ql"]
    return cases


def unscented_weights(r, k):
    """2k+1 weights, central one negative, sum 1"""
    s = r.uniform(0.3, 0.95) * k            # n + lambda in (0, k)
    return [1.0 - k / s] + [1.0 / (2.0 * s)] * (2 * k)


def gen_mean(g, n_each):
    r = g.r
    cases = []
    styles = ["random", "clustered", "all-equal", "symmetric", "symmetric-unscented", "single", "unscented-wide", "ties", "antipodal-scale", "long"]
    long_i = 0
    for k in range(n_each):
        st = styles[k % len(styles)]
        extra = {}
        if st == "ties":
            # weights with coincidences between pairs of entries; inputs spread widely so that a mis-weighted input moves the mean
            n = r.choice([3, 4, 5, 5, 6, 7, 9, 16, 17, 33])
            c = gen_quat(r, "uniform")
            sp = r.choice([0.3, 0.7, 1.0])
            qs = [list(qmul(true_exp([sp * x for x in gen_rotvec(r, "quarter")]), c)) for _ in range(n)]
            qs = [(q if r.random() < 0.7 else [-x for x in q]) for q in qs]
            w = tie_weights(r, n)
        elif st == "antipodal-scale":
            # clusters of every angular size 1e-8 .. 1 rad, random representatives
            n = r.choice([2, 3, 5, 8, 17])
            c = gen_quat(r, r.choice(["uniform", "negative-w", "half-turn"]))
            sp = min(scale_norm(r, k // len(styles)), 1.2)
            qs = [list(qmul(true_exp([sp * x for x in rand_dir(r)]), c)) for _ in range(n)]
            qs = [(q if r.random() < 0.5 else [-x for x in q]) for q in qs]
            w = mean_weights(r, n, r.choice(["uniform", "positive", "ties"]))
        elif st == "long":
            # particle-set sizes at chunk boundaries
            n = LONG_WIDTHS[long_i % (len(LONG_WIDTHS) - 2)]
            long_i += 1
            c = gen_quat(r, "uniform")
            sp = r.choice([1e-3, 0.1, 0.5])
            qs = [list(qmul(true_exp([sp * x for x in gen_rotvec(r, "quarter")]), c)) for _ in range(n)]
            qs = [(q if r.random() < 0.7 else [-x for x in q]) for q in qs]
            w = mean_weights(r, n, r.choice(["uniform", "positive"]))
        elif st == "single":
            qs = [gen_quat(r, r.choice(Q_STYLES))]
            w = [1.0]
        elif st == "random":
            n = r.choice([2, 3, 4, 5, 6, 7, 7, 15, 16, 17, 32, 33, 40])
            qs = [gen_quat(r, "uniform") for _ in range(n)]
            w = mean_weights(r, n, r.choice(["uniform", "positive", "ties"]))
        elif st == "clustered":
            n = r.choice([2, 3, 4, 5, 6, 7, 7, 15, 16, 17, 32, 33, 40])
            c = gen_quat(r, "uniform")
            sp = r.choice([1e-3, 0.1, 0.5, 1.0])
            qs = [list(qmul(true_exp([sp * x for x in gen_rotvec(r, "quarter")]), c)) for _ in range(n)]
            qs = [(q if r.random() < 0.7 else [-x for x in q]) for q in qs]
            w = mean_weights(r, n, r.choice(["uniform", "positive", "ties"]))
        elif st == "all-equal":
            n = r.choice([1, 2, 3, 4, 5, 6, 7, 16, 17, 33, 40])
            q0 = gen_quat(r, r.choice(Q_STYLES))
            qs = [(list(q0) if r.random() < 0.5 else [-x for x in q0]) for _ in range(n)]
            if n % 2 == 1 and n >= 3 and r.random() < 0.4:
                w = unscented_weights(r, (n - 1) // 2)
            else:
                w = mean_weights(r, n, r.choice(["uniform", "positive"]))
            extra["q0"] = q0
        else:
            kk = r.choice([1, 2, 3, 3, 8, 16, 19])
            c = gen_quat(r, r.choice(["uniform", "negative-w", "half-turn"]))
            rs = [gen_rotvec(r, r.choice(["quarter", "quarter", "near-cut"])) for _ in range(kk)]
            qs = [list(c)] + [list(qmul(true_exp(x), c)) for x in rs] + [list(qmul(true_exp([-y for y in x]), c)) for x in rs]
            if st == "unscented-wide":
                # scaled unscented set (alpha 0.1 / 0.3: central weight -99 / -10.1) with a wide spread in 2..3 directions
                kk = r.randint(2, 3)
                rs = [[r.uniform(0.8, 1.55) * x for x in d] for d in ([1.0, 0.0, 0.0], [0.0, 1.0, 0.0], [0.0, 0.0, 1.0])[:kk]]
                qs = [list(c)] + [list(qmul(true_exp(x), c)) for x in rs] + [list(qmul(true_exp([-y for y in x]), c)) for x in rs]
                alpha = r.choice([0.1, 0.3])
                sc = alpha * alpha * kk
                w = [1.0 - kk / sc] + [1.0 / (2.0 * sc)] * (2 * kk)
            elif st == "symmetric":
                wk = [r.uniform(0.05, 1.0) for _ in range(kk)]
                w0 = r.choice([0.0, r.uniform(0.05, 1.0)])
                s = w0 + 2 * math.fsum(wk)
                w = [w0 / s] + [x / s for x in wk] * 2
            else:
                w = unscented_weights(r, kk)
            extra["centre"] = c
            extra["rs"] = [[0.0, 0.0, 0.0]] + rs + [[-y for y in x] for x in rs]
        base = len(cases)
        cases.append(mk_qmean(w, qs, style=st, **extra))
        n = len(qs)
        signs = [r.choice([1.0, -1.0]) for _ in range(n)]
        if all(s > 0 for s in signs):
            signs[r.randrange(n)] = -1.0
        cases.append(mk_qmean(w, [[s * x for x in q] for s, q in zip(signs, qs)], style=st, sibling="negated", of=base))
        if n >= 2:
            perm = list(range(n))
            while perm == list(range(n)):
                r.shuffle(perm)
            cases.append(mk_qmean([w[i] for i in perm], [qs[i] for i in perm], style=st, sibling="permuted", of=base))
    return cases


# ------------------------------------------------------------------ parsing

import re as _re
_HEX16 = _re.compile(r"[0-9a-f]{16}")


def is_hex(x):
    return _HEX16.fullmatch(x) is not None


def parse_cols(out, k, n):
    """`ok [branches] v...` -> (list of n columns of k floats, branch list) or (None, why)"""
    t = out.split()
    if not t or t[0] != "ok":
        return None, out[:80]
    br = []
    vals = t[1:]
    if vals and not is_hex(vals[0]):
        br = [] if vals[0] == "-" else vals[0].split(",")
        vals = vals[1:]
    if len(vals) != k * n or not all(is_hex(x) for x in vals):
        return None, "malformed output"
    f = [unhex(x) for x in vals]
    return [f[j * k:(j + 1) * k] for j in range(n)], br


def finite(v):
    return all(not (math.isnan(x) or math.isinf(x)) for x in v)


# ------------------------------------------------------------------ symmetric 4x4 eigenvalues (tolerance scaling only)

def jacobi_eigs(A):
    n = len(A)
    A = [list(map(float, row)) for row in A]
    for _ in range(30):
        off = sum(A[i][j] ** 2 for i in range(n) for j in range(n) if i != j)
        if off < 1e-300:
            break
        for p in range(n):
            for q in range(p + 1, n):
                if abs(A[p][q]) < 1e-300:
                    continue
                th = (A[q][q] - A[p][p]) / (2.0 * A[p][q])
                t = (1.0 if th >= 0 else -1.0) / (abs(th) + math.sqrt(th * th + 1.0))
                c = 1.0 / math.sqrt(t * t + 1.0)
                s = t * c
                for k in range(n):
                    akp, akq = A[k][p], A[k][q]
                    A[k][p], A[k][q] = c * akp - s * akq, s * akp + c * akq
                for k in range(n):
                    apk, aqk = A[p][k], A[q][k]
                    A[p][k], A[q][k] = c * apk - s * aqk, s * apk + c * aqk
    return sorted((A[i][i] for i in range(n)), reverse=True)


def _scaled_ints(xs):
    """finite doubles -> (integers n_i, k) with x_i = n_i / 2**k exactly"""
    rs = [float(x).as_integer_ratio() for x in xs]
    k = max([d.bit_length() - 1 for _, d in rs] + [0])
    return [n << (k - (d.bit_length() - 1)) for n, d in rs], k


def outer_exact(w, qs):
    """sum_i w_i q_i q_i^T exactly (Fractions), computed in scaled integer arithmetic (long particle sets)"""
    W, kw = _scaled_ints(w)
    flat, kq = _scaled_ints([x for q in qs for x in q])
    Q = [flat[4 * i:4 * i + 4] for i in range(len(qs))]
    den = 1 << (kw + 2 * kq)
    M = [[None] * 4 for _ in range(4)]
    for a in range(4):
        for b in range(a, 4):
            M[a][b] = M[b][a] = Fraction(sum(wi * q[a] * q[b] for wi, q in zip(W, Q)), den)
    return M


def vec_dist_up_to_sign(u, v):
    s = 1.0 if math.fsum(a * b for a, b in zip(u, v)) >= 0 else -1.0
    return vnorm([a - s * b for a, b in zip(u, v)])


# ------------------------------------------------------------------ oracles, phase 1

def chk_exp_like(c, idx, cols, dcols, expected, key, what, P, stats):
    """cols: implementation quaternions; expected: mathematical quaternions (oracle)"""
    for j, q in enumerate(cols):
        if not finite(q):
            P.append(("prop", key + ":not-finite", "%s: column %d is %r (expected about %r)" % (what, j, q, expected[j]), idx)); continue
        ud = unit_defect(q)
        stats["max_unit_defect"] = max(stats.get("max_unit_defect", 0.0), ud)
        if ud > 1e-13:
            P.append(("prop", key + ":not-unit", "%s: column %d has squared norm 1%+.3g" % (what, j, math.fsum(x * x for x in q) - 1.0), idx))
        d = rotdist(q, expected[j])
        if d > BOUND + SLACK:
            P.append(("prop", key + ":wrong-rotation", "%s: column %d is %.6g rad away (as a rotation) from %s; bound %.1e" % (what, j, d, c["expect_text"], BOUND), idx))
        elif d > SLACK:
            stats["cutoff_effect_" + key] = max(stats.get("cutoff_effect_" + key, 0.0), d)
        if dcols is not None:
            t = max(abs(a - b) for a, b in zip(q, dcols[j]))
            stats["tight_max_" + key] = max(stats.get("tight_max_" + key, 0.0), t)
            if t > 64 * EPS:
                stats["tight_disagreements"] = stats.get("tight_disagreements", 0) + 1
            if rotdist(q, dcols[j]) > BOUND + SLACK:
                P.append(("corr", key + ":model-vs-impl", "%s column %d: model %r implementation %r" % (what, j, dcols[j], q), idx))


def chk_log_like(c, idx, cols, dcols, inputs, key, what, P, stats):
    """cols: implementation rotation vectors; inputs: the unit quaternions whose logarithm they should be"""
    for j, v in enumerate(cols):
        if not finite(v):
            P.append(("prop", key + ":not-finite", "%s: column %d is %r for the finite argument %r" % (what, j, v, inputs[j]), idx)); continue
        n = vnorm(v)
        if n > math.pi + 1e-12:
            P.append(("prop", key + ":norm-above-pi", "%s: column %d has norm %.17g > pi (q and -q must be the same rotation)" % (what, j, n), idx))
        d = rotdist(true_exp(v), inputs[j])
        if d > BOUND + SLACK:
            P.append(("prop", key + ":wrong-rotation", "%s: column %d: exp of the result is %.6g rad away (as a rotation) from %s; bound %.1e" % (what, j, d, c["expect_text"], BOUND), idx))
        elif d > SLACK:
            stats["cutoff_effect_" + key] = max(stats.get("cutoff_effect_" + key, 0.0), d)
        if dcols is not None:
            t = max(abs(a - b) for a, b in zip(v, dcols[j]))
            vn = max(vnorm(inputs[j][1:]), 1e-300)
            stats["tight_max_" + key] = max(stats.get("tight_max_" + key, 0.0), t * min(1.0, vn))
            if t > 64 * EPS * (1.0 + 1.0 / vn):
                stats["tight_disagreements"] = stats.get("tight_disagreements", 0) + 1
            if rotdist(true_exp(v), true_exp(dcols[j])) > BOUND + SLACK:
                P.append(("corr", key + ":model-vs-impl", "%s column %d: model %r implementation %r" % (what, j, dcols[j], v), idx))


def check_phase1(cases, H, D, P, stats):
    for idx, c in enumerate(cases):
        op = c["op"]
        if op in ("qmean", "qsumchain"):
            continue
        k = 4 if op in ("qexp", "qsum") else 3
        n = len(c["r"]) if op in ("qexp", "qsum") else len(c["q"] if op == "qlog" else c["ql"])
        cols, hb = parse_cols(H[idx], k, n)
        if cols is None:
            P.append(("prop", op + ":no-result", "%s failed on a valid input: %s" % (op, hb), idx)); c["res"] = None; continue
        c["res"] = cols
        dcols, br = parse_cols(D[idx], k, n)
        if dcols is None:
            P.append(("corr", op + ":model-undefined", "driver: %s" % br, idx)); br = []
        for b in br:
            stats["branches"][b] = stats["branches"].get(b, 0) + 1
        if op == "qexp":
            c["expect_text"] = "(cos(|r|/2), sin(|r|/2) r/|r|)"
            chk_exp_like(c, idx, cols, dcols, [true_exp(r) for r in c["r"]], "exp", "rotation_vector_to_quaternion", P, stats)
        elif op == "qsum":
            c["expect_text"] = "exp(r/2)-quaternion * q (left multiplication)"
            chk_exp_like(c, idx, cols, dcols, [qmul(true_exp(r), c["q"][0]) for r in c["r"]], "sum", "sum_quaternion_rotation_vector", P, stats)
            if "sibling" in c and cases[c["of"]].get("res") is not None:
                for j, (v, vb) in enumerate(zip(cols, cases[c["of"]]["res"])):
                    if finite(v) and finite(vb) and rotdist(v, vb) > 1e-9:
                        P.append(("prop", "sum:double-cover", "sum_quaternion_rotation_vector: column %d changes as a rotation (%r -> %r) when the quaternion is replaced by its negative" % (j, vb, v), idx))
        elif op == "qlog":
            c["expect_text"] = "the input quaternion"
            chk_log_like(c, idx, cols, dcols, c["q"], "log", "quaternion_to_rotation_vector", P, stats)
            if "sibling" in c and cases[c["of"]].get("res") is not None:
                for j, (v, vb) in enumerate(zip(cols, cases[c["of"]]["res"])):
                    if finite(v) and finite(vb) and rotdist(true_exp(v), true_exp(vb)) > 1e-9:
                        P.append(("prop", "log:double-cover", "quaternion_to_rotation_vector changes from %r to %r when the quaternion %r is negated (q and -q are the same rotation)" % (vb, v, cases[c["of"]]["q"][j]), idx))
        else:
            c["expect_text"] = "q_left * conj(q_right)"
            chk_log_like(c, idx, cols, dcols, [qmul(q, qconj(c["qr"][0])) for q in c["ql"]], "diff", "diff_quaternion", P, stats)
            if "sibling" in c and cases[c["of"]].get("res") is not None:
                for j, (v, vb) in enumerate(zip(cols, cases[c["of"]]["res"])):
                    if finite(v) and finite(vb) and rotdist(true_exp(v), true_exp(vb)) > 1e-9:
                        P.append(("prop", "diff:double-cover", "diff_quaternion changes from %r to %r when %s is negated (q and -q are the same rotation)"
                                  % (vb, v, "the left operand" if c["sibling"] == "neg-left" else "the right operand"), idx))


# ------------------------------------------------------------------ phase 2: round trips through the real functions

BOUND_SQ = Fraction(1, 5000) ** 2


def gen_phase2(cases):
    out = []
    for idx, c in enumerate(cases):
        res = c.get("res")
        if res is None or "sibling" in c or c["op"] == "qsumchain":
            continue
        if c["op"] == "qsum":
            out.append(case("qdiff", " ".join(["qdiff", str(len(res)), str(len(c["q"]))] + cm(res) + cm(c["q"])), rt="diff(sum(q,r),q)", src=idx))
        elif c["op"] == "qexp":
            out.append(case("qlog", " ".join(["qlog", str(len(res))] + cm(res)), rt="log(exp(r))", src=idx))
        elif c["op"] == "qlog":
            out.append(case("qexp", " ".join(["qexp", str(len(res))] + cm(res)), rt="exp(log(q))", src=idx))
        elif c["op"] == "qdiff":
            out.append(case("qsum", " ".join(["qsum", str(len(c["qr"])), str(len(res))] + cm(c["qr"]) + cm(res)), rt="sum(q,diff(p,q))", src=idx))
    return out


def check_phase2(cases, p2, H2, P, stats):
    for k, d in enumerate(p2):
        src = cases[d["src"]]
        kk = 3 if d["op"] in ("qdiff", "qlog") else 4
        n = len(src["res"])
        cols, why = parse_cols(H2[k], kk, n)
        ref = ("p2", k)
        if cols is None:
            P.append(("prop", "round-trip:no-result", "%s failed: %s" % (d["rt"], why), ref)); continue
        stats["round_trips"][d["rt"]] = stats["round_trips"].get(d["rt"], 0) + n
        for j, v in enumerate(cols):
            if not finite(v):
                P.append(("prop", "round-trip:not-finite", "%s: column %d not finite" % (d["rt"], j), ref)); continue
            if kk == 3:
                r = src["r"][j]
                nr = vnorm(r)
                if nr >= math.pi:
                    continue                                    # outside the quantifier (norm below pi)
                if nr >= math.pi - 1e-6:
                    # w = cos(|r|/2) is within rounding of 0: r and -(2 pi - |r|) r/|r| are indistinguishable in double
                    e = rotdist(true_exp(v), true_exp(r))
                    bad = e > BOUND + SLACK
                elif all(x == 0.0 for x in v):
                    # cut-off branch: the error is |r| exactly, no rounding involved: exact comparison
                    e = nr
                    bad = sum(Fraction(x) ** 2 for x in r) > BOUND_SQ
                else:
                    e = vnorm([a - b for a, b in zip(v, r)])
                    bad = e > BOUND + SLACK
                    if e > SLACK:
                        stats["regular_branch_roundtrip_above_slack"] = stats.get("regular_branch_roundtrip_above_slack", 0) + 1
                stats["max_roundtrip_" + d["rt"]] = max(stats.get("max_roundtrip_" + d["rt"], 0.0), e)
                if bad:
                    sliver = all(x == 0.0 for x in v) and nr <= SLIVER_HI
                    P.append(("prop", SLIVER_KEY if sliver else "round-trip:bound-2e-4-exceeded",
                              "%s gives %r for r = %r (|r| = %.12g): off by %.12g rad > 2e-4" % (d["rt"], v, r, nr, e), ref))
            else:
                target = src["q"][j] if d["op"] == "qexp" else src["ql"][j]
                e = rotdist(v, target)
                stats["max_roundtrip_" + d["rt"]] = max(stats.get("max_roundtrip_" + d["rt"], 0.0), e)
                if e > BOUND + SLACK:
                    P.append(("prop", "round-trip:" + ("exp-log" if d["op"] == "qexp" else "sum-diff"),
                              "%s is %.6g rad away (as a rotation) from the quaternion it started from (%r)" % (d["rt"], e, target), ref))
                if unit_defect(v) > 1e-13:
                    P.append(("prop", "round-trip:not-unit", "%s is not a unit quaternion: %r" % (d["rt"], v), ref))


# ------------------------------------------------------------------ mean

def check_mean(cases, H, Dm, P, stats):
    for idx, c in enumerate(cases):
        if c["op"] != "qmean":
            continue
        cols, why = parse_cols(H[idx], 4, 1)
        if cols is None or not finite(cols[0]):
            P.append(("prop", "mean:no-result", "mean_quaternion failed on a valid input: %s" % (why if cols is None else "not finite"), idx)); c["res"] = None; continue
        v = cols[0]
        c["res"] = v
        w, qs = c["w"], c["q"]
        scale = math.fsum(abs(x) for x in w)
        stats["mean_styles"][c["style"] + ("/" + c["sibling"] if "sibling" in c else "")] = stats["mean_styles"].get(c["style"] + ("/" + c["sibling"] if "sibling" in c else ""), 0) + 1
        if unit_defect(v) > 1e-12:
            P.append(("prop", "mean:not-unit", "mean_quaternion returned %r, squared norm 1%+.3g" % (v, math.fsum(x * x for x in v) - 1.0), idx))
        if "_M" not in c:
            c["_M"] = outer_exact(w, qs)
        M = c["_M"]
        Mf = [[float(x) for x in row] for row in M]
        Mv = [math.fsum(Mf[a][b] * v[b] for b in range(4)) for a in range(4)]
        lam = math.fsum(v[a] * Mv[a] for a in range(4))
        resid = max(abs(Mv[a] - lam * v[a]) for a in range(4))
        stats["max_eig_residual_rel"] = max(stats.get("max_eig_residual_rel", 0.0), resid / scale)
        if resid > 1e-11 * scale:
            P.append(("prop", "mean:not-an-eigenvector", "mean_quaternion returned %r: |M v - (v'Mv) v| = %.3g for M = sum w_i q_i q_i^T (sum|w| = %.3g)" % (v, resid, scale), idx))
        tau = Fraction(1e-10 * scale)
        top = [[(Fraction(lam) + tau if a == b else 0) - M[a][b] for b in range(4)] for a in range(4)]
        eigs = jacobi_eigs(Mf)
        if not vlib.is_psd_frac(top):
            P.append(("prop", "mean:not-the-largest-eigenvalue", "mean_quaternion returned an eigenvector of eigenvalue %.12g but the spectrum of sum w_i q_i q_i^T is %r" % (lam, eigs), idx))
        gap = eigs[0] - eigs[1]
        tol = 1e-12 * scale / max(gap, 1e-300) + 1e-12
        if "sibling" in c:
            vb = cases[c["of"]].get("res")
            if vb is not None:
                if gap < 1e-6 * scale:
                    stats["mean_degenerate_skipped"] = stats.get("mean_degenerate_skipped", 0) + 1
                else:
                    e = vec_dist_up_to_sign(v, vb)
                    stats["max_mean_sibling_over_tol"] = max(stats.get("max_mean_sibling_over_tol", 0.0), e / tol)
                    if e > tol:
                        P.append(("prop", "mean:changes-when-inputs-" + c["sibling"], "mean_quaternion: %r for the original inputs, %r when inputs are %s (not the same rotation: off by %.3g)" % (vb, v, c["sibling"], e), idx))
        elif c["style"] in ("all-equal", "single"):
            q0 = c.get("q0", qs[0])
            sw = math.fsum(w)
            if sw > 0:
                e = vec_dist_up_to_sign(v, q0)
                if e > 1e-12 * scale / sw + 1e-12:
                    P.append(("prop", "mean:all-equal", "all inputs are +-%r (total weight %.3g) but mean_quaternion returned %r" % (q0, sw, v), idx))
        elif c["style"] in ("symmetric", "symmetric-unscented", "unscented-wide"):
            # gap of `mean_symmetric_centre(_partial)`: sum w_i cos|r_i| > 0 makes the centre the dominant eigenvector
            g = math.fsum(wi * math.cos(vnorm(r)) for wi, r in zip(w, c["rs"]))
            centre_only_neg = all(wi >= 0 or vnorm(r) == 0.0 for wi, r in zip(w, c["rs"]))
            e = vec_dist_up_to_sign(v, c["centre"])
            if centre_only_neg and g > 0.05 * scale:
                t2 = 1e-12 * scale / g + 1e-12
                stats["mean_symmetric_checked"] = stats.get("mean_symmetric_checked", 0) + 1
                stats["max_mean_symmetric_over_tol"] = max(stats.get("max_mean_symmetric_over_tol", 0.0), e / t2)
                if e > t2:
                    P.append(("prop", "mean:symmetric-centre", "inputs placed symmetrically around %r (weights %r, gap %.3g) but mean_quaternion returned %r" % (c["centre"], w, g, v), idx))
            elif g > 0:
                stats["mean_symmetric_near_degenerate_skipped"] = stats.get("mean_symmetric_near_degenerate_skipped", 0) + 1
            else:
                # outside the theorems (negative central weight, wide spread): the clause is evaluated all the same
                stats["mean_symmetric_outside_theorem"] = stats.get("mean_symmetric_outside_theorem", 0) + 1
                if e > 1e-9:
                    stats["mean_symmetric_outside_theorem_not_centre"] = stats.get("mean_symmetric_outside_theorem_not_centre", 0) + 1
                    P.append(("prop", WIDE_KEY, "inputs placed symmetrically around %r with weights %r (negative central weight, sum w_i cos|r_i| = %.3g <= 0) but mean_quaternion returned %r, %.3g rad away from the centre"
                              % (c["centre"], w, g, v, rotdist(v, c["centre"])), idx))
        # the model with `eig := the implementation's result`: outer-product matrix and contract quantities
        dl = Dm.get(idx, "missing")
        t = dl.split()
        if t[0] != "ok" or len(t) != 23:
            P.append(("corr", "mean:model-undefined", "driver: %s" % dl[:60], idx)); continue
        f = [unhex(x) for x in t[1:]]
        Mm = [[f[b * 4 + a] for b in range(4)] for a in range(4)]
        dM = max(abs(Mm[a][b] - Mf[a][b]) for a in range(4) for b in range(4))
        stats["max_model_matrix_err_rel"] = max(stats.get("max_model_matrix_err_rel", 0.0), dM / scale)
        if dM > 16 * EPS * scale * len(w):
            P.append(("corr", "mean:outer-product-matrix", "model's sum w_i q_i q_i^T differs from the exact matrix by %.3g" % dM, idx))
        if max(abs(x) for x in f[17:21]) > 1e-11 * scale or abs(f[21] - 1.0) > 1e-12:
            P.append(("corr", "mean:contract-on-model", "the implementation's result does not satisfy the eigenvector contract on the model's matrix: residual %r, v.v = %r" % (f[17:21], f[21]), idx))


# ------------------------------------------------------------------ DerivedScalar = float instantiations (oracle side only)

import struct as _struct

FSLACK = 1e-4          # float: eps 6e-8, acos conditioning 1/|vec| <= 200 on these inputs, plus float input rounding of unit norm


def f32(x):
    return _struct.unpack("<f", _struct.pack("<f", x))[0]


def f32q(q):
    return [f32(x) for x in q]


def gen_float(g, n_each):
    """inputs away from the cut-offs (a float w within 6e-8 of 1 cannot resolve angles below ~7e-4: see design notes)"""
    r = g.r
    out = []
    def rv():
        n = r.uniform(0.02, math.pi - 0.02)
        return f32q([n * x for x in rand_dir(r)])
    def uq():
        while True:
            q = gen_quat(r, r.choice(["uniform", "negative-w", "half-turn"]))
            if vnorm(q[1:]) > 0.01:
                return f32q(q)
    for k in range(n_each):
        n = WIDTHS[k % len(WIDTHS)]
        rs = [rv() for _ in range(n)]
        qs = [uq() for _ in range(n)]
        qb = [uq() for _ in range(r.choice([1, 2]))]
        out.append(case("qexpf", " ".join(["qexpf", str(n)] + cm(rs)), r=rs))
        out.append(case("qlogf", " ".join(["qlogf", str(n)] + cm(qs)), q=qs))
        out.append(case("qsumf", " ".join(["qsumf", str(len(qb)), str(n)] + cm(qb) + cm(rs)), q=qb, r=rs))
        ql = [f32q(qmul(true_exp(rv()), qb[0])) for _ in range(n)]
        out.append(case("qdifff", " ".join(["qdifff", str(n), str(len(qb))] + cm(ql) + cm(qb)), ql=ql, qr=qb))
        c = uq()
        kk = r.randint(1, 3)
        rr = [[0.3 * x for x in rv()] for _ in range(kk)]
        ms = [f32q(c)] + [f32q(qmul(true_exp(x), c)) for x in rr] + [f32q(qmul(true_exp([-y for y in x]), c)) for x in rr]
        w = f32q([1.0 / len(ms)] * len(ms))
        out.append(case("qmeanf", " ".join(["qmeanf", str(len(ms))] + [hexd(x) for x in w] + cm(ms)), w=w, q=ms, centre=c))
    return out


def check_float(cases, H, P, stats):
    for idx, c in enumerate(cases):
        op = c["op"]
        ref = ("f", idx)
        k = 4 if op in ("qexpf", "qsumf", "qmeanf") else 3
        n = 1 if op == "qmeanf" else len(c.get("r") or c.get("q") or c.get("ql"))
        cols, why = parse_cols(H[idx], k, n)
        if cols is None:
            P.append(("prop", "float:" + op + ":no-result", "%s (float instantiation) failed on a valid input: %s" % (op, why), ref)); continue
        stats["float_columns"] = stats.get("float_columns", 0) + n
        for j, v in enumerate(cols):
            if not finite(v):
                P.append(("prop", "float:" + op + ":not-finite", "%s (float instantiation): column %d is %r" % (op, j, v), ref)); continue
            if op in ("qexpf", "qsumf"):
                exp_ = true_exp(c["r"][j]) if op == "qexpf" else qmul(true_exp(c["r"][j]), c["q"][0])
                d = rotdist(normalise(v), normalise(list(exp_)))
                if unit_defect(v) > 1e-5 or d > BOUND + FSLACK:
                    P.append(("prop", "float:" + op + ":wrong", "%s (float instantiation): column %d = %r: squared norm 1%+.3g, %.3g rad from the expected rotation" % (op, j, v, math.fsum(x * x for x in v) - 1, d), ref))
            elif op in ("qlogf", "qdifff"):
                tgt = c["q"][j] if op == "qlogf" else qmul(c["ql"][j], qconj(c["qr"][0]))
                d = rotdist(true_exp(v), normalise(list(tgt)))
                if vnorm(v) > math.pi + 1e-5 or d > BOUND + FSLACK:
                    P.append(("prop", "float:" + op + ":wrong", "%s (float instantiation): column %d = %r: norm %.7g, exp of it %.3g rad from the expected rotation" % (op, j, v, vnorm(v), d), ref))
            else:
                e = vec_dist_up_to_sign(normalise(v), normalise(c["centre"]))
                if unit_defect(v) > 1e-5 or e > 1e-4:
                    P.append(("prop", "float:qmeanf:wrong", "mean_quaternion (float instantiation) of a symmetric set around %r returned %r" % (c["centre"], v), ref))


# ------------------------------------------------------------------ run

def witnesses():
    """inputs of the `…_counterexample` theorems and boundary cases, run first in every run"""
    one = [1.0, 0.0, 0.0, 0.0]
    ws = [mk_qsum([one], [[2.000000001e-4, 0.0, 0.0]], style="witness"),          # witness of the defect repaired in de34974 (regression case)
          mk_qexp([[2.000000001e-4, 0.0, 0.0]], style="witness"),
          mk_qexp([[CUT, 0.0, 0.0], [0.0, CUT * UP, 0.0], [0.0, 0.0, CUT * DN], [2e-4, 0.0, 0.0]], style="witness"),
          mk_qexp([[1.0000000002e-4, 0.0, 0.0], [0.0, 1.0000000005e-4, 0.0]], style="witness"),   # both sides of 2 asin(5e-5)
          mk_qlog([[math.sqrt(1 - 2.5e-9), 5e-5, 0.0, 0.0], [-math.sqrt(1 - 2.5e-9), 0.0, 5e-5 * UP, 0.0]], style="witness"),
          mk_qlog([[math.sqrt(1 - 1e-8), CUT, 0.0, 0.0], [-math.sqrt(1 - 1e-8), 0.0, CUT * UP, 0.0], [0.0, 1.0, 0.0, 0.0], [-0.0, 0.0, 0.0, 1.0]], style="witness"),
          mk_qexp([], style="empty"), mk_qlog([], style="empty"), mk_qsum([one], [], style="empty"), mk_qdiff([], [one], style="empty"),
          mk_qmean([0.5, 0.5], [one, [0.6, 0.8, 0.0, 0.0]], style="random"),
          # mean_symmetric_centre_negative_weight_counterexample
          mk_qmean([-1.0, 1.0, 1.0], [one, list(true_exp([1.5, 0.0, 0.0])), list(true_exp([-1.5, 0.0, 0.0]))], style="symmetric-unscented",
                   centre=one, rs=[[0.0, 0.0, 0.0], [1.5, 0.0, 0.0], [-1.5, 0.0, 0.0]])]
    return ws


def load_corpus():
    out = []
    f = vlib.VERIF / "corpus" / "C18" / "cases.txt"
    if not f.exists():
        return out
    for ln in f.read_text().split("\n"):
        ln = ln.strip()
        if ln and not ln.startswith("#"):
            out.append(case_from_line(ln, "corpus"))
    return out


def case_from_line(ln, style):
    t = ln.split()
    op = t[0]
    if op in ("qexpf", "qlogf", "qsumf", "qdifff", "qmeanf"):
        c = case_from_line(" ".join([op[:-1]] + t[1:]), style)
        c.update(op=op, line=ln)
        if op == "qmeanf":
            c["centre"] = c["q"][0]
        return c
    f = lambda toks, k: [[unhex(x) for x in toks[j * k:(j + 1) * k]] for j in range(len(toks) // k)]
    if op == "qexp":
        return case(op, ln, r=f(t[2:], 3), style=style)
    if op == "qlog":
        return case(op, ln, q=f(t[2:], 4), style=style)
    if op == "qsum":
        m = int(t[1])
        return case(op, ln, q=f(t[3:3 + 4 * m], 4), r=f(t[3 + 4 * m:], 3), style=style)
    if op == "qdiff":
        n = int(t[1])
        return case(op, ln, ql=f(t[3:3 + 4 * n], 4), qr=f(t[3 + 4 * n:], 4), style=style)
    if op == "qmean":
        n = int(t[1])
        return case(op, ln, w=[unhex(x) for x in t[2:2 + n]], q=f(t[2 + n:], 4), style="random")
    if op == "qsumchain":
        return case(op, ln, q0=[unhex(x) for x in t[2:6]], r=f(t[6:], 3), style=style)
    raise ValueError(ln)


def build_plain():
    """h_quat.cpp (the utils templates are header-only) without sanitizers at -O2 -DNDEBUG -march=native: Eigen's vectorised
    quaternion product and other optimisation-dependent paths that the -O1 sanitizer build does not take"""
    out = vlib.BUILD / "plain" / "h"
    out.mkdir(parents=True, exist_ok=True)
    binary, dep = out / "h_quat_plain", out / "h_quat_plain.d"
    src = vlib.VERIF / "harness" / "h_quat.cpp"
    with vlib.locked("plain-h_quat"):
        if vlib._deps_stale(binary, dep, [src]):
            cmd = ["g++", "-std=c++11", "-O2", "-DNDEBUG", "-march=native", "-I", str(vlib.REPO / "src/BayesFilters/include"), "-I", vlib.EIGEN_INC,
                   "-I", str(vlib.VERIF / "harness"), "-MMD", "-MF", str(dep), str(src), "-o", str(binary)]
            rc, o, e = vlib.sh(cmd)
            if rc != 0:
                raise vlib.BuildError("plain harness h_quat failed to compile:\n%s" % e[-4000:])
    return binary


def run(ctx):
    ctx.proof_stage()
    if not ctx.quick() and not ctx.replay:
        mods = ["BFL.Model.Quat", "BFL.Proofs.Quat", "BFL.Proofs.QuatMean", "BFL.Props.C18"]
        bad = vlib.leanchecker(mods)
        ctx.coverage["leanchecker"] = "failed: %s" % bad if bad else "ok (%s)" % ", ".join(mods)
        if bad:
            ctx.violation("leanchecker", "independent re-check of the compiled proofs failed: %s" % bad, {"leanchecker": bad}, no_input=True)
    binary = vlib.build_harness("h_quat")
    stats = {"branches": {}, "round_trips": {}, "mean_styles": {}}
    if ctx.replay:
        body = json.loads(open(ctx.replay).read())
        rp = body.get("replay", {})
        cases = []
        for ln, m in zip(rp.get("input_lines", []), rp.get("metas") or [None] * len(rp.get("input_lines", []))):
            c = case_from_line(ln, "replay")
            c.update(m or {})
            cases.append(c)
        replay_float = [c for c in cases if c["op"].endswith("f")]
        cases = [c for c in cases if not c["op"].endswith("f")]
    else:
        cases = witnesses() + load_corpus()
        for part in (gen_phase1(ctx.gen("convert"), ctx.n(119, 2400)), gen_mean(ctx.gen("mean"), ctx.n(120, 3000)), gen_chain(ctx.gen("chain"), ctx.n(60, 1200))):
            off = len(cases)
            for c in part:
                if "of" in c:
                    c["of"] += off
            cases += part
    lines = [c["line"] for c in cases]
    H, logs = vlib.run_harness(binary, lines)
    nonmean = [i for i, c in enumerate(cases) if c["op"] != "qmean"]
    Dl = vlib.run_driver([lines[i] for i in nonmean])
    D = {i: d for i, d in zip(nonmean, Dl)}
    P = []
    check_phase1(cases, H, D, P, stats)
    check_chain(cases, H, D, P, stats)
    # phase 2: round trips through the real functions
    p2 = gen_phase2(cases)
    H2, logs2 = vlib.run_harness(binary, [d["line"] for d in p2])
    check_phase2(cases, p2, H2, P, stats)
    # mean: the driver evaluates the contract on the implementation's eigenvector with the model's matrix
    mean_idx = []
    for i, c in enumerate(cases):
        if c["op"] == "qmean":
            cols, _ = parse_cols(H[i], 4, 1)
            if cols is not None and finite(cols[0]):
                mean_idx.append((i, cols[0]))
    Dm_lines = vlib.run_driver([lines[i] + " " + " ".join(hexd(x) for x in v) for i, v in mean_idx])
    Dm = {i: d for (i, _), d in zip(mean_idx, Dm_lines)}
    check_mean(cases, H, Dm, P, stats)
    # second pass: phase 1 and the means through the plain -O2 build, same predicates
    plain = build_plain()
    Hp, logsp = vlib.run_harness(plain, lines)
    Pp, pstats = [], {"branches": {}, "round_trips": {}, "mean_styles": {}}
    saved = [c.get("res") for c in cases]
    check_phase1(cases, Hp, D, Pp, pstats)
    check_chain(cases, Hp, D, Pp, pstats)
    mean_idx_p = []
    for i, c in enumerate(cases):
        if c["op"] == "qmean":
            colsp, _ = parse_cols(Hp[i], 4, 1)
            if colsp is not None and finite(colsp[0]):
                mean_idx_p.append((i, colsp[0]))
    Dmp_lines = vlib.run_driver([lines[i] + " " + " ".join(hexd(x) for x in v) for i, v in mean_idx_p])
    check_mean(cases, Hp, {i: d for (i, _), d in zip(mean_idx_p, Dmp_lines)}, Pp, pstats)
    for c, r_ in zip(cases, saved):
        c["res"] = r_
    P += [(k, key, "[plain -O2 -march=native build] " + what, ref) for (k, key, what, ref) in Pp]
    stats["plain_build"] = {"cases": len(lines), "crashes": len(logsp), "tight_disagreements_note": pstats.get("tight_disagreements", 0),
                            "max_unit_defect": pstats.get("max_unit_defect"), "max_eig_residual_rel": pstats.get("max_eig_residual_rel")}
    for i, log in list(logsp.items())[:3]:
        ctx.violation("crash:plain:" + Hp[i], "plain build crashed on a valid input: %s" % Hp[i], {"harness": "h_quat (plain)", "input_lines": [lines[i]], "log": log[-1500:]})
    # the same templates with DerivedScalar = float
    fcases = [c for c in replay_float] if ctx.replay else gen_float(ctx.gen("float"), ctx.n(17, 340))
    Hf, logsf = vlib.run_harness(binary, [c["line"] for c in fcases])
    check_float(fcases, Hf, P, stats)

    KEEP = ("style", "sibling", "centre", "rs", "q0", "unwind")

    def meta_of(c, **extra):
        m = {k: c[k] for k in KEEP if k in c}
        m.update(extra)
        return m

    def inputs_of(ref):
        """(input lines, observed output, metas) — a replay re-runs the lines; the second phase is regenerated from them"""
        if isinstance(ref, tuple) and ref[0] == "f":
            return [fcases[ref[1]]["line"]], Hf[ref[1]], [{}]
        if isinstance(ref, tuple):
            d = p2[ref[1]]
            return [cases[d["src"]]["line"]], H2[ref[1]], [meta_of(cases[d["src"]])]
        c = cases[ref]
        if "of" in c:
            return [cases[c["of"]]["line"], c["line"]], H[ref], [meta_of(cases[c["of"]]), meta_of(c, of=0)]
        return [c["line"]], H[ref], [meta_of(c)]

    prop_bad = [p for p in P if p[0] == "prop"]
    corr_bad = [p for p in P if p[0] == "corr"]
    seen = {}
    for _, key, what, ref in prop_bad:
        seen.setdefault(key, []).append((what, ref))
    for key, lst in seen.items():
        what, ref = min(lst, key=lambda t: len(" ".join(inputs_of(t[1])[0])))
        ins, obs, metas = inputs_of(ref)
        if key == WIDE_KEY:
            what = ("with a negative central weight and a wide spread the centre is not the eigenvector of the largest eigenvalue of sum w_i q_i q_i^T "
                    "(witness: centre 1, sigma points exp(+-(1.5,0,0)), weights (-1,1,1): result (0,+-1,0,0), a half turn away); " + what)
        if key == SLIVER_KEY:
            what = ("regression of the defect repaired in de34974: with the logarithm's cut-off at |vec| = sin(|r|/2) <= 1e-4 the round trip returns 0 "
                    "for 2e-4 < |r| <= 2 asin(1e-4) = 2.0000000033e-4 and is off by |r|, up to 3.4e-13 rad above the stated bound 2e-4; " + what)
        ctx.violation(key, "%s (%d failing columns in this run)" % (what, len(lst)),
                      {"harness": "h_quat", "input_lines": ins, "metas": metas, "observed": [obs[:1500]],
                       "note": "round trips: the line is the first call, the check feeds its result to the inverse function; two lines = a case and its sibling"})
    if corr_bad and not prop_bad:
        _, key, what, ref = corr_bad[0]
        ins, obs, metas = inputs_of(ref)
        ctx.violation("correspondence:" + key, "model and implementation disagree beyond what the property allows (%d), no property predicate failed: %s" % (len(corr_bad), what),
                      {"harness": "h_quat", "correspondence": "BFL.Quat model vs bfl::utils quaternion templates", "input_lines": ins, "observed": [obs[:1500]]}, no_input=True)
    for i, log in list(logs.items())[:3]:
        ctx.violation("crash:" + H[i], "implementation crashed on a valid input: %s" % H[i], {"harness": "h_quat", "input_lines": [lines[i]], "log": log[-1500:]})
    for i, log in list(logs2.items())[:3]:
        ctx.violation("crash:" + H2[i], "implementation crashed on a valid input: %s" % H2[i], {"harness": "h_quat", "input_lines": [p2[i]["line"]], "log": log[-1500:]})
    for i, log in list(logsf.items())[:3]:
        ctx.violation("crash:float:" + Hf[i], "float instantiation crashed on a valid input: %s" % Hf[i], {"harness": "h_quat", "input_lines": [fcases[i]["line"]], "log": log[-1500:]})
    allcases = lines + [d["line"] for d in p2] + [c["line"] for c in fcases]
    distinct = set(allcases)
    op_hist = {}
    for c in cases:
        k = c["op"] + "/" + str(c.get("style")) + ("/" + c["sibling"] if "sibling" in c else "")
        op_hist[k] = op_hist.get(k, 0) + 1
    width_hist = {}
    for c in cases:
        nn = len(c.get("r") or c.get("ql") or c.get("q") or [])
        width_hist["%s x%d" % (c["op"], nn)] = width_hist.get("%s x%d" % (c["op"], nn), 0) + 1
    tight = stats.pop("tight_disagreements", 0)
    ctx.coverage.update({
        "evaluations": len(allcases), "distinct_nontrivial": len(distinct),
        "rule": "batches of width 0..8, 12, 15, 16, 17, 24, 31, 32, 33, 40 and means of up to 40 inputs (base quaternion matrices of 1..3 columns, only column 0 read) over styles: rotation vectors general in [0, pi), "
                "around both cut-offs (norms 5e-5 .. 1e-2 incl. 1e-4 +- 1 ulp, both sides of 2 asin(5e-5), 2e-4 +- 1 ulp and the former sliver up to 2 asin(1e-4)), within 1e-3 .. 4e-16 of pi, zero/subnormal; "
                "unit quaternions uniform on S^3, w < 0, near identity, vector part at the cut-off 5e-5 +- 1 ulp (and at the former 1e-4), near half turn (|w| from 0 to 1e-3, both signs, -0.0), +-identity; "
                "differences of independent / close / coincident (bit-identical, renormalised, 1 ulp off, exp(r) q with |r| = 0, 1e-16 .. 1e-6) / double-cover / half-turn-apart pairs, each re-run with negated operands; every result fed back through the real "
                "inverse function (second phase); means: random, clustered, all +-q, symmetric sigma-point layouts with non-negative and with unscented weights, single column, "
                "each re-run with negated and with permuted inputs. every case is distinct by construction (random draws); distinct = distinct input lines",
        "samples": [x[:400] for x in ([allcases[0], allcases[min(len(allcases) - 1, 40)], (p2[0]["line"] if p2 else allcases[0]), allcases[-1]] if allcases else [])],
        "op_style_histogram": op_hist, "width_histogram": width_hist,
        "model_branches_hit": stats.pop("branches"),
        "round_trip_columns": stats.pop("round_trips"), "mean_style_histogram": stats.pop("mean_styles"),
        "numeric": stats,
        "traces_validated_against_impl": len(allcases),
        "model_vs_impl_tight_disagreements_note": tight,
        "model_vs_impl_disagreements": len(corr_bad), "property_failures_on_impl": len(prop_bad),
        "sanitizer_crashes": len(logs) + len(logs2),
        "exhaustive": False,
        "counterexample_witnesses_replayed": [lines[0]] if (lines and not ctx.replay) else [],
    })
    ctx.notes.append("tight model-vs-implementation agreement (64 eps, log scaled by 1/|vec|): %d column(s) differ; reported as a note only — the property "
                     "promises rotations up to sign and the 2e-4 cut-off bound" % tight)
    ctx.assumptions += [
        "floating point: angles compared with slack 1e-10 rad (acos near w = 1 amplifies rounding by 1/|vec| <= 1e4); the 2e-4 bound is compared exactly "
        "(rational arithmetic) when the round trip returns the zero vector, since then the deviation is |r| itself",
        "eigen-solver contract (unit eigenvector of the largest eigenvalue) checked on every observed call: residual <= 1e-11 sum|w|, maximality by exact LDL^T of (lambda + 1e-10 sum|w|) I - M",
    ]
