import BFL.Model.Models
import BFL.Bridge.Mat
import BFL.Bridge.Transc
import Mathlib.Data.Real.Basic
import Mathlib.Data.List.Range
import Mathlib.Data.List.Nodup
import Mathlib.Analysis.SpecialFunctions.Log.Basic
import Mathlib.Tactic.Linarith
import Mathlib.Tactic.FieldSimp
import Mathlib.Tactic.Ring
/-
Helper lemmas for C16: the grid initialiser (double loop = closed form, geometry of the grid,
uniform normalised log-weights).
-/
namespace BFL.Models

/-! ### the double loop writes column `i*ny + j` once for every grid point -/

theorem gridPairs_keys (nx ny : Nat) :
    (gridPairs nx ny).map (fun p => gridIndex ny p.1 p.2) = List.range (nx * ny) := by
  induction nx with
  | zero => simp [gridPairs]
  | succ nx ih =>
    have hsplit : gridPairs (nx + 1) ny = gridPairs nx ny ++ (List.range ny).map (fun j => (nx, j)) := by
      simp [gridPairs, List.range_succ, List.flatMap_append]
    rw [hsplit, List.map_append, ih, Nat.succ_mul, List.range_add]
    congr 1
    simp [List.map_map, gridIndex, Function.comp_def]

theorem mem_gridPairs (nx ny i j : Nat) : (i, j) ∈ gridPairs nx ny ↔ i < nx ∧ j < ny := by
  simp [gridPairs]

section fold
variable {α : Type} {R N : Nat}

theorem foldl_setCol_not_mem (ws : List (Nat × (Nat → α))) (M : Mat α R N) (r : Fin R) (c : Fin N)
    (h : c.val ∉ ws.map Prod.fst) :
    (ws.foldl (fun M w => setCol M w.1 w.2) M) r c = M r c := by
  induction ws generalizing M with
  | nil => rfl
  | cons w ws ih =>
    simp only [List.map_cons, List.mem_cons, not_or] at h
    simp only [List.foldl_cons]
    rw [ih _ h.2]
    simp [setCol, h.1]

theorem foldl_setCol_mem (ws : List (Nat × (Nat → α))) (hnd : (ws.map Prod.fst).Nodup)
    (M : Mat α R N) (r : Fin R) (c : Fin N) (v : Nat → α) (h : (c.val, v) ∈ ws) :
    (ws.foldl (fun M w => setCol M w.1 w.2) M) r c = v r.val := by
  induction ws generalizing M with
  | nil => simp at h
  | cons w ws ih =>
    simp only [List.map_cons, List.nodup_cons] at hnd
    simp only [List.foldl_cons]
    rcases List.mem_cons.mp h with hw | hw
    · subst hw
      rw [foldl_setCol_not_mem ws _ r c hnd.1]
      simp [setCol]
    · exact ih hnd.2 _ hw

end fold

section loop
variable {α : Type} [Add α] [Sub α] [Mul α] [Div α] [Zero α] [One α] [NatCast α] {R N : Nat}

theorem gridLoop_eq_foldl (xinf xsup yinf ysup : α) (nx ny : Nat) (state : Mat α R N) :
    gridLoop xinf xsup yinf ysup nx ny state =
      (((gridPairs nx ny).map fun p =>
          (gridIndex ny p.1 p.2, gridColumn xinf xsup yinf ysup nx ny p.1 p.2)).foldl
        (fun M w => setCol M w.1 w.2) state) := by
  simp [gridLoop, List.foldl_map]

/-- the column of grid point `(i, j)` after the loop -/
theorem gridLoop_apply (xinf xsup yinf ysup : α) (nx ny : Nat) (state : Mat α R N)
    (i j : Nat) (hi : i < nx) (hj : j < ny) (h : gridIndex ny i j < N) (r : Fin R) :
    (gridLoop xinf xsup yinf ysup nx ny state) r ⟨gridIndex ny i j, h⟩
      = gridColumn xinf xsup yinf ysup nx ny i j r.val := by
  rw [gridLoop_eq_foldl]
  apply foldl_setCol_mem
  · rw [List.map_map]
    have : (Prod.fst ∘ fun p : Nat × Nat =>
        (gridIndex ny p.1 p.2, gridColumn xinf xsup yinf ysup nx ny p.1 p.2))
        = fun p => gridIndex ny p.1 p.2 := rfl
    rw [this, gridPairs_keys]
    exact List.nodup_range
  · rw [List.mem_map]
    exact ⟨(i, j), (mem_gridPairs nx ny i j).2 ⟨hi, hj⟩, rfl⟩

/-- columns beyond `nx*ny` are not written -/
theorem gridLoop_untouched (xinf xsup yinf ysup : α) (nx ny : Nat) (state : Mat α R N)
    (c : Fin N) (hc : nx * ny ≤ c.val) (r : Fin R) :
    (gridLoop xinf xsup yinf ysup nx ny state) r c = state r c := by
  rw [gridLoop_eq_foldl]
  apply foldl_setCol_not_mem
  rw [List.map_map]
  have : (Prod.fst ∘ fun p : Nat × Nat =>
      (gridIndex ny p.1 p.2, gridColumn xinf xsup yinf ysup nx ny p.1 p.2))
      = fun p => gridIndex ny p.1 p.2 := rfl
  rw [this, gridPairs_keys, List.mem_range]
  omega

end loop

/-! ### index arithmetic: `(i, j) ↦ i*ny + j` enumerates the columns exactly once -/

theorem gridIndex_lt {nx ny i j : Nat} (hi : i < nx) (hj : j < ny) : gridIndex ny i j < nx * ny := by
  unfold gridIndex
  calc i * ny + j < i * ny + ny := by omega
    _ = (i + 1) * ny := by rw [Nat.succ_mul]
    _ ≤ nx * ny := Nat.mul_le_mul_right _ hi

theorem gridIndex_inj {ny i j i' j' : Nat} (hj : j < ny) (hj' : j' < ny)
    (h : gridIndex ny i j = gridIndex ny i' j') : i = i' ∧ j = j' := by
  unfold gridIndex at h
  have hpos : 0 < ny := by omega
  have h1 : (i * ny + j) / ny = i := by
    rw [Nat.add_comm, Nat.add_mul_div_right _ _ hpos, Nat.div_eq_of_lt hj, Nat.zero_add]
  have h2 : (i' * ny + j') / ny = i' := by
    rw [Nat.add_comm, Nat.add_mul_div_right _ _ hpos, Nat.div_eq_of_lt hj', Nat.zero_add]
  have hi : i = i' := by rw [← h1, ← h2, h]
  subst hi
  exact ⟨rfl, by omega⟩

theorem gridIndex_surj {nx ny c : Nat} (hc : c < nx * ny) :
    c / ny < nx ∧ c % ny < ny ∧ gridIndex ny (c / ny) (c % ny) = c := by
  have hpos : 0 < ny := by
    rcases Nat.eq_zero_or_pos ny with h | h
    · subst h; simp at hc
    · exact h
  refine ⟨?_, Nat.mod_lt _ hpos, ?_⟩
  · exact Nat.div_lt_of_lt_mul (by rwa [Nat.mul_comm] at hc)
  · unfold gridIndex
    rw [Nat.mul_comm]
    exact Nat.div_add_mod c ny

/-! ### geometry of the grid lines (over ℝ) -/

theorem gridCoord_first (inf sup : ℝ) (k : Nat) : gridCoord inf sup k 0 = inf := by
  simp [gridCoord]

theorem gridCoord_last (inf sup : ℝ) (k : Nat) (hk : 2 ≤ k) : gridCoord inf sup k (k - 1) = sup := by
  have hk1 : ((k - 1 : Nat) : ℝ) = (k : ℝ) - 1 := by
    rw [Nat.cast_sub (by omega)]; simp
  have hne : (k : ℝ) - 1 ≠ 0 := by
    have : (2 : ℝ) ≤ (k : ℝ) := by exact_mod_cast hk
    linarith
  simp only [gridCoord, hk1]
  field_simp
  ring

theorem gridCoord_spacing (inf sup : ℝ) (k i : Nat) :
    gridCoord inf sup k (i + 1) - gridCoord inf sup k i = (sup - inf) / ((k : ℝ) - 1) := by
  simp only [gridCoord, Nat.cast_add, Nat.cast_one]
  ring

theorem gridCoord_closed (inf sup : ℝ) (k i : Nat) :
    gridCoord inf sup k i = inf + (i : ℝ) * (sup - inf) / ((k : ℝ) - 1) := by
  simp only [gridCoord]
  ring

/-- every grid line lies in `[inf, sup]` when `inf ≤ sup` -/
theorem gridCoord_mem (inf sup : ℝ) (k i : Nat) (hk : 2 ≤ k) (hi : i < k) (hle : inf ≤ sup) :
    inf ≤ gridCoord inf sup k i ∧ gridCoord inf sup k i ≤ sup := by
  have hk2 : (2 : ℝ) ≤ (k : ℝ) := by exact_mod_cast hk
  have hpos : 0 < (k : ℝ) - 1 := by linarith
  have hi' : (i : ℝ) ≤ (k : ℝ) - 1 := by
    have : i + 1 ≤ k := hi
    have : ((i + 1 : Nat) : ℝ) ≤ (k : ℝ) := by exact_mod_cast this
    push_cast at this
    linarith
  have hd : 0 ≤ (sup - inf) / ((k : ℝ) - 1) := div_nonneg (by linarith) hpos.le
  have hi0 : (0 : ℝ) ≤ (i : ℝ) := Nat.cast_nonneg i
  constructor
  · simp only [gridCoord]
    nlinarith [mul_nonneg hd hi0]
  · have h1 : (sup - inf) / ((k : ℝ) - 1) * (i : ℝ) ≤ (sup - inf) / ((k : ℝ) - 1) * ((k : ℝ) - 1) :=
      mul_le_mul_of_nonneg_left hi' hd
    have h2 : (sup - inf) / ((k : ℝ) - 1) * ((k : ℝ) - 1) = sup - inf := by
      field_simp
    simp only [gridCoord]
    linarith

/-! ### uniform normalised weights -/

theorem uniform_logweights_normalised (N : Nat) (hN : 0 < N) :
    ∑ _i : Fin N, Real.exp (-Real.log (N : ℝ)) = 1 := by
  have hNr : (0 : ℝ) < (N : ℝ) := by exact_mod_cast hN
  rw [Finset.sum_const, Finset.card_univ, Fintype.card_fin, Real.exp_neg, Real.exp_log hNr]
  simp only [nsmul_eq_mul]
  field_simp

end BFL.Models
