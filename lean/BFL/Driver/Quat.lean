import BFL.Driver.Proto
import BFL.Model.Quat
/-
Driver entries for the quaternion utilities (C18), executed over `Float`.

  qexp  n r(3×n)                 -> "ok" branches 4n numbers          (rotation_vector_to_quaternion)
  qlog  n q(4×n)                 -> "ok" branches 3n numbers          (quaternion_to_rotation_vector)
  qsum  m n q(4×m) r(3×n)        -> "ok" branches 4n numbers          (sum_quaternion_rotation_vector, column 0 of q)
  qdiff n m ql(4×n) qr(4×m)      -> "ok" branches 3n numbers          (diff_quaternion, column 0 of qr)
  qsumchain n q(4) r(3×n)        -> "ok" branches 4n numbers          (n successive calls of sum_quaternion_rotation_vector, every state)
  qmean n w(n) q(4×n) v(4)       -> "ok" M(16, column-major) λ=vᵀMv  residual M v − λ v (4)  vᵀv
        (the eigenvector `v` returned by the implementation is an input: the model's `quatMean` takes
         the eigen-solver as a parameter; the driver evaluates the contract's quantities on `v` with the
         model's own `outerMean`)

`branches` is a comma-separated list, one entry per column, of the model branch taken.
-/
namespace BFL.DriverQuat
open BFL BFL.Proto BFL.Quat

def commas (l : List String) : String := if l.isEmpty then "-" else ",".intercalate l

def qexp : R String := do
  let n ← nat
  let r ← matCM flt 3 n
  done
  let br := (List.finRange n).map fun j => quatExpBranch (V3.ofCol r j)
  pure (join ("ok" :: commas br :: outMatCM floatStr (expBatch r)))

def qlog : R String := do
  let n ← nat
  let q ← matCM flt 4 n
  done
  let br := (List.finRange n).map fun j => quatLogBranch (Q.ofCol q j)
  pure (join ("ok" :: commas br :: outMatCM floatStr (logBatch q)))

def qsum : R String := do
  let m ← nat; let n ← nat
  match m with
  | 0 => failure
  | m' + 1 =>
    let q ← matCM flt 4 (m' + 1)
    let r ← matCM flt 3 n
    done
    let br := (List.finRange n).map fun j => quatExpBranch (V3.ofCol r j)
    pure (join ("ok" :: commas br :: outMatCM floatStr (sumBatch q r)))

def qdiff : R String := do
  let n ← nat; let m ← nat
  match m with
  | 0 => failure
  | m' + 1 =>
    let ql ← matCM flt 4 n
    let qr ← matCM flt 4 (m' + 1)
    done
    let br := (List.finRange n).map fun j => quatLogBranch ((Q.ofCol ql j).mul (Q.ofCol qr 0).conj)
    pure (join ("ok" :: commas br :: outMatCM floatStr (diffBatch ql qr)))

/-- `qsumchain n q(4) r(3×n)`: the model's `sumTrace` (every intermediate state of the history) -/
def qsumchain : R String := do
  let n ← nat
  let q ← matCM flt 4 1
  let r ← matCM flt 3 n
  done
  let rs := (List.finRange n).map fun j => V3.ofCol r j
  let tr := sumTrace (Q.ofCol q 0) rs
  let br := rs.map quatExpBranch
  pure (join ("ok" :: commas br :: tr.flatMap fun p => [floatStr p.w, floatStr p.x, floatStr p.y, floatStr p.z]))

def qmean : R String := do
  let n ← nat
  let w ← vec flt n
  let q ← matCM flt 4 n
  let v ← vec flt 4
  done
  let M := Mat.eval (outerMean w q)
  let Mv := M.mulVec v
  let lam := Vec.dot v Mv
  let res := Vec.of (fun i => Mv i - lam * v i)
  pure (join ("ok" :: outMatCM floatStr M ++ [floatStr lam] ++ outVec floatStr res ++ [floatStr (Vec.dot v v)]))

def handle (op : String) (args : List String) : Option String :=
  match op with
  | "qexp" => some ((run qexp args).getD "bad-args")
  | "qlog" => some ((run qlog args).getD "bad-args")
  | "qsum" => some ((run qsum args).getD "bad-args")
  | "qdiff" => some ((run qdiff args).getD "bad-args")
  | "qmean" => some ((run qmean args).getD "bad-args")
  | "qsumchain" => some ((run qsumchain args).getD "bad-args")
  | _ => none

end BFL.DriverQuat
