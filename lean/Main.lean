import BFL.Driver.KF
import BFL.Driver.UT
import BFL.Driver.SUKF
import BFL.Driver.PF
import BFL.Driver.GPF
import BFL.Driver.Life
import BFL.Driver.Race
import BFL.Driver.Shape
import BFL.Driver.Fault
import BFL.Driver.Skip
import BFL.Driver.Bounds
import BFL.Driver.Density
import BFL.Driver.Models
import BFL.Driver.Extract
import BFL.Driver.Quat
import BFL.Driver.Dir
import BFL.Driver.AnyBox
/-
Line-protocol driver: one case per input line, one canonical output line per case.
Executes the model's own definitions (the ones the theorems are about).
-/
open BFL

def handlers : List (String → List String → Option String) :=
  [DriverKF.handle, DriverUT.handle, DriverSUKF.handle, DriverPF.handle, DriverGPF.handle, DriverLife.handle, DriverRace.handle, DriverShape.handle, DriverFault.handle, DriverSkip.handle, DriverBounds.handle, DriverDensity.handle, DriverModels.handle, DriverExtract.handle, DriverQuat.handle, DriverDir.handle, DriverAnyBox.handle]

def dispatch (line : String) : String :=
  match (line.trimAscii.toString.splitOn " ").filter (· ≠ "") with
  | [] => "bad-op"
  | op :: args =>
    match handlers.findSome? (fun h => h op args) with
    | some out => out
    | none => "bad-op"

partial def loop (h : IO.FS.Stream) (out : IO.FS.Stream) : IO Unit := do
  let line ← h.getLine
  if line.isEmpty then return ()
  out.putStrLn (dispatch line)
  loop h out

def main : IO Unit := do
  let stdin ← IO.getStdin
  let stdout ← IO.getStdout
  loop stdin stdout
  stdout.flush
