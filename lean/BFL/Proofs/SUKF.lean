import BFL.Bridge.Det
import BFL.Proofs.Density
import Mathlib.LinearAlgebra.Matrix.NonsingularInverse
import Mathlib.LinearAlgebra.Matrix.PosDef
import Mathlib.Analysis.SpecialFunctions.Sqrt
import Mathlib.Algebra.Order.Star.Real
/-
Matrix facts behind the serial unscented correction (helper lemmas, Mathlib vocabulary):
Woodbury form of `(I + Yᵀ R⁻¹ Y)⁻¹`, the push-through identity, square-root weights, sums over the
blocks of a block-diagonal matrix, positive definiteness of a block-diagonal matrix.
-/
namespace BFL.SUKFProofs
open Matrix

section woodbury
variable {F : Type*} [Field F]
variable {m s : Type*} [Fintype m] [Fintype s] [DecidableEq m] [DecidableEq s]

/-- `I + Yᵀ R⁻¹ Y` is invertible when `R` and `Y Yᵀ + R` are -/
theorem Cinv_isUnit (Y : Matrix m s F) (R : Matrix m m F) (hR : IsUnit R) (hS : IsUnit (Y * Yᵀ + R)) :
    IsUnit (1 + Yᵀ * R⁻¹ * Y) :=
  DensityProofs.uvr_M_isUnit Y Yᵀ R hR hS

/-- Woodbury: `(I + Yᵀ R⁻¹ Y)⁻¹ = I − Yᵀ (Y Yᵀ + R)⁻¹ Y` -/
theorem C_eq (Y : Matrix m s F) (R : Matrix m m F) (hR : IsUnit R) (hS : IsUnit (Y * Yᵀ + R)) :
    (1 + Yᵀ * R⁻¹ * Y)⁻¹ = 1 - Yᵀ * (Y * Yᵀ + R)⁻¹ * Y := by
  have hRu : IsUnit R.det := (Matrix.isUnit_iff_isUnit_det _).1 hR
  have hRi : IsUnit R⁻¹ := (Matrix.isUnit_nonsing_inv_iff).2 hR
  have hmid : (R⁻¹)⁻¹ + Y * (1 : Matrix s s F)⁻¹ * Yᵀ = Y * Yᵀ + R := by
    rw [nonsing_inv_nonsing_inv _ hRu, inv_one, Matrix.mul_one, add_comm]
  have h := Matrix.add_mul_mul_inv_eq_sub (1 : Matrix s s F) Yᵀ (R⁻¹) Y isUnit_one hRi (by rw [hmid]; exact hS)
  rw [hmid] at h
  simpa [Matrix.mul_assoc] using h

/-- push-through: `(I + Yᵀ R⁻¹ Y)⁻¹ Yᵀ R⁻¹ = Yᵀ (Y Yᵀ + R)⁻¹` -/
theorem push_through (Y : Matrix m s F) (R : Matrix m m F) (hR : IsUnit R) (hS : IsUnit (Y * Yᵀ + R)) :
    (1 + Yᵀ * R⁻¹ * Y)⁻¹ * (Yᵀ * R⁻¹) = Yᵀ * (Y * Yᵀ + R)⁻¹ := by
  have hRu : IsUnit R.det := (Matrix.isUnit_iff_isUnit_det _).1 hR
  have hSu : IsUnit (Y * Yᵀ + R).det := (Matrix.isUnit_iff_isUnit_det _).1 hS
  have hMu : IsUnit (1 + Yᵀ * R⁻¹ * Y).det := (Matrix.isUnit_iff_isUnit_det _).1 (Cinv_isUnit Y R hR hS)
  have key : (1 + Yᵀ * R⁻¹ * Y) * (Yᵀ * (Y * Yᵀ + R)⁻¹) = Yᵀ * R⁻¹ := by
    have e : (1 + Yᵀ * R⁻¹ * Y) * Yᵀ = Yᵀ * R⁻¹ * (Y * Yᵀ + R) := by
      rw [Matrix.add_mul, Matrix.one_mul, Matrix.mul_add, Matrix.mul_assoc Yᵀ R⁻¹ R,
        nonsing_inv_mul _ hRu, Matrix.mul_one]
      simp only [Matrix.mul_assoc]
      rw [add_comm]
    rw [← Matrix.mul_assoc, e, Matrix.mul_assoc, Matrix.mul_nonsing_inv _ hSu, Matrix.mul_one]
  calc (1 + Yᵀ * R⁻¹ * Y)⁻¹ * (Yᵀ * R⁻¹)
      = (1 + Yᵀ * R⁻¹ * Y)⁻¹ * ((1 + Yᵀ * R⁻¹ * Y) * (Yᵀ * (Y * Yᵀ + R)⁻¹)) := by rw [key]
    _ = Yᵀ * (Y * Yᵀ + R)⁻¹ := by rw [← Matrix.mul_assoc, nonsing_inv_mul _ hMu, Matrix.one_mul]

variable {n : Type*}

/-- the serial covariance `X C Xᵀ` is `X Xᵀ − (X Yᵀ) S⁻¹ (X Yᵀ)ᵀ` -/
theorem cov_eq (X : Matrix n s F) (Y : Matrix m s F) (R : Matrix m m F) (hR : IsUnit R) (hS : IsUnit (Y * Yᵀ + R)) :
    X * (1 + Yᵀ * R⁻¹ * Y)⁻¹ * Xᵀ = X * Xᵀ - (X * Yᵀ) * (Y * Yᵀ + R)⁻¹ * (X * Yᵀ)ᵀ := by
  rw [C_eq Y R hR hS, Matrix.mul_sub, Matrix.sub_mul, Matrix.mul_one, transpose_mul, transpose_transpose]
  simp only [Matrix.mul_assoc]

/-- the serial mean increment `X C d`, `d = Yᵀ R⁻¹ ν`, is `(X Yᵀ) S⁻¹ ν` -/
theorem mean_eq (X : Matrix n s F) (Y : Matrix m s F) (R : Matrix m m F) (ν : m → F)
    (hR : IsUnit R) (hS : IsUnit (Y * Yᵀ + R)) :
    (X * (1 + Yᵀ * R⁻¹ * Y)⁻¹) *ᵥ ((Yᵀ * R⁻¹) *ᵥ ν) = ((X * Yᵀ) * (Y * Yᵀ + R)⁻¹) *ᵥ ν := by
  rw [Matrix.mulVec_mulVec, Matrix.mul_assoc, push_through Y R hR hS, ← Matrix.mul_assoc]

/-- the UKF covariance `P − K S Kᵀ` with `K = Pxy S⁻¹`, `S` symmetric, is `P − Pxy S⁻¹ Pxyᵀ` -/
theorem ukf_cov_eq (P : Matrix n n F) (Pxy : Matrix n m F) (S : Matrix m m F) (hS : IsUnit S) (hSt : Sᵀ = S) :
    P - (Pxy * S⁻¹) * S * (Pxy * S⁻¹)ᵀ = P - Pxy * S⁻¹ * Pxyᵀ := by
  have hSu : IsUnit S.det := (Matrix.isUnit_iff_isUnit_det _).1 hS
  rw [Matrix.mul_assoc Pxy S⁻¹ S, nonsing_inv_mul _ hSu, Matrix.mul_one, transpose_mul, transpose_nonsing_inv, hSt,
    ← Matrix.mul_assoc]

end woodbury

/-! ### Square-root weights -/
section sqrtw
variable {r r' s : Type*} [Fintype s]

/-- `(A diag(√w)) (B diag(√w))ᵀ = A diag(w) Bᵀ` for non-negative weights -/
theorem sqrt_scale_outer (A : Matrix r s ℝ) (B : Matrix r' s ℝ) (w : s → ℝ) (hw : ∀ j, 0 ≤ w j) :
    (Matrix.of fun i j => A i j * Real.sqrt (w j)) * (Matrix.of fun i j => B i j * Real.sqrt (w j))ᵀ
      = (Matrix.of fun i j => A i j * w j) * Bᵀ := by
  ext i l
  simp only [Matrix.mul_apply, Matrix.of_apply, Matrix.transpose_apply]
  refine Finset.sum_congr rfl (fun j _ => ?_)
  have := Real.mul_self_sqrt (hw j)
  calc A i j * Real.sqrt (w j) * (B l j * Real.sqrt (w j))
      = A i j * (Real.sqrt (w j) * Real.sqrt (w j)) * B l j := by ring
    _ = A i j * w j * B l j := by rw [this]

/-- without the sign condition the square roots reproduce the *positive part* of the weights -/
theorem sqrt_scale_outer_posPart (A : Matrix r s ℝ) (B : Matrix r' s ℝ) (w : s → ℝ) :
    (Matrix.of fun i j => A i j * Real.sqrt (w j)) * (Matrix.of fun i j => B i j * Real.sqrt (w j))ᵀ
      = (Matrix.of fun i j => A i j * max (w j) 0) * Bᵀ := by
  ext i l
  simp only [Matrix.mul_apply, Matrix.of_apply, Matrix.transpose_apply]
  refine Finset.sum_congr rfl (fun j _ => ?_)
  have : Real.sqrt (w j) * Real.sqrt (w j) = max (w j) 0 := by
    rcases le_total 0 (w j) with h | h
    · rw [Real.mul_self_sqrt h, max_eq_left h]
    · rw [Real.sqrt_eq_zero_of_nonpos h, max_eq_right h, mul_zero]
  calc A i j * Real.sqrt (w j) * (B l j * Real.sqrt (w j))
      = A i j * (Real.sqrt (w j) * Real.sqrt (w j)) * B l j := by ring
    _ = A i j * max (w j) 0 * B l j := by rw [this]

end sqrtw

/-! ### Sums over the blocks of a block-diagonal matrix -/
section blocks
variable {F : Type} [Field F] {nb bs : Nat}

/-- `A · blockdiag(D) · B = Σ_i A[:, block i] · D_i · B[block i, :]` -/
theorem mul_bdiag_mul {r c : Type*} (A : Matrix r (Fin (nb * bs)) F) (D : Fin nb → Matrix (Fin bs) (Fin bs) F)
    (B : Matrix (Fin (nb * bs)) c F) :
    A * bdiag D * B = ∑ i, A.submatrix id (bidx i) * D i * B.submatrix (bidx i) id := by
  ext a b
  simp only [Matrix.mul_apply, Matrix.sum_apply, Matrix.submatrix_apply, id_eq]
  rw [sum_blocks]
  refine Finset.sum_congr rfl (fun j _ => Finset.sum_congr rfl (fun c _ => ?_))
  congr 1
  rw [sum_blocks, Finset.sum_eq_single j]
  · simp
  · intro i _ hi
    refine Finset.sum_eq_zero (fun l _ => ?_)
    simp [hi]
  · intro h; exact absurd (Finset.mem_univ _) h

/-- the same for a vector on the right -/
theorem mul_bdiag_mulVec {r : Type*} (A : Matrix r (Fin (nb * bs)) F) (D : Fin nb → Matrix (Fin bs) (Fin bs) F)
    (v : Fin (nb * bs) → F) :
    (A * bdiag D) *ᵥ v = ∑ i, (A.submatrix id (bidx i) * D i) *ᵥ (fun c => v (bidx i c)) := by
  have h := mul_bdiag_mul A D (Matrix.of (fun p (_ : Fin 1) => v p))
  ext a
  have := congrFun (congrFun h a) 0
  simp only [Matrix.mul_apply, Matrix.sum_apply, Matrix.of_apply, Matrix.submatrix_apply, id_eq] at this
  simp only [Matrix.mulVec, dotProduct, Matrix.mul_apply, Finset.sum_apply]
  exact this

end blocks

/-! ### A block-diagonal matrix with positive-definite blocks is positive definite -/
section posdef
variable {nb bs : Nat}

theorem bdiag_posDef (D : Fin nb → Matrix (Fin bs) (Fin bs) ℝ) (h : ∀ i, (D i).PosDef) : (bdiag D).PosDef := by
  rw [Matrix.posDef_iff_dotProduct_mulVec]
  constructor
  · show (bdiag D)ᴴ = bdiag D
    rw [Matrix.conjTranspose_eq_transpose_of_trivial, bdiag_transpose]
    congr 1; funext i
    have := (h i).isHermitian.eq
    rwa [Matrix.conjTranspose_eq_transpose_of_trivial] at this
  · intro x hx
    have hsum : star x ⬝ᵥ (bdiag D *ᵥ x)
        = ∑ i, (fun c => x (bidx i c)) ⬝ᵥ (D i *ᵥ (fun c => x (bidx i c))) := by
      simp only [dotProduct, Matrix.mulVec, star_trivial]
      rw [sum_blocks]
      refine Finset.sum_congr rfl (fun i _ => Finset.sum_congr rfl (fun a _ => ?_))
      congr 1
      rw [sum_blocks, Finset.sum_eq_single i]
      · simp
      · intro j _ hj
        refine Finset.sum_eq_zero (fun l _ => ?_)
        simp [Ne.symm hj]
      · intro h'; exact absurd (Finset.mem_univ _) h'
    rw [hsum]
    obtain ⟨p, hp⟩ : ∃ p, x p ≠ 0 := by
      by_contra hcon
      push Not at hcon
      exact hx (funext hcon)
    have hnn : ∀ i, 0 ≤ (fun c => x (bidx i c)) ⬝ᵥ (D i *ᵥ (fun c => x (bidx i c))) := by
      intro i
      have := (h i).posSemidef.dotProduct_mulVec_nonneg (fun c => x (bidx i c))
      simpa using this
    have hpos : 0 < (fun c => x (bidx p.divNat c)) ⬝ᵥ (D p.divNat *ᵥ (fun c => x (bidx p.divNat c))) := by
      have hne : (fun c => x (bidx p.divNat c)) ≠ 0 := by
        intro h0
        have := congrFun h0 p.modNat
        rw [bidx_div_mod] at this
        exact hp this
      have := (h p.divNat).dotProduct_mulVec_pos hne
      simpa using this
    exact lt_of_lt_of_le hpos (Finset.single_le_sum (fun i _ => hnn i) (Finset.mem_univ _))

end posdef

end BFL.SUKFProofs
