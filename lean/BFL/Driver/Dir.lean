import BFL.Driver.Proto
import BFL.Model.Dir
/-
Driver entries for the directional statistics (C19), executed over `Float`.

  dadd  r c a(r×c, column-major) b(r)   -> "ok" matrix (column-major)
  dsub  r c a b                         -> "ok" matrix
  dmean r c a w(c)                      -> "ok" branch vector(r)
-/
namespace BFL.DriverDir
open BFL BFL.Proto BFL.Dir

def dadd (sub : Bool) : R String := do
  let r ← nat; let c ← nat
  let a ← matCM flt r c
  let b ← vec flt r
  done
  let res := if sub then dirSub a b else dirAdd a b
  pure (join ("ok" :: outMatCM floatStr res))

def dmean : R String := do
  let r ← nat; let c ← nat
  let a ← matCM flt r c
  let w ← vec flt c
  done
  let res := dirMean a w
  pure (join ("ok" :: dirMeanBranch c :: outVec floatStr res))

def handle (op : String) (args : List String) : Option String :=
  match op with
  | "dadd" => some ((run (dadd false) args).getD "bad-args")
  | "dsub" => some ((run (dadd true) args).getD "bad-args")
  | "dmean" => some ((run dmean args).getD "bad-args")
  -- block / aliasing variants of the harness: the same model functions
  | "daddB" => some ((run (dadd false) args).getD "bad-args")
  | "dsubB" => some ((run (dadd true) args).getD "bad-args")
  | "dmeanB" => some ((run dmean args).getD "bad-args")
  | _ => none

end BFL.DriverDir
