#!/bin/sh
# One-time setup after a fresh restore (offline): build the Lean model/driver/proofs and the
# sanitizer builds of the library.  Every check re-runs the incremental part of this itself.
set -e
cd "$(dirname "$0")/.."
mkdir -p build evidence replays
( cd lean && lake build ) 
python3 - <<'PY'
import sys
sys.path.insert(0, '.')
import vlib
vlib.build_lib('dbg')
import os
if os.path.exists('harness/h_race.cpp') or os.path.exists('harness/h_life.cpp'):
    vlib.build_lib('tsan')
PY
echo setup-ok
