import BFL.Model.Resample
import BFL.Bridge.Transc
import Mathlib.Algebra.BigOperators.Ring.List
import Mathlib.Algebra.Order.BigOperators.Group.List
import Mathlib.Analysis.SpecialFunctions.Log.Basic
/-
Helper lemmas for C07 / C06 over ℝ: `utils::log_sum_exp` as coded (`max + log Σ exp(xᵢ − max)`)
is `log Σ exp xᵢ`; subtracting it normalises; uniform log-weights `-log N`.
-/
namespace BFL.PF
open Real

theorem sum_exp_sub (xs : List ℝ) (m : ℝ) :
    (xs.map (fun x => Real.exp (x - m))).sum = (xs.map Real.exp).sum * Real.exp (-m) := by
  rw [← List.sum_map_mul_right]
  congr 1
  apply List.map_congr_left
  intro x _
  rw [sub_eq_add_neg, Real.exp_add]

theorem sum_exp_pos (xs : List ℝ) (h : xs ≠ []) : 0 < (xs.map Real.exp).sum :=
  List.sum_pos _ (by intro y hy; obtain ⟨x, _, rfl⟩ := List.mem_map.1 hy; exact Real.exp_pos x) (by simpa using h)

/-- the argument of the `log` inside `log_sum_exp` is positive (definedness) -/
theorem logSumExp_arg_pos (xs : List ℝ) (h : xs ≠ []) (m : ℝ) :
    0 < (xs.map (fun x => Real.exp (x - m))).sum := by
  rw [sum_exp_sub]; exact mul_pos (sum_exp_pos xs h) (Real.exp_pos _)

theorem logSumExp_eq (xs : List ℝ) (h : xs ≠ []) :
    logSumExp xs = Real.log ((xs.map Real.exp).sum) := by
  unfold logSumExp
  simp only [transc_exp, transc_log]
  rw [sum_exp_sub, Real.log_mul (sum_exp_pos xs h).ne' (Real.exp_pos _).ne', Real.log_exp]
  ring

theorem exp_logSumExp (xs : List ℝ) (h : xs ≠ []) :
    Real.exp (logSumExp xs) = (xs.map Real.exp).sum := by
  rw [logSumExp_eq xs h, Real.exp_log (sum_exp_pos xs h)]

/-- after `w -= log_sum_exp(w)` the weights are normalised: `Σ exp wᵢ = 1` -/
theorem sum_exp_normalizeLog (xs : List ℝ) (h : xs ≠ []) :
    ((normalizeLog xs).map Real.exp).sum = 1 := by
  unfold normalizeLog
  simp only [List.map_map]
  have : (Real.exp ∘ fun x => x - logSumExp xs) = fun x => Real.exp (x - logSumExp xs) := rfl
  rw [this, sum_exp_sub, Real.exp_neg, ← exp_logSumExp xs h]
  exact mul_inv_cancel₀ (Real.exp_pos _).ne'

theorem normalizeLog_length (xs : List ℝ) : (normalizeLog xs).length = xs.length := by
  simp [normalizeLog]

theorem normalizeLog_getElem (xs : List ℝ) (i : Nat) (h : i < (normalizeLog xs).length) :
    (normalizeLog xs)[i] = xs[i]'(by simpa [normalizeLog] using h) - logSumExp xs := by
  simp [normalizeLog]

/-- uniform weights: `Σ exp(-log N) = 1` -/
theorem sum_exp_uniform (N : Nat) (hN : 0 < N) :
    ((List.replicate N (-(Real.log (N : ℝ)))).map Real.exp).sum = 1 := by
  have hNr : (0 : ℝ) < N := by exact_mod_cast hN
  rw [List.map_replicate, List.sum_replicate, Real.exp_neg, Real.exp_log hNr, nsmul_eq_mul]
  exact mul_inv_cancel₀ hNr.ne'

theorem logSumExp_uniform (N : Nat) (hN : 0 < N) :
    logSumExp (List.replicate N (-(Real.log (N : ℝ)))) = 0 := by
  have hne : List.replicate N (-(Real.log (N : ℝ))) ≠ [] := by
    intro h; have := congrArg List.length h; simp at this; omega
  rw [logSumExp_eq _ hne, sum_exp_uniform N hN, Real.log_one]

end BFL.PF
