import BFL.Proofs.History
import BFL.Proofs.ExtractWeights
/-
Invariants of the `EstimatesExtraction` state machine (`BFL/Model/Extract.lean`), by induction over
call lists: the window stays in [2, 30], the history never exceeds it, the cached weight vectors are
always the ones a fresh computation would give for their length, the history is always the most
recent part of the log of pushed base estimates.
-/
namespace BFL
namespace Extract

/-- the cached vector of each family is what a fresh computation gives for its length -/
structure CacheFresh (s : EE ℝ) : Prop where
  sm : s.smW = smWeights s.smW.length
  wm : s.wmW = wmWeights s.wmW.length
  em : s.emW = emWeights s.emW.length

theorem CacheFresh.cached {s : EE ℝ} (h : CacheFresh s) (f : Fam) :
    s.cached f = famWeights f (s.cached f).length := by
  cases f
  · exact h.sm
  · exact h.wm
  · exact h.em

/-- the invariant of every reachable extraction object -/
structure EEInv (lin circ : Nat) (s : EE ℝ) : Prop where
  hist : HistBuf.Inv s.hist
  cache : CacheFresh s
  lin_eq : s.lin = lin
  circ_eq : s.circ = circ

theorem inv_init (lin circ : Nat) : EEInv lin circ (EE.init lin circ : EE ℝ) := by
  refine ⟨HistBuf.inv_init, ⟨?_, ?_, ?_⟩, rfl, rfl⟩
  · simp [EE.init, smWeights]
  · simp [EE.init, wmWeights]
  · simp [EE.init, emWeights]

@[simp] theorem setCached_hist (s : EE ℝ) (f : Fam) (w : List ℝ) : (s.setCached f w).hist = s.hist := by
  cases f <;> rfl
@[simp] theorem setCached_lin (s : EE ℝ) (f : Fam) (w : List ℝ) : (s.setCached f w).lin = s.lin := by
  cases f <;> rfl
@[simp] theorem setCached_circ (s : EE ℝ) (f : Fam) (w : List ℝ) : (s.setCached f w).circ = s.circ := by
  cases f <;> rfl
@[simp] theorem setCached_method (s : EE ℝ) (f : Fam) (w : List ℝ) : (s.setCached f w).method = s.method := by
  cases f <;> rfl

theorem setCached_fresh {s : EE ℝ} (h : CacheFresh s) (f : Fam) (k : Nat) :
    CacheFresh (s.setCached f (famWeights f k)) := by
  cases f
  · exact ⟨by simp [EE.setCached, famWeights], h.wm, h.em⟩
  · exact ⟨h.sm, by simp [EE.setCached, famWeights], h.em⟩
  · exact ⟨h.sm, h.wm, by simp [EE.setCached, famWeights]⟩

/-- The weight vector `windowed` uses — cached or recomputed — is always the fresh one for the new
    history length: no call sequence can leave a stale vector of the right length. -/
theorem windowed_weight_fresh {s : EE ℝ} (h : CacheFresh s) (f : Fam) (k : Nat) :
    (if (s.cached f).length ≠ k then famWeights f k else s.cached f) = famWeights f k := by
  split
  · rfl
  · rename_i hk
    have hk' : (s.cached f).length = k := by simpa using hk
    rw [← hk']; exact h.cached f

theorem windowed_eq {s : EE ℝ} (h : CacheFresh s) (f : Fam) (cur : List ℝ) :
    windowed s f cur =
      (({ s with hist := s.hist.add cur }).setCached f (famWeights f (s.hist.add cur).items.length),
       meanEst s.lin s.circ (s.hist.add cur).items (famWeights f (s.hist.add cur).items.length)) := by
  unfold windowed
  simp only [windowed_weight_fresh h f]

theorem inv_windowed {lin circ : Nat} {s : EE ℝ} (h : EEInv lin circ s) (f : Fam) (cur : List ℝ) :
    EEInv lin circ (windowed s f cur).1 := by
  rw [windowed_eq h.cache]
  refine ⟨?_, ?_, ?_, ?_⟩
  · simp only [setCached_hist]; exact HistBuf.inv_add h.hist cur
  · exact setCached_fresh (s := { s with hist := s.hist.add cur }) ⟨h.cache.sm, h.cache.wm, h.cache.em⟩ f _
  · simp only [setCached_lin]; exact h.lin_eq
  · simp only [setCached_circ]; exact h.circ_eq

theorem inv_extract2 {lin circ : Nat} (eps : ℝ) {s : EE ℝ} (h : EEInv lin circ s) (a : Args ℝ) :
    EEInv lin circ (extract2 eps s a).1 := by
  unfold extract2
  split
  · exact h
  · exact h
  · exact inv_windowed h _ _

theorem inv_extract5 {lin circ : Nat} (eps : ℝ) {s : EE ℝ} (h : EEInv lin circ s) (a : Args ℝ) :
    EEInv lin circ (extract5 eps s a).1 := by
  unfold extract5
  split
  · exact h
  · exact inv_windowed h _ _
  · exact inv_extract2 eps h a

theorem inv_step {lin circ : Nat} (eps : ℝ) {s : EE ℝ} (h : EEInv lin circ s) (c : Call ℝ) :
    EEInv lin circ (step eps s c).1 := by
  cases c with
  | setMethod m => exact ⟨h.hist, ⟨h.cache.sm, h.cache.wm, h.cache.em⟩, h.lin_eq, h.circ_eq⟩
  | setWindow n =>
    simp only [step, setMobileWindow]
    split
    · exact ⟨HistBuf.inv_setWindow h.hist _, ⟨h.cache.sm, h.cache.wm, h.cache.em⟩, h.lin_eq, h.circ_eq⟩
    · exact h
  | clear =>
    exact ⟨⟨h.hist.lo, h.hist.hi, Nat.zero_le _⟩, ⟨h.cache.sm, h.cache.wm, h.cache.em⟩, h.lin_eq, h.circ_eq⟩
  | extract2 a => exact inv_extract2 eps h a
  | extract5 a => exact inv_extract5 eps h a
  | move => exact h

theorem inv_runFrom {lin circ : Nat} (eps : ℝ) {s : EE ℝ} (h : EEInv lin circ s) (cs : List (Call ℝ)) :
    EEInv lin circ (runFrom eps s cs) := by
  induction cs generalizing s with
  | nil => exact h
  | cons c cs ih => exact ih (inv_step eps h c)

theorem inv_run (eps : ℝ) (lin circ : Nat) (cs : List (Call ℝ)) : EEInv lin circ (run eps lin circ cs) :=
  inv_runFrom eps (inv_init lin circ) cs

end Extract
end BFL
