/-
C14 — shape algebra (core Lean only).

A modelled C++ function is transcribed as the *sequence of its matrix operations on symbolic
dimensions*.  Every operation of Eigen / libstdc++ that has a run-time side condition (checked by
`eigen_assert` / the sanitizers in the `dbg` build, silently violated in the shipped `NDEBUG`
build) emits an obligation `Ob` naming the call site and the condition; the transcription runs in
the writer monad `W`, which collects the obligations and carries the result shapes.

  `prod (r,k) (k',c)`                requires k = k'                (Eigen: "invalid matrix product")
  `block i j p q of (r,c)`           requires i+p ≤ r ∧ j+q ≤ c     (Block constructor assertion)
  `col j`, `row i`                   requires j < c, i < r
  assignment to a fixed-size view    requires equal shapes          ("DenseBase::resize() does not actually allow one to resize")
  assignment to an owning matrix     resizes (no obligation)
  `+`, `-`, `+=`, `-=`, `colwise ±`  require equal shapes / equal rows
  comma initialiser                  requires count = size (and a non-empty target for scalars)
  `deque::pop_back`                  requires non-empty
  `v(i)`, `m(i,j)`                   require i < size, i < r ∧ j < c
  reductions (`maxCoeff`)            require a non-empty operand

`W.Safe w` = every collected obligation holds.  The theorems (`BFL/Props/C14.lean`) are of the
form `Valid cfg → (fn cfg).Safe`; the driver evaluates `W.firstViolation` for a concrete
configuration and the correspondence check compares it with the real library run under
assertions + sanitizers.
-/
namespace BFL.Bounds

/-- A decidable side condition over natural numbers. -/
inductive Cond where
  | le (a b : Nat)
  | lt (a b : Nat)
  | eq (a b : Nat)
  | tt (b : Bool)

@[simp] def Cond.holds : Cond → Prop
  | .le a b => a ≤ b
  | .lt a b => a < b
  | .eq a b => a = b
  | .tt b => b = true

def Cond.check : Cond → Bool
  | .le a b => decide (a ≤ b)
  | .lt a b => decide (a < b)
  | .eq a b => decide (a = b)
  | .tt b => b

theorem Cond.check_iff (c : Cond) : c.check = true ↔ c.holds := by
  cases c <;> simp [Cond.check]

instance (c : Cond) : Decidable c.holds := decidable_of_iff _ c.check_iff

/-- An obligation: the call site (function / expression) and its side condition. -/
structure Ob where
  site : String
  cond : Cond

/-- rows × cols of a dense matrix (a vector is `n × 1`). -/
structure Shape where
  r : Nat
  c : Nat
deriving DecidableEq, Repr

def Shape.size (s : Shape) : Nat := s.r * s.c
def Shape.str (s : Shape) : String := s!"{s.r}x{s.c}"
@[simp] def Shape.t (s : Shape) : Shape := ⟨s.c, s.r⟩
@[simp] def vecS (n : Nat) : Shape := ⟨n, 1⟩

/-- Writer monad: obligations collected so far and the value. -/
structure W (α : Type) where
  obs : List Ob
  val : α

namespace W

instance : Monad W where
  pure a := ⟨[], a⟩
  bind m f := ⟨m.obs ++ (f m.val).obs, (f m.val).val⟩

/-- every obligation holds -/
def Safe {α : Type} (w : W α) : Prop := ∀ o ∈ w.obs, o.cond.holds

/-- the first violated obligation (what the `dbg` build would abort on) -/
def firstViolation {α : Type} (w : W α) : Option String :=
  (w.obs.find? (fun o => !o.cond.check)).map (·.site)

def safeB {α : Type} (w : W α) : Bool := w.obs.all (fun o => o.cond.check)

theorem safeB_iff {α : Type} (w : W α) : w.safeB = true ↔ w.Safe := by
  simp [safeB, Safe, Cond.check_iff]

instance {α : Type} (w : W α) : Decidable w.Safe := decidable_of_iff _ w.safeB_iff

@[simp] theorem obs_pure {α : Type} (a : α) : (pure a : W α).obs = [] := rfl
@[simp] theorem val_pure {α : Type} (a : α) : (pure a : W α).val = a := rfl
@[simp] theorem obs_bind {α β : Type} (m : W α) (f : α → W β) : (m >>= f).obs = m.obs ++ (f m.val).obs := rfl
@[simp] theorem val_bind {α β : Type} (m : W α) (f : α → W β) : (m >>= f).val = (f m.val).val := rfl

@[simp] theorem safe_pure {α : Type} (a : α) : (pure a : W α).Safe := by simp [Safe]
@[simp] theorem safe_bind {α β : Type} (m : W α) (f : α → W β) : (m >>= f).Safe ↔ m.Safe ∧ (f m.val).Safe := by
  simp only [Safe, obs_bind, List.mem_append]
  constructor
  · intro h; exact ⟨fun o ho => h o (Or.inl ho), fun o ho => h o (Or.inr ho)⟩
  · rintro ⟨h1, h2⟩ o (ho | ho)
    · exact h1 o ho
    · exact h2 o ho
@[simp] theorem safe_mk_nil {α : Type} (a : α) : (W.mk [] a).Safe := by simp [Safe]
@[simp] theorem safe_mk_cons {α : Type} (o : Ob) (l : List Ob) (a : α) : (W.mk (o :: l) a).Safe ↔ o.cond.holds ∧ (W.mk l a).Safe := by
  simp [Safe]
@[simp] theorem safe_ite {α : Type} (c : Prop) [Decidable c] (a b : W α) :
    (if c then a else b).Safe ↔ (c → a.Safe) ∧ (¬c → b.Safe) := by
  split <;> simp [*]
@[simp] theorem val_ite {α : Type} (c : Prop) [Decidable c] (a b : W α) :
    (if c then a else b).val = if c then a.val else b.val := by
  split <;> rfl

end W

open W

/-- a bare obligation -/
@[simp] def req (site : String) (c : Cond) : W Unit := ⟨[⟨site, c⟩], ()⟩

/-- `for i = 0 .. n-1` -/
def forRange (n : Nat) (body : Nat → W Unit) : W Unit :=
  ⟨(List.range n).flatMap (fun i => (body i).obs), ()⟩

@[simp] theorem safe_forRange (n : Nat) (body : Nat → W Unit) :
    (forRange n body).Safe ↔ ∀ i, i < n → (body i).Safe := by
  simp only [Safe, forRange, List.mem_flatMap, List.mem_range]
  constructor
  · intro h i hi o ho; exact h o ⟨i, hi, ho⟩
  · rintro h o ⟨i, hi, ho⟩; exact h i hi o ho
@[simp] theorem val_forRange (n : Nat) (body : Nat → W Unit) : (forRange n body).val = () := rfl

/-! ### Eigen operations -/

/-- `A * B` -/
@[simp] def prod (site : String) (a b : Shape) : W Shape := ⟨[⟨site, .eq a.c b.r⟩], ⟨a.r, b.c⟩⟩
/-- `xpr.block(i, j, p, q)` -/
@[simp] def block (site : String) (s : Shape) (i j p q : Nat) : W Shape :=
  ⟨[⟨site, .le (i + p) s.r⟩, ⟨site, .le (j + q) s.c⟩], ⟨p, q⟩⟩
@[simp] def topRows (site : String) (s : Shape) (n : Nat) : W Shape := ⟨[⟨site, .le n s.r⟩], ⟨n, s.c⟩⟩
@[simp] def bottomRows (site : String) (s : Shape) (n : Nat) : W Shape := ⟨[⟨site, .le n s.r⟩], ⟨n, s.c⟩⟩
@[simp] def middleRows (site : String) (s : Shape) (i n : Nat) : W Shape := ⟨[⟨site, .le (i + n) s.r⟩], ⟨n, s.c⟩⟩
@[simp] def leftCols (site : String) (s : Shape) (n : Nat) : W Shape := ⟨[⟨site, .le n s.c⟩], ⟨s.r, n⟩⟩
@[simp] def rightCols (site : String) (s : Shape) (n : Nat) : W Shape := ⟨[⟨site, .le n s.c⟩], ⟨s.r, n⟩⟩
@[simp] def middleCols (site : String) (s : Shape) (j n : Nat) : W Shape := ⟨[⟨site, .le (j + n) s.c⟩], ⟨s.r, n⟩⟩
@[simp] def col (site : String) (s : Shape) (j : Nat) : W Shape := ⟨[⟨site, .lt j s.c⟩], ⟨s.r, 1⟩⟩
@[simp] def row (site : String) (s : Shape) (i : Nat) : W Shape := ⟨[⟨site, .lt i s.r⟩], ⟨1, s.c⟩⟩
/-- vector segments (`head`, `tail`, `segment`) of an `n × 1` vector -/
@[simp] def head (site : String) (s : Shape) (n : Nat) : W Shape := ⟨[⟨site, .le n s.r⟩], ⟨n, 1⟩⟩
@[simp] def tail (site : String) (s : Shape) (n : Nat) : W Shape := ⟨[⟨site, .le n s.r⟩], ⟨n, 1⟩⟩
@[simp] def segment (site : String) (s : Shape) (i n : Nat) : W Shape := ⟨[⟨site, .le (i + n) s.r⟩], ⟨n, 1⟩⟩
/-- `v(i)` / `v.coeff(i)` on a vector of `n` entries -/
@[simp] def coeff (site : String) (n i : Nat) : W Unit := ⟨[⟨site, .lt i n⟩], ()⟩
/-- `m(i, j)` -/
@[simp] def coeff2 (site : String) (s : Shape) (i j : Nat) : W Unit := ⟨[⟨site, .lt i s.r⟩, ⟨site, .lt j s.c⟩], ()⟩
/-- assignment to a fixed-size view (`Ref`, `Block`): shapes must agree -/
@[simp] def assignFixed (site : String) (dst src : Shape) : W Unit :=
  ⟨[⟨site, .eq dst.r src.r⟩, ⟨site, .eq dst.c src.c⟩], ()⟩
/-- coefficient-wise binary operation (`+`, `-`, `+=`, `-=`) -/
@[simp] def cwise (site : String) (a b : Shape) : W Shape :=
  ⟨[⟨site, .eq a.r b.r⟩, ⟨site, .eq a.c b.c⟩], a⟩
/-- `A.colwise() ± v` with `v` a column vector -/
@[simp] def colwiseOp (site : String) (a v : Shape) : W Shape := ⟨[⟨site, .eq a.r v.r⟩], a⟩
/-- comma initialiser with `count` scalars into `dst` -/
@[simp] def commaScalars (site : String) (dst : Shape) (count : Nat) : W Unit :=
  ⟨[⟨site, .lt 0 dst.r⟩, ⟨site, .lt 0 dst.c⟩, ⟨site, .eq count (dst.r * dst.c)⟩], ()⟩
/-- comma initialiser with one row of blocks -/
@[simp] def commaRow (site : String) (dst : Shape) (blocks : List Shape) : W Unit :=
  ⟨(blocks.map fun b => ⟨site, .eq b.r dst.r⟩) ++ [⟨site, .eq (blocks.map (·.c)).sum dst.c⟩], ()⟩
/-- comma initialiser with an `n × n` grid of equal square blocks `b × b` into `dst` -/
@[simp] def commaSquareGrid (site : String) (dst : Shape) (n b : Nat) : W Unit :=
  ⟨[⟨site, .eq (n * b) dst.r⟩, ⟨site, .eq (n * b) dst.c⟩], ()⟩
/-- reductions / decompositions that reject an empty operand (`maxCoeff`, `JacobiSVD`) -/
@[simp] def nonEmpty (site : String) (s : Shape) : W Unit := ⟨[⟨site, .lt 0 s.r⟩, ⟨site, .lt 0 s.c⟩], ()⟩
/-- `std::deque::pop_back` on a container of `len` elements -/
@[simp] def popBack (site : String) (len : Nat) : W Unit := ⟨[⟨site, .lt 0 len⟩], ()⟩
/-- square-matrix requirement (`inverse`, `LDLT`, `determinant`) -/
@[simp] def square (site : String) (s : Shape) : W Unit := ⟨[⟨site, .eq s.r s.c⟩], ()⟩

/-- Harmless rewrite: `topRows(n)` and `block(0, 0, n, cols)` carry the same side condition. -/
theorem topRows_equiv_block (site : String) (s : Shape) (n : Nat) :
    (topRows site s n).Safe ↔ (block site s 0 0 n s.c).Safe := by simp
theorem bottomRows_equiv_block (site : String) (s : Shape) (n : Nat) (h : n ≤ s.r) :
    (bottomRows site s n).Safe ↔ (block site s (s.r - n) 0 n s.c).Safe := by
  simp; omega
theorem middleCols_equiv_block (site : String) (s : Shape) (j n : Nat) :
    (middleCols site s j n).Safe ↔ (block site s 0 j s.r n).Safe := by simp

/-- Outcome of a modelled call, as the harness observes it. -/
inductive Outcome where
  | ok (tokens : List String)     -- ran to completion; observable shapes / return values
  | throws                        -- reported through a C++ exception (std::runtime_error)
  | abort (site : String)         -- a side condition is violated (assertion / sanitizer report in `dbg`)

def Outcome.str : Outcome → String
  | .ok ts => " ".intercalate ("ok" :: ts)
  | .throws => "throw"
  | .abort s => "abort " ++ s

/-- A modelled call either throws (before any unsafe operation) or returns tokens. -/
def outcome (w : W (Option (List String))) : Outcome :=
  match w.firstViolation with
  | some s => .abort s
  | none => match w.val with
    | some ts => .ok ts
    | none => .throws

end BFL.Bounds
