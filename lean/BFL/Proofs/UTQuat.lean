import BFL.Model.UT
import BFL.Bridge.Mat
import BFL.Bridge.Transc
import BFL.Proofs.UTAlg
import BFL.Proofs.UT
import BFL.Proofs.UTCirc
import BFL.Proofs.QuatMean
/-
Quaternion block of the unscented transform: the output mean through the eigenvector contract of
`mean_quaternion` (spectral-gap argument, imported from `BFL/Proofs/QuatMean.lean`, C18), sign
invariance of the tangent offsets, equivariance under a fixed rotation.  Helper lemmas for
`BFL/Props/C03.lean`.
-/
namespace BFL
open UTProofs Matrix

set_option linter.unusedSectionVars false

/-- this file's quaternion / rotation vector in the vocabulary of `BFL/Model/Quat.lean` -/
def toQ (q : Quat ℝ) : Quat.Q ℝ := ⟨q.w, q.x, q.y, q.z⟩
def toV3 (r : V3 ℝ) : Quat.V3 ℝ := ⟨r.x, r.y, r.z⟩

theorem toQ_qmul (a b : Quat ℝ) : toQ (qmul a b) = (toQ a).mul (toQ b) := rfl
theorem toQ_qconj (a : Quat ℝ) : toQ (qconj a) = (toQ a).conj := rfl
theorem toV3_norm (r : V3 ℝ) : (toV3 r).norm = r.norm := rfl

theorem toQ_qexp (r : V3 ℝ) : toQ (qexp r) = Quat.quatExp (toV3 r) := by
  unfold qexp Quat.quatExp
  simp only [toV3_norm, Quat.cutoff, two_lit, gt_iff_lt]
  split <;> rfl

theorem toQ_normSq (q : Quat ℝ) : (toQ q).normSq = q.w ^ 2 + q.x ^ 2 + q.y ^ 2 + q.z ^ 2 := rfl

def V3.neg' (r : V3 ℝ) : V3 ℝ := ⟨-r.x, -r.y, -r.z⟩

theorem toV3_neg (r : V3 ℝ) : toV3 (V3.neg' r) = (toV3 r).neg := rfl

/-- rotation-vector perturbations of one quaternion block in the code's column order `[0, r_l, −r_l]` -/
noncomputable def pertV {n : ℕ} (r : Fin n → V3 ℝ) (j : Fin (2 * n + 1)) : V3 ℝ :=
  if _h0 : j.val = 0 then ⟨0, 0, 0⟩
  else if h1 : j.val ≤ n then r ⟨j.val - 1, by omega⟩
  else V3.neg' (r ⟨j.val - 1 - n, by have := j.isLt; omega⟩)

/-- the column paired with `j` (`0 ↦ 0`, `1+l ↔ 1+n+l`) -/
def pairCol {n : ℕ} (j : Fin (2 * n + 1)) : Fin (2 * n + 1) :=
  if h0 : j.val = 0 then j
  else if h1 : j.val ≤ n then ⟨j.val + n, by omega⟩
  else ⟨j.val - n, by have := j.isLt; omega⟩

theorem pairCol_involutive {n : ℕ} : Function.Involutive (pairCol (n := n)) := by
  intro j
  apply Fin.ext
  unfold pairCol
  by_cases h0 : j.val = 0
  · simp [h0]
  · by_cases h1 : j.val ≤ n
    · have : ¬ (j.val + n = 0) := by omega
      have h2 : ¬ (j.val + n ≤ n) := by omega
      simp [h0, h1, this, h2]
    · have hj := j.isLt
      have : ¬ (j.val - n = 0) := by omega
      have h2 : j.val - n ≤ n := by omega
      simp [h0, h1, this, h2]; omega

theorem pertV_pair {n : ℕ} (r : Fin n → V3 ℝ) (j : Fin (2 * n + 1)) :
    pertV r (pairCol j) = V3.neg' (pertV r j) := by
  unfold pertV pairCol
  by_cases h0 : j.val = 0
  · simp [h0, V3.neg']
  · by_cases h1 : j.val ≤ n
    · have : ¬ (j.val + n = 0) := by omega
      have h2 : ¬ (j.val + n ≤ n) := by omega
      simp only [h0, h1, this, h2, dite_false, dite_true]
      congr 2; apply Fin.ext; simp; omega
    · have hj := j.isLt
      have : ¬ (j.val - n = 0) := by omega
      have h2 : j.val - n ≤ n := by omega
      simp only [h0, h1, this, h2, dite_false, dite_true]
      have : (⟨j.val - n - 1, by omega⟩ : Fin n) = ⟨j.val - 1 - n, by omega⟩ := by apply Fin.ext; simp; omega
      rw [this]
      simp [V3.neg']

theorem wv_pair {n : ℕ} (w0 w : ℝ) (j : Fin (2 * n + 1)) : wv w0 w (pairCol j) = wv w0 w j := by
  unfold wv pairCol
  by_cases h0 : j.val = 0
  · simp [h0]
  · by_cases h1 : j.val ≤ n
    · have : ¬ (j.val + n = 0) := by omega
      simp [h0, h1, this]
    · have hj := j.isLt
      have : ¬ (j.val - n = 0) := by omega
      simp [h0, h1, this]


/-- **Quaternion output mean through the eigenvector contract.**  Quaternion sigma points
    `exp(±r_l/2) ⊗ c` around a unit centre `c` (column 0 is `c` itself), weights `w0` at the centre
    (any sign) and `w ≥ 0` elsewhere, and a positive weighted gap
    `Σ_j w_j (2 e_{j,w}² − 1) = w0 + 2 w Σ_l cos‖r_l‖` (outside the cut-off).  Then the centre meets the
    contract of the eigen-solver call of `mean_quaternion` (unit eigenvector of `Σ w_j q_j q_jᵀ` for its
    largest eigenvalue) and every vector meeting the contract is `±c`. -/
theorem quat_sigma_mean_contract {n : ℕ} (w0 w : ℝ) (hw : 0 ≤ w) (c : Quat ℝ)
    (hc : c.w ^ 2 + c.x ^ 2 + c.y ^ 2 + c.z ^ 2 = 1) (r : Fin n → V3 ℝ)
    (hgap : 0 < ∑ j, wv (n := n) w0 w j * (2 * (qexp (pertV r j)).w ^ 2 - 1)) :
    Quat.IsDominantEigvec
        (Quat.outerSum (wv (n := n) w0 w) (fun j => (toQ (qsum c (pertV r j))).get)) (toQ c).get ∧
    ∀ v, Quat.IsDominantEigvec
        (Quat.outerSum (wv (n := n) w0 w) (fun j => (toQ (qsum c (pertV r j))).get)) v →
      v = (toQ c).get ∨ v = -(toQ c).get := by
  have key := Quat.symmetric_centre_dominant_gen (wv (n := n) w0 w)
    (fun j => toQ (qexp (pertV r j))) (toQ c) pairCol pairCol_involutive
    (by rw [toQ_normSq]; exact hc)
    (fun j => by rw [toQ_qexp]; exact Quat.quatExp_normSq _)
    (fun j => by
      show toQ (qexp (pertV r (pairCol j))) = (toQ (qexp (pertV r j))).conj
      rw [pertV_pair, toQ_qexp, toV3_neg, Quat.quatExp_neg, toQ_qexp])
    (fun j => wv_pair w0 w j)
    (fun j => by
      by_cases h0 : j.val = 0
      · right
        have : pertV r j = ⟨0, 0, 0⟩ := by simp [pertV, h0]
        rw [this]
        have hz : qexp (⟨0, 0, 0⟩ : V3 ℝ) = ⟨1, 0, 0, 0⟩ := by
          unfold qexp
          have : (V3.mk (0 : ℝ) 0 0).norm = 0 := by simp [V3.norm_eq]
          rw [this]; norm_num
        rw [hz]; simp [toQ]
      · left
        simp [wv, h0, hw])
    (by simpa [toQ] using hgap)
  simpa [qsum, toQ_qmul] using key


/-! ### sign of the mean quaternion -/

def qneg (q : Quat ℝ) : Quat ℝ := ⟨-q.w, -q.x, -q.y, -q.z⟩

theorem norm_neg_vec (x y z : ℝ) : (V3.mk (-x) (-y) (-z)).norm = (V3.mk x y z).norm := by
  rw [V3.norm_eq, V3.norm_eq]; simp

/-- `q` and `−q` (the same rotation) have the same logarithm: this is what the `w < 0` branch of
    `quaternion_to_rotation_vector` is for -/
theorem qlog_qneg (q : Quat ℝ) (hw : q.w ≠ 0) : qlog (qneg q) = qlog q := by
  unfold qlog qneg
  simp only [norm_neg_vec, transc_acos, two_lit, neg_neg]
  split
  · rcases lt_or_gt_of_ne hw with h | h
    · have h' : ¬ (-q.w < 0) := by linarith
      rw [if_neg h', if_pos h]
      ext <;> simp only <;> ring
    · have h' : -q.w < 0 := by linarith
      have h'' : ¬ (q.w < 0) := by linarith
      rw [if_pos h', if_neg h'']
      ext <;> simp only <;> ring
  · rfl

theorem qmul_qconj_qneg (y c : Quat ℝ) : qmul y (qconj (qneg c)) = qneg (qmul y (qconj c)) := by
  ext <;> simp only [qmul, qconj, qneg] <;> ring

/-- the tangent offsets from the mean quaternion do not depend on which of `±c` the eigen-solver
    returned -/
theorem qdiff_qneg (y c : Quat ℝ) (hw : (qmul y (qconj c)).w ≠ 0) : qdiff y (qneg c) = qdiff y c := by
  unfold qdiff
  rw [qmul_qconj_qneg, qlog_qneg _ hw]

/-! ### a fixed rotation composed on the quaternion block -/

/-- `p ⊗ (0, v) ⊗ p*`, vector part: the rotation of `v` by the unit quaternion `p` -/
def qrot (p : Quat ℝ) (v : V3 ℝ) : V3 ℝ :=
  let q := qmul (qmul p ⟨0, v.x, v.y, v.z⟩) (qconj p)
  ⟨q.x, q.y, q.z⟩

theorem qrot_norm (p : Quat ℝ) (hp : p.w ^ 2 + p.x ^ 2 + p.y ^ 2 + p.z ^ 2 = 1) (v : V3 ℝ) :
    (qrot p v).norm = v.norm := by
  rw [V3.norm_eq, V3.norm_eq]
  congr 1
  simp only [qrot, qmul, qconj]
  linear_combination ((p.w ^ 2 + p.x ^ 2 + p.y ^ 2 + p.z ^ 2 + 1) * (v.x ^ 2 + v.y ^ 2 + v.z ^ 2)) * hp

/-- conjugating by a unit quaternion keeps the scalar part and rotates the vector part -/
theorem qconj_parts (p q : Quat ℝ) (hp : p.w ^ 2 + p.x ^ 2 + p.y ^ 2 + p.z ^ 2 = 1) :
    (qmul (qmul p q) (qconj p)).w = q.w ∧
    (V3.mk (qmul (qmul p q) (qconj p)).x (qmul (qmul p q) (qconj p)).y (qmul (qmul p q) (qconj p)).z)
      = qrot p ⟨q.x, q.y, q.z⟩ := by
  constructor
  · simp only [qmul, qconj]
    linear_combination q.w * hp
  · ext <;> simp only [qrot, qmul, qconj] <;> ring


theorem qrot_scale (p : Quat ℝ) (f nn : ℝ) (v : V3 ℝ) :
    qrot p ⟨f * v.x / nn, f * v.y / nn, f * v.z / nn⟩
      = ⟨f * (qrot p v).x / nn, f * (qrot p v).y / nn, f * (qrot p v).z / nn⟩ := by
  ext <;> simp only [qrot, qmul, qconj] <;> ring

theorem qrot_zero (p : Quat ℝ) : qrot p ⟨0, 0, 0⟩ = ⟨0, 0, 0⟩ := by
  ext <;> simp [qrot, qmul, qconj]

/-- the logarithm as a function of the scalar part and the vector part -/
noncomputable def qlogOf (w : ℝ) (v : V3 ℝ) : V3 ℝ :=
  if (5e-5 : ℝ) < v.norm then
    if w < 0 then ⟨(-(2.0 : ℝ)) * Real.arccos (-w) * v.x / v.norm, (-(2.0 : ℝ)) * Real.arccos (-w) * v.y / v.norm,
      (-(2.0 : ℝ)) * Real.arccos (-w) * v.z / v.norm⟩
    else ⟨(2.0 : ℝ) * Real.arccos w * v.x / v.norm, (2.0 : ℝ) * Real.arccos w * v.y / v.norm,
      (2.0 : ℝ) * Real.arccos w * v.z / v.norm⟩
  else ⟨0, 0, 0⟩

theorem qlog_eq_qlogOf (q : Quat ℝ) : qlog q = qlogOf q.w ⟨q.x, q.y, q.z⟩ := by
  unfold qlog qlogOf
  simp only [transc_acos]

theorem qlogOf_rot (p : Quat ℝ) (hp : p.w ^ 2 + p.x ^ 2 + p.y ^ 2 + p.z ^ 2 = 1) (w : ℝ) (v : V3 ℝ) :
    qlogOf w (qrot p v) = qrot p (qlogOf w v) := by
  unfold qlogOf
  rw [qrot_norm p hp]
  split
  · split
    · rw [qrot_scale]
    · rw [qrot_scale]
  · rw [qrot_zero]

/-- the logarithm is equivariant under conjugation by a unit quaternion (all branches, cut-off included) -/
theorem qlog_conj_rot (p q : Quat ℝ) (hp : p.w ^ 2 + p.x ^ 2 + p.y ^ 2 + p.z ^ 2 = 1) :
    qlog (qmul (qmul p q) (qconj p)) = qrot p (qlog q) := by
  obtain ⟨hw, hv⟩ := qconj_parts p q hp
  rw [qlog_eq_qlogOf, hw, hv, qlogOf_rot p hp, ← qlog_eq_qlogOf]

/-- **Tangent offsets under a fixed rotation composed on the left of the quaternion block**
    (`y = p ⊗ x`): the offsets of the propagated sigma points `p ⊗ exp(r/2) ⊗ c` from the propagated
    mean `p ⊗ c` are the rotated perturbations `R_p r`. -/
theorem qdiff_left_rotation (p c : Quat ℝ) (hp : p.w ^ 2 + p.x ^ 2 + p.y ^ 2 + p.z ^ 2 = 1)
    (hc : c.w ^ 2 + c.x ^ 2 + c.y ^ 2 + c.z ^ 2 = 1) (r : V3 ℝ)
    (h1 : (1e-4 : ℝ) < r.norm) (h2 : r.norm < Real.pi) (h3 : (5e-5 : ℝ) < Real.sin (r.norm / 2)) :
    qdiff (qmul p (qsum c r)) (qmul p c) = qrot p r := by
  unfold qdiff qsum
  have e : qmul (qmul p (qmul (qexp r) c)) (qconj (qmul p c)) = qmul (qmul p (qexp r)) (qconj p) := by
    have hcc := qmul_qconj_self c hc
    have : qconj (qmul p c) = qmul (qconj c) (qconj p) := by
      ext <;> simp only [qmul, qconj] <;> ring
    rw [this]
    calc qmul (qmul p (qmul (qexp r) c)) (qmul (qconj c) (qconj p))
        = qmul (qmul p (qexp r)) (qmul (qmul c (qconj c)) (qconj p)) := by
          simp only [qmul_assoc]
      _ = qmul (qmul p (qexp r)) (qconj p) := by
          rw [hcc]; congr 1; ext <;> simp [qmul]
  rw [e, qlog_conj_rot p _ hp, qlog_qexp r h1 h2 h3]

/-- … and composed on the right (`y = x ⊗ p`): the offsets are the perturbations themselves. -/
theorem qdiff_right_rotation (p c : Quat ℝ) (hp : p.w ^ 2 + p.x ^ 2 + p.y ^ 2 + p.z ^ 2 = 1)
    (hc : c.w ^ 2 + c.x ^ 2 + c.y ^ 2 + c.z ^ 2 = 1) (r : V3 ℝ)
    (h1 : (1e-4 : ℝ) < r.norm) (h2 : r.norm < Real.pi) (h3 : (5e-5 : ℝ) < Real.sin (r.norm / 2)) :
    qdiff (qmul (qsum c r) p) (qmul c p) = r := by
  have hcp : (qmul c p).w ^ 2 + (qmul c p).x ^ 2 + (qmul c p).y ^ 2 + (qmul c p).z ^ 2 = 1 := by
    simp only [qmul]
    linear_combination (c.w ^ 2 + c.x ^ 2 + c.y ^ 2 + c.z ^ 2) * hp + hc
  have : qmul (qsum c r) p = qsum (qmul c p) r := by
    unfold qsum; rw [qmul_assoc]
  rw [this]
  exact qdiff_qsum (qmul c p) hcp r h1 h2 h3

end BFL
