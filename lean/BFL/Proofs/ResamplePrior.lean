import BFL.Proofs.ResampleSet
/-
Helper lemmas for C07: the prior-mixing variant `ResamplingWithPrior::resample`.
-/
namespace BFL.PF
set_option linter.unusedSectionVars false

variable {π : Type} [Inhabited π]

/-- contract of `ParticleSetInitialization::initialize` used here: it fills the set it is given
    and leaves its size and layout alone -/
structure InitKeepsShape (init : PSet π ℝ → PSet π ℝ) : Prop where
  n : ∀ s, (init s).n = s.n
  lin : ∀ s, (init s).lin = s.lin
  circ : ∀ s, (init s).circ = s.circ
  quat : ∀ s, (init s).quat = s.quat
  parts : ∀ s, (init s).parts.length = s.parts.length
  logw : ∀ s, (init s).logw.length = s.logw.length

/-- contract of `sort_indices`: as many indices as weights -/
def SortLen (sortIdx : List ℝ → List Nat) : Prop := ∀ v, (sortIdx v).length = v.length

/-- contract of `sort_indices`: a permutation of `0 … N-1` … -/
def SortPerm (sortIdx : List ℝ → List Nat) : Prop := ∀ v, (sortIdx v).Perm (List.range v.length)

/-- … along which the weights are non-decreasing -/
def SortAsc (sortIdx : List ℝ → List Nat) : Prop :=
  ∀ v a b, a ≤ b → b < (sortIdx v).length → v.getD ((sortIdx v).getD a 0) 0 ≤ v.getD ((sortIdx v).getD b 0) 0

theorem SortPerm.len {sortIdx : List ℝ → List Nat} (h : SortPerm sortIdx) : SortLen sortIdx := by
  intro v; simpa using (h v).length_eq

theorem fresh_parts_length (n lin circ : Nat) (q : Bool) : (PSet.fresh n lin circ q : PSet π ℝ).parts.length = n := by
  simp [PSet.fresh]

theorem fresh_logw_length (n lin circ : Nat) (q : Bool) : (PSet.fresh n lin circ q : PSet π ℝ).logw.length = n := by
  simp [PSet.fresh]

theorem priorTmp_logw_length (sortIdx : List ℝ → List Nat) (hs : SortLen sortIdx) (cor : PSet π ℝ) (k : Nat)
    (hc : cor.logw.length = cor.parts.length) :
    (priorTmp sortIdx cor k).logw.length = cor.parts.length - k := by
  simp [priorTmp, normalizeLog, hs _, hc]

theorem priorTmp_parts_length (sortIdx : List ℝ → List Nat) (hs : SortLen sortIdx) (cor : PSet π ℝ) (k : Nat)
    (hc : cor.logw.length = cor.parts.length) :
    (priorTmp sortIdx cor k).parts.length = cor.parts.length - k := by
  simp [priorTmp, hs _, hc]

section
variable (fl : ℝ → Nat) (sortIdx : List ℝ → List Nat) (init : PSet π ℝ → PSet π ℝ)
  (ratio : ℝ) (cor : PSet π ℝ) (u1 : ℝ)

theorem rwp_parents :
    (resampleWithPrior fl sortIdx init ratio cor u1).2 =
      List.replicate (numPrior fl ratio cor) (-1) ++
        (resample (priorTmp sortIdx cor (numPrior fl ratio cor))
          (PSet.fresh (cor.parts.length - numPrior fl ratio cor) cor.lin cor.circ cor.quat) u1).2.map
          (fun p => p + (numPrior fl ratio cor : Int)) := rfl

theorem rwp_parts :
    (resampleWithPrior fl sortIdx init ratio cor u1).1.parts =
      (init (PSet.fresh (numPrior fl ratio cor) cor.lin cor.circ cor.quat)).parts ++
        (resample (priorTmp sortIdx cor (numPrior fl ratio cor))
          (PSet.fresh (cor.parts.length - numPrior fl ratio cor) cor.lin cor.circ cor.quat) u1).1.parts := rfl

theorem rwp_n :
    (resampleWithPrior fl sortIdx init ratio cor u1).1.n =
      (init (PSet.fresh (numPrior fl ratio cor) cor.lin cor.circ cor.quat)).n + (cor.parts.length - numPrior fl ratio cor) := rfl

theorem rwp_lin :
    (resampleWithPrior fl sortIdx init ratio cor u1).1.lin =
      (init (PSet.fresh (numPrior fl ratio cor) cor.lin cor.circ cor.quat)).lin := rfl

theorem rwp_circ :
    (resampleWithPrior fl sortIdx init ratio cor u1).1.circ =
      (init (PSet.fresh (numPrior fl ratio cor) cor.lin cor.circ cor.quat)).circ := rfl

theorem rwp_quat :
    (resampleWithPrior fl sortIdx init ratio cor u1).1.quat =
      (init (PSet.fresh (numPrior fl ratio cor) cor.lin cor.circ cor.quat)).quat := rfl

theorem rwp_logw :
    (resampleWithPrior fl sortIdx init ratio cor u1).1.logw =
      ((init (PSet.fresh (numPrior fl ratio cor) cor.lin cor.circ cor.quat)).logw ++
        (resample (priorTmp sortIdx cor (numPrior fl ratio cor))
          (PSet.fresh (cor.parts.length - numPrior fl ratio cor) cor.lin cor.circ cor.quat) u1).1.logw).map
        (fun _ => -(Real.log (cor.parts.length : ℝ))) := rfl

variable (hs : SortLen sortIdx) (hi : InitKeepsShape init) (hc : cor.logw.length = cor.parts.length)
  (hk : numPrior fl ratio cor ≤ cor.parts.length)
include hs hi hc hk

theorem rwp_right_parts_length :
    (resample (priorTmp sortIdx cor (numPrior fl ratio cor))
      (PSet.fresh (cor.parts.length - numPrior fl ratio cor) cor.lin cor.circ cor.quat) u1).1.parts.length
      = cor.parts.length - numPrior fl ratio cor := by
  rw [resample_parts]
  simp [resampleIdx_length, priorTmp_logw_length sortIdx hs cor _ hc, fresh_parts_length]

theorem rwp_right_logw_length :
    (resample (priorTmp sortIdx cor (numPrior fl ratio cor))
      (PSet.fresh (cor.parts.length - numPrior fl ratio cor) cor.lin cor.circ cor.quat) u1).1.logw.length
      = cor.parts.length - numPrior fl ratio cor := by
  rw [resample_logw]
  simp [priorTmp_logw_length sortIdx hs cor _ hc, fresh_logw_length]

/-- sizes and bookkeeping of the result: `N` columns, `N` weights, component count `N`,
    layout of the input, all weights `-log N` -/
theorem rwp_shape :
    (resampleWithPrior fl sortIdx init ratio cor u1).1.n = cor.parts.length ∧
    (resampleWithPrior fl sortIdx init ratio cor u1).1.parts.length = cor.parts.length ∧
    (resampleWithPrior fl sortIdx init ratio cor u1).1.lin = cor.lin ∧
    (resampleWithPrior fl sortIdx init ratio cor u1).1.circ = cor.circ ∧
    (resampleWithPrior fl sortIdx init ratio cor u1).1.quat = cor.quat ∧
    (resampleWithPrior fl sortIdx init ratio cor u1).1.logw =
      List.replicate cor.parts.length (-(Real.log (cor.parts.length : ℝ))) := by
  refine ⟨?_, ?_, ?_, ?_, ?_, ?_⟩
  · rw [rwp_n, hi.n]; simp only [PSet.fresh]; omega
  · rw [rwp_parts, List.length_append, hi.parts, fresh_parts_length,
      rwp_right_parts_length fl sortIdx init ratio cor u1 hs hi hc hk]; omega
  · rw [rwp_lin, hi.lin]; rfl
  · rw [rwp_circ, hi.circ]; rfl
  · rw [rwp_quat, hi.quat]; rfl
  · rw [rwp_logw, List.map_const', List.length_append, hi.logw, fresh_logw_length,
      rwp_right_logw_length fl sortIdx init ratio cor u1 hs hi hc hk]
    congr 1; omega

/-- the parents: `k` entries `-1` first, then `N - k` entries in `[k, N)`, non-decreasing -/
theorem rwp_parents_shape :
    (resampleWithPrior fl sortIdx init ratio cor u1).2.length = cor.parts.length ∧
    (resampleWithPrior fl sortIdx init ratio cor u1).2.take (numPrior fl ratio cor)
      = List.replicate (numPrior fl ratio cor) (-1) ∧
    (∀ p ∈ (resampleWithPrior fl sortIdx init ratio cor u1).2.drop (numPrior fl ratio cor),
      (numPrior fl ratio cor : Int) ≤ p ∧ p < (cor.parts.length : Int)) ∧
    ((resampleWithPrior fl sortIdx init ratio cor u1).2.drop (numPrior fl ratio cor)).Pairwise (· ≤ ·) := by
  have hl := priorTmp_logw_length sortIdx hs cor (numPrior fl ratio cor) hc
  refine ⟨?_, ?_, ?_, ?_⟩
  · rw [rwp_parents]; simp [resample_parents_length, hl]; omega
  · rw [rwp_parents, List.take_left' (by simp)]
  · rw [rwp_parents, List.drop_left' (by simp)]
    intro p hp
    obtain ⟨q, hq, rfl⟩ := List.mem_map.1 hp
    rw [resample_parents] at hq
    obtain ⟨r, hr, rfl⟩ := List.mem_map.1 hq
    have := resampleIdx_mem_lt _ _ _ hr
    simp only [List.length_map, hl] at this
    constructor
    · simp
    · have h2 : (r : Int) < (cor.parts.length : Int) - (numPrior fl ratio cor : Int) := by omega
      simp only [Int.ofNat_eq_natCast]; omega
  · rw [rwp_parents, List.drop_left' (by simp), resample_parents, List.map_map, List.pairwise_map]
    refine List.Pairwise.imp ?_ (resampleIdx_pairwise _ _)
    intro a b hab
    simp only [Function.comp, Int.ofNat_eq_natCast]; omega

/-- exactly `k` entries of the parent vector are `-1` -/
theorem rwp_count_neg_one :
    (resampleWithPrior fl sortIdx init ratio cor u1).2.count (-1) = numPrior fl ratio cor := by
  obtain ⟨_, h2, h3, _⟩ := rwp_parents_shape fl sortIdx init ratio cor u1 hs hi hc hk
  rw [← List.take_append_drop (numPrior fl ratio cor) (resampleWithPrior fl sortIdx init ratio cor u1).2,
    List.count_append, h2, List.count_replicate_self]
  have : ((resampleWithPrior fl sortIdx init ratio cor u1).2.drop (numPrior fl ratio cor)).count (-1) = 0 := by
    rw [List.count_eq_zero]
    intro hm
    have := (h3 _ hm).1
    omega
  omega

/-- the first `k` output particles are the fresh draws of the initialisation model -/
theorem rwp_left_parts :
    (resampleWithPrior fl sortIdx init ratio cor u1).1.parts.take (numPrior fl ratio cor)
      = (init (PSet.fresh (numPrior fl ratio cor) cor.lin cor.circ cor.quat)).parts := by
  rw [rwp_parts, List.take_left' (by rw [hi.parts, fresh_parts_length])]

end

theorem priorTmp_parts_getElem? (sortIdx : List ℝ → List Nat) (hp : SortPerm sortIdx) (cor : PSet π ℝ) (k q : Nat)
    (hc : cor.logw.length = cor.parts.length) (hq : k + q < cor.parts.length) :
    ∃ (i : Nat) (hi : i < cor.parts.length),
      (sortIdx (cor.logw.map Real.exp))[k + q]? = some i ∧
      (priorTmp sortIdx cor k).parts[q]? = some cor.parts[i] := by
  have hlen : (sortIdx (cor.logw.map Real.exp)).length = cor.parts.length := by
    rw [hp.len]; simp [hc]
  have hkq : k + q < (sortIdx (cor.logw.map Real.exp)).length := by omega
  have hmem : (sortIdx (cor.logw.map Real.exp))[k + q] ∈ List.range (cor.logw.map Real.exp).length :=
    (hp _).mem_iff.1 (List.getElem_mem hkq)
  have hi : (sortIdx (cor.logw.map Real.exp))[k + q] < cor.parts.length := by
    have := List.mem_range.1 hmem
    simpa [hc] using this
  refine ⟨_, hi, List.getElem?_eq_getElem hkq, ?_⟩
  have e : (Transc.exp : ℝ → ℝ) = Real.exp := rfl
  simp only [priorTmp, e]
  rw [List.getElem?_map, List.getElem?_drop, List.getElem?_eq_getElem hkq]
  simp [hi]

section copy
variable (fl : ℝ → Nat) (sortIdx : List ℝ → List Nat) (init : PSet π ℝ → PSet π ℝ)
  (ratio : ℝ) (cor : PSet π ℝ) (u1 : ℝ)

/-- output `j ≥ k` is a copy of the input particle at the sorted position its parent reports
    (`parent = k + q` means: position `q` of the temporary set = position `k + q` of the sort) -/
theorem rwp_right_copy (hp : SortPerm sortIdx) (hi : InitKeepsShape init) (hc : cor.logw.length = cor.parts.length)
    (hk : numPrior fl ratio cor ≤ cor.parts.length)
    (j : Nat) (hj1 : numPrior fl ratio cor ≤ j) (hj2 : j < cor.parts.length) :
    ∃ (q i : Nat) (hi : i < cor.parts.length),
      numPrior fl ratio cor + q < cor.parts.length ∧
      (sortIdx (cor.logw.map Real.exp))[numPrior fl ratio cor + q]? = some i ∧
      (resampleWithPrior fl sortIdx init ratio cor u1).2[j]? = some ((numPrior fl ratio cor + q : Nat) : Int) ∧
      (resampleWithPrior fl sortIdx init ratio cor u1).1.parts[j]? = some cor.parts[i] := by
  have hs := hp.len
  have hl := priorTmp_logw_length sortIdx hs cor (numPrior fl ratio cor) hc
  have hpl := priorTmp_parts_length sortIdx hs cor (numPrior fl ratio cor) hc
  obtain ⟨q, hq, _, h2, h3⟩ := resample_copy (priorTmp sortIdx cor (numPrior fl ratio cor))
    (PSet.fresh (cor.parts.length - numPrior fl ratio cor) cor.lin cor.circ cor.quat) u1 (by rw [hl, hpl])
    (j - numPrior fl ratio cor) (by rw [hl]; omega)
  rw [hpl] at hq
  obtain ⟨i, hi', h4, h5⟩ := priorTmp_parts_getElem? sortIdx hp cor (numPrior fl ratio cor) q hc (by omega)
  refine ⟨q, i, hi', by omega, h4, ?_, ?_⟩
  · rw [rwp_parents, List.getElem?_append_right (by simpa using hj1), List.length_replicate,
      List.getElem?_map, h2]
    simp only [Option.map_some]
    congr 1
    push_cast; ring
  · rw [rwp_parts, List.getElem?_append_right (by rw [hi.parts, fresh_parts_length]; exact hj1),
      hi.parts, fresh_parts_length, h3]
    have : (priorTmp sortIdx cor (numPrior fl ratio cor)).parts[q]? =
        some ((priorTmp sortIdx cor (numPrior fl ratio cor)).parts[q]'(by rw [hpl]; exact hq)) :=
      List.getElem?_eq_getElem _
    rw [this] at h5
    exact h5

end copy

/-- the `k` sorted positions that are dropped carry the lowest weights -/
theorem dropped_lowest (sortIdx : List ℝ → List Nat) (ha : SortAsc sortIdx) (v : List ℝ) (k a b : Nat)
    (ha' : a < k) (hb : k ≤ b) (hb' : b < (sortIdx v).length) :
    v.getD ((sortIdx v).getD a 0) 0 ≤ v.getD ((sortIdx v).getD b 0) 0 :=
  ha v a b (by omega) hb'

end BFL.PF
