import BFL.Proofs.History
/-
Hand-over of history buffers (move construction / move assignment): the destination is the source as it
was, the source is left in the documented moved-from state, and every buffer of a two-object program is
either a regular buffer (window in [2, 30]) or an empty buffer with window 0.
-/
namespace BFL
namespace HistBuf
variable {β : Type}

/-- regular, or in the moved-from state (window 0, empty) -/
def Inv' (h : HistBuf β) : Prop := (h.window = 0 ∧ h.items = []) ∨ Inv h

theorem inv'_movedFrom : Inv' (movedFrom : HistBuf β) := Or.inl ⟨rfl, rfl⟩

theorem clampWindow_ne_zero (w : Nat) : clampWindow w ≠ 0 := by
  have := (clampWindow_bounds w).1; omega

/-- Any operation keeps a buffer regular-or-moved-from; in particular a moved-from buffer ignores `add`
    and `clear`, and becomes regular (window in [2, 30]) by any window request other than 0. -/
theorem inv'_step {h : HistBuf β} (hi : Inv' h) (o : Op β) : Inv' (step h o) := by
  rcases hi with ⟨hw, hit⟩ | hi
  · obtain ⟨items, window⟩ := h
    simp only at hw hit
    subst hw hit
    have hset : ∀ w, Inv' ((setWindow (⟨[], 0⟩ : HistBuf β) w).1) := by
      intro w
      unfold setWindow
      split
      · exact Or.inl ⟨rfl, rfl⟩
      · simp only [List.length_nil, Nat.not_lt_zero, and_false, if_false]
        have hb := clampWindow_bounds w
        exact Or.inr ⟨hb.1, hb.2, Nat.zero_le _⟩
    cases o with
    | add x => left; simp [step, add]
    | set w => exact hset w
    | dec => exact hset _
    | inc => exact hset _
    | clear => left; simp [step, clear]
  · exact Or.inr (inv_step hi o)

theorem moveOut_spec (h : HistBuf β) :
    (moveOut h).1 = h ∧ (moveOut h).2.window = 0 ∧ (moveOut h).2.items = [] := ⟨rfl, rfl, rfl⟩

/-- `window_ − 1` on a moved-from buffer wraps to `2³² − 1` and is clamped to 30; `window_ + 1` gives 1,
    clamped to 2; a request of 0 leaves it as it is. -/
theorem movedFrom_window_ops :
    ((movedFrom : HistBuf β).decrease).1.window = 30 ∧ ((movedFrom : HistBuf β).increase).1.window = 2 ∧
    ((movedFrom : HistBuf β).setWindow 0).1 = movedFrom ∧
    ∀ x, (movedFrom : HistBuf β).add x = movedFrom := by
  refine ⟨?_, ?_, ?_, ?_⟩
  · simp [decrease, movedFrom, uintSub1, setWindow, clampWindow, maxWindow]
  · simp [increase, movedFrom, uintAdd1, setWindow, clampWindow]
  · simp [movedFrom, setWindow]
  · intro x; simp [movedFrom, add]

theorem Pair.get_set_same (p : Pair β) (i : Bool) (h : HistBuf β) : (p.set i h).get i = h := by
  cases i <;> rfl

theorem Pair.get_set_other (p : Pair β) (i : Bool) (h : HistBuf β) : (p.set i h).get (!i) = p.get (!i) := by
  cases i <;> rfl

theorem Pair.inv'_set {p : Pair β} (hp : ∀ i, Inv' (p.get i)) (j : Bool) {h : HistBuf β} (hh : Inv' h) :
    ∀ i, Inv' ((p.set j h).get i) := by
  intro i
  cases i <;> cases j <;> first | exact hh | exact hp false | exact hp true

theorem inv'_step2 {p : Pair β} (hp : ∀ i, Inv' (p.get i)) (o : Op2 β) : ∀ i, Inv' ((step2 p o).get i) := by
  cases o with
  | on i o => exact Pair.inv'_set hp i (inv'_step (hp i) o)
  | moveCtor i =>
    simp only [step2, moveOut]
    exact Pair.inv'_set (Pair.inv'_set hp (!i) (hp i)) i inv'_movedFrom
  | moveAssign i j =>
    simp only [step2, moveOut]
    split
    · exact hp
    · exact Pair.inv'_set (Pair.inv'_set hp j (hp i)) i inv'_movedFrom

theorem inv'_run2 (ops : List (Op2 β)) : ∀ i, Inv' ((run2 ops).get i) := by
  have : ∀ (p : Pair β), (∀ i, Inv' (p.get i)) → ∀ i, Inv' ((ops.foldl step2 p).get i) := by
    induction ops with
    | nil => intro p hp; exact hp
    | cons o os ih => intro p hp; exact ih _ (inv'_step2 hp o)
  apply this
  intro i
  cases i <;> exact Or.inr inv_init

/-- the hand-over itself: after `moveCtor i` / `moveAssign i j` (`i ≠ j`) the destination slot holds exactly
    what slot `i` held, and slot `i` is moved-from -/
theorem handover_spec (p : Pair β) (i : Bool) :
    ((step2 p (.moveCtor i)).get (!i) = p.get i ∧ (step2 p (.moveCtor i)).get i = movedFrom) ∧
    ((step2 p (.moveAssign i (!i))).get (!i) = p.get i ∧ (step2 p (.moveAssign i (!i))).get i = movedFrom) ∧
    step2 p (.moveAssign i i) = p := by
  cases i <;> simp [step2, moveOut, Pair.set, Pair.get]

end HistBuf
end BFL
