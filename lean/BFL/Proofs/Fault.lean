import BFL.Model.Fault
/-
Helper lemmas for C12.  Each correction is analysed by case analysis on the heads of the
scripts it can consume (nil / true :: _ / false :: _), i.e. over *all* scripts.
-/
namespace BFL.Fault
variable {β γ : Type}

theorem anyFailed_append (a b : List Entry) : anyFailed (a ++ b) = (anyFailed a || anyFailed b) := by
  simp [anyFailed]

theorem anyFailed_nil : anyFailed [] = false := rfl

theorem anyFailed_cons (e : Entry) (l : List Entry) : anyFailed (e :: l) = (e.failed || anyFailed l) := by
  simp [anyFailed]

/-- A likelihood model is *well behaved* when it reports failure exactly when one of the calls
    it consulted reported "unavailable". -/
def LikSpec (lik : Script → R (Option γ)) : Prop :=
  ∀ s, ((lik s).val = none ↔ anyFailed (lik s).log = true)

/-- The fetches of the noise covariance whose validity is ignored never count as failures,
    whatever the script says. -/
theorem noiseCalls_not_failed (site : Site) (k : Nat) : ∀ s : Script, anyFailed (noiseCalls s site k).log = false := by
  induction k with
  | zero => intro s; rfl
  | succ k ih =>
    intro s
    simp only [noiseCalls, anyFailed_append, ih, Bool.or_false]
    simp [call, anyFailed, Entry.failed]

theorem noiseCalls_methods (site : Site) (k : Nat) : ∀ s : Script,
    (noiseCalls s site k).log.map (·.method) = List.replicate k Method.noiseCov := by
  induction k with
  | zero => intro s; rfl
  | succ k ih =>
    intro s
    simp only [noiseCalls, List.map_append, ih]
    simp [call, List.replicate_succ]

theorem noiseCalls_length (site : Site) (k : Nat) (s : Script) : (noiseCalls s site k).log.length = k := by
  have h := congrArg List.length (noiseCalls_methods site k s)
  simpa using h

/-- `endsAtFailure` of a log extended by entries none of which failed is false when … (helper for
    SUKF's success path): a log with no failure does not end at a failure. -/
theorem endsAtFailure_imp_anyFailed (l : List Entry) (h : endsAtFailure l = true) : anyFailed l = true := by
  unfold endsAtFailure at h
  cases hr : l.reverse with
  | nil => simp [hr] at h
  | cons e pre =>
    simp only [hr, Bool.and_eq_true] at h
    have hl : l = pre.reverse ++ [e] := by
      have := congrArg List.reverse hr
      simpa using this
    rw [hl, anyFailed_append]
    simp [anyFailed, h.1]

end BFL.Fault
