#!/usr/bin/env python3
"""Regenerates MANIFEST.json from manifest.d/<id>.json (one file per claimed property:
{text, note, technique, ref[, category]}) and validates it against the schema.  Properties
without a file are listed under not_applicable (reason from manifest.d/NA.json if present)."""
import json, os, sys
V = os.path.dirname(os.path.dirname(os.path.abspath(__file__)))

PENDING_REASON = "no check registered yet in this revision: model/theorems/harness for this property are still being built (DESIGN.md section 8); nothing is claimed for it"
HOOK_COMMITS = ["2863da9", "240555a"]


def main():
    props = [json.loads(l)["id"] for l in open(os.path.join(V, "properties.jsonl"))]
    nap = os.path.join(V, "manifest.d", "NA.json")
    na_reasons = json.load(open(nap)) if os.path.exists(nap) else {}
    checks, na = [], []
    for pid in props:
        f = os.path.join(V, "manifest.d", pid + ".json")
        if not os.path.exists(f) or pid in na_reasons:
            na.append({"property_id": pid, "reason": na_reasons.get(pid, PENDING_REASON)})
            continue
        c = json.load(open(f))
        checks.append({
            "property_id": pid,
            "quick_cmd": "python3 check.py %s --tier quick" % pid,
            "thorough_cmd": "python3 check.py %s --tier thorough" % pid,
            "evidence_file": "/verif/evidence/%s.json" % pid,
            "replay_cmd_template": "python3 check.py %s --replay {path}" % pid,
            "engine": "lean4-proof+correspondence",
            "level_claimed": {"category": c.get("category", "proof"), "text": c["text"], "design_ref": "DESIGN.md section " + c["ref"]},
            "level_note": c["note"],
            "technique": c["technique"],
        })
    man = {
        "version": 1,
        "setup_cmd": "sh tools/setup.sh",
        "hooks": {"guard": "BFL_VERIF", "enable": "-DBFL_VERIF in CMAKE_CXX_FLAGS of the out-of-tree builds under /verif/build/{dbg,tsan} (vlib.build_lib)",
                  "baseline_off_cmd": "sh tools/baseline_off.sh", "source_commits": HOOK_COMMITS, "add_only": True},
        "engines": [{"name": "lean4-proof+correspondence", "path": "/verif/check.py", "serves_properties": [c["property_id"] for c in checks],
                     "kind_free_text": "Lean 4 theorems about an executable model (lean/BFL), audited on every run; model tied to /repo by a C++ harness vs Lean driver correspondence over a line protocol (vlib.py, harness/, lean/Main.lean)"}],
        "checks": checks,
        "not_applicable": na,
        "notes": "All checks: python3 check.py <id> --tier quick|thorough; VERIF_SEED honoured. See DESIGN.md.",
    }
    open(os.path.join(V, "MANIFEST.json"), "w").write(json.dumps(man, indent=1) + "\n")
    try:
        import jsonschema
        jsonschema.validate(man, json.load(open("/root/.vp/MANIFEST.schema.json")))
        print("MANIFEST.json valid (%d checks, %d not_applicable)" % (len(checks), len(na)))
    except ImportError:
        print("MANIFEST.json written (jsonschema not importable here; validate with python3-vt)")


if __name__ == "__main__":
    main()
