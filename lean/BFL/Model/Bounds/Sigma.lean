import BFL.Model.Bounds.Models
/-
C14 — transcriptions of GaussianMixture (storage bookkeeping, accessors, augmentWithNoise, resize),
sigma_point(), unscented_transform() (generic + the four overloads), and the correction steps
KFCorrection / UKFCorrection / SUKFCorrection (correctStep + getLikelihood), including
utils::multivariate_gaussian_log_density_UVR and the directional / quaternion helpers they call.
-/
namespace BFL.Bounds
open W

/-! ### Layout of a belief (VectorDescription / GaussianMixture bookkeeping) -/

structure Layout where
  dl : Nat            -- linear components
  dc : Nat            -- circular components
  quat : Bool         -- quaternion (4 numbers, 3 tangent dimensions) or Euler angle (1, 1)
  dn : Nat            -- noise components (augmentWithNoise)
deriving DecidableEq, Repr

/-- numbers per circular component -/
def Layout.cc (L : Layout) : Nat := if L.quat then 4 else 1
/-- tangent dimensions per circular component -/
def Layout.tc (L : Layout) : Nat := if L.quat then 3 else 1
/-- `GaussianMixture::dim` / `VectorDescription::total_size()` -/
def Layout.dim (L : Layout) : Nat := L.dl + L.dc * L.cc + L.dn
/-- `GaussianMixture::dim_covariance` / `VectorDescription::dof_size()` -/
def Layout.dcov (L : Layout) : Nat := L.dl + L.dc * L.tc + L.dn
def Layout.noiseless (L : Layout) : Layout := { L with dn := 0 }
def Layout.withNoise (L : Layout) (n : Nat) : Layout := { L with dn := L.dn + n }

/-- storage of a well-formed mixture with `K` components -/
def Layout.meanS (L : Layout) (K : Nat) : Shape := ⟨L.dim, K⟩
def Layout.covS (L : Layout) (K : Nat) : Shape := ⟨L.dcov, L.dcov * K⟩

/-- `GaussianMixture::mean(i)` -/
def gmMean (L : Layout) (K i : Nat) : W Shape := col "GaussianMixture::mean(i): mean_.col(i)" (L.meanS K) i
/-- `GaussianMixture::covariance(i)` -/
def gmCov (L : Layout) (K i : Nat) : W Shape :=
  middleCols "GaussianMixture::covariance(i): covariance_.middleCols(dim_covariance*i, dim_covariance)" (L.covS K) (L.dcov * i) L.dcov

/-! ### directional statistics and quaternion helpers -/

/-- `directional_add(a, b)` / `directional_sub(a, b)`: `a.colwise() ± b` -/
def directionalAdd (a b : Shape) : W Shape := colwiseOp "directional_add: a.colwise() + b" a b

/-- `directional_mean(a, w)` -/
def directionalMean (a w : Shape) : W Shape :=
  if a.c = 1 then do
    let _ ← col "directional_mean: a.col(0)" a 0
    pure (vecS a.r)
  else do
    let p ← prod "directional_mean: exp(i a) * w" a w
    pure (vecS p.r)

/-- `mean_quaternion(weight, quaternion)`: reads `quaternion.col(i)` for every `i < weight.rows()` -/
def meanQuaternion (w q : Shape) : W Shape := do
  forRange w.r fun t => do
    let _ ← col "mean_quaternion: quaternion.col(i)" q t
  pure (vecS 4)

/-! ### sigma_point() -/

/-- `sigma_point::sigma_point(state, c)` for a well-formed mixture `(L, K)` -/
def sigmaPoint (L : Layout) (K : Nat) : W Shape := do
  let dcv := L.dcov
  let base := dcv * 2 + 1
  let sigma : Shape := ⟨L.dim, base * K⟩
  forRange K fun i => do
    let covi ← gmCov L K i
    nonEmpty "sigma_point: covariance(i).jacobiSvd()" covi
    let A : Shape := ⟨dcv, dcv⟩               -- matrixU() * singularValues().cwiseSqrt().asDiagonal()
    let sp ← middleCols "sigma_point: sigma_points.middleCols(base*i, base)" sigma (base * i) base
    let pert : Shape := ⟨dcv, base⟩
    commaRow "sigma_point: perturbations << Zero(dim_covariance), sqrt(c) A, -sqrt(c) A" pert [vecS dcv, A, A]
    let meani ← gmMean L K i
    if L.dl > 0 then do
      let d ← topRows "sigma_point: sp.topRows(dim_linear)" sp L.dl
      let p ← topRows "sigma_point: perturbations.topRows(dim_linear)" pert L.dl
      let m ← topRows "sigma_point: mean(i).topRows(dim_linear)" meani L.dl
      let s ← colwiseOp "sigma_point: perturbations.topRows(dim_linear).colwise() + mean" p m
      assignFixed "sigma_point: sp.topRows(dim_linear) = ..." d s
    if L.dc > 0 then do
      if L.quat then
        forRange L.dc fun j => do
          let b ← middleRows "sigma_point: sp.middleRows(dim_linear + 4j, 4)" sp (L.dl + j * 4) 4
          let b0 ← col "sigma_point: sp.middleRows(...).col(0)" b 0
          let mq ← middleRows "sigma_point: mean(i).middleRows(dim_linear + 4j, 4)" meani (L.dl + j * 4) 4
          assignFixed "sigma_point: sp.middleRows(...).col(0) = mean quaternion" b0 mq
          let br ← rightCols "sigma_point: sp.middleRows(...).rightCols(2*dim_covariance)" b (2 * dcv)
          let pr ← middleRows "sigma_point: perturbations.middleRows(dim_linear + 3j, 3)" pert (L.dl + j * 3) 3
          let prr ← rightCols "sigma_point: perturbations.middleRows(...).rightCols(2*dim_covariance)" pr (2 * dcv)
          -- sum_quaternion_rotation_vector(q, rv) returns 4 × rv.cols()
          assignFixed "sigma_point: sp.middleRows(...).rightCols(...) = sum_quaternion_rotation_vector" br ⟨4, prr.c⟩
      else do
        let d ← middleRows "sigma_point: sp.middleRows(dim_linear, dim_circular)" sp L.dl L.dc
        let p ← middleRows "sigma_point: perturbations.middleRows(dim_linear, dim_circular)" pert L.dl L.dc
        let m ← middleRows "sigma_point: mean(i).middleRows(dim_linear, dim_circular)" meani L.dl L.dc
        let s ← directionalAdd p m
        assignFixed "sigma_point: sp.middleRows(dim_linear, dim_circular) = directional_add" d s
    if L.dn > 0 then do
      let d ← bottomRows "sigma_point: sp.bottomRows(dim_noise)" sp L.dn
      let p ← bottomRows "sigma_point: perturbations.bottomRows(dim_noise)" pert L.dn
      let m ← bottomRows "sigma_point: mean(i).bottomRows(dim_noise)" meani L.dn
      let s ← colwiseOp "sigma_point: perturbations.bottomRows(dim_noise).colwise() + mean" p m
      assignFixed "sigma_point: sp.bottomRows(dim_noise) = ..." d s
  pure sigma

/-- size of `UTWeight::mean` / `covariance` for `dof` degrees of freedom -/
def utWeightSize (dof : Nat) : Nat := 2 * dof + 1

/-- `UTWeight::UTWeight(dof, …)` + `unscented_weights(n, …, weight_mean, weight_covariance, c)`:
    both vectors are allocated with `2n + 1` entries and entry `j` is written for `j < 2n + 1` -/
def unscentedWeights (n : Nat) : W Nat := do
  let size := (2 * n) + 1
  forRange ((2 * n) + 1) fun j => do
    coeff "unscented_weights: weight_mean(j)" size j
    coeff "unscented_weights: weight_covariance(j)" size j
  pure size

/-! ### unscented_transform (generic) -/

/-- result of an unscented transform: validity, output layout + component count, cross covariance -/
structure UTRes where
  valid : Bool
  O : Layout
  K : Nat
  cross : Shape

/-- what a failed transform returns: `GaussianMixture()` (1 component, 1 linear), `MatrixXd(0, 0)` -/
def UTRes.failed : UTRes := ⟨false, ⟨1, 0, false, 0⟩, 1, ⟨0, 0⟩⟩

/-- `unscented_transform(input, weight, function)`: `I, K` input mixture, `ws` = `weight.mean.size()`,
    `O` the output description returned by the function (`dn = 0`), `prop` the shape of the propagated
    sigma points it returned, `fvalid` its validity flag. -/
def utGeneric (I : Layout) (K ws : Nat) (O : Layout) (prop : Shape) (fvalid : Bool) : W UTRes := do
  let sig ← sigmaPoint I K
  if !fvalid then pure UTRes.failed
  else do
    let wv : Shape := vecS ws
    let wd : Shape := ⟨ws, ws⟩                  -- weight.covariance.asDiagonal()
    let nin := I.dcov - I.dn                   -- input.dim_covariance - input.dim_noise (size_t)
    let cross : Shape := ⟨nin, O.dcov * K⟩
    let base := I.dcov * 2 + 1
    forRange K fun i => do
      let isp ← middleCols "ut: input_sigma_points.middleCols(base*i, base)" sig (base * i) base
      let psp ← middleCols "ut: prop_sigma_points.middleCols(base*i, base)" prop (base * i) base
      let omi ← gmMean O K i
      -- mean
      let d ← topRows "ut: output.mean(i).topRows(dim_linear)" omi O.dl
      let p ← topRows "ut: prop_sigma_points_i.topRows(dim_linear)" psp O.dl
      let pw ← prod "ut: prop_sigma_points_i.topRows(dim_linear) * weight.mean" p wv
      assignFixed "ut: output.mean(i).topRows(dim_linear).noalias() = ..." d pw
      if O.dc > 0 then do
        if O.quat then
          forRange O.dc fun j => do
            let d ← middleRows "ut: output.mean(i).middleRows(dim_linear + 4j, 4)" omi (O.dl + j * 4) 4
            let q ← middleRows "ut: prop_sigma_points_i.middleRows(dim_linear + 4j, 4)" psp (O.dl + j * 4) 4
            let r ← meanQuaternion wv q
            assignFixed "ut: output.mean(i).middleRows(...) = mean_quaternion" d r
        else do
          let d ← bottomRows "ut: output.mean(i).bottomRows(dim_circular)" omi O.dc
          let a ← bottomRows "ut: prop_sigma_points_i.bottomRows(dim_circular)" psp O.dc
          let r ← directionalMean a wv
          assignFixed "ut: output.mean(i).bottomRows(dim_circular) = directional_mean" d r
      -- covariance
      let off : Shape := ⟨O.dcov, isp.c⟩
      let d ← topRows "ut: offsets_from_mean.topRows(dim_linear)" off O.dl
      let p ← topRows "ut: prop_sigma_points_i.topRows(dim_linear) [offsets]" psp O.dl
      let m ← topRows "ut: output.mean(i).topRows(dim_linear) [offsets]" omi O.dl
      let s ← colwiseOp "ut: prop_sigma_points_i.topRows(dim_linear).colwise() - mean" p m
      assignFixed "ut: offsets_from_mean.topRows(dim_linear) = ..." d s
      if O.dc > 0 then do
        if O.quat then
          forRange O.dc fun j => do
            let d ← middleRows "ut: offsets_from_mean.middleRows(dim_linear + 3j, 3)" off (O.dl + j * 3) 3
            let q ← middleRows "ut: prop_sigma_points_i.middleRows(dim_linear + 4j, 4) [offsets]" psp (O.dl + j * 4) 4
            let _ ← middleRows "ut: output.mean(i).middleRows(dim_linear + 4j, 4) [offsets]" omi (O.dl + j * 4) 4
            assignFixed "ut: offsets_from_mean.middleRows(...) = diff_quaternion" d ⟨3, q.c⟩
        else do
          let d ← bottomRows "ut: offsets_from_mean.bottomRows(dim_circular)" off O.dc
          let a ← bottomRows "ut: prop_sigma_points_i.bottomRows(dim_circular) [offsets]" psp O.dc
          let m ← bottomRows "ut: output.mean(i).bottomRows(dim_circular) [offsets]" omi O.dc
          let r ← directionalAdd a m
          assignFixed "ut: offsets_from_mean.bottomRows(dim_circular) = directional_sub" d r
      let oci ← gmCov O K i
      let x ← prod "ut: offsets_from_mean * weight.covariance.asDiagonal()" off wd
      let y ← prod "ut: (...) * offsets_from_mean^T" x off.t
      assignFixed "ut: output.covariance(i).noalias() = ..." oci y
      -- input-output cross covariance
      let cci ← middleCols "ut: cross_covariance.middleCols(dim_covariance*i, dim_covariance)" cross (O.dcov * i) O.dcov
      let ioff : Shape := ⟨nin, isp.c⟩
      let imi ← gmMean I K i
      let d ← topRows "ut: input_offsets_from_mean.topRows(dim_linear)" ioff I.dl
      let p ← topRows "ut: input_sigma_points_i.topRows(dim_linear)" isp I.dl
      let m ← topRows "ut: input.mean(i).topRows(dim_linear)" imi I.dl
      let s ← colwiseOp "ut: input_sigma_points_i.topRows(dim_linear).colwise() - mean" p m
      assignFixed "ut: input_offsets_from_mean.topRows(dim_linear) = ..." d s
      if I.dc > 0 then do
        if I.quat then
          forRange I.dc fun j => do
            let d ← middleRows "ut: input_offsets_from_mean.middleRows(dim_linear + 3j, 3)" ioff (I.dl + j * 3) 3
            let q ← middleRows "ut: input_sigma_points_i.middleRows(dim_linear + 4j, 4)" isp (I.dl + j * 4) 4
            let _ ← middleRows "ut: input.mean(i).middleRows(dim_linear + 4j, 4)" imi (I.dl + j * 4) 4
            assignFixed "ut: input_offsets_from_mean.middleRows(...) = diff_quaternion" d ⟨3, q.c⟩
        else do
          let d ← bottomRows "ut: input_offsets_from_mean.bottomRows(dim_circular)" ioff I.dc
          let a ← middleRows "ut: input_sigma_points_i.middleRows(dim_linear, dim_circular)" isp I.dl I.dc
          let m ← middleRows "ut: input.mean(i).middleRows(dim_linear, dim_circular)" imi I.dl I.dc
          let r ← directionalAdd a m
          assignFixed "ut: input_offsets_from_mean.bottomRows(dim_circular) = directional_sub" d r
      let x ← prod "ut: input_offsets_from_mean * weight.covariance.asDiagonal()" ioff wd
      let y ← prod "ut: (...) * offsets_from_mean^T [cross]" x off.t
      assignFixed "ut: cross_covariance_i.noalias() = ..." cci y
    pure ⟨true, O, K, cross⟩

/-! ### unscented_transform overloads -/

/-- a linear state model as the overloads see it: `F`, the noise sample / covariance size, the state description -/
structure SMod where
  F : Shape
  q : Nat          -- getNoiseCovarianceMatrix() is q × q, getNoiseSample(n) is q × n
  D : Layout       -- getStateDescription()

/-- `unscented_transform(state, weight, StateModel&)`: `tmp(total_size, cols); motion(state, tmp)` -/
def utStateGeneric (I : Layout) (K ws : Nat) (M : SMod) : W UTRes := do
  let sig ← sigmaPoint I K
  let tmp : Shape := ⟨M.D.dim, sig.c⟩
  additiveMotion M.F (fun n => pure ⟨M.q, n⟩) sig tmp
  utGeneric I K ws M.D.noiseless tmp true

/-- `unscented_transform(state, weight, AdditiveStateModel&)`: `tmp(state.rows(), cols); propagate(state, tmp)`,
    then `output.covariance(i) += Q` for every component of the *input*. -/
def utStateAdditive (I : Layout) (K ws : Nat) (M : SMod) : W UTRes := do
  let sig ← sigmaPoint I K
  let tmp : Shape := ⟨sig.r, sig.c⟩
  linPropagate M.F sig tmp
  let r ← utGeneric I K ws M.D.noiseless tmp true
  forRange K fun i => do
    let c ← gmCov r.O r.K i
    let _ ← cwise "ut(AdditiveStateModel): output.covariance(i) += Q" c ⟨M.q, M.q⟩
  pure r

/-- a measurement model as the correction steps see it (every returned matrix has the stated shape) -/
structure MMod where
  Lin : Layout        -- getInputDescription()
  O : Layout          -- getMeasurementDescription() (dn = 0)
  prows : Nat         -- rows of predictedMeasure(x)
  dcols : Nat         -- predictedMeasure(x) has x.cols() + dcols columns
  irows : Nat         -- rows of innovation(...)
  ysize : Nat         -- rows of measure()
  rr : Nat            -- getNoiseCovarianceMatrix() is rr × rr
  mvalid : Bool
  pvalid : Bool
  ivalid : Bool

/-- `unscented_transform(state, weight, MeasurementModel&)` -/
def utMeasGeneric (I : Layout) (K ws : Nat) (M : MMod) : W UTRes := do
  -- the generic transform samples the sigma points itself; the model is evaluated on them
  let base := I.dcov * 2 + 1
  utGeneric I K ws M.O ⟨M.prows, base * K + M.dcols⟩ M.pvalid

/-- `unscented_transform(state, weight, AdditiveMeasurementModel&)` (after fix ca060a6) -/
def utMeasAdditive (I : Layout) (K ws : Nat) (M : MMod) : W UTRes := do
  let r ← utMeasGeneric I K ws M
  if !r.valid then pure r
  else do
    forRange K fun i => do
      let c ← gmCov r.O r.K i
      let _ ← cwise "ut(AdditiveMeasurementModel): output.covariance(i) += noise_cov" c ⟨M.rr, M.rr⟩
    pure r

/-! ### GaussianMixture storage: constructor, augmentWithNoise, resize, accessors -/

/-- bookkeeping members and the shapes of the three storage matrices -/
structure GMStore where
  K : Nat
  L : Layout
  dim : Nat
  dcov : Nat
  mean : Shape
  cov : Shape
  w : Nat
deriving DecidableEq, Repr

/-- C11's invariant: storage agrees with the bookkeeping -/
def GMStore.wf (g : GMStore) : Prop :=
  g.dim = g.L.dim ∧ g.dcov = g.L.dcov ∧ g.mean = ⟨g.L.dim, g.K⟩ ∧ g.cov = ⟨g.L.dcov, g.L.dcov * g.K⟩ ∧ g.w = g.K

def gmCtor (K dl dc : Nat) (quat : Bool) : GMStore :=
  let L : Layout := ⟨dl, dc, quat, 0⟩
  ⟨K, L, L.dim, L.dcov, ⟨L.dim, K⟩, ⟨L.dcov, L.dcov * K⟩, K⟩

/-- `GaussianMixture::augmentWithNoise(noise_covariance_matrix)` (after fix ad6ea89) -/
def gmAugment (g : GMStore) (noise : Shape) : W (GMStore × Bool) :=
  if noise.r ≠ noise.c then pure (g, false)
  else do
    let dimOld := g.dcov
    let added := noise.r
    let L' := g.L.withNoise added
    let dim := g.dim + added
    let dcov := g.dcov + added
    let mean : Shape := ⟨dim, g.mean.c⟩                   -- mean_.conservativeResize(dim, NoChange)
    let b ← bottomRows "augmentWithNoise: mean_.bottomRows(dim_added)" mean added
    assignFixed "augmentWithNoise: mean_.bottomRows(dim_added) = Zero(dim_added, components)" b ⟨added, g.K⟩
    let cov : Shape := ⟨dcov, dcov * g.K⟩                 -- conservativeResizeLike(Zero(dim_covariance, dim_covariance*components))
    -- for (size_t i = 0; i < components - 1; i++): the bound wraps around when components == 0
    req "augmentWithNoise: components - 1 (size_t loop bound)" (.lt 0 g.K)
    forRange (g.K - 1) fun i => do
      let idx := g.K - 1 - i
      let nb ← block "augmentWithNoise: covariance_.block(0, i_index*dim_covariance, dim_old, dim_old)" cov 0 (idx * dcov) dimOld dimOld
      let ob ← block "augmentWithNoise: covariance_.block(0, i_index*dim_old, dim_old, dim_old)" cov 0 (idx * dimOld) dimOld dimOld
      forRange dimOld fun j => do
        let _ ← col "augmentWithNoise: new_block.col(j_index)" nb (dimOld - 1 - j)
        let _ ← col "augmentWithNoise: old_block.col(j_index)" ob (dimOld - 1 - j)
    forRange g.K fun i => do
      let nb ← block "augmentWithNoise: covariance_.block(dim_old, i*dim_covariance + dim_old, dim_added, dim_added)" cov dimOld (i * dcov + dimOld) added added
      assignFixed "augmentWithNoise: covariance_.block(...) = noise_covariance_matrix" nb noise
      let zb ← block "augmentWithNoise: covariance_.block(0, i*dim_covariance + dim_old, dim_old, dim_added)" cov 0 (i * dcov + dimOld) dimOld added
      assignFixed "augmentWithNoise: covariance_.block(...) = Zero(dim_old, dim_added)" zb ⟨dimOld, added⟩
    pure (⟨g.K, L', dim, dcov, mean, cov, g.w⟩, true)

/-- `GaussianMixture::resize(components, dim_linear, dim_circular)` (after fix ad6ea89): only resizing operations -/
def gmResize (g : GMStore) (K dl dc : Nat) : GMStore :=
  let L' : Layout := { g.L with dl := dl, dc := dc }
  let newDim := L'.dim
  let newDcov := L'.dcov
  if g.L.dl = dl ∧ g.L.dc = dc ∧ g.K = K then g
  else if g.dim = newDim ∧ g.dcov = newDcov ∧ g.K ≠ K then
    ⟨K, L', newDim, newDcov, ⟨g.mean.r, K⟩, ⟨g.cov.r, g.dcov * K⟩, K⟩
  else
    ⟨K, L', newDim, newDcov, ⟨newDim, K⟩, ⟨newDcov, newDcov * K⟩, K⟩

def GMStore.tokens (g : GMStore) : List String :=
  [toString g.K, toString g.dim, toString g.L.dl, toString g.L.dc, toString g.L.dn, toString g.dcov, g.mean.str, g.cov.str, toString g.w]

/-- the accessors with an index: `mean(i)`, `mean(i, j)`, `covariance(i)`, `covariance(i, j, k)`, `weight(i)` -/
def gmAccess (L : Layout) (K : Nat) (which : String) (i j k : Nat) : W (Option (List String)) :=
  match which with
  | "mean1" => do let s ← gmMean L K i; pure (some [s.str, s.str])
  | "mean2" => do coeff2 "GaussianMixture::mean(i, j): mean_(j, i)" (L.meanS K) j i; pure (some ["1"])
  | "cov1" => do let s ← gmCov L K i; pure (some [s.str, s.str])
  | "cov3" => do coeff2 "GaussianMixture::covariance(i, j, k): covariance_(j, dim_covariance*i + k)" (L.covS K) j (L.dcov * i + k); pure (some ["1"])
  | "w1" => do coeff "GaussianMixture::weight(i): weight_(i)" K i; pure (some ["1"])
  | _ => pure none

/-! ### correction steps -/

/-- what the harness observes after `correct()` + `getLikelihood()` -/
structure CorrRes where
  L : Layout          -- layout of corr_state
  K : Nat
  likValid : Bool
  likSize : Nat

def CorrRes.tokens (r : CorrRes) : List String :=
  [toString r.K, toString r.L.dim, toString r.L.dcov, (r.L.meanS r.K).str, (r.L.covS r.K).str,
   (if r.likValid then "1" else "0"), toString r.likSize]

/-- `corr_state = pred_state` (copy assignment: resizes) with members `innovations_` still empty -/
def corrCopy (I : Layout) (K : Nat) : CorrRes := ⟨I, K, false, 0⟩

/-- the per-component update shared by KF / UKF: `K = Pxy_i * Py_i^-1`, mean and covariance written into `corr_state` -/
def kalmanUpdate (site : String) (I : Layout) (K : Nat) (C : Layout) (cK : Nat) (pxyi pyi inn : Shape) (i : Nat) : W Unit := do
  square (site ++ ": Py.inverse()") pyi
  let Kg ← prod (site ++ ": K = Pxy * Py^-1") pxyi pyi
  let inni ← col (site ++ ": innovations_.col(i)") inn i
  let kx ← prod (site ++ ": K * innovations_.col(i)") Kg inni
  let pmi ← gmMean I K i
  let s ← cwise (site ++ ": pred_state.mean(i) + K * innovation") pmi kx
  let cmi ← gmMean C cK i
  assignFixed (site ++ ": corr_state.mean(i) = ...") cmi s
  let x ← prod (site ++ ": K * Py") Kg pyi
  let y ← prod (site ++ ": (K Py) * K^T") x Kg.t
  let pci ← gmCov I K i
  let z ← cwise (site ++ ": pred_state.covariance(i) - K Py K^T") pci y
  let cci ← gmCov C cK i
  assignFixed (site ++ ": corr_state.covariance(i) = ...") cci z

/-- `getLikelihood()` of KFCorrection / UKFCorrection: density of each innovation under the predicted measurement covariance -/
def gaussLikelihood (site : String) (inn : Shape) (O : Layout) (K : Nat) : W (Bool × Nat) :=
  if inn.r = 0 ∨ inn.c = 0 then pure (false, 0)
  else do
    forRange inn.c fun i => do
      let c ← col (site ++ "::getLikelihood: innovations_.col(i)") inn i
      let py ← gmCov O K i
      let _ ← gaussianDensity c (vecS inn.r) py
    pure (true, inn.c)

/-- the unscented transform UKFCorrection performs: `ut_weight_` was built in the constructor from the model's input
    description; the generic variant first augments a copy of the belief with the measurement noise -/
def ukfUT (additive : Bool) (I : Layout) (K : Nat) (M : MMod) : W UTRes := do
  let ws := utWeightSize (if additive then M.Lin.noiseless.dcov else M.Lin.dcov)
  if additive then utMeasAdditive I K ws M
  else do
    -- pred_state_augmented = pred_state; pred_state_augmented.augmentWithNoise(noise covariance)
    let (aug, _) ← gmAugment ⟨K, I, I.dim, I.dcov, I.meanS K, I.covS K, K⟩ ⟨M.rr, M.rr⟩
    utMeasGeneric aug.L K ws M

/-- the per-component updates of UKFCorrection::correctStep -/
def ukfUpdates (I : Layout) (K : Nat) (C : Layout) (cK : Nat) (M : MMod) (r : UTRes) (inn : Shape) : W Unit :=
  forRange K fun i => do
    -- meas_size = getMeasurementDescription().total_size()
    let pxyi ← middleCols "UKFCorrection: Pxy.middleCols(meas_size*i, meas_size)" r.cross (M.O.dim * i) M.O.dim
    let pyi ← gmCov r.O r.K i
    kalmanUpdate "UKFCorrection" I K C cK pxyi pyi inn i

/-- members of a UKFCorrection object that survive a call: `innovations_`, `predicted_meas_` -/
structure UKFMem where
  inn : Shape
  predO : Layout
  predK : Nat

/-- a freshly constructed object: empty innovations, default mixture -/
def UKFMem.init : UKFMem := ⟨⟨0, 0⟩, ⟨1, 0, false, 0⟩, 1⟩

/-- `UKFCorrection::correctStep` on an object with members `mem` (after fix 5117f2c the innovations of the previous
    call are forgotten first); returns the members afterwards and the layout / component count of `corr_state`. -/
def ukfStep (additive : Bool) (mem : UKFMem) (I : Layout) (K : Nat) (C : Layout) (cK : Nat) (M : MMod) : W (UKFMem × Layout × Nat) := do
  let mem0 : UKFMem := { mem with inn := ⟨0, 0⟩ }          -- innovations_.resize(0, 0)
  if !M.mvalid then pure (mem0, I, K)
  else do
    let r ← ukfUT additive I K M
    let mem1 : UKFMem := { mem0 with predO := r.O, predK := r.K }   -- std::tie(valid, predicted_meas_, Pxy) = …
    if !r.valid then pure (mem1, I, K)
    else if !M.ivalid then pure (mem1, I, K)
    else do
      let inn : Shape := ⟨M.irows, K⟩                        -- innovation(y_p, measurement)
      ukfUpdates I K C cK M r inn
      pure ({ mem1 with inn := inn }, C, cK)

/-- `UKFCorrection::getLikelihood()` -/
def ukfLik (mem : UKFMem) : W (Bool × Nat) := gaussLikelihood "UKFCorrection" mem.inn mem.predO mem.predK

/-- `UKFCorrection::correctStep` on a fresh object followed by `getLikelihood()`; `additive` selects the constructor used. -/
def ukfCorrect (additive : Bool) (I : Layout) (K : Nat) (C : Layout) (cK : Nat) (M : MMod) : W CorrRes := do
  let (mem, L, k) ← ukfStep additive UKFMem.init I K C cK M
  let (lv, ls) ← ukfLik mem
  pure ⟨L, k, lv, ls⟩

/-- `SUKFCorrection::getNoiseCovarianceMatrix(index)` -/
def sukfNoiseCov (rr sub : Nat) (reduced : Bool) (index : Nat) : W Shape :=
  if reduced then pure ⟨rr, rr⟩
  else block "SUKFCorrection::getNoiseCovarianceMatrix: R.block(sub*index, sub*index, sub, sub)" ⟨rr, rr⟩ (sub * index) (sub * index) sub sub

/-- `utils::multivariate_gaussian_log_density_UVR(input, mean, U, V, R)` -/
def gaussianDensityUVR (input mean U V R : Shape) : W Shape := do
  let inputSize := input.r
  let blk := R.r
  req "multivariate_gaussian_log_density_UVR: input_size / block_size (division by zero)" (.lt 0 blk)
  let nb := inputSize / blk
  let diff ← colwiseOp "density_UVR: input.colwise() - mean" input mean
  let invR : Shape := ⟨blk, inputSize⟩
  if R.c = blk then do
    square "density_UVR: R.inverse()" R
    forRange nb fun i => do
      let b ← block "density_UVR: inv_R.block(0, block*i, block, block)" invR 0 (blk * i) blk blk
      assignFixed "density_UVR: inv_R.block(...) = inv_R_single" b ⟨R.r, R.c⟩
  else
    forRange nb fun i => do
      let b ← block "density_UVR: inv_R.block(0, block*i, block, block)" invR 0 (blk * i) blk blk
      let rb ← block "density_UVR: R.block(0, block*i, block, block)" R 0 (blk * i) blk blk
      assignFixed "density_UVR: inv_R.block(...) = R.block(...).inverse()" b rb
  let vInvR : Shape := ⟨V.r, V.c⟩
  forRange (V.c / blk) fun i => do
    let d ← middleCols "density_UVR: V_inv_R.middleCols(i*block, block)" vInvR (i * blk) blk
    let v ← middleCols "density_UVR: V.middleCols(i*block, block)" V (i * blk) blk
    let ib ← block "density_UVR: inv_R.block(0, block*i, block, block) [V]" invR 0 (blk * i) blk blk
    let p ← prod "density_UVR: V.middleCols(...) * inv_R.block(...)" v ib
    assignFixed "density_UVR: V_inv_R.middleCols(...) = ..." d p
  let dT : Shape := ⟨input.c, input.r⟩
  forRange nb fun i => do
    let d ← middleCols "density_UVR: diff_T_inv_R.middleCols(i*block, block)" dT (i * blk) blk
    let dr ← middleRows "density_UVR: diff.middleRows(i*block, block)" diff (i * blk) blk
    let ib ← block "density_UVR: inv_R.block(0, block*i, block, block) [diff]" invR 0 (blk * i) blk blk
    let p ← prod "density_UVR: diff.middleRows(...)^T * inv_R.block(...)" dr.t ib
    assignFixed "density_UVR: diff_T_inv_R.middleCols(...) = ..." d p
  let vu ← prod "density_UVR: V_inv_R * U" vInvR U
  let ivu ← cwise "density_UVR: Identity(V.rows, V.rows) + V_inv_R * U" ⟨V.r, V.r⟩ vu
  forRange input.c fun i => do
    let r ← row "density_UVR: diff_T_inv_R.row(i)" dT i
    square "density_UVR: I_V_inv_R_U.inverse()" ivu
    let a ← prod "density_UVR: U * I_V_inv_R_U^-1" U ivu
    let b ← prod "density_UVR: (...) * V_inv_R" a vInvR
    let c ← cwise "density_UVR: Identity(U.rows, U.rows) - U (...)^-1 V_inv_R" ⟨U.r, U.r⟩ b
    let e ← prod "density_UVR: diff_T_inv_R.row(i) * (...)" r c
    let ci ← col "density_UVR: diff.col(i)" diff i
    let _ ← prod "density_UVR: (...) * diff.col(i)" e ci
  if R.c = blk then square "density_UVR: R.determinant()" R
  else
    forRange nb fun i => do
      let rb ← block "density_UVR: R.block(0, block*i, block, block) [det]" R 0 (blk * i) blk blk
      square "density_UVR: R.block(...).determinant()" rb
  square "density_UVR: I_V_inv_R_U.determinant()" ivu
  pure (vecS input.c)

/-- `SUKFCorrection::getLikelihood()` given the members left by `correctStep` -/
def sukfLikelihood (inn prop : Shape) (rr sub : Nat) (reduced : Bool) : W (Bool × Nat) :=
  if inn.r = 0 ∨ inn.c = 0 then pure (false, 0)
  else do
    let R : Shape := ⟨sub, inn.r⟩
    req "SUKFCorrection::getLikelihood: innovations_.rows() / measurement_sub_size_ (division by zero)" (.lt 0 sub)
    forRange (inn.r / sub) fun i => do
      let d ← middleCols "SUKFCorrection::getLikelihood: R.middleCols(i*sub, sub)" R (i * sub) sub
      let ri ← sukfNoiseCov rr sub reduced i
      assignFixed "SUKFCorrection::getLikelihood: R.middleCols(...) = getNoiseCovarianceMatrix(i)" d ri
    let ssp := prop.c / inn.c
    forRange inn.c fun i => do
      let Y ← middleCols "SUKFCorrection::getLikelihood: propagated_sigma_points_.middleCols(ssp*i, ssp)" prop (ssp * i) ssp
      let c ← col "SUKFCorrection::getLikelihood: innovations_.col(i)" inn i
      let v ← gaussianDensityUVR c (vecS inn.r) Y Y.t R
      coeff "SUKFCorrection::getLikelihood: density.coeff(0)" v.r 0
    pure (true, inn.c)

/-- members of a SUKFCorrection object that survive a call: `innovations_`, `propagated_sigma_points_` -/
structure SUKFMem where
  inn : Shape
  prop : Shape

def SUKFMem.init : SUKFMem := ⟨⟨0, 0⟩, ⟨0, 0⟩⟩

/-- `SUKFCorrection::correctStep` on an object with members `mem` (members are overwritten only when the
    corresponding stage succeeds, except that since fix 9d4c3da the innovations of the previous call are forgotten first);
    returns the members afterwards and the layout / component count of `corr_state` -/
def sukfStep (mem : SUKFMem) (I : Layout) (K : Nat) (C : Layout) (cK : Nat) (M : MMod) (sub : Nat) (reduced : Bool) : W (SUKFMem × Layout × Nat) := do
  let ws := utWeightSize M.Lin.noiseless.dcov
  let measSize := M.O.dim
  let mem : SUKFMem := { mem with inn := ⟨0, 0⟩ }            -- innovations_.resize(0, 0) (fix 9d4c3da)
  req "SUKFCorrection: meas_size % measurement_sub_size_ (division by zero)" (.lt 0 sub)
  if !(M.mvalid && measSize % sub == 0) then pure (mem, I, K)
  else do
    let sig ← sigmaPoint I K
    if !M.pvalid then pure (mem, I, K)
    else do
      let prop : Shape := ⟨M.prows, sig.c + M.dcols⟩
      let ss := I.dim * 2 + 1                    -- size_sigmas = pred_state.dim * 2 + 1
      let predMean : Shape := ⟨measSize, K⟩
      let wv : Shape := vecS ws
      forRange K fun i => do
        let psp ← middleCols "SUKFCorrection: propagated_sigma_points_.middleCols(size_sigmas*i, size_sigmas)" prop (ss * i) ss
        let pmi ← col "SUKFCorrection: pred_mean.col(i)" predMean i
        let p ← prod "SUKFCorrection: prop_sp * ut_weight_.mean" psp wv
        assignFixed "SUKFCorrection: pred_mean.col(i).noalias() = ..." pmi p
      if !M.ivalid then pure ({ mem with prop := prop }, I, K)
      else do
        let inn : Shape := ⟨M.irows, K⟩
        let sw : Shape := ⟨ws, ws⟩               -- sqrt_ut_weight (diagonal, dense)
        forRange K fun i => do
          let Y ← middleCols "SUKFCorrection: Y = propagated_sigma_points_.middleCols(size_sigmas*i, size_sigmas)" prop (ss * i) ss
          let pmi ← col "SUKFCorrection: pred_mean.col(i) [shift]" predMean i
          let _ ← colwiseOp "SUKFCorrection: Y.colwise() -= pred_mean.col(i)" Y pmi
          let yw ← prod "SUKFCorrection: Y *= sqrt_ut_weight" Y sw
          assignFixed "SUKFCorrection: Y *= sqrt_ut_weight (in place)" Y yw
          let cinv : Shape := ⟨ss, ss⟩
          let dvec : Shape := vecS ss
          forRange (measSize / sub) fun j => do
            let yj ← middleRows "SUKFCorrection: Y.middleRows(sub*j, sub)" Y (sub * j) sub
            let rj ← sukfNoiseCov M.rr sub reduced j
            square "SUKFCorrection: getNoiseCovarianceMatrix(j).inverse()" rj
            let tmp ← prod "SUKFCorrection: Y.middleRows(...)^T * R_j^-1" yj.t rj
            let a ← prod "SUKFCorrection: tmp * Y.middleRows(...)" tmp yj
            let _ ← cwise "SUKFCorrection: C_inv += tmp * Y.middleRows(...)" cinv a
            let ic ← col "SUKFCorrection: innovations_.col(i)" inn i
            let seg ← middleRows "SUKFCorrection: innovations_.col(i).middleRows(sub*j, sub)" ic (sub * j) sub
            let b ← prod "SUKFCorrection: tmp * innovations_.col(i).middleRows(...)" tmp seg
            let _ ← cwise "SUKFCorrection: d += tmp * innovation" dvec b
          let X ← middleCols "SUKFCorrection: X = input_sigma_points.middleCols(size_sigmas*i, size_sigmas)" sig (ss * i) ss
          let pm ← gmMean I K i
          let xt ← topRows "SUKFCorrection: X.topRows(dim_linear)" X I.dl
          let mt ← topRows "SUKFCorrection: pred_state.mean(i).topRows(dim_linear)" pm I.dl
          let _ ← colwiseOp "SUKFCorrection: X.topRows(dim_linear).colwise() -= mean" xt mt
          let xb ← bottomRows "SUKFCorrection: X.bottomRows(dim_circular)" X I.dc
          let mb ← bottomRows "SUKFCorrection: pred_state.mean(i).bottomRows(dim_circular)" pm I.dc
          let r ← directionalAdd xb mb
          assignFixed "SUKFCorrection: X.bottomRows(dim_circular) = directional_sub" xb r
          let xw ← prod "SUKFCorrection: X *= sqrt_ut_weight" X sw
          assignFixed "SUKFCorrection: X *= sqrt_ut_weight (in place)" X xw
          square "SUKFCorrection: C_inv.inverse()" cinv
          let e ← prod "SUKFCorrection: X * C_inv" X cinv
          let f ← prod "SUKFCorrection: X * C_inv * d" e dvec
          let s ← cwise "SUKFCorrection: pred_state.mean(i) + X C_inv d" pm f
          let cm ← gmMean C cK i
          assignFixed "SUKFCorrection: corr_state.mean(i) = ..." cm s
          let g ← prod "SUKFCorrection: X * C_inv * X^T" e X.t
          let cc ← gmCov C cK i
          assignFixed "SUKFCorrection: corr_state.covariance(i) = ..." cc g
        pure (⟨inn, prop⟩, C, cK)

/-- `SUKFCorrection::correctStep` on a fresh object followed by `getLikelihood()` -/
def sukfCorrect (I : Layout) (K : Nat) (C : Layout) (cK : Nat) (M : MMod) (sub : Nat) (reduced : Bool) : W CorrRes := do
  let (mem, L, k) ← sukfStep SUKFMem.init I K C cK M sub reduced
  let (lv, ls) ← sukfLikelihood mem.inn mem.prop M.rr sub reduced
  pure ⟨L, k, lv, ls⟩

/-- `KFCorrection::correctStep` followed by `getLikelihood()`; the model is an LTIMeasurementModel
    with `H : hm × hn`, `R : hm × hm` (its constructor enforces this), `measure()` of `ysize` rows. -/
def kfCorrect (I : Layout) (K : Nat) (C : Layout) (cK : Nat) (hm hn ysize : Nat) (mvalid : Bool) : W CorrRes := do
  if !mvalid then pure (corrCopy I K)
  else do
    let H : Shape := ⟨hm, hn⟩
    let R : Shape := ⟨hm, hm⟩
    let pm ← prod "KFCorrection: predictedMeasure = H * pred_state.mean()" H (I.meanS K)
    let y : Shape := vecS ysize
    let y0 ← col "LinearMeasurementModel::innovation: measurements.col(0)" y 0
    let inn ← colwiseOp "LinearMeasurementModel::innovation: predicted.colwise() - measurement" pm y0
    let O : Layout := ⟨hm, 0, false, 0⟩        -- meas_covariances_.resize(components, H.rows())
    forRange K fun i => do
      let mc ← gmCov O K i
      let pc ← gmCov I K i
      let a ← prod "KFCorrection: H * Px" H pc
      let b ← prod "KFCorrection: H Px * H^T" a H.t
      let c ← cwise "KFCorrection: H Px H^T + R" b R
      assignFixed "KFCorrection: meas_covariances_.covariance(i) = ..." mc c
      let e ← prod "KFCorrection: Px * H^T" pc H.t
      kalmanUpdate "KFCorrection" I K C cK e mc inn i
    let (lv, ls) ← gaussLikelihood "KFCorrection" inn O K
    pure ⟨C, cK, lv, ls⟩


end BFL.Bounds
