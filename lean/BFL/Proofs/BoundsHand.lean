import BFL.Proofs.BoundsFilt
/-
C14 (round 4) — safety lemmas for the EstimatesExtraction hand-over language, the Logger, and the filtering steps behind
`GaussianFilter::skip` / `ParticleFilter::skip`.
-/
set_option linter.unusedSimpArgs false
set_option linter.unusedVariables false
namespace BFL.Bounds
open W

/-! ### EstimatesExtraction hand-over -/

theorem eeArgsFor_valid (s : EEState) (N : Nat) (full : Bool) (hN : 1 ≤ N) : eeValid s.ls s.cs full (eeArgsFor s N) :=
  ⟨rfl, hN, rfl, fun _ => ⟨rfl, rfl, rfl⟩⟩

theorem eeRunState_ok (N : Nat) (hN : 1 ≤ N) (m : EMethod) (n : Nat) : ∀ s : EEState, s.inv →
    (eeRunState s m N n).Safe ∧ (eeRunState s m N n).val.inv := by
  induction n with
  | zero => intro s hi; simp [eeRunState, hi]
  | succ n ih =>
    intro s hi
    have h := eeExtract_ok s m true (eeArgsFor s N) hi (eeArgsFor_valid s N true hN)
    have := ih _ h.2.1
    simp only [eeRunState, safe_bind, val_bind]
    exact ⟨⟨h.1, this.1⟩, this.2⟩

theorem eeNew_inv (ls cs : Nat) : (EEState.new ls cs).inv :=
  ⟨by simp [Hist.uniform, Hist.new, EEState.new], by simp [Hist.bounded, Hist.new, EEState.new], by simp [EEState.new, Hist.new]⟩

theorem eeSetWindow_inv (s : EEState) (w : Nat) (hi : s.inv) :
    (histSetSize s.hist w).Safe ∧ ({ s with hist := (histSetSize s.hist w).val } : EEState).inv := by
  obtain ⟨i1, i2, i3⟩ := hi
  have hs := histSetSize_ok s.hist w i1
  have hb := histSetSize_bounded s.hist w i2
  exact ⟨hs.1, hs.2.1, hb, by simp only []; rw [hs.2.2, i3]⟩

theorem eeOther_ok (ls2 cs2 w k : Nat) (m : EMethod) (N : Nat) (hN : 1 ≤ N) :
    (eeOther ls2 cs2 w k m N).Safe ∧ (eeOther ls2 cs2 w k m N).val.inv := by
  unfold eeOther
  simp only [safe_bind, val_bind]
  split
  · have hw := eeSetWindow_inv (EEState.new ls2 cs2) w (eeNew_inv ls2 cs2)
    have := eeRunState_ok N hN m k _ hw.2
    exact ⟨⟨hw.1, this.1⟩, this.2⟩
  · have := eeRunState_ok N hN m k _ (eeNew_inv ls2 cs2)
    exact ⟨⟨by simp, this.1⟩, this.2⟩

theorem eeHandStep_ok (N : Nat) (hN : 1 ≤ N) (s : EEState) (op : EEOp) (hi : s.inv) :
    (eeHandStep N s op).Safe ∧ (eeHandStep N s op).val.1.inv := by
  cases op with
  | extract m full =>
    have h := eeExtract_ok s m full (eeArgsFor s N) hi (eeArgsFor_valid s N full hN)
    simp [eeHandStep, h.1, h.2.1]
  | setWindow w =>
    simp only [eeHandStep]
    split
    · have hw := eeSetWindow_inv s w hi
      simp [hw.1, hw.2]
    · simp [hi]
  | moveConstruct => simp [eeHandStep, hi]
  | moveSelf => simp [eeHandStep, hi]
  | moveAssignFrom ls2 cs2 w k m =>
    have h := eeOther_ok ls2 cs2 w k m N hN
    simp [eeHandStep, h.1, h.2]
  | moveAssignInto ls2 cs2 w k m =>
    have h := eeOther_ok ls2 cs2 w k m N hN
    simp [eeHandStep, h.1, hi]

theorem eeHandRun_safe (N : Nat) (hN : 1 ≤ N) (ops : List EEOp) : ∀ s : EEState, s.inv → (eeHandRun N s ops).Safe := by
  induction ops with
  | nil => intro s _; simp [eeHandRun]
  | cons op ops ih =>
    intro s hi
    have h := eeHandStep_ok N hN s op hi
    simp only [eeHandRun, safe_bind, safe_pure, and_true]
    exact ⟨h.1, ih _ h.2⟩

/-! ### Logger -/

/-- while the log is enabled there is one open stream per file name -/
def LogSt.inv (sp : LogSpec) (st : LogSt) : Prop := st.enabled = true → st.files = sp.names

theorem logStep_ok (sp : LogSpec) (hv : logValid sp) (st : LogSt) (op : LogOp) (hi : st.inv sp) :
    (logStep sp st op).Safe ∧ (logStep sp st op).val.1.inv sp := by
  unfold logValid at hv
  cases op with
  | enable ok id =>
    simp only [logStep]
    split
    · simp [hi]
    · split
      · simp [hi]
      · split
        · simp [LogSt.inv]
        · simp [LogSt.inv]
  | disable =>
    simp only [logStep]
    split
    · simp [LogSt.inv]
    · simp [hi]
  | log =>
    simp only [logStep]
    simp only [safe_bind, val_bind, safe_pure, val_pure, and_true]
    refine ⟨?_, hi⟩
    split
    · rename_i he
      simp only [safe_forRange]
      intro pos hp
      have := hi he
      simp; omega
    · simp
  | query => simp [logStep, hi]

theorem logRun_safe (sp : LogSpec) (hv : logValid sp) (ops : List LogOp) : ∀ st : LogSt, st.inv sp → (logRun sp st ops).Safe := by
  induction ops with
  | nil => intro st _; simp [logRun]
  | cons op ops ih =>
    intro st hi
    have h := logStep_ok sp hv st op hi
    simp only [logRun, safe_bind, safe_pure, and_true]
    exact ⟨h.1, ih _ h.2⟩

/-! ### filtering steps behind the skip commands: safe for EVERY flag state -/

theorem kfPredictF_safe (I : Layout) (K fn : Nat) (st : SkipSt) (hasExo : Bool) (hdim : fn = I.dim) (hdc : fn = I.dcov) :
    (kfPredictF I K I K fn st hasExo).Safe ∧
    (kfPredictF I K I K fn st hasExo).val = (I, K) := by
  have hf : I.dim = I.dcov := by omega
  subst hdc
  unfold kfPredictF
  split
  · simp
  · split
    · simp
    · refine ⟨?_, by simp⟩
      simp only [safe_bind, val_bind, safe_pure, and_true, safe_forRange]
      refine ⟨by simpa [Layout.meanS, hf] using linPropagateFull_safe I.dcov K false hasExo st.exo, ?_⟩
      intro i hi
      have b := mul_block_le I.dcov i K hi
      simp [gmCov, Layout.covS]
      omega

theorem gfStep_safe (fn K hm : Nat) (st : SkipSt) (hasExo : Bool) (hfn : 1 ≤ fn) (hK : 1 ≤ K) (hhm : 1 ≤ hm) :
    (gfStep ⟨fn, 0, false, 0⟩ K fn hm st hasExo).Safe := by
  have hd : fn = (Layout.mk fn 0 false 0).dim := by simp [Layout.dim, Layout.cc]
  have hc : fn = (Layout.mk fn 0 false 0).dcov := by simp [Layout.dcov, Layout.cc]
  have hp := kfPredictF_safe ⟨fn, 0, false, 0⟩ K fn st hasExo hd hc
  unfold gfStep
  simp only [safe_bind, val_bind, hp.1, hp.2, true_and]
  split
  · simp
  · simp only [safe_bind, safe_pure, and_true]
    exact kfCorrect_safe ⟨fn, 0, false, 0⟩ K ⟨fn, 0, false, 0⟩ K hm fn hm true ⟨hK, rfl, rfl, rfl, hhm, hd, hc, rfl⟩

theorem drawPredictF_safe (d : Dim) (I : Layout) (N : Nat) (hasExo : Bool) (st : SkipSt) (h : I.dim = d.n) :
    (drawPredictF d I N I N hasExo st).Safe := by
  unfold drawPredictF
  rw [h]
  obtain ⟨p, s, e, c⟩ := st
  cases d <;> cases hasExo <;> cases s <;> cases e <;> simp [wnaCtor, ldltSqrt, wnaNoise, linPropagateFull, linPropagate, Dim.n]

theorem pfRun_safe (N lin circ : Nat) (d : Dim) (nx ny hm steps : Nat) (hasExo : Bool) (st : SkipSt)
    (resampleAt : Nat → Bool) (gt : Nat → Nat → Bool) (hN : 1 ≤ N) (hd : lin + circ = d.n) :
    (pfRun N lin circ d nx ny hm steps hasExo st resampleAt gt).Safe := by
  have hI : (Layout.mk lin circ false 0).dim = d.n := by simp [Layout.dim, Layout.cc]; omega
  have hg := gridInit_safe nx ny N (Layout.mk lin circ false 0).dim
  have hdr := drawPredictF_safe d ⟨lin, circ, false, 0⟩ N hasExo st hI
  have hbo := bootstrapCorrect_safe ⟨lin, circ, false, 0⟩ N
    ⟨⟨lin, circ, false, 0⟩, ⟨hm, 0, false, 0⟩, hm, 0, hm, hm, hm, true, true, true⟩ rfl rfl
  have hrs := resample_safe ⟨lin, circ, false, 0⟩ N gt hN
  unfold pfRun
  simp only [safe_bind, val_bind, hg, true_and, safe_forRange]
  intro s _
  refine ⟨?_, ?_, by simp; omega, ?_, by simp⟩
  · split <;> simp [hdr]
  · split
    · simp
    · simp only [safe_bind, safe_pure, and_true]
      exact ⟨by simp, hbo⟩
  · split <;> simp [hrs]

/-! ### `SUKFCorrection::getLikelihood()` against the noise covariance read at query time -/

theorem sukfNoiseCov_cover_ok (rr sub : Nat) (reduced : Bool) (j m : Nat) (hj : j < m / sub)
    (hrr : if reduced then rr = sub else m ≤ rr) :
    (sukfNoiseCov rr sub reduced j).Safe ∧ (sukfNoiseCov rr sub reduced j).val = ⟨sub, sub⟩ := by
  have b := div_block_le sub j m hj
  unfold sukfNoiseCov
  cases reduced with
  | true => simp at hrr; simp [hrr]
  | false => simp at hrr; simp; omega

/-- the query on members `innovations_ : m × Ki`, `propagated_sigma_points_ : m × p` is safe whenever the noise covariance
    read at query time still covers `m` rows (full mode) / is the `sub × sub` block (reduced mode) -/
theorem sukfLikelihood_cover_safe (m Ki p rr sub : Nat) (reduced : Bool) (hsub : 0 < sub) (_hK : 0 < Ki)
    (hrr : if reduced then rr = sub else m ≤ rr) : (sukfLikelihood ⟨m, Ki⟩ ⟨m, p⟩ rr sub reduced).Safe := by
  unfold sukfLikelihood
  split
  · simp
  · simp only [safe_bind, safe_pure, and_true, safe_forRange, val_bind]
    refine ⟨by simp [hsub], ?_, ?_⟩
    · intro i hi
      have := sukfNoiseCov_cover_ok rr sub reduced i m hi hrr
      have b := div_block_le' sub i m hi
      simp [this.1, this.2]; omega
    · intro i hi
      have := gaussianDensityUVR_safe m (p / Ki) sub hsub
      have hi' : i < Ki := by simpa using hi
      have b1 : p / Ki * (i + 1) ≤ p / Ki * Ki := Nat.mul_le_mul_left _ (by omega)
      have b2 : p / Ki * Ki ≤ p := Nat.div_mul_le_self p Ki
      have b3 : p / Ki * (i + 1) = p / Ki * i + p / Ki := by rw [Nat.mul_succ]
      simp [this.1, this.2, hi']; omega

theorem likqMeas_valid (K sub m : Nat) (reduced : Bool) (hK : 1 ≤ K) (hm : 1 ≤ m) (hsub : 1 ≤ sub) :
    sukfValid likqState K likqState K (likqMeas likqState m sub reduced) sub reduced := by
  cases reduced <;> simp [sukfValid, corrValidCommon, likqMeas, likqState, Layout.noiseless, Layout.dcov, Layout.dim, Layout.cc] <;> omega

/-- the query is safe on every member state a correction can leave, for a noise size that covers them -/
theorem sukfLik_after_step (mem : SUKFMem) (K sub m rr : Nat) (reduced : Bool) (hK : 1 ≤ K) (hsub : 1 ≤ sub)
    (hrr : if reduced then rr = sub else m ≤ rr)
    (h : mem.inn = ⟨0, 0⟩ ∨ mem = ⟨⟨m, K⟩, ⟨m, (likqState.dcov * 2 + 1) * K⟩⟩) :
    (sukfLikelihood mem.inn mem.prop rr sub reduced).Safe := by
  rcases h with h | h
  · rw [h]; simp [sukfLikelihood]
  · rw [h]; exact sukfLikelihood_cover_safe m K _ rr sub reduced (by omega) (by omega) hrr

theorem sukfLikQuery_safe (K sub m1 m2 : Nat) (reduced : Bool) (how : LikQHow) (hK : 1 ≤ K) (hm1 : 1 ≤ m1) (hm2 : 1 ≤ m2)
    (hsub : 1 ≤ sub) (hc : likqCovered reduced m1 m2 how) : (sukfLikQuery K sub m1 m2 reduced how).Safe := by
  have hs : sukfSupported likqState := by simp [sukfSupported, likqState]
  have v1 := likqMeas_valid K sub m1 reduced hK hm1 hsub
  have v2 := likqMeas_valid K sub m2 reduced hK hm2 hsub
  obtain ⟨s1, c1⟩ := sukfStep_ok SUKFMem.init likqState K likqState K (likqMeas likqState m1 sub reduced) sub reduced v1 hs
  have hO1 : (likqMeas likqState m1 sub reduced).O.dim = m1 := by simp [likqMeas, Layout.dim, Layout.cc]
  have hO2 : (likqMeas likqState m2 sub reduced).O.dim = m2 := by simp [likqMeas, Layout.dim, Layout.cc]
  have hr1 : (if reduced then (likqMeas likqState m1 sub reduced).rr = sub else m1 ≤ (likqMeas likqState m1 sub reduced).rr) := by
    cases reduced <;> simp [likqMeas]
  have hr2 : (if reduced then (likqMeas likqState m2 sub reduced).rr = sub else m2 ≤ (likqMeas likqState m2 sub reduced).rr) := by
    cases reduced <;> simp [likqMeas]
  -- the members after the first correction
  have hmem : (sukfStep SUKFMem.init likqState K likqState K (likqMeas likqState m1 sub reduced) sub reduced).val.1.inn = ⟨0, 0⟩ ∨
      (sukfStep SUKFMem.init likqState K likqState K (likqMeas likqState m1 sub reduced) sub reduced).val.1 =
        ⟨⟨m1, K⟩, ⟨m1, (likqState.dcov * 2 + 1) * K⟩⟩ := by
    rcases c1 with h | h | h
    · left; rw [h]
    · left; rw [h]
    · right; rw [h, hO1]
  unfold sukfLikQuery
  simp only [safe_bind, val_bind, safe_pure, and_true]
  refine ⟨s1, sukfLik_after_step _ K sub m1 _ reduced hK hsub hr1 hmem, ?_⟩
  cases how with
  | correct =>
    simp only [safe_bind, val_bind, safe_pure, val_pure, and_true]
    obtain ⟨s2, c2⟩ := sukfStep_ok (sukfStep SUKFMem.init likqState K likqState K (likqMeas likqState m1 sub reduced) sub reduced).val.1
      likqState K likqState K (likqMeas likqState m2 sub reduced) sub reduced v2 hs
    refine ⟨s2, sukfLik_after_step _ K sub m2 _ reduced hK hsub hr2 ?_⟩
    rcases c2 with h | h | h
    · left; rw [h]
    · left; rw [h]
    · right; rw [h, hO2]
  | queryOnly =>
    simp only [safe_pure, val_pure, true_and]
    have hr : (if reduced then (likqMeas likqState m2 sub reduced).rr = sub else m1 ≤ (likqMeas likqState m2 sub reduced).rr) := by
      rcases hc with h | h | h
      · subst h; simp [likqMeas]
      · cases h
      · cases reduced <;> simp [likqMeas, h]
    exact sukfLik_after_step _ K sub m1 _ reduced hK hsub hr hmem
  | skippedCorrect =>
    simp only [safe_pure, val_pure, true_and]
    have hr : (if reduced then (likqMeas likqState m2 sub reduced).rr = sub else m1 ≤ (likqMeas likqState m2 sub reduced).rr) := by
      rcases hc with h | h | h
      · subst h; simp [likqMeas]
      · cases h
      · cases reduced <;> simp [likqMeas, h]
    exact sukfLik_after_step _ K sub m1 _ reduced hK hsub hr hmem

end BFL.Bounds
