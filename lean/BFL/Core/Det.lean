import BFL.Core.Mat
/-
Determinant by Laplace expansion along row 0 (the mirror image of Mathlib's
`Matrix.det_succ_row_zero`; bridge theorem `BFL.toM_det` in `BFL/Bridge/Det.lean`).
Core Lean only: executed exactly over `Rat` by the driver (n ≤ 9 in all runs) and read
over `ℝ` by the theorems.  Also the block addressing of a `nb·bs` index range used by the
block-diagonal noise covariances of C15 / C05.
-/
namespace BFL

/-- A default matrix, so that vectors of matrices can be memoised (`Vec.eval`). -/
instance instInhabitedMatDet {α : Type} [Inhabited α] {r c : Nat} : Inhabited (Mat α r c) :=
  ⟨Mat.of (fun _ _ => default)⟩

/-- `j.skip b`: the `b`-th index of `Fin (n+1)` once `j` is removed (Mathlib's `Fin.succAbove`). -/
def Fin.skip {n : Nat} (j : Fin (n + 1)) (b : Fin n) : Fin (n + 1) :=
  if b.val < j.val then b.castSucc else b.succ

namespace Mat
variable {α : Type}

/-- remove row 0 and column `j` -/
def minor0 {n : Nat} (A : Mat α (n + 1) (n + 1)) (j : Fin (n + 1)) : Mat α n n :=
  Mat.of (fun a b => A a.succ (Fin.skip j b))

/-- Laplace expansion along row 0: `Σ_j (-1)^j A₀ⱼ det(minor₀ⱼ)`; the empty determinant is 1. -/
def det [Add α] [Mul α] [Neg α] [Zero α] [One α] [Inhabited α] : (n : Nat) → Mat α n n → α
  | 0, _ => 1
  | n + 1, A =>
    fsum (n + 1) (fun j =>
      let t := A 0 j * det n (Mat.eval (minor0 A j))
      if j.val % 2 = 0 then t else - t)

/-! #### A fast determinant with a built-in certificate

Laplace expansion costs `n!`; the serial UKF needs determinants of `(2n+1)×(2n+1)` matrices.
`detLU` runs Gaussian elimination without row exchanges (the *search*, not trusted), checks the
result exactly — `L` unit lower triangular, `U` upper triangular, `L·U = A` entry by entry — and
returns `∏ Uᵢᵢ`; whenever the elimination meets a zero pivot or the check fails it falls back to
the Laplace expansion.  Hence `detLU n A = det A` for every `A` (`BFL.toM_detLU`), with no
assumption about the elimination code. -/

section lu
variable [Add α] [Sub α] [Mul α] [Div α] [Neg α] [Zero α] [One α] [Inhabited α] [DecidableEq α]

/-- Doolittle elimination without pivoting: `(L, U)` or `none` at a zero pivot.  Unverified search. -/
def luNoPivot (n : Nat) (A : Mat α n n) : Option (Mat α n n × Mat α n n) := Id.run do
  let mut M : Array (Array α) := Array.ofFn fun i : Fin n => Array.ofFn (fun j : Fin n => A i j)
  let mut L : Array (Array α) := Array.ofFn fun i : Fin n => Array.ofFn (fun j : Fin n => if i = j then (1 : α) else 0)
  for c in [0:n] do
    let pv := (M[c]!)[c]!
    if pv = 0 then return none
    let prow := M[c]!
    for r in [c+1:n] do
      let f := (M[r]!)[c]! / pv
      let rr := M[r]!
      M := M.set! r (Array.ofFn (fun j : Fin n => if j.val ≤ c then (if j.val = c then (0 : α) else rr[j.val]!) else rr[j.val]! - f * prow[j.val]!))
      L := L.set! r ((L[r]!).set! c f)
  let Lf := L
  let Uf := M
  return some (Mat.of (fun i j => (Lf[i.val]!)[j.val]!), Mat.of (fun i j => (Uf[i.val]!)[j.val]!))

/-- the exact certificate: `L` unit lower triangular, `U` upper triangular, `L U = A` -/
def luCert {n : Nat} (A L U : Mat α n n) : Bool :=
  let P := Mat.mul L U
  decide (∀ i j : Fin n, (i.val < j.val → L i j = 0) ∧ (j.val < i.val → U i j = 0) ∧ P i j = A i j)
    && decide (∀ i : Fin n, L i i = 1)

/-- determinant: certified elimination, Laplace expansion as the fall-back -/
def detLU (n : Nat) (A : Mat α n n) : α :=
  match luNoPivot n A with
  | some (L, U) =>
    let L := Mat.eval L
    let U := Mat.eval U
    if luCert A L U then Fin.foldl n (fun acc i => acc * U i i) 1 else det n A
  | none => det n A

end lu

end Mat

/-! Block addressing of `Fin (nb * bs)`: index `p` lies in block `p / bs` at offset `p % bs`
    (`bdiv`, `bmod`); `bidx i c = bs * i + c`. -/

/-- global index of offset `c` in block `i`  (`block_size * i + c` in the code) -/
def bidx {nb bs : Nat} (i : Fin nb) (c : Fin bs) : Fin (nb * bs) :=
  ⟨bs * i.val + c.val, by
    have hi := i.isLt; have hc := c.isLt
    calc bs * i.val + c.val < bs * i.val + bs := by omega
      _ = bs * (i.val + 1) := by rw [Nat.mul_succ]
      _ ≤ bs * nb := Nat.mul_le_mul_left bs hi
      _ = nb * bs := Nat.mul_comm _ _⟩

/-- block of the flat index `p`:  `p / bs` -/
def bdiv {nb bs : Nat} (p : Fin (nb * bs)) : Fin nb :=
  ⟨p.val / bs, by
    have hp := p.isLt
    have hb : 0 < bs := Nat.pos_of_ne_zero (fun h => by subst h; simp at hp)
    exact (Nat.div_lt_iff_lt_mul hb).2 hp⟩

/-- offset of the flat index `p` inside its block:  `p % bs` -/
def bmod {nb bs : Nat} (p : Fin (nb * bs)) : Fin bs :=
  ⟨p.val % bs, by
    have hp := p.isLt
    have hb : 0 < bs := Nat.pos_of_ne_zero (fun h => by subst h; simp at hp)
    exact Nat.mod_lt _ hb⟩

namespace Mat
variable {α : Type} {r nb bs : Nat}

/-- `A.middleCols(bs * i, bs)` -/
def blkCols (A : Mat α r (nb * bs)) (i : Fin nb) : Mat α r bs := Mat.of (fun a c => A a (bidx i c))
/-- `A.middleRows(bs * i, bs)` -/
def blkRows (A : Mat α (nb * bs) r) (i : Fin nb) : Mat α bs r := Mat.of (fun c a => A (bidx i c) a)
/-- `A.block(bs * i, bs * i, bs, bs)` -/
def blkDiag (A : Mat α (nb * bs) (nb * bs)) (i : Fin nb) : Mat α bs bs :=
  Mat.of (fun a c => A (bidx i a) (bidx i c))

end Mat

/-- `x^n` by repeated multiplication (`std::pow(x, n)` for a non-negative integer `n`). -/
def natPow {α : Type} [Mul α] [One α] (x : α) : Nat → α
  | 0 => 1
  | n + 1 => natPow x n * x

/-- the natural number `n` as a scalar (`static_cast<double>(n)`) -/
def natTo {α : Type} [Add α] [Zero α] [One α] : Nat → α
  | 0 => 0
  | n + 1 => natTo n + 1

end BFL
