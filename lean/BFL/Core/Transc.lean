/-
Transcendental functions as a class, so that kernels using them stay polymorphic in the scalar:
`Float` for execution (instance here), `ℝ` for theorems (instance in `BFL/Bridge/Transc.lean`).
That `Float` approximates `ℝ` is part of the trusted base (as "double approximates ℝ" is for the C++).
-/
namespace BFL

class Transc (α : Type) where
  exp : α → α
  log : α → α
  sqrt : α → α
  sin : α → α
  cos : α → α
  acos : α → α
  /-- `atan2 y x` = argument of the complex number `x + i y`, in `(-π, π]` -/
  atan2 : α → α → α
  pi : α

instance : Transc Float where
  exp := Float.exp
  log := Float.log
  sqrt := Float.sqrt
  sin := Float.sin
  cos := Float.cos
  acos := Float.acos
  atan2 := Float.atan2
  pi := 3.14159265358979323846

end BFL
