import BFL.Proofs.RaceTable
import BFL.Proofs.RacePhase
import BFL.Proofs.RaceScoped
import BFL.Proofs.RaceObject
import BFL.Proofs.RaceConfine
/-
C10 — the control interface may be used from another thread without data races.

Model (BFL/Model/Race.lean): two threads — the controller, entering the library through `boot`,
`run`, `wait`, `reset`, `reboot`, `teardown`, `step_number`, `is_running` and the filters' `skip`;
the filtering thread, entering through `filtering_recursion` (and, for user-written Gaussian
steps, through the prediction / correction interface) — issue access / acquire / release events.
An interleaving is *well formed* when mutexes are respected (`WF`) and *conforms* to the table
(`Conforms`) when each access event is an instance of a row of the table regenerated from the
source (`BFL/Gen/RaceTable.lean`), executed by a function its thread can reach and while the
row's syntactic lockset is held.  A data race is taken in adjacency form (`RaceOn`): two
conflicting accesses (same location, different threads, at least one write, not both
synchronisation operations) adjacent in some interleaving.

Proved here.  General (every table): `bracket_holds`, `lockset_sound`, `lockset_complete`,
`race_free_iff_disciplined`; `phase_adj` (thread creation / join order the phases: races of a whole
program lie in the concurrent phase); `conforms_of_scoped` (threads whose own events are RAII-scoped
conform to the table — the operational meaning of "syntactically inside a lock scope").
For the table of the current tree (obligations re-evaluated by the kernel on every regeneration):
  * `table_disciplined`: every data member of every library class obeys the discipline (must hold;
    `RaceTable.claimed_empty` by `decide`), in particular the lifecycle members of `FilteringAlgorithm`
    (`table_disciplined_lifecycle`, `race_free_lifecycle`, `…_program_lifecycle`, `…_scoped`) and the six
    skip flags, which are `AtomicFlag`s since c5f4aef (shared location `AtomicFlag::value_`, atomic);
  * **`race_free : RaceFree table`** — the full-strength statement — with its whole-program form
    `race_free_program` and the RAII form `race_free_scoped`;
  * `table_join_certified` / `handle_joined`: `wait()` joins the thread `boot()` created and no function
    of either role detaches / moves / reassigns the handle — the shape `… ++ [join] ++ tear-down` assumed by
    `race_free_program` is certified from the table, not assumed;
  * polarity-independent companions, true for whatever the code says: `table_undisciplined_exact`,
    `race_witness_exact` (a member has a racy interleaving iff the regenerated file lists it; the file
    then also carries a `…_counterexample` theorem per member), `race_free_iff`.

TRUSTED (not proved):
  1. the reduction of the C++ memory model to sequentially consistent interleavings with
     mutex / atomic / thread-creation / join synchronisation, and the adjacency form of "data race"
     (Boehm–Adve) for programs that synchronise only through mutexes and seq_cst atomics;
  2. the translator tools/racetable.py (clang AST → table): member accesses through `this`/objects and
     data with static storage duration, read / write classification, syntactic recognition of
     `lock_guard` / `unique_lock` / `scoped_lock` scopes on mutex members of `this` (early `unlock()`,
     loops, stored lambdas treated conservatively), entry locksets of functions only called under a
     lock, expansion of virtual calls over the class hierarchy;
     lambdas stored in `std::function` members are resolved to pseudo-functions `Class::member$closure`
     called where the member is invoked; manual `m.lock(); … m.unlock();` and `lk.lock()` re-locks are
     recognised at block level; functions handing out references / pointers / `Eigen::Ref` into members get
     no lock credited (the reference may outlive every scope) and count as writes unless const;
     not seen: what *user code* does with such a reference on another thread, `std::function`s that are
     not members, code outside namespace bfl (Eigen, libstdc++);
  3. the role map (`controllerRoots`, `filterRoots`) and `Conforms` / `Scoped` as a description of what
     the two threads execute between `boot()` and the return of `wait()`; a single controller thread;
  4. the class-level abstraction: a row's lockset names mutex members of the *same object* as the
     accessed member — an explicit part of `Justified`, necessary (`same_object_necessary`), certified
     syntactically as far as possible (`table_locks_certified`: locks only via `this`, mutex members only);
  5. the controller's entry points are the commands the property names (run, reset, reboot, teardown,
     step number, running state, skip; plus boot / wait).  `Logger::enable_log` / `disable_log` /
     `get_folder_path` / `get_file_name_prefix` are configuration, not control or query commands of the
     property: not in the role map (the check reports what they would race with as advisory information).
The translator and the role map are validated on every run (checks/c10.py): in both directions against
ThreadSanitizer, and by an independent textual scan of every member function for member names.
-/
namespace BFL.C10
open BFL.Race BFL.RaceTable

/-! ### general theorems (every table, every interleaving) -/

/-- In a well-formed interleaving an access that is syntactically inside a lock scope is executed
    while its thread holds that mutex (and conversely). -/
theorem bracket_holds {tr : List Ev} (h : WF tr) (t : Tid) (m : Mx) :
    holders tr m = some t ↔ held tr t m = true :=
  Race.bracket_holds h t m

/-- If member `f` obeys the lockset discipline (every controller/filter pair of accesses to it with a
    write is a pair of synchronisation operations or holds a common mutex of the object), no
    well-formed conforming interleaving has two adjacent conflicting accesses to it. -/
theorem lockset_sound (T : Table) (f : Nat) (hok : FieldOK T f) {tr : List Ev} (hwf : WF tr)
    (hc : Conforms T tr) : ¬ RaceOnField f tr :=
  Race.lockset_sound T f hok hwf hc

/-- Conversely a member violating the discipline races in some well-formed conforming interleaving. -/
theorem lockset_complete (T : Table) (f : Nat) (h : ¬ FieldOK T f) :
    ∃ tr, WF tr ∧ Conforms T tr ∧ RaceOnField f tr :=
  Race.lockset_complete T f h

/-- Thread creation and join order the phases: in a whole-program execution
    `set-up ++ [spawn] ++ concurrent phase ++ [join] ++ tear-down` (set-up and tear-down executed by the
    controller alone and *not* constrained by the table: constructors, destructors, user code) two
    adjacent conflicting accesses always lie in the concurrent phase. -/
theorem phase_adj (pre mid post : List Ev) (hpre : ∀ e ∈ pre, e.tid = .controller)
    (hpost : ∀ e ∈ post, e.tid = .controller) {a b : Ev}
    (h : Adj (program pre mid post) (.ev a) (.ev b)) (hc : conflict a b) : Adj mid a b :=
  Race.phase_adj pre mid post hpre hpost h hc

/-- What "syntactically inside a lock scope" means operationally: if the events of each thread, read on
    their own, are generated by RAII scoping (`Scoped`: accesses by table rows whose lockset is among the
    open scopes; `lock m · S · unlock m`; `unlock m · lock m` for a condition wait on an open scope;
    sequencing — control flow abstracted), every interleaving of the two threads conforms to the table. -/
theorem conforms_of_scoped (T : Table) (tr : List Ev) (h : ∀ t, Scoped T t [] (proj t tr)) : Conforms T tr :=
  Race.conforms_of_scoped T tr h

/-- **The class-level abstraction is an explicit, necessary hypothesis.**  `Conforms` (via `Justified`)
    demands that a row's locks are held on the *same object* as the member it accesses.  Under the
    weaker reading `ConformsAny` (locks held on some object) the lockset theorem fails: a disciplined
    member races when the two threads hold the mutexes of two other objects. -/
theorem same_object_necessary :
    FieldOK guardedTable 0 ∧ WF crossObjectTrace ∧ ConformsAny guardedTable crossObjectTrace ∧
      RaceOnField 0 crossObjectTrace :=
  Race.same_object_necessary

/-- race freedom of a table ⇔ discipline of every member -/
theorem race_free_iff_disciplined (T : Table) : RaceFree T ↔ ∀ f, FieldOK T f :=
  Race.raceFree_iff T

/-! ### the table of the current tree -/

/-- the role map resolves: every entry point exists, and the filtering role's root is the function
    `boot()` hands to `std::thread` (the only thread creation in the library) -/
theorem table_roles_resolved :
    table.rootsPresent .controller = true ∧ table.rootsPresent .filter = true ∧
    table.spawns = [spawnSite] :=
  ⟨roots_present.1, roots_present.2, spawn_root⟩

/-- the reachable sets used by the decision procedure are exactly call-graph reachability -/
theorem table_reach_certified (r : Role) (m : Nat) :
    (reachClaim r).testBit m = true ↔ Reach table (table.rootIds r) m := by
  cases r
  · exact cert_controller.iff m
  · exact cert_filter.iff m

/-- what the translator certifies syntactically towards the same-object hypothesis: a lockset appears only
    on rows whose object expression is `this` and consists of mutex members only (the translator credits a
    lock only when mutex and member are reached through the same `this`, in the function itself or in
    callers along calls on `this`; functions handing out references / pointers / `Eigen::Ref` get none) -/
theorem table_locks_certified : table.locksCertifiedB = true := locks_certified

/-! ### thread confinement of the user's model objects (the skip path stops at the flags) -/

/-- General (every table): a member no controller-reachable function has a row for is never accessed
    by the controller thread, in any interleaving that conforms to the table. -/
theorem controller_free_no_access (T : Table) (f : Nat) (h : ControllerFree T f) {tr : List Ev}
    (hc : Conforms T tr) (pre post : List Ev) (o : Obj) (w s : Bool) :
    tr ≠ pre ++ Ev.acc .controller (o, f) w s :: post :=
  BFL.Race.controller_free_no_access T f h hc pre post o w s

/-- For every table and every certified controller reach set: if the model-state pseudo-members are
    *confined* (`modelConfinedIn`: they exist, the filtering role writes them, no controller-reachable
    function has a row for them), the controller thread never accesses them in a conforming interleaving —
    no control command calls into the user's measurement model, likelihood model or particle initialisation.
    Confinement is **stronger than the property** (a command may legitimately call `freeze()` under a mutex the
    filtering thread also takes): whether the current table is confined is *not* an obligation; it is evaluated
    in `BFL/Props/C10Confine.lean`, built separately, and only recorded in the evidence (`confinement_lost`).
    What decides is the lockset discipline over the pseudo-members (`table_disciplined`, `race_free`). -/
theorem model_confined (T : Table) (SC SF : Nat) (hC : ReachCert T .controller SC)
    (h : T.modelConfinedIn SC SF = true) (f : Nat) (hf : f ∈ T.fieldIds modelStateFields) {tr : List Ev}
    (hc : Conforms T tr) (pre post : List Ev) (o : Obj) (w s : Bool) :
    tr ≠ pre ++ Ev.acc .controller (o, f) w s :: post := by
  unfold Table.modelConfinedIn at h
  simp only [Bool.and_eq_true, List.all_eq_true] at h
  exact BFL.Race.controller_free_no_access T f
    (controllerFree_of_cert hC f (h.2 f hf).1) hc pre post o w s

/-- The same for the hooks of the user's filter (`initialization_step`, `filtering_step`, `run_condition`,
    `log` and their overriders): for every table in which `user::hook_state` is confined, the controller
    thread never touches the state behind the hooks. -/
theorem hooks_confined (T : Table) (SC SF : Nat) (hC : ReachCert T .controller SC)
    (h : T.confinedIn hookStateFields SC SF = true) (f : Nat) (hf : f ∈ T.fieldIds hookStateFields) {tr : List Ev}
    (hc : Conforms T tr) (pre post : List Ev) (o : Obj) (w s : Bool) :
    tr ≠ pre ++ Ev.acc .controller (o, f) w s :: post := by
  unfold Table.confinedIn at h
  simp only [Bool.and_eq_true, List.all_eq_true] at h
  exact BFL.Race.controller_free_no_access T f
    (controllerFree_of_cert hC f (h.2 f hf).1) hc pre post o w s

/-- **must hold — the join is certified from the table**: the filtering thread performs no operation on
    a thread handle; the controller spawns only in `boot()`, joins only in `wait()`, and otherwise only
    asks `joinable()` / queries — no function of either role detaches, moves, swaps or reassigns the
    handle; `wait()` does contain the `join()`; every access row to the handle lies in `boot()`/`wait()`. -/
theorem table_join_certified :
    table.joinCertifiedIn (reachClaim .controller) (reachClaim .filter) = true :=
  join_certified

/-- Consequence for the handle (state machine `hstep`): whatever thread-handle operations the functions
    reachable by the controller perform after `boot()` has spawned the thread, the handle is never lost
    (detached / moved / overwritten while the thread may be alive), and once a `join` has been executed
    — `wait()` contains one — the filtering thread is joined.  This discharges, from the table, the
    hypothesis of `race_free_program` that nothing of the filtering thread follows the join. -/
theorem handle_joined (ops : List ThreadOpKind)
    (hops : ∀ k ∈ ops, k ≠ .spawn ∧ ∃ o ∈ table.threadOps, (reachClaim .controller).testBit o.meth = true ∧ o.kind = k) :
    hrun .running ops ≠ .lost ∧ (ThreadOpKind.join ∈ ops → hrun .running ops = .joined) := by
  apply hrun_benign
  intro k hk
  obtain ⟨hne, o, ho, hreach, rfl⟩ := hops k hk
  rcases (joinCertified_ops table _ _ join_certified).2.1 o ho hreach with ⟨hs, _⟩ | hb
  · exact absurd hs hne
  · exact hb

/-- **must hold**: every data member of `FilteringAlgorithm` (run_, reset_, teardown_,
    filtering_step_, the mutex, the condition variable, the thread handle) obeys the discipline -/
theorem table_disciplined_lifecycle :
    ∀ f ∈ table.fieldsOfClass lifecycleClass, FieldOK table f := by
  intro f hf
  apply Classical.byContradiction
  intro h
  exact claimed_not_lifecycle f ((not_fieldOK_iff f).1 h) hf

/-- **must hold**: every data member of every library class (and every datum with static storage)
    obeys the discipline — a new undisciplined member breaks this obligation -/
theorem table_disciplined : ∀ f, FieldOK table f := by
  intro f
  apply Classical.byContradiction
  intro h
  have := (not_fieldOK_iff f).1 h
  rw [claimed_empty] at this
  cases this

/-- the members violating the discipline are exactly those the regenerated file lists -/
theorem table_undisciplined_exact (f : Nat) : ¬ FieldOK table f ↔ f ∈ claimedUndisciplined :=
  not_fieldOK_iff f

/-- no interleaving races on a member of `FilteringAlgorithm` -/
theorem race_free_lifecycle {tr : List Ev} (hwf : WF tr) (hc : Conforms table tr) :
    ∀ f ∈ table.fieldsOfClass lifecycleClass, ¬ RaceOnField f tr :=
  fun f hf => Race.lockset_sound table f (table_disciplined_lifecycle f hf) hwf hc

/-- whole-program form: whatever the controller does before `boot()` creates the thread and after
    `wait()` has joined it, no execution races on a member of `FilteringAlgorithm` -/
theorem race_free_program_lifecycle (pre mid post : List Ev) (hpre : ∀ e ∈ pre, e.tid = .controller)
    (hpost : ∀ e ∈ post, e.tid = .controller) (hwf : WF mid) (hc : Conforms table mid) :
    ∀ f ∈ table.fieldsOfClass lifecycleClass, ¬ PRaceOnField f (program pre mid post) :=
  fun f hf => Race.lockset_sound_program table f (table_disciplined_lifecycle f hf) pre mid post hpre hpost hwf hc

/-- whole-program form of `race_free`: whatever the controller does before `boot()` creates the
    thread and after `wait()` has joined it, no execution has a data race on any member -/
theorem race_free_program (pre mid post : List Ev) (hpre : ∀ e ∈ pre, e.tid = .controller)
    (hpost : ∀ e ∈ post, e.tid = .controller) (hwf : WF mid) (hc : Conforms table mid) (f : Nat) :
    ¬ PRaceOnField f (program pre mid post) :=
  Race.lockset_sound_program table f (table_disciplined f) pre mid post hpre hpost hwf hc

/-- the lifecycle statement for RAII-structured threads (no `Conforms` hypothesis) -/
theorem race_free_lifecycle_scoped {tr : List Ev} (hwf : WF tr) (hs : ∀ t, Scoped table t [] (proj t tr)) :
    ∀ f ∈ table.fieldsOfClass lifecycleClass, ¬ RaceOnField f tr :=
  race_free_lifecycle hwf (Race.conforms_of_scoped table tr hs)

/-- **C10, full strength**: no well-formed interleaving of the controller thread and the filtering
    thread that conforms to the table of the current tree contains a data race -/
theorem race_free : RaceFree table :=
  (Race.raceFree_iff table).2 table_disciplined

/-- the same for RAII-structured threads (no `Conforms` hypothesis) -/
theorem race_free_scoped {tr : List Ev} (hwf : WF tr) (hs : ∀ t, Scoped table t [] (proj t tr)) : ¬ Race tr :=
  race_free tr hwf (Race.conforms_of_scoped table tr hs)

/-- a member races in some interleaving exactly when it is in the certified list -/
theorem race_witness_exact (f : Nat) :
    (∃ tr, WF tr ∧ Conforms table tr ∧ RaceOnField f tr) ↔ f ∈ claimedUndisciplined := by
  rw [← table_undisciplined_exact, fieldOK_iff_raceFreeOn]
  constructor
  · rintro ⟨tr, h1, h2, h3⟩ h; exact h tr h1 h2 h3
  · intro h
    apply Classical.byContradiction
    intro hn
    apply h
    intro tr h1 h2 h3
    exact hn ⟨tr, h1, h2, h3⟩

/-- **full-strength statement of C10** and its exact status: the library is race free under the
    control interface iff the regenerated table has no undisciplined member -/
theorem race_free_iff : RaceFree table ↔ claimedUndisciplined = [] := by
  rw [Race.raceFree_iff]
  constructor
  · intro h
    cases hc : claimedUndisciplined with
    | nil => rfl
    | cons x xs =>
      have : x ∈ claimedUndisciplined := by rw [hc]; exact List.mem_cons_self ..
      exact absurd (h x) ((table_undisciplined_exact x).2 this)
  · intro h f
    apply Classical.byContradiction
    intro hn
    have := (table_undisciplined_exact f).1 hn
    rw [h] at this
    cases this

/-! ### non-vacuity: a concrete table and interleaving satisfying every hypothesis -/

/-- toy class: `run()` writes a plain member under the mutex, `filtering_recursion()` reads it under
    the same mutex; a second plain member is read by both without any lock (read/read) and a third is
    written by `run()` and read by the recursion with no lock at all -/
def toy : Table :=
  { fields := [⟨name% "FilteringAlgorithm", name% "guarded_", .plain⟩, ⟨name% "FilteringAlgorithm", name% "mtx_", .mutex⟩,
               ⟨name% "FilteringAlgorithm", name% "config_", .plain⟩, ⟨name% "FilteringAlgorithm", name% "racy_", .plain⟩],
    methods := [⟨name% "FilteringAlgorithm::run", 0, false, true⟩, ⟨name% "FilteringAlgorithm::filtering_recursion", 0, false, true⟩],
    accesses := [⟨0, 0, .write, true, [1], 10⟩, ⟨1, 0, .read, true, [1], 20⟩, ⟨0, 2, .read, true, [], 11⟩, ⟨1, 2, .read, true, [], 21⟩,
                 ⟨0, 3, .write, true, [], 12⟩, ⟨1, 3, .read, true, [1], 22⟩],
    calls := [], threadOps := [] }

/-- controller: lock, write, unlock; then the filtering thread: lock, read, unlock -/
def toyTrace : List Ev :=
  [.lock .controller (0, 1), .acc .controller (0, 0) true false, .unlock .controller (0, 1),
   .lock .filter (0, 1), .acc .filter (0, 0) false false, .unlock .filter (0, 1)]

theorem toy_reach_run : Reach toy (toy.rootIds .controller) 0 := Reach.root (by decide)
theorem toy_reach_rec : Reach toy (toy.rootIds .filter) 1 := Reach.root (by decide)

/-- the hypotheses of `lockset_sound` are satisfiable by a non-trivial interleaving with accesses of
    both threads to the same location -/
example : WF toyTrace ∧ Conforms toy toyTrace ∧ FieldOK toy 0 := by
  have cC : ReachCert toy .controller (toy.reach .controller) := ⟨rfl, by decide, by decide⟩
  have cF : ReachCert toy .filter (toy.reach .filter) := ⟨rfl, by decide, by decide⟩
  refine ⟨?_, ?_, (fieldOK_iff_of_cert cC cF 0).1 (by decide)⟩
  · have h0 : WF [] := WF.nil
    have h1 := WF.snoc h0 (e := .lock .controller (0, 1)) (by simp [okEv, holders])
    have h2 := WF.snoc h1 (e := .acc .controller (0, 0) true false) trivial
    have h3 := WF.snoc h2 (e := .unlock .controller (0, 1)) (by simp [okEv, holders, applyEv])
    have h4 := WF.snoc h3 (e := .lock .filter (0, 1)) (by simp [okEv, holders, applyEv])
    have h5 := WF.snoc h4 (e := .acc .filter (0, 0) false false) trivial
    exact WF.snoc h5 (e := .unlock .filter (0, 1)) (by simp [okEv, holders, applyEv])
  · have h0 := conforms_nil toy
    have h1 := conforms_snoc h0 (e := .lock .controller (0, 1)) trivial
    have h2 := conforms_snoc h1 (e := .acc .controller (0, 0) true false)
      ⟨⟨0, 0, .write, true, [1], 10⟩, by simp [toy], toy_reach_run, rfl, rfl, rfl, by simp [held, applyHeld]⟩
    have h3 := conforms_snoc h2 (e := .unlock .controller (0, 1)) trivial
    have h4 := conforms_snoc h3 (e := .lock .filter (0, 1)) trivial
    have h5 := conforms_snoc h4 (e := .acc .filter (0, 0) false false)
      ⟨⟨1, 0, .read, true, [1], 20⟩, by simp [toy], toy_reach_rec, rfl, rfl, rfl, by simp [held, applyHeld]⟩
    exact conforms_snoc h5 (e := .unlock .filter (0, 1)) trivial

/-- the toy interleaving is RAII-structured thread by thread (hypothesis of `conforms_of_scoped`) -/
example : ∀ t, Scoped toy t [] (proj t toyTrace) := by
  intro t
  cases t
  · show Scoped toy .controller [] (Ev.lock .controller (0, 1) :: [Ev.acc .controller (0, 0) true false] ++ [Ev.unlock .controller (0, 1)])
    exact Scoped.scope (0, 1) (by simp)
      (Scoped.acc ⟨0, 0, .write, true, [1], 10⟩ 0 (by simp [toy]) toy_reach_run (by simp))
  · show Scoped toy .filter [] (Ev.lock .filter (0, 1) :: [Ev.acc .filter (0, 0) false false] ++ [Ev.unlock .filter (0, 1)])
    exact Scoped.scope (0, 1) (by simp)
      (Scoped.acc ⟨1, 0, .read, true, [1], 20⟩ 0 (by simp [toy]) toy_reach_rec (by simp))

/-- both polarities of the decision on the toy table: guarded and read-only members are disciplined,
    the member locked on one side only is not, and it does race -/
example : toy.undisciplined = [3] := by decide

example : ∃ tr, WF tr ∧ Conforms toy tr ∧ RaceOnField 3 tr := by
  have cC : ReachCert toy .controller (toy.reach .controller) := ⟨rfl, by decide, by decide⟩
  have cF : ReachCert toy .filter (toy.reach .filter) := ⟨rfl, by decide, by decide⟩
  exact Race.lockset_complete toy 3 (fun h => by
    have := (fieldOK_iff_of_cert cC cF 3).2 h
    revert this; decide)

end BFL.C10
