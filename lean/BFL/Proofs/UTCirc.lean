import BFL.Model.UT
import BFL.Bridge.Mat
import BFL.Bridge.Transc
import BFL.Proofs.UTAlg
import Mathlib.Analysis.SpecialFunctions.Complex.Arg
import Mathlib.Analysis.SpecialFunctions.Trigonometric.Inverse
import Mathlib.Analysis.SpecialFunctions.Trigonometric.Bounds
import Mathlib.Tactic.Linarith
import Mathlib.Tactic.FieldSimp
import Mathlib.Tactic.NormNum
/-
Real-number facts about the circular kernels of the unscented transform
(`wrapAngle`, `dirAdd`, `dirSub`, `dirMean`, quaternion exp / log / product), helper lemmas for the
circular part of `BFL/Props/C03.lean`.
-/
namespace BFL
open Real

theorem wrapAngle_eq_arg (x : ℝ) :
    wrapAngle x = Complex.arg (Complex.cos x + Complex.sin x * Complex.I) := by
  simp only [wrapAngle, transc_atan2, transc_sin, transc_cos]
  rw [Complex.mk_eq_add_mul_I, Complex.ofReal_cos, Complex.ofReal_sin]

/-- an angle already in `(-π, π]` is its own representative -/
theorem wrapAngle_of_mem {x : ℝ} (hx : x ∈ Set.Ioc (-π) π) : wrapAngle x = x := by
  rw [wrapAngle_eq_arg, Complex.arg_cos_add_sin_mul_I hx]

theorem wrapAngle_mem (x : ℝ) : wrapAngle x ∈ Set.Ioc (-π) π := by
  rw [wrapAngle_eq_arg]; exact Complex.arg_mem_Ioc _

theorem sin_wrapAngle (x : ℝ) : Real.sin (wrapAngle x) = Real.sin x := by
  rw [wrapAngle_eq_arg, Complex.sin_arg, Complex.norm_cos_add_sin_mul_I, div_one]
  simp [← Complex.ofReal_cos, ← Complex.ofReal_sin]

theorem cos_wrapAngle (x : ℝ) : Real.cos (wrapAngle x) = Real.cos x := by
  have hne : (Complex.cos x + Complex.sin x * Complex.I) ≠ 0 := by
    intro h
    have := Complex.norm_cos_add_sin_mul_I x
    rw [h, norm_zero] at this
    exact zero_ne_one this
  rw [wrapAngle_eq_arg, Complex.cos_arg hne, Complex.norm_cos_add_sin_mul_I, div_one]
  simp [← Complex.ofReal_cos, ← Complex.ofReal_sin]

theorem wrapAngle_congr {a b : ℝ} (hs : Real.sin a = Real.sin b) (hc : Real.cos a = Real.cos b) :
    wrapAngle a = wrapAngle b := by
  simp only [wrapAngle, transc_sin, transc_cos, hs, hc]

/-- wrapping an intermediate result does not change the final representative -/
theorem wrapAngle_wrap_add (a b : ℝ) : wrapAngle (wrapAngle a + b) = wrapAngle (a + b) := by
  apply wrapAngle_congr
  · rw [Real.sin_add, Real.sin_add, sin_wrapAngle, cos_wrapAngle]
  · rw [Real.cos_add, Real.cos_add, sin_wrapAngle, cos_wrapAngle]

theorem wrapAngle_add_neg_wrap (a b : ℝ) : wrapAngle (a + -wrapAngle b) = wrapAngle (a + -b) := by
  apply wrapAngle_congr
  · rw [Real.sin_add, Real.sin_add, Real.sin_neg, Real.cos_neg, Real.sin_neg, Real.cos_neg,
      sin_wrapAngle, cos_wrapAngle]
  · rw [Real.cos_add, Real.cos_add, Real.sin_neg, Real.cos_neg, Real.sin_neg, Real.cos_neg,
      sin_wrapAngle, cos_wrapAngle]

/-- `directional_sub(directional_add(p, m), m) = p` for `p ∈ (-π, π]` -/
theorem dir_roundtrip (p m : ℝ) (hp : p ∈ Set.Ioc (-π) π) : dirSub (dirAdd p m) m = p := by
  unfold dirSub dirAdd
  rw [wrapAngle_wrap_add, add_neg_cancel_right, wrapAngle_of_mem hp]

/-- offset of a point `ȳ + δ` from the wrapped mean: `δ`, for `δ ∈ (-π, π]` -/
theorem dirSub_wrapped_mean (ybar δ : ℝ) (hδ : δ ∈ Set.Ioc (-π) π) :
    dirSub (ybar + δ) (wrapAngle ybar) = δ := by
  unfold dirSub
  rw [wrapAngle_add_neg_wrap]
  have : ybar + δ + -ybar = δ := by ring
  rw [this, wrapAngle_of_mem hδ]

/-- `atan2 (R sin θ) (R cos θ) = wrapAngle θ` for a positive resultant `R` -/
theorem atan2_pos_mul (R θ : ℝ) (hR : 0 < R) :
    (Transc.atan2 (R * Real.sin θ) (R * Real.cos θ) : ℝ) = wrapAngle θ := by
  rw [wrapAngle_eq_arg, transc_atan2, Complex.mk_eq_add_mul_I]
  have : ((R * Real.cos θ : ℝ) : ℂ) + ((R * Real.sin θ : ℝ) : ℂ) * Complex.I
      = (R : ℂ) * (Complex.cos θ + Complex.sin θ * Complex.I) := by
    push_cast; ring
  rw [this, Complex.arg_real_mul _ hR]

section mean
open UTProofs
variable {n : ℕ}

/-- symmetric set of angles `[ȳ, ȳ + δ_1 …, ȳ − δ_1 …]` in the code's column order -/
noncomputable def symAngles (ybar : ℝ) (δ : Fin n → ℝ) : Vec ℝ (2 * n + 1) :=
  Vec.of (fun j =>
    if _h0 : j.val = 0 then ybar
    else if h1 : j.val ≤ n then ybar + δ ⟨j.val - 1, by omega⟩
    else ybar - δ ⟨j.val - 1 - n, by have := j.isLt; omega⟩)

/-- weighted circular mean of a symmetric set of angles: the centre (wrapped), provided the
    weighted resultant `w0 + 2 w Σ cos δ_l` is positive -/
theorem dirMean_symmetric (hn : 1 ≤ n) (ybar : ℝ) (δ : Fin n → ℝ) (w0 w : ℝ)
    (wm : Vec ℝ (2 * n + 1)) (hwm : toV wm = wv w0 w)
    (hR : 0 < w0 + 2 * w * ∑ l, Real.cos (δ l)) :
    dirMean (symAngles ybar δ) wm = wrapAngle ybar := by
  have hN : ¬ (2 * n + 1 = 1) := by omega
  have hw : ∀ j, wm j = wv (n := n) w0 w j := fun j => congrFun hwm j
  unfold dirMean
  rw [dif_neg hN, fsum_eq_sum, fsum_eq_sum]
  simp only [transc_sin, transc_cos]
  have hs : ∑ k, Real.sin ((symAngles ybar δ) k) * wm k
      = (w0 + 2 * w * ∑ l, Real.cos (δ l)) * Real.sin ybar := by
    rw [sum_split]
    simp only [hw, wv_zero, wv_plus, wv_minus]
    have e0 : (symAngles ybar δ) ⟨0, by omega⟩ = ybar := by simp [symAngles]
    have e1 : ∀ l : Fin n, (symAngles ybar δ) ⟨l.val + 1, by omega⟩ = ybar + δ l := by
      intro l; simp [symAngles, show l.val + 1 ≤ n from by omega]
    have e2 : ∀ l : Fin n, (symAngles ybar δ) ⟨l.val + 1 + n, by omega⟩ = ybar - δ l := by
      intro l
      have : ¬ (l.val + 1 + n ≤ n) := by omega
      simp [symAngles, this]
    simp only [e0, e1, e2, Real.sin_add, Real.sin_sub]
    rw [add_assoc, ← Finset.sum_add_distrib, Finset.mul_sum, add_mul, Finset.sum_mul]
    congr 1
    · ring
    · apply Finset.sum_congr rfl; intro l _; ring
  have hc : ∑ k, Real.cos ((symAngles ybar δ) k) * wm k
      = (w0 + 2 * w * ∑ l, Real.cos (δ l)) * Real.cos ybar := by
    rw [sum_split]
    simp only [hw, wv_zero, wv_plus, wv_minus]
    have e0 : (symAngles ybar δ) ⟨0, by omega⟩ = ybar := by simp [symAngles]
    have e1 : ∀ l : Fin n, (symAngles ybar δ) ⟨l.val + 1, by omega⟩ = ybar + δ l := by
      intro l; simp [symAngles, show l.val + 1 ≤ n from by omega]
    have e2 : ∀ l : Fin n, (symAngles ybar δ) ⟨l.val + 1 + n, by omega⟩ = ybar - δ l := by
      intro l
      have : ¬ (l.val + 1 + n ≤ n) := by omega
      simp [symAngles, this]
    simp only [e0, e1, e2, Real.cos_add, Real.cos_sub]
    rw [add_assoc, ← Finset.sum_add_distrib, Finset.mul_sum, add_mul, Finset.sum_mul]
    congr 1
    · ring
    · apply Finset.sum_congr rfl; intro l _; ring
  rw [hs, hc]
  exact atan2_pos_mul _ _ hR

end mean

/-! ### Quaternions -/

section quat

@[ext] theorem Quat.ext' {a b : Quat ℝ} (hw : a.w = b.w) (hx : a.x = b.x) (hy : a.y = b.y) (hz : a.z = b.z) :
    a = b := by
  cases a; cases b; simp_all

@[ext] theorem V3.ext' {a b : V3 ℝ} (hx : a.x = b.x) (hy : a.y = b.y) (hz : a.z = b.z) : a = b := by
  cases a; cases b; simp_all

theorem qmul_assoc (a b c : Quat ℝ) : qmul (qmul a b) c = qmul a (qmul b c) := by
  ext <;> simp only [qmul] <;> ring

/-- `q ⊗ q* = 1` for a unit quaternion -/
theorem qmul_qconj_self (q : Quat ℝ) (hq : q.w ^ 2 + q.x ^ 2 + q.y ^ 2 + q.z ^ 2 = 1) :
    qmul q (qconj q) = ⟨1, 0, 0, 0⟩ := by
  ext <;> simp only [qmul, qconj]
  · linear_combination hq
  · ring
  · ring
  · ring

theorem qmul_one (q : Quat ℝ) : qmul q ⟨1, 0, 0, 0⟩ = q := by
  ext <;> simp [qmul]

theorem V3.norm_eq (r : V3 ℝ) : r.norm = Real.sqrt (r.x ^ 2 + r.y ^ 2 + r.z ^ 2) := by
  simp only [V3.norm, transc_sqrt]; congr 1; ring

theorem V3.norm_sq (r : V3 ℝ) : r.norm ^ 2 = r.x ^ 2 + r.y ^ 2 + r.z ^ 2 := by
  rw [V3.norm_eq, Real.sq_sqrt]; positivity

theorem V3.norm_nonneg (r : V3 ℝ) : 0 ≤ r.norm := by
  rw [V3.norm_eq]; exact Real.sqrt_nonneg _

theorem two_lit : (2.0 : ℝ) = 2 := by norm_num

/-- the quaternion exponential is a unit quaternion (both branches) -/
theorem qexp_unit (r : V3 ℝ) :
    (qexp r).w ^ 2 + (qexp r).x ^ 2 + (qexp r).y ^ 2 + (qexp r).z ^ 2 = 1 := by
  unfold qexp
  simp only [transc_sin, transc_cos, two_lit]
  split
  · rename_i h
    have hn : 0 < r.norm := lt_trans (by norm_num) h
    have hsq := V3.norm_sq r
    have hne : r.norm ≠ 0 := hn.ne'
    have e : (Real.sin (r.norm / 2) * r.x / r.norm) ^ 2 + (Real.sin (r.norm / 2) * r.y / r.norm) ^ 2
        + (Real.sin (r.norm / 2) * r.z / r.norm) ^ 2 = Real.sin (r.norm / 2) ^ 2 := by
      field_simp
      rw [← hsq]; ring
    nlinarith [Real.sin_sq_add_cos_sq (r.norm / 2)]
  · norm_num

/-- vector part of a scaled vector -/
theorem norm_scaled (s : ℝ) (hs : 0 ≤ s) (r : V3 ℝ) :
    (V3.mk (s * r.x) (s * r.y) (s * r.z)).norm = s * r.norm := by
  rw [V3.norm_eq, V3.norm_eq]
  have : (s * r.x) ^ 2 + (s * r.y) ^ 2 + (s * r.z) ^ 2 = s ^ 2 * (r.x ^ 2 + r.y ^ 2 + r.z ^ 2) := by ring
  rw [this, Real.sqrt_mul (sq_nonneg s), Real.sqrt_sq hs]

/-- `log ∘ exp = id` on rotation vectors with `10⁻⁴ < ‖r‖ < π` whose half-angle sine clears the
    cut-off of the logarithm (`sin(‖r‖/2) > 5·10⁻⁵`) -/
theorem qlog_qexp (r : V3 ℝ) (h1 : (1e-4 : ℝ) < r.norm) (h2 : r.norm < π)
    (h3 : (5e-5 : ℝ) < Real.sin (r.norm / 2)) : qlog (qexp r) = r := by
  have hn : 0 < r.norm := lt_trans (by norm_num) h1
  have hne : r.norm ≠ 0 := hn.ne'
  have hhalf0 : 0 < r.norm / 2 := by linarith
  have hhalfπ : r.norm / 2 < π / 2 := by linarith
  have hs : 0 < Real.sin (r.norm / 2) := lt_trans (by norm_num) h3
  have hc : 0 < Real.cos (r.norm / 2) := Real.cos_pos_of_mem_Ioo ⟨by linarith, hhalfπ⟩
  have hsn : 0 ≤ Real.sin (r.norm / 2) / r.norm := by positivity
  have hq : qexp r = ⟨Real.cos (r.norm / 2), Real.sin (r.norm / 2) / r.norm * r.x,
      Real.sin (r.norm / 2) / r.norm * r.y, Real.sin (r.norm / 2) / r.norm * r.z⟩ := by
    unfold qexp
    simp only [transc_sin, transc_cos, two_lit, if_pos h1]
    ext <;> simp only <;> ring
  rw [hq]
  unfold qlog
  simp only [transc_acos, two_lit]
  rw [norm_scaled _ hsn r]
  have hnn : Real.sin (r.norm / 2) / r.norm * r.norm = Real.sin (r.norm / 2) := by field_simp
  rw [hnn, if_pos h3, if_neg (by linarith)]
  rw [Real.arccos_cos hhalf0.le (by linarith [Real.pi_pos])]
  have hs' : Real.sin (r.norm / 2) ≠ 0 := hs.ne'
  ext <;> simp only <;> field_simp

/-- the input offsets of the quaternion sigma points are the perturbations they were built from:
    `diff_quaternion(sum_quaternion_rotation_vector(q, r), q) = r` -/
theorem qdiff_qsum (q : Quat ℝ) (hq : q.w ^ 2 + q.x ^ 2 + q.y ^ 2 + q.z ^ 2 = 1) (r : V3 ℝ)
    (h1 : (1e-4 : ℝ) < r.norm) (h2 : r.norm < π) (h3 : (5e-5 : ℝ) < Real.sin (r.norm / 2)) :
    qdiff (qsum q r) q = r := by
  unfold qdiff qsum
  rw [qmul_assoc, qmul_qconj_self q hq, qmul_one, qlog_qexp r h1 h2 h3]

/-- a zero perturbation (first column, and every direction the covariance does not excite) leaves the
    mean quaternion and has zero offset -/
theorem qsum_zero (q : Quat ℝ) : qsum q ⟨0, 0, 0⟩ = q := by
  have : qexp (⟨0, 0, 0⟩ : V3 ℝ) = ⟨1, 0, 0, 0⟩ := by
    unfold qexp
    have : (V3.mk (0 : ℝ) 0 0).norm = 0 := by simp [V3.norm_eq]
    rw [this]; norm_num
  unfold qsum
  rw [this]; ext <;> simp [qmul]

end quat
end BFL
