import BFL.Core.Transc
import BFL.Model.History
/-
Model of `bfl::EstimatesExtraction` (EstimatesExtraction.h/.cpp), of `utils::log_sum_exp` (utils.h) and
of the few lines of `directional_statistics::directional_mean` it uses — as the code is now, branch
by branch.  Polymorphic in the scalar `α`: `Float` in the driver, `ℝ` in the theorems.

Data layout.  A particle / an estimate is a `List α` (a column of `state_size_` rows: `lin` linear
rows followed by `circ` circular rows); a particle set is the list of its columns; the transition
matrix is the list of its rows (`tp[i][j]` = probability of particle `i` now given particle `j`
before).  Log-weights are lists.

No Mathlib: this file is linked into the driver.
-/
namespace BFL
namespace Extract

section kernels
variable {α : Type} [Add α] [Sub α] [Mul α] [Div α] [Neg α] [Zero α] [LT α] [DecidableLT α]
  [NatCast α] [Transc α]

/-- left-to-right sum (what an Eigen product / `.sum()` computes up to rounding order) -/
def lsum (l : List α) : α := l.foldl (· + ·) 0

/-- value returned by Eigen's `maxCoeff()` on a non-empty vector: the first coefficient, replaced
    whenever a later one is strictly greater -/
def maxOf : List α → α
  | [] => 0
  | x :: xs => xs.foldl (fun m y => if m < y then y else m) x

/-- index returned by Eigen's `maxCoeff(&index)`: the *first* maximal coefficient
    (`best`/`bi`: current maximum and its index, `i`: index of the head of the list) -/
def argmaxAux (best : α) (bi i : Nat) : List α → Nat
  | [] => bi
  | x :: xs => if best < x then argmaxAux x i (i + 1) xs else argmaxAux best bi (i + 1) xs

def argmaxFirst : List α → Nat
  | [] => 0
  | x :: xs => argmaxAux x 0 1 xs

/-- `utils::log_sum_exp`: `max + log(sum(exp(data - max)))` -/
def logSumExp (l : List α) : α :=
  let m := maxOf l
  m + Transc.log (lsum (l.map fun x => Transc.exp (x - m)))

/-- row `r` of a matrix given by its columns -/
def rowOf (cols : List (List α)) (r : Nat) : List α := cols.map fun p => p.getD r 0

/-- one linear row of `particles.topRows(lin) * exp(weights)`: `Σ_j x_j e_j` -/
def linMean (xs ex : List α) : α := lsum (List.zipWith (fun x e => x * e) xs ex)

/-- one row of `directional_statistics::directional_mean(a, w)` (after fix e5e0548):
    a single column is returned wrapped, `arg(e^{j a}) = atan2(sin a, cos a)`, the weight being ignored;
    otherwise `arg(Σ_k w_k e^{j a_k}) = atan2(Σ_k sin(a_k) w_k, Σ_k cos(a_k) w_k)`. -/
def dirMean (xs ex : List α) : α :=
  match xs with
  | [x] => Transc.atan2 (Transc.sin x) (Transc.cos x)
  | _ => Transc.atan2 (lsum (List.zipWith (fun x e => Transc.sin x * e) xs ex))
                      (lsum (List.zipWith (fun x e => Transc.cos x * e) xs ex))

/-- the body of `mean` once the weights are exponentiated (`ex = exp(weights)`; a log-weight `-inf`
    gives the weight 0) -/
def meanEstE (lin circ : Nat) (cols : List (List α)) (ex : List α) : List α :=
  (if lin > 0 then (List.range lin).map (fun r => linMean (rowOf cols r) ex) else []) ++
  (if circ > 0 then (List.range circ).map (fun r => dirMean (rowOf cols (lin + r)) ex) else [])

/-- `EstimatesExtraction::mean(particles, weights)` with `weights` in the log domain:
    linear rows `particles.topRows(lin) * exp(weights)` (only `if (linear_size_ > 0)`),
    circular rows `directional_mean(particles.bottomRows(circ), exp(weights))` (only `if (circular_size_ > 0)`). -/
def meanEst (lin circ : Nat) (cols : List (List α)) (ws : List α) : List α :=
  meanEstE lin circ cols (ws.map Transc.exp)

/-- `EstimatesExtraction::mode`: the column at the first maximal log-weight -/
def modeEst {β : Type} (cols : List (List β)) (ws : List α) : List β :=
  cols.getD (argmaxFirst ws) []

/-- the vector `values` of `EstimatesExtraction::map`:
    `values(i) = log(lik(i) + eps) + log_sum_exp(log(tp.row(i) + eps) + previous_weights)` -/
def mapValues (eps : α) (pw lik : List α) (tp : List (List α)) : List α :=
  List.zipWith (fun l row =>
    Transc.log (l + eps) + logSumExp (List.zipWith (fun t w => Transc.log (t + eps) + w) row pw)) lik tp

/-- `EstimatesExtraction::map`: the column at the first maximal entry of `values` -/
def mapEst (eps : α) (cols : List (List α)) (pw lik : List α) (tp : List (List α)) : List α :=
  cols.getD (argmaxFirst (mapValues eps pw lik tp)) []

/-- `sm_weights_ = VectorXd::Constant(k, -log(k))` -/
def smWeights (k : Nat) : List α := List.replicate k (-(Transc.log (k : α)))

/-- `wm_weights_(i) = log(k - i)`, then `-= log_sum_exp(wm_weights_)` -/
def wmWeights (k : Nat) : List α :=
  let raw : List α := (List.range k).map fun i => Transc.log (((k - i : Nat) : α))
  let z := logSumExp raw
  raw.map fun x => x - z

/-- `em_weights_(i) = -(double(i) / k)`, then `-= log_sum_exp(em_weights_)` -/
def emWeights (k : Nat) : List α :=
  let raw : List α := (List.range k).map fun i => -(((i : Nat) : α) / (k : α))
  let z := logSumExp raw
  raw.map fun x => x - z

end kernels

/-- `EstimatesExtraction::ExtractionMethod` -/
inductive Method
  | mean | smean | wmean | emean
  | mode | smode | wmode | emode
  | map | smap | wmap | emap
  deriving DecidableEq, Repr, Inhabited

/-- `EstimatesExtraction::Statistics` -/
inductive Stat
  | mean | mode | map
  deriving DecidableEq, Repr

/-- which of `simpleAverage` / `weightedAverage` / `exponentialAverage` -/
inductive Fam
  | simple | weighted | exponential
  deriving DecidableEq, Repr

def Method.stat : Method → Stat
  | .mean | .smean | .wmean | .emean => .mean
  | .mode | .smode | .wmode | .emode => .mode
  | .map | .smap | .wmap | .emap => .map

def Method.fam : Method → Option Fam
  | .mean | .mode | .map => none
  | .smean | .smode | .smap => some .simple
  | .wmean | .wmode | .wmap => some .weighted
  | .emean | .emode | .emap => some .exponential

/-- State of an `EstimatesExtraction` object. -/
structure EE (α : Type) where
  /-- `extraction_method_` (default `emode`) -/
  method : Method
  /-- `hist_buffer_`: one buffer shared by the three windowed families -/
  hist : HistBuf (List α)
  /-- cached log-weight vectors, recomputed only when their size differs from the history size -/
  smW : List α
  wmW : List α
  emW : List α
  /-- `linear_size_`, `circular_size_` -/
  lin : Nat
  circ : Nat

/-- the constructors: `EstimatesExtraction(lin)` = `EstimatesExtraction(lin, 0)` -/
def EE.init {α : Type} (lin circ : Nat) : EE α :=
  { method := .emode, hist := HistBuf.init, smW := [], wmW := [], emW := [], lin := lin, circ := circ }

/-- Arguments of an `extract` call.  The two-argument overload passes empty `pw`, `lik`, `tp`. -/
structure Args (α : Type) where
  ps : List (List α)
  ws : List α
  pw : List α := []
  lik : List α := []
  tp : List (List α) := []

/-- The calls of the public interface. -/
inductive Call (α : Type)
  | setMethod (m : Method)
  /-- `setMobileAverageWindowSize(int)` -/
  | setWindow (n : Int)
  | clear
  /-- `extract(particles, weights)` -/
  | extract2 (a : Args α)
  /-- `extract(particles, weights, previous_weights, likelihoods, transition_probabilities)` -/
  | extract5 (a : Args α)
  /-- move-construct a new object from this one and go on with the new one -/
  | move

/-- What a call returns: the flag, and the estimate (`none`: the call returns no vector, or — two-argument
    `extract` under a map method — a vector whose content is unspecified). -/
structure Out (α : Type) where
  flag : Bool
  est : Option (List α)

section machine
variable {α : Type} [Add α] [Sub α] [Mul α] [Div α] [Neg α] [Zero α] [LT α] [DecidableLT α]
  [NatCast α] [Transc α]

/-- the base estimate `cur_estimates` computed at the top of the three averaging functions
    (and the whole result of the unwindowed methods) -/
def baseEst (eps : α) (lin circ : Nat) (st : Stat) (a : Args α) : List α :=
  match st with
  | .mean => meanEst lin circ a.ps a.ws
  | .mode => modeEst a.ps a.ws
  | .map => mapEst eps a.ps a.pw a.lik a.tp

/-- the freshly computed weight vector of a family for history length `k` -/
def famWeights (f : Fam) (k : Nat) : List α :=
  match f with
  | .simple => smWeights k
  | .weighted => wmWeights k
  | .exponential => emWeights k

/-- the cached vector of a family -/
def EE.cached (s : EE α) : Fam → List α
  | .simple => s.smW
  | .weighted => s.wmW
  | .exponential => s.emW

def EE.setCached (s : EE α) (f : Fam) (w : List α) : EE α :=
  match f with
  | .simple => { s with smW := w }
  | .weighted => { s with wmW := w }
  | .exponential => { s with emW := w }

/-- `simpleAverage` / `weightedAverage` / `exponentialAverage` after `cur_estimates` is known:
    push it, fetch the history, refresh the cached weights **only if their size differs from the
    number of history columns**, return `mean(history, weights)`. -/
def windowed (s : EE α) (f : Fam) (cur : List α) : EE α × List α :=
  let h := s.hist.add cur
  let k := h.items.length
  let w := if (s.cached f).length ≠ k then famWeights f k else s.cached f
  (({ s with hist := h }).setCached f w, meanEst s.lin s.circ h.items w)

/-- the two-argument `extract` -/
def extract2 (eps : α) (s : EE α) (a : Args α) : EE α × Out α :=
  match s.method.stat, s.method.fam with
  | .map, _ => (s, ⟨false, none⟩)
  | st, none => (s, ⟨true, some (baseEst eps s.lin s.circ st a)⟩)
  | st, some f =>
    let a0 : Args α := { ps := a.ps, ws := a.ws }
    let r := windowed s f (baseEst eps s.lin s.circ st a0)
    (r.1, ⟨true, some r.2⟩)

/-- the five-argument `extract`: the eight mean/mode methods go through the two-argument overload -/
def extract5 (eps : α) (s : EE α) (a : Args α) : EE α × Out α :=
  match s.method.stat, s.method.fam with
  | .map, none => (s, ⟨true, some (baseEst eps s.lin s.circ .map a)⟩)
  | .map, some f =>
    let r := windowed s f (baseEst eps s.lin s.circ .map a)
    (r.1, ⟨true, some r.2⟩)
  | _, _ => extract2 eps s a

/-- `setMobileAverageWindowSize(int window)`: rejects `window <= 0`, otherwise `setHistorySize(window)` -/
def setMobileWindow (s : EE α) (n : Int) : EE α × Bool :=
  if n > 0 then
    let r := s.hist.setWindow n.toNat
    ({ s with hist := r.1 }, r.2)
  else (s, false)

def step (eps : α) (s : EE α) : Call α → EE α × Out α
  | .setMethod m => ({ s with method := m }, ⟨true, none⟩)
  | .setWindow n => let r := setMobileWindow s n; (r.1, ⟨r.2, none⟩)
  | .clear => ({ s with hist := s.hist.clear.1 }, ⟨s.hist.clear.2, none⟩)
  | .extract2 a => extract2 eps s a
  | .extract5 a => extract5 eps s a
  | .move => (s, ⟨true, none⟩)

/-- state after a sequence of calls -/
def runFrom (eps : α) (s : EE α) (cs : List (Call α)) : EE α := cs.foldl (fun s c => (step eps s c).1) s

def run (eps : α) (lin circ : Nat) (cs : List (Call α)) : EE α := runFrom eps (EE.init lin circ) cs

/-- outputs of a sequence of calls, in order -/
def outputsFrom (eps : α) (s : EE α) : List (Call α) → List (Out α)
  | [] => []
  | c :: cs => (step eps s c).2 :: outputsFrom eps (step eps s c).1 cs

/-- the base estimate a call pushes into the history (if it pushes one) -/
def pushed (eps : α) (s : EE α) : Call α → Option (List α)
  | .extract2 a =>
    match s.method.stat, s.method.fam with
    | .map, _ => none
    | _, none => none
    | st, some _ => some (baseEst eps s.lin s.circ st { ps := a.ps, ws := a.ws })
  | .extract5 a =>
    match s.method.stat, s.method.fam with
    | _, none => none
    | .map, some _ => some (baseEst eps s.lin s.circ .map a)
    | st, some _ => some (baseEst eps s.lin s.circ st { ps := a.ps, ws := a.ws })
  | _ => none

/-- ghost log: the base estimates pushed since the last `clear`, newest first -/
def logStep (eps : α) (s : EE α) (log : List (List α)) (c : Call α) : List (List α) :=
  match c with
  | .clear => []
  | c => match pushed eps s c with
    | some b => b :: log
    | none => log

/-- state and ghost log after a sequence of calls -/
def runLogFrom (eps : α) (s : EE α) (log : List (List α)) : List (Call α) → EE α × List (List α)
  | [] => (s, log)
  | c :: cs => runLogFrom eps (step eps s c).1 (logStep eps s log c) cs

/-- the operation a call performs on the member `hist_buffer_` (if any): a windowed `extract` that produces an
    estimate adds its base estimate, a positive window request is passed on to `setHistorySize`, `clear` clears -/
def bufOp (eps : α) (s : EE α) : Call α → Option (HistBuf.Op (List α))
  | .setMethod _ => none
  | .setWindow n => if n > 0 then some (.set n.toNat) else none
  | .clear => some .clear
  | .move => none
  | .extract2 a => (pushed eps s (.extract2 a)).map HistBuf.Op.add
  | .extract5 a => (pushed eps s (.extract5 a)).map HistBuf.Op.add

/-- the buffer operations of a call sequence (the state is threaded: whether a call pushes depends on the method) -/
def bufOps (eps : α) (s : EE α) : List (Call α) → List (HistBuf.Op (List α))
  | [] => []
  | c :: cs => (bufOp eps s c).toList ++ bufOps eps (step eps s c).1 cs

/-! ### Hand-over: move construction and move assignment of `EstimatesExtraction`

The destination receives method, history buffer, cached weight vectors and layout of the source.  The
source is left with method `emode`, a moved-from history buffer (window 0, empty) and its layout; its
cached vectors are empty after move *construction* (Eigen's move constructor) and are the destination's
previous vectors after move *assignment* (Eigen's move assignment swaps). -/

def EE.afterMoveCtor (src : EE α) : EE α :=
  { method := .emode, hist := HistBuf.movedFrom, smW := [], wmW := [], emW := [], lin := src.lin, circ := src.circ }

def EE.afterMoveAssign (src dstOld : EE α) : EE α :=
  { method := .emode, hist := HistBuf.movedFrom, smW := dstOld.smW, wmW := dstOld.wmW, emW := dstOld.emW,
    lin := src.lin, circ := src.circ }

/-- two objects; calls go to the current one -/
structure Pool (α : Type) where
  a : EE α
  b : EE α
  cur : Bool

def Pool.get (p : Pool α) : Bool → EE α
  | false => p.a
  | true => p.b

def Pool.set (p : Pool α) : Bool → EE α → Pool α
  | false, s => { p with a := s }
  | true, s => { p with b := s }

inductive PoolCall (α : Type)
  /-- a call of the public interface on the current object -/
  | call (c : Call α)
  /-- move-construct the other object from the current one -/
  | moveCtor
  /-- move-assign the current object to the other one -/
  | moveAssign
  /-- make the other object the current one -/
  | toggle

def poolStep (eps : α) (p : Pool α) : PoolCall α → Pool α × Out α
  | .call c => let r := step eps (p.get p.cur) c; (p.set p.cur r.1, r.2)
  | .moveCtor =>
    let src := p.get p.cur
    ((p.set (!p.cur) src).set p.cur src.afterMoveCtor, ⟨true, none⟩)
  | .moveAssign =>
    let src := p.get p.cur
    let dstOld := p.get (!p.cur)
    ((p.set (!p.cur) src).set p.cur (src.afterMoveAssign dstOld), ⟨true, none⟩)
  | .toggle => ({ p with cur := !p.cur }, ⟨true, none⟩)

def Pool.init (lin circ : Nat) : Pool α := ⟨EE.init lin circ, EE.init lin circ, false⟩

/-- what a pool call does to the two history buffers, as operations of the two-buffer machine `HistBuf.Op2` -/
def poolBufOp (eps : α) (p : Pool α) : PoolCall α → List (HistBuf.Op2 (List α))
  | .call c => (bufOp eps (p.get p.cur) c).toList.map (HistBuf.Op2.on p.cur)
  | .moveCtor => [.moveCtor p.cur]
  | .moveAssign => [.moveAssign p.cur (!p.cur)]
  | .toggle => []

def poolBufOps (eps : α) (p : Pool α) : List (PoolCall α) → List (HistBuf.Op2 (List α))
  | [] => []
  | c :: cs => poolBufOp eps p c ++ poolBufOps eps (poolStep eps p c).1 cs

/-- the two history buffers of a pool -/
def Pool.hists (p : Pool α) : HistBuf.Pair (List α) := ⟨p.a.hist, p.b.hist⟩

def poolRun (eps : α) (lin circ : Nat) (cs : List (PoolCall α)) : Pool α :=
  cs.foldl (fun p c => (poolStep eps p c).1) (Pool.init lin circ)

end machine

end Extract
end BFL
