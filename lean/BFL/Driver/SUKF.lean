import BFL.Driver.Proto
import BFL.Driver.Density
import BFL.Model.SUKF
/-
Driver entry for the serial unscented correction (C05).

The model is executed over `Rat`: every field operation exact, `sqrt` (of the covariance weights) and
the final `log` / `exp` of the likelihood through `Float` (`transcRatViaFloat`).  Every matrix the
model inverts — noise blocks, `C_inv`, the innovation covariance of the standard correction,
`I + V R⁻¹ U` and the assembled `S` of the factorised likelihood — is inverted once and certified
exactly (`A·X = 1 ∧ X·A = 1`); an argument that was not certified is answered with the zero matrix.

  sukf n nc msz bs red k s vM vP vI  y(msz) wm(s) wc(s)  means(n×k) covs(n×nk) outw(k)  X(n×sk) Yp(msz×sk)  R
      nc = number of Euler-circular rows at the bottom of the state; red = 0: R is msz×msz, red = 1: R is bs×bs
   -> ok  mean(nk) cov(nnk) weight(k)   lik k L.. | nolik
          U mean(nk) cov(nnk) lik(k)            (the standard additive correction of the model, if the size divides)
      means / covariances as exact rationals, likelihoods as double bit patterns
-/
namespace BFL.DriverSUKF
open BFL BFL.Proto BFL.DriverDensity

attribute [local instance] transcRatViaFloat

/-- certified inverses only: an argument outside the table gets the zero matrix -/
def invStrict (tbl : List InvEntry) : InvFn Rat := fun n A =>
  let key := A.toList
  match tbl.find? (fun e => e.n == n && e.key == key) with
  | some e => Mat.of (fun i j => e.inv[i.val * n + j.val]!)
  | none => Mat.zero

def colBlock {r : Nat} (s k : Nat) (A : Mat Rat r (s * k)) (i : Fin k) : Mat Rat r s :=
  Mat.eval (Mat.of (fun a j => A a ⟨s * i.val + j.val, by
    have hi := i.isLt; have hj := j.isLt
    calc s * i.val + j.val < s * i.val + s := by omega
      _ = s * (i.val + 1) := by rw [Nat.mul_succ]
      _ ≤ s * k := Nat.mul_le_mul_left s hi⟩))

def readGM (n k : Nat) : R (GM Rat n k) := do
  let means ← matCM rat n k
  let covs ← matCM rat n (n * k)
  let w ← vec rat k
  pure { mean := fun i => Vec.eval (Vec.of (fun r => means r i))
         cov := fun i => colBlock n k covs i
         weight := w }

def outGM {n k : Nat} (b : GM Rat n k) : List String :=
  ((List.finRange k).flatMap fun i => outVec ratStr (b.mean i)) ++
  ((List.finRange k).flatMap fun i => outMatCM ratStr (Mat.eval (b.cov i))) ++
  (outVec ratStr b.weight)

def likOut {k : Nat} : Option (Vec Rat k) → List String
  | none => ["nolik"]
  | some l => ["lik", toString k] ++ outVec outF (Vec.eval l)

def sukf : R String := do
  let n ← nat; let nc ← nat; let msz ← nat; let bs ← nat; let red ← bool; let k ← nat; let s ← nat
  let vM ← bool; let vP ← bool; let vI ← bool
  let y ← vec rat msz
  let wm ← vec rat s
  let wc ← vec rat s
  let b ← readGM n k
  let X ← matCM rat n (s * k)
  let Yp ← matCM rat msz (s * k)
  let R : SNoise Rat msz bs ← if red then (do let R0 ← matCM rat bs bs; pure (.reduced (Mat.eval R0)))
                              else (do let R0 ← matCM rat msz msz; pure (.full (Mat.eval R0)))
  done
  if bs == 0 then pure "bad-args" else
  let inp : SukfIn Rat n msz s k :=
    { validMeas := vM, validPred := vP, validInnov := vI, y := y
      X := fun i => colBlock s k X i, Yp := fun i => colBlock s k Yp i, nc := nc, wm := wm, wc := wc }
  let out : GM Rat n k := { b with weight := Vec.of (fun _ => 0) }   -- the caller's weights are not part of the comparison
  if hdiv : msz % bs = 0 then
    if !(vM && vP && vI) then
      pure (join ("ok" :: outGM (sukfCorrect invQ bs R inp b out) ++ likOut (sukfStepLikelihood invQ bs R inp b)))
    else
    have h : (msz / bs) * bs = msz := Nat.div_mul_cancel (Nat.dvd_of_mod_eq_zero hdiv)
    let Rc := R.cast h
    let nb := msz / bs
    -- pass 1: the matrices that will be inverted (only the block inverses are needed to form them)
    let eR := (List.finRange nb).map fun j => mkEntry (Mat.eval (Rc.blockAt j))
    let inv1 := invStrict eR
    let perComp := (List.finRange k).flatMap fun i =>
      let c := sukfComps inv1 bs hdiv R inp b i
      let u := ukfComp inv1 nc Rc.toFull (b.mean i) (b.cov i) (inp.X i) (castRows h (inp.Yp i)) wm wc (castVec h y)
      let rn : RNoise Rat nb bs := RNoise.perBlock Rc.row
      [mkEntry (Mat.eval (sukfCinv inv1 Rc c.Y)), mkEntry u.Pyy,
       mkEntry (Mat.eval (uvrM inv1 c.Y c.Y.transpose rn)), mkEntry (Mat.eval (assembleS c.Y c.Y.transpose rn))]
    let tbl := eR ++ perComp
    if !(tbl.all (·.ok)) then pure "inv-cert-fail" else
    let inv := invStrict tbl
    -- pass 2: the model's own definitions with the certified routine
    let res := sukfCorrect inv bs R inp b out
    let res : GM Rat n k := { mean := fun i => Vec.eval (res.mean i), cov := fun i => Mat.eval (res.cov i), weight := res.weight }
    let lik := sukfStepLikelihood inv bs R inp b
    let us := (List.finRange k).map fun i =>
      ukfComp inv nc Rc.toFull (b.mean i) (b.cov i) (inp.X i) (castRows h (inp.Yp i)) wm wc (castVec h y)
    let uOut := (us.flatMap fun u => outVec ratStr u.mean) ++ (us.flatMap fun u => outMatCM ratStr (Mat.eval u.cov))
      ++ (us.map fun u => outF u.lik)
    pure (join ("ok" :: outGM res ++ likOut lik ++ ["U"] ++ uOut))
  else
    pure (join ("ok" :: outGM (sukfCorrect invQ bs R inp b out) ++ likOut (sukfStepLikelihood invQ bs R inp b)))


/-! ### Histories: one object driven through a sequence of operations (`sukfSysRun` / `ukfSysRun`)

  sukfh n nc bs red s nops { op }*
     op:  C msz k vM vP vI y(msz) wm(s) wc(s) means(n×k) covs(n×nk) outw(k) X(n×sk) Yp(msz×sk) R   correct(), the noise
                                                                              covariance in force given with the call
          S b        skip(b)
          M          move construction
          Q msz R    getLikelihood(), the measurement model reporting R (for a measurement of size msz) at that moment
   -> ok { B mean(nk) cov(nnk) | L k l.. | N }*  U  { the same for the standard correction object }*
-/

/-- every inverse certified on the spot (`A·X = 1 ∧ X·A = 1`), the zero matrix otherwise -/
def invC : InvFn Rat := fun n A =>
  let A := Mat.eval A
  let X := invQ n A
  if certInvQ A X then X else Mat.zero

def noiseAt (bs m0 : Nat) (R : SNoise Rat m0 bs) : NoiseFn Rat bs :=
  fun msz => if h : msz = m0 then SNoise.cast h R else .reduced Mat.zero

def readNoise (msz bs : Nat) (red : Bool) : R (SNoise Rat msz bs) :=
  if red then (do let R0 ← matCM rat bs bs; pure (.reduced (Mat.eval R0)))
  else (do let R0 ← matCM rat msz msz; pure (.full (Mat.eval R0)))

def readOp (n nc bs : Nat) (red : Bool) (s : Nat) : R (List (SukfOp Rat bs)) := do
  let t ← tok
  match t with
  | "C" =>
    let msz ← nat; let k ← nat
    let vM ← bool; let vP ← bool; let vI ← bool
    let y ← vec rat msz
    let wm ← vec rat s
    let wc ← vec rat s
    let b ← readGM n k
    let X ← matCM rat n (s * k)
    let Yp ← matCM rat msz (s * k)
    let R ← readNoise msz bs red
    let inp : SukfIn Rat n msz s k :=
      { validMeas := vM, validPred := vP, validInnov := vI, y := y
        X := fun i => colBlock s k X i, Yp := fun i => colBlock s k Yp i, nc := nc, wm := wm, wc := wc }
    pure [.setNoise (noiseAt bs msz R), .correct { n := n, msz := msz, s := s, k := k, inp := inp, b := b, out := b }]
  | "S" => do let st ← bool; pure [.skip st]
  | "M" => pure [.move]
  | "Q" => do
    let msz ← nat
    let R ← readNoise msz bs red
    pure [.setNoise (noiseAt bs msz R), .query]
  | _ => failure

def obsOut : SukfObs Rat → List String
  | .belief _ _ g =>
    "B" :: (((List.finRange _).flatMap fun i => outVec ratStr (Vec.eval (g.mean i))) ++
            ((List.finRange _).flatMap fun i => outMatCM ratStr (Mat.eval (g.cov i))))
  | .lik none => ["N"]
  | .lik (some ⟨k, l⟩) => ["L", toString k] ++ outVec outF (Vec.eval l)

def sukfh : R String := do
  let n ← nat; let nc ← nat; let bs ← nat; let red ← bool; let s ← nat; let nops ← nat
  if bs == 0 then pure "bad-args" else
  let opss ← listOf nops (readOp n nc bs red s)
  done
  let ops := opss.flatten
  let f0 : NoiseFn Rat bs := fun _ => .reduced Mat.zero
  let rs := sukfSysRun invC ⟨sukfNew, f0⟩ ops
  let ru := ukfSysRun invC ⟨{ skip := false, stored := none }, f0⟩ ops
  pure (join ("ok" :: (rs.2.flatMap obsOut) ++ ["U"] ++ (ru.2.flatMap obsOut)))

def handle (op : String) (args : List String) : Option String :=
  match op with
  | "sukf" => some ((run sukf args).getD "bad-args")
  | "sukfh" => some ((run sukfh args).getD "bad-args")
  | _ => none

end BFL.DriverSUKF
