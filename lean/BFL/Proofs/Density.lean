import BFL.Bridge.Det
import Mathlib.LinearAlgebra.Matrix.SchurComplement
import Mathlib.LinearAlgebra.Matrix.NonsingularInverse
import Mathlib.LinearAlgebra.Matrix.PosDef
import Mathlib.Analysis.Matrix.PosDef
import Mathlib.Analysis.SpecialFunctions.Log.Basic
import Mathlib.Algebra.Order.Star.Real
/-
Matrix and real-analysis facts behind C15 (helper lemmas, Mathlib vocabulary):
Woodbury form of the inverse and determinant lemma for `S = U V + R`, inverse / determinant of a
block-diagonal matrix, and the algebra of log-sum-exp.
-/
namespace BFL.DensityProofs
open Matrix

section woodbury
variable {F : Type*} [Field F]
variable {d k : Type*} [Fintype d] [Fintype k] [DecidableEq d] [DecidableEq k]

/-- `inv(UV + R) = inv(R) (I − U inv(I + V inv(R) U) V inv(R))`  (the comment in utils.h) -/
theorem uvr_inv (U : Matrix d k F) (V : Matrix k d F) (R : Matrix d d F)
    (hR : IsUnit R) (hM : IsUnit (1 + V * R⁻¹ * U)) :
    (U * V + R)⁻¹ = R⁻¹ * (1 - U * (1 + V * R⁻¹ * U)⁻¹ * (V * R⁻¹)) := by
  have h := Matrix.add_mul_mul_inv_eq_sub R U (1 : Matrix k k F) V hR isUnit_one (by simpa using hM)
  simp only [inv_one, Matrix.mul_one] at h
  rw [add_comm (U * V) R, h, Matrix.mul_sub, Matrix.mul_one]
  simp only [Matrix.mul_assoc]

/-- `det(UV + R) = det(R) det(I + V inv(R) U)` -/
theorem uvr_det (U : Matrix d k F) (V : Matrix k d F) (R : Matrix d d F) (hR : IsUnit R) :
    R.det * (1 + V * R⁻¹ * U).det = (U * V + R).det := by
  rw [add_comm (U * V) R, Matrix.det_add_mul U V ((Matrix.isUnit_iff_isUnit_det _).1 hR)]

/-- if `R` and `UV + R` are invertible, so is `I + V inv(R) U` -/
theorem uvr_M_isUnit (U : Matrix d k F) (V : Matrix k d F) (R : Matrix d d F)
    (hR : IsUnit R) (hS : IsUnit (U * V + R)) : IsUnit (1 + V * R⁻¹ * U) := by
  rw [Matrix.isUnit_iff_isUnit_det] at hS ⊢
  rw [← uvr_det U V R hR] at hS
  exact (IsUnit.mul_iff.1 hS).2

/-- the quadratic form the Woodbury evaluation computes equals the one of the assembled matrix -/
theorem uvr_quad (x : d → F) (U : Matrix d k F) (V : Matrix k d F) (R : Matrix d d F)
    (hR : IsUnit R) (hM : IsUnit (1 + V * R⁻¹ * U)) :
    (x ᵥ* R⁻¹) ⬝ᵥ ((1 - U * (1 + V * R⁻¹ * U)⁻¹ * (V * R⁻¹)) *ᵥ x) = x ⬝ᵥ ((U * V + R)⁻¹ *ᵥ x) := by
  rw [uvr_inv U V R hR hM, ← Matrix.dotProduct_mulVec, Matrix.mulVec_mulVec]

end woodbury

section bdiag
variable {F : Type} [Field F] {nb bs : Nat}

theorem bdiag_mul_inv (D E : Fin nb → Matrix (Fin bs) (Fin bs) F) (h : ∀ i, D i * E i = 1) :
    bdiag D * bdiag E = 1 := by
  rw [bdiag_mul]
  have : (fun i => D i * E i) = fun _ => (1 : Matrix (Fin bs) (Fin bs) F) := funext h
  rw [this, bdiag_one]

theorem bdiag_inv (D E : Fin nb → Matrix (Fin bs) (Fin bs) F) (h : ∀ i, D i * E i = 1) :
    (bdiag D)⁻¹ = bdiag E :=
  Matrix.inv_eq_right_inv (bdiag_mul_inv D E h)

theorem bdiag_isUnit (D E : Fin nb → Matrix (Fin bs) (Fin bs) F) (h : ∀ i, D i * E i = 1) :
    IsUnit (bdiag D) :=
  (Matrix.isUnit_iff_isUnit_det _).2 (Matrix.isUnit_det_of_right_inverse (bdiag_mul_inv D E h))

end bdiag

section posdef
variable {d : Type*} [Fintype d] [DecidableEq d]

theorem posDef_det_pos {S : Matrix d d ℝ} (h : S.PosDef) : 0 < S.det := h.det_pos
theorem posDef_isUnit {S : Matrix d d ℝ} (h : S.PosDef) : IsUnit S := h.isUnit

end posdef

/-! ### log-sum-exp over ℝ -/
section lse
open Real

/-- the running maximum `Fin.foldl n (max · (g ·)) init` dominates `init` and every `g i`,
    and is attained -/
theorem foldmax_spec : ∀ (n : Nat) (g : Fin n → ℝ) (init : ℝ),
    let r := Fin.foldl n (fun acc i => if acc < g i then g i else acc) init
    init ≤ r ∧ (∀ i, g i ≤ r) ∧ (r = init ∨ ∃ i, r = g i)
  | 0, g, init => by simp [Fin.foldl_zero]
  | n + 1, g, init => by
    have ih := foldmax_spec n (fun i => g i.castSucc) init
    simp only at ih ⊢
    rw [Fin.foldl_succ_last]
    set r := Fin.foldl n (fun acc i => if acc < g i.castSucc then g i.castSucc else acc) init with hr
    obtain ⟨h1, h2, h3⟩ := ih
    by_cases hlt : r < g (Fin.last n)
    · rw [if_pos hlt]
      refine ⟨le_trans h1 hlt.le, ?_, Or.inr ⟨Fin.last n, rfl⟩⟩
      intro i
      refine Fin.lastCases ?_ (fun j => ?_) i
      · exact le_rfl
      · exact le_trans (h2 j) hlt.le
    · rw [if_neg hlt]
      refine ⟨h1, ?_, ?_⟩
      · intro i
        refine Fin.lastCases ?_ (fun j => ?_) i
        · exact not_lt.1 hlt
        · exact h2 j
      · rcases h3 with h | ⟨j, hj⟩
        · exact Or.inl h
        · exact Or.inr ⟨j.castSucc, hj⟩

/-- `max + log Σ exp(xᵢ − max) = log Σ exp xᵢ` — for any shift, not only the maximum -/
theorem shift_log_sum_exp {ι : Type*} [Fintype ι] [Nonempty ι] (x : ι → ℝ) (c : ℝ) :
    c + Real.log (∑ i, Real.exp (x i - c)) = Real.log (∑ i, Real.exp (x i)) := by
  have hpos : 0 < ∑ i, Real.exp (x i) := Finset.sum_pos (fun i _ => Real.exp_pos _) Finset.univ_nonempty
  have h : ∑ i, Real.exp (x i - c) = Real.exp (-c) * ∑ i, Real.exp (x i) := by
    rw [Finset.mul_sum]
    refine Finset.sum_congr rfl (fun i _ => ?_)
    rw [← Real.exp_add]; ring_nf
  rw [h, Real.log_mul (Real.exp_pos _).ne' hpos.ne', Real.log_exp]
  ring

theorem log_sum_exp_add_const {ι : Type*} [Fintype ι] [Nonempty ι] (x : ι → ℝ) (c : ℝ) :
    Real.log (∑ i, Real.exp (x i + c)) = Real.log (∑ i, Real.exp (x i)) + c := by
  have hpos : 0 < ∑ i, Real.exp (x i) := Finset.sum_pos (fun i _ => Real.exp_pos _) Finset.univ_nonempty
  have h : ∑ i, Real.exp (x i + c) = Real.exp c * ∑ i, Real.exp (x i) := by
    rw [Finset.mul_sum]
    refine Finset.sum_congr rfl (fun i _ => ?_)
    rw [← Real.exp_add]; ring_nf
  rw [h, Real.log_mul (Real.exp_pos _).ne' hpos.ne', Real.log_exp]
  ring

/-- if `mx` dominates every entry and is attained, every shifted exponent is `≤ 0` and the sum of
    the exponentials lies in `[1, n]` -/
theorem sum_exp_shift_bounds {ι : Type*} [Fintype ι] (x : ι → ℝ) (mx : ℝ)
    (hle : ∀ i, x i ≤ mx) (hatt : ∃ i, mx = x i) :
    (∀ i, x i - mx ≤ 0) ∧ 1 ≤ ∑ i, Real.exp (x i - mx) ∧ ∑ i, Real.exp (x i - mx) ≤ Fintype.card ι := by
  refine ⟨fun i => by linarith [hle i], ?_, ?_⟩
  · obtain ⟨j, hj⟩ := hatt
    have h1 : Real.exp (x j - mx) = 1 := by rw [hj, sub_self, Real.exp_zero]
    calc (1 : ℝ) = Real.exp (x j - mx) := h1.symm
      _ ≤ ∑ i, Real.exp (x i - mx) :=
        Finset.single_le_sum (f := fun i => Real.exp (x i - mx)) (fun i _ => (Real.exp_pos _).le) (Finset.mem_univ j)
  · calc ∑ i, Real.exp (x i - mx) ≤ ∑ _i : ι, (1 : ℝ) :=
          Finset.sum_le_sum (fun i _ => by
            have : x i - mx ≤ 0 := by linarith [hle i]
            simpa using Real.exp_le_exp.2 this)
      _ = Fintype.card ι := by simp

end lse

end BFL.DensityProofs
