import BFL.Driver.Proto
import BFL.Model.Skip
/-
Driver entries for C13.

  skip <predKind> <exo 0|1> <corrKind> <seed> <n> <k> op op …
      predKind ∈ kf ukfa ukfg draw gpfkf draw2;  corrKind, seed, n, k are used by the C++ harness only
      op = L:<name>:<0|1>   skip command at level L ∈ F (filter) P (prediction) C (correction) M (state model);
                            `~` stands for the empty name
         | p | c            predict / correct on the running belief
         | H                hand-over: steps move-constructed into new objects held by a new filter
         | A                a (new) exogenous model is attached through getStateModel().add_exogenous_model
      level X = prediction().getStateModel().exogenous_model().skip(name, on)
  -> one token per op, preceded by the initial observation:
      init/<flags>/<P>/<C>     r<1|0|T>/<flags>/<P>/<C>     p/<P>     c/<C>
     flags = prediction, state model, exogenous model (`-` when absent);  P = label of what
     predict does (id fx fxexo exo copy untouched), C = id | full.
-/
namespace BFL.DriverSkip
open BFL BFL.Proto BFL.Skip

def parseKind (s : String) : Option PredKind :=
  match s with
  | "kf" => some .kf
  | "ukfa" => some .ukfAdd
  | "ukfg" => some .ukfGen
  | "draw" => some .draw
  | "gpfkf" => some .gpfKf
  | "draw2" => some .draw        -- DrawParticles(state model, exogenous model): see `drawTwoArgConfig`
  | _ => none

def bit (b : Bool) : String := if b then "1" else "0"

def flagsStr (st : SkipState) : String :=
  bit st.pred ++ bit st.state ++ (match st.exo with
                                  | none => "-"
                                  | some e => bit e)

def baseStr : Base → String
  | .copy => "copy"
  | .fxExo => "fxexo"
  | .fx => "fx"
  | .exoOnly => "exo"
  | .untouched => "untouched"

def obsStr : Obs → String
  | .identity => "id"
  | .step b => baseStr b

def corrStr (st : SkipState) : String := if corrRuns st then "full" else "id"

def outStr : Outcome → String
  | .ret true => "r1"
  | .ret false => "r0"
  | .thrown => "rT"

def parseCmd (t : String) : Option Cmd :=
  match t.splitOn ":" with
  | [l, nm, on] =>
    let lvl : Option Level := match l with
      | "F" => some .filter
      | "P" => some .prediction
      | "C" => some .correction
      | "M" => some .stateModel
      | "X" => some .exoModel
      | _ => none
    let b : Option Bool := match on with
      | "0" => some false
      | "1" => some true
      | _ => none
    match lvl, b with
    | some lvl, some b => some ⟨lvl, parseName (if nm == "~" then "" else nm), b⟩
    | _, _ => none
  | _ => none

def obsAll (k : PredKind) (st : SkipState) : String :=
  flagsStr st ++ "/" ++ obsStr (predObs k st) ++ "/" ++ corrStr st

/-- label of a step on the running belief, read off the belief trace of the state machine -/
def stepLabel (old new : List String) : String :=
  if new.length == old.length then "id" else new.getLast?.getD "id"

def parseOp (t : String) : Option Op :=
  if t == "p" then some .predict
  else if t == "c" then some .correct
  else if t == "H" then some .handOver
  else if t == "A" then some .attach
  else (parseCmd t).map .cmd

/-- every history runs through `BFL.Skip.stepOp` (flags *and* running belief, as a trace) -/
def runOps (k : PredKind) : FilterSt (List String) → List String → Option (List String)
  | _, [] => some []
  | s, t :: ts =>
    match parseOp t with
    | none => none
    | some op =>
      let s' := stepOp traceSem k s op
      let tok : String := match op with
        | .predict => "p/" ++ stepLabel s.belief s'.belief
        | .correct => "c/" ++ stepLabel s.belief s'.belief
        | .handOver => "h/" ++ obsAll k s'.flags
        | .attach => "a/" ++ obsAll k s'.flags
        | .cmd c => outStr (skipCmd s.flags c).out ++ "/" ++ obsAll k s'.flags
      (runOps k s' ts).map (tok :: ·)

def skipLine : R String := do
  let kStr ← tok
  let k := kStr
  let exo ← bool
  let _ ← tok; let _ ← tok; let _ ← tok; let _ ← tok
  let ops ← get
  set ([] : List String)
  match parseKind k with
  | none => failure
  | some k =>
    let st := if kStr == "draw2" then drawTwoArgConfig exo else SkipState.init exo
    match runOps k ⟨st, [], 0⟩ ops with
    | none => failure
    | some out => pure (join (("init/" ++ obsAll k st) :: out))

def handle (op : String) (args : List String) : Option String :=
  match op with
  | "skip" => some ((run skipLine args).getD "bad-args")
  | _ => none

end BFL.DriverSkip
