import BFL.Proofs.HistoryMove
import BFL.Proofs.ExtractWindow
/-
Hand-over of `EstimatesExtraction` objects: invariants of two-object programs with move construction and
move assignment; the destination is exactly the source as it was.
-/
namespace BFL
namespace Extract

/-- invariant of every object of a two-object program: as `EEInv`, the history buffer possibly moved-from -/
structure EEInv' (lin circ : Nat) (s : EE ℝ) : Prop where
  hist : HistBuf.Inv' s.hist
  cache : CacheFresh s
  lin_eq : s.lin = lin
  circ_eq : s.circ = circ

theorem EEInv.weaken {lin circ : Nat} {s : EE ℝ} (h : EEInv lin circ s) : EEInv' lin circ s :=
  ⟨Or.inr h.hist, h.cache, h.lin_eq, h.circ_eq⟩

theorem inv'_windowed {lin circ : Nat} {s : EE ℝ} (h : EEInv' lin circ s) (f : Fam) (cur : List ℝ) :
    EEInv' lin circ (windowed s f cur).1 := by
  rw [windowed_eq h.cache]
  refine ⟨?_, ?_, ?_, ?_⟩
  · simp only [setCached_hist]; exact HistBuf.inv'_step h.hist (.add cur)
  · exact setCached_fresh (s := { s with hist := s.hist.add cur }) ⟨h.cache.sm, h.cache.wm, h.cache.em⟩ f _
  · simp only [setCached_lin]; exact h.lin_eq
  · simp only [setCached_circ]; exact h.circ_eq

theorem inv'_step {lin circ : Nat} (eps : ℝ) {s : EE ℝ} (h : EEInv' lin circ s) (c : Call ℝ) :
    EEInv' lin circ (step eps s c).1 := by
  cases c with
  | setMethod m => exact ⟨h.hist, ⟨h.cache.sm, h.cache.wm, h.cache.em⟩, h.lin_eq, h.circ_eq⟩
  | setWindow n =>
    simp only [step, setMobileWindow]
    split
    · exact ⟨HistBuf.inv'_step h.hist (.set n.toNat), ⟨h.cache.sm, h.cache.wm, h.cache.em⟩, h.lin_eq, h.circ_eq⟩
    · exact h
  | clear =>
    exact ⟨HistBuf.inv'_step h.hist .clear, ⟨h.cache.sm, h.cache.wm, h.cache.em⟩, h.lin_eq, h.circ_eq⟩
  | move => exact h
  | extract2 a =>
    simp only [step]
    rcases extract2_cases eps s a with ⟨_, he, _⟩ | ⟨_, _, _, he⟩ | ⟨f, b, _, _, _, _, he⟩
    · rw [he]; exact h
    · rw [he]; exact h
    · rw [he]; exact inv'_windowed h f b
  | extract5 a =>
    simp only [step]
    rcases extract5_cases eps s a with ⟨_, _, he⟩ | ⟨f, b, _, _, _, he⟩
    · rw [he]; exact h
    · rw [he]; exact inv'_windowed h f b

theorem inv'_afterMoveCtor {lin circ : Nat} {s : EE ℝ} (h : EEInv' lin circ s) :
    EEInv' lin circ s.afterMoveCtor :=
  ⟨HistBuf.inv'_movedFrom, ⟨by simp [EE.afterMoveCtor, smWeights], by simp [EE.afterMoveCtor, wmWeights],
    by simp [EE.afterMoveCtor, emWeights]⟩, h.lin_eq, h.circ_eq⟩

theorem inv'_afterMoveAssign {lin circ : Nat} {s d : EE ℝ} (h : EEInv' lin circ s) (hd : EEInv' lin circ d) :
    EEInv' lin circ (s.afterMoveAssign d) :=
  ⟨HistBuf.inv'_movedFrom, ⟨hd.cache.sm, hd.cache.wm, hd.cache.em⟩, h.lin_eq, h.circ_eq⟩

theorem Pool.inv'_set {lin circ : Nat} {p : Pool ℝ} (hp : ∀ i, EEInv' lin circ (p.get i)) (j : Bool) {s : EE ℝ}
    (hs : EEInv' lin circ s) : ∀ i, EEInv' lin circ ((p.set j s).get i) := by
  intro i
  cases i <;> cases j <;> first | exact hs | exact hp false | exact hp true

theorem Pool.set_cur (p : Pool ℝ) (j : Bool) (s : EE ℝ) : (p.set j s).cur = p.cur := by cases j <;> rfl

theorem inv'_poolStep {lin circ : Nat} (eps : ℝ) {p : Pool ℝ} (hp : ∀ i, EEInv' lin circ (p.get i))
    (c : PoolCall ℝ) : ∀ i, EEInv' lin circ ((poolStep eps p c).1.get i) := by
  cases c with
  | call c => exact Pool.inv'_set hp _ (inv'_step eps (hp _) c)
  | moveCtor => exact Pool.inv'_set (Pool.inv'_set hp _ (hp _)) _ (inv'_afterMoveCtor (hp _))
  | moveAssign => exact Pool.inv'_set (Pool.inv'_set hp _ (hp _)) _ (inv'_afterMoveAssign (hp _) (hp _))
  | toggle => intro i; cases i <;> first | exact hp false | exact hp true

theorem inv'_poolRun (eps : ℝ) (lin circ : Nat) (cs : List (PoolCall ℝ)) :
    ∀ i, EEInv' lin circ ((poolRun eps lin circ cs).get i) := by
  have : ∀ (p : Pool ℝ), (∀ i, EEInv' lin circ (p.get i)) →
      ∀ i, EEInv' lin circ ((cs.foldl (fun p c => (poolStep eps p c).1) p).get i) := by
    induction cs with
    | nil => intro p hp; exact hp
    | cons c cs ih => intro p hp; exact ih _ (inv'_poolStep eps hp c)
  apply this
  intro i
  cases i <;> exact (inv_init lin circ).weaken

/-- the hand-over: the destination is exactly the source as it was; the source is left with method
    `emode`, a moved-from history buffer and its layout -/
theorem pool_handover_spec (eps : ℝ) (p : Pool ℝ) :
    ((poolStep eps p .moveCtor).1.get (!p.cur) = p.get p.cur ∧
      (poolStep eps p .moveCtor).1.get p.cur = (p.get p.cur).afterMoveCtor) ∧
    ((poolStep eps p .moveAssign).1.get (!p.cur) = p.get p.cur ∧
      (poolStep eps p .moveAssign).1.get p.cur = (p.get p.cur).afterMoveAssign (p.get (!p.cur))) := by
  obtain ⟨a, b, cur⟩ := p
  cases cur <;> simp [poolStep, Pool.set, Pool.get]

end Extract
end BFL
