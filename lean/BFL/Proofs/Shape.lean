import BFL.Model.Shape
import Mathlib.Tactic.SplitIfs
/-
Helper lemmas for C11: backing matrices (`Sto`), well-formedness of every operation.
-/
namespace BFL.Shape

namespace Sto
variable {α : Type}

@[simp] theorem build_rows (r c : Nat) (f : Nat → Nat → Option α) : (build r c f).rows = r := rfl
@[simp] theorem build_cols (r c : Nat) (f : Nat → Nat → Option α) : (build r c f).cols = c := rfl

theorem build_get (r c : Nat) (f : Nat → Nat → Option α) (i j : Nat) :
    (build r c f).get i j = if i < r ∧ j < c then f i j else none := by
  unfold build get
  by_cases h : i < r ∧ j < c
  · obtain ⟨hi, hj⟩ := h
    simp [hi, hj, Array.getD]
  · simp [h]

theorem get_none_of_not_lt (s : Sto α) (i j : Nat) (h : ¬ (i < s.rows ∧ j < s.cols)) : s.get i j = none := by
  simp [get, h]

@[simp] theorem fresh_rows (r c : Nat) (init : Option α) : (fresh r c init : Sto α).rows = r := rfl
@[simp] theorem fresh_cols (r c : Nat) (init : Option α) : (fresh r c init : Sto α).cols = c := rfl
theorem fresh_get (r c : Nat) (init : Option α) (i j : Nat) :
    (fresh r c init).get i j = if i < r ∧ j < c then init else none := by
  simp [fresh, build_get]
@[simp] theorem resizeNC_rows (s : Sto α) (r c : Nat) (init : Option α) : (s.resizeNC r c init).rows = r := by
  unfold resizeNC; split <;> rfl
@[simp] theorem resizeNC_cols (s : Sto α) (r c : Nat) (init : Option α) : (s.resizeNC r c init).cols = c := by
  unfold resizeNC; split <;> rfl
@[simp] theorem const_rows (r c : Nat) (v : α) : (const r c v).rows = r := rfl
@[simp] theorem const_cols (r c : Nat) (v : α) : (const r c v).cols = c := rfl
@[simp] theorem conservativeResize_rows (s : Sto α) (r c : Nat) : (s.conservativeResize r c).rows = r := rfl
@[simp] theorem conservativeResize_cols (s : Sto α) (r c : Nat) : (s.conservativeResize r c).cols = c := rfl
@[simp] theorem conservativeResizeLike_rows (s o : Sto α) : (s.conservativeResizeLike o).rows = o.rows := rfl
@[simp] theorem conservativeResizeLike_cols (s o : Sto α) : (s.conservativeResizeLike o).cols = o.cols := rfl

theorem const_get (r c : Nat) (v : α) (i j : Nat) :
    (const r c v).get i j = if i < r ∧ j < c then some v else none := by
  simp [const, build_get]

/-- `conservativeResize`: the cells that fit survive, everything else is unspecified. -/
theorem conservativeResize_get (s : Sto α) (r c i j : Nat) :
    (s.conservativeResize r c).get i j = if i < r ∧ j < c then s.get i j else none := by
  simp [conservativeResize, build_get]

theorem conservativeResizeLike_get (s o : Sto α) (i j : Nat) :
    (s.conservativeResizeLike o).get i j =
      if i < o.rows ∧ j < o.cols then (if i < s.rows ∧ j < s.cols then s.get i j else o.get i j) else none := by
  simp [conservativeResizeLike, build_get]

theorem assignBlock_dims {s t src : Sto α} {r0 c0 nr nc : Nat} (h : s.assignBlock r0 c0 nr nc src = some t) :
    t.rows = s.rows ∧ t.cols = s.cols := by
  unfold assignBlock at h
  split_ifs at h
  cases h
  exact ⟨rfl, rfl⟩

theorem assignBlock_isSome (s src : Sto α) (r0 c0 nr nc : Nat)
    (h : r0 + nr ≤ s.rows ∧ c0 + nc ≤ s.cols ∧ src.rows = nr ∧ src.cols = nc) :
    ∃ t, s.assignBlock r0 c0 nr nc src = some t := by
  unfold assignBlock
  rw [if_pos h]
  exact ⟨_, rfl⟩

theorem assignBlock_cond {s t src : Sto α} {r0 c0 nr nc : Nat} (h : s.assignBlock r0 c0 nr nc src = some t) :
    r0 + nr ≤ s.rows ∧ c0 + nc ≤ s.cols ∧ src.rows = nr ∧ src.cols = nc := by
  unfold assignBlock at h
  split_ifs at h with hc
  exact hc

theorem assignBlock_get {s t src : Sto α} {r0 c0 nr nc : Nat} (h : s.assignBlock r0 c0 nr nc src = some t)
    (i j : Nat) :
    t.get i j = if r0 ≤ i ∧ i < r0 + nr ∧ c0 ≤ j ∧ j < c0 + nc then src.get (i - r0) (j - c0) else s.get i j := by
  have hc := assignBlock_cond h
  unfold assignBlock at h
  rw [if_pos hc] at h
  cases h
  rw [build_get]
  by_cases hin : i < s.rows ∧ j < s.cols
  · rw [if_pos hin]
  · rw [if_neg hin]
    have h1 : ¬ (r0 ≤ i ∧ i < r0 + nr ∧ c0 ≤ j ∧ j < c0 + nc) := by omega
    rw [if_neg h1, get_none_of_not_lt _ _ _ hin]

theorem write_dims {s t : Sto α} {i j : Nat} {v : α} (h : s.write i j v = some t) :
    t.rows = s.rows ∧ t.cols = s.cols := by
  unfold write at h
  split_ifs at h
  cases h
  exact ⟨rfl, rfl⟩

theorem write_get {s t : Sto α} {i j : Nat} {v : α} (h : s.write i j v = some t) (a b : Nat) :
    t.get a b = if a = i ∧ b = j then some v else s.get a b := by
  unfold write at h
  split_ifs at h with hc
  cases h
  rw [build_get]
  by_cases hin : a < s.rows ∧ b < s.cols
  · rw [if_pos hin]
  · rw [if_neg hin]
    have h1 : ¬ (a = i ∧ b = j) := by omega
    rw [if_neg h1, get_none_of_not_lt _ _ _ hin]

end Sto

/-! ### Well-formedness is established by the constructors and kept by every operation -/

section
variable {α : Type}

theorem wf_ctorFull [One α] [Div α] [NatCast α] (kind : Kind) (k l c : Nat) (q : Bool)
    (hg : kind = Kind.gaussian → k = 1) (init : Option α := none) :
    WF (ctorFull kind k l c q init : Container α) := by
  cases q <;> constructor <;> simp [ctorFull] <;> first | omega | (intro h; simp [h])

theorem wf_ctorDefault [One α] [Div α] [NatCast α] (kind : Kind) (init : Option α := none) :
    WF (ctorDefault kind init : Container α) :=
  wf_ctorFull kind 1 1 0 false (fun _ => rfl) init

theorem wf_ctorDim [One α] [Div α] [NatCast α] (kind : Kind) (k d : Nat) (init : Option α := none) :
    WF (ctorDim kind k d init : Container α) := by
  cases kind <;> simp only [ctorDim]
  · exact wf_ctorFull _ k d 0 false (fun h => by cases h) init
  · exact wf_ctorFull _ 1 d 0 false (fun _ => rfl) init
  · exact wf_ctorFull _ k d 0 false (fun h => by cases h) init

theorem wf_ctorLayout [One α] [Div α] [NatCast α] (kind : Kind) (k l c : Nat) (q : Bool)
    (init : Option α := none) : WF (ctorLayout kind k l c q init : Container α) := by
  cases kind <;> simp only [ctorLayout]
  · exact wf_ctorFull _ k l c q (fun h => by cases h) init
  · exact wf_ctorFull _ 1 l c q (fun _ => rfl) init
  · exact wf_ctorFull _ k l c q (fun h => by cases h) init

/-- `GaussianMixture::resize` keeps a mixture or Gaussian well-formed (for a `Gaussian` only when
    the requested component count is 1, which is what `Gaussian::resize` passes). -/
theorem wf_gmResize (x : Container α) (h : WF x) (k l c : Nat)
    (hnps : x.kind ≠ Kind.ps) (hg : x.kind = Kind.gaussian → k = 1) : WF (gmResize x k l c) := by
  obtain ⟨kind, comps, q, dcc, dim, dl, dci, dn, dcv, mean, cov, weight, state⟩ := x
  obtain ⟨hdcc, hdim, hdcov, hmr, hmc, hcr, hcc, hwr, hwc, hsr, hsc, hga⟩ := h
  simp only at hdcc hdim hdcov hmr hmc hcr hcc hwr hwc hsr hsc hga hg hnps
  cases q <;> simp only [if_true, if_false, Bool.false_eq_true] at hdcc hdim hdcov <;> subst hdcc <;>
  simp only [gmResize, if_true, if_false, Bool.false_eq_true] <;>
  split_ifs with h1 h2 <;>
  constructor <;>
  simp only [Sto.fresh_rows, Sto.fresh_cols, Sto.resizeNC_rows, Sto.resizeNC_cols, Sto.conservativeResize_rows, Sto.conservativeResize_cols,
    if_true, if_false, Bool.false_eq_true] <;>
  first
    | assumption
    | omega
    | (rw [h2.2.1])
    | (intro hk'; exact absurd hk' hnps)

/-- `ParticleSet::resize` keeps a particle set well-formed. -/
theorem wf_psResize (x : Container α) (h : WF x) (k l c : Nat)
    (hps : x.kind = Kind.ps) : WF (psResize x k l c) := by
  obtain ⟨kind, comps, q, dcc, dim, dl, dci, dn, dcv, mean, cov, weight, state⟩ := x
  obtain ⟨hdcc, hdim, hdcov, hmr, hmc, hcr, hcc, hwr, hwc, hsr, hsc, hga⟩ := h
  simp only at hdcc hdim hdcov hmr hmc hcr hcc hwr hwc hsr hsc hga hps
  subst hps
  have hsr' := hsr rfl
  have hsc' := hsc rfl
  cases q <;> simp only [if_true, if_false, Bool.false_eq_true] at hdcc hdim hdcov <;> subst hdcc <;>
  simp only [psResize, gmResize, if_true, if_false, Bool.false_eq_true] <;>
  split_ifs with h1 h2 h3 h4 <;>
  constructor <;>
  simp only [Sto.fresh_rows, Sto.fresh_cols, Sto.resizeNC_rows, Sto.resizeNC_cols, Sto.conservativeResize_rows, Sto.conservativeResize_cols,
    if_true, if_false, Bool.false_eq_true] <;>
  first
    | assumption
    | omega
    | (rw [h3.2.1])
    | (rw [h4.2.1])
    | (intro _; omega)
    | (intro hk'; cases hk')

/-- `Gaussian::resize`. -/
theorem wf_gaussianResize (x : Container α) (h : WF x) (l c : Nat) (hga : x.kind = Kind.gaussian) :
    WF (gaussianResize x l c) :=
  wf_gmResize x h 1 l c (by rw [hga]; decide) (fun _ => rfl)

/-- The virtual `resize` of a mixture or particle set. -/
theorem wf_resize (x : Container α) (h : WF x) (k l c : Nat) (hng : x.kind ≠ Kind.gaussian) :
    WF (resize x k l c) := by
  unfold resize
  split
  · next hps => exact wf_psResize x h k l c hps
  · next hnps => exact wf_gmResize x h k l c hnps (fun hg => absurd hg hng)

/-! ### `augmentWithNoise` -/

/-- A non-square noise covariance: returns `false`, nothing changes. -/
theorem augmentO_nonsquare [Zero α] (x : Container α) (qr qc : Nat) (q : Nat → Nat → Option α) (h : qr ≠ qc) :
    augmentO x qr qc q = some (x, false) := by
  simp [augmentO, h]

/-- The container `augmentWithNoise` produces, given the mean storage after the zero rows were
    written. -/
def augmented [Zero α] (x : Container α) (a : Nat) (q : Nat → Nat → Option α) (mean2 : Sto α) : Container α :=
  let dimOld := x.dimCovariance
  let dimCov := x.dimCovariance + a
  let cov1 := x.cov.conservativeResizeLike (Sto.const dimCov (dimCov * x.components) 0)
  let g1 := relocate x.components dimOld dimCov cov1.get
  let g2 := forUp x.components (fun i g =>
    putBlock 0 (i * dimCov + dimOld) dimOld a (fun _ _ => some 0)
      (putBlock dimOld (i * dimCov + dimOld) a a q g)) g1
  { x with
    dimNoise := x.dimNoise + a
    dim := x.dim + a
    dimCovariance := dimCov
    mean := mean2
    cov := Sto.build dimCov (dimCov * x.components) g2 }

/-- The mean storage with the rows for the noise appended (before they are zeroed). -/
def augMean1 (x : Container α) (a : Nat) : Sto α := x.mean.conservativeResize (x.dim + a) x.mean.cols

/-- On a container with 0 components a square noise covariance trips the assertion (`components - 1`
    wraps around). -/
theorem augmentO_zero_components [Zero α] (x : Container α) (a : Nat) (q : Nat → Nat → Option α)
    (h0 : x.components = 0) : augmentO x a a q = none := by
  simp [augmentO, h0]

/-- A square noise covariance on a container with at least one component whose mean storage has
    `components` columns: no assertion, returns `true`. -/
theorem augmentO_square [Zero α] (x : Container α) (a : Nat) (q : Nat → Nat → Option α)
    (hmc : x.mean.cols = x.components) (hk : x.components ≠ 0) :
    ∃ mean2, (augMean1 x a).assignBlock (x.dim + a - a) 0 a (augMean1 x a).cols (Sto.const a x.components 0)
        = some mean2 ∧
      augmentO x a a q = some (augmented x a q mean2, true) := by
  obtain ⟨m2, hm2⟩ := Sto.assignBlock_isSome (augMean1 x a) (Sto.const a x.components 0) (x.dim + a - a) 0 a
    (augMean1 x a).cols (by simp [augMean1, hmc])
  refine ⟨m2, hm2, ?_⟩
  simp only [augMean1] at hm2
  simp only [augmentO, ne_eq, not_true_eq_false, if_false, hk, hm2, augmented]

/-- If the mean storage does not have `components` columns the zero assignment asserts. -/
theorem augmentO_asserts [Zero α] (x : Container α) (a : Nat) (q : Nat → Nat → Option α)
    (hmc : x.mean.cols ≠ x.components) : augmentO x a a q = none := by
  have : (augMean1 x a).assignBlock (x.dim + a - a) 0 a (augMean1 x a).cols (Sto.const a x.components 0) = none := by
    unfold Sto.assignBlock
    rw [if_neg]
    simp only [augMean1, Sto.conservativeResize_cols, Sto.const_cols]
    omega
  simp only [augMean1] at this
  simp only [augmentO, ne_eq, not_true_eq_false, if_false, this, ite_self]

theorem wf_augmented [Zero α] (x : Container α) (h : WF x) (a : Nat) (q : Nat → Nat → Option α) (mean2 : Sto α)
    (hm : mean2.rows = x.dim + a ∧ mean2.cols = x.components) : WF (augmented x a q mean2) := by
  obtain ⟨kind, comps, qq, dcc, dim, dl, dci, dn, dcv, mean, cov, weight, state⟩ := x
  obtain ⟨hdcc, hdim, hdcov, hmr, hmc, hcr, hcc, hwr, hwc, hsr, hsc, hga⟩ := h
  obtain ⟨hm1, hm2⟩ := hm
  simp only at hdcc hdim hdcov hmr hmc hcr hcc hwr hwc hsr hsc hga hm1 hm2
  cases qq <;> simp only [if_true, if_false, Bool.false_eq_true] at hdcc hdim hdcov <;>
  constructor <;> simp only [augmented, Sto.build_rows, Sto.build_cols, if_true, if_false, Bool.false_eq_true] <;>
  first
    | assumption
    | omega
    | (intro hk'; have := hsr hk'; omega)

/-- `augmentWithNoise` keeps the container well-formed, whatever it is given. -/
theorem wf_augmentO [Zero α] (x : Container α) (h : WF x) (qr qc : Nat) (q : Nat → Nat → Option α)
    (y : Container α) (b : Bool) (hy : augmentO x qr qc q = some (y, b)) : WF y := by
  by_cases hsq : qr = qc
  · subst hsq
    by_cases hk : x.components = 0
    · rw [augmentO_zero_components x qr q hk] at hy
      cases hy
    obtain ⟨m2, hm2, he⟩ := augmentO_square x qr q h.meanCols hk
    rw [he] at hy
    cases hy
    have hd := Sto.assignBlock_dims hm2
    apply wf_augmented x h qr q m2
    simp only [augMean1, Sto.conservativeResize_rows, Sto.conservativeResize_cols] at hd
    exact ⟨hd.1, by rw [hd.2, h.meanCols]⟩
  · rw [augmentO_nonsquare x qr qc q hsq] at hy
    cases hy
    exact h

theorem augment_nonsquare [Zero α] (x : Container α) (qr qc : Nat) (q : Nat → Nat → α) (h : qr ≠ qc) :
    augment x qr qc q = some (x, false) :=
  augmentO_nonsquare x qr qc _ h

theorem wf_augment [Zero α] (x : Container α) (h : WF x) (qr qc : Nat) (q : Nat → Nat → α)
    (y : Container α) (b : Bool) (hy : augment x qr qc q = some (y, b)) : WF y :=
  wf_augmentO x h qr qc _ y b hy

end
end BFL.Shape
