import BFL.Driver.Proto
import BFL.Core.GaussJordan
import BFL.Model.KF
import BFL.Model.KFLik
import BFL.Driver.GPF
import BFL.Model.KFHist
import BFL.Model.Skip
/-
Driver entries for the Kalman steps (C01, C02), executed exactly over `Rat`.

  kfp n k exo F Q [G g] means covs outw     -> "ok" means covs weights
  kfc n m k H R y means covs outw           -> "ok" cert means covs weights S_i...
  kfinfo n m k H R y means covs             -> information-form oracle (P⁻¹ + HᵀR⁻¹H)⁻¹, P⁺(P⁻¹m + HᵀR⁻¹y)
-/
namespace BFL.DriverKF
open BFL BFL.Proto

def readGM (n k : Nat) : R (GM Rat n k) := do
  let means ← matCM rat n k
  let covs ← matCM rat n (n * k)
  pure { mean := fun i => Vec.eval (Vec.of (fun r => means r i))
         cov := fun i => Mat.eval (Mat.of (fun r c => covs r ⟨n * i.val + c.val, by
           have hi := i.isLt; have hc := c.isLt
           calc n * i.val + c.val < n * i.val + n := by omega
             _ = n * (i.val + 1) := by rw [Nat.mul_succ]
             _ ≤ n * k := Nat.mul_le_mul_left n hi⟩))
         weight := Vec.of (fun _ => 0) }

def outGM {n k : Nat} (b : GM Rat n k) : List String :=
  ((List.finRange k).flatMap fun i => outVec ratStr (b.mean i)) ++
  ((List.finRange k).flatMap fun i => outMatCM ratStr (Mat.eval (b.cov i))) ++
  (outVec ratStr b.weight)

def withWeights {n k : Nat} (b : GM Rat n k) (w : Vec Rat k) : GM Rat n k := { b with weight := w }

def kfp : R String := do
  let n ← nat; let k ← nat; let exo ← bool
  let F ← matCM rat n n
  let Q ← matCM rat n n
  let exoF ← if exo then do
      let G ← matCM rat n n
      let g ← vec rat n
      pure (some (fun x : Vec Rat n => (G.mulVec x).add g))
    else pure none
  let b ← readGM n k
  let outw ← vec rat k
  done
  let out := withWeights b outw
  let res := kfPredict F Q exoF b out
  pure (join ("ok" :: outGM res))

/-- certified exact inverse; `none` when singular or when the certificate fails -/
def invCert {m : Nat} (S : Mat Rat m m) : Option (Mat Rat m m) :=
  match matInv? m S with
  | none => none
  | some X => let X := Mat.eval X; if certInv m S X then some X else none

def kfc : R String := do
  let n ← nat; let m ← nat; let k ← nat
  let H ← matCM rat m n
  let R ← matCM rat m m
  let y ← vec rat m
  let b ← readGM n k
  let outw ← vec rat k
  done
  let out := withWeights b outw
  -- every inverse the step needs, certified exactly
  let Ss := (List.finRange k).map fun i => Mat.eval (kfS H (b.cov i) R)
  let invs := Ss.map invCert
  if invs.any Option.isNone then pure "inv-cert-fail" else
  let table := (Ss.zip invs).toArray
  -- `inv` looks the argument up among the certified pairs (exact equality of all entries)
  let inv : Mat Rat m m → Mat Rat m m := fun S =>
    match table.find? (fun p => (Mat.toList p.1 == Mat.toList S)) with
    | some (_, some X) => X
    | _ => Mat.zero
  let res := kfCorrect inv H R y b out
  let res : GM Rat n k := { mean := fun i => Vec.eval (res.mean i), cov := fun i => Mat.eval (res.cov i), weight := res.weight }
  let sOut := Ss.flatMap fun S => outMatCM ratStr S
  let innov := (List.finRange k).flatMap fun i => outVec ratStr (kfInnovation H y (b.mean i))
  pure (join ("ok" :: outGM res ++ sOut ++ innov))

/-- Specification side of C01, computed independently of the code's formula. -/
def kfinfo : R String := do
  let n ← nat; let m ← nat; let k ← nat
  let H ← matCM rat m n
  let R ← matCM rat m m
  let y ← vec rat m
  let b ← readGM n k
  done
  match invCert R with
  | none => pure "inv-cert-fail"
  | some Ri =>
    let HtRi := Mat.eval (H.transpose.mul Ri)
    let J := Mat.eval (HtRi.mul H)
    let outs := (List.finRange k).map fun i =>
      match invCert (b.cov i) with
      | none => none
      | some Pi =>
        match invCert (Mat.eval (Pi.add J)) with
        | none => none
        | some Pp =>
          let rhs := (Pi.mulVec (b.mean i)).add (HtRi.mulVec y)
          some (outVec ratStr (Pp.mulVec rhs) ++ outMatCM ratStr Pp)
    if outs.any Option.isNone then pure "inv-cert-fail" else
    pure (join ("ok" :: outs.flatMap fun o => o.getD []))

/-- `kfLikelihood` executed over `Rat` (field operations, determinant and certified inverse exact;
    `log`/`exp` through `Float`, see `DriverGPF.ratTransc`):
      kflik n m k H R y means covs   ->  "ok" one likelihood per component -/
def kflik : R String := do
  let n ← nat; let m ← nat; let k ← nat
  let H ← matCM rat m n
  let Rm ← matCM rat m m
  let y ← vec rat m
  let b ← readGM n k
  done
  let inv : InvFn Rat := fun _ A => DriverGPF.invOr A
  let outs := (List.finRange k).map fun i =>
    ratStr (@kfLikelihood Rat _ _ _ _ _ _ _ _ _ DriverGPF.ratTransc n m k inv H Rm y b i)
  pure (join ("ok" :: outs))

/-! ### histories (`Model/KFHist.lean`)

  kfh n k exo sp ss se sc  pred0w corr0(means covs w)  nsteps
      { ncmd {name on}*  F Q [G g]  hasmeas [m H R y] }*
  -> "ok" { "step" sp ss se sc cert  pred(means covs w) corr(means covs w)  ("nolik" | "lik" v_1..v_k) }*

`exo`: 0 no exogenous model, 1/2 one is attached (`u = G x + g`, content per step); `sp ss se sc`: the
flags the objects start with (all 0 for a filter as constructed); commands are `GaussianFilter::skip`
calls (name 0 prediction, 1 state, 2 exogenous, 3 correction, 4 all), run through the skip model of
`Model/Skip.lean`; `cert` = every inverse the step took is an exact two-sided inverse. -/

def readGMw (n k : Nat) : R (GM Rat n k) := do
  let b ← readGM n k
  let w ← vec rat k
  pure { b with weight := w }

def stepName (c : Nat) : BFL.Skip.StepName :=
  match c with
  | 0 => .prediction | 1 => .state | 2 => .exogenous | 3 => .correction | 4 => .all | _ => .unknown

def invHist : (m : Nat) → Mat Rat m m → Mat Rat m m := fun m S =>
  match matInv? m S with
  | some X => Mat.eval X
  | none => Mat.zero

def kfh : R String := do
  let n ← nat; let k ← nat; let exo ← nat
  let sp ← bool; let ss ← bool; let se ← bool; let sc ← bool
  let pw ← vec rat k
  let corr0 ← readGMw n k
  let nsteps ← nat
  let mut sk : BFL.Skip.SkipState := { pred := sp, state := ss, exo := if exo != 0 then some se else none, corr := sc }
  let mut st : KFFilter Rat n k := kfFilterInit { mean := fun _ => Vec.zero, cov := fun _ => Mat.zero, weight := pw } corr0
  let mut out : Array String := #["ok"]
  for _ in [0:nsteps] do
    let ncmd ← nat
    for _ in [0:ncmd] do
      let nm ← nat; let on ← bool
      sk := (BFL.Skip.filterSkip sk (stepName nm) on).st
    let F ← matCM rat n n
    let Q ← matCM rat n n
    let exoF ← if exo != 0 then do
        let G ← matCM rat n n
        let g ← vec rat n
        pure (some (fun x : Vec Rat n => (G.mulVec x).add g))
      else pure none
    let hasmeas ← bool
    let meas ← if hasmeas then do
        let m ← nat
        let H ← matCM rat m n
        let Rm ← matCM rat m m
        let y ← vec rat m
        pure (some ({ m := m, H := H, R := Rm, y := y } : KFMeas Rat n))
      else pure none
    let s : KFHStep Rat n := { F := F, Q := Q, exo := exoF, skipPred := sk.pred, skipState := sk.state,
                               skipExo := sk.exo.getD false, meas := meas, skipCorr := sk.corr }
    st := kfFilterStepE invHist st s
    -- certificate: every innovation covariance the step inverted has an exact inverse
    let cert := if s.skipCorr then true else
      match s.meas with
      | none => true
      | some z => (List.finRange k).all fun i =>
          let S := Mat.eval (kfS z.H (st.pred.cov i) z.R)
          certInv z.m S (invHist z.m S)
    let b2s := fun (b : Bool) => if b then "1" else "0"
    out := out ++ #["step", b2s s.skipPred, b2s s.skipState, b2s s.skipExo, b2s s.skipCorr, b2s cert]
    out := out ++ (outGM st.pred).toArray ++ (outGM st.corr).toArray
    let inv : InvFn Rat := fun _ A => DriverGPF.invOr A
    match @kfGetLikelihood Rat _ _ _ _ _ _ _ _ _ DriverGPF.ratTransc n k inv st with
    | none => out := out.push "nolik"
    | some l => out := out ++ #["lik"] ++ ((List.finRange k).map fun i => ratStr (l i)).toArray
  done
  pure (join out.toList)

/-- `LinearMeasurementModel::predictedMeasure` + `::innovation` on a batch:
      lmm n m k H X(n×k) c Y(m×(c+1))  ->  "ok" predicted(m×k) innovation(m×k) -/
def lmm : R String := do
  let n ← nat; let m ← nat; let k ← nat
  let H ← matCM rat m n
  let X ← matCM rat n k
  let c ← nat
  let Y ← matCM rat m (c + 1)
  done
  let P := linPredictedMeasure H X
  pure (join ("ok" :: outMatCM ratStr P ++ outMatCM ratStr (Mat.eval (linInnovation P Y))))

/-- `LTIMeasurementModel` constructor:  ltictor hr hc rr rc  ->  outcome -/
def ltictor : R String := do
  let hr ← nat; let hc ← nat; let rr ← nat; let rc ← nat
  done
  pure (match ltiMeasCtor hr hc rr rc with
    | .ok => "ok" | .measEmpty => "throw:meas-empty" | .noiseEmpty => "throw:noise-empty"
    | .noiseNotSquare => "throw:noise-not-square" | .rowsMismatch => "throw:rows-mismatch")

def handle (op : String) (args : List String) : Option String :=
  match op with
  | "kfp" => some ((run kfp args).getD "bad-args")
  | "kfc" => some ((run kfc args).getD "bad-args")
  | "kfinfo" => some ((run kfinfo args).getD "bad-args")
  | "kflik" => some ((run kflik args).getD "bad-args")
  | "kfh" => some ((run kfh args).getD "bad-args")
  | "lmm" => some ((run lmm args).getD "bad-args")
  | "ltictor" => some ((run ltictor args).getD "bad-args")
  | _ => none

end BFL.DriverKF
