import BFL.Proofs.Race
/-
C10 — thread confinement: a member for which no function reachable by the controller role has an access row
is never accessed by the controller thread in any interleaving that conforms to the table.  Used for the
pseudo-members that stand for the user's model objects (measurement model, likelihood model, particle
initialisation): no control command may reach `freeze()` / `measure()` / `likelihood()` / `initialize()`.
-/
namespace BFL.Race

theorem controllerFree_of_cert {T : Table} {SC : Nat} (hC : ReachCert T .controller SC) (f : Nat)
    (h : T.controllerFreeIn SC f = true) : ControllerFree T f := by
  intro r hr hreach hf
  have hbit : SC.testBit r.meth = true := (hC.iff r.meth).2 hreach
  unfold Table.controllerFreeIn Table.rowsOn at h
  rw [List.isEmpty_iff] at h
  have : r ∈ T.accesses.filter (fun a => a.field == f && SC.testBit a.meth) := by
    simp [List.mem_filter, hr, hf, hbit]
  rw [h] at this
  exact absurd this (by simp)

/-- a controller-free member is never accessed by the controller thread -/
theorem controller_free_no_access (T : Table) (f : Nat) (h : ControllerFree T f) {tr : List Ev}
    (hc : Conforms T tr) (pre post : List Ev) (o : Obj) (w s : Bool) :
    tr ≠ pre ++ Ev.acc .controller (o, f) w s :: post := by
  intro htr
  obtain ⟨r, hr, hreach, hf, _⟩ := hc pre _ post htr
  exact h r hr hreach hf

end BFL.Race
