import BFL.Model.UT
import BFL.Bridge.Mat
import BFL.Proofs.UT
import BFL.Proofs.UTCirc
import BFL.Proofs.UTEuler
import BFL.Proofs.UTEulerAffine
import BFL.Proofs.UTQuat
import BFL.Model.UTStore
import BFL.Proofs.UTStore
import Mathlib.Analysis.Matrix.Order
import Mathlib.Analysis.SpecialFunctions.Sqrt
/-
C03 — The unscented transform preserves moments and is exact for affine maps.

Theorems about the model in `BFL/Model/UT.lean` (`utWeights`, `sigmaPoints`, `unscentedTransform`
and the four model overloads), for linear layouts with and without an appended noise block,
over every field of characteristic zero (ℝ for the property, ℚ for the executed model), for every
dimension, every number of components, every `(α, β, κ)` with `n + λ ≠ 0`, every affine map.

The square-root routine (`JacobiSVD` in the code) is the parameter `fac`; the only thing assumed
about it is the contract `FacOn fac c P : fac c P · (fac c P)ᵀ = c · P` on the covariances it is
applied to.  No definiteness is assumed of `P`: whenever such a factor exists (every symmetric
PSD `P`, singular ones included, `c ≥ 0`: `facOn_exists_of_posSemidef`) the identities hold.  The
contract is checked numerically on every `sigma_point()` call the correspondence run observes.

Circular and quaternion layouts: last section of this file (scalar kernels over ℝ; see
`design-notes/C03.md` for what is partial).
-/
namespace BFL
open Matrix UTProofs
open scoped MatrixOrder

set_option linter.unusedSectionVars false

variable {α : Type} [Field α] [CharZero α] [Inhabited α] {n nx nz ny k : ℕ}

/-- contract of the square-root routine on one call -/
def FacOn (fac : α → Mat α n n → Mat α n n) (c : α) (P : Mat α n n) : Prop :=
  toM (fac c P) * (toM (fac c P))ᵀ = c • toM P

/-! ### Weights -/

/-- The mean weights sum to one whenever `n + λ ≠ 0`. -/
theorem ut_weights_sum_one (n : ℕ) (alpha beta kappa : α)
    (hc : (n : α) + utLambda n alpha kappa ≠ 0) :
    ∑ j, (utWeights n alpha beta kappa).mean j = 1 := by
  have h := toV_utWeights_mean n alpha beta kappa
  have : ∑ j, (utWeights n alpha beta kappa).mean j = ∑ j, toV (utWeights n alpha beta kappa).mean j := rfl
  rw [this, h, sum_wv]
  exact (weights_facts _ hc).1

/-- The covariance weights sum to `1 + (1 − α² + β)`. -/
theorem ut_weights_cov_sum (n : ℕ) (alpha beta kappa : α)
    (hc : (n : α) + utLambda n alpha kappa ≠ 0) :
    ∑ j, (utWeights n alpha beta kappa).cov j = 1 + (1 - alpha * alpha + beta) := by
  have h := toV_utWeights_cov n alpha beta kappa
  have : ∑ j, (utWeights n alpha beta kappa).cov j = ∑ j, toV (utWeights n alpha beta kappa).cov j := rfl
  rw [this, h, sum_wv]
  have := (weights_facts (n := n) _ hc).1
  linear_combination this

/-- `c = n + λ = α² (n + κ)`; all non-central weights are `1 / (2c)`. -/
theorem ut_weights_c (n : ℕ) (alpha beta kappa : α) :
    (utWeights n alpha beta kappa).c = alpha * alpha * ((n : α) + kappa) ∧
    ∀ j : Fin (2 * n + 1), j.val ≠ 0 →
      (utWeights n alpha beta kappa).mean j = 1 / (2 * (utWeights n alpha beta kappa).c) ∧
      (utWeights n alpha beta kappa).cov j = 1 / (2 * (utWeights n alpha beta kappa).c) := by
  refine ⟨by simp [utWeights, utLambda], ?_⟩
  intro j hj
  simp only [utWeights, Vec.of_apply, if_neg hj, Nat.cast_one, Nat.cast_ofNat, and_self]

/-! ### Sigma points -/

/-- The first sigma point of every component is its mean (whatever the factor). -/
theorem ut_first_is_mean (fac : α → Mat α n n → Mat α n n) (c : α) (b : GM α n k) (i : Fin k) (r : Fin n) :
    sigmaPoints fac c b i r ⟨0, by omega⟩ = b.mean i r := by
  simp [sigmaPoints, sigmaPts, perturb]

/-- Sigma points come in pairs symmetric about the mean: `X_{j} + X_{j+n} = 2 m`. -/
theorem ut_points_symmetric (fac : α → Mat α n n → Mat α n n) (c : α) (b : GM α n k) (i : Fin k)
    (r l : Fin n) :
    sigmaPoints fac c b i r ⟨l.val + 1, by omega⟩ + sigmaPoints fac c b i r ⟨l.val + 1 + n, by omega⟩
      = 2 * b.mean i r := by
  have h := congrFun (congrFun (toM_sigmaPoints fac c b i) r)
  simp only [toM_apply, Matrix.add_apply] at h
  rw [h, h, E_plus, E_minus]
  simp only [rep, toV_apply]
  ring

/-- Under the weights, the sigma points reproduce the mean they were drawn from. -/
theorem ut_reproduces_mean (fac : α → Mat α n n → Mat α n n) (alpha beta kappa : α)
    (hc : (n : α) + utLambda n alpha kappa ≠ 0) (b : GM α n k) (i : Fin k) :
    (sigmaPoints fac (utWeights n alpha beta kappa).c b i).mulVec (utWeights n alpha beta kappa).mean
      = b.mean i := by
  apply Vec.ext; intro r
  have : toV ((sigmaPoints fac (utWeights n alpha beta kappa).c b i).mulVec (utWeights n alpha beta kappa).mean)
      = toV (b.mean i) := by
    rw [toV_mulVec, toM_sigmaPoints, toV_utWeights_mean]
    have := affine_mean (1 : Matrix (Fin n) (Fin n) α) 0 (toV (b.mean i))
      (toM (fac (utWeights n alpha beta kappa).c (b.cov i))) _ _ (weights_facts _ hc).1
    have hz : (rep (0 : Fin n → α) : Matrix (Fin n) (Fin (2 * n + 1)) α) = 0 := by ext; simp [rep]
    simpa only [Matrix.one_mul, Matrix.one_mulVec, add_zero, hz] using this
  exact congrFun this r

/-- Under the weights, the sigma points reproduce the covariance they were drawn from
    (any `P` admitting a factor, singular ones included). -/
theorem ut_reproduces_cov (fac : α → Mat α n n → Mat α n n) (alpha beta kappa : α)
    (hc : (n : α) + utLambda n alpha kappa ≠ 0) (b : GM α n k) (i : Fin k)
    (hfac : FacOn fac (utWeights n alpha beta kappa).c (b.cov i)) :
    utCov (utWeights n alpha beta kappa).cov
      (utOffsets (sigmaPoints fac (utWeights n alpha beta kappa).c b i) (b.mean i))
      (utOffsets (sigmaPoints fac (utWeights n alpha beta kappa).c b i) (b.mean i))
      = b.cov i := by
  apply toM_injective
  rw [toM_utCov, toM_utOffsets, toM_sigmaPoints, toV_utWeights_cov, add_sub_cancel_right]
  have := affine_cov (1 : Matrix (Fin n) (Fin n) α) _ _
    (utLambda n alpha kappa / ((n : α) + utLambda n alpha kappa) + (1 - alpha * alpha + beta)) _ _
    hfac (weights_facts _ hc).2
  simpa only [Matrix.one_mul, Matrix.mul_one, transpose_one] using this

/-! ### Affine maps, generic overload -/

/-- all three moments of the generic transform of an affine map, per component -/
theorem ut_affine_all (fac : α → Mat α (nx + nz) (nx + nz) → Mat α (nx + nz) (nx + nz))
    (alpha beta kappa : α) (hc : ((nx + nz : ℕ) : α) + utLambda (nx + nz) alpha kappa ≠ 0)
    (b : GM α (nx + nz) k) (hfac : ∀ i, FacOn fac (utWeights (nx + nz) alpha beta kappa).c (b.cov i))
    (A : Mat α ny (nx + nz)) (bv : Vec α ny) :
    ∃ o, unscentedTransform (nx := nx) (nz := nz) fac (utWeights (nx + nz) alpha beta kappa) b
          (fun X => some (affineMap A bv X)) = some o ∧
      ∀ i, toV (o.mean i) = toM A *ᵥ toV (b.mean i) + toV bv ∧
           toM (o.cov i) = toM A * toM (b.cov i) * (toM A)ᵀ ∧
           toM (o.cross i) = (toM (b.cov i) * (toM A)ᵀ).submatrix (Fin.castAdd nz) id := by
  refine ⟨_, rfl, fun i => ?_⟩
  exact utComponent_affine alpha beta kappa hc (b.mean i) _ (b.cov i) (hfac i) _
    (toM_sigmaPoints fac _ b i) A bv _ (toM_affineMap A bv _ i)

/-- Pushing the sigma points through `x ↦ A x + b` yields exactly the mean `A m + b`. -/
theorem ut_affine_mean (fac : α → Mat α (nx + nz) (nx + nz) → Mat α (nx + nz) (nx + nz))
    (alpha beta kappa : α) (hc : ((nx + nz : ℕ) : α) + utLambda (nx + nz) alpha kappa ≠ 0)
    (b : GM α (nx + nz) k) (hfac : ∀ i, FacOn fac (utWeights (nx + nz) alpha beta kappa).c (b.cov i))
    (A : Mat α ny (nx + nz)) (bv : Vec α ny) :
    ∃ o, unscentedTransform (nx := nx) (nz := nz) fac (utWeights (nx + nz) alpha beta kappa) b
          (fun X => some (affineMap A bv X)) = some o ∧
      ∀ i, toV (o.mean i) = toM A *ᵥ toV (b.mean i) + toV bv := by
  obtain ⟨o, ho, h⟩ := ut_affine_all fac alpha beta kappa hc b hfac A bv
  exact ⟨o, ho, fun i => (h i).1⟩

/-- … and exactly the covariance `A P Aᵀ`. -/
theorem ut_affine_cov (fac : α → Mat α (nx + nz) (nx + nz) → Mat α (nx + nz) (nx + nz))
    (alpha beta kappa : α) (hc : ((nx + nz : ℕ) : α) + utLambda (nx + nz) alpha kappa ≠ 0)
    (b : GM α (nx + nz) k) (hfac : ∀ i, FacOn fac (utWeights (nx + nz) alpha beta kappa).c (b.cov i))
    (A : Mat α ny (nx + nz)) (bv : Vec α ny) :
    ∃ o, unscentedTransform (nx := nx) (nz := nz) fac (utWeights (nx + nz) alpha beta kappa) b
          (fun X => some (affineMap A bv X)) = some o ∧
      ∀ i, toM (o.cov i) = toM A * toM (b.cov i) * (toM A)ᵀ := by
  obtain ⟨o, ho, h⟩ := ut_affine_all fac alpha beta kappa hc b hfac A bv
  exact ⟨o, ho, fun i => (h i).2.1⟩

/-- … and exactly the input/output cross-covariance `P Aᵀ` (plain layout, no noise rows). -/
theorem ut_affine_cross (fac : α → Mat α n n → Mat α n n)
    (alpha beta kappa : α) (hc : (n : α) + utLambda n alpha kappa ≠ 0)
    (b : GM α n k) (hfac : ∀ i, FacOn fac (utWeights n alpha beta kappa).c (b.cov i))
    (A : Mat α ny n) (bv : Vec α ny) :
    ∃ o, unscentedTransform (nx := n) (nz := 0) fac (utWeights n alpha beta kappa) b
          (fun X => some (affineMap A bv X)) = some o ∧
      ∀ i, toM (o.cross i) = toM (b.cov i) * (toM A)ᵀ := by
  obtain ⟨o, ho, h⟩ := ut_affine_all (nx := n) (nz := 0) fac alpha beta kappa hc b hfac A bv
  refine ⟨o, ho, fun i => ?_⟩
  rw [(h i).2.2]
  ext a c; simp

/-- With noise rows in the input, the cross-covariance keeps the non-noise rows of `P Aᵀ` only. -/
theorem ut_affine_cross_rows (fac : α → Mat α (nx + nz) (nx + nz) → Mat α (nx + nz) (nx + nz))
    (alpha beta kappa : α) (hc : ((nx + nz : ℕ) : α) + utLambda (nx + nz) alpha kappa ≠ 0)
    (b : GM α (nx + nz) k) (hfac : ∀ i, FacOn fac (utWeights (nx + nz) alpha beta kappa).c (b.cov i))
    (A : Mat α ny (nx + nz)) (bv : Vec α ny) :
    ∃ o, unscentedTransform (nx := nx) (nz := nz) fac (utWeights (nx + nz) alpha beta kappa) b
          (fun X => some (affineMap A bv X)) = some o ∧
      ∀ i (a : Fin nx) (c : Fin ny),
        o.cross i a c = (toM (b.cov i) * (toM A)ᵀ) (Fin.castAdd nz a) c := by
  obtain ⟨o, ho, h⟩ := ut_affine_all fac alpha beta kappa hc b hfac A bv
  refine ⟨o, ho, fun i a c => ?_⟩
  have := congrFun (congrFun (h i).2.2 a) c
  simpa using this

/-! ### Noise-augmented layout: `[A D]` on `blockdiag(P, Q)` -/

/-- Augmented belief `(m, 0)`, `blockdiag(P, Q)` pushed through `(x, w) ↦ A x + D w + b`:
    mean `A m + b`, covariance `A P Aᵀ + D Q Dᵀ`, cross-covariance `P Aᵀ` (noise rows excluded). -/
theorem ut_augmented_affine (fac : α → Mat α (nx + nz) (nx + nz) → Mat α (nx + nz) (nx + nz))
    (alpha beta kappa : α) (hc : ((nx + nz : ℕ) : α) + utLambda (nx + nz) alpha kappa ≠ 0)
    (b : GM α nx k) (Q : Mat α nz nz)
    (hfac : ∀ i, FacOn fac (utWeights (nx + nz) alpha beta kappa).c ((augmentWithNoise b Q).cov i))
    (A : Mat α ny nx) (D : Mat α ny nz) (bv : Vec α ny) :
    ∃ o, unscentedTransform (nx := nx) (nz := nz) fac (utWeights (nx + nz) alpha beta kappa)
          (augmentWithNoise b Q) (fun X => some (affineMap (hcat A D) bv X)) = some o ∧
      ∀ i, toV (o.mean i) = toM A *ᵥ toV (b.mean i) + toV bv ∧
           toM (o.cov i) = toM A * toM (b.cov i) * (toM A)ᵀ + toM D * toM Q * (toM D)ᵀ ∧
           toM (o.cross i) = toM (b.cov i) * (toM A)ᵀ := by
  obtain ⟨o, ho, h⟩ := ut_affine_all fac alpha beta kappa hc (augmentWithNoise b Q) hfac (hcat A D) bv
  refine ⟨o, ho, fun i => ?_⟩
  obtain ⟨h1, h2, h3⟩ := h i
  refine ⟨?_, ?_, ?_⟩
  · rw [h1, hcat_mulVec_augment]
  · rw [h2, hcat_augment_hcatT]
  · rw [h3, augment_mul_hcatT_top]

/-- `augmentWithNoise` appends zero-mean rows, puts `Q` in the lower-right block, zeros off the
    diagonal blocks, keeps `P` and the weights. -/
theorem ut_augment_blocks (b : GM α nx k) (Q : Mat α nz nz) (i : Fin k) :
    (∀ j, (augmentWithNoise b Q).mean i (Fin.castAdd nz j) = b.mean i j) ∧
    (∀ j, (augmentWithNoise b Q).mean i (Fin.natAdd nx j) = 0) ∧
    (∀ a c, (augmentWithNoise b Q).cov i (Fin.castAdd nz a) (Fin.castAdd nz c) = b.cov i a c) ∧
    (∀ a c, (augmentWithNoise b Q).cov i (Fin.castAdd nz a) (Fin.natAdd nx c) = 0) ∧
    (∀ a c, (augmentWithNoise b Q).cov i (Fin.natAdd nx a) (Fin.castAdd nz c) = 0) ∧
    (∀ a c, (augmentWithNoise b Q).cov i (Fin.natAdd nx a) (Fin.natAdd nx c) = Q a c) ∧
    (augmentWithNoise b Q).weight = b.weight :=
  ⟨augment_mean_castAdd b Q i, augment_mean_natAdd b Q i, augment_cov_cc b Q i, augment_cov_cn b Q i,
   augment_cov_nc b Q i, augment_cov_nn b Q i, rfl⟩

/-! ### The four model overloads -/

/-- `StateModel&` overload with an affine `motion` on the augmented belief. -/
theorem ut_state_model_affine (fac : α → Mat α (nx + nz) (nx + nz) → Mat α (nx + nz) (nx + nz))
    (alpha beta kappa : α) (hc : ((nx + nz : ℕ) : α) + utLambda (nx + nz) alpha kappa ≠ 0)
    (b : GM α nx k) (Q : Mat α nz nz)
    (hfac : ∀ i, FacOn fac (utWeights (nx + nz) alpha beta kappa).c ((augmentWithNoise b Q).cov i))
    (A : Mat α ny nx) (D : Mat α ny nz) (bv : Vec α ny) (i : Fin k) :
    let o := utStateModel (nx := nx) (nz := nz) fac (utWeights (nx + nz) alpha beta kappa)
              (augmentWithNoise b Q) (affineMap (hcat A D) bv)
    toV (o.mean i) = toM A *ᵥ toV (b.mean i) + toV bv ∧
    toM (o.cov i) = toM A * toM (b.cov i) * (toM A)ᵀ + toM D * toM Q * (toM D)ᵀ ∧
    toM (o.cross i) = toM (b.cov i) * (toM A)ᵀ := by
  obtain ⟨o, ho, h⟩ := ut_augmented_affine fac alpha beta kappa hc b Q hfac A D bv
  have : o = utStateModel (nx := nx) (nz := nz) fac (utWeights (nx + nz) alpha beta kappa)
              (augmentWithNoise b Q) (affineMap (hcat A D) bv) := (Option.some.inj ho).symm
  subst this
  exact h i

/-- `AdditiveStateModel&` overload: the noise covariance is added after the transform:
    `A m + b`, `A P Aᵀ + Q`, `P Aᵀ`. -/
theorem ut_additive_state_affine (fac : α → Mat α n n → Mat α n n)
    (alpha beta kappa : α) (hc : (n : α) + utLambda n alpha kappa ≠ 0)
    (b : GM α n k) (hfac : ∀ i, FacOn fac (utWeights n alpha beta kappa).c (b.cov i))
    (A : Mat α ny n) (bv : Vec α ny) (Q : Mat α ny ny) (i : Fin k) :
    let o := utAdditiveStateModel (nx := n) (nz := 0) fac (utWeights n alpha beta kappa) b (affineMap A bv) Q
    toV (o.mean i) = toM A *ᵥ toV (b.mean i) + toV bv ∧
    toM (o.cov i) = toM A * toM (b.cov i) * (toM A)ᵀ + toM Q ∧
    toM (o.cross i) = toM (b.cov i) * (toM A)ᵀ := by
  obtain ⟨o, ho, h⟩ := ut_affine_all (nx := n) (nz := 0) fac alpha beta kappa hc b hfac A bv
  have ho' : o = utStateModel (nx := n) (nz := 0) fac (utWeights n alpha beta kappa) b (affineMap A bv) :=
    (Option.some.inj ho).symm
  obtain ⟨h1, h2, h3⟩ := h i
  subst ho'
  refine ⟨h1, ?_, ?_⟩
  · simp only [utAdditiveStateModel, UTOut.addNoise, toM_add, h2]
  · simp only [utAdditiveStateModel, UTOut.addNoise]
    rw [h3]; ext a c; simp

/-- `AdditiveMeasurementModel&` overload on a valid affine prediction: `H m + b`, `H P Hᵀ + R`, `P Hᵀ`. -/
theorem ut_additive_meas_affine (fac : α → Mat α n n → Mat α n n)
    (alpha beta kappa : α) (hc : (n : α) + utLambda n alpha kappa ≠ 0)
    (b : GM α n k) (hfac : ∀ i, FacOn fac (utWeights n alpha beta kappa).c (b.cov i))
    (H : Mat α ny n) (bv : Vec α ny) (R : Mat α ny ny) :
    ∃ o, utAdditiveMeasurementModel (nx := n) (nz := 0) fac (utWeights n alpha beta kappa) b
          (fun X => some (affineMap H bv X)) R = some o ∧
      ∀ i, toV (o.mean i) = toM H *ᵥ toV (b.mean i) + toV bv ∧
           toM (o.cov i) = toM H * toM (b.cov i) * (toM H)ᵀ + toM R ∧
           toM (o.cross i) = toM (b.cov i) * (toM H)ᵀ := by
  obtain ⟨o, ho, h⟩ := ut_affine_all (nx := n) (nz := 0) fac alpha beta kappa hc b hfac H bv
  have ho' : unscentedTransform (nx := n) (nz := 0) fac (utWeights n alpha beta kappa) b
      (fun X => some (affineMap H bv X)) = some o := ho
  refine ⟨o.addNoise R, ?_, fun i => ?_⟩
  · simp only [utAdditiveMeasurementModel, ho']
  · obtain ⟨h1, h2, h3⟩ := h i
    refine ⟨h1, ?_, ?_⟩
    · simp only [UTOut.addNoise, toM_add, h2]
    · simp only [UTOut.addNoise]
      rw [h3]; ext a c; simp

/-- `MeasurementModel&` overload on the augmented belief, valid affine prediction `H x + D v + b`. -/
theorem ut_meas_model_affine (fac : α → Mat α (nx + nz) (nx + nz) → Mat α (nx + nz) (nx + nz))
    (alpha beta kappa : α) (hc : ((nx + nz : ℕ) : α) + utLambda (nx + nz) alpha kappa ≠ 0)
    (b : GM α nx k) (R : Mat α nz nz)
    (hfac : ∀ i, FacOn fac (utWeights (nx + nz) alpha beta kappa).c ((augmentWithNoise b R).cov i))
    (H : Mat α ny nx) (D : Mat α ny nz) (bv : Vec α ny) :
    ∃ o, utMeasurementModel (nx := nx) (nz := nz) fac (utWeights (nx + nz) alpha beta kappa)
          (augmentWithNoise b R) (fun X => some (affineMap (hcat H D) bv X)) = some o ∧
      ∀ i, toV (o.mean i) = toM H *ᵥ toV (b.mean i) + toV bv ∧
           toM (o.cov i) = toM H * toM (b.cov i) * (toM H)ᵀ + toM D * toM R * (toM D)ᵀ ∧
           toM (o.cross i) = toM (b.cov i) * (toM H)ᵀ :=
  ut_augmented_affine fac alpha beta kappa hc b R hfac H D bv

/-! ### Failure -/

/-- A failed function evaluation is reported as failure by the generic transform and by both
    measurement overloads — never as a transformed belief; and a transform is reported as
    successful exactly when the evaluation was. -/
theorem ut_failure_propagates (fac : α → Mat α (nx + nz) (nx + nz) → Mat α (nx + nz) (nx + nz))
    (w : UTWeight α (nx + nz)) (b : GM α (nx + nz) k) (f : FunEval α (nx + nz) ny k) (R : Mat α ny ny) :
    (f (sigmaPoints fac w.c b) = none →
        unscentedTransform (nx := nx) (nz := nz) fac w b f = none ∧
        utMeasurementModel (nx := nx) (nz := nz) fac w b f = none ∧
        utAdditiveMeasurementModel (nx := nx) (nz := nz) fac w b f R = none) ∧
    ((unscentedTransform (nx := nx) (nz := nz) fac w b f).isSome = (f (sigmaPoints fac w.c b)).isSome) ∧
    ((utAdditiveMeasurementModel (nx := nx) (nz := nz) fac w b f R).isSome = (f (sigmaPoints fac w.c b)).isSome) := by
  refine ⟨fun h => ?_, ?_, ?_⟩
  · simp [utMeasurementModel, utAdditiveMeasurementModel, unscentedTransform, utFromPoints, h]
  · simp only [unscentedTransform, utFromPoints]; cases f (sigmaPoints fac w.c b) <;> rfl
  · simp only [utAdditiveMeasurementModel, unscentedTransform, utFromPoints]
    cases f (sigmaPoints fac w.c b) <;> rfl

/-! ### Degrees of freedom of a layout -/

/-- A quaternion counts three degrees of freedom, everything else one per row; the noiseless
    description drops exactly the noise rows. -/
theorem ut_dof (ly : Layout) :
    ly.dof = ly.lin + ly.circ * ly.tsize + ly.noise ∧
    ly.dim = ly.lin + ly.circ * ly.csize + ly.noise ∧
    ly.noiseless.dof + ly.noise = ly.dof ∧
    (ly.quat = false → ly.dof = ly.dim) := by
  cases ly with
  | mk l c q z =>
    cases q <;> simp [Layout.dof, Layout.dim, Layout.tsize, Layout.csize, Layout.noiseless]

/-! ### Non-vacuity -/

/-- Over ℝ every symmetric PSD `P` (singular ones included) and every `c ≥ 0` admit a factor:
    the contract `FacOn` is satisfiable exactly where the property quantifies. -/
theorem facOn_exists_of_posSemidef (P : Mat ℝ n n) (hP : (toM P).PosSemidef) (c : ℝ) (hc : 0 ≤ c) :
    ∃ fac : ℝ → Mat ℝ n n → Mat ℝ n n, FacOn fac c P := by
  have h0 : (0 : Matrix (Fin n) (Fin n) ℝ) ≤ toM P := hP.nonneg
  have hs : (CFC.sqrt (toM P)).PosSemidef := (CFC.sqrt_nonneg (toM P)).posSemidef
  have ht : (CFC.sqrt (toM P))ᵀ = CFC.sqrt (toM P) := by simpa using hs.1.eq
  have hsq : CFC.sqrt (toM P) * CFC.sqrt (toM P) = toM P := CFC.sqrt_mul_sqrt_self (toM P) h0
  refine ⟨fun _ _ => Mat.of (fun i j => Real.sqrt c * CFC.sqrt (toM P) i j), ?_⟩
  unfold FacOn
  have h1 : toM (Mat.of (fun i j => Real.sqrt c * CFC.sqrt (toM P) i j) : Mat ℝ n n)
      = Real.sqrt c • CFC.sqrt (toM P) := by
    ext i j; simp [toM]
  rw [h1, transpose_smul, ht, Matrix.smul_mul, Matrix.mul_smul, smul_smul, hsq, Real.mul_self_sqrt hc]

/-- A concrete instance over ℚ meeting every hypothesis (`n = 1`, `α = 1`, `β = 2`, `κ = 0`:
    `λ = 0`, `c = 1`, `P = 4 = 2·2`). -/
example : ∃ (fac : ℚ → Mat ℚ 1 1 → Mat ℚ 1 1) (P : Mat ℚ 1 1),
    ((1 : ℕ) : ℚ) + utLambda 1 (1 : ℚ) 0 ≠ 0 ∧ FacOn fac (utWeights 1 (1 : ℚ) 2 0).c P := by
  refine ⟨fun _ _ => Mat.of (fun _ _ => 2), Mat.of (fun _ _ => 4), by norm_num [utLambda], ?_⟩
  unfold FacOn
  ext i j
  simp [utWeights, utLambda, Matrix.mul_apply, toM]
  norm_num


/-! ### Circular (Euler angle) and quaternion blocks, over ℝ

Angles are compared modulo 2π through their representative in `(-π, π]` (`wrapAngle`); quaternions
in the rotation-vector tangent space.  "Spreads small enough" is made precise by the hypotheses:
offsets in `(-π, π)`, positive weighted resultant (angles); rotation vectors of norm in
`(10⁻⁴, π)` clearing the cut-off `5·10⁻⁵` of the logarithm (quaternions). -/

section circular
open Real

/-- `directional_sub(directional_add(p, m), m) = p` whenever `-π < p ≤ π`: the input offsets of
    the Euler-circular sigma points are the perturbations they were built from. -/
theorem ut_circ_roundtrip (p m : ℝ) (hp : p ∈ Set.Ioc (-π) π) : dirSub (dirAdd p m) m = p :=
  dir_roundtrip p m hp

/-- The first circular sigma point is the mean modulo 2π (equal to it when the mean is stored in
    `(-π, π]`). -/
theorem ut_circ_first_is_mean (m : ℝ) :
    Real.sin (dirAdd 0 m) = Real.sin m ∧ Real.cos (dirAdd 0 m) = Real.cos m ∧
    (m ∈ Set.Ioc (-π) π → dirAdd 0 m = m) := by
  unfold dirAdd
  rw [zero_add]
  exact ⟨sin_wrapAngle m, cos_wrapAngle m, fun h => wrapAngle_of_mem h⟩

/-- Circular mean of the propagated points of a map that is affine on the angle: for points
    `ȳ, ȳ ± δ_l` the weighted `directional_mean` under the unscented weights is `ȳ` (mod 2π),
    provided the weighted resultant `wm₀ + 2 w Σ cos δ_l` is positive. -/
theorem ut_circ_mean {n : ℕ} (hn : 1 ≤ n) (alpha beta kappa : ℝ) (ybar : ℝ) (δ : Fin n → ℝ)
    (hR : 0 < utLambda n alpha kappa / ((n : ℝ) + utLambda n alpha kappa)
            + 2 * (1 / (2 * ((n : ℝ) + utLambda n alpha kappa))) * ∑ l, Real.cos (δ l)) :
    dirMean (symAngles ybar δ) (utWeights n alpha beta kappa).mean = wrapAngle ybar :=
  dirMean_symmetric hn ybar δ _ _ _ (toV_utWeights_mean n alpha beta kappa) hR

/-- … and the offsets from that mean are exactly `±δ_l` when `|δ_l| < π`, so that the circular rows
    of the covariance are those of the linear case (`ut_affine_cov`) with `δ = (A B)` rows. -/
theorem ut_circ_offsets (ybar δ : ℝ) (h1 : -π < δ) (h2 : δ < π) :
    dirSub (ybar + δ) (wrapAngle ybar) = δ ∧ dirSub (ybar - δ) (wrapAngle ybar) = -δ ∧
    dirSub ybar (wrapAngle ybar) = 0 := by
  refine ⟨dirSub_wrapped_mean ybar δ ⟨h1, h2.le⟩, ?_, ?_⟩
  · rw [sub_eq_add_neg]; exact dirSub_wrapped_mean ybar (-δ) ⟨by linarith, by linarith⟩
  · have := dirSub_wrapped_mean ybar 0 ⟨by linarith [Real.pi_pos], Real.pi_pos.le⟩
    simpa using this

/-- The positivity hypothesis of `ut_circ_mean` is needed: with a negative resultant the circular
    mean flips by half a turn (outside the property's "spreads small enough"; recorded, not a defect). -/
theorem ut_circ_mean_flips_of_negative_resultant (R θ : ℝ) (hR : R < 0) :
    (Transc.atan2 (R * Real.sin θ) (R * Real.cos θ) : ℝ) = wrapAngle (θ + π) := by
  have := atan2_pos_mul (-R) (θ + π) (by linarith)
  rw [Real.sin_add_pi, Real.cos_add_pi] at this
  rw [← this]; congr 1 <;> ring

/-- Quaternion sigma points are unit quaternions times the mean: the exponential is a unit quaternion. -/
theorem ut_quat_exp_unit (r : V3 ℝ) :
    (qexp r).w ^ 2 + (qexp r).x ^ 2 + (qexp r).y ^ 2 + (qexp r).z ^ 2 = 1 := qexp_unit r

/-- Input offsets of the quaternion sigma points: `diff_quaternion(exp(r/2) ⊗ q, q) = r` for a unit
    mean `q` and `10⁻⁴ < ‖r‖ < π`, `sin(‖r‖/2) > 5·10⁻⁵` (exact outside the cut-off band); a zero
    perturbation leaves the mean. -/
theorem ut_quat_input_offsets (q : Quat ℝ) (hq : q.w ^ 2 + q.x ^ 2 + q.y ^ 2 + q.z ^ 2 = 1) (r : V3 ℝ)
    (h1 : (1e-4 : ℝ) < r.norm) (h2 : r.norm < π) (h3 : (5e-5 : ℝ) < Real.sin (r.norm / 2)) :
    qdiff (qsum q r) q = r ∧ qsum q ⟨0, 0, 0⟩ = q :=
  ⟨qdiff_qsum q hq r h1 h2 h3, qsum_zero q⟩

/-- On a layout without circular block the general `sigma_point()` model is the linear one:
    every row is `perturbation + mean`. -/
theorem ut_layout_linear_points (L Z : ℕ) (mean : Vec ℝ (Layout.dim ⟨L, 0, false, Z⟩))
    (pert : Mat ℝ (Layout.dof ⟨L, 0, false, Z⟩) (2 * Layout.dof ⟨L, 0, false, Z⟩ + 1))
    (r : Fin (Layout.dim ⟨L, 0, false, Z⟩)) (j : Fin (2 * Layout.dof ⟨L, 0, false, Z⟩ + 1)) :
    sigmaPointsLayout ⟨L, 0, false, Z⟩ mean pert r j
      = pert ⟨r.val, by have := r.isLt; simp [Layout.dim, Layout.dof, Layout.csize] at *; omega⟩ j + mean r := by
  have hr := r.isLt
  have hj := j.isLt
  simp only [Layout.dim, Layout.dof, Layout.csize] at hr hj
  simp only [sigmaPointsLayout, Mat.eval_eq, Layout.csize, Layout.tsize, Layout.dof]
  have hj' : j.val ≤ 2 * (L + Z) := by simp at hj; omega
  by_cases h : r.val < L
  · simp [Mat.getN, Vec.getN, Layout.dim, Layout.csize]
    dsimp only [Mat.of]
    simp [h, hj']
    rfl
  · simp [Mat.getN, Vec.getN, Layout.dim, Layout.csize]
    dsimp only [Mat.of]
    simp [h, hj']
    rfl

/-- **Linear + Euler-angle layouts, assembled**: for the layout-general model of `sigma_point()` and of
    the moment computation of `unscented_transform()` (`sigmaPointsLayout`, `utLayoutComponent`), on a
    layout with `lin` linear rows and `circ` Euler angles, the sigma points reproduce under the unscented
    weights the mean they were drawn from (linear rows exactly, angles modulo 2π) and the covariance —
    for every factor `B` with `B Bᵀ = c P` whose circular rows stay within half a turn
    (`|B r l| < π`) and have a positive weighted resultant. -/
theorem ut_euler_reproduces (ly : Layout) (hq : ly.quat = false) (hz : ly.noise = 0) (hn : 1 ≤ ly.dof)
    (alpha beta kappa : ℝ) (hc : (ly.dof : ℝ) + utLambda ly.dof alpha kappa ≠ 0)
    (m : Vec ℝ ly.dim) (B P : Mat ℝ ly.dof ly.dof)
    (hB : toM B * (toM B)ᵀ = (utWeights ly.dof alpha beta kappa).c • toM P)
    (hsmall : ∀ (r' l : Fin ly.dof), ly.lin ≤ r'.val → -π < B r' l ∧ B r' l < π)
    (hR : ∀ r' : Fin ly.dof, ly.lin ≤ r'.val →
      0 < utLambda ly.dof alpha kappa / ((ly.dof : ℝ) + utLambda ly.dof alpha kappa)
          + 2 * (1 / (2 * ((ly.dof : ℝ) + utLambda ly.dof alpha kappa))) * ∑ l, Real.cos (B r' l))
    (qmean : ℕ → Quat ℝ) :
    let X := sigmaPointsLayout ly m (perturb B)
    let res := utLayoutComponent ly ly (utWeights ly.dof alpha beta kappa) m X X qmean
    (∀ r : Fin ly.dim, r.val < ly.lin → res.1 r = m r) ∧
    (∀ r : Fin ly.dim, ly.lin ≤ r.val → res.1 r = wrapAngle (m r)) ∧
    res.2.1 = P := by
  intro X res
  refine ⟨fun r hr => ?_, fun r hr => ?_, ?_⟩
  · exact utLayoutMean_lin ly hq hz alpha beta kappa hc m B qmean r hr
  · exact utLayoutMean_circ ly hq hz alpha beta kappa hc hn m B qmean r hr
      (hR ⟨r.val, euler_row_lt_dof ly hq hz r⟩ hr)
  · exact utLayoutComponent_euler_cov ly hq hz alpha beta kappa hc hn m B P qmean hB hsmall hR

/-- **Affine maps into linear + Euler-angle layouts, assembled (`T P Tᵀ`).**  Moment computation of the
    layout-general model on propagated points whose rows are `ȳ_r + (T·[0, B, −B])_r` — exactly on the
    linear rows, modulo 2π on the angle rows (what a map that is affine on the linear block and of the form
    `±angle + C·x_lin + b` on the angles produces from wrapped sigma points).  For every factor with
    `B Bᵀ = c P`, angle rows of `T B` within half a turn and positive weighted resultants: the mean is
    `ȳ` (angles mod 2π), the covariance `T P Tᵀ`, and the cross-covariance with input offsets
    `[0, B_f, −B_f]` (`B_f` = the non-noise rows of `B`) is the corresponding rows of `P Tᵀ`. -/
theorem ut_euler_affine (ly : Layout) (hq : ly.quat = false) (hz : ly.noise = 0) {n nx : ℕ} (hn : 1 ≤ n)
    (alpha beta kappa : ℝ) (hc : (n : ℝ) + utLambda n alpha kappa ≠ 0)
    (T D : Mat ℝ ly.dof n) (B P : Mat ℝ n n) (hD : toM D = toM T * toM B)
    (hB : toM B * (toM B)ᵀ = (utWeights n alpha beta kappa).c • toM P)
    (ybar : Vec ℝ ly.dim) (Y : Mat ℝ ly.dim (2 * n + 1))
    (hYlin : ∀ (r : Fin ly.dim) (j : Fin (2 * n + 1)) (hr : r.val < ly.lin),
      Y r j = ybar r + perturbR D ⟨r.val, euler_row_lt_dof ly hq hz r⟩ j)
    (hYcirc : ∀ (r : Fin ly.dim) (j : Fin (2 * n + 1)) (hr : ly.lin ≤ r.val),
      Real.sin (Y r j) = Real.sin (ybar r + perturbR D ⟨r.val, euler_row_lt_dof ly hq hz r⟩ j) ∧
      Real.cos (Y r j) = Real.cos (ybar r + perturbR D ⟨r.val, euler_row_lt_dof ly hq hz r⟩ j))
    (hsmall : ∀ (r' : Fin ly.dof) (l : Fin n), ly.lin ≤ r'.val → -π < D r' l ∧ D r' l < π)
    (hR : ∀ r' : Fin ly.dof, ly.lin ≤ r'.val →
      0 < utLambda n alpha kappa / ((n : ℝ) + utLambda n alpha kappa)
          + 2 * (1 / (2 * ((n : ℝ) + utLambda n alpha kappa))) * ∑ l, Real.cos (D r' l))
    (qmean : ℕ → Quat ℝ) (Bin : Mat ℝ nx n) (f : Fin nx → Fin n) (hBin : toM Bin = (toM B).submatrix f id) :
    let W := utWeights n alpha beta kappa
    let mean := utLayoutMean ly W.mean Y qmean
    let Doff := utLayoutOffsets ly ly.dof Y mean
    (∀ r : Fin ly.dim, r.val < ly.lin → mean r = ybar r) ∧
    (∀ r : Fin ly.dim, ly.lin ≤ r.val → mean r = wrapAngle (ybar r)) ∧
    toM (utCov W.cov Doff Doff) = toM T * toM P * (toM T)ᵀ ∧
    toM (utCov W.cov (perturbR Bin) Doff) = (toM P * (toM T)ᵀ).submatrix f id := by
  intro W mean Doff
  have hoff : Doff = perturbR D :=
    affine_offsets ly hq hz hn alpha beta kappa hc D ybar Y hYlin hYcirc qmean hsmall hR
  have hw2 := (weights_facts (n := n) _ hc).2
  refine ⟨fun r hr => ?_, fun r hr => ?_, ?_, ?_⟩
  · exact affine_mean_lin ly hq hz hn alpha beta kappa hc D ybar Y hYlin hYcirc qmean r hr
  · exact affine_mean_circ ly hq hz hn alpha beta kappa hc D ybar Y hYlin hYcirc qmean r hr
      (hR ⟨r.val, euler_row_lt_dof ly hq hz r⟩ hr)
  · rw [hoff, toM_utCov, toM_perturbR, toV_utWeights_cov, Er_diag_Ert, hD, Matrix.transpose_mul]
    have : toM T * toM B * ((toM B)ᵀ * (toM T)ᵀ) = toM T * (toM B * (toM B)ᵀ) * (toM T)ᵀ := by
      simp only [Matrix.mul_assoc]
    rw [this, hB, utWeights_c, Matrix.mul_smul, Matrix.smul_mul, smul_smul, hw2, one_smul]
  · rw [hoff, toM_utCov, toM_perturbR, toM_perturbR, toV_utWeights_cov, Er_diag_Ert, hD, hBin,
      Matrix.transpose_mul]
    have : (toM B).submatrix f id * ((toM B)ᵀ * (toM T)ᵀ)
        = ((toM B * (toM B)ᵀ) * (toM T)ᵀ).submatrix f id := by
      rw [submatrix_rows_mul, Matrix.mul_assoc]
    rw [this, hB, utWeights_c, Matrix.smul_mul]
    ext a b
    simp only [Matrix.smul_apply, Matrix.submatrix_apply, smul_eq_mul, id_eq]
    rw [← mul_assoc, hw2, one_mul]

/-- **Quaternion output mean through the eigenvector contract** (spectral-gap argument; lemma of C18
    imported from `BFL/Proofs/QuatMean.lean`).  For quaternion sigma points `exp(±r_l/2) ⊗ c` around a
    unit centre `c` — after a map `x ↦ p ⊗ x` or `x ↦ x ⊗ p` the centre is `p ⊗ m` resp. `m ⊗ p` and the
    rotation vectors are rotated resp. unchanged — under the unscented weights with `c = n + λ > 0` (central
    weight of any sign) and a positive weighted gap, the centre meets the contract of the eigen-solver
    call of `mean_quaternion`, and **every** result meeting the contract is `±` the centre. -/
theorem ut_quat_mean_contract {n : ℕ} (alpha beta kappa : ℝ)
    (hc : 0 < (n : ℝ) + utLambda n alpha kappa)
    (c : Quat ℝ) (hunit : c.w ^ 2 + c.x ^ 2 + c.y ^ 2 + c.z ^ 2 = 1) (r : Fin n → V3 ℝ)
    (hgap : 0 < ∑ j, (utWeights n alpha beta kappa).mean j * (2 * (qexp (pertV r j)).w ^ 2 - 1)) :
    Quat.IsDominantEigvec
        (Quat.outerSum (toV (utWeights n alpha beta kappa).mean) (fun j => (toQ (qsum c (pertV r j))).get))
        (toQ c).get ∧
    ∀ v, Quat.IsDominantEigvec
        (Quat.outerSum (toV (utWeights n alpha beta kappa).mean) (fun j => (toQ (qsum c (pertV r j))).get)) v →
      v = (toQ c).get ∨ v = -(toQ c).get := by
  have hw := toV_utWeights_mean n alpha beta kappa
  have hgap' : 0 < ∑ j, wv (n := n) (utLambda n alpha kappa / ((n : ℝ) + utLambda n alpha kappa))
      (1 / (2 * ((n : ℝ) + utLambda n alpha kappa))) j * (2 * (qexp (pertV r j)).w ^ 2 - 1) := by
    have : ∀ j, (utWeights n alpha beta kappa).mean j = wv (n := n) (utLambda n alpha kappa / ((n : ℝ) + utLambda n alpha kappa))
        (1 / (2 * ((n : ℝ) + utLambda n alpha kappa))) j := fun j => congrFun hw j
    simpa only [this] using hgap
  rw [hw]
  exact quat_sigma_mean_contract _ _ (by positivity) c hunit r hgap'

/-- The tangent offsets do not depend on which of `±c` the eigen-solver returned (this is the `w < 0`
    branch of the logarithm), … -/
theorem ut_quat_offsets_sign (y c : Quat ℝ) (hw : (qmul y (qconj c)).w ≠ 0) :
    qdiff y (qneg c) = qdiff y c := qdiff_qneg y c hw

/-- … and for a fixed rotation composed on the quaternion block they are the rotated perturbations
    (`y = p ⊗ x`: `R_p r`) resp. the perturbations themselves (`y = x ⊗ p`), for spreads within the
    half-turn bound and outside the cut-off band: with `ut_affine_cov` on these offsets the quaternion rows of
    the covariance are those of `T P Tᵀ`, `T = R_p` resp. `1`. -/
theorem ut_quat_rotation_offsets (p c : Quat ℝ) (hp : p.w ^ 2 + p.x ^ 2 + p.y ^ 2 + p.z ^ 2 = 1)
    (hc : c.w ^ 2 + c.x ^ 2 + c.y ^ 2 + c.z ^ 2 = 1) (r : V3 ℝ)
    (h1 : (1e-4 : ℝ) < r.norm) (h2 : r.norm < π) (h3 : (5e-5 : ℝ) < Real.sin (r.norm / 2)) :
    qdiff (qmul p (qsum c r)) (qmul p c) = qrot p r ∧
    qdiff (qmul (qsum c r) p) (qmul c p) = r ∧
    (qrot p r).norm = r.norm :=
  ⟨qdiff_left_rotation p c hp hc r h1 h2 h3, qdiff_right_rotation p c hp hc r h1 h2 h3, qrot_norm p hp r⟩

/-- Non-vacuity of `ut_euler_reproduces`: one linear row and one angle, `α = 1`, `κ = 0` (`c = 2`),
    `B = 1`, `P = 1/2`. -/
example : ∃ (B P : Mat ℝ (Layout.dof ⟨1, 1, false, 0⟩) (Layout.dof ⟨1, 1, false, 0⟩)),
    toM B * (toM B)ᵀ = (utWeights (Layout.dof ⟨1, 1, false, 0⟩) (1 : ℝ) 2 0).c • toM P ∧
    (∀ (r' l : Fin (Layout.dof ⟨1, 1, false, 0⟩)), 1 ≤ r'.val → -π < B r' l ∧ B r' l < π) ∧
    (∀ r' : Fin (Layout.dof ⟨1, 1, false, 0⟩), 1 ≤ r'.val →
      0 < utLambda (Layout.dof ⟨1, 1, false, 0⟩) (1 : ℝ) 0 / (((Layout.dof ⟨1, 1, false, 0⟩ : ℕ) : ℝ) + utLambda (Layout.dof ⟨1, 1, false, 0⟩) (1 : ℝ) 0)
          + 2 * (1 / (2 * (((Layout.dof ⟨1, 1, false, 0⟩ : ℕ) : ℝ) + utLambda (Layout.dof ⟨1, 1, false, 0⟩) (1 : ℝ) 0))) * ∑ l, Real.cos (B r' l)) := by
  have hd : Layout.dof ⟨1, 1, false, 0⟩ = 2 := rfl
  refine ⟨Mat.of (fun i j => if i = j then 1 else 0), Mat.of (fun i j => if i = j then 1 / 2 else 0), ?_, ?_, ?_⟩
  · ext i j
    simp only [Matrix.mul_apply, Matrix.transpose_apply, toM_apply, Mat.of_apply, Matrix.smul_apply, smul_eq_mul,
      utWeights, utLambda]
    rw [Finset.sum_eq_single i]
    · by_cases h : i = j
      · simp [h]; norm_num [hd]
      · simp [h, Ne.symm h]
    · intro b _ hb; simp [Ne.symm hb]
    · simp
  · intro r' l _
    simp only [Mat.of_apply]
    have := Real.two_le_pi
    split <;> constructor <;> linarith
  · intro r' _
    have hcos : ∀ l : Fin (Layout.dof ⟨1, 1, false, 0⟩), 0 ≤ Real.cos ((Mat.of (fun i j => if i = j then (1:ℝ) else 0) : Mat ℝ _ _) r' l) := by
      intro l
      simp only [Mat.of_apply]
      split
      · exact Real.cos_one_pos.le
      · simp
    have hpos : 0 < ∑ l, Real.cos ((Mat.of (fun i j => if i = j then (1:ℝ) else 0) : Mat ℝ (Layout.dof ⟨1, 1, false, 0⟩) (Layout.dof ⟨1, 1, false, 0⟩)) r' l) := by
      apply Finset.sum_pos'
      · intro l _; exact hcos l
      · exact ⟨r', Finset.mem_univ _, by simp [Real.cos_one_pos]⟩
    have hl : utLambda (Layout.dof ⟨1, 1, false, 0⟩) (1 : ℝ) 0 = 0 := by simp [utLambda]
    rw [hl]
    simp only [zero_div, add_zero, zero_add]
    have : (0 : ℝ) < ((Layout.dof ⟨1, 1, false, 0⟩ : ℕ) : ℝ) := by rw [hd]; norm_num
    positivity

/-- Non-vacuity of the circular hypotheses: `n = 1`, `α = 1`, `κ = 0` (`wm₀ = 0`, `w = 1/2`),
    offset `δ = 1`: the resultant `cos 1` is positive. -/
example : (0 : ℝ) < utLambda 1 (1 : ℝ) 0 / (((1 : ℕ) : ℝ) + utLambda 1 (1 : ℝ) 0)
      + 2 * (1 / (2 * (((1 : ℕ) : ℝ) + utLambda 1 (1 : ℝ) 0))) * ∑ _l : Fin 1, Real.cos 1 := by
  have h : (0 : ℝ) < Real.cos 1 := Real.cos_one_pos
  simp [utLambda]
  linarith

end circular

/-! ### `augmentWithNoise` on the shared storage: refinement, necessity of the loop order, histories

The covariances of all components live side by side in one matrix; `augmentWithNoise` resizes it in place and
moves the old blocks to their new offsets by column swaps — last component first, last column first
(`BFL.augmentStore`, GaussianMixture.cpp:190-247).  The value-level model `BFL.augmentWithNoise`
(`[m; 0]`, `blockdiag(P_i, Q)`) used by every theorem above is a specification of that algorithm: -/

section storage
open UTStoreProofs

/-- **Refinement.**  For every number of components, every size of state and noise block and every content, the
    in-place algorithm leaves in block `i` of the storage exactly `blockdiag(P_i, Q)`: the covariance of component `i`
    of the value-level model. -/
theorem ut_augment_store_refines {α : Type} [Zero α] [Inhabited α] {d z k : ℕ} (b : GM α d k) (Q : Mat α z z) (i : Fin k) :
    covOfStore (d + z) (augmentStore d z k Q (storeOf b)) i = (augmentWithNoise b Q).cov i := by
  apply Mat.ext; intro r c
  simp only [covOfStore, Mat.eval_eq, Mat.of_apply]
  rw [augmentStore_spec d z k Q (storeOf b) i.val c.val r.val i.isLt r.isLt c.isLt]
  simp only [augmentWithNoise, Mat.eval_eq, Mat.of_apply]
  by_cases hr : r.val < d
  · by_cases hc : c.val < d
    · simp only [hr, hc, if_true, dite_true]
      exact storeOf_block b i r.val c.val hr hc
    · simp only [hr, hc, if_true, if_false, dite_true, dite_false]
  · by_cases hc : c.val < d
    · simp only [hr, hc, if_true, if_false, dite_true, dite_false]
    · simp only [hr, hc, if_false, dite_false]
      exact getZ_lt Q _ _ (by have := r.isLt; omega) (by have := c.isLt; omega)

/-- **End to end on the storage**: the unscented transform of the mixture whose covariances are read back from the
    storage left by the in-place augmentation, through `(x, w) ↦ A x + D w + b`, yields `A m + b`,
    `A P Aᵀ + D Q Dᵀ`, `P Aᵀ` — `ut_augmented_affine` carried through the refinement. -/
theorem ut_augmented_affine_on_storage (fac : α → Mat α (nx + nz) (nx + nz) → Mat α (nx + nz) (nx + nz))
    (alpha beta kappa : α) (hc : ((nx + nz : ℕ) : α) + utLambda (nx + nz) alpha kappa ≠ 0)
    (b : GM α nx k) (Q : Mat α nz nz)
    (hfac : ∀ i : Fin k, FacOn fac (utWeights (nx + nz) alpha beta kappa).c
      (covOfStore (nx + nz) (augmentStore nx nz k Q (storeOf b)) i))
    (A : Mat α ny nx) (D : Mat α ny nz) (bv : Vec α ny) :
    ∃ o, unscentedTransform (nx := nx) (nz := nz) fac (utWeights (nx + nz) alpha beta kappa)
          { mean := (augmentWithNoise b Q).mean
            cov := covOfStore (nx + nz) (augmentStore nx nz k Q (storeOf b))
            weight := b.weight }
          (fun X => some (affineMap (hcat A D) bv X)) = some o ∧
      ∀ i, toV (o.mean i) = toM A *ᵥ toV (b.mean i) + toV bv ∧
           toM (o.cov i) = toM A * toM (b.cov i) * (toM A)ᵀ + toM D * toM Q * (toM D)ᵀ ∧
           toM (o.cross i) = toM (b.cov i) * (toM A)ᵀ := by
  have hcov : (covOfStore (nx + nz) (augmentStore nx nz k Q (storeOf b)) : Fin k → Mat α (nx + nz) (nx + nz))
      = (augmentWithNoise b Q).cov :=
    funext (fun i => ut_augment_store_refines b Q i)
  have hb : ({ mean := (augmentWithNoise b Q).mean
               cov := covOfStore (nx + nz) (augmentStore nx nz k Q (storeOf b))
               weight := b.weight } : GM α (nx + nz) k) = augmentWithNoise b Q := by
    rw [hcov]; rfl
  rw [hb]
  rw [hcov] at hfac
  exact ut_augmented_affine fac alpha beta kappa hc b Q hfac A D bv

/-- The same statement entry by entry, for an arbitrary content of the storage (nothing is assumed about the
    blocks: no symmetry, no definiteness). -/
theorem ut_augment_store_entries {α : Type} [Zero α] [Inhabited α] (d z k : ℕ) (Q : Mat α z z) (s : Store α)
    (i cc r : ℕ) (hi : i < k) (hr : r < d + z) (hc : cc < d + z) :
    augmentStore d z k Q s r (i * (d + z) + cc) =
      if r < d then (if cc < d then s r (i * d + cc) else 0)
      else (if cc < d then 0 else Q.getZ (r - d) (cc - d)) :=
  augmentStore_spec d z k Q s i cc r hi hr hc

/-- **The order of the loop is necessary.**  Run in ascending component order (`for (i = 1; i < components; i++)`,
    seed C03-r4-2) the same swaps overwrite blocks that have not been moved yet: with one state row, one noise row
    and three components holding the variances `1, 2, 3`, the third component ends up with the variance `2` of the
    second one — whereas the descending loop yields `3` (`ut_augment_store_entries`). -/
theorem ut_augment_store_ascending_counterexample :
    augmentStoreAsc 1 1 3 (Mat.of (fun _ _ => (7 : ℤ))) (fun _ c => (c : ℤ) + 1) 0 (2 * (1 + 1) + 0) = 2 ∧
    augmentStore 1 1 3 (Mat.of (fun _ _ => (7 : ℤ))) (fun _ c => (c : ℤ) + 1) 0 (2 * (1 + 1) + 0) = 3 := by
  decide

/-- … and it cannot be seen with two components: there both orders are the same sequence of swaps. -/
theorem ut_augment_store_ascending_two {α : Type} (d D : ℕ) (s : Store α) :
    Store.moveBlocksAsc d D 1 s = Store.moveBlocks d D 1 s := rfl

/-- **Histories.**  After any sequence of `augmentWithNoise` calls on one object, split anywhere into an earlier and
    a later part: the dimension has grown by the sizes of all blocks; the mixture reached after the earlier part is
    the top-left block of the final one (means and covariances, entry by entry), everything appended later to the
    means is zero, rows/columns appended later are uncorrelated with it, and the weights are those of the start. -/
theorem ut_augment_history {α : Type} [Zero α] [Inhabited α] [Add α] [Sub α] [Mul α] [Div α] [NatCast α] {k : ℕ}
    (s : AnyGM α k) (earlier later : List (AnySq α)) :
    let mid := s.augmentAll earlier
    let fin := s.augmentAll (earlier ++ later)
    fin.n = s.n + ((earlier ++ later).map (·.z)).sum ∧
    (∀ i r, r < mid.n → fin.meanZ i r = mid.meanZ i r) ∧
    (∀ i r, mid.n ≤ r → fin.meanZ i r = 0) ∧
    (∀ i r c, r < mid.n → c < mid.n → fin.covZ i r c = mid.covZ i r c) ∧
    (∀ i r c, (r < mid.n ∧ mid.n ≤ c) ∨ (mid.n ≤ r ∧ c < mid.n) → fin.covZ i r c = 0) ∧
    fin.g.weight = s.g.weight := by
  intro mid fin
  have hfin : fin = mid.augmentAll later := by
    simp only [fin, mid, AnyGM.augmentAll, List.foldl_append]
  obtain ⟨_, h2, h3, h4, h5, h6⟩ := augmentAll_keeps later mid
  obtain ⟨g1, _, _, _, _, g6⟩ := augmentAll_keeps (earlier ++ later) s
  refine ⟨g1, ?_, ?_, ?_, ?_, g6⟩
  · rw [hfin]; exact h2
  · rw [hfin]; exact h3
  · rw [hfin]; exact h4
  · rw [hfin]; exact h5

/-- The layout bookkeeping of such a history (`dim_noise += dim_added`, code after fix ad6ea89): the noise rows
    add up, the degrees of freedom and the total size grow by the same amount, the rest of the layout is untouched. -/
theorem ut_layout_noise_history (ly : Layout) (zs : List ℕ) :
    (ly.addNoiseAll zs).noise = ly.noise + zs.sum ∧
    (ly.addNoiseAll zs).dof = ly.dof + zs.sum ∧
    (ly.addNoiseAll zs).dim = ly.dim + zs.sum ∧
    (ly.addNoiseAll zs).noiseless = ly.noiseless := by
  obtain ⟨h1, h2, h3, h4⟩ := addNoiseAll_spec zs ly
  refine ⟨h1, ?_, ?_, ?_⟩
  · simp only [Layout.dof, h1, h2, h3, h4]; split <;> omega
  · simp only [Layout.dim, Layout.csize, h1, h2, h3, h4]; omega
  · cases hly : ly.addNoiseAll zs with
    | mk l c q n =>
      cases ly with
      | mk l' c' q' n' =>
        simp only [hly] at h2 h3 h4
        simp only [Layout.noiseless, h2, h3, h4]

/-- Non-vacuity: a history of two augmentations (sizes 1 and 2) of a one-dimensional, two-component mixture
    reaches dimension 4 and keeps the variance of component 1. -/
example : ((⟨1, ⟨fun _ => Vec.of (fun _ => (5 : ℚ)), fun i => Mat.of (fun _ _ => (i.val : ℚ) + 2), Vec.of (fun _ => 1 / 2)⟩⟩ : AnyGM ℚ 2).augmentAll
      [⟨1, Mat.of (fun _ _ => 7)⟩, ⟨2, Mat.of (fun a c => if a = c then 3 else 0)⟩]).n = 4 := rfl

end storage

/-! ### `UTWeight` constructors -/

/-- Both constructors give the same weights: the one taking a `VectorDescription` is the one taking the number of
    degrees of freedom at `dof_size()` (a quaternion counts three); vectors of `2·dof + 1` entries (by type). -/
theorem ut_weights_ctor_agree (ly : Layout) (alpha beta kappa : α) :
    UTWeight.ofLayout ly alpha beta kappa = UTWeight.ofDof ly.dof alpha beta kappa ∧
    UTWeight.ofDof ly.dof alpha beta kappa = utWeights ly.dof alpha beta kappa := ⟨rfl, rfl⟩

/-- … hence for every layout (linear, Euler, quaternion, noise rows) the mean weights sum to one. -/
theorem ut_weights_layout_sum_one (ly : Layout) (alpha beta kappa : α)
    (hc : (ly.dof : α) + utLambda ly.dof alpha kappa ≠ 0) :
    ∑ j, (UTWeight.ofLayout ly alpha beta kappa).mean j = 1 :=
  ut_weights_sum_one ly.dof alpha beta kappa hc

/-! ### A common translation of the propagated points -/

section translation
open UTStoreProofs

/-- **Translation invariance of the moment computation** (what forming the offsets from the mean buys): for any
    weights whose mean weights sum to one — no symmetry, no sign condition — adding one vector `t` to every propagated
    point adds `t` to the output mean and changes neither the covariance nor the cross-covariance. -/
theorem ut_translation_invariant {α : Type} [CommRing α] [Inhabited α] {nx nz ny : ℕ}
    (w : UTWeight α (nx + nz)) (hw : ∑ j, w.mean j = 1) (inMean : Vec α (nx + nz))
    (X : Mat α (nx + nz) (2 * (nx + nz) + 1)) (Y : Mat α ny (2 * (nx + nz) + 1)) (t : Vec α ny) :
    (∀ i, (utComponent (nx := nx) (nz := nz) w inMean X (translateCols Y t)).1 i
            = (utComponent (nx := nx) (nz := nz) w inMean X Y).1 i + t i) ∧
    (utComponent (nx := nx) (nz := nz) w inMean X (translateCols Y t)).2.1 = (utComponent (nx := nx) (nz := nz) w inMean X Y).2.1 ∧
    (utComponent (nx := nx) (nz := nz) w inMean X (translateCols Y t)).2.2 = (utComponent (nx := nx) (nz := nz) w inMean X Y).2.2 := by
  have hm := translate_mean Y t w.mean hw
  have hoff := translate_offsets Y t (Y.mulVec w.mean) ((translateCols Y t).mulVec w.mean) hm
  refine ⟨hm, ?_, ?_⟩
  · simp only [utComponent, Mat.eval_eq, hoff]
  · simp only [utComponent, Mat.eval_eq, hoff]

/-- Over a commutative ring the expanded formula `Y diag(w) Yᵀ − (Y w) mᵀ − m (Y w)ᵀ + (Σ w) m mᵀ` (and
    `dX diag(w) Yᵀ − (dX w) mᵀ` for the cross-covariance) is the covariance of the offsets, for every centre `m` and
    every weight vector: a rewrite of the code into that form (seed C04-r4-2) is correct in exact arithmetic.  In
    floating point it is not translation invariant (it loses `ε·|m|²`); the check executes both forms on `Float` on
    its far-from-the-origin cases and reports how many of them tell the two apart. -/
theorem ut_naive_eq_offsets {α : Type} [CommRing α] [Inhabited α] {ny N r : ℕ}
    (wc : Vec α N) (Y : Mat α ny N) (m : Vec α ny) (Din : Mat α r N) :
    utCovNaive wc Y m = utCov wc (utOffsets Y m) (utOffsets Y m) ∧
    utCrossNaive wc Din Y m = utCov wc Din (utOffsets Y m) :=
  ⟨naive_eq_offsets wc Y m, crossNaive_eq_offsets wc Din Y m⟩

/-- Non-vacuity of `ut_translation_invariant`: the unscented weights meet its hypothesis. -/
example (n : ℕ) (alpha beta kappa : ℚ) (hc : (n : ℚ) + utLambda n alpha kappa ≠ 0) :
    ∑ j, (utWeights n alpha beta kappa).mean j = 1 := ut_weights_sum_one n alpha beta kappa hc

end translation

end BFL
