import BFL.Proofs.Lifecycle
/-
C09 — termination (variant functions), quiescence after the join, and the witnesses of the
repaired defect (lost wake-up of `teardown()`).
-/
namespace BFL.Life

/-! ### no lost wake-up (current `teardown()`: locks and notifies) -/

/-- With every write that can make the wait predicate true done under the mutex and followed by
a notification, a thread blocked in the wait whose predicate holds has a notification pending;
and while the thread holds the mutex (`blocking`) the predicate is still false. -/
def NoLost (cfg : Cfg) (s : St) : Prop :=
  cfg.tdLock = true → cfg.tdNotify = true →
    ((s.pc = .waiting → (s.run = true ∨ s.teardown = true) → s.woken = true) ∧
     (s.pc = .blocking → s.run = false ∧ s.teardown = false ∧ s.mid = false))

theorem nolost_boot (cfg : Cfg) : NoLost cfg St.boot := by simp [NoLost, St.boot]

theorem nolost_step : ∀ (cfg : Cfg) (s : St) (a : Act), NoLost cfg s → NoLost cfg (step cfg s a) := by
  life_bash NoLost []

theorem nolost_all (cfg : Cfg) (as : List Act) : NoLost cfg (runAll cfg as) :=
  inv_exec cfg (nolost_step cfg) as _ (nolost_boot cfg)

/-! ### the thread's end is final -/

theorem step_done (cfg : Cfg) (s : St) (a : Act) (h : s.pc = .done) : (step cfg s a).pc = .done := by
  obtain ⟨pc, run, reset, td, stp, woken, mid, joined, hist⟩ := s
  simp only at h; subst h
  cases a with
  | c x => cases x <;> simp only [step, ctl] <;> (try split) <;> simp
  | fin => simp only [step, fin]; split <;> simp
  | spur => simp [step]
  | t b => simp [step, thr]

theorem exec_done (cfg : Cfg) (as : List Act) : ∀ s : St, s.pc = .done → (exec cfg s as).pc = .done := by
  induction as with
  | nil => intro s h; simpa [exec] using h
  | cons a as ih => intro s h; exact ih _ (step_done cfg s a h)

theorem step_done_work (cfg : Cfg) (s : St) (a : Act) (h : s.pc = .done) :
    workEvents (step cfg s a).hist = workEvents s.hist := by
  obtain ⟨pc, run, reset, td, stp, woken, mid, joined, hist⟩ := s
  simp only at h; subst h
  cases a with
  | c x => cases x <;> simp only [step, ctl] <;> (try split) <;> simp [workEvents]
  | fin => simp only [step, fin]; split <;> simp
  | spur => simp [step]
  | t b => simp [step, thr]

theorem exec_done_work (cfg : Cfg) (as : List Act) :
    ∀ s : St, s.pc = .done → workEvents (exec cfg s as).hist = workEvents s.hist := by
  induction as with
  | nil => intro s _; simp [exec]
  | cons a as ih =>
    intro s h
    rw [exec_cons, ih _ (step_done cfg s a h), step_done_work cfg s a h]

/-- `wait()` has returned only if the thread has ended; after the thread's end `run_` is set
only by a `run()` issued after it. -/
def InvQ (s : St) : Prop :=
  (s.joined = true → s.pc = .done) ∧
  (s.pc = .done → s.run = true → Ev.cmdRun ∈ s.hist.takeWhile (fun e => decide (e ≠ Ev.thrDone)))

theorem invq_boot : InvQ St.boot := by simp [InvQ, St.boot]

theorem invq_step : ∀ (cfg : Cfg) (s : St) (a : Act), InvQ s → InvQ (step cfg s a) := by
  life_bash InvQ [List.takeWhile]

theorem invq_all (cfg : Cfg) (as : List Act) : InvQ (runAll cfg as) :=
  inv_exec cfg (invq_step cfg) as _ invq_boot

/-- a join recorded in the history is newer than the thread's final store -/
def InvJ (s : St) : Prop :=
  (Ev.joined ∈ s.hist → Ev.thrDone ∈ s.hist.dropWhile (fun e => decide (e ≠ Ev.joined))) ∧
  (s.pc = .done → Ev.thrDone ∈ s.hist) ∧ (Ev.joined ∈ s.hist → s.pc = .done)

theorem invj_step : ∀ (cfg : Cfg) (s : St) (a : Act), InvJ s → InvJ (step cfg s a) := by
  life_bash InvJ [List.dropWhile]

theorem invj_all (cfg : Cfg) (as : List Act) : InvJ (runAll cfg as) :=
  inv_exec cfg (invj_step cfg) as _ (by simp [InvJ, St.boot])

/-! ### termination once teardown is requested -/

/-- number of thread moves still possible once `teardown_` is set (longest path to `done`) -/
def vTd : PC → Nat
  | .done => 0 | .preFinal => 1 | .outD => 2 | .outC => 3 | .outB => 4 | .outA => 5
  | .afterLoop => 6 | .inB => 7 | .inA => 8 | .incr => 9 | .inStep => 10 | .aboutStep => 11
  | .inC => 12 | .inInit => 9 | .preInit => 10 | .waiting => 11 | .blocking => 12
  | .preWait => 13 | .zero => 14 | .top => 15

theorem vTd_le (pc : PC) : vTd pc ≤ 15 := by cases pc <;> simp [vTd]
theorem vTd_zero (pc : PC) : vTd pc = 0 ↔ pc = .done := by cases pc <;> simp [vTd]

theorem teardown_stays (cfg : Cfg) (s : St) (a : Act) (h : s.teardown = true) :
    (step cfg s a).teardown = true := by
  obtain ⟨pc, run, reset, td, stp, woken, mid, joined, hist⟩ := s
  simp only at h; subst h
  cases a with
  | c x => cases x <;> simp only [step, ctl] <;> (try split) <;> simp
  | fin => simp only [step, fin]; split <;> simp
  | spur => simp only [step]; split <;> simp
  | t b => cases pc <;> simp only [step, thr] <;> (repeat' split) <;> simp [Option.getD]

/-- the thread is scheduled in this action while the controller is not inside `reboot()` -/
def turn (s : St) : Act → Nat
  | .t _ => if s.mid then 0 else 1
  | _ => 0

/-- number of such turns along a schedule -/
def turns (cfg : Cfg) : St → List Act → Nat
  | _, [] => 0
  | s, a :: as => turn s a + turns cfg (step cfg s a) as

/-- every turn of the thread moves it strictly closer to its end once teardown is requested;
no other action moves it away -/
theorem td_variant_step (s : St) (a : Act) (hL : NoLost Cfg.current s) (htd : s.teardown = true) :
    s.pc = .done ∨ vTd (step Cfg.current s a).pc + turn s a ≤ vTd s.pc := by
  obtain ⟨pc, run, reset, td, stp, woken, mid, joined, hist⟩ := s
  simp only at htd; subst htd
  simp only [NoLost, Cfg.current] at hL
  cases a with
  | c x => cases x <;> simp only [step, ctl, Cfg.current] <;> (try split) <;> simp [turn]
  | fin => simp only [step, fin]; split <;> simp [turn]
  | spur => simp only [step]; split <;> simp [turn]
  | t b =>
    cases pc <;> simp only [step, thr, turn] <;> (repeat' split) <;>
      simp only [Option.getD, vTd] <;>
      (first | (right; omega) | (left; rfl) | grind)

theorem td_terminates_from (as : List Act) : ∀ (s : St), NoLost Cfg.current s → s.teardown = true →
    vTd s.pc ≤ turns Cfg.current s as → (exec Cfg.current s as).pc = .done := by
  induction as with
  | nil =>
    intro s _ _ h
    simp only [turns, Nat.le_zero] at h
    simpa [exec] using (vTd_zero s.pc).1 h
  | cons a as ih =>
    intro s hL htd h
    rw [exec_cons]
    rcases td_variant_step s a hL htd with hd | hv
    · exact exec_done _ as _ (step_done _ s a hd)
    · apply ih _ (nolost_step _ s a hL) (teardown_stays _ s a htd)
      simp only [turns] at h
      omega

/-! ### termination once the run condition stays false -/

/-- the thread is past the wait of its current epoch and not in the middle of an outer loop
test that already saw the run condition true -/
def PastWait (pc : PC) : Prop :=
  pc = .preInit ∨ pc = .inInit ∨ pc = .inA ∨ pc = .inB ∨ pc = .inC ∨ pc = .aboutStep ∨ pc = .inStep ∨
  pc = .incr ∨ pc = .afterLoop ∨ pc = .outA ∨ pc = .preFinal ∨ pc = .done

/-- number of thread moves still possible when `run_condition()` keeps returning false -/
def vRc : PC → Nat
  | .done => 0 | .preFinal => 1 | .outA => 2 | .afterLoop => 3 | .inA => 4 | .incr => 5
  | .inStep => 6 | .aboutStep => 7 | .inC => 8 | .inB => 9 | .inInit => 5 | .preInit => 6
  | .waiting => 7 | .blocking => 8 | .preWait => 9 | .zero => 10 | .top => 11
  | .outD => 12 | .outC => 13 | .outB => 14

theorem vRc_le (pc : PC) : vRc pc ≤ 14 := by cases pc <;> simp [vRc]
theorem vRc_zero (pc : PC) : vRc pc = 0 ↔ pc = .done := by cases pc <;> simp [vRc]

/-- the action is a move of the thread -/
def move : Act → Nat
  | .t _ => 1
  | _ => 0

def moves (as : List Act) : Nat := (as.map move).sum

theorem rc_variant_step (cfg : Cfg) (s : St) (a : Act) (hp : PastWait s.pc) (ha : a ≠ .t true) :
    PastWait (step cfg s a).pc ∧ (s.pc = .done ∨ vRc (step cfg s a).pc + move a ≤ vRc s.pc) := by
  obtain ⟨pc, run, reset, td, stp, woken, mid, joined, hist⟩ := s
  simp only [PastWait] at hp
  cases a with
  | c x => cases x <;> simp only [step, ctl] <;> (try split) <;> simp_all [PastWait, move]
  | fin => simp only [step, fin]; split <;> simp_all [PastWait, move]
  | spur => simp only [step]; split <;> simp_all [PastWait, move]
  | t b =>
    cases b with
    | true => exact absurd rfl ha
    | false =>
      cases pc <;> simp only [step, thr, move] <;> (repeat' split) <;>
        simp only [Option.getD, vRc, PastWait] <;>
        (first | (exfalso; revert hp; decide) | (refine ⟨by decide, ?_⟩; first | (right; omega) | (left; rfl)) | grind)

theorem rc_terminates_from (cfg : Cfg) (as : List Act) : ∀ (s : St), PastWait s.pc →
    (∀ a ∈ as, a ≠ Act.t true) → vRc s.pc ≤ moves as → (exec cfg s as).pc = .done := by
  induction as with
  | nil =>
    intro s _ _ h
    simp only [moves, List.map_nil, List.sum_nil, Nat.le_zero] at h
    simpa [exec] using (vRc_zero s.pc).1 h
  | cons a as ih =>
    intro s hp hf h
    rw [exec_cons]
    obtain ⟨hp', hv⟩ := rc_variant_step cfg s a hp (hf a (by simp))
    rcases hv with hd | hv
    · exact exec_done _ as _ (step_done _ s a hd)
    · apply ih _ hp' (fun x hx => hf x (by simp [hx]))
      simp only [moves, List.map_cons, List.sum_cons] at h ⊢
      omega

/-- the same from any point of the recursion, for a filter that is (still) asked to run: the
wait predicate holds, no `reboot()` is in progress or comes later -/
def Going (s : St) : Prop :=
  NoLost Cfg.current s ∧ s.mid = false ∧ (s.run = true ∨ s.teardown = true ∨ PastWait s.pc)

theorem going_variant_step (s : St) (a : Act) (hg : Going s) (ha : a ≠ .t true) (hb : a ≠ .c .reboot) :
    Going (step Cfg.current s a) ∧ (s.pc = .done ∨ vRc (step Cfg.current s a).pc + move a ≤ vRc s.pc) := by
  obtain ⟨pc, run, reset, td, stp, woken, mid, joined, hist⟩ := s
  simp only [Going, NoLost, Cfg.current, PastWait] at hg
  obtain ⟨hL, hm, hr⟩ := hg
  subst hm
  cases a with
  | c x =>
    cases x <;> simp only [step, ctl, Cfg.current] <;> (try split) <;>
      simp_all [Going, NoLost, Cfg.current, PastWait, move] <;> (try grind)
  | fin => simp_all [step, fin, Going, NoLost, Cfg.current, PastWait, move]
  | spur => simp only [step]; split <;> simp_all [Going, NoLost, Cfg.current, PastWait, move]
  | t b =>
    cases b with
    | true => exact absurd rfl ha
    | false =>
      cases pc <;> simp only [step, thr, move] <;> (repeat' split) <;>
        simp only [Option.getD, vRc, Going, NoLost, Cfg.current, PastWait] <;>
        (first | (refine ⟨?_, ?_⟩ <;> (first | (right; omega) | (left; rfl) | (simp_all; done) | grind)) | grind)

theorem going_terminates_from (as : List Act) : ∀ (s : St), Going s →
    (∀ a ∈ as, a ≠ Act.t true ∧ a ≠ Act.c Cmd.reboot) → vRc s.pc ≤ moves as →
    (exec Cfg.current s as).pc = .done := by
  induction as with
  | nil =>
    intro s _ _ h
    simp only [moves, List.map_nil, List.sum_nil, Nat.le_zero] at h
    simpa [exec] using (vRc_zero s.pc).1 h
  | cons a as ih =>
    intro s hg hf h
    rw [exec_cons]
    obtain ⟨hg', hv⟩ := going_variant_step s a hg (hf a (by simp)).1 (hf a (by simp)).2
    rcases hv with hd | hv
    · exact exec_done _ as _ (step_done _ s a hd)
    · apply ih _ hg' (fun x hx => hf x (by simp [hx]))
      simp only [moves, List.map_cons, List.sum_cons] at h ⊢
      omega

/-! ### the repaired defect: a `teardown()` that does not notify leaves a parked thread parked -/

/-- the thread is blocked in the wait with no notification pending -/
def Parked (s : St) : Prop := s.pc = .waiting ∧ s.woken = false

/-- actions that do not notify when `teardown()` does not: thread turns, `reset`, `teardown`, `wait` -/
def Quiet : Act → Prop
  | .t _ => True
  | .c .reset => True
  | .c .teardown => True
  | .c .wait => True
  | _ => False

theorem parked_step (cfg : Cfg) (hn : cfg.tdNotify = false) (s : St) (a : Act) (hq : Quiet a)
    (h : Parked s) : Parked (step cfg s a) := by
  obtain ⟨pc, run, reset, td, stp, woken, mid, joined, hist⟩ := s
  obtain ⟨h1, h2⟩ := h
  simp only at h1 h2; subst h1; subst h2
  cases a with
  | c x => cases x <;> simp only [step, ctl, Quiet] at hq ⊢ <;> (try split) <;> simp_all [Parked]
  | fin => simp [Quiet] at hq
  | spur => simp [Quiet] at hq
  | t b => simp [step, thr, Parked]

theorem parked_exec (cfg : Cfg) (hn : cfg.tdNotify = false) (as : List Act) :
    ∀ s : St, (∀ a ∈ as, Quiet a) → Parked s → Parked (exec cfg s as) := by
  induction as with
  | nil => intro s _ h; simpa [exec] using h
  | cons a as ih =>
    intro s hq h
    rw [exec_cons]
    exact ih _ (fun x hx => hq x (by simp [hx])) (parked_step cfg hn s a (hq a (by simp)) h)

/-! ### a requested reset leads to a new initialisation -/

/-- thread moves still needed to reach the next `initialization_step()` when the filter is asked
to run, the run condition holds and a reset is pending or the new epoch has begun -/
def vInit : PC → Nat
  | .preInit => 0 | .waiting => 1 | .preWait => 1 | .zero => 2 | .top => 3 | .outD => 4 | .outC => 5
  | .outB => 5 | .outA => 6 | .afterLoop => 7 | .inC => 8 | .inB => 9 | .inA => 10 | .incr => 11
  | .inStep => 12 | .aboutStep => 13 | .inInit => 11 | .blocking => 2 | .preFinal => 0 | .done => 0

/-- the filter is asked to run, not torn down, no `reboot()` in progress, and either a reset is
pending or the thread is already on its way from the loop top to the initialisation -/
def Resetting (s : St) : Prop :=
  NoLost Cfg.current s ∧ s.run = true ∧ s.teardown = false ∧ s.mid = false ∧
  s.pc ≠ .preFinal ∧ s.pc ≠ .done ∧
  (s.reset = true ∨ s.pc = .top ∨ s.pc = .zero ∨ s.pc = .preWait ∨ s.pc = .waiting ∨ s.pc = .preInit ∨ s.pc = .outD)

theorem resetting_step (s : St) (h : Resetting s) (hp : s.pc ≠ .preInit) :
    Resetting (step Cfg.current s (.t true)) ∧ vInit (step Cfg.current s (.t true)).pc < vInit s.pc := by
  obtain ⟨pc, run, reset, td, stp, woken, mid, joined, hist⟩ := s
  simp only [Resetting, NoLost, Cfg.current] at h
  obtain ⟨hL, hr, ht, hm, h1, h2, h3⟩ := h
  simp only at hr ht hm hp h1 h2; subst hr; subst ht; subst hm
  cases pc <;> simp only [step, thr] <;> (repeat' split) <;>
    simp only [Option.getD, vInit, Resetting, NoLost, Cfg.current]
    <;> (first | (refine ⟨?_, by omega⟩; simp_all; done) | (exfalso; simp_all; done) | grind)

theorem reset_leads_to_init_from : ∀ (n : Nat) (s : St), Resetting s → vInit s.pc ≤ n →
    ∃ m, m ≤ n ∧ (exec Cfg.current s (List.replicate m (.t true))).pc = .preInit := by
  intro n
  induction n with
  | zero =>
    intro s h hv
    refine ⟨0, Nat.le_refl _, ?_⟩
    obtain ⟨pc, run, reset, td, stp, woken, mid, joined, hist⟩ := s
    simp only [Resetting] at h
    cases pc <;> simp_all [vInit, exec]
  | succ n ih =>
    intro s h hv
    by_cases hp : s.pc = .preInit
    · exact ⟨0, Nat.zero_le _, by simpa [exec] using hp⟩
    · obtain ⟨h', hlt⟩ := resetting_step s h hp
      obtain ⟨m, hm, hpc⟩ := ih _ h' (by omega)
      exact ⟨m + 1, by omega, by simpa [List.replicate_succ, exec_cons] using hpc⟩

end BFL.Life
