// Correspondence harness for C01 / C02: the real KFPrediction and KFCorrection.
#include "common.hpp"
#include <BayesFilters/KFPrediction.h>
#include <BayesFilters/KFCorrection.h>
#include <BayesFilters/LTIStateModel.h>
#include <BayesFilters/LTIMeasurementModel.h>
#include <BayesFilters/ExogenousModel.h>
#include <BayesFilters/GaussianMixture.h>
#include <BayesFilters/utils.h>

using namespace bfl;
using namespace Eigen;
using vh::Toks; using vh::Out;

// x' = F x + w with the library's LTI state model; description supplied here.
struct HState : public LTIStateModel {
    HState(const MatrixXd& F, const MatrixXd& Q) : LTIStateModel(F, Q), n_(F.rows()) {}
    VectorDescription getStateDescription() override { return VectorDescription(n_); }
    std::size_t n_;
};

// u(x) = G x + g, column-wise
struct HExo : public ExogenousModel {
    HExo(const MatrixXd& G, const VectorXd& g) : G_(G), g_(g) {}
    void propagate(const Ref<const MatrixXd>& cur, Ref<MatrixXd> prop) override { prop = (G_ * cur).colwise() + g_; }
    bool setProperty(const std::string&) override { return false; }
    VectorDescription getStateDescription() const override { return VectorDescription(g_.size()); }
    MatrixXd G_; VectorXd g_;
};

struct HMeas : public LTIMeasurementModel {
    HMeas(const MatrixXd& H, const MatrixXd& R, const VectorXd& y) : LTIMeasurementModel(H, R), y_(y) {}
    bool freeze(const Data& d) override { if (d.has_value()) y_ = any::any_cast<VectorXd>(d); return true; }
    std::pair<bool, Data> measure(const Data&) const override { MatrixXd y = y_; return std::make_pair(true, Data(y)); }
    VectorDescription getInputDescription() const override { return VectorDescription(H_.cols(), 0, R_.rows()); }
    VectorDescription getMeasurementDescription() const override { return VectorDescription(H_.rows()); }
    VectorXd y_;
};

static void fillGM(Toks& t, GaussianMixture& g, long n, long k) {
    g.mean() = t.mat(n, k);
    g.covariance() = t.mat(n, n * k);
}

static void outGM(Out& o, const GaussianMixture& g) {
    o.m(g.mean()); o.m(g.covariance()); o.m(g.weight());
}

static std::string kfp(Toks& t) {
    long n = t.nat(), k = t.nat(); bool exo = t.flag();
    MatrixXd F = t.mat(n, n), Q = t.mat(n, n);
    std::unique_ptr<HState> sm(new HState(F, Q));
    if (exo) { MatrixXd G = t.mat(n, n); VectorXd g = t.vec(n); sm->add_exogenous_model(std::unique_ptr<ExogenousModel>(new HExo(G, g))); }
    GaussianMixture prev(k, n), pred(k, n);
    fillGM(t, prev, n, k);
    pred.weight() = t.vec(k);
    t.done();
    // poison the output so that stale entries are visible
    pred.mean().setConstant(12345.0); pred.covariance().setConstant(-54321.0);
    MatrixXd m0 = prev.mean(), c0 = prev.covariance(), w0 = prev.weight();
    KFPrediction p(std::move(sm));
    p.predict(prev, pred);
    bool same = vh::same_bits(m0, prev.mean()) && vh::same_bits(c0, prev.covariance()) && vh::same_bits(w0, prev.weight());
    Out o; o.s("ok"); outGM(o, pred); o.s(same ? "in-same" : "in-modified");
    return o.str();
}

static std::string kfc(Toks& t) {
    long n = t.nat(), m = t.nat(), k = t.nat();
    MatrixXd H = t.mat(m, n), R = t.mat(m, m); VectorXd y = t.vec(m);
    GaussianMixture pred(k, n), corr(k, n);
    fillGM(t, pred, n, k);
    corr.weight() = t.vec(k);
    t.done();
    corr.mean().setConstant(12345.0); corr.covariance().setConstant(-54321.0);
    MatrixXd m0 = pred.mean(), c0 = pred.covariance(), w0 = pred.weight();
    KFCorrection c(std::unique_ptr<LinearMeasurementModel>(new HMeas(H, R, y)));
    c.correct(pred, corr);
    bool same = vh::same_bits(m0, pred.mean()) && vh::same_bits(c0, pred.covariance()) && vh::same_bits(w0, pred.weight());
    bool valid; VectorXd lik;
    std::tie(valid, lik) = c.getLikelihood();
    Out o; o.s("ok"); outGM(o, corr); o.s(same ? "in-same" : "in-modified");
    o.s(valid ? "lik" : "nolik"); if (valid) { o.n(lik.size()); o.m(lik); }
    return o.str();
}

// One KFPrediction object, several predict calls with varying component counts:
//   kfps n exo F Q [G g] ncalls { k means covs outw }*
static std::string kfps(Toks& t) {
    long n = t.nat(); bool exo = t.flag();
    MatrixXd F = t.mat(n, n), Q = t.mat(n, n);
    std::unique_ptr<HState> sm(new HState(F, Q));
    if (exo) { MatrixXd G = t.mat(n, n); VectorXd g = t.vec(n); sm->add_exogenous_model(std::unique_ptr<ExogenousModel>(new HExo(G, g))); }
    KFPrediction p(std::move(sm));
    long calls = t.nat();
    Out o; o.s("ok");
    for (long c = 0; c < calls; ++c) {
        long k = t.nat();
        GaussianMixture prev(k, n), pred(k, n);
        fillGM(t, prev, n, k);
        pred.weight() = t.vec(k);
        pred.mean().setConstant(12345.0); pred.covariance().setConstant(-54321.0);
        MatrixXd m0 = prev.mean(), c0 = prev.covariance(), w0 = prev.weight();
        p.predict(prev, pred);
        bool same = vh::same_bits(m0, prev.mean()) && vh::same_bits(c0, prev.covariance()) && vh::same_bits(w0, prev.weight());
        o.s("call"); outGM(o, pred); o.s(same ? "in-same" : "in-modified");
    }
    t.done();
    return o.str();
}

// One KFCorrection object, several correct calls (new measurement through freeze, varying
// component counts), likelihood queried before the first call and after each call:
//   kfcs n m H R ncalls { k y means covs outw }*
static std::string kfcs(Toks& t) {
    long n = t.nat(), m = t.nat();
    MatrixXd H = t.mat(m, n), R = t.mat(m, m);
    KFCorrection c(std::unique_ptr<LinearMeasurementModel>(new HMeas(H, R, VectorXd::Zero(m))));
    long calls = t.nat();
    Out o; o.s("ok");
    { bool v; VectorXd l; std::tie(v, l) = c.getLikelihood(); o.s(v ? "prelik" : "noprelik"); }
    for (long cc = 0; cc < calls; ++cc) {
        long k = t.nat();
        VectorXd y = t.vec(m);
        GaussianMixture pred(k, n), corr(k, n);
        fillGM(t, pred, n, k);
        corr.weight() = t.vec(k);
        corr.mean().setConstant(12345.0); corr.covariance().setConstant(-54321.0);
        MatrixXd m0 = pred.mean(), c0 = pred.covariance(), w0 = pred.weight();
        c.freeze_measurements(Data(y));
        c.correct(pred, corr);
        bool same = vh::same_bits(m0, pred.mean()) && vh::same_bits(c0, pred.covariance()) && vh::same_bits(w0, pred.weight());
        bool valid; VectorXd lik;
        std::tie(valid, lik) = c.getLikelihood();
        o.s("call"); outGM(o, corr); o.s(same ? "in-same" : "in-modified");
        o.s(valid ? "lik" : "nolik"); if (valid) { o.n(lik.size()); o.m(lik); }
    }
    t.done();
    return o.str();
}

int main() {
    return vh::run([](const std::string& op, Toks& t, std::string& out) {
        if (op == "kfp") { out = kfp(t); return true; }
        if (op == "kfc") { out = kfc(t); return true; }
        if (op == "kfps") { out = kfps(t); return true; }
        if (op == "kfcs") { out = kfcs(t); return true; }
        return false;
    });
}
