import BFL.Model.Bounds.Particles
/-
C14 — one *case* per entry point exercised by the correspondence harness (`harness/h_bounds.cpp`):
`<op>Case args` is the transcription of exactly what the harness op executes (including the
construction of its inputs through the public API), returning the tokens the harness prints;
`<op>Valid args` is the documented precondition of that entry point — shapes matching the declared
descriptions (`VectorDescription`s, `LinearMatrixComponent`, container layouts), non-degenerate
sizes, ratios in [0, 1).  The theorems of `BFL/Props/C14.lean` are `Valid → Safe` for these very
functions, which are also what the driver evaluates for each configuration.
-/
namespace BFL.Bounds
open W

abbrev Case := W (Option (List String))

def b01 (b : Bool) : String := if b then "1" else "0"

/-- construction of a mixture through the public API as the harness does it:
    `GaussianMixture(K, dl, dc, quat)` then `augmentWithNoise(dn × dn)` when `dn > 0` -/
def mkGM (K : Nat) (L : Layout) : W Unit :=
  if L.dn > 0 then do
    let _ ← gmAugment (gmCtor K L.dl L.dc L.quat) ⟨L.dn, L.dn⟩
  else pure ()

/-! #### WhiteNoiseAcceleration -/
def wnaNoiseCase (d : Dim) (num : Nat) : Case := wnaNoiseTokens d num
def wnaMotionCase (d : Dim) (num sr : Nat) : Case := do let s ← wnaMotion d num sr; pure (some [s.str])
def wnaMotionValid (d : Dim) (sr : Nat) : Prop := sr = d.n
def wnaTPCase (d : Dim) (num sr : Nat) : Case := do let s ← wnaTransitionProbability d num sr; pure (some [toString s.r])
def wnaMoveCase (d : Dim) (num : Nat) : Case := do
  moveThenUse .wnaPimpl true
  let m ← wnaCtor d
  let s ← wnaNoise m num
  pure (some [s.str])

/-! #### LinearModel, SimulatedStateModel, SimulatedLinearSensor -/
def lmCase (n rr rc num : Nat) (comps : List Nat) : Case := lmTokens n comps ⟨rr, rc⟩ num
def ssmCase (d : Dim) (T sr calls : Nat) : Case := ssmTokens d T sr calls
def ssmValid (d : Dim) (sr : Nat) : Prop := sr = d.n
def ssmLogCase (d : Dim) (T calls : Nat) : Case := ssmLogTokens d T calls
def ssmLogValid (T calls : Nat) : Prop := 1 ≤ T ∧ 1 ≤ calls
def slsCase (d : Dim) (T n rr calls : Nat) (comps : List Nat) : Case := slsTokens d T n rr calls comps
def slsValid (d : Dim) (n : Nat) : Prop := n = d.n

/-! #### HistoryBuffer -/
def histCase (S : Nat) (ops : List HOp) : Case := do let t ← histRun (Hist.new S) ops; pure (some t)
def HOp.ok (S : Nat) : HOp → Prop
  | .add k => k = S
  | .moveKeepOld => False
  | _ => True
instance (S : Nat) (op : HOp) : Decidable (op.ok S) := by cases op <;> simp only [HOp.ok] <;> infer_instance
/-- the state size the buffer in use has after the operation (a move assignment hands over the source's) -/
def HOp.nextSize (S : Nat) : HOp → Nat
  | .moveAssignFrom S2 _ _ => S2
  | .moveKeepOld => 0
  | _ => S
/-- every `addElement` gets a vector of the state size the buffer has AT THAT POINT of the history -/
def histValid : Nat → List HOp → Prop
  | _, [] => True
  | S, op :: ops => op.ok S ∧ histValid (op.nextSize S) ops
instance histValidDec : (S : Nat) → (ops : List HOp) → Decidable (histValid S ops)
  | _, [] => isTrue trivial
  | S, op :: ops => by
    unfold histValid
    exact @instDecidableAnd _ _ _ (histValidDec (op.nextSize S) ops)

/-! #### InitSurveillanceAreaGrid -/
def gridCase (nx ny N : Nat) (L : Layout) : Case := do
  let r ← gridInit nx ny N L.dim
  pure (some [b01 r, (Shape.mk L.dim N).str])

/-! #### sigma points, unscented transform -/
def spCase (K : Nat) (L : Layout) : Case := do
  mkGM K L
  let s ← sigmaPoint L K
  pure (some [toString L.dim, toString L.dcov, toString L.dn, s.str])
def spValid (K : Nat) (L : Layout) : Prop := 1 ≤ K ∧ 1 ≤ L.dcov

def utwCase (dof : Nat) : Case := do
  let n ← unscentedWeights dof
  pure (some [toString n, toString n])

def UTRes.tokens (r : UTRes) : List String :=
  [b01 r.valid, toString r.K, toString r.O.dim, toString r.O.dcov, (r.O.meanS r.K).str, (r.O.covS r.K).str, r.cross.str]

def utCase (K : Nat) (I : Layout) (wdof : Nat) (O : Layout) (prows dcols : Nat) (fvalid : Bool) : Case := do
  mkGM K I
  let base := I.dcov * 2 + 1
  let r ← utGeneric I K (utWeightSize wdof) O ⟨prows, base * K + dcols⟩ fvalid
  pure (some r.tokens)
/-- the weights were built for the input's degrees of freedom; the function returns one column per
    sigma point and as many rows as its output description says -/
def utValid (K : Nat) (I : Layout) (wdof : Nat) (O : Layout) (prows dcols : Nat) : Prop :=
  1 ≤ K ∧ 1 ≤ I.dcov ∧ wdof = I.dcov ∧ O.dn = 0 ∧ prows = O.dim ∧ dcols = 0

/-- `none` = LTIStateModel's constructor throws -/
def ltiStateOk (fn fq : Nat) : Bool := fn != 0 && fq != 0 && fn == fq

def utsmCase (additive : Bool) (K : Nat) (I : Layout) (wdof fn fq : Nat) (D : Layout) : Case := do
  mkGM K I
  if !ltiStateOk fn fq then pure none
  else do
    let M : SMod := ⟨⟨fn, fn⟩, fq, D⟩
    let r ← (if additive then utStateAdditive I K (utWeightSize wdof) M else utStateGeneric I K (utWeightSize wdof) M)
    pure (some r.tokens)
/-- a linear (Euclidean) model of dimension `fn` applied to a belief with the model's own description -/
def utsmValid (K : Nat) (I : Layout) (wdof fn fq : Nat) (D : Layout) : Prop :=
  1 ≤ K ∧ 1 ≤ fn ∧ fq = fn ∧ wdof = I.dcov ∧ I = D ∧ D.dn = 0 ∧ D.dim = fn ∧ D.dcov = fn

def utwnaCase (additive : Bool) (d : Dim) (K dl dn wdof : Nat) : Case := do
  let I : Layout := ⟨dl, 0, false, dn⟩
  mkGM K I
  let m ← wnaCtor d
  let M : SMod := ⟨m.F, m.Q.r, ⟨m.desc, 0, false, 0⟩⟩
  let r ← (if additive then utStateAdditive I K (utWeightSize wdof) M else utStateGeneric I K (utWeightSize wdof) M)
  pure (some r.tokens)
def utwnaValid (d : Dim) (K dl dn wdof : Nat) : Prop := 1 ≤ K ∧ dl = d.n ∧ dn = 0 ∧ wdof = dl

def utmmCase (additive : Bool) (K : Nat) (I : Layout) (wdof : Nat) (M : MMod) : Case := do
  mkGM K I
  let r ← (if additive then utMeasAdditive I K (utWeightSize wdof) M else utMeasGeneric I K (utWeightSize wdof) M)
  pure (some r.tokens)
def utmmValid (additive : Bool) (K : Nat) (I : Layout) (wdof : Nat) (M : MMod) : Prop :=
  1 ≤ K ∧ 1 ≤ I.dcov ∧ wdof = I.dcov ∧ M.O.dn = 0 ∧ M.prows = M.O.dim ∧ M.dcols = 0 ∧ (additive = true → M.rr = M.O.dcov)

/-! #### correction steps -/

/-- Shapes match the declared descriptions: the model's (noiseless) input description is the layout of
    the predicted belief, the corrected belief is shaped like the predicted one, the model returns
    predicted measurements / measurements with `total_size()` rows and innovations with `irows` rows,
    and its noise covariance has the size its description declares. -/
def corrValidCommon (I : Layout) (K : Nat) (C : Layout) (cK : Nat) (M : MMod) : Prop :=
  1 ≤ K ∧ I.dn = 0 ∧ 1 ≤ I.dcov ∧ C = I ∧ cK = K ∧ M.Lin.noiseless = I ∧ M.O.dn = 0 ∧ 1 ≤ M.O.dcov ∧
  M.prows = M.O.dim ∧ M.dcols = 0 ∧ M.ysize = M.O.dim

def ukfCase (additive : Bool) (I : Layout) (K : Nat) (C : Layout) (cK : Nat) (M : MMod) : Case := do
  let r ← ukfCorrect additive I K C cK M
  pure (some r.tokens)
def ukfValid (additive : Bool) (I : Layout) (K : Nat) (C : Layout) (cK : Nat) (M : MMod) : Prop :=
  corrValidCommon I K C cK M ∧ M.irows = M.O.dcov ∧
  (if additive then M.rr = M.O.dcov else M.Lin.dn = M.rr)
/-- the part of the valid space on which UKFCorrection is safe: Euclidean / Euler state and measurement -/
def ukfSupported (I : Layout) (M : MMod) : Prop :=
  ¬ (I.quat = true ∧ 0 < I.dc) ∧ ¬ (M.O.quat = true ∧ 0 < M.O.dc)

def sukfCase (I : Layout) (K : Nat) (C : Layout) (cK : Nat) (M : MMod) (sub : Nat) (reduced : Bool) : Case := do
  let r ← sukfCorrect I K C cK M sub reduced
  pure (some r.tokens)
def sukfValid (I : Layout) (K : Nat) (C : Layout) (cK : Nat) (M : MMod) (sub : Nat) (reduced : Bool) : Prop :=
  corrValidCommon I K C cK M ∧ M.irows = M.O.dim ∧ 1 ≤ sub ∧
  (if reduced then M.rr = sub else M.rr = M.O.dim)
def sukfSupported (I : Layout) : Prop := ¬ (I.quat = true ∧ 0 < I.dc)

def kfCase (I : Layout) (K : Nat) (C : Layout) (cK hm hn ysize : Nat) (mvalid : Bool) : Case := do
  if hm = 0 ∨ hn = 0 then pure none            -- LTIMeasurementModel's constructor throws
  else do
    let r ← kfCorrect I K C cK hm hn ysize mvalid
    pure (some r.tokens)
/-- the linear model's matrix has one column per state coordinate, which are also the covariance coordinates -/
def kfValid (I : Layout) (K : Nat) (C : Layout) (cK hm hn ysize : Nat) : Prop :=
  1 ≤ K ∧ I.dn = 0 ∧ C = I ∧ cK = K ∧ 1 ≤ hm ∧ hn = I.dim ∧ hn = I.dcov ∧ ysize = hm

/-! #### call sequences on one object -/

/-- one call of a sequence: the number of components of the beliefs passed in, and what the measurement model reports -/
structure CStep where
  K : Nat
  mv : Bool
  pv : Bool
  iv : Bool
  msz : Nat := 0        -- size of the (linear) measurement at this call; 0 = the size the model was configured with
  rrFollows : Bool := false   -- the noise covariance has the size of the measurement (full SUKF covariance, additive UKF)
deriving DecidableEq, Repr

/-- the measurement model as it answers at this call: validity flags, and — the model being time varying — possibly
    another measurement size than at the previous call -/
def MMod.withFlags (M : MMod) (s : CStep) : MMod :=
  let M' : MMod := { M with mvalid := s.mv, pvalid := s.pv, ivalid := s.iv }
  if s.msz = 0 then M'
  else { M' with O := ⟨s.msz, 0, false, 0⟩, prows := s.msz, irows := s.msz, ysize := s.msz, rr := if s.rrFollows then s.msz else M.rr }

/-- successive `correct()` + `getLikelihood()` on ONE UKFCorrection object -/
def ukfSeq (additive : Bool) (I : Layout) (M : MMod) : UKFMem → List CStep → W (List String)
  | _, [] => pure []
  | mem, s :: ss => do
    let (mem', L, k) ← ukfStep additive mem I s.K I s.K (M.withFlags s)
    let (lv, ls) ← ukfLik mem'
    let rest ← ukfSeq additive I M mem' ss
    pure (s!"{k}:{(L.meanS k).str}:{b01 lv}:{ls}" :: rest)

def ukfSeqCase (additive : Bool) (I : Layout) (M : MMod) (steps : List CStep) : Case := do
  let t ← ukfSeq additive I M UKFMem.init steps
  pure (some t)
def ukfSeqValid (additive : Bool) (I : Layout) (M : MMod) (steps : List CStep) : Prop :=
  ∀ s ∈ steps, ukfValid additive I s.K I s.K (M.withFlags s)

/-- successive `correct()` + `getLikelihood()` on ONE SUKFCorrection object -/
def sukfSeq (I : Layout) (M : MMod) (sub : Nat) (reduced : Bool) : SUKFMem → List CStep → W (List String)
  | _, [] => pure []
  | mem, s :: ss => do
    let (mem', L, k) ← sukfStep mem I s.K I s.K (M.withFlags s) sub reduced
    let (lv, ls) ← sukfLikelihood mem'.inn mem'.prop (M.withFlags s).rr sub reduced
    let rest ← sukfSeq I M sub reduced mem' ss
    pure (s!"{k}:{(L.meanS k).str}:{b01 lv}:{ls}" :: rest)

def sukfSeqCase (I : Layout) (M : MMod) (sub : Nat) (reduced : Bool) (steps : List CStep) : Case := do
  let t ← sukfSeq I M sub reduced SUKFMem.init steps
  pure (some t)
def sukfSeqValid (I : Layout) (M : MMod) (sub : Nat) (reduced : Bool) (steps : List CStep) : Prop :=
  ∀ s ∈ steps, sukfValid I s.K I s.K (M.withFlags s) sub reduced

/-- members of a KFCorrection object: `innovations_` and the component count of `meas_covariances_` (overwritten only by a
    successful correction) -/
structure KFMem where
  inn : Shape
  K : Nat

/-- successive `correct()` + `getLikelihood()` on ONE KFCorrection object over a linear model `H : hm × hn` -/
def kfSeq (I : Layout) (hm hn ysize : Nat) : KFMem → List CStep → W (List String)
  | _, [] => pure []
  | mem, s :: ss => do
    let r ← kfCorrect I s.K I s.K hm hn ysize s.mv
    let mem' : KFMem := if s.mv then ⟨⟨hm, s.K⟩, s.K⟩ else mem
    let (lv, ls) ← gaussLikelihood "KFCorrection" mem'.inn ⟨hm, 0, false, 0⟩ mem'.K
    let rest ← kfSeq I hm hn ysize mem' ss
    pure (s!"{r.K}:{(r.L.meanS r.K).str}:{b01 lv}:{ls}" :: rest)

def kfSeqCase (I : Layout) (hm hn ysize : Nat) (steps : List CStep) : Case := do
  if hm = 0 ∨ hn = 0 then pure none
  else do
    let t ← kfSeq I hm hn ysize ⟨⟨0, 0⟩, 1⟩ steps
    pure (some t)
def kfSeqValid (I : Layout) (hm hn ysize : Nat) (steps : List CStep) : Prop :=
  ∀ s ∈ steps, kfValid I s.K I s.K hm hn ysize

/-- successive `getNoiseSample(n)` and `motion` on `n` columns on ONE WhiteNoiseAcceleration object -/
def wnaSeqCase (d : Dim) (nums : List Nat) : Case := do
  let m ← wnaCtor d
  let toks ← nums.foldlM (fun (acc : List String) n => do
    let s ← wnaNoise m n
    let mot : Shape := ⟨d.n, n⟩
    additiveMotion m.F (wnaNoise m) ⟨d.n, n⟩ mot
    pure (acc ++ [s.str, mot.str])) []
  pure (some toks)

/-- successive `getNoiseSample(n)` on ONE LinearModel object -/
def lmSeqCase (n : Nat) (comps : List Nat) (nums : List Nat) : Case := do
  match (← lmCtor n comps ⟨comps.length, comps.length⟩) with
  | none => pure none
  | some m => do
    let toks ← nums.foldlM (fun (acc : List String) k => do
      let s ← lmNoise m k
      pure (acc ++ [s.str])) []
    pure (some toks)

/-! #### containers -/
def gmaccCase (K : Nat) (L : Layout) (which : String) (i j k : Nat) : Case := do
  mkGM K L
  gmAccess L K which i j k
def gmaccValid (K : Nat) (L : Layout) (which : String) (i j k : Nat) : Prop :=
  1 ≤ K ∧ i < K ∧
  (which = "mean2" → j < L.dim) ∧ (which = "cov3" → j < L.dcov ∧ k < L.dcov)
def psaccCase (K : Nat) (L : Layout) (which : String) (i j : Nat) : Case := psAccess L K which i j
def psaccValid (K : Nat) (L : Layout) (which : String) (i j : Nat) : Prop :=
  L.dn = 0 ∧ i < K ∧ (which = "state2" → j < L.dim)

def gmaugCase (K : Nat) (L : Layout) (n1 n2 : Shape) : Case := do
  let g0 := gmCtor K L.dl L.dc L.quat
  let (g1, a) ← gmAugment g0 n1
  let (g2, b) ← (if n2.r + n2.c > 0 then gmAugment g1 n2 else pure (g1, true))
  -- the harness then addresses covariance(i) of every component
  forRange g2.K fun i => do
    let _ ← middleCols "GaussianMixture::covariance(i)" g2.cov (g2.dcov * i) g2.dcov
  pure (some ([b01 a, b01 b] ++ g2.tokens ++ (List.replicate g2.K (Shape.mk g2.dcov g2.dcov).str)))
def gmaugValid (K : Nat) : Prop := 1 ≤ K

def storeOf (K : Nat) (L : Layout) : GMStore := ⟨K, L, L.dim, L.dcov, L.meanS K, L.covS K, K⟩

def gmresizeCase (K : Nat) (L : Layout) (K2 dl2 dc2 : Nat) : Case := do
  mkGM K L
  pure (some (gmResize (storeOf K L) K2 dl2 dc2).tokens)
def gmresizeValid (K : Nat) (L : Layout) : Prop := L.dn = 0 ∨ 1 ≤ K
def psresizeCase (K : Nat) (L : Layout) (K2 dl2 dc2 : Nat) : Case :=
  pure (some (psResize (psCtor K L.dl L.dc L.quat) K2 dl2 dc2).tokens)
def psaddCase (K1 : Nat) (L1 : Layout) (K2 : Nat) (L2 : Layout) : Case := do
  let r ← psAdd (psCtor K1 L1.dl L1.dc L1.quat) (psCtor K2 L2.dl L2.dc L2.quat)
  pure (some r.tokens)
/-- "Should check whether (this->dim_linear == rhs.dim_linear) && (this->dim_circular == rhs.dim_circular)" -/
def psaddValid (L1 L2 : Layout) : Prop := L1.dl = L2.dl ∧ L1.dc = L2.dc ∧ L1.quat = L2.quat

/-! #### resampling -/
def rsCase (N : Nat) (I : Layout) (rN : Nat) (R : Layout) (plen : Nat) (gt : Nat → Nat → Bool) : Case := do
  resample I N R rN plen gt
  pure (some [toString rN, (Shape.mk R.dim rN).str, toString (plen - N), "0"])
def rsValid (N : Nat) (I : Layout) (rN : Nat) (R : Layout) (plen : Nat) : Prop :=
  1 ≤ N ∧ I.dn = 0 ∧ R = I ∧ rN = N ∧ plen = N

def rwpCase (N rnum rden : Nat) (I : Layout) (nx ny plen : Nat) (gt : Nat → Nat → Bool) : Case := do
  let r ← resampleWithPrior I N rnum rden nx ny plen gt
  pure (some [toString r.K, (Shape.mk r.L.dim r.K).str, (r.L.meanS r.K).str, (r.L.covS r.K).str, toString r.K,
              toString (plen - r.written), toString r.prior, "0"])
/-- at least one particle, prior ratio in [0, 1), one parent slot per particle -/
def rwpValid (N rnum rden : Nat) (I : Layout) (plen : Nat) : Prop :=
  1 ≤ N ∧ I.dn = 0 ∧ 1 ≤ rden ∧ rnum < rden ∧ plen = N

/-! #### EstimatesExtraction -/
def eeCase (ls cs : Nat) (m : EMethod) (full : Bool) (a : EEArgs) (reps window : Nat) : Case := do
  let s0 := EEState.new ls cs
  let h ← (if window > 0 then histSetSize s0.hist window else pure s0.hist)
  let t ← eeRun { s0 with hist := h } m full a reps
  pure (some t)
/-- one weight per particle, particles with `linear + circular` rows, at least one particle; for the
    map-based overload one previous weight / likelihood per particle and a square transition table -/
def eeValid (ls cs : Nat) (full : Bool) (a : EEArgs) : Prop :=
  a.P.r = ls + cs ∧ 1 ≤ a.P.c ∧ a.w = a.P.c ∧
  (full = true → a.pw = a.P.c ∧ a.llen = a.P.c ∧ a.tp = ⟨a.P.c, a.P.c⟩)

def eefnCase (ls cs : Nat) (fn : String) (P : Shape) (w llen : Nat) (tp : Shape) : Case :=
  match fn with
  | "mean" => do let n ← eeMean ls cs P w; pure (some [toString n])
  | "mode" => do let n ← eeMode P w; pure (some [toString n])
  | "map" => do let n ← eeMap P w llen tp; pure (some [toString n])
  | _ => pure none

/-! #### GPFCorrection -/
def gpfMoveCase (mode n : Nat) : Case := do
  -- modes 3 and 4 destroy the source before the moved-to object draws a sample (after fix 1b09d3a the
  -- closure of the moved-to object refers to its own members)
  if mode ≥ 1 then moveThenUse .gpfCorrection (decide (mode ≥ 3))
  let r ← gpfSample n n
  pure (some [toString r])
def gpfSampleCase (msize csize : Nat) : Case := do let r ← gpfSample msize csize; pure (some [toString r])
def gpfSampleValid (msize csize : Nat) : Prop := msize = csize

/-! #### the preconditions are decidable (the driver evaluates them) -/
instance (d : Dim) (sr : Nat) : Decidable (wnaMotionValid d sr) := by unfold wnaMotionValid; infer_instance
instance (d : Dim) (sr : Nat) : Decidable (ssmValid d sr) := by unfold ssmValid; infer_instance
instance (T c : Nat) : Decidable (ssmLogValid T c) := by unfold ssmLogValid; infer_instance
instance (d : Dim) (n : Nat) : Decidable (slsValid d n) := by unfold slsValid; infer_instance
instance (K : Nat) (L : Layout) : Decidable (spValid K L) := by unfold spValid; infer_instance
instance (K : Nat) (I : Layout) (w : Nat) (O : Layout) (p d : Nat) : Decidable (utValid K I w O p d) := by unfold utValid; infer_instance
instance (K : Nat) (I : Layout) (w fn fq : Nat) (D : Layout) : Decidable (utsmValid K I w fn fq D) := by unfold utsmValid; infer_instance
instance (d : Dim) (K dl dn w : Nat) : Decidable (utwnaValid d K dl dn w) := by unfold utwnaValid; infer_instance
instance (a : Bool) (K : Nat) (I : Layout) (w : Nat) (M : MMod) : Decidable (utmmValid a K I w M) := by unfold utmmValid; infer_instance
instance (I : Layout) (K : Nat) (C : Layout) (cK : Nat) (M : MMod) : Decidable (corrValidCommon I K C cK M) := by unfold corrValidCommon; infer_instance
instance (a : Bool) (I : Layout) (K : Nat) (C : Layout) (cK : Nat) (M : MMod) : Decidable (ukfValid a I K C cK M) := by unfold ukfValid; infer_instance
instance (I : Layout) (K : Nat) (C : Layout) (cK : Nat) (M : MMod) (s : Nat) (r : Bool) : Decidable (sukfValid I K C cK M s r) := by unfold sukfValid; infer_instance
instance (I : Layout) (K : Nat) (C : Layout) (cK hm hn y : Nat) : Decidable (kfValid I K C cK hm hn y) := by unfold kfValid; infer_instance
instance (K : Nat) (L : Layout) (w : String) (i j k : Nat) : Decidable (gmaccValid K L w i j k) := by unfold gmaccValid; infer_instance
instance (K : Nat) (L : Layout) (w : String) (i j : Nat) : Decidable (psaccValid K L w i j) := by unfold psaccValid; infer_instance
instance (K : Nat) : Decidable (gmaugValid K) := by unfold gmaugValid; infer_instance
instance (K : Nat) (L : Layout) : Decidable (gmresizeValid K L) := by unfold gmresizeValid; infer_instance
instance (L1 L2 : Layout) : Decidable (psaddValid L1 L2) := by unfold psaddValid; infer_instance
instance (N : Nat) (I : Layout) (rN : Nat) (R : Layout) (p : Nat) : Decidable (rsValid N I rN R p) := by unfold rsValid; infer_instance
instance (N a b : Nat) (I : Layout) (p : Nat) : Decidable (rwpValid N a b I p) := by unfold rwpValid; infer_instance
instance (ls cs : Nat) (f : Bool) (a : EEArgs) : Decidable (eeValid ls cs f a) := by unfold eeValid; infer_instance
instance (m c : Nat) : Decidable (gpfSampleValid m c) := by unfold gpfSampleValid; infer_instance

instance (a : Bool) (I : Layout) (M : MMod) (st : List CStep) : Decidable (ukfSeqValid a I M st) := by unfold ukfSeqValid; infer_instance
instance (I : Layout) (M : MMod) (sub : Nat) (r : Bool) (st : List CStep) : Decidable (sukfSeqValid I M sub r st) := by unfold sukfSeqValid; infer_instance
instance (I : Layout) (hm hn y : Nat) (st : List CStep) : Decidable (kfSeqValid I hm hn y st) := by unfold kfSeqValid; infer_instance
instance (I : Layout) (M : MMod) : Decidable (ukfSupported I M) := by unfold ukfSupported; infer_instance
instance (I : Layout) : Decidable (sukfSupported I) := by unfold sukfSupported; infer_instance

end BFL.Bounds
