import BFL.Model.SIS
import BFL.Proofs.SIS
import BFL.Proofs.ResamplePrior
import BFL.Props.C07
/-
C06 — The SIS recursion keeps a normalised, fixed-size, correctly re-weighted particle set.

Theorems about `sisStep` (BFL/Model/SIS.lean) over ℝ, for every particle count `N ≥ 1`, layout
`(lin, circ)`, every history of events — skip commands, failing or succeeding measurement
acquisition, valid or invalid likelihoods with arbitrary non-negative values (vanishing ones
included), every prediction step that satisfies the contract `PredOK` (keeps the shape of the set it
writes to, copies the weights — what `DrawParticles::predictStep` does), every stream of draws.

"All log-weights are finite" is rendered in ℝ as: every `log` the step takes has a positive
argument (`sis_log_arguments_positive`), cf. DESIGN.md 3.3.

Normalisation: a step whose measurement acquisition succeeds normalises the weights itself
(`w -= log_sum_exp(w)`, also when the correction is skipped or the likelihood is invalid); a step
whose acquisition fails hands the predicted weights on unchanged, and those are normalised because
the previous corrected weights were — or, at step 0, because the initial weights are
(hypothesis `InitOK`, true of the shipped `InitSurveillanceAreaGrid`: all weights `-log N`).
-/
namespace BFL
open PF
set_option linter.unusedSectionVars false

variable {π : Type} [Inhabited π]

/-- contract of the initialisation model: it fills the set it is given (`N` particles, layout of the
    filter) and its weights are normalised -/
def InitOK (cfg : SisCfg ℝ) (lin circ : Nat) (init : PSet π ℝ → PSet π ℝ) : Prop :=
  SetOK cfg.N lin circ (init (PSet.fresh cfg.N lin circ))

/-- the invariant holds after construction + `initialization_step()` -/
theorem sis_inv_init (cfg : SisCfg ℝ) (lin circ : Nat) (init : PSet π ℝ → PSet π ℝ) (rng : List ℝ)
    (hinit : InitOK cfg lin circ init) :
    SisInv cfg lin circ (sisInit cfg lin circ init rng) :=
  { pred := hinit.toShapeOK, pred0 := fun _ => hinit.norm, cor := fun h => absurd rfl h }

/-- one filtering step preserves the invariant -/
theorem sis_inv_step (cfg : SisCfg ℝ) (lin circ : Nat) (hN : 0 < cfg.N) (s : SisState π ℝ) (ev : SisEvent π ℝ)
    (hinv : SisInv cfg lin circ s) (hev : EvOK cfg.N ev) :
    SisInv cfg lin circ (sisStep cfg s ev) ∧ (sisStep cfg s ev).step = s.step + 1 :=
  ⟨sis_inv_step' cfg lin circ hN s ev hinv hev, sisStep_step cfg s ev⟩

/-- the invariant holds after every history -/
theorem sis_inv_history (cfg : SisCfg ℝ) (lin circ : Nat) (hN : 0 < cfg.N) (init : PSet π ℝ → PSet π ℝ) (rng : List ℝ)
    (hinit : InitOK cfg lin circ init) (evs : List (SisEvent π ℝ)) (hevs : ∀ ev ∈ evs, EvOK cfg.N ev) :
    SisInv cfg lin circ (evs.foldl (sisStep cfg) (sisInit cfg lin circ init rng)) ∧
    (evs.foldl (sisStep cfg) (sisInit cfg lin circ init rng)).step = evs.length := by
  suffices h : ∀ (s : SisState π ℝ), SisInv cfg lin circ s →
      SisInv cfg lin circ (evs.foldl (sisStep cfg) s) ∧ (evs.foldl (sisStep cfg) s).step = s.step + evs.length by
    have := h _ (sis_inv_init cfg lin circ init rng hinit)
    simpa [sisInit] using this
  induction evs with
  | nil => intro s hs; exact ⟨hs, rfl⟩
  | cons ev evs ih =>
    intro s hs
    have hstep := sis_inv_step cfg lin circ hN s ev hs (hevs ev (List.mem_cons_self))
    have := ih (fun e he => hevs e (List.mem_cons_of_mem _ he)) _ hstep.1
    rw [List.foldl_cons]
    refine ⟨this.1, ?_⟩
    rw [this.2, hstep.2, List.length_cons]; omega

/-- What the property states about the corrected set after every step of every history (at least
    one step): `N` particles, the filter's layout, normalised log-weights. -/
theorem sis_corrected_set_after_history (cfg : SisCfg ℝ) (lin circ : Nat) (hN : 0 < cfg.N)
    (init : PSet π ℝ → PSet π ℝ) (rng : List ℝ) (hinit : InitOK cfg lin circ init)
    (evs : List (SisEvent π ℝ)) (hevs : ∀ ev ∈ evs, EvOK cfg.N ev) (hne : evs ≠ []) :
    let c := (evs.foldl (sisStep cfg) (sisInit cfg lin circ init rng)).cor
    c.n = cfg.N ∧ c.parts.length = cfg.N ∧ c.logw.length = cfg.N ∧ c.lin = lin ∧ c.circ = circ ∧
    (c.logw.map Real.exp).sum = 1 ∧ logSumExp c.logw = 0 := by
  intro c
  obtain ⟨hinv, hstep⟩ := sis_inv_history cfg lin circ hN init rng hinit evs hevs
  have hpos : (evs.foldl (sisStep cfg) (sisInit cfg lin circ init rng)).step ≠ 0 := by
    rw [hstep]; intro h; exact hne (List.eq_nil_of_length_eq_zero h)
  have h := hinv.cor hpos
  have hnil : c.logw ≠ [] := by
    intro he; have := h.logw; rw [he] at this; simp at this; omega
  refine ⟨h.n, h.parts, h.logw, h.lin, h.circ, h.norm, ?_⟩
  rw [logSumExp_eq _ hnil, h.norm, Real.log_one]

/-- Definedness ("finite"): every logarithm of a step has a positive argument — the re-weighting
    `log(lᵢ + tiny)` for every non-negative likelihood, vanishing ones included; the sum inside
    `log_sum_exp`; `log N` of the resampling; and the sum of squares `neff` divides by. -/
theorem sis_log_arguments_positive (cfg : SisCfg ℝ) (lin circ : Nat) (hN : 0 < cfg.N) (htiny : 0 < cfg.tiny)
    (s : SisState π ℝ) (ev : SisEvent π ℝ) (hinv : SisInv cfg lin circ s) (hev : EvOK cfg.N ev) :
    (∀ l ∈ ev.lik, 0 < l + cfg.tiny) ∧
    (∀ (ws : List ℝ) (m : ℝ), ws ≠ [] → 0 < (ws.map (fun x => Real.exp (x - m))).sum) ∧
    (0 : ℝ) < (cfg.N : ℝ) ∧
    0 < ((sisCorrect cfg s ev).logw.map (fun w => Real.exp w * Real.exp w)).sum := by
  refine ⟨fun l hl => by have := hev.likNonneg l hl; linarith,
    fun ws m h => logSumExp_arg_pos ws h m, by exact_mod_cast hN, ?_⟩
  have hc := sisCorrect_ok cfg lin circ hN s ev hinv hev
  have hw : ∀ x ∈ (sisCorrect cfg s ev).logw.map Real.exp, 0 ≤ x := by
    intro x hx; obtain ⟨w, _, rfl⟩ := List.mem_map.1 hx; exact (Real.exp_pos w).le
  have := (neff_bounds' _ hw hc.norm).1
  simpa [List.map_map, Function.comp_def] using this

/-- Re-weighting: when the measurement is available (acquisition succeeds, correction not skipped,
    likelihood valid) every corrected log-weight is the predicted one plus `log(lᵢ + tiny)` minus the
    log-sum-exp of these — in the linear domain: weight × (likelihood + tiny), then normalised. -/
theorem sis_reweight (cfg : SisCfg ℝ) (htiny : 0 < cfg.tiny) (s : SisState π ℝ) (ev : SisEvent π ℝ)
    (hf : ev.freezeOk = true) (hs : (sisFlagsCor s ev).2 = false) (hv : ev.likValid = true)
    (hl : ev.lik.length = (sisPredict s ev).logw.length) (hnn : ∀ l ∈ ev.lik, 0 ≤ l)
    (i : Nat) (hi : i < ev.lik.length) :
    (sisCorrect cfg s ev).parts = (sisPredict s ev).parts ∧
    (sisCorrect cfg s ev).logw.length = ev.lik.length ∧
    0 < ev.lik[i] + cfg.tiny ∧
    (sisCorrect cfg s ev).logw[i]? =
      some ((sisPredict s ev).logw[i]'(hl ▸ hi) + Real.log (ev.lik[i] + cfg.tiny)
        - logSumExp (List.zipWith (fun w l => w + Real.log (l + cfg.tiny)) (sisPredict s ev).logw ev.lik)) ∧
    (∀ x ∈ (sisCorrect cfg s ev).logw[i]?, Real.exp x =
      Real.exp ((sisPredict s ev).logw[i]'(hl ▸ hi)) * (ev.lik[i] + cfg.tiny) /
        (List.zipWith (fun w l => Real.exp w * (l + cfg.tiny)) (sisPredict s ev).logw ev.lik).sum) := by
  have hiw : i < (sisPredict s ev).logw.length := hl ▸ hi
  generalize hw : (sisPredict s ev).logw = w at hl hiw ⊢
  set raw := List.zipWith (fun w l => w + Real.log (l + cfg.tiny)) w ev.lik with hraw
  have hpos : 0 < ev.lik[i] + cfg.tiny := by
    have := hnn _ (List.getElem_mem hi); linarith
  have hcor : sisCorrect cfg s ev =
      { (sisPredict s ev) with logw := normalizeLog raw } := by
    unfold sisCorrect
    simp only [hf, hs, hv, bootstrapCorrect, if_true, Bool.not_false, hw]
    rfl
  have hrawlen : raw.length = ev.lik.length := by simp [raw, hl]
  have hrawi : raw[i]'(by omega) = w[i] + Real.log (ev.lik[i] + cfg.tiny) := by
    simp [raw]
  have hne : raw ≠ [] := by
    intro he; rw [he] at hrawlen; simp at hrawlen; omega
  have hget : (sisCorrect cfg s ev).logw[i]? = some (w[i] + Real.log (ev.lik[i] + cfg.tiny) - logSumExp raw) := by
    rw [hcor]
    simp only
    rw [List.getElem?_eq_getElem (by rw [normalizeLog_length]; omega), normalizeLog_getElem, hrawi]
  refine ⟨by rw [hcor], by rw [hcor]; simp [normalizeLog_length, hrawlen], hpos, hget, ?_⟩
  intro x hx
  rw [hget] at hx
  cases hx
  have hsum : (raw.map Real.exp).sum = (List.zipWith (fun w l => Real.exp w * (l + cfg.tiny)) w ev.lik).sum := by
    congr 1
    simp only [raw, List.map_zipWith]
    apply List.ext_getElem (by simp)
    intro n h1 h2
    simp only [List.getElem_zipWith]
    have hn : n < ev.lik.length := by simp at h1; omega
    have : 0 < ev.lik[n] + cfg.tiny := by
      have := hnn _ (List.getElem_mem hn); linarith
    rw [Real.exp_add, Real.exp_log this]
  rw [Real.exp_sub, Real.exp_add, Real.exp_log hpos, exp_logSumExp raw hne, hsum]

/-- No measurement: when the acquisition fails the corrected set *is* the predicted set. -/
theorem sis_no_measurement_identity (cfg : SisCfg ℝ) (s : SisState π ℝ) (ev : SisEvent π ℝ)
    (hf : ev.freezeOk = false) :
    sisCorrect cfg s ev = sisPredict s ev ∧
    (sisTrigger cfg (sisCorrect cfg s ev) = false → (sisStep cfg s ev).cor = sisPredict s ev) := by
  have h : sisCorrect cfg s ev = sisPredict s ev := by
    unfold sisCorrect; simp [hf]
  refine ⟨h, fun ht => ?_⟩
  rw [sisStep_cor, ht, ← h]; rfl

/-- When the measurement is acquired but not used (correction skipped, or the likelihood invalid) the
    particles are the predicted ones and the weights are the predicted weights, normalised. -/
theorem sis_unused_measurement (cfg : SisCfg ℝ) (s : SisState π ℝ) (ev : SisEvent π ℝ)
    (hf : ev.freezeOk = true) (h : (sisFlagsCor s ev).2 = true ∨ ev.likValid = false) :
    sisCorrect cfg s ev = { (sisPredict s ev) with logw := normalizeLog (sisPredict s ev).logw } := by
  unfold sisCorrect
  rcases h with h | h
  · simp [hf, h]
  · cases hs : (sisFlagsCor s ev).2 <;> simp [hf, h, bootstrapCorrect]

/-- Resampling runs exactly when `1 / Σ exp(wᵢ)²  <  N / 3` for the corrected weights `w`; otherwise
    the corrected set is kept as it is. -/
theorem sis_resample_iff (cfg : SisCfg ℝ) (s : SisState π ℝ) (ev : SisEvent π ℝ) :
    ((sisStep cfg s ev).resampled = true ↔
      1 / ((sisCorrect cfg s ev).logw.map (fun w => Real.exp w * Real.exp w)).sum < (cfg.N : ℝ) / 3) ∧
    ((sisStep cfg s ev).resampled = false → (sisStep cfg s ev).cor = sisCorrect cfg s ev ∧ (sisStep cfg s ev).rng = s.rng) := by
  have hn : neffLog (sisCorrect cfg s ev).logw =
      1 / ((sisCorrect cfg s ev).logw.map (fun w => Real.exp w * Real.exp w)).sum := by
    unfold neffLog neff
    simp [List.map_map, Function.comp_def]
  constructor
  · rw [sisStep_resampled, sisTrigger, decide_eq_true_iff, hn]
    norm_num
  · intro h
    rw [sisStep_resampled] at h
    refine ⟨by rw [sisStep_cor, h]; rfl, ?_⟩
    show (sisStepWith resample cfg s ev).rng = s.rng
    rw [sisStepWith_rng, h]; rfl

/-- After a resampling: `N` particles with the filter's layout, all log-weights `-log N`
    (normalised), one draw consumed, and every particle is the corrected particle at the parent
    reported for it (the parents are those of C07's selection on the corrected weights). -/
theorem sis_after_resample_uniform (cfg : SisCfg ℝ) (lin circ : Nat) (hN : 0 < cfg.N) (s : SisState π ℝ) (ev : SisEvent π ℝ)
    (hinv : SisInv cfg lin circ s) (hev : EvOK cfg.N ev) (hr : (sisStep cfg s ev).resampled = true) :
    (sisStep cfg s ev).cor.logw = List.replicate cfg.N (-(Real.log (cfg.N : ℝ))) ∧
    SetOK cfg.N lin circ (sisStep cfg s ev).cor ∧
    (sisStep cfg s ev).rng = s.rng.tail ∧
    (sisStep cfg s ev).parents =
      (resampleIdx ((sisCorrect cfg s ev).logw.map Real.exp) (s.rng.headD default)).map Int.ofNat ∧
    (∀ j, j < cfg.N → ∃ (p : Nat) (hp : p < (sisCorrect cfg s ev).parts.length),
      (sisStep cfg s ev).parents[j]? = some (p : Int) ∧
      (sisStep cfg s ev).cor.parts[j]? = some (sisCorrect cfg s ev).parts[p]) := by
  have hc := sisCorrect_ok cfg lin circ hN s ev hinv hev
  rw [sisStep_resampled] at hr
  have h1 := resampled_ok cfg.N lin circ hN _ hc (s.rng.headD default)
  refine ⟨by rw [sisStep_cor, hr]; exact h1.2, by rw [sisStep_cor, hr]; exact h1.1, ?_,
    by rw [sisStep_parents, hr]; rfl, ?_⟩
  · show (sisStepWith resample cfg s ev).rng = s.rng.tail
    rw [sisStepWith_rng, hr]; rfl
  · intro j hj
    obtain ⟨p, hp, _, h3, h4⟩ := resample_copy (sisCorrect cfg s ev)
      (PSet.fresh cfg.N (sisCorrect cfg s ev).lin (sisCorrect cfg s ev).circ) (s.rng.headD default)
      (by rw [hc.parts, hc.logw]) j (by rw [hc.logw]; exact hj)
    exact ⟨p, hp, by rw [sisStep_parents, hr]; exact h3, by rw [sisStep_cor, hr]; exact h4⟩

/-- skip commands only ever set the two flags (they cannot break the invariant, whatever their order and
    whatever the moment they arrive at): after the step the flags are the fold of all the commands of the
    step in arrival order — those issued before the step, those arriving between the prediction's and the
    correction's read of their flags, and those arriving after the correction's read -/
theorem sis_flags_after (cfg : SisCfg ℝ) (s : SisState π ℝ) (ev : SisEvent π ℝ) :
    (sisStep cfg s ev).skipPred = ((ev.cmds ++ ev.cmdsMid ++ ev.cmdsLate).foldl applyCmd (s.skipPred, s.skipCor)).1 ∧
    (sisStep cfg s ev).skipCor = ((ev.cmds ++ ev.cmdsMid ++ ev.cmdsLate).foldl applyCmd (s.skipPred, s.skipCor)).2 := by
  have h := sisStepWith_flags resample cfg s ev
  simp only [sisFlagsEnd, sisFlagsCor, sisFlags, ← List.foldl_append] at h
  exact h

/-- Which flag value each part of the step obeys: the prediction the flags after the commands issued before
    the step (commands arriving later in the step do not reach it); the correction the flags after the
    commands that arrived before *its* read; commands arriving after that read change nothing in this step —
    predicted set, corrected set, resampling decision, parents and generator are those of the step without
    them.  In particular the normalisation never depends on a flag (`sis_inv_step` holds for all command
    lists): there is no second read of the correction's flag in `filtering_step()`. -/
theorem sis_command_arrival (rs : PSet π ℝ → PSet π ℝ → ℝ → PSet π ℝ × List Int)
    (cfg : SisCfg ℝ) (s : SisState π ℝ) (ev : SisEvent π ℝ) (mid late : List SkipCmd) :
    sisPredict s { ev with cmdsMid := mid, cmdsLate := late } = sisPredict s ev ∧
    sisCorrect cfg s { ev with cmdsLate := late } = sisCorrect cfg s ev ∧
    (sisStepWith rs cfg s { ev with cmdsLate := late }).pred = (sisStepWith rs cfg s ev).pred ∧
    (sisStepWith rs cfg s { ev with cmdsLate := late }).cor = (sisStepWith rs cfg s ev).cor ∧
    (sisStepWith rs cfg s { ev with cmdsLate := late }).resampled = (sisStepWith rs cfg s ev).resampled ∧
    (sisStepWith rs cfg s { ev with cmdsLate := late }).parents = (sisStepWith rs cfg s ev).parents ∧
    (sisStepWith rs cfg s { ev with cmdsLate := late }).rng = (sisStepWith rs cfg s ev).rng ∧
    (sisStepWith rs cfg s { ev with cmdsLate := late }).step = (sisStepWith rs cfg s ev).step := by
  have hp : sisPredict s { ev with cmdsMid := mid, cmdsLate := late } = sisPredict s ev := rfl
  have hc : sisCorrect cfg s { ev with cmdsLate := late } = sisCorrect cfg s ev := rfl
  refine ⟨hp, hc, ?_, ?_, ?_, ?_, ?_, ?_⟩
  · rw [sisStepWith_pred, sisStepWith_pred]; rfl
  · rw [sisStepWith_cor, sisStepWith_cor, hc]
  · rw [sisStepWith_resampled, sisStepWith_resampled, hc]
  · rw [sisStepWith_parents, sisStepWith_parents, hc]
  · rw [sisStepWith_rng, sisStepWith_rng, hc]
  · rw [sisStepWith_step, sisStepWith_step]

/-- The moment of arrival matters (the model must distinguish it): the same command `skip("correction", true)`
    issued before the step suppresses the re-weighting of this step, arriving after the correction's read it
    does not — one particle pair, likelihoods `(1, 3)`: corrected weights differ. -/
theorem sis_arrival_point_matters :
    let cfg : SisCfg ℝ := { N := 2, tiny := 1 }
    let s : SisState Unit ℝ := sisInit cfg 1 0 (fun p => { p with logw := [0, 0] }) []
    let ev : SisEvent Unit ℝ := { cmds := [], freezeOk := true, likValid := true, lik := [1, 3],
                                    predict := fun prev p => { p with logw := prev.logw } }
    (sisFlagsCor s { ev with cmds := [.corOn] }).2 = true ∧ (sisFlagsCor s { ev with cmdsLate := [.corOn] }).2 = false ∧
    (sisStep cfg s { ev with cmds := [.corOn] }).skipCor = true ∧ (sisStep cfg s { ev with cmdsLate := [.corOn] }).skipCor = true ∧
    sisCorrect cfg s { ev with cmds := [.corOn] } ≠ sisCorrect cfg s { ev with cmdsLate := [.corOn] } := by
  intro cfg s ev
  refine ⟨rfl, rfl, (sis_flags_after cfg s _).2, (sis_flags_after cfg s _).2, ?_⟩
  intro h
  have h2 := congrArg (fun p : PSet Unit ℝ => p.logw) h
  have e1 : (sisCorrect cfg s { ev with cmds := [.corOn] }).logw = normalizeLog [0, 0] := rfl
  have e2 : (sisCorrect cfg s { ev with cmdsLate := [.corOn] }).logw =
      normalizeLog [0 + Real.log (1 + 1), 0 + Real.log (3 + 1)] := rfl
  simp only [e1, e2] at h2
  have h3 := congrArg (fun l : List ℝ => l.getD 1 0 - l.getD 0 0) h2
  simp only [normalizeLog, List.map_cons, List.map_nil, List.getD_cons_succ, List.getD_cons_zero] at h3
  have : Real.log (1 + 1) = Real.log (3 + 1) := by linarith
  have h4 := Real.log_injOn_pos (by norm_num : (1 + 1 : ℝ) ∈ Set.Ioi 0) (by norm_num : (3 + 1 : ℝ) ∈ Set.Ioi 0) this
  norm_num at h4

/-- Command histories that net to nothing: if the commands issued before a step leave both flags as they were
    (`[on, off]`, `[all on, prediction off, correction off]`, … on a filter that was not skipping), the step is
    exactly the step of a filter that received no command — predicted set, corrected set, resampling, flags. -/
theorem sis_commands_netting_to_nothing (rs : PSet π ℝ → PSet π ℝ → ℝ → PSet π ℝ × List Int)
    (cfg : SisCfg ℝ) (s : SisState π ℝ) (ev : SisEvent π ℝ)
    (h : ev.cmds.foldl applyCmd (s.skipPred, s.skipCor) = (s.skipPred, s.skipCor)) :
    sisStepWith rs cfg s ev = sisStepWith rs cfg s { ev with cmds := [] } := by
  have hf : sisFlags s ev = sisFlags s { ev with cmds := [] } := by
    simp only [sisFlags, h, List.foldl_nil]
  have hc : sisFlagsCor s ev = sisFlagsCor s { ev with cmds := [] } := by
    simp only [sisFlagsCor, hf]
  have he : sisFlagsEnd s ev = sisFlagsEnd s { ev with cmds := [] } := by
    simp only [sisFlagsEnd, hc]
  have hp : sisPredict s ev = sisPredict s { ev with cmds := [] } := by
    simp only [sisPredict, hf]
  have hcor : sisCorrect cfg s ev = sisCorrect cfg s { ev with cmds := [] } := by
    simp only [sisCorrect, hc, hp]
  simp only [sisStepWith, he, hp, hcor]

/-- non-vacuity: on a filter that is not skipping, `skip("all", true); skip("prediction", false);
    skip("correction", false)` nets to nothing, and so does `on, off` of either flag -/
example : [SkipCmd.allOn, .predOff, .corOff].foldl applyCmd (false, false) = (false, false) ∧
    [SkipCmd.corOn, .corOff].foldl applyCmd (false, false) = (false, false) ∧
    [SkipCmd.predOn, .other, .allOff].foldl applyCmd (false, false) = (false, false) := ⟨rfl, rfl, rfl⟩

/-- a command `ParticleFilter::skip` does not know is refused and changes nothing; the six step-level
    commands are accepted -/
theorem sis_unknown_command_ignored (f : Bool × Bool) :
    applyCmd f .other = f ∧ cmdAccepted .other = false ∧
    (∀ c, c ≠ SkipCmd.other → cmdAccepted c = true) := by
  refine ⟨rfl, rfl, ?_⟩
  intro c hc
  cases c <;> first | rfl | exact absurd rfl hc

/-- all the commands of a life item, in arrival order -/
def opCmds : SisOp π ℝ → List SkipCmd
  | .step ev => ev.cmds ++ ev.cmdsMid ++ ev.cmdsLate
  | .reset _ => []

/-- History level: after a whole life (steps and resets, any resampling object) the two flags are the fold of
    every command ever issued, in arrival order, over the flags at the start — a reset does not clear them,
    no step changes them by itself, and the moment a command arrives at inside a step is irrelevant for the
    flags (it is relevant only for which parts of that step still see the old value: `sis_command_arrival`). -/
theorem sis_flags_history (rs : PSet π ℝ → PSet π ℝ → ℝ → PSet π ℝ × List Int)
    (cfg : SisCfg ℝ) (s : SisState π ℝ) (ops : List (SisOp π ℝ)) :
    ((sisRun rs cfg s ops).skipPred, (sisRun rs cfg s ops).skipCor) =
      (ops.flatMap opCmds).foldl applyCmd (s.skipPred, s.skipCor) := by
  induction ops generalizing s with
  | nil => rfl
  | cons op ops ih =>
    have hrun : sisRun rs cfg s (op :: ops) =
        sisRun rs cfg (match op with | .step ev => sisStepWith rs cfg s ev | .reset init => sisReinit init s) ops := by
      cases op <;> rfl
    rw [hrun, ih, List.flatMap_cons, List.foldl_append]
    congr 1
    cases op with
    | step ev =>
      have h := sisStepWith_flags rs cfg s ev
      simp only [sisFlagsEnd, sisFlagsCor, sisFlags, ← List.foldl_append] at h
      simp only [opCmds]
      exact Prod.ext h.1 h.2
    | reset init => rfl

/-! ### Any resampling implementation

`resampling()` is a virtual object: the filter may be built with `Resampling` or with
`ResamplingWithPrior` (or a user's).  The invariant only needs the contract `ResamplerOK`: from a
well-formed, normalised corrected set and a destination of the filter's shape the resampler returns a
well-formed set whose weights are all `-log N`.  Both shipped resamplers meet it. -/

theorem sis_inv_step_any_resampler (rs : PSet π ℝ → PSet π ℝ → ℝ → PSet π ℝ × List Int)
    (cfg : SisCfg ℝ) (lin circ : Nat) (hN : 0 < cfg.N) (hrs : ResamplerOK cfg.N lin circ rs)
    (s : SisState π ℝ) (ev : SisEvent π ℝ) (hinv : SisInv cfg lin circ s) (hev : EvOK cfg.N ev) :
    SisInv cfg lin circ (sisStepWith rs cfg s ev) ∧ (sisStepWith rs cfg s ev).step = s.step + 1 ∧
    ((sisStepWith rs cfg s ev).resampled = true →
      (sisStepWith rs cfg s ev).cor.logw = List.replicate cfg.N (-(Real.log (cfg.N : ℝ)))) := by
  refine ⟨sis_inv_stepWith rs cfg lin circ hN hrs s ev hinv hev, sisStepWith_step rs cfg s ev, ?_⟩
  intro hr
  rw [sisStepWith_resampled] at hr
  have hc := sisCorrect_ok cfg lin circ hN s ev hinv hev
  rw [sisStepWith_cor, hr]
  exact (hrs _ _ _ hc.toShapeOK (by rw [hc.lin, hc.circ]; exact fresh_shapeOK cfg.N lin circ)).2

theorem sis_inv_history_any_resampler (rs : PSet π ℝ → PSet π ℝ → ℝ → PSet π ℝ × List Int)
    (cfg : SisCfg ℝ) (lin circ : Nat) (hN : 0 < cfg.N) (hrs : ResamplerOK cfg.N lin circ rs)
    (init : PSet π ℝ → PSet π ℝ) (rng : List ℝ)
    (hinit : InitOK cfg lin circ init) (evs : List (SisEvent π ℝ)) (hevs : ∀ ev ∈ evs, EvOK cfg.N ev) :
    SisInv cfg lin circ (evs.foldl (sisStepWith rs cfg) (sisInit cfg lin circ init rng)) := by
  suffices h : ∀ (s : SisState π ℝ), SisInv cfg lin circ s → SisInv cfg lin circ (evs.foldl (sisStepWith rs cfg) s) from
    h _ (sis_inv_init cfg lin circ init rng hinit)
  induction evs with
  | nil => intro s hs; exact hs
  | cons ev evs ih =>
    intro s hs
    rw [List.foldl_cons]
    exact ih (fun e he => hevs e (List.mem_cons_of_mem _ he)) _
      (sis_inv_stepWith rs cfg lin circ hN hrs s ev hs (hevs ev List.mem_cons_self))

/-- `Resampling` meets the contract -/
theorem resampler_ok_systematic (N lin circ : Nat) (hN : 0 < N) :
    ResamplerOK N lin circ (resample (π := π) (α := ℝ)) :=
  resample_resamplerOK N lin circ hN

/-- `ResamplingWithPrior` meets the contract (any admissible sort, any shape-keeping initialiser,
    any prior ratio in `[0, 1)`) -/
theorem resampler_ok_prior (N lin circ : Nat) (hN : 0 < N) (sortIdx : List ℝ → List Nat) (init : PSet π ℝ → PSet π ℝ)
    (ratio : ℝ) (hs : SortPerm sortIdx) (hi : InitKeepsShape init) (h1 : ratio < 1) :
    ResamplerOK N lin circ (fun cor _res u => resampleWithPrior (fun x => ⌊x⌋₊) sortIdx init ratio cor u) := by
  intro cor _res u h _
  have hc : cor.logw.length = cor.parts.length := by rw [h.logw, h.parts]
  have hNp : 0 < cor.parts.length := by rw [h.parts]; exact hN
  have hk := (prior_count_lt ratio cor h1 hNp).le
  obtain ⟨a1, a2, a3, a4, a5, a6⟩ := rwp_shape (fun x => ⌊x⌋₊) sortIdx init ratio cor u hs.len hi hc hk
  rw [h.parts] at a1 a2 a6
  refine ⟨?_, a6⟩
  exact { n := a1, lin := by rw [a3]; exact h.lin, circ := by rw [a4]; exact h.circ, quat := by rw [a5]; exact h.quat,
          parts := a2, logw := by rw [a6]; simp, norm := by rw [a6]; exact sum_exp_uniform N hN }

/-! ### Epochs: reset and re-initialisation -/

/-- The invariant holds through a whole life of the filter — steps and resets in any order, each reset
    re-running `initialization_step()` on the existing predicted set with the initialisation model as it is
    then (it may differ from epoch to epoch), skip flags, corrected set and generator carried over — for any
    resampling object meeting `ResamplerOK`. -/
theorem sis_inv_epochs (rs : PSet π ℝ → PSet π ℝ → ℝ → PSet π ℝ × List Int)
    (cfg : SisCfg ℝ) (lin circ : Nat) (hN : 0 < cfg.N) (hrs : ResamplerOK cfg.N lin circ rs)
    (init : PSet π ℝ → PSet π ℝ) (rng : List ℝ) (hinit : InitOK cfg lin circ init)
    (ops : List (SisOp π ℝ)) (hops : ∀ op ∈ ops, OpOK cfg lin circ op) :
    SisInv cfg lin circ (sisRun rs cfg (sisInit cfg lin circ init rng) ops) :=
  sis_inv_run' rs cfg lin circ hN hrs ops hops _ (sis_inv_init cfg lin circ init rng hinit)

/-- a reset starts the new epoch at step 0 with the re-initialised predicted set and keeps everything else -/
theorem sis_reinit_state (init : PSet π ℝ → PSet π ℝ) (s : SisState π ℝ) :
    (sisReinit init s).step = 0 ∧ (sisReinit init s).pred = init s.pred ∧ (sisReinit init s).cor = s.cor ∧
    (sisReinit init s).skipPred = s.skipPred ∧ (sisReinit init s).skipCor = s.skipCor ∧ (sisReinit init s).rng = s.rng :=
  ⟨rfl, rfl, rfl, rfl, rfl, rfl⟩

/-- the whole invariant with the prior-mixing resampler `ResamplingWithPrior` inside the filter -/
theorem sis_inv_epochs_prior (cfg : SisCfg ℝ) (lin circ : Nat) (hN : 0 < cfg.N)
    (sortIdx : List ℝ → List Nat) (pinit : PSet π ℝ → PSet π ℝ) (ratio : ℝ)
    (hs : SortPerm sortIdx) (hi : InitKeepsShape pinit) (h1 : ratio < 1)
    (init : PSet π ℝ → PSet π ℝ) (rng : List ℝ) (hinit : InitOK cfg lin circ init)
    (ops : List (SisOp π ℝ)) (hops : ∀ op ∈ ops, OpOK cfg lin circ op) :
    SisInv cfg lin circ
      (sisRun (fun cor _res u => resampleWithPrior (fun x => ⌊x⌋₊) sortIdx pinit ratio cor u) cfg
        (sisInit cfg lin circ init rng) ops) :=
  sis_inv_epochs _ cfg lin circ hN (resampler_ok_prior cfg.N lin circ hN sortIdx pinit ratio hs hi h1) init rng hinit ops hops

/-! ### What is normalised when the initial weights are not -/

/-- Without any hypothesis on the weights handed to a step (initial weights may be un-normalised): count
    and layout are kept; the corrected set is normalised as soon as the acquisition succeeds or resampling
    runs; and if neither happens it is exactly the predicted set (so it is normalised iff that was). -/
theorem sis_normalised_from_first_measurement (rs : PSet π ℝ → PSet π ℝ → ℝ → PSet π ℝ × List Int)
    (cfg : SisCfg ℝ) (lin circ : Nat) (hN : 0 < cfg.N) (hrs : ResamplerOK cfg.N lin circ rs)
    (s : SisState π ℝ) (ev : SisEvent π ℝ) (hinv : SisShapeInv cfg lin circ s) (hev : EvOK cfg.N ev) :
    SisShapeInv cfg lin circ (sisStepWith rs cfg s ev) ∧
    ((ev.freezeOk = true ∨ (sisStepWith rs cfg s ev).resampled = true) → SetOK cfg.N lin circ (sisStepWith rs cfg s ev).cor) ∧
    ((ev.freezeOk = false ∧ (sisStepWith rs cfg s ev).resampled = false) → (sisStepWith rs cfg s ev).cor = sisPredict s ev) :=
  sis_shape_stepWith rs cfg lin circ hN hrs s ev hinv hev

/-- The hypothesis "initial weights normalised" of `sis_inv_history` is necessary: one particle with
    initial log-weight `-1`, acquisition failing at step 0 — no resampling (`neff = e² ≥ 1/3`), the
    corrected weight stays `-1`, and `exp(-1) ≠ 1`. -/
theorem sis_init_normalised_necessary :
    let cfg : SisCfg ℝ := { N := 1, tiny := 1 }
    let init : PSet Unit ℝ → PSet Unit ℝ := fun p => { p with logw := [-1] }
    let ev : SisEvent Unit ℝ := { cmds := [], freezeOk := false, likValid := true, lik := [1],
                                    predict := fun prev p => { p with logw := prev.logw } }
    EvOK cfg.N ev ∧ ShapeOK 1 1 0 (init (PSet.fresh 1 1 0)) ∧
    (sisStep cfg (sisInit cfg 1 0 init []) ev).cor.logw = [-1] ∧
    (((sisStep cfg (sisInit cfg 1 0 init []) ev).cor.logw).map Real.exp).sum ≠ 1 := by
  intro cfg init ev
  have hcor : sisCorrect cfg (sisInit cfg 1 0 init []) ev = init (PSet.fresh 1 1 0) := by
    simp [sisCorrect, sisPredict, sisInit, ev]
    rfl
  have htrig : sisTrigger cfg (init (PSet.fresh 1 1 0)) = false := by
    unfold sisTrigger neffLog neff
    simp only [decide_eq_false_iff_not, not_lt, init, cfg]
    have h1 : Real.exp (-1) ≤ 1 := Real.exp_le_one_iff.2 (by norm_num)
    have h0 : 0 < Real.exp (-1) := Real.exp_pos _
    have hle : Real.exp (-1) * Real.exp (-1) ≤ 1 := by nlinarith
    have hpos : 0 < Real.exp (-1) * Real.exp (-1) := mul_pos h0 h0
    simp only [List.map_cons, List.map_nil, List.sum_cons, List.sum_nil, add_zero, transc_exp]
    rw [le_div_iff₀ hpos]
    norm_num
    linarith
  have hlogw : (sisStep cfg (sisInit cfg 1 0 init []) ev).cor.logw = [-1] := by
    rw [sisStep_cor, hcor, htrig]; rfl
  refine ⟨?_, ?_, hlogw, ?_⟩
  · exact { pred := fun _ _ _ => ⟨rfl, rfl, rfl, rfl, rfl, rfl⟩, likLen := rfl,
            likNonneg := by intro l hl; simp [ev] at hl; rw [hl]; norm_num }
  · exact { n := rfl, lin := rfl, circ := rfl, quat := rfl, parts := by simp [PSet.fresh, init], logw := by simp [init] }
  · rw [hlogw]
    simp only [List.map_cons, List.map_nil, List.sum_cons, List.sum_nil, add_zero]
    intro h
    have := Real.exp_eq_one_iff (-1) |>.1 h
    norm_num at this

/-! ### The `log()` call -/

/-- `log()` is called between the normalisation and the resampling decision: what it hands to the logger is
    the predicted set and the corrected set on which `neff` is then evaluated — well-formed and normalised
    under the invariant — and it is the final corrected set exactly when resampling does not run. -/
theorem sis_logged_is_corrected (cfg : SisCfg ℝ) (lin circ : Nat) (hN : 0 < cfg.N) (s : SisState π ℝ) (ev : SisEvent π ℝ)
    (hinv : SisInv cfg lin circ s) (hev : EvOK cfg.N ev) :
    sisLogged cfg s ev = (sisPredict s ev, sisCorrect cfg s ev) ∧
    SetOK cfg.N lin circ (sisLogged cfg s ev).2 ∧
    ((sisStep cfg s ev).resampled = (sisTrigger cfg (sisLogged cfg s ev).2)) ∧
    ((sisStep cfg s ev).resampled = false → (sisStep cfg s ev).cor = (sisLogged cfg s ev).2) := by
  refine ⟨rfl, sisCorrect_ok cfg lin circ hN s ev hinv hev, sisStep_resampled cfg s ev, ?_⟩
  intro h
  rw [sisStep_resampled] at h
  rw [sisStep_cor, h]; rfl

/-! ### The shipped likelihood model meets the hypotheses on likelihood vectors -/

/-- `GaussianLikelihood`: valid iff all four calls on the measurement model succeed; then there is one
    likelihood per innovation column and, for a non-negative scale factor and density, none is negative —
    the hypotheses `EvOK.likLen`, `EvOK.likNonneg` hold for the shipped likelihood model.  An invalid
    result carries a vector of size one (which `BootstrapCorrection` then does not touch). -/
theorem gaussian_likelihood_contract {ι : Type} (scale : ℝ) (o1 o2 o3 o4 : Bool) (dens : ι → ℝ) (innov : List ι)
    (hs : 0 ≤ scale) (hd : ∀ v, 0 ≤ dens v) :
    ((gaussianLikelihood scale o1 o2 o3 o4 dens innov).1 = true ↔ (o1 = true ∧ o2 = true ∧ o3 = true ∧ o4 = true)) ∧
    ((gaussianLikelihood scale o1 o2 o3 o4 dens innov).1 = true →
      (gaussianLikelihood scale o1 o2 o3 o4 dens innov).2.length = innov.length ∧
      ∀ l ∈ (gaussianLikelihood scale o1 o2 o3 o4 dens innov).2, 0 ≤ l) ∧
    ((gaussianLikelihood scale o1 o2 o3 o4 dens innov).1 = false →
      (gaussianLikelihood scale o1 o2 o3 o4 dens innov).2 = [0]) := by
  cases o1 <;> cases o2 <;> cases o3 <;> cases o4 <;> simp [gaussianLikelihood]
  intro v _
  exact mul_nonneg hs (hd v)

/-! ### Non-vacuity -/

/-- the contracts are satisfiable: the prediction step the correspondence run uses (`DrawParticles`
    over a deterministic state model) meets `PredOK`; a concrete event meets `EvOK` with a vanishing
    likelihood in it; the uniform initialiser meets `InitOK`. -/
example : PredOK (fun (prev pred : PSet ℝ ℝ) => { pred with parts := prev.parts.map (· + 1), logw := prev.logw }) :=
  fun _ _ h => ⟨rfl, rfl, rfl, rfl, by simpa using h, rfl⟩

example : EvOK 3 ({ cmds := [.corOn, .allOff], freezeOk := true, likValid := true, lik := [1, 0, 1/1000],
                    predict := fun prev pred => { pred with logw := prev.logw } } : SisEvent ℝ ℝ) :=
  { pred := fun _ _ _ => ⟨rfl, rfl, rfl, rfl, rfl, rfl⟩, likLen := rfl,
    likNonneg := by intro l hl; simp at hl; rcases hl with rfl | rfl | rfl <;> norm_num }

example : InitOK ({ N := 3, tiny := 1 } : SisCfg ℝ) 2 1
    (fun (s : PSet ℝ ℝ) => { s with logw := List.replicate 3 (-(Real.log ((3 : ℕ) : ℝ))) }) :=
  { n := rfl, lin := rfl, circ := rfl, quat := rfl, parts := by simp [PSet.fresh], logw := by simp,
    norm := sum_exp_uniform 3 (by norm_num) }

end BFL
