import BFL.Proofs.ExtractStats
import Mathlib.Order.WithBot
/-
Log-weights that may be `−∞` (a particle of weight exactly zero): read over `WithBot ℝ`, `⊥ = −∞`.
In the code `exp(−inf) = 0` enters the sums of `mean`, and `−inf` is below every finite log-weight in
`maxCoeff`; the executable model does the same over `Float`.
-/
namespace BFL
namespace Extract
open Complex (I)

/-- the weight of a log-weight: `e^w`, and `0` for `−∞` -/
noncomputable def expB : WithBot ℝ → ℝ
  | ⊥ => 0
  | (w : ℝ) => Real.exp w

@[simp] theorem expB_bot : expB ⊥ = 0 := rfl
@[simp] theorem expB_coe (w : ℝ) : expB (w : WithBot ℝ) = Real.exp w := rfl

theorem expB_nonneg (w : WithBot ℝ) : 0 ≤ expB w := by
  cases w with
  | bot => simp
  | coe w => simp [(Real.exp_pos w).le]

theorem expB_pos_iff (w : WithBot ℝ) : 0 < expB w ↔ w ≠ ⊥ := by
  cases w with
  | bot => simp
  | coe w => simp [Real.exp_pos w]

/-- on finite log-weights this is the ordinary reading -/
theorem map_expB_coe (ws : List ℝ) : (ws.map (fun w => ((w : ℝ) : WithBot ℝ))).map expB = ws.map Real.exp := by
  rw [List.map_map]; rfl

/-- linear rows with possibly infinite log-weights: `Σ_j x_j · expB w_j` (zero-weight particles drop out) -/
theorem meanEstE_lin_bot (lin circ : Nat) (ps : List (List ℝ)) (ws : List (WithBot ℝ)) (r : Nat) (hr : r < lin) :
    (meanEstE lin circ ps (ws.map expB))[r]?
      = some (List.zipWith (fun p w => p.getD r 0 * expB w) ps ws).sum := by
  rw [meanEstE_lin lin circ ps _ r hr]
  unfold linMean rowOf
  rw [lsum_eq_sum, List.zipWith_map]

/-- circular rows with possibly infinite log-weights: the argument of the weighted resultant, provided a
    single particle does not have weight zero (which normalisation excludes) -/
theorem meanEstE_circ_bot (lin circ : Nat) (ps : List (List ℝ)) (ws : List (WithBot ℝ)) (r : Nat) (hr : r < circ)
    (hlen : ps.length = ws.length) (h1 : ps.length = 1 → ∀ w ∈ ws, w ≠ ⊥) :
    (meanEstE lin circ ps (ws.map expB))[lin + r]?
      = some (Complex.arg (resultant (rowOf ps (lin + r)) (ws.map expB))) := by
  rw [meanEstE_circ lin circ ps _ r hr]
  by_cases hN : ps.length = 1
  · obtain ⟨p, rfl⟩ := List.length_eq_one_iff.mp hN
    obtain ⟨w, rfl⟩ := List.length_eq_one_iff.mp (hlen ▸ hN : ws.length = 1)
    have hw : 0 < expB w := (expB_pos_iff w).mpr (h1 hN w (by simp))
    simp only [rowOf, List.map_cons, List.map_nil]
    rw [dirMean_single_eq_arg _ _ hw]
  · rw [dirMean_eq_arg]
    simpa [rowOf] using hN

/-- the side condition is necessary: one particle at angle 1 with weight zero gives `arg e^{i} = 1`, whereas
    the resultant vanishes (argument 0) -/
theorem meanEstE_single_zero_weight_counterexample :
    (meanEstE 0 1 [[(1 : ℝ)]] ([⊥].map expB))[0]? = some 1 ∧
    Complex.arg (resultant (rowOf [[(1 : ℝ)]] 0) ([⊥].map expB)) = 0 := by
  constructor
  · have h := meanEstE_circ 0 1 [[(1 : ℝ)]] ([⊥].map expB) 0 (by norm_num)
    simp only [Nat.zero_add] at h
    rw [h]
    simp only [rowOf, List.map_cons, List.map_nil]
    rw [dirMean_single]
    have : (([1] : List ℝ).getD 0 0) = 1 := by simp
    rw [this, Complex.arg_exp_mul_I]
    congr 1
    rw [toIocMod_eq_self]
    constructor
    · have := Real.pi_pos; linarith
    · have := Real.two_le_pi; linarith
  · simp [resultant, rowOf]

/-- `mode` with possibly infinite log-weights: the particle at the first index of maximal log-weight, `−∞`
    being below every finite one -/
theorem modeEst_spec_bot (ps : List (List ℝ)) (ws : List (WithBot ℝ)) (hlen : ps.length = ws.length)
    (hne : ws ≠ []) :
    ∃ i, ps[i]? = some (modeEst ps ws) ∧ IsFirstMax ws i := by
  have hi := argmaxFirst_spec ws hne
  refine ⟨argmaxFirst ws, ?_, hi⟩
  have hil : argmaxFirst ws < ps.length := hlen ▸ hi.lt_length
  unfold modeEst
  rw [List.getD_eq_getElem?_getD, List.getElem?_eq_getElem hil]
  rfl

/-- a particle of weight zero is never the mode unless all weights are zero -/
theorem mode_not_bot (ws : List (WithBot ℝ)) (i : Nat) (hi : IsFirstMax ws i) (hfin : ∃ w ∈ ws, w ≠ ⊥) :
    ws[i]? ≠ some ⊥ := by
  obtain ⟨m, hm, hall, _⟩ := hi
  obtain ⟨w, hw, hwb⟩ := hfin
  obtain ⟨j, hj⟩ := List.getElem?_of_mem hw
  intro h
  rw [hm] at h
  have := hall j w hj
  rw [Option.some.inj h] at this
  exact hwb (le_bot_iff.mp this)

end Extract
end BFL
