import BFL.Model.Lifecycle
/-
C09 — helper lemmas: invariants of the lifecycle transition system, lifted to every schedule.
(Core Lean only; `grind`/`omega`/`simp` discharge the case splits.)
-/
namespace BFL.Life

/-- an invariant of single actions holds after every schedule -/
theorem inv_exec {P : St → Prop} (cfg : Cfg) (hstep : ∀ s a, P s → P (step cfg s a)) :
    ∀ (as : List Act) (s : St), P s → P (exec cfg s as) := by
  intro as
  induction as with
  | nil => intro s h; simpa [exec] using h
  | cons a as ih => intro s h; simpa [exec] using ih _ (hstep s a h)

theorem exec_append (cfg : Cfg) (s : St) (as bs : List Act) :
    exec cfg s (as ++ bs) = exec cfg (exec cfg s as) bs := by
  simp [exec, List.foldl_append]

theorem exec_cons (cfg : Cfg) (s : St) (a : Act) (as : List Act) :
    exec cfg s (a :: as) = exec cfg (step cfg s a) as := rfl

/-- Case analysis over the action, the command, the program counter and the branches taken,
with the invariant `inv` kept folded until the state after the move is explicit. -/
syntax "life_bash " ident " [" Lean.Parser.Tactic.simpLemma,* "]" : tactic
macro_rules
  | `(tactic| life_bash $inv:ident [$ls,*]) => `(tactic|
    (intro cfg s a h
     obtain ⟨pc, run, reset, td, stp, woken, mid, joined, hist⟩ := s
     simp only [$inv:ident] at h
     cases a with
     | c x =>
       cases x <;> simp only [step, ctl, St.thrHolds, St.notify] <;> (try split) <;>
         simp only [$inv:ident] <;> (try simp_all [$ls,*]) <;> (try grind)
     | fin =>
       simp only [step, fin, St.notify] <;> split <;>
         simp only [$inv:ident] <;> (try simp_all [$ls,*]) <;> (try grind)
     | spur =>
       simp only [step] <;> split <;>
         simp only [$inv:ident] <;> (try simp_all [$ls,*]) <;> (try grind)
     | t b =>
       cases pc <;> simp only [step, thr] <;> (repeat' split) <;>
         simp only [$inv:ident, Option.getD] <;> (try simp_all [$ls,*]) <;> (try grind)))

/-! ### Safety 1: no filtering step before `run` was first requested -/

def Inv1 (s : St) : Prop :=
  (s.run = true → Ev.cmdRun ∈ s.hist) ∧
  ((s.pc = .preInit ∨ s.pc = .inInit ∨ s.pc = .inA ∨ s.pc = .inB) → (Ev.cmdRun ∈ s.hist ∨ s.teardown = true)) ∧
  ((s.pc = .inC ∨ s.pc = .aboutStep ∨ s.pc = .inStep ∨ s.pc = .incr) → Ev.cmdRun ∈ s.hist) ∧
  (∀ k, Ev.stepStart k ∈ s.hist → Ev.cmdRun ∈ s.hist)

theorem inv1_boot : Inv1 St.boot := by simp [Inv1, St.boot]

theorem inv1_step : ∀ (cfg : Cfg) (s : St) (a : Act), Inv1 s → Inv1 (step cfg s a) := by
  life_bash Inv1 []

theorem inv1_all (cfg : Cfg) (as : List Act) : Inv1 (runAll cfg as) :=
  inv_exec cfg (inv1_step cfg) as _ inv1_boot

/-! ### Safety 2: epochs are `Init Step0 Step1 …` -/

/-- Acceptor of `(Init Step0 Step1 …)*` on the history projected on {Init, StepStart k}:
`idle` = no epoch yet, `next k` = inside an epoch whose next step must carry number `k`. -/
inductive Shape | bad | idle | next (k : Nat)
  deriving DecidableEq, Repr

def shapeStep (sh : Shape) (e : Ev) : Shape :=
  match sh with
  | .bad => .bad
  | .idle => match e with
    | .init => .next 0
    | .stepStart _ => .bad
    | _ => .idle
  | .next k => match e with
    | .init => .next 0
    | .stepStart j => if j = k then .next (k + 1) else .bad
    | _ => .next k

/-- state of the acceptor after the whole history (newest first, so the oldest event is consumed first) -/
def shape : List Ev → Shape
  | [] => .idle
  | e :: h => shapeStep (shape h) e

@[simp] theorem shapeStep_stepEnd (sh : Shape) (k : Nat) : shapeStep sh (.stepEnd k) = sh := by cases sh <;> rfl
@[simp] theorem shapeStep_rc (sh : Shape) (b : Bool) : shapeStep sh (.rc b) = sh := by cases sh <;> rfl
@[simp] theorem shapeStep_cmdRun (sh : Shape) : shapeStep sh .cmdRun = sh := by cases sh <;> rfl
@[simp] theorem shapeStep_cmdReset (sh : Shape) : shapeStep sh .cmdReset = sh := by cases sh <;> rfl
@[simp] theorem shapeStep_cmdReboot (sh : Shape) : shapeStep sh .cmdReboot = sh := by cases sh <;> rfl
@[simp] theorem shapeStep_cmdTeardown (sh : Shape) : shapeStep sh .cmdTeardown = sh := by cases sh <;> rfl
@[simp] theorem shapeStep_thrDone (sh : Shape) : shapeStep sh .thrDone = sh := by cases sh <;> rfl
@[simp] theorem shapeStep_joined (sh : Shape) : shapeStep sh .joined = sh := by cases sh <;> rfl
theorem shapeStep_init (sh : Shape) (h : sh ≠ .bad) : shapeStep sh .init = .next 0 := by
  cases sh <;> simp_all [shapeStep]
@[simp] theorem shapeStep_next_stepStart (k : Nat) : shapeStep (.next k) (.stepStart k) = .next (k + 1) := by
  simp [shapeStep]

def Inv2 (s : St) : Prop :=
  shape s.hist ≠ .bad ∧
  ((s.pc = .inA ∨ s.pc = .inB ∨ s.pc = .inC ∨ s.pc = .aboutStep) → shape s.hist = .next s.step) ∧
  ((s.pc = .inStep ∨ s.pc = .incr) → shape s.hist = .next (s.step + 1)) ∧
  (s.pc = .inInit → shape s.hist = .next 0 ∧ s.step = 0) ∧
  ((s.pc = .preWait ∨ s.pc = .blocking ∨ s.pc = .waiting ∨ s.pc = .preInit) → s.step = 0)

theorem inv2_boot : Inv2 St.boot := by simp [Inv2, St.boot, shape]

theorem inv2_step : ∀ (cfg : Cfg) (s : St) (a : Act), Inv2 s → Inv2 (step cfg s a) := by
  life_bash Inv2 [shape, shapeStep_init]

theorem inv2_all (cfg : Cfg) (as : List Act) : Inv2 (runAll cfg as) :=
  inv_exec cfg (inv2_step cfg) as _ inv2_boot

/-! ### the number a step carries is the counter's value while the step runs -/

/-- Init / StepStart events of a history -/
def workEvents (h : List Ev) : List Ev :=
  h.filter (fun e => match e with | .init => true | .stepStart _ => true | _ => false)

def InvS (s : St) : Prop := s.pc = .inStep → (workEvents s.hist).head? = some (Ev.stepStart s.step)

theorem invS_step : ∀ (cfg : Cfg) (s : St) (a : Act), InvS s → InvS (step cfg s a) := by
  life_bash InvS [workEvents]

theorem invS_all (cfg : Cfg) (as : List Act) : InvS (runAll cfg as) :=
  inv_exec cfg (invS_step cfg) as _ (by simp [InvS, St.boot])

end BFL.Life
