import BFL.Proofs.LifecycleLive
/- C09 — commutation of commands with the silent flag accesses of the thread. -/
namespace BFL.Life

/-! ### why hook granularity suffices: commands commute with the silent flag accesses -/

/-- the thread's move at `pc` neither reads nor writes a flag the command writes, and records no
event (`zero`, `incr`: counter only; `inB`, `outD`: read `teardown_`; `inC`, `outC`: read
`reset_`; `outB`: reads `run_`) -/
def Indep : PC → Cmd → Prop
  | .zero, _ => True
  | .incr, _ => True
  | .inB, x => x ≠ .teardown
  | .outD, x => x ≠ .teardown
  | .inC, x => x ≠ .reset ∧ x ≠ .reboot
  | .outC, x => x ≠ .reset ∧ x ≠ .reboot
  | .outB, x => x ≠ .run
  | _, _ => False

theorem cmd_commutes (cfg : Cfg) (s : St) (x : Cmd) (c : Bool) (h : Indep s.pc x) :
    step cfg (step cfg s (.c x)) (.t c) = step cfg (step cfg s (.t c)) (.c x) := by
  obtain ⟨pc, run, reset, td, stp, woken, mid, joined, hist⟩ := s
  obtain ⟨l, n⟩ := cfg
  cases pc <;> simp only [Indep] at h <;> cases x <;> (try (exfalso; simp at h; done)) <;>
    cases mid <;> cases td <;> cases run <;> cases reset <;> cases l <;> simp [step, ctl, thr, Option.getD, St.notify] <;> (try decide) <;> (try (cases n <;> cases woken <;> decide))

/-- the second store of `reboot()` (`run_ = false`) commutes with every silent access except the
read of `run_` -/
theorem fin_commutes (cfg : Cfg) (s : St) (c : Bool)
    (h : s.pc = .zero ∨ s.pc = .incr ∨ s.pc = .inB ∨ s.pc = .inC ∨ s.pc = .outC ∨ s.pc = .outD) :
    step cfg (step cfg s .fin) (.t c) = step cfg (step cfg s (.t c)) .fin := by
  obtain ⟨pc, run, reset, td, stp, woken, mid, joined, hist⟩ := s
  rcases h with h | h | h | h | h | h <;> simp only at h <;> subst h <;>
    cases mid <;> cases td <;> cases reset <;> simp [step, fin, thr, Option.getD, St.notify] <;> (try decide) <;> (try (cases woken <;> decide))

end BFL.Life
