import BFL.Model.SUKF
import BFL.Bridge.Mat
import BFL.Bridge.Det
import BFL.Bridge.Transc
import BFL.Proofs.SUKF
import BFL.Proofs.SUKFModel
import BFL.Props.C15
import BFL.Props.C03
/-
C05 — The serial UKF correction equals the standard additive UKF correction.

Theorems about the model in `BFL/Model/SUKF.lean` (`sukfComp`, `sukfLik`, `sukfCorrect` — transcribing
`SUKFCorrection.cpp` — against `ukfComp`, transcribing the additive branch of `UKFCorrection.cpp` with
the moments of `sigma_point::unscented_transform`), over ℝ, for every state dimension `n`, number of
sigma points `s`, number `nb` and size `bs` of sub-measurements, number of components, both encodings
of the noise covariance (`SNoise.full`, `SNoise.reduced`), and *any* measurement function: only the
propagated sigma points `Yp` enter.

Guards, as the property states them: the covariance weights are non-negative (`0 ≤ wc j`; the code
takes their square roots), the noise blocks are symmetric positive definite, a full noise covariance
is block diagonal.  `hX` is the contract of `sigma_point()` (C03): the input sigma points reproduce the
predicted covariance, `Σ_j wc_j (X_j − m)(X_j − m)ᵀ = P`.  `inv` is the inverse routine; `InvCorrect inv`
says it returns the inverse of every invertible matrix; that each matrix the two corrections invert
*is* invertible is part of the conclusions.
-/
namespace BFL
open Matrix

variable {n nb bs s msz k : Nat}

/-- `Σ_j Y_jᵀ R_j⁻¹ Y_j` and `Σ_j Y_jᵀ R_j⁻¹ ν_j` over the sub-measurements are `Yᵀ R⁻¹ Y` and `Yᵀ R⁻¹ ν`
    for the block-diagonal `R` of the blocks `getNoiseCovarianceMatrix(j)` — for both encodings. -/
theorem sukf_block_sum (inv : InvFn ℝ) (R : SNoise ℝ (nb * bs) bs) (Y : Mat ℝ (nb * bs) s) (ν : Vec ℝ (nb * bs))
    (hR : ∀ j, InvOK inv (R.blockAt j)) :
    toM (sukfCinv inv R Y) = 1 + (toM Y)ᵀ * R.Rf⁻¹ * toM Y ∧
    toV (sukfD inv R Y ν) = ((toM Y)ᵀ * R.Rf⁻¹) *ᵥ toV ν ∧
    IsUnit R.Rf :=
  ⟨toM_sukfCinv R Y hR, toV_sukfD R Y ν hR, (Rf_inv R hR).2⟩

/-- The encoding stands for the full covariance the standard correction is given: the block-diagonal
    matrix of the blocks (for a full matrix: provided it *is* block diagonal). -/
theorem sukf_noise_full (R : SNoise ℝ (nb * bs) bs) (h : R.BlockDiag) : toM R.toFull = R.Rf :=
  R.toM_toFull h

/-- Corrected covariance: `X C Xᵀ` of the serial correction is `P − K S Kᵀ` of the standard one. -/
theorem sukf_cov_eq_ukf (inv : InvFn ℝ) (hinv : InvCorrect inv) (nc : Nat) (R : SNoise ℝ (nb * bs) bs)
    (m : Vec ℝ n) (P : Mat ℝ n n) (X : Mat ℝ n s) (Yp : Mat ℝ (nb * bs) s) (wm wc : Vec ℝ s) (y : Vec ℝ (nb * bs))
    (hw : ∀ j, 0 ≤ wc j) (hBD : R.BlockDiag) (hRpd : ∀ j, (toM (R.blockAt j)).PosDef)
    (hX : toM (wOuter (offX nc m X) wc (offX nc m X)) = toM P) :
    toM (sukfComp inv nc R m X Yp wm wc y).cov = toM (ukfComp inv nc R.toFull m P X Yp wm wc y).cov ∧
    IsUnit (toM (sukfCinv inv R (sukfComp inv nc R m X Yp wm wc y).Y)) ∧
    IsUnit (toM (ukfComp inv nc R.toFull m P X Yp wm wc y).Pyy) := by
  obtain ⟨h1, _, h3, h4⟩ := sukfComp_eq_ukfComp inv nc R R.toFull m P X Yp wm wc y hinv hw hRpd (R.toM_toFull hBD) hX
  exact ⟨h1, h3, h4.isUnit⟩

/-- Corrected mean: `m + X C d` of the serial correction is `m + K ν` of the standard one. -/
theorem sukf_mean_eq_ukf (inv : InvFn ℝ) (hinv : InvCorrect inv) (nc : Nat) (R : SNoise ℝ (nb * bs) bs)
    (m : Vec ℝ n) (P : Mat ℝ n n) (X : Mat ℝ n s) (Yp : Mat ℝ (nb * bs) s) (wm wc : Vec ℝ s) (y : Vec ℝ (nb * bs))
    (hw : ∀ j, 0 ≤ wc j) (hBD : R.BlockDiag) (hRpd : ∀ j, (toM (R.blockAt j)).PosDef)
    (hX : toM (wOuter (offX nc m X) wc (offX nc m X)) = toM P) :
    toV (sukfComp inv nc R m X Yp wm wc y).mean = toV (ukfComp inv nc R.toFull m P X Yp wm wc y).mean :=
  (sukfComp_eq_ukfComp inv nc R R.toFull m P X Yp wm wc y hinv hw hRpd (R.toM_toFull hBD) hX).2.1

/-- the blocks of the `bs × (nb·bs)` row `getLikelihood` assembles are the noise blocks -/
theorem snoise_row_block (R : SNoise ℝ (nb * bs) bs) (i : Fin nb) :
    (RNoise.perBlock R.row : RNoise ℝ nb bs).block i = R.blockAt i := by
  ext a c
  simp [RNoise.block, SNoise.row, Mat.blkCols, bdiv_eq, bmod_eq, bidx_divNat, bidx_modNat]

/-- Likelihood: the factorised density with `U = Y`, `V = Yᵀ` of the serial correction is the direct
    density `N(ν; 0, S)` of the standard one (`S = Yo W Yoᵀ + R` positive definite: defined). -/
theorem sukf_likelihood_eq_ukf (inv : InvFn ℝ) (hinv : InvCorrect inv) (nc : Nat) (R : SNoise ℝ (nb * bs) bs)
    (m : Vec ℝ n) (P : Mat ℝ n n) (X : Mat ℝ n s) (Yp : Mat ℝ (nb * bs) s) (wm wc : Vec ℝ s) (y : Vec ℝ (nb * bs))
    (hw : ∀ j, 0 ≤ wc j) (hBD : R.BlockDiag) (hRpd : ∀ j, (toM (R.blockAt j)).PosDef) :
    sukfLik inv R (sukfComp inv nc R m X Yp wm wc y).Y (sukfComp inv nc R m X Yp wm wc y).innov
      = (ukfComp inv nc R.toFull m P X Yp wm wc y).lik ∧
    (toM (ukfComp inv nc R.toFull m P X Yp wm wc y).Pyy).PosDef := by
  have hSpd := ukf_Pyy_posDef inv nc R R.toFull m P X Yp wm wc y hw hRpd (R.toM_toFull hBD)
  refine ⟨?_, hSpd⟩
  set c := sukfComp inv nc R m X Yp wm wc y with hc
  set u := ukfComp inv nc R.toFull m P X Yp wm wc y with hu
  -- the assembled covariance of the factorised form is the innovation covariance of the standard correction
  have hA : toM (assembleS c.Y c.Y.transpose (RNoise.perBlock R.row : RNoise ℝ nb bs)) = toM u.Pyy := by
    rw [toM_assembleS, toM_transpose, hu, ukf_Pyy_eq, R.toM_toFull hBD,
      ← (sukf_moments inv nc R m X Yp wm wc y hw).1]
    simp only [snoise_row_block]
    rfl
  have hApd : (toM (assembleS c.Y c.Y.transpose (RNoise.perBlock R.row : RNoise ℝ nb bs))).PosDef := hA ▸ hSpd
  have hblk : ∀ i, IsUnit (toM ((RNoise.perBlock R.row : RNoise ℝ nb bs).block i)) := by
    intro i; rw [snoise_row_block]; exact (hRpd i).isUnit
  have h1 := (uvr_eq_direct_of_posDef inv hinv (Mat.of (fun i (_ : Fin 1) => c.innov i)) Vec.zero c.Y c.Y.transpose
    (RNoise.perBlock R.row) hblk hApd 0).2.1
  have h2 := (density_congr inv (Mat.of (fun i (_ : Fin 1) => c.innov i)) Vec.zero _ u.Pyy hA
    (hinv _ _ hApd.isUnit) (hinv _ _ hSpd.isUnit) 0).2
  have hlik : u.lik = density inv (Mat.of (fun i (_ : Fin 1) => c.innov i)) Vec.zero u.Pyy 0 := by
    simp only [hu, hc, ukfComp, sukfComp]
  rw [hlik, ← h2, ← h1]
  rfl

/-! ### Euler-circular state rows

The last `nc` rows of the state may be Euler angles: the code then forms the offsets of the input
sigma points with `directional_sub` (`offX`), in the serial and in the standard correction alike, so
every theorem above holds verbatim (its hypothesis `hX` speaks about these offsets). -/

/-- The circular offsets always lie in `(−π, π]`; they are the plain differences `X − m` whenever the
    sigma points stay within half a turn of the mean — then `hX` is the plain covariance condition —
    and for a state without circular rows. -/
theorem sukf_circular_offsets (nc : Nat) (m : Vec ℝ n) (X : Mat ℝ n s) :
    (∀ (i : Fin n) (j : Fin s), n ≤ i.val + nc → offX nc m X i j ∈ Set.Ioc (-Real.pi) Real.pi) ∧
    ((∀ (i : Fin n) (j : Fin s), n ≤ i.val + nc → X i j - m i ∈ Set.Ioc (-Real.pi) Real.pi) →
        offX nc m X = subCols X m) ∧
    offX 0 m X = subCols X m := by
  refine ⟨fun i j h => ?_, offX_eq_subCols nc m X, offX_zero m X⟩
  simp only [offX, Mat.of_apply, if_neg (Nat.not_lt.2 h)]
  exact sukfDirSub_mem _ _

/-! ### The whole step -/

/-- A measurement whose size is not a multiple of the block size leaves the belief unchanged
    (`corr_state = pred_state`), whatever the measurement model answers. -/
theorem sukf_size_mismatch_identity (inv : InvFn ℝ) (bs : Nat) (R : SNoise ℝ msz bs) (inp : SukfIn ℝ n msz s k)
    (b out : GM ℝ n k) (h : msz % bs ≠ 0) : sukfCorrect inv bs R inp b out = b := by
  simp [sukfCorrect, h]

/-- So does every other early return: no valid measurement, failed prediction, failed innovation. -/
theorem sukf_invalid_identity (inv : InvFn ℝ) (bs : Nat) (R : SNoise ℝ msz bs) (inp : SukfIn ℝ n msz s k)
    (b out : GM ℝ n k) (h : inp.validMeas = false ∨ inp.validPred = false ∨ inp.validInnov = false) :
    sukfCorrect inv bs R inp b out = b := by
  unfold sukfCorrect
  rcases h with h | h | h
  · simp [h]
  · split <;> simp [h]
  · split
    · split
      · rfl
      · simp [h]
    · rfl

/-- A successful step writes, per component, the serial correction of that component (the weights
    of the output mixture are not written). -/
theorem sukf_step_components (inv : InvFn ℝ) (bs : Nat) (R : SNoise ℝ msz bs) (inp : SukfIn ℝ n msz s k)
    (b out : GM ℝ n k) (hdiv : msz % bs = 0)
    (hv : inp.validMeas = true ∧ inp.validPred = true ∧ inp.validInnov = true) (i : Fin k) :
    (sukfCorrect inv bs R inp b out).mean i = (sukfComps inv bs hdiv R inp b i).mean ∧
    (sukfCorrect inv bs R inp b out).cov i = (sukfComps inv bs hdiv R inp b i).cov ∧
    (sukfCorrect inv bs R inp b out).weight = out.weight := by
  simp [sukfCorrect, hv.1, hv.2.1, hv.2.2, hdiv]

/-- The step, for every measurement function, component count and both noise encodings: mean,
    covariance and likelihood of every component equal those of the standard additive unscented
    correction applied to the same component, sigma points and propagated points, with the full
    noise covariance the encoding stands for.  (The measurement of size `msz` is viewed as
    `msz / bs` sub-vectors of size `bs`: `castRows`, `castVec`, `SNoise.cast` only re-type.) -/
theorem sukf_correct_eq_ukf (inv : InvFn ℝ) (hinv : InvCorrect inv) (bs : Nat) (R : SNoise ℝ msz bs)
    (inp : SukfIn ℝ n msz s k) (b out : GM ℝ n k) (hdiv : msz % bs = 0)
    (hv : inp.validMeas = true ∧ inp.validPred = true ∧ inp.validInnov = true)
    (hw : ∀ j, 0 ≤ inp.wc j)
    (hBD : (R.cast (Nat.div_mul_cancel (Nat.dvd_of_mod_eq_zero hdiv))).BlockDiag)
    (hRpd : ∀ j, (toM ((R.cast (Nat.div_mul_cancel (Nat.dvd_of_mod_eq_zero hdiv))).blockAt j)).PosDef)
    (hX : ∀ i, toM (wOuter (offX inp.nc (b.mean i) (inp.X i)) inp.wc (offX inp.nc (b.mean i) (inp.X i))) = toM (b.cov i))
    (i : Fin k) :
    let h := Nat.div_mul_cancel (Nat.dvd_of_mod_eq_zero hdiv)
    let u := ukfComp inv inp.nc (R.cast h).toFull (b.mean i) (b.cov i) (inp.X i) (castRows h (inp.Yp i)) inp.wm inp.wc (castVec h inp.y)
    toV ((sukfCorrect inv bs R inp b out).mean i) = toV u.mean ∧
    toM ((sukfCorrect inv bs R inp b out).cov i) = toM u.cov ∧
    sukfLikelihoods inv bs hdiv R inp b i = u.lik := by
  intro h u
  obtain ⟨e1, e2, _⟩ := sukf_step_components inv bs R inp b out hdiv hv i
  rw [e1, e2]
  refine ⟨?_, ?_, ?_⟩
  · exact sukf_mean_eq_ukf inv hinv inp.nc (R.cast h) (b.mean i) (b.cov i) (inp.X i) _ inp.wm inp.wc _ hw hBD hRpd (hX i)
  · exact (sukf_cov_eq_ukf inv hinv inp.nc (R.cast h) (b.mean i) (b.cov i) (inp.X i) _ inp.wm inp.wc _ hw hBD hRpd (hX i)).1
  · exact (sukf_likelihood_eq_ukf inv hinv inp.nc (R.cast h) (b.mean i) (b.cov i) (inp.X i) _ inp.wm inp.wc _ hw hBD hRpd).1

/-- Re-typing the measurement (`msz' = msz`) does not change what the standard correction computes. -/
theorem ukfComp_cast (inv : InvFn ℝ) (nc : Nat) {msz' : Nat} (h : msz' = msz) (Rfull : Mat ℝ msz msz)
    (m : Vec ℝ n) (P : Mat ℝ n n) (X : Mat ℝ n s) (Yp : Mat ℝ msz s) (wm wc : Vec ℝ s) (y : Vec ℝ msz) :
    let u' := ukfComp inv nc (Mat.of (fun p q => Rfull (Fin.cast h p) (Fin.cast h q))) m P X (castRows h Yp) wm wc (castVec h y)
    let u := ukfComp inv nc Rfull m P X Yp wm wc y
    u'.mean = u.mean ∧ u'.cov = u.cov ∧ u'.lik = u.lik := by
  subst h
  have e1 : (Mat.of (fun p q => Rfull (Fin.cast rfl p) (Fin.cast rfl q)) : Mat ℝ msz' msz') = Rfull := by ext p q; simp
  have e2 : castRows rfl Yp = Yp := by ext p q; simp [castRows]
  have e3 : castVec rfl y = y := by ext p; simp [castVec]
  have e1' : (Mat.of (fun p q => Rfull p q) : Mat ℝ msz' msz') = Rfull := by ext p q; simp
  simp [e1', e2, e3]

/-- The noise covariance supplied in full: the serial step equals the standard correction given the
    very same matrix `R0` (required to be block diagonal with positive-definite blocks). -/
theorem sukf_correct_eq_ukf_full (inv : InvFn ℝ) (hinv : InvCorrect inv) (bs : Nat) (R0 : Mat ℝ msz msz)
    (inp : SukfIn ℝ n msz s k) (b out : GM ℝ n k) (hdiv : msz % bs = 0)
    (hv : inp.validMeas = true ∧ inp.validPred = true ∧ inp.validInnov = true)
    (hw : ∀ j, 0 ≤ inp.wc j)
    (hBD : ((SNoise.full R0 : SNoise ℝ msz bs).cast (Nat.div_mul_cancel (Nat.dvd_of_mod_eq_zero hdiv))).BlockDiag)
    (hRpd : ∀ j, (toM (((SNoise.full R0 : SNoise ℝ msz bs).cast (Nat.div_mul_cancel (Nat.dvd_of_mod_eq_zero hdiv))).blockAt j)).PosDef)
    (hX : ∀ i, toM (wOuter (offX inp.nc (b.mean i) (inp.X i)) inp.wc (offX inp.nc (b.mean i) (inp.X i))) = toM (b.cov i))
    (i : Fin k) :
    let u := ukfComp inv inp.nc R0 (b.mean i) (b.cov i) (inp.X i) (inp.Yp i) inp.wm inp.wc inp.y
    toV ((sukfCorrect inv bs (SNoise.full R0) inp b out).mean i) = toV u.mean ∧
    toM ((sukfCorrect inv bs (SNoise.full R0) inp b out).cov i) = toM u.cov ∧
    sukfLikelihoods inv bs hdiv (SNoise.full R0) inp b i = u.lik := by
  intro u
  have h := Nat.div_mul_cancel (Nat.dvd_of_mod_eq_zero hdiv)
  obtain ⟨a1, a2, a3⟩ := sukf_correct_eq_ukf inv hinv bs (SNoise.full R0) inp b out hdiv hv hw hBD hRpd hX i
  obtain ⟨c1, c2, c3⟩ := ukfComp_cast inv inp.nc h R0 (b.mean i) (b.cov i) (inp.X i) (inp.Yp i) inp.wm inp.wc inp.y
  simp only [SNoise.cast, SNoise.toFull] at a1 a2 a3
  exact ⟨by rw [a1, c1], by rw [a2, c2], by rw [a3, c3]⟩

/-! ### The guard `0 ≤ wc_j` is needed (documentation; outside the property's quantifier)

With a negative covariance weight the square-root scaling no longer reproduces the weighted moments
the standard correction uses: over ℝ, `√wc · √wc = max wc 0` (in floating point the square root is
`nan`).  Concrete witness: one measurement, three sigma points, `wc = (−1, 1, 1)`, propagated points
`(1, 0, 0)`, `wm = 0`: the serial correction forms `Y Yᵀ = 0` where the standard one has
`Yo W Yoᵀ = −1`, so the innovation covariances `S` — hence gains, covariances and likelihoods — differ. -/
theorem sukf_negative_weight_counterexample :
    ∃ (wc wm : Vec ℝ 3) (Yp : Mat ℝ (1 * 1) 3), wc 0 < 0 ∧ (∀ j, j ≠ 0 → 0 ≤ wc j) ∧
      ∀ (inv : InvFn ℝ) (nc : Nat) (R : SNoise ℝ (1 * 1) 1) (m : Vec ℝ 1) (X : Mat ℝ 1 3) (y : Vec ℝ (1 * 1)),
        toM (sukfComp inv nc R m X Yp wm wc y).Y * (toM (sukfComp inv nc R m X Yp wm wc y).Y)ᵀ
          ≠ toM (wOuter (offY Yp wm) wc (offY Yp wm)) := by
  refine ⟨Vec.of (fun j => if j = 0 then -1 else 1), Vec.of (fun _ => 0),
    Mat.of (fun _ j => if j = 0 then 1 else 0), by simp, ?_, ?_⟩
  · intro j hj; simp [hj]
  · intro inv nc R m X y hEq
    have h00 := congrFun (congrFun hEq 0) 0
    rw [sukf_Y_eq, toM_wOuter] at h00
    simp only [Matrix.mul_apply, Matrix.of_apply, Matrix.transpose_apply, toM_apply, offY, subCols, Mat.of_apply,
      Mat.mulVec_apply, fsum_eq_sum, Vec.of_apply, mul_zero, Finset.sum_const_zero, sub_zero] at h00
    rw [Fin.sum_univ_three, Fin.sum_univ_three] at h00
    have hs : Real.sqrt (-1) = 0 := Real.sqrt_eq_zero_of_nonpos (by norm_num)
    have h2 : (2 : Fin 3) ≠ 0 := by decide
    norm_num [hs, h2] at h00

/-! ### Non-vacuity -/

/-- The hypotheses of `sukf_cov_eq_ukf` are jointly satisfiable on a non-trivial instance: two
    sub-measurements of size one, the shared identity block, weights `(0, 1/2, 1/2)`, sigma points
    `(0, 1, −1)` reproducing `P = 1`, Mathlib's inverse as the routine, any propagated points. -/
example : ∃ (inv : InvFn ℝ) (R : SNoise ℝ (2 * 1) 1) (m : Vec ℝ 1) (P : Mat ℝ 1 1) (X : Mat ℝ 1 3) (wc : Vec ℝ 3),
    InvCorrect inv ∧ (∀ j, 0 ≤ wc j) ∧ R.BlockDiag ∧ (∀ j, (toM (R.blockAt j)).PosDef) ∧
    toM (wOuter (offX 0 m X) wc (offX 0 m X)) = toM P := by
  refine ⟨mathlibInv, SNoise.reduced Mat.one, Vec.of (fun _ => 0), Mat.one,
    Mat.of (fun _ j => if j = 0 then 0 else if j = 1 then 1 else -1),
    Vec.of (fun j => if j = 0 then 0 else 1 / 2), fun n A h => mathlibInv_ok A h, ?_, trivial, ?_, ?_⟩
  · intro j; simp only [Vec.of_apply]; split <;> norm_num
  · intro j
    simp only [SNoise.blockAt, toM_one]
    exact Matrix.PosDef.one
  · ext a c
    rw [toM_wOuter]
    simp only [Matrix.mul_apply, Matrix.of_apply, Matrix.transpose_apply, toM_apply, offX, Mat.of_apply,
      Vec.of_apply, sub_zero]
    rw [Fin.sum_univ_three]
    have ha : a = 0 := Subsingleton.elim _ _
    have hc : c = 0 := Subsingleton.elim _ _
    subst ha; subst hc
    have h2 : (2 : Fin 3) ≠ 0 := by decide
    have h21 : (2 : Fin 3) ≠ 1 := by decide
    norm_num [h2, h21]

/-! ### Deepening round -/

/-- Without the contract `hX` of `sigma_point()` the two covariances differ exactly by the defect of the
    sigma points: `X C Xᵀ = (P − K S Kᵀ) + (Σ_j wc_j Xo_j Xo_jᵀ − P)`.  (This is the form the correspondence
    check evaluates on the implementation's sigma points, which reproduce `P` only up to rounding.) -/
theorem sukf_cov_eq_ukf_general (inv : InvFn ℝ) (hinv : InvCorrect inv) (nc : Nat) (R : SNoise ℝ (nb * bs) bs)
    (m : Vec ℝ n) (P : Mat ℝ n n) (X : Mat ℝ n s) (Yp : Mat ℝ (nb * bs) s) (wm wc : Vec ℝ s) (y : Vec ℝ (nb * bs))
    (hw : ∀ j, 0 ≤ wc j) (hBD : R.BlockDiag) (hRpd : ∀ j, (toM (R.blockAt j)).PosDef) :
    toM (sukfComp inv nc R m X Yp wm wc y).cov
      = toM (ukfComp inv nc R.toFull m P X Yp wm wc y).cov
        + (toM (wOuter (offX nc m X) wc (offX nc m X)) - toM P) := by
  have h := (sukf_cov_eq_ukf inv hinv nc R m (wOuter (offX nc m X) wc (offX nc m X)) X Yp wm wc y hw hBD hRpd rfl).1
  rw [h]
  simp only [ukfComp, toM_sub, Mat.eval_eq]
  abel

/-- The block-diagonality of a full noise covariance is needed: the serial correction reads only the
    diagonal blocks.  Witness: `R = [[1, 1/2], [1/2, 1]]` with block size 1 — positive definite blocks `1`, `1`,
    but `R` is not the block-diagonal matrix of its blocks (so the standard correction, which is given `R`,
    uses a different innovation covariance). -/
theorem sukf_blockdiag_needed :
    ∃ R0 : Mat ℝ (2 * 1) (2 * 1), (∀ j, (toM ((SNoise.full R0 : SNoise ℝ (2 * 1) 1).blockAt j)).PosDef) ∧
      toM (SNoise.full R0 : SNoise ℝ (2 * 1) 1).toFull ≠ (SNoise.full R0 : SNoise ℝ (2 * 1) 1).Rf := by
  refine ⟨Mat.of (fun p q => if p = q then 1 else 1 / 2), fun j => ?_, fun h => ?_⟩
  · have : toM ((SNoise.full (Mat.of (fun p q => if p = q then (1:ℝ) else 1 / 2)) : SNoise ℝ (2 * 1) 1).blockAt j) = 1 := by
      ext a c
      have ha : a = 0 := Subsingleton.elim _ _
      have hc : c = 0 := Subsingleton.elim _ _
      subst ha; subst hc
      simp [SNoise.blockAt, Mat.blkDiag]
    rw [this]; exact Matrix.PosDef.one
  · have h01 := congrFun (congrFun h (0 : Fin (2 * 1))) (1 : Fin (2 * 1))
    simp [SNoise.toFull, SNoise.Rf, bdiag, Fin.divNat] at h01

/-- The likelihood query after a step: none after every early return (no valid measurement, size not a
    multiple of the block size, failed prediction, failed innovation) — as the standard correction — and the
    likelihoods of this very step after a successful one (which `sukf_correct_eq_ukf` equates with the
    standard ones). -/
theorem sukf_likelihood_after_step (inv : InvFn ℝ) (bs : Nat) (R : SNoise ℝ msz bs) (inp : SukfIn ℝ n msz s k)
    (b : GM ℝ n k) :
    ((inp.validMeas = false ∨ msz % bs ≠ 0 ∨ inp.validPred = false ∨ inp.validInnov = false) →
        sukfStepLikelihood inv bs R inp b = none) ∧
    (∀ (hdiv : msz % bs = 0), inp.validMeas = true → inp.validPred = true → inp.validInnov = true →
        sukfStepLikelihood inv bs R inp b = some (sukfLikelihoods inv bs hdiv R inp b)) := by
  constructor
  · intro h
    unfold sukfStepLikelihood
    rcases h with h | h | h | h
    · simp [h]
    · simp [h]
    · split <;> simp [h]
    · split
      · split
        · rfl
        · simp [h]
      · rfl
  · intro hdiv h1 h2 h3
    simp [sukfStepLikelihood, h1, h2, h3, hdiv]


/-! ### The contract `hX` as a theorem about `sigma_point()` (C03's model) -/

/-- For the sigma points C03's model of `sigma_point()` draws (linear state, any factor routine `fac` with
    `fac c P · (fac c P)ᵀ = c P` — the LDLT-based square root), under the unscented weights: the hypothesis `hX` of the
    theorems above holds.  So for a linear state `hX` reduces to the factorisation contract of C03. -/
theorem sukf_hX_of_sigma_points (fac : ℝ → Mat ℝ n n → Mat ℝ n n) (alpha beta kappa : ℝ)
    (hc : (n : ℝ) + utLambda n alpha kappa ≠ 0) (b : GM ℝ n k) (i : Fin k)
    (hfac : FacOn fac (utWeights n alpha beta kappa).c (b.cov i)) :
    toM (wOuter (offX 0 (b.mean i) (sigmaPoints fac (utWeights n alpha beta kappa).c b i)) (utWeights n alpha beta kappa).cov
        (offX 0 (b.mean i) (sigmaPoints fac (utWeights n alpha beta kappa).c b i))) = toM (b.cov i) := by
  have h := congrArg toM (ut_reproduces_cov fac alpha beta kappa hc b i hfac)
  rw [toM_utCov] at h
  rw [offX_zero, toM_wOuter, ← h]
  congr 1
  ext a j
  simp [utOffsets, subCols, Matrix.mul_diagonal]

/-! ### Round 4: the correction objects over call histories

`SukfSys` / `sukfSysRun` (and `UkfSys` / `ukfSysRun`) run one correction object through an arbitrary list of
`correct()`, `skip()`, move-construction, `getLikelihood()` and noise-change operations.  The statements below are
proved by induction over that list. -/

section history
variable {bs : Nat}

/-- a step leaves nothing in the members exactly on its four early returns -/
theorem sukf_step_stored_none_iff (c : SukfCall ℝ) :
    sukfStepStored bs c = none ↔
      (c.inp.validMeas = false ∨ c.msz % bs ≠ 0 ∨ c.inp.validPred = false ∨ c.inp.validInnov = false) := by
  unfold sukfStepStored
  by_cases h1 : c.inp.validMeas = true ∧ c.msz % bs = 0
  · rw [dif_pos h1]
    cases hp : c.inp.validPred
    · simp
    · cases hi : c.inp.validInnov
      · simp
      · simp only [Bool.not_true, Bool.false_eq_true, if_false, reduceCtorEq, false_iff, not_or, Bool.not_eq_false,
          ne_eq, not_not]
        exact ⟨h1.1, h1.2, not_false, not_false⟩
  · rw [dif_neg h1]
    simp only [true_iff]
    by_cases hm : c.inp.validMeas = true
    · right; left; exact fun h => h1 ⟨hm, h⟩
    · left; simpa using hm

/-- `getLikelihood()` right after a (non-skipped) step, the noise covariance unchanged: the likelihoods of that step —
    `sukfStepLikelihood`, which `sukf_correct_eq_ukf` equates with the standard ones — or none after an early return -/
theorem sukf_query_after_step (inv : InvFn ℝ) (Rfn : NoiseFn ℝ bs) (sk : Bool) (c : SukfCall ℝ) :
    sukfObjLik inv Rfn { skip := sk, stored := sukfStepStored bs c }
      = (sukfStepLikelihood inv bs (Rfn c.msz) c.inp c.b).map (fun l => ⟨c.k, l⟩) := by
  unfold sukfObjLik sukfStepStored sukfStepLikelihood
  by_cases h1 : c.inp.validMeas = true ∧ c.msz % bs = 0
  · simp only [dif_pos h1]
    cases hp : c.inp.validPred <;> cases hi : c.inp.validInnov <;> simp
    exact ⟨rfl, HEq.rfl⟩
  · simp only [dif_neg h1, Option.map_none]

/-- `getLikelihood()` does not change the object: asked again (any number of times) it answers the same -/
theorem sukf_query_repeatable (inv : InvFn ℝ) (σ : SukfSys ℝ bs) :
    (sukfSysStep inv σ .query).1 = σ ∧
    (sukfSysStep inv (sukfSysStep inv σ .query).1 .query).2 = (sukfSysStep inv σ .query).2 := ⟨rfl, rfl⟩

/-- a freshly constructed and a move-constructed object report no likelihood, whatever the source object held -/
theorem sukf_fresh_or_moved_no_likelihood (inv : InvFn ℝ) (Rfn : NoiseFn ℝ bs) (o : SukfObj ℝ bs) :
    sukfObjLik inv Rfn (sukfNew : SukfObj ℝ bs) = none ∧ sukfObjLik inv Rfn (sukfMoved o) = none ∧
    (sukfMoved o).skip = o.skip := ⟨rfl, rfl, rfl⟩

theorem sukfSysRun_append (inv : InvFn ℝ) (σ : SukfSys ℝ bs) (ops₁ ops₂ : List (SukfOp ℝ bs)) :
    sukfSysRun inv σ (ops₁ ++ ops₂)
      = ((sukfSysRun inv (sukfSysRun inv σ ops₁).1 ops₂).1,
         (sukfSysRun inv σ ops₁).2 ++ (sukfSysRun inv (sukfSysRun inv σ ops₁).1 ops₂).2) := by
  induction ops₁ generalizing σ with
  | nil => simp [sukfSysRun]
  | cons op ops ih => simp [sukfSysRun, ih, List.append_assoc]

/-- the skip flag after any history is the status of the last `skip()` call (the initial flag if there was none):
    corrections, queries and moves do not touch it -/
theorem sukf_history_skip (inv : InvFn ℝ) (σ : SukfSys ℝ bs) (ops : List (SukfOp ℝ bs)) :
    (sukfSysRun inv σ ops).1.obj.skip = sukfHistorySkip σ.obj.skip ops := by
  induction ops generalizing σ with
  | nil => rfl
  | cons op ops ih =>
    simp only [sukfSysRun, sukfHistorySkip]
    rw [ih]
    congr 1
    cases op with
    | correct c => simp only [sukfSysStep]; split <;> rfl
    | skip st => rfl
    | move => rfl
    | query => rfl
    | setNoise f => rfl

/-- **The members after any history.**  What `getLikelihood()` reads after an arbitrary sequence of operations is what
    the last operation that touched the members left there: nothing if that was a move, the result of `correctStep` if
    it was a `correct()` executed while the object was not skipped; skipped corrections, queries, `skip()` calls and
    noise changes leave the members as they were. -/
theorem sukf_history_stored (inv : InvFn ℝ) (σ : SukfSys ℝ bs) (ops : List (SukfOp ℝ bs)) :
    (sukfSysRun inv σ ops).1.obj.stored =
      match sukfLastTouch σ.obj.skip ops with
      | none => σ.obj.stored
      | some (.correct c) => sukfStepStored bs c
      | some _ => none := by
  induction ops generalizing σ with
  | nil => rfl
  | cons op ops ih =>
    simp only [sukfSysRun, sukfLastTouch]
    rw [ih]
    cases op with
    | correct c =>
      by_cases hs : σ.obj.skip = true
      · simp only [sukfSysStep, hs, if_true]
        rcases sukfLastTouch true ops with _ | t
        · rfl
        · cases t <;> rfl
      · have hs' : σ.obj.skip = false := by simpa using hs
        simp only [sukfSysStep, hs', Bool.false_eq_true, if_false]
        rcases sukfLastTouch false ops with _ | t
        · rfl
        · cases t <;> rfl
    | skip st =>
      simp only [sukfSysStep]
      rcases sukfLastTouch st ops with _ | t
      · rfl
      · cases t <;> rfl
    | move =>
      simp only [sukfSysStep, sukfMoved]
      rcases sukfLastTouch σ.obj.skip ops with _ | t
      · rfl
      · cases t <;> rfl
    | query =>
      simp only [sukfSysStep]
      rcases sukfLastTouch σ.obj.skip ops with _ | t
      · rfl
      · cases t <;> rfl
    | setNoise f =>
      simp only [sukfSysStep]
      rcases sukfLastTouch σ.obj.skip ops with _ | t
      · rfl
      · cases t <;> rfl

/-- **When the likelihood is unavailable.**  On an object driven from its construction through any history, the
    likelihood is reported exactly when the last operation that touched the members is a `correct()` that was not
    skipped, had a valid measurement of a size that is a multiple of the block size, and whose `predictedMeasure()`
    and `innovation()` succeeded; it is then the likelihood of that correction (`sukf_query_after_step`) under the noise
    covariance in force at query time. -/
theorem sukf_history_likelihood_available_iff (inv : InvFn ℝ) (Rfn : NoiseFn ℝ bs) (ops : List (SukfOp ℝ bs)) :
    let σ' := (sukfSysRun inv ⟨sukfNew, Rfn⟩ ops).1
    (sukfObjLik inv σ'.Rfn σ'.obj).isSome = true ↔
      ∃ c, sukfLastTouch false ops = some (.correct c) ∧ c.inp.validMeas = true ∧ c.msz % bs = 0 ∧
        c.inp.validPred = true ∧ c.inp.validInnov = true := by
  intro σ'
  have hst : σ'.obj.stored = _ := sukf_history_stored inv ⟨sukfNew, Rfn⟩ ops
  have hiff : (sukfObjLik inv σ'.Rfn σ'.obj).isSome = true ↔ σ'.obj.stored ≠ none := by
    unfold sukfObjLik
    cases σ'.obj.stored <;> simp
  rw [hiff, hst]
  simp only [sukfNew]
  cases hlt : sukfLastTouch false ops with
  | none => simp
  | some t =>
    cases t with
    | correct c =>
      simp only [ne_eq, sukf_step_stored_none_iff, not_or, Bool.not_eq_false, not_not]
      constructor
      · intro h; exact ⟨c, rfl, h.1, h.2.1, h.2.2.1, h.2.2.2⟩
      · rintro ⟨c', hc', h⟩
        have : c' = c := by injection (Option.some.inj hc').symm
        subst this; exact ⟨h.1, h.2.1, h.2.2.1, h.2.2.2⟩
    | skip st => simp
    | move => simp
    | query => simp
    | setNoise f => simp

/-- After any history: a `correct()` on a non-skipped object with a measurement whose size is not a multiple of the
    block size returns the predicted belief, and the likelihood query that follows reports none. -/
theorem sukf_history_nondividing (inv : InvFn ℝ) (σ : SukfSys ℝ bs) (ops : List (SukfOp ℝ bs)) (c : SukfCall ℝ)
    (hsk : sukfHistorySkip σ.obj.skip ops = false) (hnd : c.msz % bs ≠ 0) :
    (sukfSysRun inv σ (ops ++ [.correct c, .query])).2
      = (sukfSysRun inv σ ops).2 ++ [.belief c.n c.k c.b, .lik none] := by
  rw [sukfSysRun_append]
  have hs := sukf_history_skip inv σ ops
  rw [hsk] at hs
  simp only [sukfSysRun, sukfSysStep, hs, Bool.false_eq_true, if_false, Option.toList, List.append_nil,
    sukf_size_mismatch_identity inv bs _ c.inp c.b c.out hnd]
  have : sukfStepStored bs c = none := (sukf_step_stored_none_iff c).2 (Or.inr (Or.inl hnd))
  simp [sukfObjLik, this]

/-! #### serial = standard, lifted to histories -/

/-- the guards of `sukf_correct_eq_ukf` for one call under the noise covariance `R` -/
def SukfCall.Guards (c : SukfCall ℝ) (bs : Nat) (R : SNoise ℝ c.msz bs) (hdiv : c.msz % bs = 0) : Prop :=
  (∀ j, 0 ≤ c.inp.wc j) ∧
  (R.cast (Nat.div_mul_cancel (Nat.dvd_of_mod_eq_zero hdiv))).BlockDiag ∧
  (∀ j, (toM ((R.cast (Nat.div_mul_cancel (Nat.dvd_of_mod_eq_zero hdiv))).blockAt j)).PosDef) ∧
  (∀ i, toM (wOuter (offX c.inp.nc (c.b.mean i) (c.inp.X i)) c.inp.wc (offX c.inp.nc (c.b.mean i) (c.inp.X i))) = toM (c.b.cov i))

/-- the histories the property speaks about: every measurement has a size that is a multiple of the block size and,
    where all three model calls succeed, satisfies the guards; the measurement model keeps its noise covariance -/
def SukfOp.Admissible (Rfn : NoiseFn ℝ bs) : SukfOp ℝ bs → Prop
  | .correct c => ∃ hdiv : c.msz % bs = 0,
      (c.inp.validMeas = true ∧ c.inp.validPred = true ∧ c.inp.validInnov = true) → c.Guards bs (Rfn c.msz) hdiv
  | .setNoise _ => False
  | _ => True

theorem GM.ext' {n k : Nat} {a b : GM ℝ n k} (h1 : ∀ i, a.mean i = b.mean i) (h2 : ∀ i, a.cov i = b.cov i)
    (h3 : a.weight = b.weight) : a = b := by
  cases a; cases b
  simp only [GM.mk.injEq]
  exact ⟨funext h1, funext h2, h3⟩

/-- one admissible call on non-skipped objects: same output mixture, same likelihood answer afterwards -/
theorem sukf_step_eq_ukf_step (inv : InvFn ℝ) (hinv : InvCorrect inv) (Rfn : NoiseFn ℝ bs) (c : SukfCall ℝ)
    (hdiv : c.msz % bs = 0)
    (hg : (c.inp.validMeas = true ∧ c.inp.validPred = true ∧ c.inp.validInnov = true) → c.Guards bs (Rfn c.msz) hdiv)
    (sk : Bool) :
    sukfCorrect inv bs (Rfn c.msz) c.inp c.b c.out = (ukfStep inv bs hdiv (Rfn c.msz) c.inp c.b c.out).1 ∧
    sukfObjLik inv Rfn { skip := sk, stored := sukfStepStored bs c } = (ukfStep inv bs hdiv (Rfn c.msz) c.inp c.b c.out).2 := by
  rw [sukf_query_after_step]
  by_cases hv : c.inp.validMeas = true ∧ c.inp.validPred = true ∧ c.inp.validInnov = true
  · obtain ⟨hw, hBD, hRpd, hX⟩ := hg hv
    have key := fun i => sukf_correct_eq_ukf inv hinv bs (Rfn c.msz) c.inp c.b c.out hdiv hv hw hBD hRpd hX i
    have hl := (sukf_likelihood_after_step inv bs (Rfn c.msz) c.inp c.b).2 hdiv hv.1 hv.2.1 hv.2.2
    constructor
    · apply GM.ext'
      · intro i
        have := (key i).1
        simp only [ukfStep, hv.1, hv.2.1, hv.2.2, Bool.not_true, Bool.false_eq_true, if_false, Vec.of_apply]
        exact Vec.ext (fun r => congrFun this r)
      · intro i
        have := (key i).2.1
        simp only [ukfStep, hv.1, hv.2.1, hv.2.2, Bool.not_true, Bool.false_eq_true, if_false, Vec.of_apply]
        exact toM_injective this
      · simp [sukfCorrect, ukfStep, hv.1, hv.2.1, hv.2.2, hdiv]
    · rw [hl]
      simp only [ukfStep, hv.1, hv.2.1, hv.2.2, Bool.not_true, Bool.false_eq_true, if_false, Option.map_some]
      congr 1
      refine Sigma.ext rfl (heq_of_eq ?_)
      ext i
      have := (key i).2.2
      simpa using this
  · have hb : sukfCorrect inv bs (Rfn c.msz) c.inp c.b c.out = c.b := by
      apply sukf_invalid_identity
      by_contra hcon
      simp only [not_or, Bool.not_eq_false] at hcon
      exact hv ⟨hcon.1, hcon.2.1, hcon.2.2⟩
    have hn : sukfStepLikelihood inv bs (Rfn c.msz) c.inp c.b = none := by
      apply (sukf_likelihood_after_step inv bs (Rfn c.msz) c.inp c.b).1
      by_contra hcon
      simp only [not_or, Bool.not_eq_false, ne_eq, not_not] at hcon
      exact hv ⟨hcon.1, hcon.2.2.1, hcon.2.2.2⟩
    rw [hb, hn]
    cases hm : c.inp.validMeas <;> cases hp : c.inp.validPred <;> cases hi : c.inp.validInnov <;>
      simp_all [ukfStep]

/-- **Serial = standard over histories.**  Two objects, a `SUKFCorrection` and an additive `UKFCorrection`, in
    corresponding states (same skip flag, same likelihood answer), driven through the same arbitrary sequence of
    `correct()` (any sizes, component counts, failing model calls), `skip()`, move-construction and `getLikelihood()`
    operations under a noise covariance that stays the same: every returned mixture and every likelihood answer —
    including "none" — coincide, and the objects stay in corresponding states. -/
theorem sukf_history_eq_ukf (inv : InvFn ℝ) (hinv : InvCorrect inv) (Rfn : NoiseFn ℝ bs)
    (ops : List (SukfOp ℝ bs)) (hadm : ∀ op ∈ ops, op.Admissible Rfn)
    (so : SukfObj ℝ bs) (uo : UkfObj ℝ) (hskip : so.skip = uo.skip) (hlik : sukfObjLik inv Rfn so = uo.stored) :
    (sukfSysRun inv ⟨so, Rfn⟩ ops).2 = (ukfSysRun inv ⟨uo, Rfn⟩ ops).2 ∧
    (sukfSysRun inv ⟨so, Rfn⟩ ops).1.obj.skip = (ukfSysRun inv ⟨uo, Rfn⟩ ops).1.obj.skip ∧
    sukfObjLik inv Rfn (sukfSysRun inv ⟨so, Rfn⟩ ops).1.obj = (ukfSysRun inv ⟨uo, Rfn⟩ ops).1.obj.stored := by
  induction ops generalizing so uo with
  | nil => exact ⟨rfl, hskip, hlik⟩
  | cons op ops ih =>
    have hop := hadm op (List.mem_cons_self ..)
    have hrest : ∀ op' ∈ ops, op'.Admissible Rfn := fun op' h => hadm op' (List.mem_cons_of_mem _ h)
    cases op with
    | correct c =>
      obtain ⟨hdiv, hg⟩ := hop
      by_cases hs : so.skip = true
      · have hu : uo.skip = true := hskip ▸ hs
        obtain ⟨i1, i2, i3⟩ := ih hrest so uo hskip hlik
        simp only [sukfSysRun, ukfSysRun, sukfSysStep, ukfSysStep, hs, hu, if_true]
        exact ⟨by rw [i1], i2, i3⟩
      · have hs' : so.skip = false := by simpa using hs
        have hu : uo.skip = false := hskip ▸ hs'
        obtain ⟨e1, e2⟩ := sukf_step_eq_ukf_step inv hinv Rfn c hdiv hg false
        obtain ⟨i1, i2, i3⟩ := ih hrest { skip := false, stored := sukfStepStored bs c }
          { skip := false, stored := (ukfStep inv bs hdiv (Rfn c.msz) c.inp c.b c.out).2 } rfl e2
        simp only [sukfSysRun, ukfSysRun, sukfSysStep, ukfSysStep, hs', hu, Bool.false_eq_true, if_false, dif_pos hdiv]
        exact ⟨by rw [i1, e1], i2, i3⟩
    | skip st =>
      obtain ⟨i1, i2, i3⟩ := ih hrest { so with skip := st } { uo with skip := st } rfl hlik
      simp only [sukfSysRun, ukfSysRun, sukfSysStep, ukfSysStep]
      exact ⟨by rw [i1], i2, i3⟩
    | move =>
      obtain ⟨i1, i2, i3⟩ := ih hrest (sukfMoved so) { skip := uo.skip, stored := none } hskip rfl
      simp only [sukfSysRun, ukfSysRun, sukfSysStep, ukfSysStep]
      exact ⟨by rw [i1], i2, i3⟩
    | query =>
      obtain ⟨i1, i2, i3⟩ := ih hrest so uo hskip hlik
      simp only [sukfSysRun, ukfSysRun, sukfSysStep, ukfSysStep]
      exact ⟨by rw [i1, hlik], i2, i3⟩
    | setNoise f => exact absurd hop (by simp [SukfOp.Admissible])

/-- in particular from construction: a new `SUKFCorrection` and a new `UKFCorrection` are observationally equal on
    every admissible history -/
theorem sukf_history_eq_ukf_fresh (inv : InvFn ℝ) (hinv : InvCorrect inv) (Rfn : NoiseFn ℝ bs)
    (ops : List (SukfOp ℝ bs)) (hadm : ∀ op ∈ ops, op.Admissible Rfn) :
    (sukfSysRun inv ⟨sukfNew, Rfn⟩ ops).2 = (ukfSysRun inv ⟨{ skip := false, stored := none }, Rfn⟩ ops).2 :=
  (sukf_history_eq_ukf inv hinv Rfn ops hadm sukfNew { skip := false, stored := none } rfl rfl).1

/-- Where the two objects part (outside the property: a measurement model whose noise covariance changes between a
    correction and the query): the serial correction evaluates its likelihood with the noise covariance reported *at
    query time*, the standard one answers from members written by the step. -/
theorem sukf_query_uses_current_noise (inv : InvFn ℝ) (σ : SukfSys ℝ bs) (τ : UkfSys ℝ bs) (f : NoiseFn ℝ bs) :
    (sukfSysRun inv σ [.setNoise f, .query]).2 = [.lik (sukfObjLik inv f σ.obj)] ∧
    (ukfSysRun inv τ [.setNoise f, .query]).2 = [.lik τ.obj.stored] := ⟨rfl, rfl⟩

/-- non-vacuity of the history statements: a history with a skipped correction, a move and queries is admissible,
    and its last touch is the move -/
example : ∃ (c : SukfCall ℝ), (∀ op ∈ ([.skip true, .correct c, .skip false, .query, .move, .query] : List (SukfOp ℝ 1)),
      op.Admissible (fun _ => SNoise.reduced Mat.one)) ∧
    sukfLastTouch false ([.skip true, .correct c, .skip false, .query, .move, .query] : List (SukfOp ℝ 1)) = some .move := by
  let inp : SukfIn ℝ 1 1 3 1 :=
    { validMeas := false, validPred := true, validInnov := true, y := Vec.of (fun _ => 0), X := fun _ => Mat.zero,
      Yp := fun _ => Mat.zero, nc := 0, wm := Vec.of (fun _ => 0), wc := Vec.of (fun _ => 0) }
  let g : GM ℝ 1 1 := { mean := fun _ => Vec.of (fun _ => 0), cov := fun _ => Mat.one, weight := Vec.of (fun _ => 1) }
  refine ⟨{ n := 1, msz := 1, s := 3, k := 1, inp := inp, b := g, out := g }, ?_, rfl⟩
  intro op hop
  simp only [List.mem_cons, List.mem_nil_iff, or_false] at hop
  rcases hop with h | h | h | h | h | h <;> subst h <;> simp [SukfOp.Admissible, inp]

end history

end BFL
