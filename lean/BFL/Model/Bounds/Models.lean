import BFL.Model.Bounds.Algebra
/-
C14 — transcriptions (dimension arithmetic only) of the shipped models and utilities:
WhiteNoiseAcceleration, LinearStateModel / AdditiveStateModel, LinearModel, SimulatedStateModel,
SimulatedLinearSensor, HistoryBuffer, InitSurveillanceAreaGrid, and the Gaussian density utilities.
Each `def` follows the C++ statement by statement; the strings name the C++ expression whose side
condition is recorded.
-/
namespace BFL.Bounds
open W

/-! ### utils::multivariate_gaussian_(log_)density -/

/-- `utils::multivariate_gaussian_log_density(input, mean, covariance)` -/
def gaussianDensity (input mean cov : Shape) : W Shape := do
  let diff ← colwiseOp "multivariate_gaussian_log_density: input.colwise() - mean" input mean
  forRange diff.c fun i => do
    let ci ← col "multivariate_gaussian_log_density: diff.col(i)" diff i
    square "multivariate_gaussian_log_density: covariance.determinant() / inverse()" cov
    let a ← prod "multivariate_gaussian_log_density: diff.col(i)^T * covariance^-1" ci.t cov
    let _ ← prod "multivariate_gaussian_log_density: (...) * diff.col(i)" a ci
  pure (vecS diff.c)

/-! ### WhiteNoiseAcceleration -/

inductive Dim where
  | one | two | three
deriving DecidableEq, Repr

def Dim.ofNat? : Nat → Option Dim
  | 1 => some .one | 2 => some .two | 3 => some .three | _ => none

/-- number of state components of the model (`VectorDescription(2 | 4 | 6)`) -/
def Dim.n : Dim → Nat
  | .one => 2 | .two => 4 | .three => 6

structure WNA where
  F : Shape
  Q : Shape
  sqrtQ : Shape
  desc : Nat

/-- `LDLT`-based square root used by WhiteNoiseAcceleration, LinearModel and GPFCorrection:
    `(P * Identity(idr, idc)).transpose() * L * D.asDiagonal()` for a covariance `M`. -/
def ldltSqrt (site : String) (M : Shape) (idr idc : Nat) : W Shape := do
  square (site ++ ": LDLT(M)") M
  let pI ← prod (site ++ ": transpositionsP() * Identity") ⟨M.r, M.r⟩ ⟨idr, idc⟩
  let a ← prod (site ++ ": (P I)^T * matrixL()") pI.t ⟨M.r, M.r⟩
  prod (site ++ ": (...) * vectorD().cwiseSqrt().asDiagonal()") a ⟨M.r, M.r⟩

/-- `WhiteNoiseAcceleration::ImplData::ImplData(dim, T, tilde_q, seed)` -/
def wnaCtor (d : Dim) : W WNA := do
  commaScalars "WNA: Matrix2d F << 1, T, 0, 1" ⟨2, 2⟩ 4
  commaScalars "WNA: Matrix2d Q << q11, q2, q2, T" ⟨2, 2⟩ 4
  let (F, Q, desc) ← (match d with
    | .one => pure (⟨2, 2⟩, ⟨2, 2⟩, 2)                       -- F_ = F; Q_ = Q (resizing assignments)
    | .two => do
        commaSquareGrid "WNA(TwoD): F_ << F, 0, 0, F" ⟨4, 4⟩ 2 2
        commaSquareGrid "WNA(TwoD): Q_ << Q, 0, 0, Q" ⟨4, 4⟩ 2 2
        pure (⟨4, 4⟩, ⟨4, 4⟩, 4)
    | .three => do
        commaSquareGrid "WNA(ThreeD): F_ << F, 0, 0, 0, F, 0, 0, 0, F" ⟨6, 6⟩ 3 2
        commaSquareGrid "WNA(ThreeD): Q_ << Q, 0, 0, 0, Q, 0, 0, 0, Q" ⟨6, 6⟩ 3 2
        pure (⟨6, 6⟩, ⟨6, 6⟩, 6) : W (Shape × Shape × Nat))
  let s ← ldltSqrt "WNA: sqrt_Q_" Q Q.r Q.c
  pure ⟨F, Q, s, desc⟩

/-- `WhiteNoiseAcceleration::getNoiseSample(num)` -/
def wnaNoise (m : WNA) (num : Nat) : W Shape := do
  let rand : Shape := ⟨m.Q.r, num⟩          -- MatrixXd rand_vectors(pimpl_->Q_.rows(), num)
  prod "WNA::getNoiseSample: sqrt_Q_ * rand_vectors" m.sqrtQ rand

/-- `LinearStateModel::propagate` (not skipping, no exogenous model): `prop_states = F * cur_states` into a `Ref`. -/
def linPropagate (F cur prop : Shape) : W Unit := do
  let p ← prod "LinearStateModel::propagate: F * cur_states" F cur
  assignFixed "LinearStateModel::propagate: prop_states = F * cur_states" prop p

/-- `AdditiveStateModel::motion`: propagate, then `mot_states += getNoiseSample(mot_states.cols())`. -/
def additiveMotion (F : Shape) (noise : Nat → W Shape) (cur mot : Shape) : W Unit := do
  linPropagate F cur mot
  let ns ← noise mot.c
  let _ ← cwise "AdditiveStateModel::motion: mot_states += getNoiseSample(cols)" mot ns

def wnaMotion (d : Dim) (num sr : Nat) : W Shape := do
  let m ← wnaCtor d
  let cur : Shape := ⟨sr, num⟩
  let mot : Shape := ⟨sr, num⟩
  additiveMotion m.F (wnaNoise m) cur mot
  pure mot

/-- `WhiteNoiseAcceleration::getTransitionProbability(prev, cur)` (after fix f06a6be) -/
def wnaTransitionProbability (d : Dim) (num sr : Nat) : W Shape := do
  let m ← wnaCtor d
  let prev : Shape := ⟨sr, num⟩
  let cur : Shape := ⟨sr, num⟩
  let fp ← prod "WNA::getTransitionProbability: F_ * prev_states" m.F prev
  let diff ← cwise "WNA::getTransitionProbability: cur_states - F_ * prev_states" cur fp
  gaussianDensity diff (vecS cur.r) m.Q

/-- A move-constructed model used after its source is gone: `ImplData` is heap-allocated and owned
    through `pimpl_`, the lambda captures the `ImplData`, so nothing dangles (see `Lifetime`). -/
def wnaNoiseTokens (d : Dim) (num : Nat) : W (Option (List String)) := do
  let m ← wnaCtor d
  let s ← wnaNoise m num
  pure (some [m.F.str, m.Q.str, toString m.desc, s.str])

/-! ### LTIMeasurementModel / LinearModel -/

structure LM where
  H : Shape
  R : Shape
  sqrtR : Shape

/-- `LinearModel::LinearModel({n, comps}, R, seed)`; `none` = the constructor throws
    `std::runtime_error` (LTIMeasurementModel's checks or "Index component out of bound"). -/
def lmCtor (n : Nat) (comps : List Nat) (R : Shape) : W (Option LM) := do
  let H : Shape := ⟨comps.length, n⟩       -- MatrixXd::Zero(second.size(), first)
  if H.r = 0 ∨ H.c = 0 ∨ R.r = 0 ∨ R.c = 0 ∨ R.r ≠ R.c ∨ H.r ≠ R.r then pure none
  else if comps.all (fun c => decide (c < n)) then do
    forRange comps.length fun i =>
      coeff2 "LinearModel: H_(i, component_index) = 1" H i (comps.getD i 0)
    let s ← ldltSqrt "LinearModel: sqrt_R_" R R.r R.c
    pure (some ⟨H, R, s⟩)
  else pure none

/-- `LinearModel::getNoiseSample(num)` (after fix f96e245) -/
def lmNoise (m : LM) (num : Nat) : W Shape := do
  let rand : Shape := ⟨m.R.r, num⟩          -- MatrixXd rand_vectors(R_.rows(), num)
  prod "LinearModel::getNoiseSample: sqrt_R_ * rand_vectors" m.sqrtR rand

/-- `LinearMeasurementModel::predictedMeasure` -/
def lmPredicted (m : LM) (cur : Shape) : W Shape :=
  prod "LinearMeasurementModel::predictedMeasure: H * cur_states" m.H cur

def lmTokens (n : Nat) (comps : List Nat) (R : Shape) (num : Nat) : W (Option (List String)) := do
  match (← lmCtor n comps R) with
  | none => pure none
  | some m => do
    let s ← lmNoise m num
    let p ← lmPredicted m ⟨n, num⟩
    pure (some [m.H.str, m.sqrtR.str, s.str, p.str])

/-! ### SimulatedStateModel -/

structure SSM where
  model : WNA
  target : Shape
  T : Nat
  cur : Nat

/-- `SimulatedStateModel::SimulatedStateModel(WNA(d), x0, T)` -/
def ssmCtor (d : Dim) (x0 T : Nat) : W SSM := do
  let m ← wnaCtor d
  let target : Shape := ⟨x0, T⟩
  if T > 0 then do                         -- guard added by fix 4751db6
    let c0 ← col "SimulatedStateModel: target_.col(0)" target 0
    assignFixed "SimulatedStateModel: target_.col(0) = initial_state" c0 (vecS x0)
  forRange (T - 1) fun k' => do            -- for (k = 1; k < simulation_time_; ++k)
    let a ← col "SimulatedStateModel: target_.col(k - 1)" target k'
    let b ← col "SimulatedStateModel: target_.col(k)" target (k' + 1)
    additiveMotion m.F (wnaNoise m) a b
  pure ⟨m, target, T, 0⟩

/-- `SimulatedStateModel::log()`: the argument `target_.col(current - 1).transpose()` is evaluated
    whether or not logging is enabled (`current - 1` is unsigned). -/
def ssmLog (s : SSM) : W Unit := do
  req "SimulatedStateModel::log: current_simulation_time_ - 1 (unsigned)" (.lt 0 s.cur)
  let _ ← col "SimulatedStateModel::log: target_.col(current - 1)" s.target (s.cur - 1)

/-- `SimulatedStateModel::bufferData()` (after fix 3e146d2): `false` once the trajectory is exhausted. -/
def ssmBuffer (s : SSM) : W (SSM × Option Shape) :=
  if s.cur ≥ s.T then pure (s, none)
  else do
    let s' : SSM := { s with cur := s.cur + 1 }
    ssmLog s'
    let data ← col "SimulatedStateModel::bufferData: target_.col(current - 1)" s'.target (s'.cur - 1)
    pure (s', some data)

/-- `calls` successive `bufferData()`; one token per call: `1:<shape of getData()>` or `0`. -/
def ssmCalls : SSM → Nat → W (List String)
  | _, 0 => pure []
  | s, n + 1 => do
    let (s', r) ← ssmBuffer s
    let rest ← ssmCalls s' n
    pure ((match r with | some sh => "1:" ++ sh.str | none => "0") :: rest)

def ssmTokens (d : Dim) (T x0 calls : Nat) : W (Option (List String)) := do
  let s ← ssmCtor d x0 T
  let toks ← ssmCalls s calls
  pure (some toks)

def ssmLogTokens (d : Dim) (T calls : Nat) : W (Option (List String)) := do
  let s ← ssmCtor d d.n T
  let rec go : SSM → Nat → W SSM
    | s, 0 => pure s
    | s, n + 1 => do let (s', _) ← ssmBuffer s; go s' n
  let s' ← go s calls
  ssmLog s'
  pure (some [])

/-! ### SimulatedLinearSensor -/

structure SLS where
  ssm : SSM
  lm : LM

/-- constructor; `none` = LinearModel's constructor throws -/
def slsCtor (d : Dim) (T n : Nat) (comps : List Nat) (rr : Nat) : W (Option SLS) := do
  let s ← ssmCtor d d.n T
  match (← lmCtor n comps ⟨rr, rr⟩) with
  | none => pure none
  | some m => do
    forRange m.H.r fun i => do
      let r ← row "SimulatedLinearSensor: H_.row(i)" m.H i
      nonEmpty "SimulatedLinearSensor: H_.row(i).array().abs().maxCoeff(&index)" r
    pure (some ⟨s, m⟩)

/-- `SimulatedLinearSensor::freeze()` -/
def slsFreeze (x : SLS) : W (SLS × Option Shape) := do
  let (s', r) ← ssmBuffer x.ssm
  match r with
  | none => pure ({ x with ssm := s' }, none)
  | some data => do
    let meas ← prod "SimulatedLinearSensor::freeze: H_ * state" x.lm.H data
    let noise ← lmNoise x.lm meas.c
    let _ ← cwise "SimulatedLinearSensor::freeze: measurement_ += noise" meas noise
    pure ({ x with ssm := s' }, some meas)

def slsCalls : SLS → Nat → W (List String)
  | _, 0 => pure []
  | s, n + 1 => do
    let (s', r) ← slsFreeze s
    let rest ← slsCalls s' n
    pure ((match r with | some sh => "1:" ++ sh.str | none => "0") :: rest)

def slsTokens (d : Dim) (T n rr calls : Nat) (comps : List Nat) : W (Option (List String)) := do
  match (← slsCtor d T n comps rr) with
  | none => pure none
  | some s => do
    let toks ← slsCalls s calls
    -- input description: state description of the model + noise components; measurement description
    pure (some ([toString d.n, "0", toString rr, toString comps.length] ++ toks))

/-! ### HistoryBuffer -/

/-- `window_`, `state_size_` and the sizes of the stored vectors (front first). -/
structure Hist where
  window : Nat
  stateSize : Nat
  buf : List Nat

inductive HOp where
  | add (k : Nat)          -- addElement(vector of k entries)
  | setSize (w : Nat)      -- setHistorySize(w)
  | dec | inc | clear | get
  | moveKeepNew            -- move-construct a new buffer, continue with the new one
  | moveKeepOld            -- move-construct a new buffer, continue with the moved-from one
  | moveSelf               -- `h = std::move(h)` through a reference: the guard `if (this == &history_buffer) return *this;` keeps everything
  | moveAssignFrom (S2 k w : Nat)   -- `*this = std::move(other)`, `other` a buffer of ANOTHER state size `S2` holding `k` vectors (window `w`, 0 = default); continue with this one
  | moveAssignInto (S2 k w : Nat)   -- `other = std::move(*this)` into such a buffer; continue with `other`
deriving Repr

def Hist.new (S : Nat) : Hist := ⟨5, S, []⟩

/-- `addElement`: `push_front`, then `pop_back` when the window is exceeded -/
def histAdd (h : Hist) (k : Nat) : W Hist :=
  if (k :: h.buf).length > h.window then do
    popBack "HistoryBuffer::addElement: pop_back" (k :: h.buf).length
    pure { h with buf := (k :: h.buf).dropLast }
  else pure { h with buf := k :: h.buf }

/-- the window actually stored: clamped to [2, max_window_ = 30] -/
def clampWindow (w : Nat) : Nat := if w < 2 then 2 else if w ≥ 30 then 30 else w

/-- `HistoryBuffer::setHistorySize(window)` (after fix 382f8e9) -/
def histSetSize (h : Hist) (w : Nat) : W Hist :=
  if w = h.window then pure h
  else if clampWindow w < h.window ∧ clampWindow w < h.buf.length then do
    -- while (history_buffer_.size() > tmp) pop_back()
    forRange (h.buf.length - clampWindow w) fun j => popBack "HistoryBuffer::setHistorySize: pop_back" (h.buf.length - j)
    pure { h with window := clampWindow w, buf := h.buf.take (clampWindow w) }
  else pure { h with window := clampWindow w }

/-- `HistoryBuffer::getHistoryBuffer()` -/
def histGet (h : Hist) : W Shape := do
  let out : Shape := ⟨h.stateSize, h.buf.length⟩
  forRange h.buf.length fun i => do
    let c ← col "HistoryBuffer::getHistoryBuffer: hist_out.col(i)" out i
    assignFixed "HistoryBuffer::getHistoryBuffer: hist_out.col(i) = element" c (vecS (h.buf.getD i 0))
  pure out

/-- `k` successive `addElement` of vectors with `S` entries -/
def histAddMany (S : Nat) : Nat → Hist → W Hist
  | 0, h => pure h
  | k + 1, h => do let h' ← histAdd h S; histAddMany S k h'

/-- another buffer, of state size `S2`, window `w` (0: default), filled with `k` vectors of its own size -/
def otherHist (S2 k w : Nat) : W Hist := do
  let h0 ← (if w > 0 then histSetSize (Hist.new S2) w else pure (Hist.new S2))
  histAddMany S2 k h0

def histStep (h : Hist) : HOp → W (Hist × String)
  | .add k => do let h' ← histAdd h k; pure (h', "a")
  | .setSize w => do let h' ← histSetSize h w; pure (h', s!"s1:{h'.window}")
  | .dec => do
      -- setHistorySize(window_ - 1) with unsigned arithmetic
      let h' ← histSetSize h (if h.window = 0 then 4294967295 else h.window - 1)
      pure (h', s!"s1:{h'.window}")
  | .inc => do let h' ← histSetSize h (h.window + 1); pure (h', s!"s1:{h'.window}")
  | .clear => pure ({ h with buf := [] }, "c")
  | .get => do let s ← histGet h; pure (h, "g:" ++ s.str)
  | .moveKeepNew => pure (h, "m")
  | .moveKeepOld => pure (⟨0, 0, []⟩, "m")
  | .moveSelf => pure (h, "m")
  -- move assignment hands over window_, state_size_ AND the stored vectors
  | .moveAssignFrom S2 k w => do let o ← otherHist S2 k w; pure (o, "m")
  | .moveAssignInto S2 k w => do let _ ← otherHist S2 k w; pure (h, "m")

def histRun : Hist → List HOp → W (List String)
  | _, [] => pure []
  | h, op :: ops => do
    let (h', t) ← histStep h op
    let rest ← histRun h' ops
    pure (t :: rest)

/-- state reached after a list of operations (obligations dropped) -/
def histFinal : Hist → List HOp → Hist
  | h, [] => h
  | h, op :: ops => histFinal (histStep h op).val.1 ops

/-! ### InitSurveillanceAreaGrid -/

/-- `InitSurveillanceAreaGrid::initialize(particles)` on a `rows × N` state matrix -/
def gridInit (nx ny N rows : Nat) : W Bool :=
  if N ≠ nx * ny then pure false
  else if rows ≠ 4 then pure false          -- refusal added by fix 8ea2579
  else do
    forRange nx fun i => forRange ny fun j => do
      let c ← col "InitSurveillanceAreaGrid::initialize: particles.state().col(i*ny + j)" ⟨rows, N⟩ (i * ny + j)
      commaScalars "InitSurveillanceAreaGrid::initialize: col << x, 0, y, 0" c 4
    pure true

end BFL.Bounds
