import BFL.Model.Models
import BFL.Bridge.Mat
import BFL.Bridge.Transc
import Mathlib.LinearAlgebra.Matrix.PosDef
import Mathlib.Analysis.Matrix.PosDef
import Mathlib.Data.Matrix.Block
import Mathlib.Algebra.Order.Star.Real
import Mathlib.Logic.Equiv.Fin.Basic
import Mathlib.Tactic.FinCases
import Mathlib.Tactic.Linarith
import Mathlib.Tactic.Positivity
import Mathlib.LinearAlgebra.Matrix.Notation
import Mathlib.Analysis.SpecialFunctions.Exp
import Mathlib.Analysis.SpecialFunctions.Log.Basic
import Mathlib.Analysis.SpecialFunctions.Sqrt
/-
Helper lemmas for C16, white-noise-acceleration part: block-diagonal structure of F and Q,
positive definiteness of Q, the second-moment identity of the noise samples, the motion and the
transition density.  The property theorems are in `BFL/Props/C16.lean`.
-/
open Matrix
namespace BFL.Models

/-! ### positive definiteness of a block-diagonal matrix -/

theorem blockDiagonal_quad {m o : Type*} [Fintype m] [Fintype o] [DecidableEq o]
    (M : o → Matrix m m ℝ) (x : m × o → ℝ) :
    star x ⬝ᵥ (Matrix.blockDiagonal M *ᵥ x)
      = ∑ k, star (fun i => x (i, k)) ⬝ᵥ (M k *ᵥ fun i => x (i, k)) := by
  simp only [dotProduct, mulVec, Fintype.sum_prod_type, blockDiagonal_apply', Pi.star_apply, star_trivial]
  rw [Finset.sum_comm]
  refine Finset.sum_congr rfl fun k _ => Finset.sum_congr rfl fun i _ => ?_
  congr 1
  rw [Finset.sum_comm]
  simp [Finset.sum_ite_eq, ite_mul]

theorem blockDiagonal_posDef {m o : Type*} [Fintype m] [Fintype o] [DecidableEq o]
    {M : o → Matrix m m ℝ} (h : ∀ k, (M k).PosDef) : (Matrix.blockDiagonal M).PosDef := by
  refine Matrix.PosDef.of_dotProduct_mulVec_pos ?_ ?_
  · rw [Matrix.IsHermitian, Matrix.blockDiagonal_conjTranspose]
    congr 1; funext k; exact (h k).1
  · intro x hx
    rw [blockDiagonal_quad]
    have hne : ∃ k, (fun i => x (i, k)) ≠ 0 := by
      by_contra hcon
      push Not at hcon
      apply hx
      funext ⟨i, k⟩
      exact congrFun (hcon k) i
    obtain ⟨k0, hk0⟩ := hne
    apply Finset.sum_pos'
    · intro k _
      exact (h k).posSemidef.dotProduct_mulVec_nonneg _
    · exact ⟨k0, Finset.mem_univ _, (h k0).dotProduct_mulVec_pos hk0⟩

/-! ### the tables of the `switch` are block-diagonal -/

/-- index equivalence: (position inside the block, block number) ↦ row of the big matrix,
    `(a, k) ↦ a + 2 k` -/
def blkEquiv (d : Nat) : Fin 2 × Fin d ≃ Fin (d * 2) :=
  (Equiv.prodComm _ _).trans finProdFinEquiv

theorem blkEquiv_apply_val (d : Nat) (a : Fin 2) (k : Fin d) : ((blkEquiv d) (a, k)).val = a.val + 2 * k.val := rfl

theorem blkEquiv_symm_apply (d : Nat) (i : Fin (d * 2)) : (blkEquiv d).symm i = (subIdx i, blkIdx i) := rfl

theorem toM_blockDiag {α : Type} [Zero α] (d : Nat) (B : Mat α 2 2) :
    toM (blockDiag d B) = Matrix.reindex (blkEquiv d) (blkEquiv d) (Matrix.blockDiagonal fun _ : Fin d => toM B) := by
  ext i j
  simp only [Matrix.reindex_apply, Matrix.submatrix_apply, blkEquiv_symm_apply, Matrix.blockDiagonal_apply']
  simp only [toM_apply, blockDiag, ofBlocks, Mat.of_apply]
  split <;> simp [Mat.zero]

theorem table1 {α : Type} [Zero α] (B : Mat α 2 2) :
    ofBlocks 1 (fun _ _ => B) = blockDiag 1 B := by
  ext i j
  simp only [blockDiag, ofBlocks, Mat.of_apply]
  have : blkIdx i = blkIdx j := Subsingleton.elim _ _
  simp [this]

theorem table2 {α : Type} [Zero α] (B : Mat α 2 2) :
    ofBlocks 2 (fun I J =>
      match I.val, J.val with
      | 0, 0 => B | 0, _ => Mat.zero
      | _, 0 => Mat.zero | _, _ => B) = blockDiag 2 B := by
  ext i j
  simp only [blockDiag, ofBlocks, Mat.of_apply]
  generalize blkIdx i = I
  generalize blkIdx j = J
  fin_cases I <;> fin_cases J <;> simp

theorem table3 {α : Type} [Zero α] (B : Mat α 2 2) :
    ofBlocks 3 (fun I J =>
      match I.val, J.val with
      | 0, 0 => B | 0, 1 => Mat.zero | 0, _ => Mat.zero
      | 1, 0 => Mat.zero | 1, 1 => B | 1, _ => Mat.zero
      | _, 0 => Mat.zero | _, 1 => Mat.zero | _, _ => B) = blockDiag 3 B := by
  ext i j
  simp only [blockDiag, ofBlocks, Mat.of_apply]
  generalize blkIdx i = I
  generalize blkIdx j = J
  fin_cases I <;> fin_cases J <;> simp

theorem wnaTable_eq {α : Type} [Zero α] (B : Mat α 2 2) (dim : Dim) :
    wnaTable B dim = blockDiag dim.n B := by
  cases dim
  · exact table1 B
  · exact table2 B
  · exact table3 B

theorem blockDiag_apply {α : Type} [Zero α] (d : Nat) (B : Mat α 2 2) (i j : Fin (d * 2)) :
    (blockDiag d B) i j = if i.val / 2 = j.val / 2 then B (subIdx i) (subIdx j) else 0 := by
  simp only [blockDiag, ofBlocks, Mat.of_apply, blkIdx, Fin.mk.injEq]
  split <;> simp [Mat.zero]

/-! ### the 2×2 blocks -/

theorem toM_wnaF2 (T : ℝ) : toM (wnaF2 T) = !![1, T; 0, 1] := by
  ext i j
  fin_cases i <;> fin_cases j <;> simp [wnaF2]

theorem toM_wnaQ2 (T : ℝ) : toM (wnaQ2 T) = !![T ^ 3 / 3, T ^ 2 / 2; T ^ 2 / 2, T] := by
  ext i j
  fin_cases i <;> fin_cases j <;> simp [wnaQ2, num2, num3] <;> ring

/-- leading minors `T³/3 > 0`, `det = T⁴/12 > 0`, written as a sum of squares -/
theorem Q2_quad (T a b : ℝ) :
    a * (T ^ 3 / 3 * a + T ^ 2 / 2 * b) + b * (T ^ 2 / 2 * a + T * b)
      = T / 3 * (T * a + 3 / 2 * b) ^ 2 + T / 4 * b ^ 2 := by ring

theorem Q2_posDef {T : ℝ} (hT : 0 < T) :
    (!![T ^ 3 / 3, T ^ 2 / 2; T ^ 2 / 2, T] : Matrix (Fin 2) (Fin 2) ℝ).PosDef := by
  refine Matrix.PosDef.of_dotProduct_mulVec_pos ?_ ?_
  · ext i j
    fin_cases i <;> fin_cases j <;> simp
  · intro x hx
    simp only [dotProduct, Matrix.mulVec, Fin.sum_univ_two, Pi.star_apply, star_trivial,
      Matrix.of_apply, Matrix.cons_val', Matrix.cons_val_zero, Matrix.cons_val_one,
      Matrix.cons_val_fin_one]
    have hne : x 0 ≠ 0 ∨ x 1 ≠ 0 := by
      by_contra h
      push Not at h
      apply hx
      funext i
      fin_cases i
      · exact h.1
      · exact h.2
    rw [Q2_quad]
    by_cases h1 : x 1 = 0
    · have h0 : x 0 ≠ 0 := by
        rcases hne with h | h
        · exact h
        · exact absurd h1 h
      rw [h1]
      have : 0 < (T * x 0) ^ 2 := by positivity
      have h3 : 0 < T / 3 := by positivity
      nlinarith [mul_pos h3 this]
    · have : 0 < (x 1) ^ 2 := by positivity
      have h4 : 0 < T / 4 := by positivity
      have h3 : 0 ≤ T / 3 * (T * x 0 + 3 / 2 * x 1) ^ 2 := by positivity
      nlinarith [mul_pos h4 this]

theorem Q2_det (T : ℝ) :
    (!![T ^ 3 / 3, T ^ 2 / 2; T ^ 2 / 2, T] : Matrix (Fin 2) (Fin 2) ℝ).det = T ^ 4 / 12 := by
  rw [Matrix.det_fin_two_of]; ring

/-! ### F and Q in Mathlib's vocabulary -/

theorem toM_wnaF (dim : Dim) (T : ℝ) :
    toM (wnaF dim T) = Matrix.reindex (blkEquiv dim.n) (blkEquiv dim.n)
      (Matrix.blockDiagonal fun _ : Fin dim.n => !![1, T; 0, 1]) := by
  rw [wnaF, wnaTable_eq, toM_blockDiag, toM_wnaF2]

theorem toM_wnaQ (dim : Dim) (T q : ℝ) :
    toM (wnaQ dim T q) = q • Matrix.reindex (blkEquiv dim.n) (blkEquiv dim.n)
      (Matrix.blockDiagonal fun _ : Fin dim.n => !![T ^ 3 / 3, T ^ 2 / 2; T ^ 2 / 2, T]) := by
  rw [← toM_wnaQ2, ← toM_blockDiag, ← wnaTable_eq]
  ext i j
  simp [wnaQ, mul_comm]

theorem wnaQ_posDef (dim : Dim) {T q : ℝ} (hT : 0 < T) (hq : 0 < q) : (toM (wnaQ dim T q)).PosDef := by
  rw [toM_wnaQ]
  refine Matrix.PosDef.smul ?_ hq
  rw [Matrix.reindex_apply]
  exact (blockDiagonal_posDef fun _ => Q2_posDef hT).submatrix (blkEquiv dim.n).symm.injective

/-! ### positive semidefiniteness (the boundary T = 0 / q = 0 included) -/
theorem Q2_posSemidef {T : ℝ} (hT : 0 ≤ T) :
    (!![T ^ 3 / 3, T ^ 2 / 2; T ^ 2 / 2, T] : Matrix (Fin 2) (Fin 2) ℝ).PosSemidef := by
  refine Matrix.PosSemidef.of_dotProduct_mulVec_nonneg ?_ ?_
  · ext i j
    fin_cases i <;> fin_cases j <;> simp
  · intro x
    simp only [dotProduct, Matrix.mulVec, Fin.sum_univ_two, Pi.star_apply, star_trivial,
      Matrix.of_apply, Matrix.cons_val', Matrix.cons_val_zero, Matrix.cons_val_one,
      Matrix.cons_val_fin_one]
    rw [Q2_quad]
    positivity

theorem blockDiagonal_posSemidef {m o : Type*} [Fintype m] [Fintype o] [DecidableEq o]
    {M : o → Matrix m m ℝ} (h : ∀ k, (M k).PosSemidef) : (Matrix.blockDiagonal M).PosSemidef := by
  refine Matrix.PosSemidef.of_dotProduct_mulVec_nonneg ?_ ?_
  · rw [Matrix.IsHermitian, Matrix.blockDiagonal_conjTranspose]
    congr 1; funext k; exact (h k).1
  · intro x
    rw [blockDiagonal_quad]
    exact Finset.sum_nonneg fun k _ => (h k).dotProduct_mulVec_nonneg _

/-! ### entry-wise closed forms -/

theorem wnaF_entry (dim : Dim) (T : ℝ) (i j : Fin (dim.n * 2)) :
    (wnaF dim T) i j =
      if i = j then 1
      else if i.val % 2 = 0 ∧ j.val = i.val + 1 then T
      else 0 := by
  rw [wnaF, wnaTable_eq, blockDiag_apply]
  simp only [wnaF2, Mat.of_apply, subIdx, Fin.ext_iff]
  have hi := i.isLt
  have hj := j.isLt
  split_ifs <;> first | omega | rfl

theorem wnaQ_entry (dim : Dim) (T q : ℝ) (i j : Fin (dim.n * 2)) :
    (wnaQ dim T q) i j =
      q * (if i = j then (if i.val % 2 = 0 then T ^ 3 / 3 else T)
           else if i.val / 2 = j.val / 2 then T ^ 2 / 2
           else 0) := by
  simp only [wnaQ, Mat.of_apply]
  rw [wnaTable_eq, blockDiag_apply, mul_comm]
  congr 1
  simp only [wnaQ2, Mat.of_apply, subIdx, Fin.ext_iff, num2, num3]
  have hi := i.isLt
  have hj := j.isLt
  split_ifs <;> first | omega | ring1

/-! ### second moment of the noise samples -/

theorem sample_outer {n N : Nat} (S : Mat ℝ n n) (z : Mat ℝ n N) :
    toM (wnaSample S z) * (toM (wnaSample S z))ᵀ = toM S * (toM z * (toM z)ᵀ) * (toM S)ᵀ := by
  simp only [wnaSample, toM_mul, Matrix.transpose_mul, Matrix.mul_assoc]

/-- weighted empirical second moment of the samples = `S · (that of the draws) · Sᵀ` -/
theorem sample_second_moment {n : Nat} {ι : Type*} (s : Finset ι) (w : ι → ℝ) (S : Mat ℝ n n)
    (z : ι → Mat ℝ n 1) :
    ∑ k ∈ s, w k • (toM (wnaSample S (z k)) * (toM (wnaSample S (z k)))ᵀ)
      = toM S * (∑ k ∈ s, w k • (toM (z k) * (toM (z k))ᵀ)) * (toM S)ᵀ := by
  rw [Finset.mul_sum, Finset.sum_mul]
  refine Finset.sum_congr rfl fun k _ => ?_
  rw [sample_outer, Matrix.mul_smul, Matrix.smul_mul]

/-! ### Gaussian density -/

/-- The multivariate normal density `N(x; μ, Σ)` in its textbook form. -/
noncomputable def mvnPdf {n : Nat} (mu : Fin n → ℝ) (Sigma : Matrix (Fin n) (Fin n) ℝ) (x : Fin n → ℝ) : ℝ :=
  (Real.sqrt ((2 * Real.pi) ^ n * Sigma.det))⁻¹ * Real.exp (-(1 / 2) * ((x - mu) ⬝ᵥ (Sigma⁻¹ *ᵥ (x - mu))))

theorem quadForm_eq {n : Nat} (A : Mat ℝ n n) (d : Vec ℝ n) :
    quadForm A d = toV d ⬝ᵥ (toM A *ᵥ toV d) := by
  simp [quadForm, dot_eq]

/-- the code's `exp(-0.5 (n log 2π + log det Σ + quad))` is the textbook density when `det Σ > 0` -/
theorem exp_logDensity_eq (n : Nat) {D : ℝ} (hD : 0 < D) (quad : ℝ) :
    Real.exp (-((1 / 2) * ((n : ℝ) * Real.log (2 * Real.pi) + Real.log D + quad)))
      = (Real.sqrt ((2 * Real.pi) ^ n * D))⁻¹ * Real.exp (-(1 / 2) * quad) := by
  have h2pi : 0 < 2 * Real.pi := by positivity
  have hA : 0 < (2 * Real.pi) ^ n * D := by positivity
  have hlog : (n : ℝ) * Real.log (2 * Real.pi) + Real.log D = Real.log ((2 * Real.pi) ^ n * D) := by
    rw [Real.log_mul (by positivity) hD.ne', Real.log_pow]
  have e1 : -((1 / 2) * ((n : ℝ) * Real.log (2 * Real.pi) + Real.log D + quad))
      = -(Real.log ((2 * Real.pi) ^ n * D) / 2) + -(1 / 2) * quad := by
    rw [hlog]; ring
  rw [e1, Real.exp_add, Real.exp_neg, Real.exp_half, Real.exp_log hA]

theorem gaussLogDensity_real {n : Nat} (inv : Mat ℝ n n → Mat ℝ n n) (det : Mat ℝ n n → ℝ)
    (x mu : Vec ℝ n) (Sigma : Mat ℝ n n) :
    gaussLogDensity inv det x mu Sigma
      = -((1 / 2) * ((n : ℝ) * Real.log (2 * Real.pi) + Real.log (det Sigma)
          + (toV x - toV mu) ⬝ᵥ (toM (inv Sigma) *ᵥ (toV x - toV mu)))) := by
  simp only [gaussLogDensity, quadForm_eq, toV_sub, transc_log, transc_pi, num2]
  norm_num

theorem gaussDensity_eq_mvnPdf {n N : Nat} (inv : Mat ℝ n n → Mat ℝ n n) (det : Mat ℝ n n → ℝ)
    (X : Mat ℝ n N) (mu : Vec ℝ n) (Sigma : Mat ℝ n n)
    (hinv : toM (inv Sigma) = (toM Sigma)⁻¹) (hdet : det Sigma = (toM Sigma).det)
    (hpos : 0 < (toM Sigma).det) (i : Fin N) :
    (gaussDensity inv det X mu Sigma) i = mvnPdf (toV mu) (toM Sigma) (toV (X.col i)) := by
  simp only [gaussDensity, Vec.of_apply, transc_exp, gaussLogDensity_real, hinv, hdet]
  rw [exp_logDensity_eq n hpos]
  rfl

end BFL.Models

namespace BFL.Models
open Matrix

/-! ### the square-root expression of the code, given an LDLᵀ factorisation -/

theorem toM_ldltSqrt {n : Nat} (P L : Mat ℝ n n) (d : Vec ℝ n) :
    toM (ldltSqrt P L d) = (toM P)ᵀ * toM L * Matrix.diagonal (fun i => Real.sqrt (max (d i) 0)) := by
  simp only [ldltSqrt, toM_mul, toM_transpose, toM_one, Matrix.mul_one]
  congr 1
  ext i j
  simp only [toM_apply, Mat.of_apply, Matrix.diagonal_apply, transc_sqrt]
  split
  · congr 1
    split
    · rw [max_eq_right (by linarith)]
    · rw [max_eq_left (by linarith)]
  · rfl

/-- whatever the pivots (also rounding-negative ones), `S Sᵀ = Pᵀ L D⁺ Lᵀ P` with `D⁺ = max(D, 0)` -/
theorem ldltSqrt_clamped {n : Nat} (P L : Mat ℝ n n) (d : Vec ℝ n) :
    toM (ldltSqrt P L d) * (toM (ldltSqrt P L d))ᵀ
      = (toM P)ᵀ * toM L * Matrix.diagonal (fun i => max (d i) 0) * (toM L)ᵀ * toM P := by
  rw [toM_ldltSqrt]
  have hdd : Matrix.diagonal (fun i => Real.sqrt (max (d i) 0)) * Matrix.diagonal (fun i => Real.sqrt (max (d i) 0))
      = Matrix.diagonal (fun i => max (d i) 0) := by
    rw [Matrix.diagonal_mul_diagonal]
    congr 1
    funext i
    exact Real.mul_self_sqrt (le_max_right _ _)
  simp only [Matrix.transpose_mul, Matrix.transpose_transpose, Matrix.diagonal_transpose]
  calc (toM P)ᵀ * toM L * diagonal (fun i => Real.sqrt (max (d i) 0)) * (diagonal (fun i => Real.sqrt (max (d i) 0)) * ((toM L)ᵀ * toM P))
      = (toM P)ᵀ * toM L * (diagonal (fun i => Real.sqrt (max (d i) 0)) * diagonal (fun i => Real.sqrt (max (d i) 0))) * ((toM L)ᵀ * toM P) := by
        simp only [Matrix.mul_assoc]
    _ = (toM P)ᵀ * toM L * diagonal (fun i => max (d i) 0) * (toM L)ᵀ * toM P := by
        rw [hdd]; simp only [Matrix.mul_assoc]

theorem ldltSqrt_contract {n : Nat} (P L Q : Mat ℝ n n) (d : Vec ℝ n) (hd : ∀ i, 0 ≤ d i)
    (hQ : (toM P)ᵀ * toM L * Matrix.diagonal (fun i => d i) * (toM L)ᵀ * toM P = toM Q) :
    toM (ldltSqrt P L d) * (toM (ldltSqrt P L d))ᵀ = toM Q := by
  rw [ldltSqrt_clamped, ← hQ]
  have : (fun i => max (d i) 0) = fun i => d i := by funext i; exact max_eq_left (hd i)
  rw [this]

/-! ### one step of the simulated trajectory with an additive linear state model -/

theorem addSimStep_eq {n : Nat} (F S : Mat ℝ n n) (stream : Nat → ℝ) (k : Nat) (x : Vec ℝ n) :
    toV (addSimStep F S stream k x)
      = toM F *ᵥ toV x + toM S *ᵥ (fun i : Fin n => stream (k * n + i.val)) := by
  funext i
  simp [addSimStep, addMotion, linPropagate, noiseSample, Rng.draw, fillCM, wnaSample,
    Mat.mul_apply, fsum_eq_sum, Matrix.mulVec, dotProduct]

end BFL.Models
