import BFL.Core.Mat
import BFL.Core.Num
import BFL.Core.GaussJordan
import BFL.Model.KF
