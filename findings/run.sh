#!/bin/sh
# Build findings/repro.cpp against the current sanitizer build of /repo and run every reproduction.
cd "$(dirname "$0")/.."
python3 - <<'PY'
import sys, subprocess
sys.path.insert(0, '.')
import vlib
lib = vlib.build_lib('dbg')
out = vlib.BUILD / 'dbg' / 'h' / 'repro'
out.parent.mkdir(parents=True, exist_ok=True)
cmd = ["g++", "-std=c++11"] + vlib.LIB_FLAGS['dbg'].split() + ["-DEIGEN_INITIALIZE_MATRICES_BY_ZERO", "-I", str(vlib.REPO / "src/BayesFilters/include"), "-I", vlib.EIGEN_INC,
       "findings/repro.cpp", str(lib), "-lpthread", "-o", str(out)]
subprocess.check_call(cmd)
for t in ["c09_teardown_hang", "c13_skip_throws", "c11_particleset_resize", "c11_gm_resize_noise", "c11_concat_components", "c14_wna_noise", "c14_linearmodel_noise", "c16_transition",
          "c14_sim_past_end", "c17_history_shrink", "c12_ut_additive_failure", "c06_sis_layout", "c13_drawparticles_exogenous", "c19_one_column", "c18_log_cutoff", "c14_ukf_stale_likelihood", "c14_grid_state_rows", "c14_sim_zero_length", "c14_rwp_quaternion", "c14_gpf_moved_closure"]:
    p = subprocess.run([str(out), t], stdout=subprocess.PIPE, stderr=subprocess.PIPE, text=True)
    tail = [l for l in p.stderr.split("\n") if "Assertion" in l or "ERROR: AddressSanitizer" in l or "runtime error" in l][:1]
    print("%-26s exit=%-4d %s %s" % (t, p.returncode, p.stdout.strip().replace("\n", " | ")[:300], (tail[0][:200] if tail else "")))
PY
