import BFL.Model.KF
import BFL.Model.KFLik
import BFL.Bridge.Mat
import BFL.Proofs.KF
import BFL.Props.C15
/-
C01 — Kalman correction returns the exact linear-Gaussian Bayes posterior.

Theorems about the model `BFL.kfCorrect` (BFL/Model/KF.lean), over ℝ, for every state
dimension `n`, measurement dimension `m`, number of components `k`, every prior with
positive-definite covariances, every `H` (any rank), every positive-definite `R`, every `y`.

`inv` is the matrix-inverse routine used for the gain (Eigen's `.inverse()` in the code, the
certified Gauss–Jordan routine in the exact execution).  Its only assumed behaviour is the
contract `InvOn inv S`: on the innovation covariance it is applied to, it returns a right
inverse.  The contract is checked exactly on every call the correspondence run observes.
-/
namespace BFL
open Matrix

/-- contract of the inverse routine on one argument -/
def InvOn {m : Nat} (inv : Mat ℝ m m → Mat ℝ m m) (S : Mat ℝ m m) : Prop :=
  toM S * toM (inv S) = 1

variable {n m k : Nat}

theorem toM_kfS (H : Mat ℝ m n) (P : Mat ℝ n n) (R : Mat ℝ m m) :
    toM (kfS H P R) = KFProofs.S (toM P) (toM H) (toM R) := by
  simp [kfS, KFProofs.S]

theorem InvOn.eq {inv : Mat ℝ m m → Mat ℝ m m} {S : Mat ℝ m m} (h : InvOn inv S) :
    toM (inv S) = (toM S)⁻¹ := (Matrix.inv_eq_right_inv h).symm

theorem toM_kfGain (inv : Mat ℝ m m → Mat ℝ m m) (H : Mat ℝ m n) (P : Mat ℝ n n) (R : Mat ℝ m m)
    (hinv : InvOn inv (kfS H P R)) :
    toM (kfGain inv H P R) = KFProofs.K (toM P) (toM H) (toM R) := by
  simp [kfGain, KFProofs.K, hinv.eq, toM_kfS]

theorem toM_kfCorrectCov (inv : Mat ℝ m m → Mat ℝ m m) (H : Mat ℝ m n) (P : Mat ℝ n n) (R : Mat ℝ m m)
    (hinv : InvOn inv (kfS H P R)) :
    toM (kfCorrectCov inv H R P) = KFProofs.Cov (toM P) (toM H) (toM R) := by
  simp only [kfCorrectCov, KFProofs.Cov, toM_sub, toM_mul, toM_transpose, toM_kfGain inv H P R hinv, toM_kfS]

theorem toV_kfCorrectMean (inv : Mat ℝ m m → Mat ℝ m m) (H : Mat ℝ m n) (P : Mat ℝ n n) (R : Mat ℝ m m)
    (y : Vec ℝ m) (x : Vec ℝ n) (hinv : InvOn inv (kfS H P R)) :
    toV (kfCorrectMean inv H R y x P)
      = toV x + (KFProofs.K (toM P) (toM H) (toM R)) *ᵥ (toV y - (toM H) *ᵥ (toV x)) := by
  simp only [kfCorrectMean, kfInnovation, toV_add, toV_mulVec, toV_sub, toM_kfGain inv H P R hinv]

/-- The innovation covariance `H P Hᵀ + R` is positive definite, hence invertible: the inverse
    the code takes is defined.  (`P` only needs to be positive semi-definite here.) -/
theorem kf_S_posDef (H : Mat ℝ m n) (P : Mat ℝ n n) (R : Mat ℝ m m)
    (hP : (toM P).PosSemidef) (hR : (toM R).PosDef) :
    (toM (kfS H P R)).PosDef ∧ IsUnit (toM (kfS H P R)) := by
  rw [toM_kfS]
  exact ⟨KFProofs.S_posDef _ hP hR, (KFProofs.S_posDef _ hP hR).isUnit⟩

/-- Corrected covariance in information form: `(P⁻¹ + Hᵀ R⁻¹ H)⁻¹`, with every inverse defined. -/
theorem kf_cov_information (inv : Mat ℝ m m → Mat ℝ m m) (H : Mat ℝ m n) (P : Mat ℝ n n) (R : Mat ℝ m m)
    (hP : (toM P).PosDef) (hR : (toM R).PosDef) (hinv : InvOn inv (kfS H P R)) :
    toM (kfCorrectCov inv H R P) = ((toM P)⁻¹ + (toM H)ᵀ * (toM R)⁻¹ * toM H)⁻¹
    ∧ IsUnit (toM P) ∧ IsUnit (toM R) ∧ IsUnit ((toM P)⁻¹ + (toM H)ᵀ * (toM R)⁻¹ * toM H) := by
  rw [toM_kfCorrectCov inv H P R hinv]
  obtain ⟨h1, h2⟩ := KFProofs.Cov_information (toM H) hP hR
  exact ⟨h1, hP.isUnit, hR.isUnit, h2⟩

/-- Corrected mean: the gain form `m + K (y − H m)` the code computes, with `K = P Hᵀ S⁻¹`. -/
theorem kf_mean_gain_form (inv : Mat ℝ m m → Mat ℝ m m) (H : Mat ℝ m n) (P : Mat ℝ n n) (R : Mat ℝ m m)
    (y : Vec ℝ m) (x : Vec ℝ n) (hinv : InvOn inv (kfS H P R)) :
    toV (kfCorrectMean inv H R y x P)
      = toV x + (toM P * (toM H)ᵀ * (toM H * toM P * (toM H)ᵀ + toM R)⁻¹) *ᵥ (toV y - (toM H) *ᵥ (toV x)) := by
  rw [toV_kfCorrectMean inv H P R y x hinv]; rfl

/-- Corrected mean in information form: `P⁺ (P⁻¹ m + Hᵀ R⁻¹ y)` — the conjugate posterior mean. -/
theorem kf_mean_information (inv : Mat ℝ m m → Mat ℝ m m) (H : Mat ℝ m n) (P : Mat ℝ n n) (R : Mat ℝ m m)
    (y : Vec ℝ m) (x : Vec ℝ n)
    (hP : (toM P).PosDef) (hR : (toM R).PosDef) (hinv : InvOn inv (kfS H P R)) :
    toV (kfCorrectMean inv H R y x P)
      = (((toM P)⁻¹ + (toM H)ᵀ * (toM R)⁻¹ * toM H)⁻¹) *ᵥ
          ((toM P)⁻¹ *ᵥ toV x + ((toM H)ᵀ * (toM R)⁻¹) *ᵥ toV y) := by
  rw [toV_kfCorrectMean inv H P R y x hinv, KFProofs.mean_information (toM H) hP hR,
    (KFProofs.Cov_information (toM H) hP hR).1]

/-- The corrected covariance is symmetric. -/
theorem kf_cov_symm (inv : Mat ℝ m m → Mat ℝ m m) (H : Mat ℝ m n) (P : Mat ℝ n n) (R : Mat ℝ m m)
    (hP : (toM P).PosSemidef) (hR : (toM R).PosDef) (hinv : InvOn inv (kfS H P R)) :
    (toM (kfCorrectCov inv H R P))ᵀ = toM (kfCorrectCov inv H R P) := by
  rw [toM_kfCorrectCov inv H P R hinv]
  simpa using (KFProofs.Cov_posSemidef (toM H) hP hR).1.eq

/-- The corrected covariance is positive semi-definite (Joseph form), for PSD priors too. -/
theorem kf_cov_posSemidef (inv : Mat ℝ m m → Mat ℝ m m) (H : Mat ℝ m n) (P : Mat ℝ n n) (R : Mat ℝ m m)
    (hP : (toM P).PosSemidef) (hR : (toM R).PosDef) (hinv : InvOn inv (kfS H P R)) :
    (toM (kfCorrectCov inv H R P)).PosSemidef := by
  rw [toM_kfCorrectCov inv H P R hinv]
  exact KFProofs.Cov_posSemidef (toM H) hP hR

/-- The corrected covariance is never larger than the prior: `P − P⁺ ⪰ 0`. -/
theorem kf_cov_le_prior (inv : Mat ℝ m m → Mat ℝ m m) (H : Mat ℝ m n) (P : Mat ℝ n n) (R : Mat ℝ m m)
    (hP : (toM P).PosSemidef) (hR : (toM R).PosDef) (hinv : InvOn inv (kfS H P R)) :
    (toM P - toM (kfCorrectCov inv H R P)).PosSemidef := by
  rw [toM_kfCorrectCov inv H P R hinv]
  exact KFProofs.prior_sub_Cov_posSemidef (toM H) hP hR

/-- Components do not influence one another; the weights of the output mixture are not written. -/
theorem kf_component_independent (inv : Mat ℝ m m → Mat ℝ m m) (H : Mat ℝ m n) (R : Mat ℝ m m) (y : Vec ℝ m)
    (b b' out out' : GM ℝ n k) (i : Fin k) (hm : b.mean i = b'.mean i) (hc : b.cov i = b'.cov i) :
    (kfCorrect inv H R y b out).mean i = (kfCorrect inv H R y b' out').mean i ∧
    (kfCorrect inv H R y b out).cov i = (kfCorrect inv H R y b' out').cov i ∧
    (kfCorrect inv H R y b out).weight = out.weight := by
  simp [kfCorrect, hm, hc]

/-- The whole step, per component: conjugate posterior of component `i`. -/
theorem kf_correct_posterior (inv : Mat ℝ m m → Mat ℝ m m) (H : Mat ℝ m n) (R : Mat ℝ m m) (y : Vec ℝ m)
    (b out : GM ℝ n k) (hR : (toM R).PosDef)
    (hP : ∀ i, (toM (b.cov i)).PosDef) (hinv : ∀ i, InvOn inv (kfS H (b.cov i) R)) (i : Fin k) :
    toM ((kfCorrect inv H R y b out).cov i)
        = ((toM (b.cov i))⁻¹ + (toM H)ᵀ * (toM R)⁻¹ * toM H)⁻¹ ∧
    toV ((kfCorrect inv H R y b out).mean i)
        = (((toM (b.cov i))⁻¹ + (toM H)ᵀ * (toM R)⁻¹ * toM H)⁻¹) *ᵥ
            ((toM (b.cov i))⁻¹ *ᵥ toV (b.mean i) + ((toM H)ᵀ * (toM R)⁻¹) *ᵥ toV y) :=
  ⟨(kf_cov_information inv H (b.cov i) R (hP i) hR (hinv i)).1,
   kf_mean_information inv H (b.cov i) R y (b.mean i) (hP i) hR (hinv i)⟩

/-- The likelihood reported for component `i` (`KFCorrection::getLikelihood`, model `kfLikelihood`:
    the density of the stored innovation under `N(0, S_i)`) is the Gaussian density
    `N(y; H m_i, H P_i Hᵀ + R)`: the same model density evaluated at `y` with mean `H m_i`, and in
    closed form `exp(−½ (m log 2π + log det S + (y − H m)ᵀ S⁻¹ (y − H m)))`, with `det S > 0`
    (the logarithm is defined) and `S` invertible.  `invD` is the inverse routine of the density
    code (contract `InvOK` on `S`). -/
theorem kf_likelihood_eq (invD : InvFn ℝ) (H : Mat ℝ m n) (R : Mat ℝ m m) (y : Vec ℝ m) (b : GM ℝ n k) (i : Fin k)
    (hP : (toM (b.cov i)).PosSemidef) (hR : (toM R).PosDef) (hinv : InvOK invD (kfS H (b.cov i) R)) :
    kfLikelihood invD H R y b i
        = density invD (colBatch y) (H.mulVec (b.mean i)) (kfS H (b.cov i) R) 0 ∧
    0 < (toM (kfS H (b.cov i) R)).det ∧ IsUnit (toM (kfS H (b.cov i) R)) ∧
    kfLikelihood invD H R y b i
        = Real.exp (-(1 / 2) * ((m : ℝ) * Real.log (2 * Real.pi) + Real.log (toM (kfS H (b.cov i) R)).det
            + (toV y - toM H *ᵥ toV (b.mean i)) ⬝ᵥ
                ((toM (kfS H (b.cov i) R))⁻¹ *ᵥ (toV y - toM H *ᵥ toV (b.mean i))))) := by
  have hS := kf_S_posDef H (b.cov i) R hP hR
  have hd1 : dcol (colBatch (kfInnovation H y (b.mean i))) Vec.zero 0 = toV y - toM H *ᵥ toV (b.mean i) := by
    ext j
    have := congrFun (toV_mulVec H (b.mean i)) j
    simp only [toV_apply] at this
    simp [dcol, colBatch, kfInnovation, this]
  have hd2 : dcol (colBatch y) (H.mulVec (b.mean i)) 0 = toV y - toM H *ᵥ toV (b.mean i) := by
    ext j
    have := congrFun (toV_mulVec H (b.mean i)) j
    simp only [toV_apply] at this
    simp [dcol, colBatch, this]
  have e1 : kfLikelihood invD H R y b i
      = Real.exp (logDensity invD (colBatch (kfInnovation H y (b.mean i))) Vec.zero (kfS H (b.cov i) R) 0) := rfl
  have e2 : density invD (colBatch y) (H.mulVec (b.mean i)) (kfS H (b.cov i) R) 0
      = Real.exp (logDensity invD (colBatch y) (H.mulVec (b.mean i)) (kfS H (b.cov i) R) 0) := rfl
  refine ⟨?_, hS.1.det_pos, hS.2, ?_⟩
  · rw [e1, e2, logDensity_formula invD _ _ _ hinv, logDensity_formula invD _ _ _ hinv, hd1, hd2]
  · rw [e1, logDensity_formula invD _ _ _ hinv, hd1]

/-- One step of a Kalman filter history, as far as the covariance is concerned. -/
inductive KFStep (n : Nat) where
  | predict (F Q : Mat ℝ n n)
  | correct (m : Nat) (H : Mat ℝ m n) (R : Mat ℝ m m)

/-- the covariance after one step (`kfPredictCov` / `kfCorrectCov`, the functions tied to the code) -/
noncomputable def kfCovStep (inv : (m : Nat) → Mat ℝ m m → Mat ℝ m m) (P : Mat ℝ n n) : KFStep n → Mat ℝ n n
  | .predict F Q => kfPredictCov F P Q
  | .correct m H R => kfCorrectCov (inv m) H R P

/-- admissible steps: process noise PSD (singular allowed), measurement noise PD -/
def KFStep.OK : KFStep n → Prop
  | .predict _ Q => (toM Q).PosSemidef
  | .correct _ _ R => (toM R).PosDef

/-- History lift: after ANY sequence of predictions and corrections (any length, any models, any
    measurement dimensions, measurements and means play no role) started from a PSD covariance, the
    covariance the filter carries is positive semi-definite and symmetric.  The inverse routine only
    has to invert the matrices that are invertible. -/
theorem kf_history_cov_posSemidef (inv : (m : Nat) → Mat ℝ m m → Mat ℝ m m)
    (hinv : ∀ (m : Nat) (S : Mat ℝ m m), IsUnit (toM S) → InvOn (inv m) S)
    (steps : List (KFStep n)) (P0 : Mat ℝ n n) (hP0 : (toM P0).PosSemidef)
    (hsteps : ∀ s ∈ steps, s.OK) :
    (toM (steps.foldl (kfCovStep inv) P0)).PosSemidef ∧
    (toM (steps.foldl (kfCovStep inv) P0))ᵀ = toM (steps.foldl (kfCovStep inv) P0) := by
  have key : (toM (steps.foldl (kfCovStep inv) P0)).PosSemidef := by
    induction steps generalizing P0 with
    | nil => simpa using hP0
    | cons s rest ih =>
      simp only [List.foldl_cons]
      apply ih
      · cases s with
        | predict F Q =>
          have hQ : (toM Q).PosSemidef := hsteps (.predict F Q) (by simp)
          simp only [kfCovStep]
          have h := hP0.mul_mul_conjTranspose_same (toM F)
          have e : toM (kfPredictCov F P0 Q) = toM F * toM P0 * (toM F)ᵀ + toM Q := by simp [kfPredictCov]
          rw [e]; simpa using h.add hQ
        | correct m H R =>
          have hR : (toM R).PosDef := hsteps (.correct m H R) (by simp)
          simp only [kfCovStep]
          exact kf_cov_posSemidef (inv m) H P0 R hP0 hR (hinv m _ (kf_S_posDef H P0 R hP0 hR).2)
      · intro s' hs'; exact hsteps s' (by simp [hs'])
  exact ⟨key, by simpa using key.1.eq⟩

/-- Non-vacuity: the hypotheses are jointly satisfiable for every PD pair — Mathlib's own inverse
    meets the contract `InvOn` — and a concrete PD instance exists (n = m = 1, P = 2, R = 3). -/
theorem invOn_mathlib_inv (H : Mat ℝ m n) (P : Mat ℝ n n) (R : Mat ℝ m m)
    (hP : (toM P).PosSemidef) (hR : (toM R).PosDef) :
    InvOn (fun S => Mat.of (fun i j => ((toM S)⁻¹) i j)) (kfS H P R) := by
  unfold InvOn
  have hu := (kf_S_posDef H P R hP hR).2
  have : toM (Mat.of (fun i j => ((toM (kfS H P R))⁻¹) i j)) = (toM (kfS H P R))⁻¹ := rfl
  rw [this, Matrix.mul_nonsing_inv _ ((Matrix.isUnit_iff_isUnit_det _).1 hu)]

example : ∃ (P R : Mat ℝ 1 1), (toM P).PosDef ∧ (toM R).PosDef := by
  refine ⟨Mat.of (fun _ _ => 2), Mat.of (fun _ _ => 3), ?_, ?_⟩
  · have : toM (Mat.of (fun _ _ => 2) : Mat ℝ 1 1) = (2 : ℝ) • (1 : Matrix (Fin 1) (Fin 1) ℝ) := by
      ext i j; simp [toM, Subsingleton.elim i j]
    rw [this]; exact Matrix.PosDef.one.smul (by norm_num)
  · have : toM (Mat.of (fun _ _ => 3) : Mat ℝ 1 1) = (3 : ℝ) • (1 : Matrix (Fin 1) (Fin 1) ℝ) := by
      ext i j; simp [toM, Subsingleton.elim i j]
    rw [this]; exact Matrix.PosDef.one.smul (by norm_num)

end BFL
