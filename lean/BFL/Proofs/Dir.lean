import BFL.Model.Dir
import BFL.Bridge.Mat
import BFL.Bridge.Transc
import Mathlib.Analysis.SpecialFunctions.Complex.Arg
import Mathlib.Algebra.Order.ToIntervalMod
import Mathlib.Analysis.Real.Pi.Bounds
import Mathlib.Analysis.SpecialFunctions.Trigonometric.Bounds
/-
Helper lemmas for C19 (directional statistics) over ℝ.

`wrap θ = arg (exp (θ i))`, the mean of the multi-column branch is `arg` of the weighted resultant
`Σ_k w_k exp(a_ik i)`; everything else is the algebra of `Complex.arg`, `Real.Angle`, `toIocMod`.
-/
namespace BFL.Dir
open Real

/-- `(cos θ, sin θ)` is `exp(θ i)` -/
theorem mk_cos_sin (θ : ℝ) : (⟨Real.cos θ, Real.sin θ⟩ : ℂ) = Complex.exp (θ * Complex.I) := by
  apply Complex.ext
  · simp [Complex.exp_ofReal_mul_I_re]
  · simp [Complex.exp_ofReal_mul_I_im]

theorem wrap_eq_arg (θ : ℝ) : wrap θ = Complex.arg (Complex.exp (θ * Complex.I)) := by
  simp only [wrap, transc_atan2, transc_sin, transc_cos, mk_cos_sin]

theorem wrap_toIocMod (θ : ℝ) : wrap θ = toIocMod Real.two_pi_pos (-π) θ := by
  rw [wrap_eq_arg, Complex.arg_exp_mul_I]

theorem wrap_mem (θ : ℝ) : wrap θ ∈ Set.Ioc (-π) π := by
  rw [wrap_eq_arg]; exact Complex.arg_mem_Ioc _

theorem wrap_congr (θ : ℝ) : ∃ k : ℤ, wrap θ = θ + k * (2 * π) := by
  refine ⟨-toIocDiv Real.two_pi_pos (-π) θ, ?_⟩
  have h := toIocMod_sub_self Real.two_pi_pos (-π) θ
  rw [wrap_toIocMod]
  have h2 : toIocMod Real.two_pi_pos (-π) θ = θ + -toIocDiv Real.two_pi_pos (-π) θ • (2 * π) := by
    linarith
  rw [h2, zsmul_eq_mul]

theorem wrap_add_int (θ : ℝ) (k : ℤ) : wrap (θ + k * (2 * π)) = wrap θ := by
  rw [wrap_toIocMod, wrap_toIocMod, ← zsmul_eq_mul, toIocMod_add_zsmul]

theorem wrap_of_mem {θ : ℝ} (h : θ ∈ Set.Ioc (-π) π) : wrap θ = θ := by
  rw [wrap_toIocMod, toIocMod_eq_self]
  have : -π + 2 * π = π := by ring
  rwa [this]

theorem wrap_as_angle (θ : ℝ) : wrap θ = (θ : Real.Angle).toReal := by
  rw [wrap_toIocMod, Real.Angle.toReal_coe]

/-- congruent arguments wrap to the same value -/
theorem wrap_eq_of_congr {θ ψ : ℝ} (h : ∃ k : ℤ, ψ = θ + k * (2 * π)) : wrap ψ = wrap θ := by
  obtain ⟨k, rfl⟩ := h
  exact wrap_add_int θ k

/-! ### the weighted resultant -/

/-- `Σ_k w_k exp(a_ik i)`: the weighted resultant of the unit phasors of row `i` -/
noncomputable def resultant {r c : Nat} (a : Mat ℝ r c) (w : Vec ℝ c) (i : Fin r) : ℂ :=
  ∑ k, (w k : ℂ) * Complex.exp ((a i k : ℂ) * Complex.I)

variable {r c : Nat}

theorem resRe_eq (a : Mat ℝ r c) (w : Vec ℝ c) (i : Fin r) : resRe a w i = (resultant a w i).re := by
  simp only [resRe, resultant, fsum_eq_sum, Complex.re_sum, transc_cos, Complex.re_ofReal_mul,
    Complex.exp_ofReal_mul_I_re]
  exact Finset.sum_congr rfl (fun k _ => mul_comm _ _)

theorem resIm_eq (a : Mat ℝ r c) (w : Vec ℝ c) (i : Fin r) : resIm a w i = (resultant a w i).im := by
  simp only [resIm, resultant, fsum_eq_sum, Complex.im_sum, transc_sin, Complex.im_ofReal_mul,
    Complex.exp_ofReal_mul_I_im]
  exact Finset.sum_congr rfl (fun k _ => mul_comm _ _)

/-- multi-column branch: the mean is the argument of the resultant -/
theorem dirMean_multi (a : Mat ℝ r c) (w : Vec ℝ c) (i : Fin r) (hc : c ≠ 1) :
    dirMean a w i = Complex.arg (resultant a w i) := by
  unfold dirMean
  rw [dif_neg hc]
  simp only [Vec.of_apply, transc_atan2, resRe_eq, resIm_eq, Complex.eta]

/-- one-column branch: the column, wrapped (the weight is not read) -/
theorem dirMean_one (a : Mat ℝ r 1) (w : Vec ℝ 1) (i : Fin r) : dirMean a w i = wrap (a i 0) := by
  unfold dirMean
  rw [dif_pos rfl]
  rfl

theorem resultant_one (a : Mat ℝ r 1) (w : Vec ℝ 1) (i : Fin r) :
    resultant a w i = (w 0 : ℂ) * Complex.exp ((a i 0 : ℂ) * Complex.I) := by
  simp [resultant]

theorem exp_shift (θ : ℝ) (k : ℤ) :
    Complex.exp (((θ + k * (2 * π) : ℝ) : ℂ) * Complex.I) = Complex.exp ((θ : ℂ) * Complex.I) := by
  have : ((θ + k * (2 * π) : ℝ) : ℂ) * Complex.I = (θ : ℂ) * Complex.I + k * (2 * π * Complex.I) := by
    push_cast; ring
  rw [this, Complex.exp_add, Complex.exp_int_mul_two_pi_mul_I, mul_one]

/-- 2π shifts of any sample leave the resultant unchanged -/
theorem resultant_shift (a a' : Mat ℝ r c) (w : Vec ℝ c) (i : Fin r)
    (h : ∀ k, ∃ n : ℤ, a' i k = a i k + n * (2 * π)) : resultant a' w i = resultant a w i := by
  unfold resultant
  refine Finset.sum_congr rfl (fun k _ => ?_)
  obtain ⟨n, hn⟩ := h k
  rw [hn, exp_shift]

/-- a common rotation of the samples of row `i` rotates the resultant -/
theorem resultant_rotate (a : Mat ℝ r c) (d : Vec ℝ r) (w : Vec ℝ c) (i : Fin r) :
    resultant (Mat.of (fun i k => a i k + d i)) w i
      = Complex.exp ((d i : ℂ) * Complex.I) * resultant a w i := by
  unfold resultant
  rw [Finset.mul_sum]
  refine Finset.sum_congr rfl (fun k _ => ?_)
  simp only [Mat.of_apply]
  have : ((a i k + d i : ℝ) : ℂ) * Complex.I = (d i : ℂ) * Complex.I + (a i k : ℂ) * Complex.I := by
    push_cast; ring
  rw [this, Complex.exp_add]; ring

/-- `arg (exp(d i) z) = wrap (arg z + d)` for `z ≠ 0` -/
theorem arg_rotate (d : ℝ) {z : ℂ} (hz : z ≠ 0) :
    Complex.arg (Complex.exp ((d : ℂ) * Complex.I) * z) = wrap (Complex.arg z + d) := by
  have he : Complex.exp ((d : ℂ) * Complex.I) ≠ 0 := Complex.exp_ne_zero _
  have h := Complex.arg_mul_coe_angle he hz
  rw [Complex.arg_exp_mul_I, Real.Angle.coe_toIocMod] at h
  rw [wrap_as_angle, ← Complex.arg_coe_angle_toReal_eq_arg (Complex.exp _ * z), h,
    Real.Angle.coe_add, add_comm]

/-- all samples equal: the resultant is `(Σ w) exp(θ i)` -/
theorem resultant_const (a : Mat ℝ r c) (w : Vec ℝ c) (i : Fin r) (θ : ℝ) (h : ∀ k, a i k = θ) :
    resultant a w i = ((∑ k, w k : ℝ) : ℂ) * Complex.exp ((θ : ℂ) * Complex.I) := by
  unfold resultant
  rw [Complex.ofReal_sum, Finset.sum_mul]
  exact Finset.sum_congr rfl (fun k _ => by rw [h k])

/-! ### samples clustered in an arc shorter than a half turn -/

/-- core of `mean_in_arc`: a positive combination of phasors with angles in `[-δ, δ]`, `δ < π/2`,
    is non-zero and its argument lies in `[-δ, δ]`. -/
theorem arg_pos_comb_le {c : Nat} (hc : 0 < c) (w d : Fin c → ℝ) (δ : ℝ) (hδ : δ < π / 2)
    (hw : ∀ k, 0 < w k) (hd : ∀ k, |d k| ≤ δ) :
    let S : ℂ := ∑ k, (w k : ℂ) * Complex.exp ((d k : ℂ) * Complex.I)
    S ≠ 0 ∧ |Complex.arg S| ≤ δ := by
  intro S
  have : Nonempty (Fin c) := ⟨⟨0, hc⟩⟩
  have hδ0 : 0 ≤ δ := le_trans (abs_nonneg _) (hd ⟨0, hc⟩)
  have hre : S.re = ∑ k, w k * Real.cos (d k) := by
    simp only [S, Complex.re_sum, Complex.re_ofReal_mul, Complex.exp_ofReal_mul_I_re]
  have him : S.im = ∑ k, w k * Real.sin (d k) := by
    simp only [S, Complex.im_sum, Complex.im_ofReal_mul, Complex.exp_ofReal_mul_I_im]
  have hcos : ∀ k, 0 < Real.cos (d k) := fun k =>
    Real.cos_pos_of_mem_Ioo ⟨by linarith [neg_abs_le (d k), hd k], by linarith [le_abs_self (d k), hd k]⟩
  have hx : 0 < S.re := by
    rw [hre]
    exact Finset.sum_pos (fun k _ => mul_pos (hw k) (hcos k)) Finset.univ_nonempty
  have hS : S ≠ 0 := fun h => by rw [h] at hx; simp at hx
  refine ⟨hS, ?_⟩
  have hn : 0 < ‖S‖ := norm_pos_iff.mpr hS
  have hφ : |Complex.arg S| < π / 2 := Complex.abs_arg_lt_pi_div_two_iff.mpr (Or.inl hx)
  have hφ1 := (abs_lt.mp hφ).1
  have hφ2 := (abs_lt.mp hφ).2
  have hcφ : Real.cos (Complex.arg S) = S.re / ‖S‖ := Complex.cos_arg hS
  have hsφ : Real.sin (Complex.arg S) = S.im / ‖S‖ := Complex.sin_arg S
  -- sin(δ - φ) ≥ 0 and sin(δ + φ) ≥ 0
  have key1 : 0 ≤ Real.sin (δ - Complex.arg S) := by
    rw [Real.sin_sub, hcφ, hsφ]
    have : Real.sin δ * (S.re / ‖S‖) - Real.cos δ * (S.im / ‖S‖)
        = (∑ k, w k * Real.sin (δ - d k)) / ‖S‖ := by
      rw [hre, him]
      have : ∑ k, w k * Real.sin (δ - d k)
          = Real.sin δ * ∑ k, w k * Real.cos (d k) - Real.cos δ * ∑ k, w k * Real.sin (d k) := by
        rw [Finset.mul_sum, Finset.mul_sum, ← Finset.sum_sub_distrib]
        exact Finset.sum_congr rfl (fun k _ => by rw [Real.sin_sub]; ring)
      rw [this]; ring
    rw [this]
    refine div_nonneg (Finset.sum_nonneg (fun k _ => mul_nonneg (hw k).le ?_)) hn.le
    exact Real.sin_nonneg_of_nonneg_of_le_pi (by linarith [le_abs_self (d k), hd k])
      (by linarith [neg_abs_le (d k), hd k])
  have key2 : 0 ≤ Real.sin (δ + Complex.arg S) := by
    rw [Real.sin_add, hcφ, hsφ]
    have : Real.sin δ * (S.re / ‖S‖) + Real.cos δ * (S.im / ‖S‖)
        = (∑ k, w k * Real.sin (δ + d k)) / ‖S‖ := by
      rw [hre, him]
      have : ∑ k, w k * Real.sin (δ + d k)
          = Real.sin δ * ∑ k, w k * Real.cos (d k) + Real.cos δ * ∑ k, w k * Real.sin (d k) := by
        rw [Finset.mul_sum, Finset.mul_sum, ← Finset.sum_add_distrib]
        exact Finset.sum_congr rfl (fun k _ => by rw [Real.sin_add]; ring)
      rw [this]; ring
    rw [this]
    refine div_nonneg (Finset.sum_nonneg (fun k _ => mul_nonneg (hw k).le ?_)) hn.le
    exact Real.sin_nonneg_of_nonneg_of_le_pi (by linarith [neg_abs_le (d k), hd k])
      (by linarith [le_abs_self (d k), hd k])
  rw [abs_le]
  constructor
  · by_contra hlt
    rw [not_le] at hlt
    have : Real.sin (δ + Complex.arg S) < 0 :=
      Real.sin_neg_of_neg_of_neg_pi_lt (by linarith) (by linarith)
    linarith
  · by_contra hlt
    rw [not_le] at hlt
    have : Real.sin (δ - Complex.arg S) < 0 :=
      Real.sin_neg_of_neg_of_neg_pi_lt (by linarith) (by linarith)
    linarith

/-- samples of row `i` within `δ < π/2` of a centre `m` (as angles): the resultant is non-zero and
    its argument lies within `δ` of `m` (as an angle). -/
theorem resultant_in_arc (a : Mat ℝ r c) (w : Vec ℝ c) (i : Fin r) (hc : 0 < c) (m δ : ℝ) (hδ : δ < π / 2)
    (hw : ∀ k, 0 < w k) (ha : ∀ k, ∃ n : ℤ, |a i k - m - n * (2 * π)| ≤ δ) :
    resultant a w i ≠ 0 ∧ ∃ n : ℤ, |Complex.arg (resultant a w i) - m - n * (2 * π)| ≤ δ := by
  choose n hn using ha
  let d : Fin c → ℝ := fun k => a i k - m - n k * (2 * π)
  have hS := arg_pos_comb_le hc (fun k => w k) d δ hδ hw hn
  simp only at hS
  set S : ℂ := ∑ k, (w k : ℂ) * Complex.exp ((d k : ℂ) * Complex.I) with hSdef
  have hR : resultant a w i = Complex.exp ((m : ℂ) * Complex.I) * S := by
    unfold resultant
    rw [hSdef, Finset.mul_sum]
    refine Finset.sum_congr rfl (fun k _ => ?_)
    have h1 : a i k = (d k + m) + n k * (2 * π) := by simp only [d]; ring
    have h2 : Complex.exp ((a i k : ℂ) * Complex.I) = Complex.exp (((d k + m : ℝ) : ℂ) * Complex.I) := by
      rw [h1, exp_shift]
    have h3 : ((d k + m : ℝ) : ℂ) * Complex.I = (m : ℂ) * Complex.I + (d k : ℂ) * Complex.I := by
      push_cast; ring
    rw [h2, h3, Complex.exp_add]; ring
  have hne : resultant a w i ≠ 0 := by
    rw [hR]; exact mul_ne_zero (Complex.exp_ne_zero _) hS.1
  refine ⟨hne, ?_⟩
  rw [hR, arg_rotate m hS.1]
  obtain ⟨k, hk⟩ := wrap_congr (Complex.arg S + m)
  refine ⟨k, ?_⟩
  rw [hk]
  have : Complex.arg S + m + k * (2 * π) - m - k * (2 * π) = Complex.arg S := by ring
  rw [this]
  exact hS.2

/-! ### conditioning of the argument of a short resultant -/

/-- `|sin(arg u)| ≤ |u − 1|` for `u ≠ 0` (the disc of radius `ρ` about `1` subtends the angle `arcsin ρ`) -/
theorem abs_sin_arg_le (u : ℂ) (hu : u ≠ 0) : |Real.sin (Complex.arg u)| ≤ ‖u - 1‖ := by
  have hn : 0 < ‖u‖ := norm_pos_iff.mpr hu
  rw [Complex.sin_arg, abs_div, abs_of_pos hn, div_le_iff₀ hn]
  apply abs_le_of_sq_le_sq _ (by positivity)
  have h1 : ‖u - 1‖ ^ 2 = (u.re - 1) ^ 2 + u.im ^ 2 := by
    rw [Complex.sq_norm, Complex.normSq_apply]; simp; ring
  have h2 : ‖u‖ ^ 2 = u.re ^ 2 + u.im ^ 2 := by
    rw [Complex.sq_norm, Complex.normSq_apply]; ring
  rw [mul_pow, h1, h2]
  nlinarith [sq_nonneg ((u.re - 1) * u.re + u.im ^ 2)]

/-- a perturbation `e` of a complex number `z`, `|e| < |z|`, moves its argument (as an angle) by at
    most `(π/2) |e| / |z|` -/
theorem arg_perturb (z e : ℂ) (hz : z ≠ 0) (he : ‖e‖ < ‖z‖) :
    ∃ n : ℤ, |Complex.arg (z + e) - Complex.arg z - n * (2 * π)| ≤ π / 2 * (‖e‖ / ‖z‖) := by
  have hzn : 0 < ‖z‖ := norm_pos_iff.mpr hz
  set u : ℂ := 1 + e / z with hu
  have hzu : z + e = z * u := by rw [hu]; field_simp
  have hu1 : ‖u - 1‖ = ‖e‖ / ‖z‖ := by rw [hu]; simp
  have hρ : ‖e‖ / ‖z‖ < 1 := (div_lt_one hzn).mpr he
  have hre : 0 < u.re := by
    have : -(u - 1).re ≤ ‖u - 1‖ := by
      have := Complex.abs_re_le_norm (u - 1)
      linarith [neg_abs_le (u - 1).re, neg_le_abs (u - 1).re]
    simp only [Complex.sub_re, Complex.one_re] at this
    linarith
  have hune : u ≠ 0 := fun h => by rw [h] at hre; simp at hre
  have hφ : |Complex.arg u| < π / 2 := Complex.abs_arg_lt_pi_div_two_iff.mpr (Or.inl hre)
  -- Jordan's inequality
  have hj : 2 / π * |Complex.arg u| ≤ |Real.sin (Complex.arg u)| := by
    have h := Real.mul_le_sin (abs_nonneg (Complex.arg u)) hφ.le
    have hs : Real.sin |Complex.arg u| = |Real.sin (Complex.arg u)| := by
      rcases abs_cases (Complex.arg u) with ⟨h1, h2⟩ | ⟨h1, h2⟩
      · rw [h1, abs_of_nonneg (Real.sin_nonneg_of_nonneg_of_le_pi h2 (by linarith [abs_lt.mp hφ, Real.pi_pos]))]
      · rw [h1, Real.sin_neg, abs_of_neg (Real.sin_neg_of_neg_of_neg_pi_lt h2 (by linarith [abs_lt.mp hφ, Real.pi_pos]))]
    rw [hs] at h; exact h
  have hbound : |Complex.arg u| ≤ π / 2 * (‖e‖ / ‖z‖) := by
    have h3 := le_trans hj (abs_sin_arg_le u hune)
    rw [hu1] at h3
    have hpi := Real.pi_pos
    have : |Complex.arg u| = π / 2 * (2 / π * |Complex.arg u|) := by field_simp
    rw [this]
    exact mul_le_mul_of_nonneg_left h3 (by positivity)
  have hang := Complex.arg_mul_coe_angle hz hune
  rw [← Real.Angle.coe_add, Real.Angle.angle_eq_iff_two_pi_dvd_sub] at hang
  obtain ⟨k, hk⟩ := hang
  refine ⟨k, ?_⟩
  rw [hzu]
  have : Complex.arg (z * u) - Complex.arg z - k * (2 * π) = Complex.arg u := by linarith
  rw [this]; exact hbound

/-- the resultant moves by at most `Σ |w_k| |a'_k − a_k|` when the samples move -/
theorem resultant_perturb (a a' : Mat ℝ r c) (w : Vec ℝ c) (i : Fin r) :
    ‖resultant a' w i - resultant a w i‖ ≤ ∑ k, |w k| * |a' i k - a i k| := by
  unfold resultant
  rw [← Finset.sum_sub_distrib]
  refine le_trans (norm_sum_le _ _) (Finset.sum_le_sum (fun k _ => ?_))
  rw [← mul_sub, norm_mul, Complex.norm_real, Real.norm_eq_abs]
  apply mul_le_mul_of_nonneg_left _ (abs_nonneg _)
  have h : Complex.exp ((a' i k : ℂ) * Complex.I) - Complex.exp ((a i k : ℂ) * Complex.I)
      = Complex.exp ((a i k : ℂ) * Complex.I) * (Complex.exp (Complex.I * ((a' i k - a i k : ℝ) : ℂ)) - 1) := by
    rw [mul_sub, mul_one, ← Complex.exp_add]
    congr 2; push_cast; ring
  rw [h, norm_mul, Complex.norm_exp_ofReal_mul_I, one_mul]
  exact Real.norm_exp_I_mul_ofReal_sub_one_le

/-! ### permutation, scaling, chunks, and the half-turn pair -/

theorem resultant_perm (a a' : Mat ℝ r c) (w w' : Vec ℝ c) (i : Fin r) (σ : Equiv.Perm (Fin c))
    (ha : ∀ k, a' i k = a i (σ k)) (hw : ∀ k, w' k = w (σ k)) : resultant a' w' i = resultant a w i := by
  unfold resultant
  rw [← Equiv.sum_comp σ (fun k => (w k : ℂ) * Complex.exp ((a i k : ℂ) * Complex.I))]
  exact Finset.sum_congr rfl (fun k _ => by rw [ha k, hw k])

theorem resultant_scale (a : Mat ℝ r c) (w : Vec ℝ c) (i : Fin r) (s : ℝ) :
    resultant a (Vec.of (fun k => s * w k)) i = (s : ℂ) * resultant a w i := by
  unfold resultant
  rw [Finset.mul_sum]
  exact Finset.sum_congr rfl (fun k _ => by simp only [Vec.of_apply]; push_cast; ring)

theorem resultant_append {c₁ c₂ : Nat} (a : Mat ℝ r (c₁ + c₂)) (w : Vec ℝ (c₁ + c₂)) (i : Fin r) :
    resultant a w i =
      resultant (Mat.of (fun i k => a i (Fin.castAdd c₂ k))) (Vec.of (fun k => w (Fin.castAdd c₂ k))) i +
      resultant (Mat.of (fun i k => a i (Fin.natAdd c₁ k))) (Vec.of (fun k => w (Fin.natAdd c₁ k))) i := by
  unfold resultant
  rw [Fin.sum_univ_add]
  simp only [Mat.of_apply, Vec.of_apply]

/-- the pair `π ± δ` with weights `1/2`, `π/2 ≤ δ < π`: the mean is `0` -/
theorem half_turn_pair_mean (δ : ℝ) (h1 : π / 2 ≤ δ) (h2 : δ < π) :
    dirMean (Mat.of (fun _ k => if k = 0 then π + δ else π - δ) : Mat ℝ 1 2) (Vec.of (fun _ => 1 / 2)) 0 = 0 := by
  rw [dirMean_multi _ _ _ (by decide)]
  have hres : resultant (Mat.of (fun _ k => if k = 0 then π + δ else π - δ) : Mat ℝ 1 2) (Vec.of (fun _ => 1 / 2)) 0
      = ((-Real.cos δ : ℝ) : ℂ) := by
    have e1 : Complex.exp (((π + δ : ℝ) : ℂ) * Complex.I) = ⟨-Real.cos δ, -Real.sin δ⟩ := by
      rw [← mk_cos_sin, Real.cos_add, Real.sin_add]; simp
    have e2 : Complex.exp (((π - δ : ℝ) : ℂ) * Complex.I) = ⟨-Real.cos δ, Real.sin δ⟩ := by
      rw [← mk_cos_sin, Real.cos_sub, Real.sin_sub]; simp
    unfold resultant
    rw [Fin.sum_univ_two]
    simp only [Mat.of_apply, Vec.of_apply, if_true, Fin.one_eq_zero_iff, OfNat.ofNat_ne_one, if_false]
    rw [e1, e2]
    apply Complex.ext
    · rw [Complex.ofReal_re]; simp; ring
    · rw [Complex.ofReal_im]; simp
  rw [hres]
  have hcos : Real.cos δ ≤ 0 := Real.cos_nonpos_of_pi_div_two_le_of_le h1 (by linarith [Real.pi_pos])
  exact Complex.arg_ofReal_of_nonneg (by linarith)

end BFL.Dir
