import BFL.Model.UT
import BFL.Model.KFHist
/-
Model of an unscented Kalman filter *history* on a linear-Gaussian model: the composition a
`GaussianFilter` runs in its `filtering_step` (test/test_UKF/main.cpp)

    prediction().predict(corrected_state_, predicted_state_);
    correction().freeze_measurements();
    correction().correct(predicted_state_, corrected_state_);

with `UKFPrediction` + `UKFCorrection`, each step in the additive variant (noise declared additive:
`x' = F x + u + w`, `y = H x + v`) or in the augmented variant (noise enters through the model:
`x' = F x + G w + u`, `y = H x + D v`), and the same history as the Kalman filter sees it
(`KFPrediction` + `KFCorrection`, `Model/KFHist.lean`, effective noises `G Q Gᵀ`, `D R Dᵀ`).
-/
namespace BFL

/-- process noise of one step: declared additive, or entering through a noise-input matrix -/
inductive LGNoise (α : Type) (n : Nat) where
  | additive (Q : Mat α n n)
  | augmented (nz : Nat) (G : Mat α n nz) (Q : Mat α nz nz)

/-- the measurement side of one step -/
structure LGMeas (α : Type) (n : Nat) where
  m : Nat
  H : Mat α m n
  y : Vec α m
  noise : LGNoise α m

/-- one filtering step of a linear-Gaussian history -/
structure LGStep (α : Type) (n : Nat) where
  F : Mat α n n
  u : Option (Vec α n)
  noise : LGNoise α n
  skipPred : Bool
  skipState : Bool
  meas : Option (LGMeas α n)
  skipCorr : Bool

section
variable {α : Type} [Add α] [Sub α] [Mul α] [Div α] [Neg α] [Zero α] [NatCast α] [Inhabited α] {n k : Nat}

/-- the noise covariance the Kalman filter is given: `Q`, resp. `G Q Gᵀ` -/
def LGNoise.eff : LGNoise α n → Mat α n n
  | .additive Q => Q
  | .augmented _ G Q => (G.mul Q).mul G.transpose

def LGMeas.toKF (z : LGMeas α n) : KFMeas α n := { m := z.m, H := z.H, R := z.noise.eff, y := z.y }

/-- the history as the Kalman filter sees it (constant exogenous input) -/
def LGStep.toKF (s : LGStep α n) : KFHStep α n :=
  { F := s.F, Q := s.noise.eff, exo := s.u.map (fun u _ => u), skipPred := s.skipPred, skipState := s.skipState,
    skipExo := false, meas := s.meas.map LGMeas.toKF, skipCorr := s.skipCorr }

def LGStep.offset (s : LGStep α n) : Vec α n := s.u.getD Vec.zero

/-- `predicted_state_`, `corrected_state_` of the unscented filter -/
structure UKFFilter (α : Type) (n k : Nat) where
  pred : GM α n k
  corr : GM α n k

/-- `UKFPrediction::predictStep` on the step's model (additive or generic constructor) -/
def ukfHistPredictStep (fac : (d : Nat) → α → Mat α d d → Mat α d d) (alpha beta kappa : α)
    (s : LGStep α n) (prev : GM α n k) : GM α n k :=
  match s.noise with
  | .additive Q => ukfPredictAdditive (fac n) alpha beta kappa s.skipState (affineMap s.F s.offset) Q prev
  | .augmented nz G Q => ukfPredictAugmented (fac (n + nz)) alpha beta kappa s.skipState (affineMap (hcat s.F G) s.offset) Q prev

/-- `UKFCorrection::correctStep` on the step's measurement model; without a measurement the predicted
    belief is returned (first early return of `correctStep`) -/
def ukfHistCorrectStep (fac : (d : Nat) → α → Mat α d d → Mat α d d) (inv : (m : Nat) → Mat α m m → Mat α m m)
    (alpha beta kappa : α) (s : LGStep α n) (pred out : GM α n k) : GM α n k :=
  match s.meas with
  | none => pred
  | some z =>
    match z.noise with
    | .additive R =>
      (ukfCorrectAdditive (fac n) (inv z.m) alpha beta kappa (some z.y)
        (fun X => some (affineMap z.H Vec.zero X)) R linearInnovation pred out).belief
    | .augmented nz D R =>
      (ukfCorrectAugmented (fac (n + nz)) (inv z.m) alpha beta kappa (some z.y)
        (fun X => some (affineMap (hcat z.H D) Vec.zero X)) R linearInnovation pred out).belief

/-- one `filtering_step` of the unscented filter -/
def ukfFilterStep (fac : (d : Nat) → α → Mat α d d → Mat α d d) (inv : (m : Nat) → Mat α m m → Mat α m m)
    (alpha beta kappa : α) (st : UKFFilter α n k) (s : LGStep α n) : UKFFilter α n k :=
  let p := gaussianPredict s.skipPred st.corr (ukfHistPredictStep fac alpha beta kappa s st.corr)
  { pred := p
    corr := if s.skipCorr then p else ukfHistCorrectStep fac inv alpha beta kappa s p st.corr }

def ukfFilterRun (fac : (d : Nat) → α → Mat α d d → Mat α d d) (inv : (m : Nat) → Mat α m m → Mat α m m)
    (alpha beta kappa : α) (st : UKFFilter α n k) (steps : List (LGStep α n)) : UKFFilter α n k :=
  steps.foldl (ukfFilterStep fac inv alpha beta kappa) st

end
end BFL
