// Reproductions of the genuine defects found in bayes-filters-lib (DESIGN.md section 9), each as
// a sub-command run against the real library.  Exit 0 = behaviour conforms to the property,
// exit 1 = defect reproduced (prints what was observed), sanitizer/assertion abort = defect.
// Built and run by findings/run.sh; not part of the registered checks (which detect the same
// defects through the model correspondence), kept as the demonstration "against the real code".
#include <BayesFilters/FilteringAlgorithm.h>
#include <BayesFilters/KFPrediction.h>
#include <BayesFilters/LTIStateModel.h>
#include <BayesFilters/ParticleSet.h>
#include <BayesFilters/GaussianMixture.h>
#include <BayesFilters/WhiteNoiseAcceleration.h>
#include <BayesFilters/LinearModel.h>
#include <BayesFilters/SimulatedStateModel.h>
#include <BayesFilters/HistoryBuffer.h>
#include <BayesFilters/EstimatesExtraction.h>
#include <BayesFilters/sigma_point.h>
#include <BayesFilters/SIS.h>
#include <BayesFilters/Resampling.h>
#include <BayesFilters/BootstrapCorrection.h>
#include <BayesFilters/DrawParticles.h>
#include <BayesFilters/directional_statistics.h>
#include <BayesFilters/InitSurveillanceAreaGrid.h>
#include <BayesFilters/ResamplingWithPrior.h>
#include <BayesFilters/GPFCorrection.h>
#include <BayesFilters/KFCorrection.h>
#include <BayesFilters/UKFCorrection.h>
#include <BayesFilters/LTIMeasurementModel.h>
#include <BayesFilters/utils.h>
#include <atomic>
#include <chrono>
#include <cstdio>
#include <cstring>
#include <thread>
#include <unistd.h>
using namespace bfl; using namespace Eigen;

struct Idle : public FilteringAlgorithm {
    bool skip(const std::string&, const bool) override { return false; }
    bool initialization_step() override { return true; }
    void filtering_step() override {}
    bool run_condition() override { return true; }
};

struct HState : public LTIStateModel {
    HState(const MatrixXd& F, const MatrixXd& Q) : LTIStateModel(F, Q) {}
    VectorDescription getStateDescription() override { return VectorDescription(getStateTransitionMatrix().rows()); }
};

static int c09_teardown_hang() {
    Idle f; f.boot();
    std::this_thread::sleep_for(std::chrono::milliseconds(100));   // let the thread park in the wait
    f.teardown();
    std::atomic<bool> done(false);
    std::thread wd([&] { for (int i = 0; i < 30 && !done; ++i) std::this_thread::sleep_for(std::chrono::milliseconds(100));
                         if (!done) { std::printf("C09: boot -> teardown -> wait did not return within 3 s (thread parked in the condition wait, never notified)\n"); std::fflush(stdout); _exit(1); } });
    f.wait(); done = true; wd.join();
    std::printf("C09: wait returned after teardown\n"); return 0;
}

static int c13_skip_throws() {
    KFPrediction p(std::unique_ptr<LinearStateModel>(new HState(MatrixXd::Identity(2, 2), MatrixXd::Identity(2, 2))));
    int bad = 0;
    for (const char* name : {"prediction", "state"}) {
        try { bool r = p.skip(name, true); if (!r) { std::printf("C13: skip(%s) returned false\n", name); bad = 1; } p.skip(name, false); }
        catch (const std::exception& e) { std::printf("C13: skip(\"%s\", true) without exogenous model threw (is_skipping now %d)\n", name, (int)p.is_skipping()); bad = 1; }
    }
    if (!bad) std::printf("C13: skip commands accepted without exogenous model\n");
    return bad;
}

static int c11_particleset_resize() {
    ParticleSet p(3, 2, 1); p.resize(3, 2, 2);
    bool ok1 = (p.dim == 4 && p.dim_circular == 2 && p.state().rows() == 4 && p.mean().rows() == 4);
    ParticleSet q(3, 2, 1); q.resize(3, 2, 0);
    bool ok2 = (q.dim == 2 && q.dim_circular == 0 && q.state().rows() == 2 && q.mean().rows() == 2);
    std::printf("C11: ParticleSet(3,2,1).resize(3,2,2): dim=%zu dim_circular=%zu state rows=%ld mean rows=%ld; .resize(3,2,0): dim=%zu state rows=%ld mean rows=%ld\n",
                p.dim, p.dim_circular, (long)p.state().rows(), (long)p.mean().rows(), q.dim, (long)q.state().rows(), (long)q.mean().rows());
    return (ok1 && ok2) ? 0 : 1;
}

static int c11_gm_resize_noise() {
    GaussianMixture g(2, 2, 0); g.augmentWithNoise(MatrixXd::Identity(1, 1)); g.resize(3, 2, 0);
    bool ok1 = (g.dim == g.dim_linear + g.dim_circular * g.dim_circular_component + g.dim_noise) && (long)g.mean().rows() == (long)g.dim && (long)g.covariance().rows() == (long)g.dim_covariance && (long)g.covariance().cols() == (long)(g.dim_covariance * g.components);
    std::printf("C11: augment(1) then resize(3,2,0): dim=%zu lin=%zu noise=%zu dimcov=%zu mean %ldx%ld cov %ldx%ld\n", g.dim, g.dim_linear, g.dim_noise, g.dim_covariance, (long)g.mean().rows(), (long)g.mean().cols(), (long)g.covariance().rows(), (long)g.covariance().cols());
    GaussianMixture h(2, 4, 0, true); h.resize(3, 0, 1);   // dim stays 4, layout and component count change
    bool ok2 = (h.dim == 4 && h.dim_covariance == 3 && h.covariance().rows() == 3 && h.covariance().cols() == 9);
    std::printf("C11: quaternion mixture (2;4,0) resize -> (3;0,1): dim=%zu dimcov=%zu cov %ldx%ld\n", h.dim, h.dim_covariance, (long)h.covariance().rows(), (long)h.covariance().cols());
    GaussianMixture a(1, 2, 0); a.augmentWithNoise(MatrixXd::Identity(1, 1)); a.augmentWithNoise(MatrixXd::Identity(2, 2));
    bool ok3 = (a.dim == a.dim_linear + a.dim_noise) && a.dim_noise == 3;
    std::printf("C11: augment(1) then augment(2): dim=%zu lin=%zu noise=%zu\n", a.dim, a.dim_linear, a.dim_noise);
    return (ok1 && ok2 && ok3) ? 0 : 1;
}

static int c11_concat_components() {
    ParticleSet a(2, 2), b(3, 2); a += b;
    std::printf("C11: ParticleSet(2,2) += ParticleSet(3,2): components=%zu state cols=%ld mean cols=%ld cov cols=%ld weights=%ld\n", a.components, (long)a.state().cols(), (long)a.mean().cols(), (long)a.covariance().cols(), (long)a.weight().size());
    return (a.components == 5 && a.state().cols() == 5) ? 0 : 1;
}

static int c14_wna_noise() {
    int bad = 0;
    for (auto d : {WhiteNoiseAcceleration::Dim::OneD, WhiteNoiseAcceleration::Dim::TwoD, WhiteNoiseAcceleration::Dim::ThreeD}) {
        WhiteNoiseAcceleration w(d, 1.0, 1.0, 1);
        long n = w.getStateTransitionMatrix().rows();
        MatrixXd s = w.getNoiseSample(3);       // Eigen assertion (invalid matrix product) for 1-D / 3-D before the fix
        if (s.rows() != n || s.cols() != 3) { std::printf("C14/C16: WNA dim %ld noise sample is %ldx%ld\n", n, (long)s.rows(), (long)s.cols()); bad = 1; }
    }
    if (!bad) std::printf("C14/C16: WNA noise samples have the state dimension\n");
    return bad;
}

static int c14_linearmodel_noise() {
    struct LM : public LinearModel {
        using LinearModel::LinearModel;
        bool freeze(const Data&) override { return true; }
        std::pair<bool, Data> measure(const Data&) const override { return std::make_pair(false, Data()); }
        std::pair<bool, MatrixXd> sample(int n) const { return getNoiseSample(n); }
    };
    int bad = 0;
    for (int m : {1, 3}) {
        std::vector<std::size_t> idx; for (int i = 0; i < m; ++i) idx.push_back(i);
        LM lm(std::make_pair(std::size_t(4), idx), MatrixXd::Identity(m, m));
        MatrixXd s = lm.sample(2).second;
        if (s.rows() != m) { std::printf("C14/C16: LinearModel with %d measured components: noise sample %ldx%ld\n", m, (long)s.rows(), (long)s.cols()); bad = 1; }
    }
    if (!bad) std::printf("C14/C16: LinearModel noise samples have the measurement dimension\n");
    return bad;
}

static int c16_transition() {
    WhiteNoiseAcceleration w(WhiteNoiseAcceleration::Dim::OneD, 1.0, 1.0, 1);
    MatrixXd prev(2, 2), cur(2, 2);
    prev << 0.0, 1.0, 0.0, 0.5;
    cur << 0.3, 2.0, -0.2, 0.1;
    VectorXd t = w.getTransitionProbability(prev, cur);
    MatrixXd F = w.getStateTransitionMatrix(), Q = w.getNoiseCovarianceMatrix();
    int bad = 0;
    for (int i = 0; i < 2; ++i) {
        double want = utils::multivariate_gaussian_density(cur.col(i), F * prev.col(i), Q).coeff(0);
        if (std::abs(t(i) - want) > 1e-12 * std::max(1.0, want)) { std::printf("C16: transition density of pair %d is %.17g, N(cur; F prev, Q) = %.17g\n", i, t(i), want); bad = 1; }
    }
    if (!bad) std::printf("C16: transition density equals N(cur; F prev, Q)\n");
    return bad;
}

static int c14_sim_past_end() {
    std::unique_ptr<StateModel> sm(new WhiteNoiseAcceleration(WhiteNoiseAcceleration::Dim::TwoD, 1.0, 1.0, 1));
    SimulatedStateModel s(std::move(sm), VectorXd::Zero(4), 3);
    int served = 0; bool refused = false;
    for (int k = 0; k < 5; ++k) { if (s.bufferData()) ++served; else { refused = true; break; } }   // assertion / ASan past the 3rd call before the fix
    std::printf("C14: trajectory of 3: served %d, %s\n", served, refused ? "then refused" : "never refused");
    return (served == 3 && refused) ? 0 : 1;
}

static int c17_history_shrink() {
    HistoryBuffer h(1);
    h.setHistorySize(10);
    for (int i = 0; i < 4; ++i) { VectorXd v(1); v(0) = i; h.addElement(v); }
    h.setHistorySize(3);          // pops 10-3 = 7 of 4 stored before the fix
    MatrixXd m = h.getHistoryBuffer();
    bool ok = (m.cols() == 3 && m(0, 0) == 3 && m(0, 1) == 2 && m(0, 2) == 1);
    std::printf("C17/C14: shrink 10 -> 3 with 4 stored: %ld columns kept\n", (long)m.cols());
    return ok ? 0 : 1;
}

struct FailMeas : public AdditiveMeasurementModel {
    bool freeze(const Data&) override { return true; }
    std::pair<bool, Data> measure(const Data&) const override { MatrixXd y = MatrixXd::Zero(2, 1); return std::make_pair(true, Data(y)); }
    std::pair<bool, Data> predictedMeasure(const Ref<const MatrixXd>&) const override { return std::make_pair(false, Data()); }
    std::pair<bool, Data> innovation(const Data&, const Data&) const override { return std::make_pair(false, Data()); }
    std::pair<bool, MatrixXd> getNoiseCovarianceMatrix() const override { return std::make_pair(true, MatrixXd::Identity(2, 2)); }
    VectorDescription getInputDescription() const override { return VectorDescription(2, 0, 2); }
    VectorDescription getMeasurementDescription() const override { return VectorDescription(2); }
};

static int c12_ut_additive_failure() {
    GaussianMixture g(2, 2); g.covariance(0) = MatrixXd::Identity(2, 2); g.covariance(1) = MatrixXd::Identity(2, 2);
    sigma_point::UTWeight w(2, 1.0, 2.0, 0.0);
    FailMeas fm;
    bool valid; GaussianMixture out; MatrixXd pxy;
    std::tie(valid, out, pxy) = sigma_point::unscented_transform(g, w, static_cast<AdditiveMeasurementModel&>(fm));  // size assertion / OOB write before the fix
    std::printf("C12/C14: additive UT with failing evaluation returned valid=%d\n", (int)valid);
    return valid ? 1 : 0;
}

struct GridInit : public ParticleSetInitialization { bool initialize(ParticleSet& p) override { p.state().setZero(); p.weight().setConstant(-std::log(p.components)); return true; } };
struct NoMeas : public MeasurementModel {
    bool freeze(const Data&) override { return true; }
    std::pair<bool, Data> measure(const Data&) const override { return std::make_pair(false, Data()); }
    std::pair<bool, Data> predictedMeasure(const Ref<const MatrixXd>&) const override { return std::make_pair(false, Data()); }
    std::pair<bool, Data> innovation(const Data&, const Data&) const override { return std::make_pair(false, Data()); }
};
struct OneHot : public LikelihoodModel {
    std::pair<bool, VectorXd> likelihood(const MeasurementModel&, const Ref<const MatrixXd>& s) override { VectorXd l = VectorXd::Constant(s.cols(), 1e-30); l(0) = 1.0; return std::make_pair(true, l); }
};
struct IdPred : public PFPrediction {
    StateModel& getStateModel() noexcept override { return *sm; }
    void predictStep(const ParticleSet& a, ParticleSet& b) override { b = a; }
    std::unique_ptr<StateModel> sm{new WhiteNoiseAcceleration(WhiteNoiseAcceleration::Dim::OneD, 1.0, 1.0, 1)};
};
struct SISProbe : public SIS {
    using SIS::SIS;
    bool run_condition() override { return step_number() < 2; }
    ParticleSet& cor() { return cor_particle_; }
};

static int c06_sis_layout() {
    SISProbe f(6, 1, 1, std::unique_ptr<ParticleSetInitialization>(new GridInit), std::unique_ptr<PFPrediction>(new IdPred),
               std::unique_ptr<PFCorrection>(new BootstrapCorrection(std::unique_ptr<MeasurementModel>(new NoMeas), std::unique_ptr<LikelihoodModel>(new OneHot))),
               std::unique_ptr<Resampling>(new Resampling(1)));
    f.boot(); f.run(); f.wait();
    ParticleSet& c = f.cor();
    std::printf("C06: after a resampling step the corrected set reports dim_linear=%zu dim_circular=%zu (filter built with 1 linear + 1 circular)\n", c.dim_linear, c.dim_circular);
    return (c.dim_linear == 1 && c.dim_circular == 1) ? 0 : 1;
}

static int c14_grid_state_rows() {
    InitSurveillanceAreaGrid g(10.0, 10.0, 2, 2);
    ParticleSet p(4, 2);                       // 2-row state (1-D white-noise-acceleration model)
    bool r = g.initialize(p);                  // comma-initialiser assertion before the fix
    std::printf("C14/C16: grid initialiser on a 2-row state returned %d\n", (int)r);
    return r ? 1 : 0;
}

static int c14_sim_zero_length() {
    std::unique_ptr<StateModel> sm(new WhiteNoiseAcceleration(WhiteNoiseAcceleration::Dim::OneD, 1.0, 1.0, 1));
    SimulatedStateModel s(std::move(sm), VectorXd::Zero(2), 0);     // target_.col(0) on a 0-column matrix before the fix
    bool r = s.bufferData();
    std::printf("C14: zero-length trajectory: bufferData returned %d\n", (int)r);
    return r ? 1 : 0;
}

struct ZeroInit : public ParticleSetInitialization { bool initialize(ParticleSet& p) override { p.state().setZero(); p.mean().setZero(); return true; } };

static int c14_rwp_quaternion() {
    ParticleSet cor(4, 1, 1, true), res(4, 1, 1, true); VectorXi par(4);
    cor.weight().setConstant(-std::log(4.0));
    ResamplingWithPrior r(std::unique_ptr<ParticleSetInitialization>(new ZeroInit), 0.5, 1);
    r.resample(cor, res, par);                 // size-mismatch assertion before the fix (temporaries built without use_quaternion)
    std::printf("C14: prior-mixing resampling of a quaternion particle set: result dim=%zu components=%zu\n", res.dim, res.components);
    return (res.dim == 5 && res.components == 4) ? 0 : 1;
}

struct OkLik : public LikelihoodModel { std::pair<bool, VectorXd> likelihood(const MeasurementModel&, const Ref<const MatrixXd>& s) override { return std::make_pair(true, VectorXd::Ones(s.cols())); } };
struct HM2 : public LTIMeasurementModel {
    HM2() : LTIMeasurementModel(MatrixXd::Identity(2, 2), MatrixXd::Identity(2, 2)) {}
    bool freeze(const Data&) override { return true; }
    std::pair<bool, Data> measure(const Data&) const override { MatrixXd y = MatrixXd::Zero(2, 1); return std::make_pair(true, Data(y)); }
};
struct TProb : public LTIStateModel {
    TProb() : LTIStateModel(MatrixXd::Identity(2, 2), MatrixXd::Identity(2, 2)) {}
    VectorDescription getStateDescription() override { return VectorDescription(2); }
    VectorXd getTransitionProbability(const Ref<const MatrixXd>&, const Ref<const MatrixXd>& c) override { return VectorXd::Ones(c.cols()); }
};

static int c14_gpf_moved_closure() {
    std::unique_ptr<GPFCorrection> a(new GPFCorrection(std::unique_ptr<LikelihoodModel>(new OkLik), std::unique_ptr<GaussianCorrection>(new KFCorrection(std::unique_ptr<LinearMeasurementModel>(new HM2))), std::unique_ptr<StateModel>(new TProb), 1));
    GPFCorrection b(std::move(*a));            // UBSan: load of an uninitialised bool before the fix
    a.reset();                                 // the moved std::function still captured the old object's this
    ParticleSet pred(2, 2), corr(2, 2);
    pred.covariance(0) = MatrixXd::Identity(2, 2); pred.covariance(1) = MatrixXd::Identity(2, 2);
    pred.weight().setConstant(-std::log(2.0));
    b.correct(pred, corr);                     // ASan heap-use-after-free in sampleFromProposal before the fix
    std::printf("C14: moved GPFCorrection corrected a particle set after its source was destroyed\n");
    return 0;
}

struct Exo2 : public ExogenousModel {
    void propagate(const Ref<const MatrixXd>& cur, Ref<MatrixXd> prop) override { prop = MatrixXd::Ones(cur.rows(), cur.cols()); }
    bool setProperty(const std::string&) override { return false; }
    VectorDescription getStateDescription() const override { return VectorDescription(2); }
};

static int c13_drawparticles_exogenous() {
    DrawParticles d(std::unique_ptr<StateModel>(new WhiteNoiseAcceleration(WhiteNoiseAcceleration::Dim::OneD, 1.0, 1.0, 1)), std::unique_ptr<ExogenousModel>(new Exo2));
    bool has = d.getStateModel().have_exogenous_model();
    int bad = has ? 0 : 1;
    try { bool r = d.skip("exogenous", true); if (!r) bad = 1; } catch (const std::exception&) { std::printf("C13: DrawParticles(state_model, exogenous_model).skip(\"exogenous\", true) threw\n"); bad = 1; }
    std::printf("C13: DrawParticles built with an exogenous model: state model has it attached = %d\n", (int)has);
    return bad;
}

static int c19_one_column() {
    MatrixXd a(1, 1); a << 7.0; VectorXd w(1); w << 1.0;
    VectorXd m = directional_statistics::directional_mean(a, w);
    std::printf("C19/C17: directional_mean of the single sample 7.0 = %.16g (argument of the phasor: 0.7168146928204135)\n", m(0));
    return std::abs(m(0) - 0.7168146928204135) < 1e-12 ? 0 : 1;
}

static int c18_log_cutoff() {
    Vector3d r(2.000000001e-4, 0.0, 0.0);
    MatrixXd q = utils::rotation_vector_to_quaternion(r);
    MatrixXd back = utils::quaternion_to_rotation_vector(q);
    double err = (back.col(0) - r).norm();
    std::printf("C18: log(exp(r)) for |r| = 2.000000001e-4: error %.12g rad (bound 2e-4)\n", err);
    return err <= 2e-4 ? 0 : 1;
}

struct ScriptMeas : public AdditiveMeasurementModel {
    bool fail_pred = false;
    bool freeze(const Data&) override { return true; }
    std::pair<bool, Data> measure(const Data&) const override { MatrixXd y = MatrixXd::Zero(2, 1); return std::make_pair(true, Data(y)); }
    std::pair<bool, Data> predictedMeasure(const Ref<const MatrixXd>& x) const override { if (fail_pred) return std::make_pair(false, Data()); MatrixXd y = x; return std::make_pair(true, Data(y)); }
    std::pair<bool, Data> innovation(const Data& p, const Data& m) const override { MatrixXd i = -(any::any_cast<MatrixXd>(p).colwise() - any::any_cast<MatrixXd>(m).col(0)); return std::make_pair(true, Data(i)); }
    std::pair<bool, MatrixXd> getNoiseCovarianceMatrix() const override { return std::make_pair(true, MatrixXd::Identity(2, 2)); }
    VectorDescription getInputDescription() const override { return VectorDescription(2, 0, 2); }
    VectorDescription getMeasurementDescription() const override { return VectorDescription(2); }
};

static int c14_ukf_stale_likelihood() {
    ScriptMeas* sm = new ScriptMeas;
    UKFCorrection c(std::unique_ptr<AdditiveMeasurementModel>(sm), 1.0, 2.0, 0.0);
    GaussianMixture pred(3, 2), corr(3, 2);
    for (int i = 0; i < 3; ++i) pred.covariance(i) = MatrixXd::Identity(2, 2);
    c.correct(pred, corr);                     // succeeds: innovations_ is 2x3
    sm->fail_pred = true;
    c.correct(pred, corr);                     // fails after predicted_meas_ was overwritten with a default 1x1 mixture
    bool valid; VectorXd lik;
    std::tie(valid, lik) = c.getLikelihood();  // Eigen size assertion / out-of-bounds read before the fix
    std::printf("C14: UKFCorrection::getLikelihood after a failed correction that follows a successful one: valid=%d\n", (int)valid);
    return valid ? 1 : 0;
}

int main(int argc, char** argv) {
    std::string w = argc > 1 ? argv[1] : "";
    if (w == "c09_teardown_hang") return c09_teardown_hang();
    if (w == "c13_skip_throws") return c13_skip_throws();
    if (w == "c11_particleset_resize") return c11_particleset_resize();
    if (w == "c11_gm_resize_noise") return c11_gm_resize_noise();
    if (w == "c11_concat_components") return c11_concat_components();
    if (w == "c14_wna_noise") return c14_wna_noise();
    if (w == "c14_linearmodel_noise") return c14_linearmodel_noise();
    if (w == "c16_transition") return c16_transition();
    if (w == "c14_sim_past_end") return c14_sim_past_end();
    if (w == "c17_history_shrink") return c17_history_shrink();
    if (w == "c12_ut_additive_failure") return c12_ut_additive_failure();
    if (w == "c06_sis_layout") return c06_sis_layout();
    if (w == "c13_drawparticles_exogenous") return c13_drawparticles_exogenous();
    if (w == "c19_one_column") return c19_one_column();
    if (w == "c18_log_cutoff") return c18_log_cutoff();
    if (w == "c14_ukf_stale_likelihood") return c14_ukf_stale_likelihood();
    if (w == "c14_grid_state_rows") return c14_grid_state_rows();
    if (w == "c14_sim_zero_length") return c14_sim_zero_length();
    if (w == "c14_rwp_quaternion") return c14_rwp_quaternion();
    if (w == "c14_gpf_moved_closure") return c14_gpf_moved_closure();
    std::printf("unknown\n"); return 2;
}
