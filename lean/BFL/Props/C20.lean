import BFL.Proofs.AnyBoxSpec
import BFL.Proofs.AnyBoxThrow
import BFL.Proofs.AnyBoxMem
/-
C20 — the type-erased data container (`bfl::any::any`, `bfl::Data`) is type-safe, value-semantic and
leak-free.

Theorems about the heap model of any.h (BFL/Model/AnyBox.lean): an explicit heap of `holder` cells,
`content` pointers, a temporary object for the copy-and-swap idioms, a ghost log of every
allocation / free / copy- / move-construction.  All statements hold for every pool size `n`, every
finite sequence of operations `ops` (constructions, copies, moves, assignments of every argument
category, swaps, resets, destructions, casts of every form, mutation through cast pointers) and
every held type and value — no bound on lengths.
-/
set_option linter.unusedSimpArgs false

namespace BFL.C20
open BFL.AnyBox

/-! ### Ownership: no aliasing, no dangling pointer, no orphan, nothing freed twice -/

/-- The invariant holds in the initial state (all containers destroyed, empty heap). -/
theorem own_init (n : Nat) : Inv n init := inv_init n

/-- Every operation — valid or rejected — preserves the invariant. -/
theorem own_step (n : Nat) (s : St) (op : Op) (h : Inv n s) : Inv n (step n s op).1 := inv_step op h

/-- The invariant holds after every operation sequence (induction over the sequence):
    distinct live containers own distinct live cells, every allocated cell is owned by exactly one
    live container, no freed cell is referenced, the temporary is gone. -/
theorem own_of_ops (n : Nat) (ops : List Op) : Inv n (run n init ops) := inv_run ops (inv_init n)

/-- Exactly one owner per allocated cell. -/
theorem unique_owner (n : Nat) (ops : List Op) (i : Id) (hi : (run n init ops).heap i ≠ none) :
    ∃ a, content (run n init ops) a = some i ∧ ∀ b, content (run n init ops) b = some i → b = a := by
  have h := (own_of_ops n ops).own
  obtain ⟨a, ha⟩ := h.owned i hi
  exact ⟨a, ha, fun b hb => h.inj b a i hb ha⟩

/-- In every reachable history: a cell is freed at most once, only after having been allocated
    (exactly once), and a freed cell is never the `content` of any object again. -/
theorem freed_once (n : Nat) (ops : List Op) (i : Id) :
    let s := run n init ops
    s.log.count (.free i) ≤ 1 ∧ s.log.count (.alloc i) ≤ 1 ∧
    s.log.count (.free i) ≤ s.log.count (.alloc i) ∧
    (s.log.count (.free i) = 1 → s.heap i = none ∧ ∀ o, content s o ≠ some i) := by
  intro s
  have h : Own s := (own_of_ops n ops).own
  have ha : s.log.count (.alloc i) = _ := h.allocOnce i
  have hf : s.log.count (.free i) = _ := h.freeOnce i
  refine ⟨?_, ?_, ?_, ?_⟩
  · rw [hf]; split <;> simp
  · rw [ha]; split <;> simp
  · rw [hf, ha]; by_cases hlt : i < s.next <;> simp [hlt]; split <;> simp
  · intro h1
    rw [hf] at h1
    have hnone : s.heap i = none := by
      by_cases hc : i < s.next ∧ s.heap i = none
      · exact hc.2
      · simp [hc] at h1
    exact ⟨hnone, fun o ho => h.live o i ho hnone⟩

/-! ### No leak -/

theorem isLive_destroy_step (n : Nat) (s : St) (a : Nat) (x : Obj) :
    isLive (step n s (.destroy a)).1 x = (if x = .named a then false else isLive s x) := by
  simp only [step]
  split
  · simp
  · next hl =>
    by_cases hx : x = .named a
    · subst hx; simpa [liveN] using hl
    · simp [hx]

theorem dead_after_destroys (n : Nat) (l : List Nat) (s : St) (x : Obj) :
    isLive (run n s (l.map Op.destroy)) x = (if ∃ k ∈ l, x = .named k then false else isLive s x) := by
  induction l generalizing s with
  | nil => simp [run]
  | cons a rest ih =>
    show isLive (run n (step n s (.destroy a)).1 (rest.map Op.destroy)) x = _
    rw [ih, isLive_destroy_step]
    by_cases h1 : ∃ k ∈ rest, x = .named k
    · have : ∃ k ∈ a :: rest, x = .named k := by
        obtain ⟨k, hk, e⟩ := h1; exact ⟨k, List.mem_cons_of_mem _ hk, e⟩
      simp [h1, this]
    · by_cases h2 : x = .named a
      · have : ∃ k ∈ a :: rest, x = .named k := ⟨a, List.mem_cons_self, h2⟩
        simp [h1, h2, this]
      · have : ¬ ∃ k ∈ a :: rest, x = .named k := by
          rintro ⟨k, hk, e⟩
          rcases List.mem_cons.1 hk with rfl | hk
          · exact h2 e
          · exact h1 ⟨k, hk, e⟩
        simp [h1, h2, this]

/-- After any operation sequence, destroying all containers of the pool leaves the heap empty, and
    the ghost log pairs every allocation with exactly one free: nothing leaks, nothing is freed twice. -/
theorem no_leak (n : Nat) (ops : List Op) :
    let s := destroyAll n (run n init ops)
    (∀ i, s.heap i = none) ∧ (∀ o, isLive s o = false) ∧ liveCells s = [] ∧
    (∀ i, s.log.count (.alloc i) = (if i < s.next then 1 else 0)) ∧
    (∀ i, s.log.count (.free i) = s.log.count (.alloc i)) := by
  intro s
  have hinv : Inv n s := inv_run _ (own_of_ops n ops)
  have hdead : ∀ o, isLive s o = false := by
    intro o
    show isLive (run n (run n init ops) ((List.range n).map Op.destroy)) o = false
    rw [dead_after_destroys]
    split
    · rfl
    · next hne =>
      have h0 := own_of_ops n ops
      cases o with
      | tmp => exact h0.tmpDead
      | named k =>
        by_cases hk : k < n
        · exact absurd ⟨k, List.mem_range.2 hk, rfl⟩ hne
        · exact h0.bound k (Nat.le_of_not_lt hk)
  have hheap : ∀ i, s.heap i = none := by
    intro i
    by_cases hi : s.heap i = none
    · exact hi
    · obtain ⟨a, ha⟩ := hinv.own.owned i hi
      rw [content_of_not_live (hdead a)] at ha
      exact absurd ha (by simp)
  refine ⟨hheap, hdead, ?_, hinv.own.allocOnce, ?_⟩
  · simp [liveCells, hheap]
  · intro i
    rw [hinv.own.freeOnce i, hinv.own.allocOnce i]
    simp [hheap i]

/-! ### Type safety of the casts -/

/-- A cast to the stored type yields the stored value, in every form: pointer (mutable and const
    operand), reference, and the four value-returning forms; `type()` names the stored type. -/
theorem cast_same_type_some (s : St) (o : Obj) (v : Val) (hv : held s o = some v) :
    hasValue s o = true ∧ typeOf s o = some v.tag ∧
    deref s (castPtr s (some o) v.tag) = some v ∧
    deref s (castPtrConst s (some o) v.tag) = some v ∧
    deref s (castRef s o v.tag) = some v ∧
    ∀ f, (castValue s o v.tag f).2 = some v := by
  have hty : typeOf s o = some v.tag := by rw [typeOf_eq_held_tag, hv]; rfl
  have hp : deref s (castPtr s (some o) v.tag) = some v := by rw [deref_castPtr]; simp [hty, hv]
  refine ⟨?_, hty, hp, hp, hp, fun f => ?_⟩
  · simp only [hasValue]
    cases hc : content s o with
    | none => simp [held_def, hc] at hv
    | some i => rfl
  · rw [castValue_result]; simp [hty, hv]

/-- A cast to any type other than the stored one fails — null for the pointer forms, `bad_any_cast`
    (`none`) for the reference and value forms — and changes nothing, not even the ghost log.  This
    covers the empty container (`type()` is void, so every type is "other"). -/
theorem cast_other_type_fails (s : St) (o : Obj) (t : Tag) (ht : typeOf s o ≠ some t) :
    castPtr s (some o) t = none ∧ castPtrConst s (some o) t = none ∧ castRef s o t = none ∧
    ∀ f, castValue s o t f = (s, none) := by
  have hp : castPtr s (some o) t = none := by simp [castPtr, ht]
  refine ⟨hp, hp, hp, fun f => ?_⟩
  have hr : castRef s o t = none := hp
  cases f <;> simp [castValue, castCopy, castMoveOut, hr]

/-- For a container holding `v`: every tag different from `v.tag` fails. -/
theorem cast_every_other_tag_fails (s : St) (o : Obj) (v : Val) (hv : held s o = some v) (t : Tag)
    (hne : t ≠ v.tag) :
    castPtr s (some o) t = none ∧ castRef s o t = none ∧ ∀ f, castValue s o t f = (s, none) := by
  have hty : typeOf s o ≠ some t := by
    rw [(cast_same_type_some s o v hv).2.1]; intro e; exact hne (Option.some.inj e).symm
  have := cast_other_type_fails s o t hty
  exact ⟨this.1, this.2.2.1, this.2.2.2⟩

/-- No reinterpretation: whenever a pointer cast to `T` succeeds, the designated cell really stores
    an object of type `T`, and it is the container's own cell. -/
theorem cast_no_reinterpretation (s : St) (o : Obj) (t : Tag) (i : Id) (h : castPtr s (some o) t = some i) :
    content s o = some i ∧ ∃ v, s.heap i = some v ∧ v.tag = t := by
  obtain ⟨hc, hty⟩ := castPtr_some_iff.1 h
  refine ⟨hc, ?_⟩
  rw [typeOf_eq_held_tag, held_def, hc] at hty
  simp only [Option.bind_some] at hty
  cases hh : s.heap i with
  | none => simp [hh] at hty
  | some v => exact ⟨v, rfl, by simpa [hh] using hty⟩

/-- Null pointer argument: null result. -/
theorem cast_null_operand (s : St) (t : Tag) : castPtr s none t = none ∧ castPtrConst s none t = none :=
  ⟨rfl, rfl⟩

/-- An empty container reports the void type (and in reachable states only an empty one does). -/
theorem empty_type_void (s : St) (o : Obj) (h : hasValue s o = false) : typeOf s o = none := by
  have : content s o = none := by simpa [hasValue] using h
  simp [typeOf, this]

theorem type_void_iff_empty (n : Nat) (ops : List Op) (o : Obj) :
    typeOf (run n init ops) o = none ↔ hasValue (run n init ops) o = false := by
  refine ⟨fun h => ?_, empty_type_void _ o⟩
  have hown := (own_of_ops n ops).own
  cases hc : content (run n init ops) o with
  | none => simp [hasValue, hc]
  | some i =>
    exfalso
    have hl := hown.live o i hc
    simp only [typeOf, hc] at h
    cases hh : (run n init ops).heap i with
    | none => exact hl hh
    | some v => simp [hh] at h

/-! ### Value semantics -/

/-- The heap model, seen through `absPool` (destroyed / empty / holding v per slot), behaves exactly
    like the pointer-free value-semantic specification `specStep`, output by output, for every
    operation sequence. -/
theorem refines_spec (n : Nat) (ops : List Op) :
    absPool (run n init ops) = specRun n (absPool init) ops ∧
    ∀ op, (step n (run n init ops) op).2 = (specStep n (absPool (run n init ops)) op).2 :=
  ⟨run_refines ops (inv_init n), fun op => (step_refines (own_of_ops n ops) op).2⟩

/-- Copies are deep: after copy construction (from `any&`, `const any&`, `const any&&`) both containers
    hold equal values in different cells, and mutating either through a cast pointer leaves the other
    unchanged. -/
theorem copy_independent (n : Nat) (ops : List Op) (k src : Nat) (c : Cat) (hc : c ≠ .rref)
    (hk : freeN n (run n init ops) k = true) (hs : liveN (run n init ops) src = true) :
    let s := run n init ops
    let s1 := (step n s (.ctorAny k src c)).1
    held s1 (.named k) = held s (.named src) ∧ held s1 (.named src) = held s (.named src) ∧
    (held s (.named src) ≠ none → content s1 (.named k) ≠ content s1 (.named src)) ∧
    (∀ v, held (poke s1 (.named k) v) (.named src) = held s1 (.named src)) ∧
    (∀ v, held (poke s1 (.named src) v) (.named k) = held s1 (.named k)) := by
  intro s s1
  have hk : freeN n s k = true := hk
  have hs : liveN s src = true := hs
  have hinv : Inv n s := own_of_ops n ops
  have hinv1 : Inv n s1 := inv_step _ hinv
  have hne : k ≠ src := by
    intro e; subst e
    have := (freeN_spec hk).2
    simp [liveN] at hs; simp [hs] at this
  have hne' : Obj.named k ≠ Obj.named src := fun e => hne (by cases e; rfl)
  have hs1 : s1 = ctorCopy s (.named k) (.named src) := by
    show (step n s (.ctorAny k src c)).1 = _
    simp only [step, hk, hs, Bool.and_self, if_true]
    cases c <;> simp_all [ctorFromAny]
  have h1 : held s1 (.named k) = held s (.named src) := by rw [hs1, held_ctorCopy hinv.own]; simp
  have h2 : held s1 (.named src) = held s (.named src) := by
    rw [hs1, held_ctorCopy hinv.own]; simp [hne'.symm]
  refine ⟨h1, h2, ?_, ?_, ?_⟩
  · intro hv heq
    cases hck : content s1 (.named k) with
    | none => rw [held_def, hck] at h1; exact hv (by simpa using h1.symm)
    | some i => exact hne' (hinv1.own.inj _ _ i hck (heq ▸ hck))
  · intro v; rw [held_poke hinv1.own]; simp [hne'.symm]
  · intro v; rw [held_poke hinv1.own]; simp [hne']

/-- Copy assignment (every non-rvalue category, incl. the template `operator=` selected for `any&` and
    `const any&&`): afterwards the target holds an equal value in a cell of its own, the source is
    unchanged, no other container changes, and later mutation of either does not reach the other. -/
theorem copy_assign_independent (n : Nat) (ops : List Op) (a b : Nat) (c : Cat) (hc : c ≠ .rref)
    (ha : liveN (run n init ops) a = true) (hb : liveN (run n init ops) b = true) :
    let s := run n init ops
    let s1 := (step n s (.asgnAny a b c)).1
    (∀ j, held s1 (.named j) = if j = a then held s (.named b) else held s (.named j)) ∧
    (a ≠ b → held s (.named b) ≠ none → content s1 (.named a) ≠ content s1 (.named b)) ∧
    (a ≠ b → ∀ v, held (poke s1 (.named a) v) (.named b) = held s1 (.named b)) ∧
    (a ≠ b → ∀ v, held (poke s1 (.named b) v) (.named a) = held s1 (.named a)) := by
  intro s s1
  have ha : liveN s a = true := ha
  have hb : liveN s b = true := hb
  have hinv : Inv n s := own_of_ops n ops
  have hinv1 : Inv n s1 := inv_step _ hinv
  have hs1 : s1 = assignFromAny s (.named a) (.named b) c := by
    show (step n s (.asgnAny a b c)).1 = _
    simp only [step, ha, hb, Bool.and_self, if_true]
  have hheld : ∀ j, held s1 (.named j) = if j = a then held s (.named b) else held s (.named j) :=
    fun j => by rw [hs1]; exact held_assignFromAny_copy hinv.own hinv.content_tmp a b j c hc
  refine ⟨hheld, ?_, ?_, ?_⟩
  · intro hab hv heq
    have hne' : Obj.named a ≠ Obj.named b := fun e => hab (by cases e; rfl)
    have h1 := hheld a
    simp only [if_true] at h1
    cases hck : content s1 (.named a) with
    | none => rw [held_def, hck] at h1; exact hv (by simpa using h1.symm)
    | some i => exact hne' (hinv1.own.inj _ _ i hck (heq ▸ hck))
  · intro hab v
    have hne' : Obj.named b ≠ Obj.named a := fun e => hab (by cases e; rfl)
    rw [held_poke hinv1.own]; simp [hne']
  · intro hab v
    have hne' : Obj.named a ≠ Obj.named b := fun e => hab (by cases e; rfl)
    rw [held_poke hinv1.own]; simp [hne']

/-- Operations that do not name container `j` never change what `j` shows (alive / empty / value):
    no operation on one container — assignment, reset, destruction, mutation through a cast pointer,
    move-out — reaches another one, for any continuation of any history. -/
def mentions (j : Nat) : Op → Bool
  | .dflt k => k == j
  | .ctorAny k src _ => k == j || src == j
  | .ctorVal k _ _ => k == j
  | .asgnAny a b _ => a == j || b == j
  | .asgnVal a _ _ => a == j
  | .reset a => a == j
  | .swap a b _ => a == j || b == j
  | .destroy a => a == j
  | .poke a _ => a == j
  | .pokeRef a _ => a == j
  | .castVal a _ _ => a == j
  | .castPtr a _ _ => a == some j

theorem specStep_frame (n : Nat) (p : APool) (op : Op) (j : Nat) (h : mentions j op = false) :
    (specStep n p op).1 j = p j := by
  cases op <;> simp only [mentions, Bool.or_eq_false_iff, beq_eq_false_iff_ne, ne_eq] at h <;>
    simp only [specStep]
  case dflt k => split <;> simp [upd_apply, Ne.symm h]
  case ctorAny k src c =>
    split
    · cases c <;> simp [upd_apply, Ne.symm h.1, Ne.symm h.2]
    · rfl
  case ctorVal k c v => split <;> simp [upd_apply, Ne.symm h]
  case asgnAny a b c =>
    split
    · cases c <;> simp [upd_apply, Ne.symm h.1, Ne.symm h.2]
      split <;> simp [upd_apply, Ne.symm h.1, Ne.symm h.2]
    · rfl
  case asgnVal a c v => split <;> simp [upd_apply, Ne.symm h]
  case reset a => split <;> simp [upd_apply, Ne.symm h]
  case swap a b f => split <;> simp [upd_apply, Ne.symm h.1, Ne.symm h.2]
  case destroy a => split <;> simp [upd_apply, Ne.symm h]
  case poke a v =>
    split
    · rfl
    · rfl
    · split <;> simp [upd_apply, Ne.symm h]
  case pokeRef a v =>
    split
    · rfl
    · rfl
    · split <;> simp [upd_apply, Ne.symm h]
  case castVal a t f =>
    split
    · rfl
    · rfl
    · split
      · split <;> simp [upd_apply, Ne.symm h]
      · rfl
  case castPtr a t c =>
    cases a with
    | none => rfl
    | some a => simp only [specStep]; split <;> rfl

theorem independent_of_others (n : Nat) (ops more : List Op) (j : Nat)
    (h : ∀ op ∈ more, mentions j op = false) :
    absPool (run n (run n init ops) more) j = absPool (run n init ops) j := by
  have key : ∀ (l : List Op) (s : St), Inv n s → (∀ op ∈ l, mentions j op = false) →
      absPool (run n s l) j = absPool s j := by
    intro l
    induction l with
    | nil => intros; rfl
    | cons op rest ih =>
      intro s hs hl
      show absPool (run n (step n s op).1 rest) j = _
      rw [ih _ (inv_step op hs) (fun o ho => hl o (List.mem_cons_of_mem _ ho)), (step_refines hs op).1]
      exact specStep_frame n _ op j (hl op List.mem_cons_self)
  exact key more _ (own_of_ops n ops) h

/-- Mutation through the reference form `any_cast<T&>(a) = v` writes exactly what the pointer form
    writes (so every independence statement above applies to it) and throws exactly when the stored
    type differs. -/
theorem ref_mutation_as_ptr (s : St) (o : Obj) (v : Val) :
    (pokeRef s o v).1 = poke s o v ∧ ((pokeRef s o v).2 = true ↔ typeOf s o = some v.tag) :=
  ⟨pokeRef_fst s o v, pokeRef_snd s o v⟩

/-- A moved-from container is empty, and the value arrives intact (move construction and move
    assignment between different containers); no held object is copied or moved (the log is unchanged
    but for nothing at all: the pointer is stolen). -/
theorem moved_from_empty (n : Nat) (ops : List Op) (a b : Nat) :
    let s := run n init ops
    (freeN n s a = true → liveN s b = true →
      let s1 := (step n s (.ctorAny a b .rref)).1
      hasValue s1 (.named b) = false ∧ typeOf s1 (.named b) = none ∧ liveN s1 b = true ∧
      held s1 (.named a) = held s (.named b) ∧ s1.log = s.log) ∧
    (liveN s a = true → liveN s b = true → a ≠ b →
      let s1 := (step n s (.asgnAny a b .rref)).1
      hasValue s1 (.named b) = false ∧ typeOf s1 (.named b) = none ∧ liveN s1 b = true ∧
      held s1 (.named a) = held s (.named b)) := by
  intro s
  have hinv : Inv n s := own_of_ops n ops
  refine ⟨?_, ?_⟩
  · intro hk hs s1
    have hne : Obj.named b ≠ Obj.named a := by
      intro e; cases e
      have := (freeN_spec hk).2
      simp [liveN] at hs; simp [hs] at this
    have hs1 : s1 = ctorMove s (.named a) (.named b) := by
      show (step n s (.ctorAny a b .rref)).1 = _
      simp only [step, hk, hs, Bool.and_self, if_true, ctorFromAny]
    have hcb : content s1 (.named b) = none := by rw [hs1]; simp [ctorMove]
    refine ⟨by simp [hasValue, hcb], by simp [typeOf, hcb], ?_, ?_, ?_⟩
    · rw [hs1]; simp [liveN]
    · rw [hs1, held_ctorMove]; simp [hne.symm]
    · rw [hs1]; rfl
  · intro ha hb hab s1
    have hne : Obj.named a ≠ Obj.named b := fun e => hab (by cases e; rfl)
    have hs1 : s1 = assignMove s (.named a) (.named b) := by
      show (step n s (.asgnAny a b .rref)).1 = _
      simp only [step, ha, hb, Bool.and_self, if_true, assignFromAny]
    have hh := fun j => held_assignMove hinv.own hinv.content_tmp a b j
    have hcb : content s1 (.named b) = none := by
      rw [hs1]; simp [assignMove, hne, ctorDefault, named_ne_tmp]
    refine ⟨by simp [hasValue, hcb], by simp [typeOf, hcb], ?_, ?_⟩
    · show isLive s1 (.named b) = true
      rw [hs1, isLive_assignMove s a b _ ha hb hinv.tmpDead]; exact hb
    · rw [hs1, hh a]; simp [hab]

/-- Self-assignment is harmless, for every argument category: the pool shows exactly what it showed
    before (the value is intact), ownership still holds; self-move-assignment does nothing at all, and
    self-copy-assignment leaves the container holding an equal value. -/
theorem self_assign_noop (n : Nat) (ops : List Op) (a : Nat) (c : Cat)
    (ha : liveN (run n init ops) a = true) :
    let s := run n init ops
    let s1 := (step n s (.asgnAny a a c)).1
    absPool s1 = absPool s ∧ held s1 (.named a) = held s (.named a) ∧ Inv n s1 ∧
    (c = .rref → s1 = s) := by
  intro s s1
  have ha : liveN s a = true := ha
  have hinv : Inv n s := own_of_ops n ops
  have habs : absPool s1 = absPool s := by
    show absPool (step n s (.asgnAny a a c)).1 = _
    rw [(step_refines hinv _).1]
    have : (absPool s a).isSome = true := by rw [absPool_isSome]; exact ha
    simp only [specStep, this, and_self, if_true]
    cases c <;> funext j <;> by_cases hj : j = a <;> simp [upd_apply, hj]
  refine ⟨habs, ?_, inv_step _ hinv, ?_⟩
  · have h1 := congrFun habs a
    have hl1 : liveN s1 a = true := by
      have := absPool_isSome s1 a; rw [h1, absPool_isSome] at this; rw [← this]; exact ha
    rw [absPool_of_live hl1, absPool_of_live ha] at h1
    exact Option.some.inj h1
  · intro hc; subst hc
    show (step n s (.asgnAny a a .rref)).1 = s
    simp [step, ha, assignFromAny, assignMove]

/-- `swap` exchanges the two contents (self-swap included) and touches nothing else; no held object
    is copied, moved, allocated or freed. -/
theorem swap_exchanges (s : St) (a b x : Obj) :
    held (swap s a b) x = (if x = b then held s a else if x = a then held s b else held s x) ∧
    (swap s a b).heap = s.heap ∧ (swap s a b).log = s.log ∧ held (swap s a a) x = held s x := by
  refine ⟨held_swap s a b x, rfl, rfl, ?_⟩
  rw [held_swap]; split
  · next h => rw [h]
  · rfl

/-- `reset` empties the container, frees its cell, and touches no other container. -/
theorem reset_empties (n : Nat) (ops : List Op) (a : Nat) (ha : liveN (run n init ops) a = true) :
    let s := run n init ops
    let s1 := (step n s (.reset a)).1
    hasValue s1 (.named a) = false ∧ typeOf s1 (.named a) = none ∧ liveN s1 a = true ∧
    (∀ j, j ≠ a → held s1 (.named j) = held s (.named j)) ∧
    (∀ i, content s (.named a) = some i → s1.heap i = none) := by
  intro s s1
  have ha : liveN s a = true := ha
  have hinv : Inv n s := own_of_ops n ops
  have hs1 : s1 = reset s (.named a) := by
    show (step n s (.reset a)).1 = _
    simp only [step, ha, if_true]
  have hh := fun j => held_reset hinv.own hinv.content_tmp a j
  have hca : content s1 (.named a) = none := by
    rw [hs1]; simp [reset, ctorDefault, tmp_ne_named, named_ne_tmp, hinv.content_tmp]
  refine ⟨by simp [hasValue, hca], by simp [typeOf, hca], ?_, ?_, ?_⟩
  · show isLive s1 (.named a) = true
    rw [hs1, isLive_reset s a _ ha hinv.tmpDead]; exact ha
  · intro j hj; rw [hs1, hh j]; simp [hj]
  · intro i hi
    rw [hs1]
    simp only [reset]
    rw [heap_dtor]
    simp [ctorDefault, tmp_ne_named, named_ne_tmp, hi]

/-- Destruction frees exactly the container's own cell; the other containers keep their values. -/
theorem destroy_frees_own_cell (n : Nat) (ops : List Op) (a : Nat) (ha : liveN (run n init ops) a = true) :
    let s := run n init ops
    let s1 := (step n s (.destroy a)).1
    liveN s1 a = false ∧ (∀ j, j ≠ a → held s1 (.named j) = held s (.named j)) ∧
    (∀ i, s1.heap i = if content s (.named a) = some i then none else s.heap i) := by
  intro s s1
  have ha : liveN s a = true := ha
  have hinv : Inv n s := own_of_ops n ops
  have hs1 : s1 = dtor s (.named a) := by
    show (step n s (.destroy a)).1 = _
    simp only [step, ha, if_true]
  refine ⟨?_, ?_, ?_⟩
  · show isLive s1 (.named a) = false
    rw [hs1]; simp
  · intro j hj
    have : Obj.named j ≠ Obj.named a := fun e => hj (by cases e; rfl)
    rw [hs1, held_dtor hinv.own]; simp [this]
  · intro i; rw [hs1, heap_dtor]

/-! ### Non-vacuity: concrete histories exercising every operation from reachable states -/

def p7 : Val := ⟨.probe, 7⟩
def sx : Val := ⟨.str, 5⟩

/-- construct from an rvalue probe, copy it (deep), mutate the copy through the pointer cast,
    self-move-assign, move-assign, move the value out, wrong-type cast, null-operand cast -/
def demo1 : List Op :=
  [.ctorVal 0 .rref p7, .ctorAny 1 0 .clref, .poke 1 ⟨.probe, 9⟩, .asgnAny 0 0 .rref,
   .asgnAny 0 1 .rref, .castVal 0 .probe .rvalMove, .castVal 0 .int .lval, .castPtr none .probe false]

example : absPool (run 3 init (demo1.take 3)) 0 = some (some p7) ∧
          absPool (run 3 init (demo1.take 3)) 1 = some (some ⟨.probe, 9⟩) := by decide
example : absPool (run 3 init (demo1.take 5)) 0 = some (some ⟨.probe, 9⟩) ∧
          absPool (run 3 init (demo1.take 5)) 1 = some none ∧
          absPool (run 3 init (demo1.take 5)) 2 = none := by decide
example : (step 3 (run 3 init (demo1.take 5)) (.castVal 0 .probe .rvalMove)).2 = .cast (some ⟨.probe, 9⟩) ∧
          absPool (run 3 init (demo1.take 6)) 0 = some (some ⟨.probe, -1⟩) := by decide
example : (step 3 (run 3 init (demo1.take 6)) (.castVal 0 .int .lval)).2 = .cast none := by decide
example : (run 3 init demo1).log.count (.alloc 0) = 1 ∧ (run 3 init demo1).log.count (.free 0) = 1 ∧
          (run 3 init demo1).log.count (.alloc 1) = 1 ∧ (run 3 init demo1).log.count (.free 1) = 0 := by decide
example : liveCells (destroyAll 3 (run 3 init demo1)) = [] ∧ (destroyAll 3 (run 3 init demo1)).next = 2 := by decide

/-- default construction, value construction from a const lvalue, the template assignment from `any&`
    and `const any&&`, value assignment, swap (free function, then self), reset, copy construction from
    `const any&&`, move construction, copying value casts, const pointer cast, destruction -/
def demo2 : List Op :=
  [.dflt 0, .ctorVal 1 .clref sx, .asgnAny 0 1 .lref, .asgnAny 1 1 .crref, .asgnVal 1 .lref ⟨.mat, 3⟩,
   .swap 0 1 true, .swap 1 1 false, .reset 0, .ctorAny 2 1 .crref, .destroy 0, .ctorAny 0 2 .rref,
   .castVal 0 .str .clval, .castVal 1 .str .rval, .castPtr (some 1) .str true, .castPtr (some 1) .dbl false,
   .destroy 1, .destroy 1]

example : absPool (run 3 init demo2) 0 = some (some sx) ∧ absPool (run 3 init demo2) 1 = none ∧
          absPool (run 3 init demo2) 2 = some none := by decide
example : (step 3 (run 3 init (demo2.take 13)) (.castPtr (some 1) .str true)).2 = .cast (some sx) ∧
          (step 3 (run 3 init (demo2.take 13)) (.castPtr (some 1) .dbl false)).2 = .cast none ∧
          (step 3 (run 3 init (demo2.take 16)) (.destroy 1)).2 = .invalid := by decide
example : liveCells (run 3 init demo2) = [4] ∧ liveCells (destroyAll 3 (run 3 init demo2)) = [] := by decide

example : (step 3 (run 3 init [.ctorVal 0 .rref p7]) (.pokeRef 0 ⟨.probe, 8⟩)).2 = .done ∧
          held (step 3 (run 3 init [.ctorVal 0 .rref p7]) (.pokeRef 0 ⟨.probe, 8⟩)).1 (.named 0) = some ⟨.probe, 8⟩ ∧
          (step 3 (run 3 init [.ctorVal 0 .rref p7]) (.pokeRef 0 ⟨.int, 8⟩)).2 = .cast none := by decide

/-- the hypotheses of `copy_independent`, `copy_assign_independent`, `moved_from_empty`,
    `self_assign_noop`, `reset_empties` are satisfiable in reachable states holding a value -/
example : freeN 3 (run 3 init [.ctorVal 0 .rref p7]) 1 = true ∧ liveN (run 3 init [.ctorVal 0 .rref p7]) 0 = true ∧
          held (run 3 init [.ctorVal 0 .rref p7]) (.named 0) = some p7 := by decide
example : liveN (run 3 init (demo1.take 3)) 0 = true ∧ liveN (run 3 init (demo1.take 3)) 1 = true ∧
          held (run 3 init (demo1.take 3)) (.named 1) ≠ none := by decide

/-! ### Exceptions thrown by the copy constructor of a held type -/

/-- Destroying all containers of any state that satisfies the invariant empties the heap and pairs
    every allocation with exactly one free. -/
theorem no_leak_of_inv (n : Nat) (s0 : St) (h0 : Inv n s0) :
    let s := destroyAll n s0
    (∀ i, s.heap i = none) ∧ (∀ o, isLive s o = false) ∧ liveCells s = [] ∧
    (∀ i, s.log.count (.alloc i) = (if i < s.next then 1 else 0)) ∧
    (∀ i, s.log.count (.free i) = s.log.count (.alloc i)) := by
  intro s
  have hinv : Inv n s := inv_run _ h0
  have hdead : ∀ o, isLive s o = false := by
    intro o
    show isLive (run n s0 ((List.range n).map Op.destroy)) o = false
    rw [dead_after_destroys]
    split
    · rfl
    · next hne =>
      cases o with
      | tmp => exact h0.tmpDead
      | named k =>
        by_cases hk : k < n
        · exact absurd ⟨k, List.mem_range.2 hk, rfl⟩ hne
        · exact h0.bound k (Nat.le_of_not_lt hk)
  have hheap : ∀ i, s.heap i = none := by
    intro i
    by_cases hi : s.heap i = none
    · exact hi
    · obtain ⟨a, ha⟩ := hinv.own.owned i hi
      rw [content_of_not_live (hdead a)] at ha
      exact absurd ha (by simp)
  refine ⟨hheap, hdead, ?_, hinv.own.allocOnce, ?_⟩
  · simp [liveCells, hheap]
  · intro i
    rw [hinv.own.freeOnce i, hinv.own.allocOnce i]
    simp [hheap i]

/-- A throwing operation preserves the invariant (no aliasing, nothing dangling, nothing orphaned: the
    storage obtained for the holder whose constructor threw is released). -/
theorem throw_preserves_inv (n : Nat) (s : St) (op : Op) (h : Inv n s) : Inv n (stepThrow n s op).1 :=
  inv_stepThrow op h

/-- The invariant holds after every history in which any subset of the operations is run with the
    throwing probe armed. -/
theorem own_of_xops (n : Nat) (xs : List (Op × Bool)) : Inv n (runX n init xs) := inv_runX xs (inv_init n)

/-- Strong guarantee.  When the copy constructor of the held object throws — in copy construction,
    value construction from an lvalue, any copy-and-swap assignment (from a container or a value, into an
    empty or a holding target, self-assignment included), or a copying value cast — the exception leaves
    the call and *nothing* a client can observe has changed: every container is alive / destroyed as
    before and holds what it held (in particular the target of an assignment keeps its old value, and a
    container under construction does not come to life); the heap is unchanged. -/
theorem throw_strong_guarantee (n : Nat) (s : St) (op : Op) (v : Val) (hc : copied n s op = some v) :
    (stepThrow n s op).2 = .threw ∧ absPool (stepThrow n s op).1 = absPool s ∧
    (∀ o, held (stepThrow n s op).1 o = held s o ∧ isLive (stepThrow n s op).1 o = isLive s o) ∧
    (stepThrow n s op).1.heap = s.heap := by
  obtain ⟨h1, h2⟩ := stepThrow_of_copied hc
  refine ⟨h1, ?_, ?_, ?_⟩ <;> rcases h2 with e | e <;> rw [e] <;> first | rfl | (intro o; exact ⟨rfl, rfl⟩)

/-- Nothing throws in operations that copy no held object (moves, swap, reset, destruction, pointer and
    reference casts, the moving cast, mutation through casts, rejected operations). -/
theorem throw_only_when_copying (n : Nat) (s : St) (op : Op) (hc : copied n s op = none) :
    stepThrow n s op = step n s op := stepThrow_of_not_copied hc

/-- The storage obtained for a holder whose member constructor threw is released exactly once and is
    never seen by any container. -/
theorem throw_storage_released (n : Nat) (xs : List (Op × Bool)) :
    let s := runX n init xs
    (failedNew s).heap s.next = none ∧ (failedNew s).log.count (.alloc s.next) = 1 ∧
    (failedNew s).log.count (.free s.next) = 1 ∧ ∀ o, content (failedNew s) o ≠ some s.next := by
  intro s
  have h : Own s := (own_of_xops n xs).own
  have h' := own_failedNew h
  have hn : (failedNew s).heap s.next = none := h.fresh _ (Nat.le_refl _)
  refine ⟨hn, ?_, ?_, fun o ho => h'.live o _ ho hn⟩
  · rw [h'.allocOnce]; simp
  · rw [h'.freeOnce]; simp [hn]

/-- No leak with exceptions: after any history with any armed operations, destroying all containers
    leaves the heap empty and every allocation — including those of holders whose constructor threw — is
    paired with exactly one free. -/
theorem no_leak_x (n : Nat) (xs : List (Op × Bool)) :
    let s := destroyAll n (runX n init xs)
    (∀ i, s.heap i = none) ∧ (∀ o, isLive s o = false) ∧ liveCells s = [] ∧
    (∀ i, s.log.count (.alloc i) = (if i < s.next then 1 else 0)) ∧
    (∀ i, s.log.count (.free i) = s.log.count (.alloc i)) :=
  no_leak_of_inv n _ (own_of_xops n xs)

/-! ### `Data` as the library uses it: `MatrixXd m = any_cast<MatrixXd&&>(std::move(data))` -/

theorem movedFrom_tag (v : Val) : (movedFrom v).tag = v.tag := by
  unfold movedFrom; cases h : v.tag <;> simp [h]

/-- Moving the value out through the rvalue-reference cast (sigma_point.cpp:146, and with move
    assignment in KFCorrection / UKFCorrection / SUKFCorrection / GaussianLikelihood) returns the stored
    value and leaves the container *non-empty*: it still owns its cell, still reports the same type, and
    holds the moved-from object (for `MatrixXd` the 0×0 matrix) — a second move-out or any cast to that
    type succeeds and yields that moved-from object; no other container changes, nothing is allocated or freed. -/
theorem move_out_leaves_moved_from (s : St) (o : Obj) (v : Val) (hown : Own s) (hv : held s o = some v) :
    let r := castValue s o v.tag .rvalMove
    r.2 = some v ∧ held r.1 o = some (movedFrom v) ∧ hasValue r.1 o = true ∧
    typeOf r.1 o = some v.tag ∧ (∀ x, x ≠ o → held r.1 x = held s x) ∧
    (castValue r.1 o v.tag .rvalMove).2 = some (movedFrom v) ∧
    (∀ i, r.1.heap i = none ↔ s.heap i = none) := by
  intro r
  have hty : typeOf s o = some v.tag := by rw [typeOf_eq_held_tag, hv]; rfl
  have hheld : ∀ x, held r.1 x = if x = o then some (movedFrom v) else held s x := by
    intro x
    show held (castValue s o v.tag .rvalMove).1 x = _
    rw [held_castValue hown]; simp [hty, hv]
  have h2 : held r.1 o = some (movedFrom v) := by rw [hheld]; simp
  have hty2 : typeOf r.1 o = some v.tag := by rw [typeOf_eq_held_tag, h2]; simp [movedFrom_tag]
  refine ⟨?_, h2, ?_, hty2, ?_, ?_, ?_⟩
  · show (castValue s o v.tag .rvalMove).2 = some v
    rw [castValue_result]; simp [hty, hv]
  · cases hc : content r.1 o with
    | none => rw [held_def, hc] at h2; simp at h2
    | some i => simp [hasValue, hc]
  · intro x hx; rw [hheld]; simp [hx]
  · rw [castValue_result]; simp [hty2, h2]
  · intro i
    show (castMoveOut s o v.tag).1.heap i = none ↔ _
    unfold castMoveOut
    split
    · rfl
    · next j hj =>
      split
      · rfl
      · next w hw =>
        show upd s.heap j (some (movedFrom w)) i = none ↔ _
        rw [upd_apply]
        by_cases hij : i = j
        · subst hij; simp [hw]
        · simp [hij]

/-! non-vacuity: a reachable state in which an armed copy assignment throws and the target keeps its value;
    an armed move does not throw; the storage of the failed holder is cell 2, allocated and freed once -/
def tv : Val := ⟨.thr, 7⟩
def sT : St := run 3 init [.ctorVal 0 .lref tv, .ctorVal 1 .rref p7]

example : copied 3 sT (.asgnAny 1 0 .clref) = some tv ∧ (stepX 3 sT (.asgnAny 1 0 .clref, true)).2 = .threw ∧
          absPool (stepX 3 sT (.asgnAny 1 0 .clref, true)).1 1 = some (some p7) ∧
          absPool (stepX 3 sT (.asgnAny 1 0 .clref, false)).1 1 = some (some tv) := by decide
example : (stepX 3 sT (.asgnAny 1 0 .rref, true)).2 = .done ∧
          absPool (stepX 3 sT (.asgnAny 1 0 .rref, true)).1 1 = some (some tv) ∧
          absPool (stepX 3 sT (.asgnAny 1 0 .rref, true)).1 0 = some none := by decide
example : (stepX 3 sT (.ctorAny 2 0 .lref, true)).2 = .threw ∧ absPool (stepX 3 sT (.ctorAny 2 0 .lref, true)).1 2 = none ∧
          (stepX 3 sT (.castVal 0 .thr .clval, true)).2 = .threw ∧ (stepX 3 sT (.castVal 0 .thr .rvalMove, true)).2 = .cast (some tv) ∧
          (stepX 3 sT (.ctorVal 2 .clref p7, true)).2 = .src p7 := by decide
example : (stepX 3 sT (.asgnVal 1 .crref tv, true)).1.log.count (.alloc 2) = 1 ∧
          (stepX 3 sT (.asgnVal 1 .crref tv, true)).1.log.count (.free 2) = 1 ∧
          liveCells (destroyAll 3 (stepX 3 sT (.asgnVal 1 .crref tv, true)).1) = [] := by decide
/-- the matrix of a `Data` moved out as the library does it -/
example : (castValue (run 3 init [.ctorVal 0 .rref ⟨.mat, 4⟩]) (.named 0) .mat .rvalMove).2 = some ⟨.mat, 4⟩ ∧
          held (castValue (run 3 init [.ctorVal 0 .rref ⟨.mat, 4⟩]) (.named 0) .mat .rvalMove).1 (.named 0) = some ⟨.mat, -1⟩ := by decide

/-! ### Round 4: histories with faults, observations as functions of the abstract pool, necessity of hypotheses -/

/-- Every history in which any subset of the operations runs with the throwing probe armed refines the
    value-semantic specification with exceptions (`specStepX`: a throwing operation changes nothing), state by
    state and output by output (induction over the history). -/
theorem refines_spec_x (n : Nat) (xs : List (Op × Bool)) :
    absPool (runX n init xs) = specRunX n (absPool init) xs ∧
    ∀ x, (stepX n (runX n init xs) x).2 = (specStepX n (absPool (runX n init xs)) x).2 :=
  ⟨runX_refines xs (inv_init n), fun x => (stepX_refines (own_of_xops n xs) x).2⟩

/-- The invariant holds after every history with faults (throwing copy constructors, failing allocations). -/
theorem own_of_fops (n : Nat) (xs : List (Op × Fault)) : Inv n (runF n init xs) := inv_runF xs (inv_init n)

/-- Histories with faults refine the specification in which a faulting operation throws and changes nothing. -/
theorem refines_spec_f (n : Nat) (xs : List (Op × Fault)) :
    absPool (runF n init xs) = specRunF n (absPool init) xs ∧
    ∀ x, (stepF n (runF n init xs) x).2 = (specStepF n (absPool (runF n init xs)) x).2 :=
  ⟨runF_refines xs (inv_init n), fun x => (stepF_refines (own_of_fops n xs) x).2⟩

/-- Histories with the throwing probe armed are the histories with faults `none` / `copyThrows`. -/
theorem faults_generalise_armed (n : Nat) (xs : List (Op × Bool)) :
    runF n init (xs.map faultOfArmed) = runX n init xs := runF_of_armed n xs init

/-- No leak, no double free after any history with faults. -/
theorem no_leak_f (n : Nat) (xs : List (Op × Fault)) :
    let s := destroyAll n (runF n init xs)
    (∀ i, s.heap i = none) ∧ (∀ o, isLive s o = false) ∧ liveCells s = [] ∧
    (∀ i, s.log.count (.alloc i) = (if i < s.next then 1 else 0)) ∧
    (∀ i, s.log.count (.free i) = s.log.count (.alloc i)) :=
  no_leak_of_inv n _ (own_of_fops n xs)

/-- Strong guarantee for `std::bad_alloc`: when the j-th call of `operator new` of an operation fails — the
    storage of a holder, the buffer of the held copy inside the new-expression, the buffer of the copy a value
    cast returns — the operation throws and nothing a client can observe has changed. -/
theorem nomem_strong_guarantee (n : Nat) (s : St) (op : Op) (j : Nat) (hj : j < (news n s op).length) :
    (stepNoMem n s op j).2 = .threw ∧ absPool (stepNoMem n s op j).1 = absPool s ∧
    (∀ o, held (stepNoMem n s op j).1 o = held s o ∧ isLive (stepNoMem n s op j).1 o = isLive s o) ∧
    (stepNoMem n s op j).1.heap = s.heap := by
  rcases stepNoMem_cases n s op j with ⟨hle, _⟩ | ⟨_, h1, h2⟩
  · exact absurd hj (Nat.not_lt.2 hle)
  · refine ⟨h1, ?_, ?_, ?_⟩ <;> rcases h2 with e | e <;> rw [e] <;> first | rfl | (intro o; exact ⟨rfl, rfl⟩)

/-- When it is the storage of the holder itself that cannot be obtained, the state is literally unchanged (no
    ghost event either); an operation that makes fewer than j+1 calls is not affected. -/
theorem nomem_holder_no_trace (n : Nat) (s : St) (op : Op) (j : Nat) :
    ((news n s op)[j]? = some .holder → stepNoMem n s op j = (s, .threw)) ∧
    ((news n s op).length ≤ j → stepNoMem n s op j = step n s op) := by
  refine ⟨stepNoMem_holder, fun hle => ?_⟩
  rcases stepNoMem_cases n s op j with ⟨_, e⟩ | ⟨hlt, _⟩
  · exact e
  · exact absurd hlt (Nat.not_lt.2 hle)

/-- What a client observes of a slot — `has_value()`, `type()`, the outcome of every cast form to every type —
    is a function of the abstract pool, after every history with faults. -/
theorem view_is_abstract (n : Nat) (xs : List (Op × Fault)) (k : Nat) :
    viewSlot (runF n init xs) k = specViewSlot (absPool (runF n init xs)) k :=
  viewSlot_abs (own_of_fops n xs).own k

/-- Conservation of held objects, at every point of every history with faults: the number of live holder
    cells storing an object of type `t` equals the number of containers of the pool that hold an object of type
    `t` — no held object outlives its container's hold on it (leak) and none is destroyed early. -/
theorem held_objects_conserved (n : Nat) (xs : List (Op × Fault)) (t : Tag) :
    liveOfTag (runF n init xs) t = specLiveOfTag n (absPool (runF n init xs)) t :=
  liveOfTag_abs (own_of_fops n xs) t

/-- The same for any state satisfying the invariant. -/
theorem held_objects_conserved_of_inv (n : Nat) (s : St) (h : Inv n s) (t : Tag) :
    liveOfTag s t = specLiveOfTag n (absPool s) t ∧ ∀ k, viewSlot s k = specViewSlot (absPool s) k :=
  ⟨liveOfTag_abs h t, viewSlot_abs h.own⟩

/-! #### hypotheses are necessary: concrete witnesses -/

/-- `moved_from_empty` needs `a ≠ b`: after `a = std::move(a)` the container still holds its value. -/
theorem moved_from_empty_needs_distinct :
    liveN (run 3 init [.ctorVal 0 .rref p7]) 0 = true ∧
    hasValue (step 3 (run 3 init [.ctorVal 0 .rref p7]) (.asgnAny 0 0 .rref)).1 (.named 0) = true ∧
    held (step 3 (run 3 init [.ctorVal 0 .rref p7]) (.asgnAny 0 0 .rref)).1 (.named 0) = some p7 := by decide

/-- `copy_independent` needs `c ≠ .rref`: construction from `any&&` empties the source. -/
theorem copy_independent_needs_copy :
    held (step 3 (run 3 init [.ctorVal 0 .rref p7]) (.ctorAny 1 0 .rref)).1 (.named 0) = none ∧
    held (run 3 init [.ctorVal 0 .rref p7]) (.named 0) = some p7 := by decide

/-- a state with a dangling `content` (not reachable) -/
def dangling : St := { init with objs := upd init.objs (.named 0) (.live (some 0)) }

/-- `type_void_iff_empty` needs the ownership invariant: with a dangling `content` the container reports void
    although `has_value()` is true. -/
theorem type_void_needs_ownership :
    typeOf dangling (.named 0) = none ∧ hasValue dangling (.named 0) = true ∧ ¬ Own dangling :=
  ⟨by decide, by decide, fun h => h.live (.named 0) 0 rfl rfl⟩

/-- a state with an orphaned holder cell (not reachable): what a leak looks like -/
def leaky : St := { heap := upd init.heap 0 (some p7), next := 1, objs := init.objs, log := [.alloc 0] }

/-- `held_objects_conserved` needs the invariant (`Own.owned`): with an orphaned cell a probe is alive that no
    container holds, and destroying every container does not free it. -/
theorem conservation_needs_ownership :
    liveOfTag leaky .probe = 1 ∧ specLiveOfTag 3 (absPool leaky) .probe = 0 ∧
    liveCells (destroyAll 3 leaky) = [0] ∧ ¬ Own leaky := by
  refine ⟨by decide, by decide, by decide, fun h => ?_⟩
  obtain ⟨a, ha⟩ := h.owned 0 (by decide)
  cases a <;> simp [leaky, content, init] at ha

/-- the strong guarantee is about faulting operations only: the same copy assignment without a fault replaces
    the target's value (so `nomem_strong_guarantee` / `throw_strong_guarantee` are not vacuous restatements) -/
def sS : St := run 3 init [.ctorVal 0 .lref sx, .ctorVal 1 .rref p7]

example : news 3 sS (.asgnAny 1 0 .clref) = [.holder, .value] ∧ news 3 sS (.asgnAny 1 0 .rref) = [] ∧
          news 3 sS (.ctorVal 2 .rref sx) = [.holder] ∧ news 3 sS (.ctorVal 2 .crref sx) = [.holder, .value] ∧
          news 3 sS (.castVal 0 .str .clval) = [.value] ∧ news 3 sS (.castVal 0 .str .rvalMove) = [] ∧
          news 3 sS (.castVal 1 .probe .lval) = [] ∧ news 3 sS (.asgnAny 0 1 .lref) = [.holder] := by decide
example : (stepNoMem 3 sS (.asgnAny 1 0 .clref) 0).2 = .threw ∧ (stepNoMem 3 sS (.asgnAny 1 0 .clref) 0).1.next = sS.next ∧
          (stepNoMem 3 sS (.asgnAny 1 0 .clref) 1).2 = .threw ∧ (stepNoMem 3 sS (.asgnAny 1 0 .clref) 1).1.next = sS.next + 1 ∧
          absPool (stepNoMem 3 sS (.asgnAny 1 0 .clref) 1).1 1 = some (some p7) ∧
          (stepNoMem 3 sS (.asgnAny 1 0 .clref) 2).2 = .done ∧
          absPool (stepNoMem 3 sS (.asgnAny 1 0 .clref) 2).1 1 = some (some sx) := by decide
example : (stepF 3 sS (.castVal 0 .str .lval, .newFails 0)).2 = .threw ∧
          (stepF 3 sS (.castVal 0 .str .lval, .none)).2 = .cast (some sx) ∧
          liveCells (destroyAll 3 (runF 3 sS [(.asgnVal 1 .lref sx, .newFails 1), (.ctorAny 2 0 .clref, .newFails 0)])) = [] := by decide
example : liveOfTag sS .probe = 1 ∧ specLiveOfTag 3 (absPool sS) .probe = 1 ∧ liveOfTag sS .str = 1 ∧
          viewSlot sS 1 = specViewSlot (absPool sS) 1 ∧ (viewSlot sS 1).isSome = true := by decide

/-! #### frame property and observational equivalence, with faults -/

theorem specStepF_frame (n : Nat) (p : APool) (x : Op × Fault) (j : Nat) (h : mentions j x.1 = false) :
    (specStepF n p x).1 j = p j := by
  obtain ⟨op, f⟩ := x
  cases f with
  | none => exact specStep_frame n p op j h
  | copyThrows =>
    show (specStepX n p (op, true)).1 j = p j
    unfold specStepX
    cases specCopied n p op with
    | none => exact specStep_frame n p op j h
    | some v =>
      by_cases ht : v.tag = .thr
      · simp [ht]
      · simp only [ht, if_false]; exact specStep_frame n p op j h
  | newFails k =>
    show (if k < (specNews n p op).length then (p, Out.threw) else specStep n p op).1 j = p j
    split
    · rfl
    · exact specStep_frame n p op j h

/-- No operation reaches a container it does not name — also when it faults: any continuation with faults of
    any history with faults that does not name container j leaves j exactly as it was. -/
theorem independent_of_others_f (n : Nat) (xs more : List (Op × Fault)) (j : Nat)
    (h : ∀ x ∈ more, mentions j x.1 = false) :
    absPool (runF n (runF n init xs) more) j = absPool (runF n init xs) j := by
  have key : ∀ (l : List (Op × Fault)) (s : St), Inv n s → (∀ x ∈ l, mentions j x.1 = false) →
      absPool (runF n s l) j = absPool s j := by
    intro l
    induction l with
    | nil => intros; rfl
    | cons x rest ih =>
      intro s hs hl
      show absPool (runF n (stepF n s x).1 rest) j = _
      rw [ih _ (inv_stepF x hs) (fun o ho => hl o (List.mem_cons_of_mem _ ho)), (stepF_refines hs x).1]
      exact specStepF_frame n _ x j (hl x List.mem_cons_self)
  exact key more _ (own_of_fops n xs) h

/-- the outputs of a continuation -/
def outsF (n : Nat) : St → List (Op × Fault) → List Out
  | _, [] => []
  | s, x :: rest => (stepF n s x).2 :: outsF n (stepF n s x).1 rest

/-- Full abstraction: two states satisfying the invariant that show the same abstract pool — however different
    their heaps, cell numbers and ghost logs — cannot be told apart by any continuation with faults: same outputs
    (results, cast outcomes, `threw`), same abstract pool afterwards.  A client can rely on the value-semantic
    reading alone. -/
theorem observational_equivalence (n : Nat) (s1 s2 : St) (h1 : Inv n s1) (h2 : Inv n s2)
    (heq : absPool s1 = absPool s2) (xs : List (Op × Fault)) :
    outsF n s1 xs = outsF n s2 xs ∧ absPool (runF n s1 xs) = absPool (runF n s2 xs) := by
  induction xs generalizing s1 s2 with
  | nil => exact ⟨rfl, heq⟩
  | cons x rest ih =>
    have e1 := stepF_refines h1 x
    have e2 := stepF_refines h2 x
    have hst : absPool (stepF n s1 x).1 = absPool (stepF n s2 x).1 := by rw [e1.1, e2.1, heq]
    have hout : (stepF n s1 x).2 = (stepF n s2 x).2 := by rw [e1.2, e2.2, heq]
    obtain ⟨ih1, ih2⟩ := ih _ _ (inv_stepF x h1) (inv_stepF x h2) hst
    exact ⟨by simp only [outsF, hout, ih1], ih2⟩

/-- non-vacuity: two reachable states with different heaps (cell 0 vs cell 2 after a detour) and the same abstract pool -/
example : absPool (run 3 init [.ctorVal 0 .rref p7]) =
          absPool (run 3 init [.ctorVal 0 .lref sx, .ctorVal 1 .rref p7, .asgnAny 0 1 .rref, .destroy 1]) := by
  funext k
  match k with
  | 0 => decide
  | 1 => decide
  | 2 => decide
  | k + 3 => rfl
example : content (run 3 init [.ctorVal 0 .rref p7]) (.named 0) = some 0 ∧
          content (run 3 init [.ctorVal 0 .lref sx, .ctorVal 1 .rref p7, .asgnAny 0 1 .rref, .destroy 1]) (.named 0) = some 1 := by decide

end BFL.C20
